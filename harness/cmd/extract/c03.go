package main

import (
	"encoding/json"
	"fmt"
	"go/ast"
	"go/token"
	"os"
	"path/filepath"
	"regexp"
	"sort"
	"strings"
)

// C03: the handler identity-field table.
//
// For every rpc of every Msg service of the nine Paloma modules (taken from the generated
// `type MsgServer interface` in x/<mod>/types/*.pb.go) the extractor
//   1. enumerates every string / []string / []byte leaf of the request struct (recursively through
//      nested structs of the same package) and requires each to be classified in the REVIEWED table
//      /verif/tables/c03_fields.json (data | external | beneficiary | principal); an unclassified
//      field is an error (a new field must be reviewed);
//   2. reads the message's cosmos.msg.v1.signer option from the .proto source;
//   3. resolves the handler method on the keeper package's msgServer and derives, by an
//      intraprocedural def-use pass, the *discipline* the handler applies to metadata.creator and
//      to every field classified `principal`: EqCreator / EqAuthority guard (also inside the
//      message's ValidateBasic, which baseapp runs before the ante handler, and inside a
//      package-level guard function the request is passed to), ExternallySigned (the reviewed
//      verifier call precedes every other use), Unused, or Unguarded.
// Anything it does not understand is an error.
func init() { extractors["C03"] = extractC03 }

var c03Modules = []string{"consensus", "evm", "metrix", "paloma", "scheduler", "skyway", "tokenfactory", "treasury", "valset"}

const c03Creator = "Metadata.Creator"

type c03Verifier struct {
	Call     string `json:"call"`      // function the handler must call (error checked) before any other use
	InFunc   string `json:"in_func"`   // function (keeper package) that must contain ...
	MustCall string `json:"must_call"` // ... a call to this function (the signature check / recovery)
}

type c03FieldRev struct {
	Class    string       `json:"class"` // data | external | beneficiary | principal
	Why      string       `json:"why,omitempty"`
	Verifier *c03Verifier `json:"verifier,omitempty"`
}

type c03Unkeyed struct {
	Class    string       `json:"class"` // gov | state_derived | ext_signed
	Why      string       `json:"why,omitempty"`
	Verifier *c03Verifier `json:"verifier,omitempty"`
}

type c03MsgRev struct {
	Fields  map[string]c03FieldRev `json:"fields"`
	Unkeyed *c03Unkeyed            `json:"unkeyed_effect,omitempty"`
	// second round: writes whose key the sender chooses (c03_index.go), by written function
	IndexWrites map[string]c03IdxRev `json:"index_writes,omitempty"`
}

type c03Table struct {
	Messages map[string]c03MsgRev  `json:"messages"`
	Wasm     map[string]c03WasmRev `json:"wasm_bindings"` // third round: CosmWasm custom-message bindings
}

type c03Struct struct {
	Fields []c03SField
}
type c03SField struct {
	Name string
	Type ast.Expr
}

// ---- struct / interface collection from pb.go ----

func c03CollectTypes(files []*ast.File) (map[string]*c03Struct, [][2]string) {
	structs := map[string]*c03Struct{}
	var rpcs [][2]string
	for _, f := range files {
		for _, d := range f.Decls {
			gd, ok := d.(*ast.GenDecl)
			if !ok || gd.Tok != token.TYPE {
				continue
			}
			for _, s := range gd.Specs {
				ts := s.(*ast.TypeSpec)
				switch t := ts.Type.(type) {
				case *ast.StructType:
					st := &c03Struct{}
					for _, fl := range t.Fields.List {
						for _, n := range fl.Names {
							if strings.HasPrefix(n.Name, "XXX_") {
								continue
							}
							st.Fields = append(st.Fields, c03SField{n.Name, fl.Type})
						}
					}
					structs[ts.Name.Name] = st
				case *ast.InterfaceType:
					if ts.Name.Name != "MsgServer" {
						continue
					}
					for _, m := range t.Methods.List {
						ft, ok := m.Type.(*ast.FuncType)
						if !ok || len(m.Names) != 1 || len(ft.Params.List) != 2 {
							continue
						}
						star, ok := ft.Params.List[1].Type.(*ast.StarExpr)
						if !ok {
							continue
						}
						id, ok := star.X.(*ast.Ident)
						if !ok {
							continue
						}
						rpcs = append(rpcs, [2]string{m.Names[0].Name, id.Name})
					}
				}
			}
		}
	}
	return structs, rpcs
}

// c03Leaves lists the dotted paths of the string-like leaves of struct typ; hasMeta reports a
// `Metadata MsgMetadata` member (by value: the generated GetMetadata() then satisfies
// libmeta.MsgWithMetadata[valset.MsgMetadata]).
func c03Leaves(c *Ctx, structs map[string]*c03Struct, typ string, prefix string, depth int, seen map[string]bool) (leaves []string, hasMeta bool, err error) {
	st := structs[typ]
	if st == nil {
		return nil, false, fmt.Errorf("struct %s not found", typ)
	}
	if depth > 4 || seen[typ] {
		return nil, false, nil
	}
	seen[typ] = true
	defer delete(seen, typ)
	for _, f := range st.Fields {
		t := f.Type
		path := prefix + f.Name
		// unwrap pointers and slices
		base := t
		for {
			switch x := base.(type) {
			case *ast.StarExpr:
				base = x.X
				continue
			case *ast.ArrayType:
				if id, ok := x.Elt.(*ast.Ident); ok && id.Name == "byte" {
					base = ast.NewIdent("string") // []byte leaf
				} else {
					base = x.Elt
					continue
				}
			}
			break
		}
		src := c.Src(t)
		if strings.HasSuffix(src, "MsgMetadata") {
			if prefix == "" && f.Name == "Metadata" {
				if _, isStar := t.(*ast.StarExpr); isStar {
					return nil, false, fmt.Errorf("%s.Metadata is a pointer: GetMetadata() would not match libmeta.MsgWithMetadata", typ)
				}
				hasMeta = true
				continue
			}
			return nil, false, fmt.Errorf("%s: MsgMetadata at unexpected place %s", typ, path)
		}
		switch x := base.(type) {
		case *ast.Ident:
			switch x.Name {
			case "string":
				leaves = append(leaves, path)
			case "bool", "uint64", "int64", "uint32", "int32", "float64", "float32", "int", "uint":
			default:
				if _, ok := structs[x.Name]; ok {
					sub, _, err := c03Leaves(c, structs, x.Name, path+".", depth+1, seen)
					if err != nil {
						return nil, false, err
					}
					leaves = append(leaves, sub...)
				}
				// other named types (enums, isXxx oneof interfaces): enums carry no identity;
				// oneof interfaces are handled by listing their wrapper structs is not needed here
			}
		case *ast.SelectorExpr:
			// a type of another package. Address cast types are identity-bearing leaves.
			if strings.HasSuffix(x.Sel.Name, "Address") {
				leaves = append(leaves, path)
			}
			// Coin, Int, Dec, Any, Timestamp, Metadata (bank) ...: opaque values, no principal
		case *ast.InterfaceType, *ast.MapType:
		}
	}
	return leaves, hasMeta, nil
}

// ---- proto signer option ----

var c03MsgRe = regexp.MustCompile(`(?m)^message\s+(\w+)\s*\{`)
var c03SignerRe = regexp.MustCompile(`option\s*\(cosmos\.msg\.v1\.signer\)\s*=\s*"(\w+)"`)

func c03Signers(repo, mod string) (map[string]string, error) {
	out := map[string]string{}
	files, _ := filepath.Glob(filepath.Join(repo, "proto", "palomachain", "paloma", mod, "*.proto"))
	for _, p := range files {
		b, err := os.ReadFile(p)
		if err != nil {
			return nil, err
		}
		s := string(b)
		locs := c03MsgRe.FindAllStringSubmatchIndex(s, -1)
		for i, l := range locs {
			name := s[l[2]:l[3]]
			end := len(s)
			if i+1 < len(locs) {
				end = locs[i+1][0]
			}
			if m := c03SignerRe.FindStringSubmatch(s[l[1]:end]); m != nil {
				out[name] = m[1]
			}
		}
	}
	return out, nil
}

// ---- handler analysis ----

type c03Fn struct {
	c      *Ctx
	req    string              // name of the request parameter (or receiver, for ValidateBasic)
	auth   map[string]bool     // parameter names bound to the authority (inlined guard functions)
	assign map[string][]ast.Expr
	bind   map[string]map[string]bool // parameter name -> request paths it was called with (c03_index.go)
}

const c03Auth = "<authority>"
const c03Whole = "<whole>"

func c03GetterName(n string) string {
	if strings.HasPrefix(n, "Get") && len(n) > 3 {
		return n[3:]
	}
	return ""
}

// chain resolves e to a dotted request path if e is a selector / getter chain rooted at the
// request parameter ("" for the request itself); ok=false otherwise.
func (a *c03Fn) chain(e ast.Expr) (string, bool) {
	switch x := e.(type) {
	case *ast.ParenExpr:
		return a.chain(x.X)
	case *ast.StarExpr:
		return a.chain(x.X)
	case *ast.UnaryExpr:
		if x.Op == token.AND {
			return a.chain(x.X)
		}
	case *ast.Ident:
		if x.Name == a.req {
			return "", true
		}
	case *ast.SelectorExpr:
		if p, ok := a.chain(x.X); ok {
			if p == "" {
				return x.Sel.Name, true
			}
			return p + "." + x.Sel.Name, true
		}
	case *ast.CallExpr:
		if se, ok := x.Fun.(*ast.SelectorExpr); ok && len(x.Args) == 0 {
			if g := c03GetterName(se.Sel.Name); g != "" {
				if p, ok := a.chain(se.X); ok {
					if p == "" {
						return g, true
					}
					return p + "." + g, true
				}
			}
		}
	}
	return "", false
}

func (a *c03Fn) isAuthority(e ast.Expr) bool {
	switch x := e.(type) {
	case *ast.ParenExpr:
		return a.isAuthority(x.X)
	case *ast.SelectorExpr:
		if x.Sel.Name == "authority" {
			if _, ok := a.chain(x); !ok {
				return true
			}
		}
	case *ast.Ident:
		return a.auth[x.Name]
	}
	return false
}

// deriv: the set of request paths (and markers) the value of e is computed from.
func (a *c03Fn) deriv(e ast.Expr, out map[string]bool, guard map[string]bool) {
	if e == nil {
		return
	}
	if a.isAuthority(e) {
		out[c03Auth] = true
		return
	}
	if p, ok := a.chain(e); ok {
		if p == "" {
			out[c03Whole] = true
		} else {
			out[p] = true
		}
		return
	}
	switch x := e.(type) {
	case *ast.Ident:
		if b, ok := a.bind[x.Name]; ok {
			for k := range b {
				out[k] = true
			}
			return
		}
		if guard[x.Name] {
			return
		}
		guard[x.Name] = true
		for _, r := range a.assign[x.Name] {
			a.deriv(r, out, guard)
		}
		delete(guard, x.Name)
	case *ast.CallExpr:
		if se, ok := x.Fun.(*ast.SelectorExpr); ok {
			a.deriv(se.X, out, guard) // method receiver: addr.Bytes(), creator.String()
		}
		for _, arg := range x.Args {
			a.deriv(arg, out, guard)
		}
	case *ast.ParenExpr:
		a.deriv(x.X, out, guard)
	case *ast.StarExpr:
		a.deriv(x.X, out, guard)
	case *ast.UnaryExpr:
		a.deriv(x.X, out, guard)
	case *ast.BinaryExpr:
		a.deriv(x.X, out, guard)
		a.deriv(x.Y, out, guard)
	case *ast.SelectorExpr:
		a.deriv(x.X, out, guard)
	case *ast.IndexExpr:
		a.deriv(x.X, out, guard)
	case *ast.SliceExpr:
		a.deriv(x.X, out, guard)
	case *ast.TypeAssertExpr:
		a.deriv(x.X, out, guard)
	case *ast.CompositeLit:
		for _, el := range x.Elts {
			if kv, ok := el.(*ast.KeyValueExpr); ok {
				a.deriv(kv.Value, out, guard)
			} else {
				a.deriv(el, out, guard)
			}
		}
	}
}

func (a *c03Fn) d(e ast.Expr) map[string]bool {
	out := map[string]bool{}
	a.deriv(e, out, map[string]bool{})
	return out
}

func (a *c03Fn) collectAssigns(body *ast.BlockStmt) {
	ast.Inspect(body, func(n ast.Node) bool {
		switch s := n.(type) {
		case *ast.AssignStmt:
			if len(s.Rhs) == 1 {
				for _, l := range s.Lhs {
					if id, ok := l.(*ast.Ident); ok && id.Name != "_" && id.Name != "err" {
						a.assign[id.Name] = append(a.assign[id.Name], s.Rhs[0])
					}
				}
			} else if len(s.Rhs) == len(s.Lhs) {
				for i, l := range s.Lhs {
					if id, ok := l.(*ast.Ident); ok && id.Name != "_" && id.Name != "err" {
						a.assign[id.Name] = append(a.assign[id.Name], s.Rhs[i])
					}
				}
			}
		case *ast.ValueSpec:
			for i, n := range s.Names {
				if i < len(s.Values) {
					a.assign[n.Name] = append(a.assign[n.Name], s.Values[i])
				}
			}
		}
		return true
	})
}

type c03Eq struct {
	A, B map[string]bool
	Pos  token.Pos
	Site string
}

func c03ReturnsError(body *ast.BlockStmt) bool {
	if len(body.List) == 0 {
		return false
	}
	rs, ok := body.List[len(body.List)-1].(*ast.ReturnStmt)
	if !ok || len(rs.Results) == 0 {
		return false
	}
	last := rs.Results[len(rs.Results)-1]
	if id, ok := last.(*ast.Ident); ok && id.Name == "nil" {
		return false
	}
	return true
}

// disjuncts of a rejection condition: `a != b || c != d`
func c03Disjuncts(e ast.Expr) []ast.Expr {
	switch x := e.(type) {
	case *ast.ParenExpr:
		return c03Disjuncts(x.X)
	case *ast.BinaryExpr:
		if x.Op == token.LOR {
			return append(c03Disjuncts(x.X), c03Disjuncts(x.Y)...)
		}
	}
	return []ast.Expr{e}
}

// inequality recognises `A != B`, `!A.Equals(B)`, `!bytes.Equal(A, B)`.
func c03Inequality(e ast.Expr) (ast.Expr, ast.Expr, bool) {
	switch x := e.(type) {
	case *ast.ParenExpr:
		return c03Inequality(x.X)
	case *ast.BinaryExpr:
		if x.Op == token.NEQ {
			return x.X, x.Y, true
		}
	case *ast.UnaryExpr:
		if x.Op == token.NOT {
			if ce, ok := x.X.(*ast.CallExpr); ok {
				if se, ok := ce.Fun.(*ast.SelectorExpr); ok {
					if se.Sel.Name == "Equals" && len(ce.Args) == 1 {
						return se.X, ce.Args[0], true
					}
					if se.Sel.Name == "Equal" && len(ce.Args) == 2 {
						return ce.Args[0], ce.Args[1], true
					}
				}
			}
		}
	}
	return nil, nil, false
}

// guards of the top-level statements of body: rejection ifs on an inequality.
func (a *c03Fn) guards(body *ast.BlockStmt, site string, at token.Pos) []c03Eq {
	var out []c03Eq
	for _, st := range body.List {
		is, ok := st.(*ast.IfStmt)
		if !ok || !c03ReturnsError(is.Body) {
			continue
		}
		for _, dj := range c03Disjuncts(is.Cond) {
			x, y, ok := c03Inequality(dj)
			if !ok {
				continue
			}
			dx, dy := a.d(x), a.d(y)
			if len(dx) == 0 || len(dy) == 0 {
				continue // err != nil, len(x) != 0 ...
			}
			pos := is.Pos()
			if at != token.NoPos {
				pos = at
			}
			out = append(out, c03Eq{dx, dy, pos, site})
		}
	}
	return out
}

var c03Parsers = map[string]bool{
	"AccAddressFromBech32": true, "ValAddressFromBech32": true, "MustAccAddressFromBech32": true,
	"ValAddress": true, "AccAddress": true, "Bytes": true, "String": true, "Equals": true, "Equal": true,
	"VerifyAddressFormat": true, "Wrap": true, "Wrapf": true, "Errorf": true, "Sprintf": true, "Sprint": true,
	"NewAttribute": true, "NewEvent": true, "WithFields": true, "Debug": true, "Info": true, "Error": true,
}

func c03CalleeName(ce *ast.CallExpr) string {
	switch f := ce.Fun.(type) {
	case *ast.SelectorExpr:
		return f.Sel.Name
	case *ast.Ident:
		return f.Name
	}
	return ""
}

type c03Use struct {
	Paths  map[string]bool
	Pos    token.Pos
	Callee string
}

// uses: calls (other than parsers / formatters / guards already recognised) with an argument derived
// from request fields, and whole-message escapes.
func (a *c03Fn) uses(body *ast.BlockStmt) []c03Use {
	var out []c03Use
	ast.Inspect(body, func(n ast.Node) bool {
		ce, ok := n.(*ast.CallExpr)
		if !ok {
			return true
		}
		name := c03CalleeName(ce)
		if c03Parsers[name] {
			return true
		}
		paths := map[string]bool{}
		for _, arg := range ce.Args {
			for k := range a.d(arg) {
				paths[k] = true
			}
		}
		if len(paths) > 0 {
			out = append(out, c03Use{paths, ce.Pos(), name})
		}
		return true
	})
	// composite literals and plain assignments that store a derived value (e.g. job.Owner = x)
	ast.Inspect(body, func(n ast.Node) bool {
		if cl, ok := n.(*ast.CompositeLit); ok {
			paths := a.d(cl)
			if len(paths) > 0 {
				out = append(out, c03Use{paths, cl.Pos(), "<literal>"})
			}
		}
		return true
	})
	return out
}

func c03FuncsNamed(files []*ast.File, name string) []*ast.FuncDecl {
	var out []*ast.FuncDecl
	for _, f := range files {
		for _, d := range f.Decls {
			if fd, ok := d.(*ast.FuncDecl); ok && fd.Name.Name == name && fd.Body != nil {
				out = append(out, fd)
			}
		}
	}
	return out
}

func c03ContainsCall(fd *ast.FuncDecl, name string) bool {
	return len(Calls(fd.Body, name)) > 0
}

// the error of call `ce` (found as `err := ce` / `err = ce` / `if err := ce; err != nil`) is checked
// and returned right away.
func c03ErrChecked(body *ast.BlockStmt, callee string) (token.Pos, *ast.CallExpr, bool) {
	for i, st := range body.List {
		switch s := st.(type) {
		case *ast.IfStmt:
			if as, ok := s.Init.(*ast.AssignStmt); ok && len(as.Rhs) == 1 {
				if ce, ok := as.Rhs[0].(*ast.CallExpr); ok && c03CalleeName(ce) == callee && c03ReturnsError(s.Body) {
					return s.Pos(), ce, true
				}
			}
		case *ast.AssignStmt:
			if len(s.Rhs) != 1 {
				continue
			}
			ce, ok := s.Rhs[0].(*ast.CallExpr)
			if !ok || c03CalleeName(ce) != callee || i+1 >= len(body.List) {
				continue
			}
			if is, ok := body.List[i+1].(*ast.IfStmt); ok && c03ReturnsError(is.Body) {
				if be, ok := is.Cond.(*ast.BinaryExpr); ok && be.Op == token.NEQ {
					if id, ok := be.X.(*ast.Ident); ok && id.Name == "err" {
						return s.Pos(), ce, true
					}
				}
			}
		}
	}
	return token.NoPos, nil, false
}

type c03Row struct {
	Field string
	Disc  string
	Site  string
}

func c03Only(m map[string]bool, k string) bool { return len(m) == 1 && m[k] }

func extractC03(c *Ctx) error {
	tblPath := os.Getenv("VERIF_C03_TABLE")
	if tblPath == "" {
		tblPath = "/verif/tables/c03_fields.json"
	}
	var tbl c03Table
	b, err := os.ReadFile(tblPath)
	if err != nil {
		return err
	}
	if err := json.Unmarshal(b, &tbl); err != nil {
		return fmt.Errorf("%s: %v", tblPath, err)
	}
	seenMsg := map[string]bool{}

	c.P("From Paloma Require Import Auth.Discipline Auth.Objects Auth.Index.")
	c.P("")
	var specLines, nonId, handlerLines []string
	var unreviewed []string
	nHandlers, nRows, nLeaves := 0, 0, 0
	discCount := map[string]int{}
	writers, perModFuncs, err := c03Writers(c)
	if err != nil {
		return err
	}
	var idxRows []c03IdxRow
	for _, mod := range c03Modules {
		tfiles, err := c.ParseDir(filepath.Join("x", mod, "types"))
		if err != nil {
			return err
		}
		var pb, nonpb []*ast.File
		for _, f := range tfiles {
			if strings.HasSuffix(c.Fset.File(f.Pos()).Name(), ".pb.go") {
				pb = append(pb, f)
			} else {
				nonpb = append(nonpb, f)
			}
		}
		structs, rpcs := c03CollectTypes(pb)
		if len(rpcs) == 0 {
			continue // metrix: empty Msg service
		}
		signers, err := c03Signers(c.Repo, mod)
		if err != nil {
			return err
		}
		kfiles, err := c.ParseDir(filepath.Join("x", mod, "keeper"))
		if err != nil {
			return err
		}
		for _, rpc := range rpcs {
			method, reqT := rpc[0], rpc[1]
			name := mod + "." + reqT
			seenMsg[name] = true
			nHandlers++
			leaves, hasMeta, err := c03Leaves(c, structs, reqT, "", 0, map[string]bool{})
			if err != nil {
				return err
			}
			rev, okRev := tbl.Messages[name]
			if !okRev {
				unreviewed = append(unreviewed, fmt.Sprintf("%s: message not in table (fields: %s)", name, strings.Join(leaves, ", ")))
				continue
			}
			classOf := func(path string) (c03FieldRev, bool) {
				if r, ok := rev.Fields[path]; ok {
					return r, true
				}
				// prefix wildcard "Params.*"
				parts := strings.Split(path, ".")
				for i := len(parts) - 1; i >= 1; i-- {
					if r, ok := rev.Fields[strings.Join(parts[:i], ".")+".*"]; ok {
						return r, true
					}
				}
				return c03FieldRev{}, false
			}
			sk, ok := signers[reqT]
			if !ok {
				return fmt.Errorf("%s: no cosmos.msg.v1.signer option found in proto/palomachain/paloma/%s", name, mod)
			}
			var skCoq string
			switch sk {
			case "metadata":
				skCoq = "SignMetadata"
				if !hasMeta {
					return fmt.Errorf("%s: signer is metadata but the struct has no Metadata", name)
				}
			case "authority":
				skCoq = "SignAuthority"
			default:
				return fmt.Errorf("%s: signer option %q not understood", name, sk)
			}

			// handler
			var hd *ast.FuncDecl
			for _, f := range kfiles {
				if fd := FindFunc(f, "msgServer", method); fd != nil {
					hd = fd
				}
			}
			if hd == nil || hd.Body == nil {
				return fmt.Errorf("%s: handler msgServer.%s not found in x/%s/keeper", name, method, mod)
			}
			if len(hd.Type.Params.List) != 2 {
				return fmt.Errorf("%s: handler has unexpected parameters", name)
			}
			reqName := "_"
			if len(hd.Type.Params.List[1].Names) == 1 {
				reqName = hd.Type.Params.List[1].Names[0].Name
			}
			{
				rows, unrev := c03IndexRows(c, name, hd, reqName, perModFuncs[mod], writers, rev.IndexWrites)
				idxRows = append(idxRows, rows...)
				unreviewed = append(unreviewed, unrev...)
			}
			an := &c03Fn{c: c, req: reqName, auth: map[string]bool{}, assign: map[string][]ast.Expr{}}
			an.collectAssigns(hd.Body)
			eqs := an.guards(hd.Body, "handler", token.NoPos)
			// guard functions the request is handed to: f(k.authority, req) with its error checked
			for _, st := range hd.Body.List {
				var ce *ast.CallExpr
				var pos token.Pos
				switch s := st.(type) {
				case *ast.IfStmt:
					if as, ok := s.Init.(*ast.AssignStmt); ok && len(as.Rhs) == 1 && c03ReturnsError(s.Body) {
						ce, _ = as.Rhs[0].(*ast.CallExpr)
						pos = s.Pos()
					}
				case *ast.AssignStmt:
					if len(s.Rhs) == 1 {
						ce, _ = s.Rhs[0].(*ast.CallExpr)
						pos = s.Pos()
					}
				}
				if ce == nil {
					continue
				}
				id, ok := ce.Fun.(*ast.Ident)
				if !ok {
					continue
				}
				if _, _, chk := c03ErrChecked(hd.Body, id.Name); !chk {
					continue
				}
				for _, gf := range c03FuncsNamed(kfiles, id.Name) {
					if gf.Recv != nil || len(gf.Type.Params.List) != len(ce.Args) {
						continue
					}
					sub := &c03Fn{c: c, req: "", auth: map[string]bool{}, assign: map[string][]ast.Expr{}}
					bound := false
					for i, p := range gf.Type.Params.List {
						if len(p.Names) != 1 {
							continue
						}
						if pth, ok := an.chain(ce.Args[i]); ok && pth == "" {
							sub.req = p.Names[0].Name
							bound = true
						} else if an.isAuthority(ce.Args[i]) {
							sub.auth[p.Names[0].Name] = true
						}
					}
					if !bound {
						continue
					}
					sub.collectAssigns(gf.Body)
					eqs = append(eqs, sub.guards(gf.Body, "handler:"+id.Name, pos)...)
				}
			}
			// the message's ValidateBasic (baseapp.validateBasicTxMsgs runs it before the ante handler)
			for _, f := range nonpb {
				if vb := FindFunc(f, reqT, "ValidateBasic"); vb != nil && vb.Body != nil && vb.Recv != nil && len(vb.Recv.List[0].Names) == 1 {
					sub := &c03Fn{c: c, req: vb.Recv.List[0].Names[0].Name, auth: map[string]bool{}, assign: map[string][]ast.Expr{}}
					sub.collectAssigns(vb.Body)
					eqs = append(eqs, sub.guards(vb.Body, "ValidateBasic", token.Pos(1))...)
					// an ownership comparison the table relies on must not be preceded by an early success:
					// `return nil` before it lets a message through unchecked
					var last token.Pos
					for _, g := range sub.guards(vb.Body, "ValidateBasic", token.NoPos) {
						if g.Pos > last {
							last = g.Pos
						}
					}
					if last != token.NoPos {
						var early token.Pos
						ast.Inspect(vb.Body, func(n ast.Node) bool {
							rs, ok := n.(*ast.ReturnStmt)
							if !ok || rs.Pos() >= last {
								return true
							}
							allNil := len(rs.Results) > 0
							for _, r := range rs.Results {
								if id, ok := r.(*ast.Ident); !ok || id.Name != "nil" {
									allNil = false
								}
							}
							if allNil && early == token.NoPos {
								early = rs.Pos()
							}
							return true
						})
						if early != token.NoPos {
							return fmt.Errorf("%s.ValidateBasic: `return nil` at %s precedes the creator / authority comparison at %s: a message can pass before its ownership check (shape not understood)",
								name, c.Fset.Position(early), c.Fset.Position(last))
						}
					}
				}
			}
			uses := an.uses(hd.Body)
			// overwrites: `x.F = <creator-derived>` / `x.F, err = parse(creator)` at top level
			overwritten := map[string]token.Pos{}
			for _, st := range hd.Body.List {
				as, ok := st.(*ast.AssignStmt)
				if !ok || len(as.Rhs) != 1 {
					continue
				}
				if !c03Only(an.d(as.Rhs[0]), c03Creator) {
					continue
				}
				for _, l := range as.Lhs {
					se, ok := l.(*ast.SelectorExpr)
					if !ok {
						continue
					}
					if pth, ok := an.chain(se); ok {
						overwritten[pth] = as.Pos()
						continue
					}
					dx := an.d(se.X)
					if len(dx) == 1 {
						for k := range dx {
							if k != c03Whole && k != c03Auth {
								overwritten[k+"."+se.Sel.Name] = as.Pos()
							}
						}
					}
				}
			}

			// fixpoint: which paths are pinned to the authority / to the creator, and from where
			pinAuth := map[string]token.Pos{}
			pinCreator := map[string]token.Pos{}
			site := map[string]string{}
			siteC := map[string]string{}
			for changed := true; changed; {
				changed = false
				for _, e := range eqs {
					for _, pr := range [][2]map[string]bool{{e.A, e.B}, {e.B, e.A}} {
						x, y := pr[0], pr[1]
						if len(x) != 1 {
							continue
						}
						var f string
						for k := range x {
							f = k
						}
						if f == c03Auth || f == c03Whole {
							continue
						}
						isAuth := c03Only(y, c03Auth)
						if !isAuth && len(y) == 1 {
							for k := range y {
								if _, ok := pinAuth[k]; ok {
									isAuth = true
								}
							}
						}
						if isAuth {
							if _, ok := pinAuth[f]; !ok {
								pinAuth[f] = e.Pos
								site[f] = e.Site
								changed = true
							}
						}
						if c03Only(y, c03Creator) && f != c03Creator {
							if _, ok := pinCreator[f]; !ok {
								pinCreator[f] = e.Pos
								siteC[f] = e.Site
								changed = true
							}
						}
					}
				}
			}
			firstUse := func(f string, except string) (token.Pos, string) {
				best, who := token.NoPos, ""
				for _, u := range uses {
					if u.Callee == except {
						continue
					}
					hit := u.Paths[f] || u.Paths[c03Whole]
					if !hit {
						// a non-leaf prefix of f escaping (req.FeeSetting)
						for p := range u.Paths {
							if strings.HasPrefix(f, p+".") {
								hit = true
							}
						}
					}
					if hit && (best == token.NoPos || u.Pos < best) {
						best, who = u.Pos, u.Callee
					}
				}
				return best, who
			}

			var rows []c03Row
			// metadata.creator
			if hasMeta {
				disc := "Unused"
				if _, ok := pinAuth[c03Creator]; ok {
					disc = "EqAuthority"
				} else if p, _ := firstUse(c03Creator, ""); p != token.NoPos {
					disc = "FromCreator"
				} else {
					// referenced at all (e.g. only compared)?
					ref := false
					ast.Inspect(hd.Body, func(n ast.Node) bool {
						if e, ok := n.(ast.Expr); ok {
							if pth, ok := an.chain(e); ok && (pth == c03Creator || pth == "Metadata") {
								ref = true
							}
						}
						return true
					})
					if ref {
						disc = "FromCreator"
					}
				}
				if disc == "FromCreator" && skCoq == "SignAuthority" {
					// creator of an authority-signed message is not a verified signer; it may only be compared
					if p, who := firstUse(c03Creator, ""); p != token.NoPos && who != "" {
						return fmt.Errorf("%s: authority-signed message uses metadata.creator in %s", name, who)
					}
					disc = "Unused"
				}
				rows = append(rows, c03Row{c03Creator, disc, site[c03Creator]})
			}
			for _, lf := range leaves {
				nLeaves++
				fr, ok := classOf(lf)
				if !ok {
					unreviewed = append(unreviewed, fmt.Sprintf("%s: field %s not classified", name, lf))
					continue
				}
				switch fr.Class {
				case "data", "external":
					nonId = append(nonId, fmt.Sprintf("(%s, %s)", CoqStr(name), CoqStr(lf)))
				case "beneficiary":
					rows = append(rows, c03Row{lf, "Beneficiary", "reviewed"})
				case "principal":
					fu, who := firstUse(lf, "")
					disc := "Unguarded"
					st := ""
					if p, ok := pinAuth[lf]; ok && (fu == token.NoPos || p < fu) {
						disc, st = "EqAuthority", site[lf]
					} else if p, ok := overwritten[lf]; ok && (fu == token.NoPos || p < fu) {
						// the handler replaces the field by the creator-derived address before any use:
						// whatever the sender put there is ignored
						disc, st = "Unused", "handler:overwritten-from-creator"
					} else if p, ok := pinCreator[lf]; ok && (fu == token.NoPos || p < fu) {
						disc, st = "EqCreator", siteC[lf]
					} else if fr.Verifier != nil {
						v := fr.Verifier
						vpos, vce, chk := c03ErrChecked(hd.Body, v.Call)
						if chk {
							arg := false
							for _, x := range vce.Args {
								if an.d(x)[lf] {
									arg = true
								}
							}
							inner := false
							for _, fd := range c03FuncsNamed(kfiles, v.InFunc) {
								if _, _, ok := c03ErrChecked(fd.Body, v.MustCall); ok {
									inner = true
								}
							}
							other, _ := firstUse(lf, v.Call)
							if arg && inner && (other == token.NoPos || vpos < other) {
								disc, st = "ExternallySigned", "handler:"+v.Call+">"+v.MustCall
							}
						}
					} else if fu == token.NoPos {
						disc = "Unused"
					}
					_ = who
					rows = append(rows, c03Row{lf, disc, st})
				default:
					return fmt.Errorf("%s.%s: class %q not understood", name, lf, fr.Class)
				}
			}
			// table entries that name fields the struct no longer has
			for f := range rev.Fields {
				if strings.HasSuffix(f, ".*") {
					continue
				}
				found := false
				for _, lf := range leaves {
					if lf == f {
						found = true
					}
				}
				if !found {
					return fmt.Errorf("%s: table lists field %s which the request struct does not have", name, f)
				}
			}
			if rev.Unkeyed != nil {
				switch rev.Unkeyed.Class {
				case "gov":
					guarded := false
					for k := range pinAuth {
						_ = k
						guarded = true
					}
					if !guarded {
						rows = append(rows, c03Row{"<gov>", "Unguarded", ""})
					}
				case "state_derived":
					rows = append(rows, c03Row{"<state>", "StateDerived", "reviewed"})
				case "ext_signed":
					v := rev.Unkeyed.Verifier
					ok := false
					if v != nil {
						if len(Calls(hd.Body, v.Call)) > 0 {
							if _, _, chk := c03ErrChecked(hd.Body, v.Call); chk {
								for _, fd := range c03FuncsNamed(kfiles, v.InFunc) {
									if _, _, ok2 := c03ErrChecked(fd.Body, v.MustCall); ok2 {
										ok = true
									}
								}
							}
						}
					}
					if ok {
						rows = append(rows, c03Row{"<ext-signer>", "ExternallySigned", "handler:" + v.Call + ">" + v.MustCall})
					} else {
						rows = append(rows, c03Row{"<ext-signer>", "Unguarded", ""})
					}
				default:
					return fmt.Errorf("%s: unkeyed_effect class %q not understood", name, rev.Unkeyed.Class)
				}
			}
			var rs []string
			for _, r := range rows {
				rs = append(rs, fmt.Sprintf("(%s, %s)", CoqStr(r.Field), r.Disc))
				nRows++
				discCount[r.Disc]++
				if r.Site != "" {
					handlerLines = append(handlerLines, fmt.Sprintf("(* %s %s: %s at %s *)", name, r.Field, r.Disc, r.Site))
				}
			}
			hm := "false"
			if hasMeta {
				hm = "true"
			}
			specLines = append(specLines, fmt.Sprintf("  MkSpec %s %s %s [%s]", CoqStr(name), skCoq, hm, strings.Join(rs, "; ")))
		}
	}
	for m := range tbl.Messages {
		if !seenMsg[m] {
			return fmt.Errorf("table lists message %s which no Msg service has", m)
		}
	}
	if len(unreviewed) > 0 {
		sort.Strings(unreviewed)
		return fmt.Errorf("unreviewed identity-table entries (add them to %s):\n  %s", tblPath, strings.Join(unreviewed, "\n  "))
	}
	carried, carriedNames, err := c03AnteLoop(c)
	if err != nil {
		return err
	}
	c.P("(** VerifyAuthorisedSignatureDecorator.AnteHandle: variables declared OUTSIDE the per-message loop")
	c.P("    and used inside it (state carried from one message of the transaction to the next): %s *)", CoqStrList(carriedNames))
	if carried {
		c.P("Definition ante_lookup_carried : bool := true.")
	} else {
		c.P("Definition ante_lookup_carried : bool := false.")
	}
	c.P("")
	c.Info("ante_loop_carried", carriedNames)
	if err := c03ValsetCollision(c); err != nil {
		return err
	}
	extraFields, err := c03DecoratorState(c)
	if err != nil {
		return err
	}
	c.P("(** VerifyAuthorisedSignatureDecorator: fields besides the feegrant keeper (none: the decorator has no")
	c.P("    memory between transactions; a map / pointer / sync field or a package-level map is an error). *)")
	c.P("Definition decorator_extra_fields : list string := %s.", CoqStrList(extraFields))
	c.P("")
	if err := c03CreateDenomConsults(c); err != nil {
		return err
	}
	c.P("(** tokenfactory validateCreateDenom decides 'the denom exists' from bank's denom metadata (shape checked). *)")
	c.P("Definition create_denom_consults_bank_metadata : bool := true.")
	c.P("")
	c.P("(** valset SetExternalChainInfoState: EVERY incoming account is compared (address, key) with every")
	c.P("    account of every other validator: the comparison sits in a loop over the incoming list nested")
	c.P("    in the loops over the other validators' accounts; no index of the incoming accounts (shape checked). *)")
	c.P("Definition valset_collision_all_pairs : bool := true.")
	c.P("")
	maxDepth, err := c03Flatten(c)
	if err != nil {
		return err
	}
	c.P("(** flattenMsgs (x/paloma/ante.go): recursive, refuses a transaction that nests authz.MsgExec deeper")
	c.P("    than maxNestedMsgDepth BEFORE looking at that level, never leaves a level unvisited (shape checked). *)")
	c.P("Definition max_nested_depth : nat := %d.", maxDepth)
	c.P("")
	c.Info("max_nested_depth", maxDepth)
	c.P("(** One entry per rpc of every Msg service (%d handlers, %d string-like request fields reviewed). *)", nHandlers, nLeaves)
	c.P("Definition specs : list msgspec := [")
	c.P("%s", strings.Join(specLines, ";\n"))
	c.P("].")
	c.P("")
	sort.Strings(handlerLines)
	for _, l := range handlerLines {
		c.P("%s", l)
	}
	c.P("")
	c.P("(** Request fields reviewed as carrying no Paloma principal (tables/c03_fields.json). *)")
	c.P("Definition reviewed_non_identity : list (string * string) := [")
	c.P("  %s", strings.Join(nonId, ";\n  "))
	c.P("].")
	// ---- second round: index writes and the two code shapes of the object model ----
	c.P("")
	c.P("(** Index writes: store writes whose key the sender chooses, with the guards found before them")
	c.P("    in the AST and the reviewed expectation (tables/c03_fields.json, index_writes). *)")
	c.P("Definition index_rows : list idxrow := [")
	var il []string
	var bindGuard []string
	foundBind := false
	for _, r := range idxRows {
		il = append(il, fmt.Sprintf("  MkIdx %s %s %s %s %s %s %s %s", CoqStr(r.Rpc), CoqStr(r.Callee), CoqStrList(r.WFields), CoqStrList(r.Absent), CoqStrList(r.Owner),
			CoqStr(r.Kind), CoqStrList(r.Key), CoqStrList(r.OKey)))
		if r.Rpc == "skyway.MsgSetERC20ToTokenDenom" && r.Callee == "setDenomToERC20.Save" {
			bindGuard, foundBind = r.Absent, true
		}
	}
	c.P("%s", strings.Join(il, ";\n"))
	c.P("].")
	if !foundBind {
		return fmt.Errorf("skyway SetERC20ToTokenDenom: the write setDenomToERC20 was not found (shape not understood)")
	}
	tfCalls, err := c03TfGenesis(c)
	if err != nil {
		return err
	}
	c.P("")
	c.P("(** Shapes of the object model (Auth/Objects.v): the request fields the duplicate-binding lookup of")
	c.P("    SetERC20ToTokenDenom is keyed by; the keeper calls of tokenfactory's InitGenesis per imported denom, in order. *)")
	c.P("Definition code_shape : shape := MkShape %s %s.", CoqStrList(bindGuard), CoqStrList(tfCalls))
	wasmLines, wasmUnrev, nWasm, err := extractC03Wasm(c, tbl.Wasm)
	if err != nil {
		return err
	}
	if len(wasmUnrev) > 0 {
		return fmt.Errorf("unreviewed wasm binding entries (add them to %s, wasm_bindings):\n  %s", tblPath, strings.Join(wasmUnrev, "\n  "))
	}
	c.P("")
	c.P("(** CosmWasm custom-message bindings (libwasm router -> scheduler / skyway / tokenfactory messengers):")
	c.P("    the creator of such a message is the DISPATCHING CONTRACT; one row per identity-bearing body field. *)")
	c.P("Definition wasm_specs : list msgspec := [")
	c.P("%s", strings.Join(wasmLines, ";\n"))
	c.P("].")
	c.Info("wasm_bindings", nWasm)
	c.Info("index_rows", len(idxRows))
	c.Info("bind_guard_fields", bindGuard)
	c.Info("tf_import_calls", tfCalls)
	c.Info("handlers", nHandlers)
	c.Info("rows", nRows)
	c.Info("fields_reviewed", nLeaves)
	c.Info("disciplines", discCount)
	return nil
}

// c03AnteLoop inspects the decorator's loop over the messages of a transaction: which variables
// declared in the function body outside the loop are used inside it. The model (Auth/Ante.v,
// ante_loop) knows exactly one shape: nothing is carried (everything the check needs is declared
// in the loop body), or the grantee lookup table is. `err` and the ranged-over slice are exempt.
func c03AnteLoop(c *Ctx) (bool, []string, error) {
	f, err := c.Parse("x/paloma/ante.go")
	if err != nil {
		return false, nil, err
	}
	fd := FindFunc(f, "VerifyAuthorisedSignatureDecorator", "AnteHandle")
	if fd == nil || fd.Body == nil {
		return false, nil, fmt.Errorf("x/paloma/ante.go: VerifyAuthorisedSignatureDecorator.AnteHandle not found")
	}
	var loop *ast.RangeStmt
	outer := map[string]bool{}
	for _, st := range fd.Body.List {
		if rs, ok := st.(*ast.RangeStmt); ok && len(Calls(rs.Body, "AllowancesByGranter")) > 0 {
			if loop != nil {
				return false, nil, fmt.Errorf("AnteHandle: more than one loop queries the fee grants")
			}
			loop = rs
			continue
		}
		if loop != nil {
			continue
		}
		switch s := st.(type) {
		case *ast.AssignStmt:
			if s.Tok == token.DEFINE {
				for _, l := range s.Lhs {
					if id, ok := l.(*ast.Ident); ok {
						outer[id.Name] = true
					}
				}
			}
		case *ast.DeclStmt:
			if gd, ok := s.Decl.(*ast.GenDecl); ok {
				for _, sp := range gd.Specs {
					if vs, ok := sp.(*ast.ValueSpec); ok {
						for _, n := range vs.Names {
							outer[n.Name] = true
						}
					}
				}
			}
		}
	}
	if loop == nil {
		return false, nil, fmt.Errorf("AnteHandle: no top-level `for ... range` loop that queries AllowancesByGranter (shape not understood)")
	}
	if len(Calls(fd.Body, "AllowancesByGranter")) != len(Calls(loop.Body, "AllowancesByGranter")) {
		return false, nil, fmt.Errorf("AnteHandle: fee grants are queried outside the per-message loop (shape not understood)")
	}
	// the loop must iterate over every message: tx.GetMsgs() or the flattened list derived from it
	rangeSrc := c.Src(loop.X)
	if rangeSrc != "tx.GetMsgs()" && rangeSrc != "msgs" {
		return false, nil, fmt.Errorf("AnteHandle: loop ranges over %s (shape not understood)", rangeSrc)
	}
	// names (re)declared inside the loop body shadow the outer ones from there on; a simple
	// approximation that is exact for the shapes accepted here: a name counts as carried if it is
	// used in the body and never declared with := / var in the body.
	inner := map[string]bool{}
	ast.Inspect(loop.Body, func(n ast.Node) bool {
		switch s := n.(type) {
		case *ast.AssignStmt:
			if s.Tok == token.DEFINE {
				for _, l := range s.Lhs {
					if id, ok := l.(*ast.Ident); ok {
						inner[id.Name] = true
					}
				}
			}
		case *ast.ValueSpec:
			for _, n := range s.Names {
				inner[n.Name] = true
			}
		}
		return true
	})
	used := map[string]bool{}
	ast.Inspect(loop.Body, func(n ast.Node) bool {
		if id, ok := n.(*ast.Ident); ok && outer[id.Name] && !inner[id.Name] {
			used[id.Name] = true
		}
		return true
	})
	delete(used, "err")
	if id, ok := loop.X.(*ast.Ident); ok {
		delete(used, id.Name)
	}
	names := SortedSet(used)
	return len(names) > 0, names, nil
}

// c03Flatten: the only shape of flattenMsgs the model (Auth/Ante.v, flat) knows: a function
// (msgs, depth) whose FIRST statement refuses `depth > maxNestedMsgDepth`, followed by one loop over
// msgs that keeps every message and, for an *authz.MsgExec, recurses into ALL its messages with
// depth+1, returning the error; called with depth 0 on tx.GetMsgs(). Anything else — in particular
// a walk that can stop with levels pending — is an error.
func c03Flatten(c *Ctx) (int, error) {
	f, err := c.Parse("x/paloma/ante.go")
	if err != nil {
		return 0, err
	}
	fd := FindFunc(f, "", "flattenMsgs")
	bad := func(why string) (int, error) {
		return 0, fmt.Errorf("x/paloma/ante.go flattenMsgs: %s (shape not understood: the model of nested transactions knows the recursive walk that refuses beyond maxNestedMsgDepth only)", why)
	}
	if fd == nil || fd.Body == nil {
		return bad("not found")
	}
	var params []string
	for _, p := range fd.Type.Params.List {
		for _, n := range p.Names {
			params = append(params, n.Name)
		}
	}
	if len(params) != 2 {
		return bad("expected parameters (msgs, depth)")
	}
	msgsP, depthP := params[0], params[1]
	lit, ok := ConstValue(c, []*ast.File{f}, "maxNestedMsgDepth")
	if !ok {
		return bad("constant maxNestedMsgDepth not found")
	}
	var max int
	if _, err := fmt.Sscanf(lit, "%d", &max); err != nil || max < 1 || max > 64 {
		return bad("maxNestedMsgDepth is not a small positive literal")
	}
	if len(fd.Body.List) < 3 {
		return bad("body too short")
	}
	is, ok := fd.Body.List[0].(*ast.IfStmt)
	if !ok || c.Src(is.Cond) != depthP+" > maxNestedMsgDepth" || !c03ReturnsError(is.Body) {
		return bad("the first statement is not `if depth > maxNestedMsgDepth { return error }`")
	}
	var loop *ast.RangeStmt
	nLoops := 0
	ast.Inspect(fd.Body, func(n ast.Node) bool {
		switch x := n.(type) {
		case *ast.RangeStmt:
			nLoops++
			loop = x
		case *ast.ForStmt:
			nLoops += 2
		}
		return true
	})
	if nLoops != 1 || c.Src(loop.X) != msgsP {
		return bad("expected exactly one `for _, msg := range msgs` loop")
	}
	rec := Calls(loop.Body, "flattenMsgs")
	if len(rec) != 1 || len(rec[0].Args) != 2 || c.Src(rec[0].Args[1]) != depthP+" + 1" && c.Src(rec[0].Args[1]) != depthP+"+1" {
		return bad("expected one recursive call flattenMsgs(inner, depth+1) in the loop")
	}
	gm := Calls(loop.Body, "GetMessages")
	if len(gm) != 1 || c.Src(rec[0].Args[0]) != "inner" {
		return bad("the recursion is not over exec.GetMessages()")
	}
	if _, _, chk := c03ErrChecked(loop.Body, "flattenMsgs"); !chk {
		return bad("the error of the recursive call is not returned")
	}
	for _, st := range loop.Body.List {
		if b, ok := st.(*ast.BranchStmt); ok && b.Tok == token.BREAK {
			return bad("break in the loop")
		}
	}
	// call site: depth 0 on the transaction's messages
	ah := FindFunc(f, "VerifyAuthorisedSignatureDecorator", "AnteHandle")
	if ah == nil {
		return bad("AnteHandle not found")
	}
	cs := Calls(ah.Body, "flattenMsgs")
	if len(cs) != 1 || len(cs[0].Args) != 2 || c.Src(cs[0].Args[0]) != "tx.GetMsgs()" || c.Src(cs[0].Args[1]) != "0" {
		return bad("AnteHandle does not call flattenMsgs(tx.GetMsgs(), 0)")
	}
	return max, nil
}

// c03ValsetCollision: the only shape of the 'already registered by another validator' check the
// review of valset.MsgAddExternalChainInfoForValidator (index row under_creator, table class
// external) relies on: the comparison `new.GetAddress() == existing.GetAddress() || bytes.Equal(
// new.GetPubkey(), existing.GetPubkey())` feeding collisionErrors.Add sits inside a `range` over the
// function's incoming list, itself inside the ranges over every other validator's accounts, and the
// function builds no map (an index of the incoming accounts keyed without the address compares only
// one account per key).
func c03ValsetCollision(c *Ctx) error {
	files, err := c.ParseDir("x/valset/keeper")
	if err != nil {
		return err
	}
	fd := FindFuncIn(files, "Keeper", "SetExternalChainInfoState")
	bad := func(why string) error {
		return fmt.Errorf("x/valset/keeper SetExternalChainInfoState: %s (shape not understood: every incoming account must be compared with every account of every other validator)", why)
	}
	if fd == nil || fd.Body == nil {
		return bad("not found")
	}
	var params []string
	for _, p := range fd.Type.Params.List {
		for _, n := range p.Names {
			params = append(params, n.Name)
		}
	}
	if len(params) != 3 {
		return bad("expected parameters (ctx, valAddr, chainInfos)")
	}
	incoming := params[2]
	hasMap := false
	ast.Inspect(fd.Body, func(n ast.Node) bool {
		if _, ok := n.(*ast.MapType); ok {
			hasMap = true
		}
		return true
	})
	if hasMap {
		return bad("the function builds a map")
	}
	adds := Calls(fd.Body, "Add")
	found := 0
	var walk func(n ast.Node, ranges []string)
	walk = func(n ast.Node, ranges []string) {
		ast.Inspect(n, func(x ast.Node) bool {
			switch v := x.(type) {
			case *ast.RangeStmt:
				if v == n {
					return true
				}
				walk(v.Body, append(append([]string{}, ranges...), c.Src(v.X)))
				return false
			case *ast.IfStmt:
				src := c.Src(v.Cond)
				if strings.Contains(src, "GetAddress() ==") && strings.Contains(src, "||") && strings.Contains(src, "bytes.Equal(") && strings.Contains(src, "GetPubkey()") &&
					len(Calls(v.Body, "Add")) == 1 {
					in := false
					for _, r := range ranges {
						if r == incoming {
							in = true
						}
					}
					if in && len(ranges) == 3 {
						found++
					}
				}
			}
			return true
		})
	}
	walk(fd.Body, nil)
	if found != 1 || len(adds) != 1 {
		return bad("the address-or-key comparison is not (once) inside a loop over the incoming accounts nested in the loops over the other validators' accounts")
	}
	return nil
}

// c03DecoratorState: the decorator's struct must hold the feegrant keeper only, and x/paloma/ante.go
// no package-level mutable container: anything a transaction could leave behind for the next one
// (a cache) makes "a grant that exists NOW" unsound.
func c03DecoratorState(c *Ctx) ([]string, error) {
	f, err := c.Parse("x/paloma/ante.go")
	if err != nil {
		return nil, err
	}
	var extra []string
	found := false
	for _, d := range f.Decls {
		gd, ok := d.(*ast.GenDecl)
		if !ok {
			continue
		}
		switch gd.Tok {
		case token.TYPE:
			for _, sp := range gd.Specs {
				ts := sp.(*ast.TypeSpec)
				st, ok := ts.Type.(*ast.StructType)
				if !ok || ts.Name.Name != "VerifyAuthorisedSignatureDecorator" {
					continue
				}
				found = true
				for _, fl := range st.Fields.List {
					typ := c.Src(fl.Type)
					for _, n := range fl.Names {
						if n.Name == "fk" && strings.HasSuffix(typ, "FeegrantKeeper") {
							continue
						}
						if strings.Contains(typ, "map[") || strings.Contains(typ, "*") || strings.Contains(typ, "sync.") || strings.Contains(typ, "chan ") || strings.Contains(typ, "[]") || strings.Contains(strings.ToLower(typ), "cache") {
							return nil, fmt.Errorf("x/paloma/ante.go: VerifyAuthorisedSignatureDecorator has field %s %s: the decorator keeps state between transactions (shape not understood: the model's decorator reads the grants from the store for every message)", n.Name, typ)
						}
						extra = append(extra, n.Name)
					}
				}
			}
		case token.VAR:
			for _, sp := range gd.Specs {
				vs := sp.(*ast.ValueSpec)
				src := c.Src(vs)
				if len(vs.Names) == 1 && vs.Names[0].Name == "_" {
					continue
				}
				if strings.Contains(src, "map[") || strings.Contains(src, "sync.") || strings.Contains(src, "make(") || strings.Contains(strings.ToLower(src), "cache") {
					return nil, fmt.Errorf("x/paloma/ante.go: package-level variable %s: state shared between transactions (shape not understood)", src)
				}
			}
		}
	}
	if !found {
		return nil, fmt.Errorf("x/paloma/ante.go: type VerifyAuthorisedSignatureDecorator not found")
	}
	return extra, nil
}

// c03CreateDenomConsults: validateCreateDenom must refuse on `_, found := k.bankKeeper.GetDenomMetaData`
// (or HasDenomMetaData) and consult nothing of the module's own records (the authority metadata of a
// denom whose admin role was renounced is empty: the denom would look free).
func c03CreateDenomConsults(c *Ctx) error {
	files, err := c.ParseDir("x/tokenfactory/keeper")
	if err != nil {
		return err
	}
	fd := FindFuncIn(files, "Keeper", "validateCreateDenom")
	bad := func(why string) error {
		return fmt.Errorf("x/tokenfactory/keeper validateCreateDenom: %s (shape not understood: 'the denom exists' must be decided from bank's denom metadata)", why)
	}
	if fd == nil || fd.Body == nil {
		return bad("not found")
	}
	if len(Calls(fd.Body, "GetDenomMetaData"))+len(Calls(fd.Body, "HasDenomMetaData")) != 1 {
		return bad("bank denom metadata is not consulted exactly once")
	}
	for _, n := range []string{"GetAuthorityMetadata", "GetDenomsFromCreator", "GetCreatorPrefixStore", "GetDenomPrefixStore", "Get", "Has"} {
		if len(Calls(fd.Body, n)) > 0 {
			return bad("consults " + n)
		}
	}
	ok := false
	for _, st := range fd.Body.List {
		is, isIf := st.(*ast.IfStmt)
		if !isIf || !c03ReturnsError(is.Body) {
			continue
		}
		cs := c.Src(is.Cond)
		if cs == "found" || strings.Contains(cs, "HasDenomMetaData(") {
			if strings.Contains(c.Src(is.Body), "ErrDenomExists") {
				ok = true
			}
		}
	}
	if !ok {
		return bad("no `if found { return ErrDenomExists }`")
	}
	return nil
}
