package main

// C08: the inventory of every place where state-machine code of x/, util/, app/ can observe
// something that is not chain history: the order of a Go map iteration, the process environment,
// the file system / OS, the wall clock, a random source, goroutine scheduling, package-level
// mutable state, in-memory fields written through a pointer receiver.
//
// Types are needed (is this `range` over a map?  is `rand` math/rand?), so the packages are loaded
// with golang.org/x/tools/go/packages (the version already in /repo's module graph), type-checked
// from source, dependencies from export data.  Any load / type error is a hard error.
//
// Every site gets the key (kind, package, function, expression, ordinal); the reviewed table
// /verif/tables/c08_sites.json maps keys to a class: "benign:<reason>" or "lemma:<Coq theorem>".
// A handful of syntactic shapes are classified automatically (collect-then-sort, set/map insert
// only, ...).  Gen/C08.v lists all sites with both classifications; the theorem
// nondet_sites_closed (Properties/C08.v) is `forallb classified sites = true`.

import (
	"crypto/sha256"
	"encoding/hex"
	"encoding/json"
	"fmt"
	"go/ast"
	"go/token"
	"go/types"
	"os"
	"path/filepath"
	"sort"
	"strings"

	"golang.org/x/tools/go/packages"
)

func init() { extractors["C08"] = extractC08 }

type c08Site struct {
	Kind, Pkg, Func, Expr string
	Ord                   int
	Auto                  string // syntactic rule that classifies the site, or ""
	Class                 string // from the reviewed table, or ""
	Pos                   string // file:line, informational only (not part of the key)
	FuncKey               string // import path + "." + [Recv.]Name of the enclosing function
	Body                  string // MapRange: hash of the range statement and of everything that follows it in its block
	Stale                 string // a table entry matched the key but was reviewed against another body
	Effects               string // MapRange: what leaves the loop body besides control flow (events, writes to outer non-bool variables, appends)
}

type c08TableEntry struct {
	Kind  string `json:"kind"`
	Pkg   string `json:"pkg"`
	Func  string `json:"func"`
	Expr  string `json:"expr"`
	Ord   int    `json:"ord"`
	Class string `json:"class"`
	// Body binds a reviewed MapRange classification to the code that was reviewed: the hash of the range
	// statement and of the statements after it in the same block (what consumes the loop's result).  A change
	// there un-classifies the site until it is reviewed again.
	Body string `json:"body,omitempty"`
	Note string `json:"note,omitempty"`
}

var c08Patterns = []string{"./x/...", "./util/...", "./app/..."}

// directories (path elements) and files that are not state-machine code
var c08ExcludedDirElems = []string{"client", "cli", "mocks", "simulation", "testutil"}
var c08ExcludedFileSuffixes = []string{"_test.go", ".pb.go", ".pb.gw.go"}
var c08ExcludedFiles = []string{"x/skyway/keeper/test_common.go"} // test fixture in a non-test file

// packages whose every function reads the process / OS / scheduler / a random source
var c08AmbientPkgs = map[string]string{
	"os":           "OsCall",
	"os/exec":      "OsCall",
	"os/signal":    "OsCall",
	"os/user":      "OsCall",
	"runtime":      "OsCall",
	"syscall":      "OsCall",
	"net":          "OsCall",
	"net/http":     "OsCall",
	"io/ioutil":    "OsCall",
	"math/rand":    "Random",
	"math/rand/v2": "Random",
	"crypto/rand":  "Random",
}

// functions of package time that read the wall clock or start timers
var c08TimeFuncs = map[string]bool{"Now": true, "Since": true, "Until": true, "After": true, "AfterFunc": true,
	"Tick": true, "Sleep": true, "NewTimer": true, "NewTicker": true}

// Round 3.  Constructors of package time whose result is a time.Time in the PROCESS-LOCAL zone (TZ,
// /etc/localtime): the instant is chain data, the zone is not.  (time.Date / time.ParseInLocation / Time.In
// with the literal location time.UTC are not sites; time.Parse attaches the local zone when the text's
// offset is one the local zone uses.)
var c08LocalTimeFuncs = map[string]bool{"Unix": true, "UnixMilli": true, "UnixMicro": true, "Date": true, "Parse": true, "ParseInLocation": true}

// methods of time.Time that look only at the instant, never at the zone
var c08InstantMethods = map[string]bool{"Unix": true, "UnixNano": true, "UnixMilli": true, "UnixMicro": true, "Sub": true,
	"Before": true, "After": true, "Equal": true, "Compare": true, "IsZero": true, "UTC": true, "Nanosecond": true}

// methods of time.Time whose result is again a time in the same zone: look at what happens to THEIR result
var c08SameZoneMethods = map[string]bool{"Add": true, "Round": true, "Truncate": true}

// methods of time.Time that take another time and look only at the instants
var c08InstantArgMethods = map[string]bool{"Sub": true, "Before": true, "After": true, "Equal": true, "Compare": true}

// methods of time.Time whose result depends on the zone the value carries (calendar arithmetic, rendering)
var c08ZoneMethods = map[string]bool{"AddDate": true, "Date": true, "Clock": true, "Year": true, "Month": true, "Day": true,
	"Hour": true, "Minute": true, "Second": true, "Weekday": true, "YearDay": true, "ISOWeek": true, "Format": true,
	"AppendFormat": true, "String": true, "GoString": true, "Zone": true, "ZoneBounds": true, "Location": true, "IsDST": true,
	"MarshalJSON": true, "MarshalText": true, "MarshalBinary": true, "GobEncode": true}

// functions that return the keys / values of a map in iteration order
var c08MapOrderPkgs = map[string]bool{"maps": true, "golang.org/x/exp/maps": true}

// os functions that do not read anything ambient
var c08OsPure = map[string]bool{"os.IsNotExist": true, "os.IsExist": true, "os.ErrNotExist": true}

func c08Excluded(rel string) bool {
	for _, s := range c08ExcludedFileSuffixes {
		if strings.HasSuffix(rel, s) {
			return true
		}
	}
	for _, f := range c08ExcludedFiles {
		if rel == f {
			return true
		}
	}
	for _, el := range strings.Split(filepath.ToSlash(filepath.Dir(rel)), "/") {
		for _, x := range c08ExcludedDirElems {
			if el == x {
				return true
			}
		}
	}
	return false
}

func c08IsGenerated(f *ast.File) bool {
	for _, cg := range f.Comments {
		if cg.Pos() > f.Package {
			break
		}
		for _, c := range cg.List {
			if strings.Contains(c.Text, "Code generated") && strings.Contains(c.Text, "DO NOT EDIT") {
				return true
			}
		}
	}
	return false
}

func c08CoreMap(t types.Type) bool {
	if t == nil {
		return false
	}
	switch u := t.Underlying().(type) {
	case *types.Map:
		return true
	case *types.Interface:
		// type parameter: every term of the constraint must be a map
		if tp, ok := t.(*types.TypeParam); ok {
			iface, _ := tp.Constraint().Underlying().(*types.Interface)
			if iface == nil {
				return false
			}
			all, any := true, false
			for i := 0; i < iface.NumEmbeddeds(); i++ {
				switch e := iface.EmbeddedType(i).(type) {
				case *types.Union:
					for j := 0; j < e.Len(); j++ {
						any = true
						if _, ok := e.Term(j).Type().Underlying().(*types.Map); !ok {
							all = false
						}
					}
				default:
					any = true
					if _, ok := e.Underlying().(*types.Map); !ok {
						all = false
					}
				}
			}
			return any && all
		}
		_ = u
	}
	return false
}

func extractC08(c *Ctx) error {
	repo, err := filepath.Abs(c.Repo)
	if err != nil {
		return err
	}
	cfg := &packages.Config{
		Mode: packages.NeedName | packages.NeedFiles | packages.NeedCompiledGoFiles | packages.NeedImports |
			packages.NeedTypes | packages.NeedSyntax | packages.NeedTypesInfo | packages.NeedTypesSizes,
		Dir:   repo,
		Fset:  c.Fset,
		Tests: false,
		Env:   append(os.Environ(), "GOFLAGS=-mod=mod", "GOPROXY=off", "GOSUMDB=off", "GOTOOLCHAIN=local", "GOWORK=off"),
	}
	pkgs, err := packages.Load(cfg, c08Patterns...)
	if err != nil {
		return fmt.Errorf("packages.Load: %w", err)
	}
	if len(pkgs) == 0 {
		return fmt.Errorf("no packages loaded from %s", repo)
	}
	sort.Slice(pkgs, func(i, j int) bool { return pkgs[i].PkgPath < pkgs[j].PkgPath })
	var sites []*c08Site
	usedFuncs := map[string]bool{} // functions referenced from scanned (non-test, non-CLI) files
	nfiles, nskipped := 0, 0
	var scanned []string
	for _, p := range pkgs {
		if len(p.Errors) > 0 {
			return fmt.Errorf("package %s does not load cleanly: %v", p.PkgPath, p.Errors[0])
		}
		if p.TypesInfo == nil || p.Types == nil {
			return fmt.Errorf("package %s: no type information", p.PkgPath)
		}
		if len(p.Syntax) != len(p.CompiledGoFiles) {
			return fmt.Errorf("package %s: %d syntax trees for %d files", p.PkgPath, len(p.Syntax), len(p.CompiledGoFiles))
		}
		for i, f := range p.Syntax {
			rel, err := filepath.Rel(repo, p.CompiledGoFiles[i])
			if err != nil || strings.HasPrefix(rel, "..") {
				return fmt.Errorf("file outside the repository: %s", p.CompiledGoFiles[i])
			}
			rel = filepath.ToSlash(rel)
			if c08Excluded(rel) || c08IsGenerated(f) {
				nskipped++
				continue
			}
			nfiles++
			scanned = append(scanned, rel)
			ss, err := c08ScanFile(c, p, f, rel)
			if err != nil {
				return err
			}
			sites = append(sites, ss...)
			for id, obj := range p.TypesInfo.Uses {
				if id.Pos() < f.Pos() || id.Pos() > f.End() {
					continue
				}
				if fo, ok := obj.(*types.Func); ok && fo.Pkg() != nil {
					usedFuncs[c08FuncObjKey(fo.Origin())] = true
				}
			}
		}
	}
	// ordinals: position among the sites with the same (kind, pkg, func, expr), in source order
	cnt := map[string]int{}
	for _, s := range sites {
		k := s.Kind + "\x00" + s.Pkg + "\x00" + s.Func + "\x00" + s.Expr
		s.Ord = cnt[k]
		cnt[k]++
	}
	// reviewed table
	tablePath := filepath.Join(c.Out, "..", "..", "..", "tables", "c08_sites.json")
	var table []c08TableEntry
	if raw, err := os.ReadFile(tablePath); err == nil {
		if err := json.Unmarshal(raw, &table); err != nil {
			return fmt.Errorf("%s: %w", tablePath, err)
		}
	} else if !os.IsNotExist(err) {
		return err
	}
	used := make([]bool, len(table))
	for _, s := range sites {
		for i, e := range table {
			if e.Kind == s.Kind && e.Pkg == s.Pkg && e.Func == s.Func && e.Expr == s.Expr && e.Ord == s.Ord {
				if !strings.HasPrefix(e.Class, "benign:") && !strings.HasPrefix(e.Class, "lemma:") && !strings.HasPrefix(e.Class, "open:") {
					return fmt.Errorf("%s: class %q of %s/%s must start with benign:, lemma: or open:", tablePath, e.Class, e.Pkg, e.Func)
				}
				if strings.HasPrefix(e.Class, "benign:unreferenced") && usedFuncs[s.FuncKey] {
					return fmt.Errorf("%s: %s %s is classified %q but the function is referenced from non-test code", tablePath, s.Pkg, s.Func, e.Class)
				}
				used[i] = true
				if s.Kind == "MapRange" && e.Class == "lemma:any_order_bool_perm_invariant" && s.Effects != "" {
					// an exists / for-all loop is order-independent only if NOTHING but the boolean leaves it
					s.Stale = "classified any-order boolean, but the loop body has effects: " + s.Effects
					continue
				}
				if s.Kind == "MapRange" && e.Body != s.Body {
					// reviewed against other code: not accepted until reviewed again
					s.Stale = fmt.Sprintf("reviewed body %q, current body %q", e.Body, s.Body)
					continue
				}
				s.Class = e.Class
			}
		}
	}
	stale := 0
	for _, u := range used {
		if !u {
			stale++
		}
	}
	sort.SliceStable(sites, func(i, j int) bool {
		a, b := sites[i], sites[j]
		if a.Pkg != b.Pkg {
			return a.Pkg < b.Pkg
		}
		if a.Func != b.Func {
			return a.Func < b.Func
		}
		if a.Kind != b.Kind {
			return a.Kind < b.Kind
		}
		if a.Expr != b.Expr {
			return a.Expr < b.Expr
		}
		return a.Ord < b.Ord
	})

	c.P("(* C08 site inventory: %d packages, %d files scanned, %d files skipped (tests, generated, CLI, mocks, simulation). *)", len(pkgs), nfiles, nskipped)
	c.P("(* patterns %s; excluded directory elements %s; excluded files %s + *_test.go, *.pb.go, *.pb.gw.go, `Code generated` *)",
		strings.Join(c08Patterns, " "), strings.Join(c08ExcludedDirElems, ","), strings.Join(c08ExcludedFiles, ","))
	c.P("Record site := { s_kind : string; s_pkg : string; s_func : string; s_expr : string; s_ord : Z; s_auto : string; s_class : string }.")
	c.P("Definition sites : list site := [")
	byKind := map[string]int{}
	unclassified := 0
	var uncl []c08TableEntry
	for i, s := range sites {
		sep := ";"
		if i+1 == len(sites) {
			sep = ""
		}
		if s.Body != "" {
			c.P("  (* body %s %s *)", s.Body, s.Stale)
		}
		c.P("  (* %s *) {| s_kind := %s; s_pkg := %s; s_func := %s; s_expr := %s; s_ord := %d; s_auto := %s; s_class := %s |}%s",
			s.Pos, CoqStr(s.Kind), CoqStr(s.Pkg), CoqStr(s.Func), CoqStr(c08Ascii(s.Expr)), s.Ord, CoqStr(s.Auto), CoqStr(c08Ascii(s.Class)), sep)
		byKind[s.Kind]++
		if s.Auto == "" && s.Class == "" {
			unclassified++
			uncl = append(uncl, c08TableEntry{Kind: s.Kind, Pkg: s.Pkg, Func: s.Func, Expr: s.Expr, Ord: s.Ord, Class: "", Body: s.Body, Note: s.Pos + " " + s.Stale})
		}
	}
	c.P("].")
	c.P("Definition n_sites : Z := %d.", len(sites))
	c.P("Definition n_files_scanned : Z := %d.", nfiles)
	c.P("Definition stale_table_entries : Z := %d.", stale)
	// the one environment variable the state machine knows about, and where it is read
	envNames := c08EnvNames(c, pkgs, repo)
	c.P("Definition env_names_read : list string := %s.", CoqStrList(envNames))
	// shape of AddStatusUpdate: which checks come before the environment read
	shape, err := c08StatusUpdateShape(c)
	if err != nil {
		return err
	}
	c.P("(* x/paloma/keeper/msg_server.go AddStatusUpdate: statements in order (V = validation that can return an error, E = environment read, L = log call) *)")
	c.P("Definition status_update_shape : string := %s.", CoqStr(shape))
	// the jailing loop of the consensus prune job: valset.Jail is order-sensitive (Sys/NodeLocal.v), so the
	// loop that calls it must range over something whose order is state
	jl, err := c08JailLoop(c, pkgs)
	if err != nil {
		return err
	}
	c.P("(* x/consensus/keeper jailValidatorsWhichMissedAttestation: the range statement(s) whose body calls valset.Jail, as <type kind>:<range expression> *)")
	c.P("Definition jail_missing_loop : string := %s.", CoqStr(jl))
	// round 3: the comparator rankValidators sorts with (must be the strict total order the model proves things about)
	rc, err := c08RankComparator(c, pkgs)
	if err != nil {
		return err
	}
	c.P("(* x/evm/keeper rankValidators: the sort call and the statements of its comparator; anything but the score GT / LT tests and a final return is \"unknown:...\" *)")
	c.P("Definition rank_comparator : list string := %s.", CoqStrList(rc))
	c.Info("rank_comparator", rc)
	// round 3: where the vesting period of a light-node client comes from
	vs, err := c08VestingShape(c, pkgs)
	if err != nil {
		return err
	}
	c.P("(* x/paloma/keeper CreateLightNodeClientAccount: definitions of the local time.Time variables and what they are used for *)")
	c.P("Definition vesting_period_shape : list string := %s.", CoqStrList(vs))
	c.Info("vesting_period_shape", vs)
	// round 7: the premise of the VerifyEvidence classification (one piece of evidence per validator) lives in AddEvidence
	er, err := c08EvidenceReplaceRule(c)
	if err != nil {
		return err
	}
	c.P("(* x/consensus/types QueuedSignedMessage.AddEvidence: the loop that replaces earlier evidence and what follows it; a replace condition other than the validator address alone is \"unknown:...\" *)")
	c.P("Definition evidence_replace_rule : list string := %s.", CoqStrList(er))
	c.Info("evidence_replace_rule", er)
	c.Info("jail_missing_loop", jl)
	c.Info("sites", len(sites))
	c.Info("by_kind", byKind)
	c.Info("unclassified", unclassified)
	c.Info("stale_table_entries", stale)
	c.Info("files_scanned", nfiles)
	c.Info("status_update_shape", shape)
	if unclassified > 0 {
		js, _ := json.MarshalIndent(uncl, "", " ")
		_ = os.WriteFile(filepath.Join(os.TempDir(), "c08_unclassified.json"), js, 0o644)
	}
	if os.Getenv("C08_DUMP") != "" {
		var all []c08TableEntry
		for _, s := range sites {
			all = append(all, c08TableEntry{Kind: s.Kind, Pkg: s.Pkg, Func: s.Func, Expr: s.Expr, Ord: s.Ord, Class: s.Class, Body: s.Body, Note: s.Pos + " auto=" + s.Auto})
		}
		js, _ := json.MarshalIndent(all, "", " ")
		_ = os.WriteFile(os.Getenv("C08_DUMP"), js, 0o644)
	}
	_ = scanned
	return nil
}

func c08Ascii(s string) string {
	var b strings.Builder
	for _, r := range s {
		switch {
		case r == '\n' || r == '\t':
			b.WriteByte(' ')
		case r < 32 || r > 126:
			b.WriteByte('?')
		default:
			b.WriteRune(r)
		}
	}
	return b.String()
}

func c08FuncName(fd *ast.FuncDecl) string {
	if fd.Recv != nil && len(fd.Recv.List) == 1 {
		t := fd.Recv.List[0].Type
		if s, ok := t.(*ast.StarExpr); ok {
			t = s.X
		}
		if ix, ok := t.(*ast.IndexExpr); ok {
			t = ix.X
		}
		if ix, ok := t.(*ast.IndexListExpr); ok {
			t = ix.X
		}
		if id, ok := t.(*ast.Ident); ok {
			return id.Name + "." + fd.Name.Name
		}
	}
	return fd.Name.Name
}

// rootIdent strips selectors, indexing, dereference and parentheses: a.b[i].c -> a
func c08RootIdent(e ast.Expr) (*ast.Ident, bool) {
	viaPath := false
	for {
		switch x := e.(type) {
		case *ast.Ident:
			return x, viaPath
		case *ast.SelectorExpr:
			e, viaPath = x.X, true
		case *ast.IndexExpr:
			e, viaPath = x.X, true
		case *ast.StarExpr:
			e, viaPath = x.X, true
		case *ast.ParenExpr:
			e = x.X
		case *ast.SliceExpr:
			e, viaPath = x.X, true
		default:
			return nil, false
		}
	}
}

func c08ScanFile(c *Ctx, p *packages.Package, f *ast.File, rel string) ([]*c08Site, error) {
	info := p.TypesInfo
	pkgRel := filepath.ToSlash(filepath.Dir(rel))
	var out []*c08Site
	add := func(kind, fn, expr string, n ast.Node, auto string) {
		pos := c.Fset.Position(n.Pos())
		out = append(out, &c08Site{Kind: kind, Pkg: pkgRel, Func: fn, Expr: expr, Auto: auto,
			Pos: fmt.Sprintf("%s:%d", rel, pos.Line), FuncKey: p.PkgPath + "." + fn})
	}
	scan := func(fn string, recv *types.Var, recvPtr bool, body ast.Node, enclosing *ast.FuncDecl) {
		// statement lists, to find what follows a range statement in its block
		rest := map[ast.Stmt][]ast.Stmt{}
		ast.Inspect(body, func(n ast.Node) bool {
			var list []ast.Stmt
			switch b := n.(type) {
			case *ast.BlockStmt:
				list = b.List
			case *ast.CaseClause:
				list = b.Body
			case *ast.CommClause:
				list = b.Body
			}
			for i, st := range list {
				rest[st] = list[i:]
			}
			return true
		})
		// parents, to see what a value is used for (round 3: time values)
		parent := map[ast.Node]ast.Node{}
		var stack []ast.Node
		ast.Inspect(body, func(n ast.Node) bool {
			if n == nil {
				stack = stack[:len(stack)-1]
				return true
			}
			if len(stack) > 0 {
				parent[n] = stack[len(stack)-1]
			}
			stack = append(stack, n)
			return true
		})
		tu := &c08TimeUse{c: c, info: info, parent: parent, body: body}
		ast.Inspect(body, func(n ast.Node) bool {
			switch x := n.(type) {
			case *ast.CallExpr:
				// a time.Time handed to a parameter of interface type (fmt verbs, loggers, error constructors): rendered
				// by its String method, in the zone the value carries
				if sig, ok := info.TypeOf(x.Fun).(*types.Signature); ok {
					for i, a := range x.Args {
						if !c08IsTime(info.TypeOf(a)) {
							continue
						}
						var pt types.Type
						switch {
						case sig.Variadic() && i >= sig.Params().Len()-1:
							if sl, ok := sig.Params().At(sig.Params().Len() - 1).Type().(*types.Slice); ok {
								pt = sl.Elem()
							}
						case i < sig.Params().Len():
							pt = sig.Params().At(i).Type()
						}
						if pt == nil {
							continue
						}
						if _, isIface := pt.Underlying().(*types.Interface); isIface {
							auto := ""
							if tu.utcExpr(a, 0) {
								auto = "utc-receiver"
							}
							add("TimeToAny", fn, c.Src(x.Fun)+"(.. "+c.Src(a)+" ..)", a, auto)
						}
					}
				}
			case *ast.RangeStmt:
				t := info.TypeOf(x.X)
				if t == nil {
					add("Untyped", fn, c.Src(x.X), x, "")
					return true
				}
				if c08CoreMap(t) {
					add("MapRange", fn, c.Src(x.X), x, c08AutoMapRange(c, info, x, enclosing))
					h := sha256.New()
					tail := rest[ast.Stmt(x)]
					if tail == nil {
						tail = []ast.Stmt{x}
					}
					for _, st := range tail {
						h.Write([]byte(strings.Join(strings.Fields(c.Src(st)), " ")))
						h.Write([]byte{0})
					}
					// round 5: the closures of the enclosing function that the loop (or what follows it) calls are part of what was
					// reviewed — `log("reason")` inside an exists-loop is harmless only as long as `log` does nothing but log
					closures := c08LocalClosures(info, enclosing, tail)
					for _, fl := range closures {
						h.Write([]byte("closure:" + strings.Join(strings.Fields(c.Src(fl)), " ")))
						h.Write([]byte{0})
					}
					out[len(out)-1].Body = hex.EncodeToString(h.Sum(nil))[:12]
					out[len(out)-1].Effects = c08LoopEffects(c, info, x, closures)
				} else if _, isChan := t.Underlying().(*types.Chan); isChan {
					add("ChanRange", fn, c.Src(x.X), x, "")
				} else if _, isFn := t.Underlying().(*types.Signature); isFn {
					add("FuncRange", fn, c.Src(x.X), x, "")
				}
			case *ast.GoStmt:
				add("GoStmt", fn, c.Src(x.Call.Fun), x, "")
			case *ast.SelectStmt:
				add("Select", fn, "select", x, "")
			case *ast.SelectorExpr:
				// qualified identifier pkg.Name ?
				if id, ok := x.X.(*ast.Ident); ok {
					if pn, ok := info.Uses[id].(*types.PkgName); ok {
						path := pn.Imported().Path()
						name := path + "." + x.Sel.Name
						if kind, ok := c08AmbientPkgs[path]; ok {
							if _, isFn := info.Uses[x.Sel].(*types.Func); isFn || path == "os" {
								if !c08OsPure[name] {
									if _, isType := info.Uses[x.Sel].(*types.TypeName); !isType {
										if _, isConst := info.Uses[x.Sel].(*types.Const); !isConst {
											add(kind, fn, name, x, "")
										}
									}
								}
							}
						}
						if path == "time" && c08TimeFuncs[x.Sel.Name] {
							add("WallClock", fn, name, x, "")
						}
						if path == "context" {
							// round 4: a context that ends by wall-clock time or by another goroutine — how far a loop gets before
							// ctx.Err() / ctx.Done() fires is a property of the machine, not of the chain
							switch x.Sel.Name {
							case "WithTimeout", "WithDeadline", "WithCancel", "WithTimeoutCause", "WithDeadlineCause", "WithCancelCause", "AfterFunc", "Cause":
								add("Deadline", fn, name, x, "")
							}
						}
						if path == "time" && (x.Sel.Name == "Local" || x.Sel.Name == "LoadLocation") {
							// the process's time zone (TZ, /etc/localtime)
							add("OsCall", fn, name, x, "")
						}
						if path == "time" && c08LocalTimeFuncs[x.Sel.Name] {
							if _, isFn := info.Uses[x.Sel].(*types.Func); isFn {
								call, _ := parent[x].(*ast.CallExpr)
								if call == nil || call.Fun != ast.Expr(x) {
									add("LocalTime", fn, name, x, "") // the function taken as a value
								} else if !((x.Sel.Name == "Date" || x.Sel.Name == "ParseInLocation") && len(call.Args) > 0 && tu.isUTCLoc(call.Args[len(call.Args)-1])) {
									auto := ""
									if tu.instantOnly(call, 0) {
										auto = "instant-only"
									}
									add("LocalTime", fn, name, x, auto)
								}
							}
						}
						if c08MapOrderPkgs[path] {
							add("MapOrderCall", fn, name, x, "")
						}
					}
				}
				// methods that expose map order / ambient state
				if sel, ok := info.Selections[x]; ok && sel.Kind() == types.MethodVal {
					if m, ok := sel.Obj().(*types.Func); ok && m.Pkg() != nil {
						full := m.Pkg().Path() + "." + m.Name()
						switch {
						case m.Pkg().Path() == "reflect" && (m.Name() == "MapKeys" || m.Name() == "MapRange"):
							add("MapOrderCall", fn, full, x, "")
						case m.Pkg().Path() == "sync" && m.Name() == "Range":
							add("MapOrderCall", fn, full, x, "")
						case (m.Name() == "Err" || m.Name() == "Done" || m.Name() == "Deadline") && c08IsContext(sel.Recv()):
							// consulting a context's cancellation state
							add("Deadline", fn, "context.Context."+m.Name(), x, "")
						case m.Pkg().Path() == "time" && m.Name() == "Local":
							// time.Time.Local: renders an instant in the process's time zone
							add("OsCall", fn, full, x, "")
						case m.Pkg().Path() == "time" && m.Name() == "In" && c08IsTime(info.TypeOf(x.X)):
							// t.In(loc): a zone chosen at run time, unless it is the literal time.UTC
							if call, ok := parent[x].(*ast.CallExpr); !ok || len(call.Args) != 1 || !tu.isUTCLoc(call.Args[0]) {
								auto := ""
								if call != nil && tu.instantOnly(call, 0) {
									auto = "instant-only"
								}
								add("LocalTime", fn, "time.Time.In", x, auto)
							}
						case m.Pkg().Path() == "time" && c08ZoneMethods[m.Name()] && c08IsTime(info.TypeOf(x.X)):
							// calendar arithmetic / rendering: depends on the zone the value carries
							auto := ""
							if tu.utcExpr(x.X, 0) {
								auto = "utc-receiver"
							}
							add("CalendarUse", fn, c.Src(x), x, auto)
						case m.Pkg().Path() == "math/rand" || m.Pkg().Path() == "math/rand/v2":
							add("Random", fn, full, x, "")
						}
					}
				}
			case *ast.AssignStmt:
				for _, l := range x.Lhs {
					c08Write(info, p, l, x.Tok == token.DEFINE, fn, recv, recvPtr, add, c)
				}
			case *ast.IncDecStmt:
				c08Write(info, p, x.X, false, fn, recv, recvPtr, add, c)
			}
			return true
		})
	}
	for _, d := range f.Decls {
		switch x := d.(type) {
		case *ast.FuncDecl:
			if x.Body == nil {
				continue
			}
			var recv *types.Var
			recvPtr := false
			if x.Recv != nil && len(x.Recv.List) == 1 && len(x.Recv.List[0].Names) == 1 {
				if v, ok := info.Defs[x.Recv.List[0].Names[0]].(*types.Var); ok {
					recv = v
					_, recvPtr = v.Type().(*types.Pointer)
				}
			}
			scan(c08FuncName(x), recv, recvPtr, x.Body, x)
		case *ast.GenDecl:
			if x.Tok != token.VAR {
				continue
			}
			for _, s := range x.Specs {
				vs := s.(*ast.ValueSpec)
				for _, v := range vs.Values {
					scan("<package-var-init>", nil, false, v, nil)
				}
				// package-level variables of a type that is mutable through method calls alone
				for _, nm := range vs.Names {
					obj, _ := info.Defs[nm].(*types.Var)
					if obj == nil || nm.Name == "_" {
						continue
					}
					if k := c08MutableKind(obj.Type()); k != "" {
						add("GlobalMutable", "<package-var>", nm.Name+" : "+k, nm, "")
					}
				}
			}
		}
	}
	return out, nil
}

// ---- round 3: what a time value is used for, and where it comes from ----

type c08TimeUse struct {
	c      *Ctx
	info   *types.Info
	parent map[ast.Node]ast.Node
	body   ast.Node
}

// c08IsContext: context.Context, or a type that carries one and forwards Err / Done / Deadline (sdk.Context)
func c08IsContext(t types.Type) bool {
	if t == nil {
		return false
	}
	if p, ok := t.(*types.Pointer); ok {
		t = p.Elem()
	}
	n, ok := t.(*types.Named)
	if !ok || n.Obj().Pkg() == nil {
		return false
	}
	pp := n.Obj().Pkg().Path()
	return n.Obj().Name() == "Context" && (pp == "context" || pp == "github.com/cosmos/cosmos-sdk/types")
}

func c08IsTime(t types.Type) bool {
	if t == nil {
		return false
	}
	if p, ok := t.(*types.Pointer); ok {
		t = p.Elem()
	}
	n, ok := t.(*types.Named)
	return ok && n.Obj().Pkg() != nil && n.Obj().Pkg().Path() == "time" && n.Obj().Name() == "Time"
}

// isUTCLoc: the literal time.UTC
func (tu *c08TimeUse) isUTCLoc(e ast.Expr) bool {
	se, ok := e.(*ast.SelectorExpr)
	if !ok || se.Sel.Name != "UTC" {
		return false
	}
	id, ok := se.X.(*ast.Ident)
	if !ok {
		return false
	}
	pn, ok := tu.info.Uses[id].(*types.PkgName)
	return ok && pn.Imported().Path() == "time"
}

func (tu *c08TimeUse) timeMethod(se *ast.SelectorExpr) string {
	if sel, ok := tu.info.Selections[se]; ok && sel.Kind() == types.MethodVal {
		if m, ok := sel.Obj().(*types.Func); ok && m.Pkg() != nil && m.Pkg().Path() == "time" && c08IsTime(sel.Recv()) {
			return m.Name()
		}
	}
	return ""
}

// localVar: e is an identifier of a variable declared inside a function
func (tu *c08TimeUse) localVar(e ast.Expr) *types.Var {
	id, ok := e.(*ast.Ident)
	if !ok {
		return nil
	}
	v, _ := tu.info.ObjectOf(id).(*types.Var)
	if v == nil || v.IsField() || v.Pkg() == nil || v.Parent() == nil || v.Parent() == v.Pkg().Scope() {
		return nil
	}
	return v
}

// idents: every identifier inside the scanned body that denotes v
func (tu *c08TimeUse) idents(v *types.Var) (out []*ast.Ident) {
	ast.Inspect(tu.body, func(n ast.Node) bool {
		if id, ok := n.(*ast.Ident); ok && tu.info.ObjectOf(id) == types.Object(v) {
			out = append(out, id)
		}
		return true
	})
	return out
}

// instantOnly: the value of expression e is consumed only by operations that look at the instant — a method of
// c08InstantMethods called on it, an argument of Before/After/Equal/Compare/Sub, or a local variable every use of
// which is such (Add/Round/Truncate pass the zone on: their result is followed).  Anything else (returned, stored in a
// field, passed to a function, a calendar method) is not.
func (tu *c08TimeUse) instantOnly(e ast.Node, depth int) bool {
	if depth > 6 {
		return false
	}
	switch p := tu.parent[e].(type) {
	case *ast.ParenExpr:
		return tu.instantOnly(p, depth+1)
	case *ast.SelectorExpr:
		if p.X != e {
			return false
		}
		call, ok := tu.parent[p].(*ast.CallExpr)
		if !ok || call.Fun != ast.Expr(p) {
			return false
		}
		m := tu.timeMethod(p)
		if c08InstantMethods[m] {
			return true
		}
		if c08SameZoneMethods[m] {
			return tu.instantOnly(call, depth+1)
		}
		return false
	case *ast.CallExpr:
		se, ok := p.Fun.(*ast.SelectorExpr)
		if !ok || p.Fun == e {
			return false
		}
		return c08InstantArgMethods[tu.timeMethod(se)]
	case *ast.AssignStmt:
		if len(p.Lhs) != 1 || len(p.Rhs) != 1 || p.Rhs[0] != e {
			return false
		}
		v := tu.localVar(p.Lhs[0])
		if v == nil {
			return false
		}
		for _, id := range tu.idents(v) {
			if ast.Expr(id) == p.Lhs[0] {
				continue
			}
			if as, ok := tu.parent[id].(*ast.AssignStmt); ok && len(as.Lhs) == 1 && as.Lhs[0] == ast.Expr(id) {
				continue // another assignment to the variable: its right-hand side is a site of its own if it is a local time
			}
			if u, ok := tu.parent[id].(*ast.UnaryExpr); ok && u.Op == token.AND {
				return false
			}
			if !tu.instantOnly(id, depth+1) {
				return false
			}
		}
		return true
	}
	return false
}

// utcExpr: the expression is a time in UTC by construction — x.UTC(), the block time of an sdk.Context
// (WithBlockTime / WithBlockHeader / WithHeaderInfo store t.UTC()), time.Date(..., time.UTC), Add/Round/Truncate of
// such a value, or a local variable whose every assignment is such an expression.
func (tu *c08TimeUse) utcExpr(e ast.Expr, depth int) bool {
	if depth > 6 {
		return false
	}
	switch x := e.(type) {
	case *ast.ParenExpr:
		return tu.utcExpr(x.X, depth+1)
	case *ast.CallExpr:
		se, ok := x.Fun.(*ast.SelectorExpr)
		if !ok {
			return false
		}
		if m := tu.timeMethod(se); m != "" {
			if m == "UTC" {
				return true
			}
			if c08SameZoneMethods[m] || m == "AddDate" {
				return tu.utcExpr(se.X, depth+1)
			}
			return false
		}
		if sel, ok := tu.info.Selections[se]; ok && sel.Kind() == types.MethodVal && se.Sel.Name == "BlockTime" {
			rt := sel.Recv()
			if p, ok := rt.(*types.Pointer); ok {
				rt = p.Elem()
			}
			if n, ok := rt.(*types.Named); ok && n.Obj().Pkg() != nil && n.Obj().Pkg().Path() == "github.com/cosmos/cosmos-sdk/types" && n.Obj().Name() == "Context" {
				return true
			}
		}
		if id, ok := se.X.(*ast.Ident); ok {
			if pn, ok := tu.info.Uses[id].(*types.PkgName); ok && pn.Imported().Path() == "time" && se.Sel.Name == "Date" && len(x.Args) > 0 {
				return tu.isUTCLoc(x.Args[len(x.Args)-1])
			}
		}
		return false
	case *ast.Ident:
		v := tu.localVar(x)
		if v == nil {
			return false
		}
		defs := 0
		for _, id := range tu.idents(v) {
			switch p := tu.parent[id].(type) {
			case *ast.AssignStmt:
				for i, l := range p.Lhs {
					if l != ast.Expr(id) {
						continue
					}
					if len(p.Lhs) != len(p.Rhs) || !tu.utcExpr(p.Rhs[i], depth+1) {
						return false
					}
					defs++
				}
			case *ast.ValueSpec:
				for i, nm := range p.Names {
					if nm != id {
						continue
					}
					if i >= len(p.Values) || !tu.utcExpr(p.Values[i], depth+1) {
						return false
					}
					defs++
				}
			case *ast.UnaryExpr:
				if p.Op == token.AND {
					return false
				}
			}
		}
		return defs > 0
	}
	return false
}

// c08MutableKind: types whose zero/initial value can be changed without an assignment to the
// variable itself (so that the GlobalWrite scan would not see it).
func c08MutableKind(t types.Type) string {
	switch u := t.Underlying().(type) {
	case *types.Map:
		return "map"
	case *types.Chan:
		return "chan"
	case *types.Struct:
		if n, ok := t.(*types.Named); ok && n.Obj().Pkg() != nil {
			pp := n.Obj().Pkg().Path()
			if pp == "sync" || pp == "sync/atomic" {
				return pp + "." + n.Obj().Name()
			}
		}
		for i := 0; i < u.NumFields(); i++ {
			if k := c08MutableKind(u.Field(i).Type()); strings.HasPrefix(k, "sync") {
				return "struct with " + k
			}
		}
	case *types.Pointer:
		if n, ok := u.Elem().(*types.Named); ok && n.Obj().Pkg() != nil {
			pp := n.Obj().Pkg().Path()
			if pp == "sync" || pp == "sync/atomic" {
				return "*" + pp + "." + n.Obj().Name()
			}
		}
	}
	return ""
}

func c08Write(info *types.Info, p *packages.Package, lhs ast.Expr, define bool, fn string, recv *types.Var, recvPtr bool,
	add func(kind, fn, expr string, n ast.Node, auto string), c *Ctx) {
	id, viaPath := c08RootIdent(lhs)
	if id == nil || id.Name == "_" {
		return
	}
	obj, _ := info.Uses[id].(*types.Var)
	if obj == nil {
		return // := definition of a new local, or not a variable
	}
	if obj.Parent() == p.Types.Scope() {
		if fn == "init" {
			return
		}
		add("GlobalWrite", fn, c.Src(lhs), lhs, "")
		return
	}
	if recv != nil && obj == recv && viaPath && recvPtr {
		// write into the receiver's memory through a pointer receiver: state that outlives the call
		auto := ""
		if c08HasMethod(recv.Type(), "ProtoMessage") {
			// a decoded protobuf message: a value that lives in a store or a transaction, not in the keeper
			auto = "proto-message-receiver"
		}
		add("RecvFieldWrite", fn, c.Src(lhs), lhs, auto)
	}
}

func c08FuncObjKey(fo *types.Func) string {
	name := fo.Name()
	if sig, ok := fo.Type().(*types.Signature); ok && sig.Recv() != nil {
		t := sig.Recv().Type()
		if pt, ok := t.(*types.Pointer); ok {
			t = pt.Elem()
		}
		if n, ok := t.(*types.Named); ok {
			name = n.Obj().Name() + "." + name
		}
	}
	return fo.Pkg().Path() + "." + name
}

func c08HasMethod(t types.Type, name string) bool {
	ms := types.NewMethodSet(t)
	for i := 0; i < ms.Len(); i++ {
		if ms.At(i).Obj().Name() == name {
			return true
		}
	}
	return false
}

// c08LocalClosures: function literals assigned to local variables of the enclosing function that are called (by name)
// from the given statements, in source order of the literals.
func c08LocalClosures(info *types.Info, enclosing *ast.FuncDecl, stmts []ast.Stmt) []*ast.FuncLit {
	if enclosing == nil || enclosing.Body == nil {
		return nil
	}
	lits := map[types.Object]*ast.FuncLit{}
	ast.Inspect(enclosing.Body, func(n ast.Node) bool {
		switch x := n.(type) {
		case *ast.AssignStmt:
			if len(x.Lhs) == len(x.Rhs) {
				for i, l := range x.Lhs {
					if id, ok := l.(*ast.Ident); ok {
						if fl, ok := x.Rhs[i].(*ast.FuncLit); ok {
							if o := info.ObjectOf(id); o != nil {
								lits[o] = fl
							}
						}
					}
				}
			}
		case *ast.ValueSpec:
			for i, id := range x.Names {
				if i < len(x.Values) {
					if fl, ok := x.Values[i].(*ast.FuncLit); ok {
						if o := info.ObjectOf(id); o != nil {
							lits[o] = fl
						}
					}
				}
			}
		}
		return true
	})
	seen := map[*ast.FuncLit]bool{}
	var out []*ast.FuncLit
	var visit func(n ast.Node, depth int)
	visit = func(n ast.Node, depth int) {
		ast.Inspect(n, func(m ast.Node) bool {
			if ce, ok := m.(*ast.CallExpr); ok {
				if id, ok := ce.Fun.(*ast.Ident); ok {
					if fl := lits[info.ObjectOf(id)]; fl != nil && !seen[fl] {
						seen[fl] = true
						out = append(out, fl)
						if depth < 3 {
							visit(fl.Body, depth+1)
						}
					}
				}
			}
			return true
		})
	}
	for _, st := range stmts {
		visit(st, 0)
	}
	sort.Slice(out, func(i, j int) bool { return out[i].Pos() < out[j].Pos() })
	return out
}

// c08LoopEffects: what leaves a map loop besides its control flow — scanned in the loop body and in the local closures it
// calls: event emission (any call whose name mentions Emit / EventManager), appends, assignments to variables declared
// outside the loop whose type is not bool, channel sends, go / defer.  "" = nothing.
func c08LoopEffects(c *Ctx, info *types.Info, rs *ast.RangeStmt, closures []*ast.FuncLit) string {
	set := map[string]bool{}
	scan := func(root ast.Node, lo, hi token.Pos) {
		ast.Inspect(root, func(n ast.Node) bool {
			switch x := n.(type) {
			case *ast.CallExpr:
				f := strings.Join(strings.Fields(c.Src(x.Fun)), "")
				if strings.Contains(f, "Emit") || strings.Contains(f, "EventManager") {
					set["event:"+f] = true
				}
				if id, ok := x.Fun.(*ast.Ident); ok && id.Name == "append" {
					if _, isB := info.Uses[id].(*types.Builtin); isB {
						set["append"] = true
					}
				}
			case *ast.AssignStmt:
				for _, l := range x.Lhs {
					id, _ := c08RootIdent(l)
					if id == nil || id.Name == "_" {
						continue
					}
					v, _ := info.ObjectOf(id).(*types.Var)
					if v == nil || (v.Pos() >= lo && v.Pos() <= hi) {
						continue // declared inside the scanned code
					}
					if b, ok := info.TypeOf(l).Underlying().(*types.Basic); ok && b.Info()&types.IsBoolean != 0 {
						continue
					}
					if _, isMap := info.TypeOf(id).Underlying().(*types.Map); isMap {
						if _, isIdx := l.(*ast.IndexExpr); isIdx {
							continue // inserting into a map: order-free (the map-insert-only rule judges that)
						}
					}
					set["write:"+id.Name] = true
				}
			case *ast.SendStmt:
				set["send"] = true
			case *ast.GoStmt:
				set["go"] = true
			case *ast.DeferStmt:
				set["defer"] = true
			}
			return true
		})
	}
	scan(rs.Body, rs.Pos(), rs.End())
	for _, fl := range closures {
		scan(fl.Body, fl.Pos(), fl.End())
	}
	return strings.Join(SortedSet(set), ",")
}

// ---- syntactic auto-classification of map ranges ----

func c08AutoMapRange(c *Ctx, info *types.Info, rs *ast.RangeStmt, enclosing *ast.FuncDecl) string {
	// (a) key-only / value-only collection into slices that are sorted before the function goes on
	if len(rs.Body.List) == 1 {
		if as, ok := rs.Body.List[0].(*ast.AssignStmt); ok && len(as.Lhs) == 1 && len(as.Rhs) == 1 && as.Tok == token.ASSIGN {
			if ce, ok := as.Rhs[0].(*ast.CallExpr); ok {
				if fid, ok := ce.Fun.(*ast.Ident); ok && fid.Name == "append" && len(ce.Args) >= 2 && c.Src(ce.Args[0]) == c.Src(as.Lhs[0]) {
					if _, isBuiltin := info.Uses[fid].(*types.Builtin); isBuiltin {
						target := c.Src(as.Lhs[0])
						pure := true
						for _, a := range ce.Args[1:] {
							if !c08PureExpr(info, a) {
								pure = false
							}
						}
						if pure && enclosing != nil && c08SortedNext(c, info, enclosing, rs, target) {
							return "collect-then-sort"
						}
					}
				}
			}
		}
	}
	// (b) the body only inserts into / deletes from maps, with pure expressions
	if c08InsertOnly(c, info, rs.Body) {
		return "map-insert-only"
	}
	return ""
}

// c08SortedNext: the statement that follows the range statement in its block sorts `target` with a
// library sort whose comparison (if any) is not inspected here — only the standard total-order sorts count.
func c08SortedNext(c *Ctx, info *types.Info, fd *ast.FuncDecl, rs *ast.RangeStmt, target string) bool {
	found := false
	ast.Inspect(fd.Body, func(n ast.Node) bool {
		bl, ok := n.(*ast.BlockStmt)
		if !ok {
			return true
		}
		for i, st := range bl.List {
			if st != ast.Stmt(rs) || i+1 >= len(bl.List) {
				continue
			}
			es, ok := bl.List[i+1].(*ast.ExprStmt)
			if !ok {
				continue
			}
			ce, ok := es.X.(*ast.CallExpr)
			if !ok || len(ce.Args) < 1 || c.Src(ce.Args[0]) != target {
				continue
			}
			se, ok := ce.Fun.(*ast.SelectorExpr)
			if !ok {
				continue
			}
			id, ok := se.X.(*ast.Ident)
			if !ok {
				continue
			}
			pn, ok := info.Uses[id].(*types.PkgName)
			if !ok {
				continue
			}
			full := pn.Imported().Path() + "." + se.Sel.Name
			switch full {
			case "sort.Strings", "sort.Ints", "slices.Sort":
				// total order on the element type itself: only sound when the collected values are distinct or
				// indistinguishable when equal (strings / ints are)
				found = true
			case "sort.Slice", "sort.SliceStable":
				// only the comparator `return x[i] < x[j]` on the collected slice itself (an ordered basic type)
				if len(ce.Args) == 2 {
					if fl, ok := ce.Args[1].(*ast.FuncLit); ok && len(fl.Body.List) == 1 && len(fl.Type.Params.List) >= 1 {
						var names []string
						for _, f := range fl.Type.Params.List {
							for _, n := range f.Names {
								names = append(names, n.Name)
							}
						}
						if len(names) == 2 {
							want := fmt.Sprintf("return %s[%s] < %s[%s]", target, names[0], target, names[1])
							if tv := info.TypeOf(ce.Args[0]); tv != nil {
								if sl, ok := tv.Underlying().(*types.Slice); ok {
									if b, ok := sl.Elem().Underlying().(*types.Basic); ok && b.Info()&types.IsOrdered != 0 && b.Info()&types.IsFloat == 0 {
										if c.Src(fl.Body.List[0]) == want {
											found = true
										}
									}
								}
							}
						}
					}
				}
			}
		}
		return true
	})
	return found
}

func c08PureExpr(info *types.Info, e ast.Expr) bool {
	pure := true
	ast.Inspect(e, func(n ast.Node) bool {
		switch x := n.(type) {
		case *ast.CallExpr:
			// conversions and builtins len/cap only
			if tv, ok := info.Types[x.Fun]; ok && tv.IsType() {
				return true
			}
			if id, ok := x.Fun.(*ast.Ident); ok {
				if b, ok := info.Uses[id].(*types.Builtin); ok && (b.Name() == "len" || b.Name() == "cap") {
					return true
				}
			}
			pure = false
			return false
		case *ast.FuncLit:
			pure = false
			return false
		case *ast.UnaryExpr:
			if x.Op == token.ARROW {
				pure = false
				return false
			}
		}
		return true
	})
	return pure
}

func c08InsertOnly(c *Ctx, info *types.Info, b *ast.BlockStmt) bool {
	if len(b.List) == 0 {
		return false
	}
	for _, st := range b.List {
		switch x := st.(type) {
		case *ast.AssignStmt:
			if x.Tok != token.ASSIGN {
				return false
			}
			for _, l := range x.Lhs {
				ix, ok := l.(*ast.IndexExpr)
				if !ok {
					return false
				}
				if _, isMap := info.TypeOf(ix.X).Underlying().(*types.Map); !isMap {
					return false
				}
				if !c08PureExpr(info, ix.Index) {
					return false
				}
			}
			for _, r := range x.Rhs {
				if !c08PureExpr(info, r) {
					return false
				}
			}
		case *ast.ExprStmt:
			ce, ok := x.X.(*ast.CallExpr)
			if !ok {
				return false
			}
			id, ok := ce.Fun.(*ast.Ident)
			if !ok {
				return false
			}
			if bi, ok := info.Uses[id].(*types.Builtin); !ok || bi.Name() != "delete" {
				return false
			}
			for _, a := range ce.Args {
				if !c08PureExpr(info, a) {
					return false
				}
			}
		default:
			return false
		}
	}
	return true
}

// ---- AddStatusUpdate shape and environment variable names ----

func c08EnvNames(c *Ctx, pkgs []*packages.Package, repo string) []string {
	set := map[string]bool{}
	for _, p := range pkgs {
		for i, f := range p.Syntax {
			rel, _ := filepath.Rel(repo, p.CompiledGoFiles[i])
			if c08Excluded(filepath.ToSlash(rel)) || c08IsGenerated(f) {
				continue
			}
			ast.Inspect(f, func(n ast.Node) bool {
				ce, ok := n.(*ast.CallExpr)
				if !ok || len(ce.Args) != 1 {
					return true
				}
				se, ok := ce.Fun.(*ast.SelectorExpr)
				if !ok {
					return true
				}
				id, ok := se.X.(*ast.Ident)
				if !ok {
					return true
				}
				pn, ok := p.TypesInfo.Uses[id].(*types.PkgName)
				if !ok || pn.Imported().Path() != "os" || (se.Sel.Name != "Getenv" && se.Sel.Name != "LookupEnv") {
					return true
				}
				if tv, ok := p.TypesInfo.Types[ce.Args[0]]; ok && tv.Value != nil {
					set[filepath.ToSlash(filepath.Dir(rel))+":"+strings.Trim(tv.Value.ExactString(), "\"")] = true
				} else {
					set[filepath.ToSlash(filepath.Dir(rel))+":<dynamic "+c.Src(ce.Args[0])+">"] = true
				}
				return true
			})
		}
	}
	return SortedSet(set)
}

// c08StatusUpdateShape walks the top-level statements of msgServer.AddStatusUpdate and prints one
// letter per statement that matters: V (an `if` whose body returns a non-nil error: validation),
// E (os.LookupEnv / os.Getenv), G (an `if` that returns success: the early-out gated by E), L (a call
// of a logger function value).  The fixed handler is "VVEGL": both validations come before the
// environment read; the pinned tree was "EGVL" with no level validation.  X (round 3): a statement after the environment
// read that calls anything but the logger and the builders of its arguments, or writes to something that is not a local.
func c08StatusUpdateShape(c *Ctx) (string, error) {
	f, err := c.Parse("x/paloma/keeper/msg_server.go")
	if err != nil {
		return "", err
	}
	fd := FindFunc(f, "msgServer", "AddStatusUpdate")
	if fd == nil {
		return "", fmt.Errorf("msgServer.AddStatusUpdate not found")
	}
	var sb strings.Builder
	// Round 3: after the environment read (E) only logging may follow.  Every call in a statement after it must be one
	// of these (building the logger's arguments and calling it); anything else — an event, a store write, another
	// keeper — adds an X to the shape.
	allowed := map[string]bool{"sdk.ValAddress": true, "creator.Bytes": true, "msg.GetStatus": true, "msg.GetArgs": true,
		"make": true, "len": true, "append": true, "fmt.Sprintf": true, "v.GetKey": true, "v.GetValue": true,
		"liblog.FromSDKLogger": true, "k.Logger": true, "logFn": true, "os.LookupEnv": true, "os.Getenv": true}
	afterE := false
	for _, st := range fd.Body.List {
		src := c.Src(st)
		if afterE {
			bad := ""
			ast.Inspect(st, func(n ast.Node) bool {
				switch y := n.(type) {
				case *ast.CallExpr:
					if f := strings.Join(strings.Fields(c.Src(y.Fun)), ""); !allowed[f] && bad == "" {
						bad = f
					}
				case *ast.GoStmt, *ast.DeferStmt, *ast.SendStmt, *ast.FuncLit:
					if bad == "" {
						bad = "statement"
					}
				case *ast.AssignStmt:
					// assignments to locals only
					for _, l := range y.Lhs {
						if _, ok := l.(*ast.Ident); !ok && bad == "" {
							bad = "write:" + c.Src(l)
						}
					}
				}
				return true
			})
			if bad != "" {
				sb.WriteByte('X')
				c.Info("status_update_after_flag", bad)
			}
		}
		if strings.Contains(src, "os.LookupEnv") || strings.Contains(src, "os.Getenv") {
			afterE = true
		}
		switch x := st.(type) {
		case *ast.AssignStmt, *ast.DeclStmt:
			if strings.Contains(src, "os.LookupEnv") || strings.Contains(src, "os.Getenv") {
				sb.WriteByte('E')
			}
		case *ast.IfStmt:
			if strings.Contains(c.Src(x.Cond), "os.LookupEnv") || strings.Contains(c.Src(x.Cond), "os.Getenv") ||
				(x.Init != nil && (strings.Contains(c.Src(x.Init), "os.LookupEnv") || strings.Contains(c.Src(x.Init), "os.Getenv"))) {
				sb.WriteByte('E')
			}
			retErr, retOk := false, false
			ast.Inspect(x.Body, func(n ast.Node) bool {
				if r, ok := n.(*ast.ReturnStmt); ok && len(r.Results) == 2 {
					if c.Src(r.Results[1]) == "nil" {
						retOk = true
					} else {
						retErr = true
					}
				}
				return true
			})
			if retErr {
				sb.WriteByte('V')
			} else if retOk {
				sb.WriteByte('G')
			}
		case *ast.SwitchStmt:
			// a switch with a default branch returning an error is a validation
			ret := false
			ast.Inspect(x.Body, func(n ast.Node) bool {
				if r, ok := n.(*ast.ReturnStmt); ok && len(r.Results) == 2 && c.Src(r.Results[1]) != "nil" {
					ret = true
				}
				return true
			})
			if ret {
				sb.WriteByte('V')
			}
		case *ast.ExprStmt:
			if ce, ok := x.X.(*ast.CallExpr); ok {
				if id, ok := ce.Fun.(*ast.Ident); ok && strings.HasPrefix(id.Name, "log") {
					sb.WriteByte('L')
				}
			}
		case *ast.ReturnStmt, *ast.RangeStmt:
		default:
			return "", fmt.Errorf("AddStatusUpdate: statement shape not understood: %s", strings.SplitN(src, "\n", 2)[0])
		}
	}
	return sb.String(), nil
}

// c08JailLoop finds, in x/consensus/keeper.jailValidatorsWhichMissedAttestation, every range statement
// whose body (transitively) calls a method named Jail, and prints "<kind>:<expr>" (kind = slice, array,
// map, chan, func, other) joined by ";".  "none" when there is no such loop.
func c08JailLoop(c *Ctx, pkgs []*packages.Package) (string, error) {
	for _, p := range pkgs {
		if !strings.HasSuffix(p.PkgPath, "/x/consensus/keeper") {
			continue
		}
		for _, f := range p.Syntax {
			fd := FindFunc(f, "Keeper", "jailValidatorsWhichMissedAttestation")
			if fd == nil || fd.Body == nil {
				continue
			}
			var found []string
			ast.Inspect(fd.Body, func(n ast.Node) bool {
				rs, ok := n.(*ast.RangeStmt)
				if !ok {
					return true
				}
				calls := false
				ast.Inspect(rs.Body, func(m ast.Node) bool {
					if ce, ok := m.(*ast.CallExpr); ok {
						if se, ok := ce.Fun.(*ast.SelectorExpr); ok && se.Sel.Name == "Jail" {
							calls = true
						}
					}
					return true
				})
				if !calls {
					return true
				}
				kind := "other"
				if t := p.TypesInfo.TypeOf(rs.X); t != nil {
					switch {
					case c08CoreMap(t):
						kind = "map"
					default:
						switch t.Underlying().(type) {
						case *types.Slice:
							kind = "slice"
						case *types.Array:
							kind = "array"
						case *types.Chan:
							kind = "chan"
						case *types.Signature:
							kind = "func"
						}
					}
				}
				found = append(found, kind+":"+c08Ascii(c.Src(rs.X)))
				return true
			})
			if len(found) == 0 {
				return "none", nil
			}
			return strings.Join(found, ";"), nil
		}
	}
	return "", fmt.Errorf("x/consensus/keeper Keeper.jailValidatorsWhichMissedAttestation not found")
}

// c08RankComparator reads the comparator of the sort in x/evm/keeper rankValidators.  Output: the sort call with its
// first argument, then one string per statement of the comparator, parameters renamed to a and b:
// "if a.score.GT(b.score) return -1", "if a.score.LT(b.score) return 1", "return strings.Compare(a.address, b.address)".
// Only `<p>.score.GT|LT(<q>.score)` conditions with a single `return <int literal>` body are understood; any other
// statement or condition (a tolerance, an absolute value, a threshold, a nested if) is printed as "unknown:<source>".
func c08RankComparator(c *Ctx, pkgs []*packages.Package) ([]string, error) {
	norm := func(n ast.Node) string { return c08Ascii(strings.Join(strings.Fields(c.Src(n)), " ")) }
	for _, p := range pkgs {
		if !strings.HasSuffix(p.PkgPath, "/x/evm/keeper") {
			continue
		}
		for _, f := range p.Syntax {
			fd := FindFunc(f, "", "rankValidators")
			if fd == nil || fd.Body == nil {
				continue
			}
			var out []string
			nsorts := 0
			ast.Inspect(fd.Body, func(n ast.Node) bool {
				ce, ok := n.(*ast.CallExpr)
				if !ok {
					return true
				}
				se, ok := ce.Fun.(*ast.SelectorExpr)
				if !ok || !strings.Contains(se.Sel.Name, "Sort") {
					return true
				}
				nsorts++
				if len(ce.Args) < 1 {
					out = append(out, "unknown:"+norm(ce))
					return true
				}
				out = append(out, norm(ce.Fun)+"("+norm(ce.Args[0])+")")
				if len(ce.Args) != 2 {
					out = append(out, "unknown:sort without comparator")
					return true
				}
				fl, ok := ce.Args[1].(*ast.FuncLit)
				if !ok || len(fl.Type.Params.List) == 0 {
					out = append(out, "unknown:"+norm(ce.Args[1]))
					return true
				}
				var names []string
				for _, pf := range fl.Type.Params.List {
					for _, nm := range pf.Names {
						names = append(names, nm.Name)
					}
				}
				if len(names) != 2 {
					out = append(out, "unknown:comparator parameters")
					return true
				}
				ren := func(s string) string {
					// whole-word renaming of the two parameters
					var b strings.Builder
					isw := func(r byte) bool { return r == '_' || r >= '0' && r <= '9' || r >= 'a' && r <= 'z' || r >= 'A' && r <= 'Z' }
					for i := 0; i < len(s); {
						j := i
						for j < len(s) && isw(s[j]) {
							j++
						}
						if j == i {
							b.WriteByte(s[i])
							i++
							continue
						}
						w := s[i:j]
						if i > 0 && s[i-1] == '.' {
							b.WriteString(w)
						} else if w == names[0] {
							b.WriteString("a")
						} else if w == names[1] {
							b.WriteString("b")
						} else {
							b.WriteString(w)
						}
						i = j
					}
					return b.String()
				}
				condOK := func(s string) bool {
					for _, ok := range []string{"a.score.GT(b.score)", "a.score.LT(b.score)", "b.score.GT(a.score)", "b.score.LT(a.score)"} {
						if s == ok {
							return true
						}
					}
					return false
				}
				for _, st := range fl.Body.List {
					switch x := st.(type) {
					case *ast.IfStmt:
						for cur := x; cur != nil; {
							cond := ren(norm(cur.Cond))
							okBody := cur.Init == nil && len(cur.Body.List) == 1
							var ret *ast.ReturnStmt
							if okBody {
								ret, _ = cur.Body.List[0].(*ast.ReturnStmt)
							}
							if !condOK(cond) || ret == nil || len(ret.Results) != 1 {
								out = append(out, "unknown:"+ren(norm(cur)))
								break
							}
							switch v := ren(norm(ret.Results[0])); v {
							case "-1", "1":
								out = append(out, "if "+cond+" return "+v)
							default:
								out = append(out, "unknown:"+ren(norm(cur)))
							}
							next, _ := cur.Else.(*ast.IfStmt)
							if cur.Else != nil && next == nil {
								out = append(out, "unknown:else "+ren(norm(cur.Else)))
							}
							cur = next
						}
					case *ast.ReturnStmt:
						out = append(out, ren(norm(x)))
					default:
						out = append(out, "unknown:"+ren(norm(st)))
					}
				}
				return true
			})
			if nsorts == 0 {
				return []string{"none"}, nil
			}
			return out, nil
		}
	}
	return nil, fmt.Errorf("x/evm/keeper rankValidators not found")
}

// c08VestingShape: in x/paloma/keeper Keeper.CreateLightNodeClientAccount, every local variable of type time.Time: its
// definitions ("name := <rhs>") in source order, then what each is used for besides ("<kind>: <call>", sorted): the vesting
// period must be computed from the block time itself.
func c08VestingShape(c *Ctx, pkgs []*packages.Package) ([]string, error) {
	norm := func(n ast.Node) string { return c08Ascii(strings.Join(strings.Fields(c.Src(n)), " ")) }
	for _, p := range pkgs {
		if !strings.HasSuffix(p.PkgPath, "/x/paloma/keeper") {
			continue
		}
		for _, f := range p.Syntax {
			fd := FindFunc(f, "Keeper", "CreateLightNodeClientAccount")
			if fd == nil || fd.Body == nil {
				continue
			}
			parent := map[ast.Node]ast.Node{}
			var stack []ast.Node
			ast.Inspect(fd.Body, func(n ast.Node) bool {
				if n == nil {
					stack = stack[:len(stack)-1]
					return true
				}
				if len(stack) > 0 {
					parent[n] = stack[len(stack)-1]
				}
				stack = append(stack, n)
				return true
			})
			var defs, uses []string
			ast.Inspect(fd.Body, func(n ast.Node) bool {
				id, ok := n.(*ast.Ident)
				if !ok {
					return true
				}
				v, _ := p.TypesInfo.ObjectOf(id).(*types.Var)
				if v == nil || v.IsField() || !c08IsTime(v.Type()) || v.Parent() == nil || v.Parent() == p.Types.Scope() {
					return true
				}
				switch pp := parent[id].(type) {
				case *ast.AssignStmt:
					for i, l := range pp.Lhs {
						if l == ast.Expr(id) {
							if len(pp.Lhs) == len(pp.Rhs) {
								defs = append(defs, id.Name+" := "+norm(pp.Rhs[i]))
							} else {
								defs = append(defs, id.Name+" := one of "+norm(pp.Rhs[0]))
							}
							return true
						}
					}
					uses = append(uses, "copied: "+norm(pp))
				case *ast.SelectorExpr:
					if call, ok := parent[pp].(*ast.CallExpr); ok && call.Fun == ast.Expr(pp) && pp.X == ast.Expr(id) {
						if as, ok := parent[call].(*ast.AssignStmt); ok && len(as.Rhs) == 1 && as.Rhs[0] == ast.Expr(call) {
							return true // the definition of another variable: listed there
						}
						kind := "use"
						switch {
						case strings.HasPrefix(id.Name, "end"):
							kind = "end"
						case strings.HasPrefix(id.Name, "begin") || strings.HasPrefix(id.Name, "start"):
							kind = "start"
						}
						uses = append(uses, kind+": "+norm(call))
					} else {
						uses = append(uses, "escapes: "+norm(parent[id]))
					}
				default:
					uses = append(uses, "escapes: "+norm(parent[id]))
				}
				return true
			})
			sort.Strings(uses)
			if len(defs)+len(uses) == 0 {
				return []string{"none"}, nil
			}
			return append(defs, uses...), nil
		}
	}
	return nil, fmt.Errorf("x/paloma/keeper Keeper.CreateLightNodeClientAccount not found")
}

// c08EvidenceReplaceRule reads QueuedSignedMessage.AddEvidence (x/consensus/types/consensus.go).  Understood: a nil-guard
// `if q.Evidence == nil {...}`, ONE loop over q.Evidence whose body is a single `if <elem>.ValAddress.Equals(data.ValAddress)
// { <elem>.Proof = data.Proof; return }`, then `q.Evidence = append(q.Evidence, &data)`.  Everything else — in particular a
// replace condition with any further conjunct — is printed as "unknown:<source>".
func c08EvidenceReplaceRule(c *Ctx) ([]string, error) {
	f, err := c.Parse("x/consensus/types/consensus.go")
	if err != nil {
		return nil, err
	}
	fd := FindFunc(f, "QueuedSignedMessage", "AddEvidence")
	if fd == nil || fd.Body == nil {
		return nil, fmt.Errorf("QueuedSignedMessage.AddEvidence not found")
	}
	norm := func(n ast.Node) string { return c08Ascii(strings.Join(strings.Fields(c.Src(n)), " ")) }
	var out []string
	for _, st := range fd.Body.List {
		switch x := st.(type) {
		case *ast.IfStmt:
			if norm(x.Cond) == "q.Evidence == nil" && x.Else == nil {
				out = append(out, "init-if-nil")
				continue
			}
			out = append(out, "unknown:"+norm(x))
		case *ast.ForStmt, *ast.RangeStmt:
			var body *ast.BlockStmt
			hdr := ""
			if r, ok := x.(*ast.RangeStmt); ok {
				body, hdr = r.Body, "range "+norm(r.X)
			} else {
				fs := x.(*ast.ForStmt)
				body, hdr = fs.Body, "for"
			}
			if len(body.List) != 1 {
				out = append(out, "unknown:"+norm(st))
				continue
			}
			is, ok := body.List[0].(*ast.IfStmt)
			if !ok || is.Init != nil || is.Else != nil {
				out = append(out, "unknown:"+norm(st))
				continue
			}
			cond := norm(is.Cond)
			if cond != "q.Evidence[i].ValAddress.Equals(data.ValAddress)" {
				out = append(out, "unknown:replace-if "+cond)
				continue
			}
			var bs []string
			for _, b := range is.Body.List {
				bs = append(bs, norm(b))
			}
			out = append(out, hdr+": if same-validator { "+strings.Join(bs, "; ")+" }")
		case *ast.AssignStmt:
			out = append(out, norm(x))
		default:
			out = append(out, "unknown:"+norm(st))
		}
	}
	return out, nil
}
