package main

import (
	"fmt"
	"go/ast"
	"sort"
	"strings"
)

// C18: constants of the sale path, the order of the effect-bearing calls in the three keeper
// functions and in the attestation handler, the arguments that fix who is activated and for how
// long, the commit discipline of processAttestation, and the inventory of places where x/paloma
// spends from its module account.
func init() { extractors["C18"] = extractC18 }

// callSeq lists, in source order, the calls inside fd whose final selector is one of names.
func callSeq(fd *ast.FuncDecl, names ...string) []string {
	want := map[string]bool{}
	for _, n := range names {
		want[n] = true
	}
	type pc struct {
		pos  int
		name string
	}
	var found []pc
	ast.Inspect(fd.Body, func(x ast.Node) bool {
		ce, ok := x.(*ast.CallExpr)
		if !ok {
			return true
		}
		n := ""
		switch f := ce.Fun.(type) {
		case *ast.SelectorExpr:
			n = f.Sel.Name
		case *ast.Ident:
			n = f.Name
		}
		if want[n] {
			found = append(found, pc{int(ce.Lparen), n})
		}
		return true
	})
	sort.Slice(found, func(i, j int) bool { return found[i].pos < found[j].pos })
	out := make([]string, len(found))
	for i, f := range found {
		out[i] = f.name
	}
	return out
}

func extractC18(c *Ctx) error {
	kf, err := c.Parse("x/paloma/keeper/keeper.go")
	if err != nil {
		return err
	}
	months, ok := ConstValue(c, []*ast.File{kf}, "lightNodeSaleVestingMonths")
	if !ok {
		return fmt.Errorf("const lightNodeSaleVestingMonths not found")
	}
	c.P("(* x/paloma/keeper/keeper.go *)")
	c.P("Definition sale_vesting_months : Z := %s.", strings.ReplaceAll(months, "_", ""))

	sale := FindFunc(kf, "Keeper", "CreateSaleLightNodeClientLicense")
	create := FindFunc(kf, "Keeper", "CreateLightNodeClientLicense")
	activate := FindFunc(kf, "Keeper", "CreateLightNodeClientAccount")
	if sale == nil || create == nil || activate == nil {
		return fmt.Errorf("CreateSaleLightNodeClientLicense / CreateLightNodeClientLicense / CreateLightNodeClientAccount not found")
	}
	// coin := sdk.NewCoin(k.bondDenom, amount.Mul(math.NewInt(1_000_000)))
	mult := ""
	for _, nc := range Calls(sale.Body, "NewCoin") {
		if len(nc.Args) != 2 || c.Src(nc.Args[0]) != "k.bondDenom" {
			continue
		}
		for _, m := range Calls(nc.Args[1], "Mul") {
			if strings.HasPrefix(c.Src(m.Fun), "amount.") && len(m.Args) == 1 {
				if ni := Calls(m.Args[0], "NewInt"); len(ni) == 1 && len(ni[0].Args) == 1 {
					mult = strings.ReplaceAll(c.Src(ni[0].Args[0]), "_", "")
				}
			}
		}
	}
	if mult == "" {
		return fmt.Errorf("sale price expression sdk.NewCoin(k.bondDenom, amount.Mul(math.NewInt(N))) not recognised")
	}
	c.P("Definition sale_multiplier : Z := %s.", mult)
	// the months argument of the licence created by a sale
	saleArgs := ""
	for _, cl := range Calls(sale.Body, "CreateLightNodeClientLicense") {
		var a []string
		for _, x := range cl.Args {
			a = append(a, c.Src(x))
		}
		saleArgs = strings.Join(a, " | ")
	}
	c.P("Definition sale_create_args : string := %s.", CoqStr(saleArgs))

	seqCreate := callSeq(create, "GetLightNodeClientLicense", "HasAccount", "SetAccount",
		"SendCoinsFromAccountToModule", "SendCoinsFromModuleToAccount", "SetLightNodeClientLicense", "Delete")
	seqAct := callSeq(activate, "GetLightNodeClientLicense", "GetAccount", "SetAccount",
		"SendCoinsFromModuleToAccount", "SendCoinsFromAccountToModule", "Delete", "SetLightNodeClient", "SetLightNodeClientLicense")
	seqSale := callSeq(sale, "LightNodeClientFeegranter", "LightNodeClientFunders", "HasBalance",
		"CreateLightNodeClientLicense", "GrantAllowance")
	c.P("Definition create_calls : list string := %s.", CoqStrList(seqCreate))
	c.P("Definition activate_calls : list string := %s.", CoqStrList(seqAct))
	c.P("Definition sale_calls : list string := %s.", CoqStrList(seqSale))

	// vesting schedule arguments
	addDate, start, orig := "", "", ""
	for _, cl := range Calls(activate.Body, "AddDate") {
		var a []string
		for _, x := range cl.Args {
			a = append(a, c.Src(x))
		}
		addDate = c.Src(cl.Fun) + "(" + strings.Join(a, ", ") + ")"
	}
	for _, cl := range Calls(activate.Body, "NewContinuousVestingAccountRaw") {
		if len(cl.Args) == 2 {
			start = c.Src(cl.Args[1])
		}
	}
	for _, cl := range Calls(activate.Body, "NewBaseVestingAccount") {
		if len(cl.Args) == 3 {
			orig = c.Src(cl.Args[1]) + " | " + c.Src(cl.Args[2])
		}
	}
	amountDef, beginDef := "", ""
	ast.Inspect(activate.Body, func(n ast.Node) bool {
		as, ok := n.(*ast.AssignStmt)
		if ok && len(as.Lhs) == 1 && len(as.Rhs) == 1 {
			switch c.Src(as.Lhs[0]) {
			case "amount":
				amountDef = c.Src(as.Rhs[0])
			case "beginTime":
				beginDef = c.Src(as.Rhs[0])
			}
		}
		return true
	})
	if addDate == "" || start == "" || orig == "" || amountDef == "" || beginDef == "" {
		return fmt.Errorf("vesting schedule expressions not recognised in CreateLightNodeClientAccount")
	}
	c.P("Definition vesting_end_expr : string := %s.", CoqStr(addDate))
	c.P("Definition vesting_start_expr : string := %s.", CoqStr(start))
	c.P("Definition vesting_base_args : string := %s.", CoqStr(orig))
	c.P("Definition vesting_amount_def : string := %s.", CoqStr(amountDef))
	c.P("Definition vesting_begin_def : string := %s.", CoqStr(beginDef))

	// msg server: who is activated
	mf, err := c.Parse("x/paloma/keeper/msg_server.go")
	if err != nil {
		return err
	}
	reg := FindFunc(mf, "msgServer", "RegisterLightNodeClient")
	if reg == nil {
		return fmt.Errorf("msgServer.RegisterLightNodeClient not found")
	}
	who := ""
	for _, cl := range Calls(reg.Body, "CreateLightNodeClientAccount") {
		if len(cl.Args) == 2 {
			who = c.Src(cl.Args[1])
		}
	}
	if who == "" {
		return fmt.Errorf("RegisterLightNodeClient: call of CreateLightNodeClientAccount not recognised")
	}
	c.P("(* x/paloma/keeper/msg_server.go *)")
	c.P("Definition register_who : string := %s.", CoqStr(who))

	// every place where x/paloma moves coins out of a module account
	files, err := c.ParseDir("x/paloma/keeper")
	if err != nil {
		return err
	}
	more, err := c.ParseDir("x/paloma")
	if err != nil {
		return err
	}
	files = append(files, more...)
	var spend []string
	for _, f := range files {
		for _, d := range f.Decls {
			fd, ok := d.(*ast.FuncDecl)
			if !ok || fd.Body == nil {
				continue
			}
			for _, n := range []string{"SendCoinsFromModuleToAccount", "SendCoinsFromModuleToModule", "BurnCoins",
				"DelegateCoinsFromAccountToModule", "UndelegateCoinsFromModuleToAccount", "SendCoins", "InputOutputCoins"} {
				for range Calls(fd.Body, n) {
					spend = append(spend, fd.Name.Name+":"+n)
				}
			}
		}
	}
	sort.Strings(spend)
	c.P("(* calls in x/paloma (non-test) that can move coins out of the module account *)")
	c.P("Definition module_spend_sites : list string := %s.", CoqStrList(spend))

	// skyway: handler and the cache context around it
	hf, err := c.Parse("x/skyway/keeper/attestation_handler.go")
	if err != nil {
		return err
	}
	hs := FindFunc(hf, "AttestationHandler", "handleLightNodeSale")
	if hs == nil {
		return fmt.Errorf("handleLightNodeSale not found")
	}
	c.P("(* x/skyway/keeper/attestation_handler.go *)")
	c.P("Definition handle_sale_calls : list string := %s.", CoqStrList(callSeq(hs, "LightNodeSaleContract", "CreateSaleLightNodeClientLicense")))
	cmp := ""
	ast.Inspect(hs.Body, func(n ast.Node) bool {
		is, ok := n.(*ast.IfStmt)
		if ok && strings.Contains(c.Src(is.Cond), "ContractAddress") {
			cmp = c.Src(is.Cond)
		}
		return true
	})
	c.P("Definition handle_sale_contract_test : string := %s.", CoqStr(cmp))

	af, err := c.Parse("x/skyway/keeper/attestation.go")
	if err != nil {
		return err
	}
	pa := FindFunc(af, "Keeper", "processAttestation")
	if pa == nil {
		return fmt.Errorf("processAttestation not found")
	}
	// shape: ctx, commit := ...CacheContext(); if err := Handle(ctx, ...); err != nil { ... } else { commit() }
	usesCache := len(Calls(pa.Body, "CacheContext")) == 1
	commits := Calls(pa.Body, "commit")
	onlyOnSuccess := false
	handledOnBranch := false
	ast.Inspect(pa.Body, func(n ast.Node) bool {
		is, ok := n.(*ast.IfStmt)
		if !ok || is.Init == nil || !strings.Contains(c.Src(is.Init), "AttestationHandler.Handle(ctx") {
			return true
		}
		handledOnBranch = true
		if strings.TrimSpace(c.Src(is.Cond)) == "err != nil" && is.Else != nil &&
			len(Calls(is.Body, "commit")) == 0 && len(Calls(is.Else, "commit")) == 1 && len(commits) == 1 {
			onlyOnSuccess = true
		}
		return true
	})
	if !handledOnBranch {
		return fmt.Errorf("processAttestation: `if err := k.AttestationHandler.Handle(ctx, ...); err != nil` not recognised")
	}
	c.P("(* x/skyway/keeper/attestation.go: processAttestation *)")
	c.P("Definition attestation_uses_cache_context : bool := %v.", usesCache)
	c.P("Definition attestation_commit_only_on_success : bool := %v.", onlyOnSuccess)
	c.Info("sale", fmt.Sprintf("x%s, %s months", mult, months))
	c.Info("create_calls", seqCreate)
	c.Info("activate_calls", seqAct)
	c.Info("module_spend_sites", spend)
	return nil
}
