package main

import (
	"fmt"
	"go/ast"
	"sort"
	"strings"
)

// C18: constants of the sale path, the order of the effect-bearing calls in the three keeper
// functions and in the attestation handler, the arguments that fix who is activated and for how
// long, the commit discipline of processAttestation, and the inventory of places where x/paloma
// spends from its module account.
func init() { extractors["C18"] = extractC18 }

// callSeq lists, in source order, the calls inside fd whose final selector is one of names.
func callSeq(fd *ast.FuncDecl, names ...string) []string {
	want := map[string]bool{}
	for _, n := range names {
		want[n] = true
	}
	type pc struct {
		pos  int
		name string
	}
	var found []pc
	ast.Inspect(fd.Body, func(x ast.Node) bool {
		ce, ok := x.(*ast.CallExpr)
		if !ok {
			return true
		}
		n := ""
		fun := ce.Fun
		if ix, ok := fun.(*ast.IndexExpr); ok { // generic instantiation f[T](...)
			fun = ix.X
		}
		if ix, ok := fun.(*ast.IndexListExpr); ok {
			fun = ix.X
		}
		switch f := fun.(type) {
		case *ast.SelectorExpr:
			n = f.Sel.Name
		case *ast.Ident:
			n = f.Name
		}
		if want[n] {
			found = append(found, pc{int(ce.Lparen), n})
		}
		return true
	})
	sort.Slice(found, func(i, j int) bool { return found[i].pos < found[j].pos })
	out := make([]string, len(found))
	for i, f := range found {
		out[i] = f.name
	}
	return out
}

func extractC18(c *Ctx) error {
	kf, err := c.Parse("x/paloma/keeper/keeper.go")
	if err != nil {
		return err
	}
	months, ok := ConstValue(c, []*ast.File{kf}, "lightNodeSaleVestingMonths")
	if !ok {
		return fmt.Errorf("const lightNodeSaleVestingMonths not found")
	}
	c.P("(* x/paloma/keeper/keeper.go *)")
	c.P("Definition sale_vesting_months : Z := %s.", strings.ReplaceAll(months, "_", ""))

	sale := FindFunc(kf, "Keeper", "CreateSaleLightNodeClientLicense")
	create := FindFunc(kf, "Keeper", "CreateLightNodeClientLicense")
	activate := FindFunc(kf, "Keeper", "CreateLightNodeClientAccount")
	if sale == nil || create == nil || activate == nil {
		return fmt.Errorf("CreateSaleLightNodeClientLicense / CreateLightNodeClientLicense / CreateLightNodeClientAccount not found")
	}
	// coin := sdk.NewCoin(k.bondDenom, amount.Mul(math.NewInt(1_000_000)))
	mult := ""
	for _, nc := range Calls(sale.Body, "NewCoin") {
		if len(nc.Args) != 2 || c.Src(nc.Args[0]) != "k.bondDenom" {
			continue
		}
		for _, m := range Calls(nc.Args[1], "Mul") {
			if strings.HasPrefix(c.Src(m.Fun), "amount.") && len(m.Args) == 1 {
				if ni := Calls(m.Args[0], "NewInt"); len(ni) == 1 && len(ni[0].Args) == 1 {
					mult = strings.ReplaceAll(c.Src(ni[0].Args[0]), "_", "")
				}
			}
		}
	}
	if mult == "" {
		return fmt.Errorf("sale price expression sdk.NewCoin(k.bondDenom, amount.Mul(math.NewInt(N))) not recognised")
	}
	c.P("Definition sale_multiplier : Z := %s.", mult)
	// the months argument of the licence created by a sale
	saleArgs := ""
	for _, cl := range Calls(sale.Body, "CreateLightNodeClientLicense") {
		var a []string
		for _, x := range cl.Args {
			a = append(a, c.Src(x))
		}
		saleArgs = strings.Join(a, " | ")
	}
	c.P("Definition sale_create_args : string := %s.", CoqStr(saleArgs))

	seqCreate := callSeq(create, "GetLightNodeClientLicense", "HasAccount", "SetAccount",
		"SendCoinsFromAccountToModule", "SendCoinsFromModuleToAccount", "SetLightNodeClientLicense", "Delete")
	seqAct := callSeq(activate, "GetLightNodeClientLicense", "GetAccount", "SetAccount",
		"SendCoinsFromModuleToAccount", "SendCoinsFromAccountToModule", "Delete", "SetLightNodeClient", "SetLightNodeClientLicense")
	seqSale := callSeq(sale, "LightNodeClientFeegranter", "LightNodeClientFunders", "HasBalance",
		"CreateLightNodeClientLicense", "GrantAllowance")
	c.P("Definition create_calls : list string := %s.", CoqStrList(seqCreate))
	c.P("Definition activate_calls : list string := %s.", CoqStrList(seqAct))
	c.P("Definition sale_calls : list string := %s.", CoqStrList(seqSale))

	// vesting schedule arguments
	addDate, start, orig := "", "", ""
	for _, cl := range Calls(activate.Body, "AddDate") {
		var a []string
		for _, x := range cl.Args {
			a = append(a, c.Src(x))
		}
		addDate = c.Src(cl.Fun) + "(" + strings.Join(a, ", ") + ")"
	}
	for _, cl := range Calls(activate.Body, "NewContinuousVestingAccountRaw") {
		if len(cl.Args) == 2 {
			start = c.Src(cl.Args[1])
		}
	}
	for _, cl := range Calls(activate.Body, "NewBaseVestingAccount") {
		if len(cl.Args) == 3 {
			orig = c.Src(cl.Args[1]) + " | " + c.Src(cl.Args[2])
		}
	}
	amountDef, beginDef := "", ""
	ast.Inspect(activate.Body, func(n ast.Node) bool {
		as, ok := n.(*ast.AssignStmt)
		if ok && len(as.Lhs) == 1 && len(as.Rhs) == 1 {
			switch c.Src(as.Lhs[0]) {
			case "amount":
				amountDef = c.Src(as.Rhs[0])
			case "beginTime":
				beginDef = c.Src(as.Rhs[0])
			}
		}
		return true
	})
	if addDate == "" || start == "" || orig == "" || amountDef == "" || beginDef == "" {
		return fmt.Errorf("vesting schedule expressions not recognised in CreateLightNodeClientAccount")
	}
	c.P("Definition vesting_end_expr : string := %s.", CoqStr(addDate))
	c.P("Definition vesting_start_expr : string := %s.", CoqStr(start))
	c.P("Definition vesting_base_args : string := %s.", CoqStr(orig))
	c.P("Definition vesting_amount_def : string := %s.", CoqStr(amountDef))
	c.P("Definition vesting_begin_def : string := %s.", CoqStr(beginDef))

	// msg server: who is activated
	mf, err := c.Parse("x/paloma/keeper/msg_server.go")
	if err != nil {
		return err
	}
	reg := FindFunc(mf, "msgServer", "RegisterLightNodeClient")
	if reg == nil {
		return fmt.Errorf("msgServer.RegisterLightNodeClient not found")
	}
	who := ""
	for _, cl := range Calls(reg.Body, "CreateLightNodeClientAccount") {
		if len(cl.Args) == 2 {
			who = c.Src(cl.Args[1])
		}
	}
	if who == "" {
		return fmt.Errorf("RegisterLightNodeClient: call of CreateLightNodeClientAccount not recognised")
	}
	c.P("(* x/paloma/keeper/msg_server.go *)")
	c.P("Definition register_who : string := %s.", CoqStr(who))

	// every place where x/paloma moves coins out of a module account
	files, err := c.ParseDir("x/paloma/keeper")
	if err != nil {
		return err
	}
	more, err := c.ParseDir("x/paloma")
	if err != nil {
		return err
	}
	files = append(files, more...)
	var spend []string
	for _, f := range files {
		for _, d := range f.Decls {
			fd, ok := d.(*ast.FuncDecl)
			if !ok || fd.Body == nil {
				continue
			}
			for _, n := range []string{"SendCoinsFromModuleToAccount", "SendCoinsFromModuleToModule", "BurnCoins",
				"DelegateCoinsFromAccountToModule", "UndelegateCoinsFromModuleToAccount", "SendCoins", "InputOutputCoins"} {
				for range Calls(fd.Body, n) {
					spend = append(spend, fd.Name.Name+":"+n)
				}
			}
		}
	}
	sort.Strings(spend)
	c.P("(* calls in x/paloma (non-test) that can move coins out of the module account *)")
	c.P("Definition module_spend_sites : list string := %s.", CoqStrList(spend))

	// skyway: handler and the cache context around it
	hf, err := c.Parse("x/skyway/keeper/attestation_handler.go")
	if err != nil {
		return err
	}
	hs := FindFunc(hf, "AttestationHandler", "handleLightNodeSale")
	if hs == nil {
		return fmt.Errorf("handleLightNodeSale not found")
	}
	c.P("(* x/skyway/keeper/attestation_handler.go *)")
	c.P("Definition handle_sale_calls : list string := %s.", CoqStrList(callSeq(hs, "LightNodeSaleContract", "CreateSaleLightNodeClientLicense")))
	cmp := ""
	ast.Inspect(hs.Body, func(n ast.Node) bool {
		is, ok := n.(*ast.IfStmt)
		if ok && strings.Contains(c.Src(is.Cond), "ContractAddress") {
			cmp = c.Src(is.Cond)
		}
		return true
	})
	c.P("Definition handle_sale_contract_test : string := %s.", CoqStr(cmp))

	af, err := c.Parse("x/skyway/keeper/attestation.go")
	if err != nil {
		return err
	}
	pa := FindFunc(af, "Keeper", "processAttestation")
	if pa == nil {
		return fmt.Errorf("processAttestation not found")
	}
	// shape: ctx, commit := ...CacheContext(); if err := Handle(ctx, ...); err != nil { ... } else { commit() }
	usesCache := len(Calls(pa.Body, "CacheContext")) == 1
	commits := Calls(pa.Body, "commit")
	onlyOnSuccess := false
	handledOnBranch := false
	ast.Inspect(pa.Body, func(n ast.Node) bool {
		is, ok := n.(*ast.IfStmt)
		if !ok || is.Init == nil || !strings.Contains(c.Src(is.Init), "AttestationHandler.Handle(ctx") {
			return true
		}
		handledOnBranch = true
		if strings.TrimSpace(c.Src(is.Cond)) == "err != nil" && is.Else != nil &&
			len(Calls(is.Body, "commit")) == 0 && len(Calls(is.Else, "commit")) == 1 && len(commits) == 1 {
			onlyOnSuccess = true
		}
		return true
	})
	if !handledOnBranch {
		return fmt.Errorf("processAttestation: `if err := k.AttestationHandler.Handle(ctx, ...); err != nil` not recognised")
	}
	c.P("(* x/skyway/keeper/attestation.go: processAttestation *)")
	c.P("Definition attestation_uses_cache_context : bool := %v.", usesCache)
	c.P("Definition attestation_commit_only_on_success : bool := %v.", onlyOnSuccess)
	if err := extractC18Round2(c, kf, mf, af, create, activate, sale); err != nil {
		return err
	}
	c.Info("sale", fmt.Sprintf("x%s, %s months", mult, months))
	c.Info("create_calls", seqCreate)
	c.Info("activate_calls", seqAct)
	c.Info("module_spend_sites", spend)
	return nil
}

// collabSeq lists, in source order, the calls made through one of the keeper's collaborator
// fields (k.accountKeeper / k.bankKeeper / k.feegrantKeeper) plus the calls of the named keeper
// methods (so that a nested keeper function shows up at its place).
func collabSeq(c *Ctx, fd *ast.FuncDecl, own ...string) []string {
	ownSet := map[string]bool{}
	for _, n := range own {
		ownSet[n] = true
	}
	type pc struct {
		pos  int
		name string
	}
	var found []pc
	ast.Inspect(fd.Body, func(x ast.Node) bool {
		ce, ok := x.(*ast.CallExpr)
		if !ok {
			return true
		}
		se, ok := ce.Fun.(*ast.SelectorExpr)
		if !ok {
			return true
		}
		recv := c.Src(se.X)
		switch recv {
		case "k.accountKeeper", "k.bankKeeper", "k.feegrantKeeper":
			found = append(found, pc{int(ce.Lparen), strings.TrimPrefix(recv, "k.") + "." + se.Sel.Name})
		case "k":
			if ownSet[se.Sel.Name] {
				found = append(found, pc{int(ce.Lparen), "k." + se.Sel.Name})
			}
		}
		return true
	})
	sort.Slice(found, func(i, j int) bool { return found[i].pos < found[j].pos })
	out := make([]string, len(found))
	for i, f := range found {
		out[i] = f.name
	}
	return out
}

// second round: the collaborator call sequences the fault model numbers, the funder loop, legacy
// clients, genesis, and the attestation machinery around the handler (TryAttestation / EndBlocker)
func extractC18Round2(c *Ctx, kf, mf, af *ast.File, create, activate, sale *ast.FuncDecl) error {
	c.P("(* ---- second round ---- *)")
	c.P("(* calls through the AccountKeeper / BankKeeper / FeegrantKeeper interfaces, in source order *)")
	c.P("Definition create_collab_calls : list string := %s.", CoqStrList(collabSeq(c, create)))
	c.P("Definition activate_collab_calls : list string := %s.", CoqStrList(collabSeq(c, activate)))
	c.P("Definition sale_collab_calls : list string := %s.", CoqStrList(collabSeq(c, sale, "CreateLightNodeClientLicense")))

	// the funder loop: `for i := range funders.Accounts { if HasBalance(...) { funder = ... } }`
	loops, breaks, loopBody := 0, 0, ""
	ast.Inspect(sale.Body, func(n ast.Node) bool {
		rs, ok := n.(*ast.RangeStmt)
		if !ok || !strings.Contains(c.Src(rs.X), "funders.Accounts") {
			return true
		}
		loops++
		loopBody = strings.Join(strings.Fields(c.Src(rs.Body)), " ")
		ast.Inspect(rs.Body, func(m ast.Node) bool {
			if bs, ok := m.(*ast.BranchStmt); ok && bs.Tok.String() == "break" {
				breaks++
			}
			if _, ok := m.(*ast.ReturnStmt); ok {
				breaks++
			}
			return true
		})
		return true
	})
	if loops != 1 {
		return fmt.Errorf("CreateSaleLightNodeClientLicense: expected one loop over funders.Accounts, found %d", loops)
	}
	c.P("Definition funder_loop_exits_early : bool := %v.", breaks > 0)
	c.P("Definition funder_loop_body : string := %s.", CoqStr(loopBody))

	// legacy clients
	legacy := FindFunc(kf, "Keeper", "GetLegacyLightNodeClients")
	setLegacy := FindFunc(mf, "msgServer", "SetLegacyLightNodeClients")
	if legacy == nil || setLegacy == nil {
		return fmt.Errorf("GetLegacyLightNodeClients / msgServer.SetLegacyLightNodeClients not found")
	}
	c.P("Definition legacy_calls : list string := %s.", CoqStrList(callSeq(legacy,
		"LightNodeClientFeegranter", "AllLightNodeClientLicenses", "AllowancesByGranter", "GetLightNodeClient",
		"SetLightNodeClient", "SetLightNodeClientLicense", "Delete", "SetAccount", "SendCoinsFromModuleToAccount", "SendCoinsFromAccountToModule")))
	c.P("Definition set_legacy_calls : list string := %s.", CoqStrList(callSeq(setLegacy,
		"GetLegacyLightNodeClients", "SetLightNodeClient", "SetLightNodeClientLicense", "Delete", "SetAccount",
		"SendCoinsFromModuleToAccount", "SendCoinsFromAccountToModule")))
	licCmp := ""
	ast.Inspect(legacy.Body, func(n ast.Node) bool {
		is, ok := n.(*ast.IfStmt)
		if ok && strings.Contains(c.Src(is.Cond), "grant.Grantee") && strings.Contains(c.Src(is.Cond), "ClientAddress") {
			licCmp = c.Src(is.Cond)
		}
		return true
	})
	c.P("Definition legacy_licence_test : string := %s.", CoqStr(licCmp))

	// genesis
	gf, err := c.Parse("x/paloma/genesis.go")
	if err != nil {
		return err
	}
	ig, eg := FindFunc(gf, "", "InitGenesis"), FindFunc(gf, "", "ExportGenesis")
	if ig == nil || eg == nil {
		return fmt.Errorf("x/paloma InitGenesis / ExportGenesis not found")
	}
	c.P("(* x/paloma/genesis.go *)")
	c.P("Definition init_genesis_calls : list string := %s.", CoqStrList(callSeq(ig, "SetParams", "SetLightNodeClientLicense",
		"SetLightNodeClientFeegranter", "SetLightNodeClientFunders", "SetLightNodeClient", "CreateLightNodeClientLicense",
		"SetAccount", "SendCoinsFromAccountToModule", "MintCoins")))
	c.P("Definition export_genesis_calls : list string := %s.", CoqStrList(callSeq(eg, "GetParams", "AllLightNodeClientLicenses",
		"LightNodeClientFeegranter", "LightNodeClientFunders", "AllLightNodeClients")))
	licKey := ""
	for _, cl := range Calls(ig.Body, "SetLightNodeClientLicense") {
		if len(cl.Args) == 3 {
			licKey = c.Src(cl.Args[1]) + " | " + c.Src(cl.Args[2])
		}
	}
	c.P("Definition init_genesis_licence_args : string := %s.", CoqStr(licKey))
	tf, err := c.Parse("x/paloma/types/genesis.go")
	if err != nil {
		return err
	}
	val := FindFunc(tf, "GenesisState", "Validate")
	if val == nil {
		return fmt.Errorf("GenesisState.Validate not found")
	}
	c.P("Definition genesis_validate_body : string := %s.", CoqStr(strings.Join(strings.Fields(c.Src(val.Body)), " ")))

	// the attestation machinery: writes of TryAttestation before the handler, its only caller, the recover
	try := FindFunc(af, "Keeper", "TryAttestation")
	if try == nil {
		return fmt.Errorf("TryAttestation not found")
	}
	c.P("(* x/skyway/keeper/attestation.go: TryAttestation *)")
	c.P("Definition try_attestation_calls : list string := %s.", CoqStrList(callSeq(try, "SetLastObservedEthereumBlockHeight",
		"setLastObservedSkywayNonce", "SetAttestation", "processAttestation", "emitObservedEvent", "CacheContext")))
	sk, err := c.ParseDir("x/skyway")
	if err != nil {
		return err
	}
	skk, err := c.ParseDir("x/skyway/keeper")
	if err != nil {
		return err
	}
	var callers []string
	for _, f := range append(sk, skk...) {
		for _, d := range f.Decls {
			fd, ok := d.(*ast.FuncDecl)
			if !ok || fd.Body == nil {
				continue
			}
			for range Calls(fd.Body, "TryAttestation") {
				callers = append(callers, fd.Name.Name)
			}
		}
	}
	sort.Strings(callers)
	c.P("Definition try_attestation_callers : list string := %s.", CoqStrList(callers))
	abci, err := c.Parse("x/skyway/abci.go")
	if err != nil {
		return err
	}
	eb := FindFunc(abci, "", "EndBlocker")
	if eb == nil {
		return fmt.Errorf("skyway EndBlocker not found")
	}
	recovers := false
	for _, st := range eb.Body.List {
		ds, ok := st.(*ast.DeferStmt)
		if ok && len(Calls(ds, "recover")) == 1 {
			recovers = true
		}
	}
	// governance replaces the whole table of sale contracts: delete every entry, save the new ones
	skf, err := c.Parse("x/skyway/keeper/keeper.go")
	if err != nil {
		return err
	}
	setAll := FindFunc(skf, "Keeper", "SetAllLighNodeSaleContracts")
	if setAll == nil {
		return fmt.Errorf("SetAllLighNodeSaleContracts not found")
	}
	wipe := ""
	for _, it := range Calls(setAll.Body, "IterAllFnc") {
		for _, a := range it.Args {
			if fl, ok := a.(*ast.FuncLit); ok {
				wipe = strings.Join(strings.Fields(c.Src(fl.Body)), " ")
			}
		}
	}
	c.P("(* x/skyway/keeper/keeper.go: SetAllLighNodeSaleContracts *)")
	c.P("Definition set_contracts_calls : list string := %s.", CoqStrList(callSeq(setAll, "IterAllFnc", "Delete", "Save")))
	c.P("Definition set_contracts_wipe_callback : string := %s.", CoqStr(wipe))
	iterf, err := c.Parse("util/keeper/iter.go")
	if err == nil {
		// IterAllFnc stops when the callback returns false
		if f := FindFunc(iterf, "", "IterAllFnc"); f != nil {
			stop := ""
			ast.Inspect(f.Body, func(n ast.Node) bool {
				is, ok := n.(*ast.IfStmt)
				if ok && strings.Contains(c.Src(is.Cond), "fnc(") {
					stop = strings.Join(strings.Fields(c.Src(is)), " ")
				}
				return true
			})
			c.P("Definition iter_all_fnc_stop_test : string := %s.", CoqStr(stop))
		}
	}
	// rounds 3-4: who reads the licence store, through which helper, and every place in x/paloma
	// where a page, a limit or a bounded iteration could cut a list short
	pk, err := c.ParseDir("x/paloma/keeper")
	if err != nil {
		return err
	}
	pm, err := c.ParseDir("x/paloma")
	if err != nil {
		return err
	}
	helpers := []string{"IterAll", "IterAllFnc", "IterAllRaw", "Load", "Save", "Delete", "Paginate", "FilteredPaginate",
		"GenericFilteredPaginate", "Iterator", "ReverseIterator", "Has", "Get", "Set"}
	var storeUsers, listCallers, pageSites []string
	for _, f := range append(pk, pm...) {
		for _, d := range f.Decls {
			fd, ok := d.(*ast.FuncDecl)
			if !ok || fd.Body == nil {
				continue
			}
			if len(Calls(fd.Body, "lightNodeClientLicenseStore")) > 0 {
				storeUsers = append(storeUsers, fd.Name.Name+":"+strings.Join(callSeq(fd, helpers...), ","))
			}
			for range Calls(fd.Body, "AllLightNodeClientLicenses") {
				listCallers = append(listCallers, fd.Name.Name)
			}
			ast.Inspect(fd.Body, func(n ast.Node) bool {
				switch x := n.(type) {
				case *ast.SelectorExpr:
					switch x.Sel.Name {
					case "Paginate", "FilteredPaginate", "GenericFilteredPaginate", "PageRequest", "Limit", "DefaultLimit", "CountTotal", "Offset":
						pageSites = append(pageSites, fd.Name.Name+":"+x.Sel.Name)
					}
				}
				return true
			})
		}
	}
	sort.Strings(storeUsers)
	sort.Strings(listCallers)
	sort.Strings(pageSites)
	c.P("(* readers / writers of the licence store, callers of the licence list, pagination in x/paloma *)")
	c.P("Definition licence_store_users : list string := %s.", CoqStrList(storeUsers))
	c.P("Definition licence_list_callers : list string := %s.", CoqStrList(listCallers))
	c.P("Definition paloma_pagination_sites : list string := %s.", CoqStrList(pageSites))
	if iterf2, err := c.Parse("util/keeper/iter.go"); err == nil {
		for _, name := range []string{"IterAll", "IterAllFnc"} {
			f := FindFunc(iterf2, "", name)
			if f == nil {
				return fmt.Errorf("util/keeper/iter.go: %s not found", name)
			}
			loops, exits := []string{}, 0
			ast.Inspect(f.Body, func(n ast.Node) bool {
				switch x := n.(type) {
				case *ast.ForStmt:
					h := "for " + c.Src(x.Init) + "; " + c.Src(x.Cond) + "; " + c.Src(x.Post)
					if x.Init == nil {
						h = "for ; " + c.Src(x.Cond) + "; " + c.Src(x.Post)
					}
					loops = append(loops, h)
				case *ast.RangeStmt:
					loops = append(loops, "range "+c.Src(x.X))
				case *ast.BranchStmt:
					if x.Tok.String() == "break" {
						exits++
					}
				}
				return true
			})
			c.P("Definition %s_loops : list string := %s.", strings.ToLower(name), CoqStrList(loops))
			c.P("Definition %s_breaks : Z := %d.", strings.ToLower(name), exits)
			c.P("Definition %s_calls : list string := %s.", strings.ToLower(name), CoqStrList(callSeq(f, "IterAllFnc", "Iterator", "ReverseIterator", "Paginate")))
		}
	}
	// round 5: the signature-authorisation decorator decides per message: everything it decides with
	// is declared inside the loop over the messages
	if antef, err := c.Parse("x/paloma/ante.go"); err == nil {
		ah := FindFunc(antef, "VerifyAuthorisedSignatureDecorator", "AnteHandle")
		if ah == nil {
			return fmt.Errorf("VerifyAuthorisedSignatureDecorator.AnteHandle not found")
		}
		declared := func(n ast.Node) []string {
			var out []string
			ast.Inspect(n, func(x ast.Node) bool {
				switch d := x.(type) {
				case *ast.FuncLit:
					return false
				case *ast.AssignStmt:
					if d.Tok.String() == ":=" {
						for _, l := range d.Lhs {
							if id, ok := l.(*ast.Ident); ok && id.Name != "_" {
								out = append(out, id.Name)
							}
						}
					}
				case *ast.ValueSpec:
					for _, id := range d.Names {
						out = append(out, id.Name)
					}
				}
				return true
			})
			return out
		}
		var outer, inner []string
		loops := 0
		for _, st := range ah.Body.List {
			if rs, ok := st.(*ast.RangeStmt); ok && c.Src(rs.X) == "msgs" {
				loops++
				inner = declared(rs.Body)
				continue
			}
			if loops == 0 {
				outer = append(outer, declared(st)...)
			}
		}
		if loops != 1 {
			return fmt.Errorf("VerifyAuthorisedSignatureDecorator.AnteHandle: expected one top-level loop over msgs, found %d", loops)
		}
		// round 6: flattenMsgs must be the recursive walk that REFUSES a transaction nested deeper than
		// maxNestedMsgDepth (C03's recogniser; any other shape, e.g. returning the part collected so far,
		// is an unknown shape)
		maxDepth, err := c03Flatten(c)
		if err != nil {
			return err
		}
		c.P("(* x/paloma/ante.go: flattenMsgs refuses nesting deeper than *)")
		c.P("Definition max_nested_depth : Z := %d.", maxDepth)
		c.P("(* x/paloma/ante.go: VerifyAuthorisedSignatureDecorator.AnteHandle *)")
		c.P("Definition ante_declared_before_loop : list string := %s.", CoqStrList(outer))
		c.P("Definition ante_declared_per_message : list string := %s.", CoqStrList(inner))
	} else {
		return err
	}
	// the contract comparison operands of the sale handler (rounds 3-4: no decoding on either side)
	c.P("(* x/skyway/abci.go *)")
	c.P("Definition endblocker_defers_recover : bool := %v.", recovers)
	c.P("Definition endblocker_calls : list string := %s.", CoqStrList(callSeq(eb, "createBatch", "attestationTally", "pruneAttestations", "CacheContext")))
	return nil
}
