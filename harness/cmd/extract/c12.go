package main

import (
	"fmt"
	"go/ast"
	"go/token"
	"math/big"
	"strconv"
	"strings"
)

// C12: keep-alive TTL, grace period, liveness-check period / first height, jail sentence table,
// sentence reset threshold, network-share protection, and which encoder / readers the unjailed
// snapshot uses.
func init() { extractors["C12"] = extractC12 }

var c12DurUnits = map[string]int64{
	"time.Nanosecond": 1, "time.Microsecond": 1000, "time.Millisecond": 1000000,
	"time.Second": 1000000000, "time.Minute": 60000000000, "time.Hour": 3600000000000,
}

// c12Dur evaluates products of integer literals and time.* units to nanoseconds.
func c12Dur(c *Ctx, e ast.Expr) (int64, error) {
	switch x := e.(type) {
	case *ast.ParenExpr:
		return c12Dur(c, x.X)
	case *ast.BasicLit:
		if x.Kind == token.INT {
			return strconv.ParseInt(x.Value, 0, 64)
		}
	case *ast.SelectorExpr:
		if u, ok := c12DurUnits[c.Src(x)]; ok {
			return u, nil
		}
	case *ast.BinaryExpr:
		if x.Op == token.MUL {
			a, err := c12Dur(c, x.X)
			if err != nil {
				return 0, err
			}
			b, err := c12Dur(c, x.Y)
			if err != nil {
				return 0, err
			}
			return a * b, nil
		}
	}
	return 0, fmt.Errorf("duration expression not understood: %s", c.Src(e))
}

func extractC12(c *Ctx) error {
	files, err := c.ParseDir("x/valset/keeper")
	if err != nil {
		return err
	}
	intConst := func(name, coq string) error {
		v, ok := ConstValue(c, files, name)
		if !ok {
			return fmt.Errorf("constant %s not found in x/valset/keeper", name)
		}
		n, err := strconv.ParseInt(v, 0, 64)
		if err != nil {
			return fmt.Errorf("constant %s = %s is not an integer literal", name, v)
		}
		c.P("Definition %s : Z := %d. (* %s *)", coq, n, name)
		c.Info(coq, n)
		return nil
	}
	if err := intConst("cJailingDefaultKeepAliveBlockHeight", "keep_alive_ttl"); err != nil {
		return err
	}
	if err := intConst("cJailingGracePeriodBlockHeight", "grace_period"); err != nil {
		return err
	}
	// 0.25 as an exact rational
	sv, ok := ConstValue(c, files, "cJailingNetworkShareProtection")
	if !ok {
		return fmt.Errorf("cJailingNetworkShareProtection not found")
	}
	rat, ok := new(big.Rat).SetString(sv)
	if !ok {
		return fmt.Errorf("cJailingNetworkShareProtection = %s is not a decimal literal", sv)
	}
	c.P("Definition share_num : Z := %s. (* cJailingNetworkShareProtection = %s *)", rat.Num(), sv)
	c.P("Definition share_den : Z := %s.", rat.Denom())
	c.Info("share_protection", sv)

	// sentence table
	var table []string
	for _, f := range files {
		for _, d := range f.Decls {
			gd, ok := d.(*ast.GenDecl)
			if !ok {
				continue
			}
			for _, s := range gd.Specs {
				vs, ok := s.(*ast.ValueSpec)
				if !ok || len(vs.Names) != 1 || vs.Names[0].Name != "jailSentences" || len(vs.Values) != 1 {
					continue
				}
				cl, ok := vs.Values[0].(*ast.CompositeLit)
				if !ok {
					return fmt.Errorf("jailSentences is not a composite literal")
				}
				for _, e := range cl.Elts {
					n, err := c12Dur(c, e)
					if err != nil {
						return err
					}
					table = append(table, strconv.FormatInt(n, 10))
				}
			}
		}
	}
	if len(table) == 0 {
		return fmt.Errorf("jailSentences table not found")
	}
	c.P("Definition jail_sentences : list Z := [%s]. (* nanoseconds *)", strings.Join(table, "; "))
	c.Info("jail_sentences_ns", table)

	// deriveJailSentence: `if d < sentence { return sentence }` in a range over jailSentences, then the last entry
	dj := FindFuncIn(files, "", "deriveJailSentence")
	if dj == nil {
		return fmt.Errorf("deriveJailSentence not found")
	}
	djs := c.Src(dj.Body)
	if !strings.Contains(djs, "range jailSentences") || !strings.Contains(djs, "d < sentence") || !strings.Contains(djs, "jailSentences[len(jailSentences)-1]") {
		return fmt.Errorf("deriveJailSentence has an unknown shape: %s", djs)
	}
	// calculateJailSentenceResetThreshold: max(time.Minute*30, d+time.Duration(d/20))
	rt := FindFuncIn(files, "", "calculateJailSentenceResetThreshold")
	if rt == nil {
		return fmt.Errorf("calculateJailSentenceResetThreshold not found")
	}
	var floor, div int64
	for _, ce := range Calls(rt.Body, "max") {
		if len(ce.Args) != 2 {
			continue
		}
		f, err := c12Dur(c, ce.Args[0])
		if err != nil {
			return err
		}
		be, ok := ce.Args[1].(*ast.BinaryExpr)
		if !ok || be.Op != token.ADD || c.Src(be.X) != "d" {
			return fmt.Errorf("reset threshold: second argument of max not of the form d+time.Duration(d/N): %s", c.Src(ce.Args[1]))
		}
		conv, ok := be.Y.(*ast.CallExpr)
		if !ok || len(conv.Args) != 1 {
			return fmt.Errorf("reset threshold: %s", c.Src(be.Y))
		}
		q, ok := conv.Args[0].(*ast.BinaryExpr)
		if !ok || q.Op != token.QUO || c.Src(q.X) != "d" {
			return fmt.Errorf("reset threshold: %s", c.Src(conv.Args[0]))
		}
		dv, err := c12Dur(c, q.Y)
		if err != nil {
			return err
		}
		floor, div = f, dv
	}
	if floor == 0 || div == 0 {
		return fmt.Errorf("calculateJailSentenceResetThreshold: max(floor, d+d/N) not recognised")
	}
	c.P("Definition reset_floor : Z := %d. (* nanoseconds *)", floor)
	c.P("Definition reset_div : Z := %d.", div)
	c.Info("reset_threshold", fmt.Sprintf("max(%dns, d+d/%d)", floor, div))

	// Jail: protections present and in this order: already jailed, count == 1, share
	jf := FindFuncIn(files, "Keeper", "Jail")
	if jf == nil {
		return fmt.Errorf("Keeper.Jail not found")
	}
	js := c.Src(jf.Body)
	iJ, iC, iS, iSl := strings.Index(js, "val.IsJailed()"), strings.Index(js, "count == 1"),
		strings.Index(js, "float64(consensusPower)/float64(totalConsensusPower) > cJailingNetworkShareProtection"), strings.Index(js, "k.slashing.Jail(")
	if !(iJ >= 0 && iJ < iC && iC < iS && iS < iSl) {
		return fmt.Errorf("Keeper.Jail: guards (already jailed, count == 1, share > protection) before slashing.Jail not recognised")
	}
	if !strings.Contains(js, "val.IsBonded() && !val.IsJailed()") {
		return fmt.Errorf("Keeper.Jail: total is not taken over bonded unjailed validators")
	}
	c.P("Definition jail_guards : list string := [\"already-jailed\"; \"last-active\"; \"share\"].")

	// Jail: under which address the jail record is read and written (the operator address parameter is
	// shadowed by `valAddr := sdk.ValAddress(cons)`: a use before that line is the operator address),
	// how the reset window is compared, what is recorded
	iSh := strings.Index(js, "valAddr := sdk.ValAddress(cons)")
	iGet, iSet := strings.Index(js, "k.jailLog.Get(ctx, valAddr)"), strings.Index(js, "k.jailLog.Set(ctx, valAddr, r)")
	if iGet < 0 || iSet < 0 || strings.Count(js, "k.jailLog.Get(") != 1 || strings.Count(js, "k.jailLog.Set(") != 1 {
		return fmt.Errorf("Keeper.Jail: one jailLog.Get(ctx, valAddr) and one jailLog.Set(ctx, valAddr, r) expected")
	}
	keyOf := func(i int) string {
		if iSh >= 0 && i > iSh {
			return "consensus"
		}
		return "operator"
	}
	c.P("Definition jail_log_read_key : string := %s.", CoqStr(keyOf(iGet)))
	c.P("Definition jail_log_write_key : string := %s.", CoqStr(keyOf(iSet)))
	c.Info("jail_log_keys", keyOf(iGet)+"/"+keyOf(iSet))
	cmp := ""
	switch {
	case strings.Contains(js, "ctx.BlockTime().Sub(r.JailedAt) < threshold"):
		cmp = "<"
	case strings.Contains(js, "ctx.BlockTime().Sub(r.JailedAt) <= threshold"):
		cmp = "<="
	default:
		return fmt.Errorf("Keeper.Jail: reset-window test `ctx.BlockTime().Sub(r.JailedAt) < threshold` not recognised")
	}
	c.P("Definition reset_window_cmp : string := %s. (* escalate iff now - jailedAt CMP threshold *)", CoqStr(cmp))
	if !strings.Contains(js, "threshold := calculateJailSentenceResetThreshold(r.Duration)") ||
		!strings.Contains(js, "sentence = deriveJailSentence(r.Duration)") || !strings.Contains(js, "sentence = deriveJailSentence(time.Duration(0))") {
		return fmt.Errorf("Keeper.Jail: threshold / escalate / reset statements not recognised")
	}
	// the record that is written: the last composite literal assigned to r before jailLog.Set
	recAt, recDur := "", ""
	ast.Inspect(jf.Body, func(n ast.Node) bool {
		cl, ok := n.(*ast.CompositeLit)
		if !ok || !strings.HasSuffix(c.Src(cl.Type), "JailRecord") || int(cl.Pos()-jf.Body.Pos()) > iSet {
			return true
		}
		for _, e := range cl.Elts {
			if kv, ok := e.(*ast.KeyValueExpr); ok {
				switch c.Src(kv.Key) {
				case "JailedAt":
					recAt = c.Src(kv.Value)
				case "Duration":
					recDur = c.Src(kv.Value)
				}
			}
		}
		return true
	})
	c.P("Definition jail_record_written : string * string := (%s, %s). (* Duration, JailedAt *)", CoqStr(recDur), CoqStr(recAt))
	iJT, iJU := strings.Index(js, "jailTime = ctx.BlockTime().Add(sentence)"), strings.Index(js, "k.slashing.JailUntil(ctx, cons, jailTime)")
	c.P("Definition jailed_until_is_block_time_plus_sentence : bool := %v.", iJT >= 0 && iJT < iJU)

	// JailInactiveValidators: a failing Jail is collected (g.Add) and the loop goes on
	kaf, err := c.Parse("x/valset/keeper/keep_alive.go")
	if err != nil {
		return err
	}
	jiv := FindFunc(kaf, "Keeper", "JailInactiveValidators")
	if jiv == nil {
		return fmt.Errorf("JailInactiveValidators not found")
	}
	collected := false
	for _, ce := range Calls(jiv.Body, "Add") {
		if len(ce.Args) == 1 && c.Src(ce.Fun) == "g.Add" && len(Calls(ce.Args[0], "Jail")) == 1 {
			collected = true
		}
	}
	if n := len(Calls(jiv.Body, "Jail")); n != 1 {
		return fmt.Errorf("JailInactiveValidators: exactly one Jail call expected, found %d", n)
	}
	c.P("Definition sweep_collects_jail_errors : bool := %v.", collected)

	// module.go: the liveness check condition
	mf, err := c.Parse("x/valset/module.go")
	if err != nil {
		return err
	}
	eb := FindFunc(mf, "AppModule", "EndBlock")
	if eb == nil {
		return fmt.Errorf("AppModule.EndBlock not found")
	}
	var after, period int64 = -1, -1
	order := []string{}
	ast.Inspect(eb.Body, func(n ast.Node) bool {
		switch x := n.(type) {
		case *ast.CallExpr:
			if se, ok := x.Fun.(*ast.SelectorExpr); ok {
				if se.Sel.Name == "UpdateGracePeriod" || se.Sel.Name == "JailInactiveValidators" {
					order = append(order, se.Sel.Name)
				}
			}
		case *ast.IfStmt:
			if len(Calls(x.Body, "JailInactiveValidators")) == 0 {
				return true
			}
			if x.Init != nil && len(Calls(x.Init, "JailInactiveValidators")) > 0 {
				return true // the inner `if err := ...JailInactiveValidators` statement
			}
			be, ok := x.Cond.(*ast.BinaryExpr)
			if !ok || be.Op != token.LAND {
				return true
			}
			l, ok1 := be.X.(*ast.BinaryExpr)
			r, ok2 := be.Y.(*ast.BinaryExpr)
			if !ok1 || !ok2 || l.Op != token.GTR || r.Op != token.EQL {
				return true
			}
			if !strings.HasSuffix(c.Src(l.X), "BlockHeight()") {
				return true
			}
			a, err := strconv.ParseInt(c.Src(l.Y), 0, 64)
			if err != nil {
				return true
			}
			m, ok := r.X.(*ast.BinaryExpr)
			if !ok || m.Op != token.REM || c.Src(r.Y) != "0" || !strings.HasSuffix(c.Src(m.X), "BlockHeight()") {
				return true
			}
			p, err := strconv.ParseInt(c.Src(m.Y), 0, 64)
			if err != nil {
				return true
			}
			after, period = a, p
		}
		return true
	})
	if after < 0 || period <= 0 {
		return fmt.Errorf("EndBlock: `BlockHeight() > A && BlockHeight()%%P == 0` guarding JailInactiveValidators not recognised")
	}
	if len(order) != 2 || order[0] != "UpdateGracePeriod" || order[1] != "JailInactiveValidators" {
		return fmt.Errorf("EndBlock: expected UpdateGracePeriod then JailInactiveValidators, got %v", order)
	}
	c.P("Definition check_after : Z := %d. (* module.go EndBlock: height > %d *)", after, after)
	c.P("Definition check_period : Z := %d. (* height %% %d == 0 *)", period, period)
	c.Info("check", fmt.Sprintf("height > %d && height %% %d == 0", after, period))

	// UpdateGracePeriod: what writes the snapshot and how it is read back
	kf, err := c.Parse("x/valset/keeper/keep_alive.go")
	if err != nil {
		return err
	}
	ug := FindFunc(kf, "Keeper", "UpdateGracePeriod")
	if ug == nil {
		return fmt.Errorf("UpdateGracePeriod not found")
	}
	writer := ""
	for _, ce := range Calls(ug.Body, "Set") {
		if len(ce.Args) == 2 && strings.HasPrefix(c.Src(ce.Fun), "us.") {
			writer = c.Src(ce.Args[1])
			for _, as := range assignsTo(ug.Body, writer) {
				writer = c.Src(as)
			}
		}
	}
	if writer == "" {
		return fmt.Errorf("UpdateGracePeriod: snapshot write us.Set(key, value) not found")
	}
	enc := "unknown"
	switch {
	case strings.Contains(writer, "bytes.Join"):
		enc = "comma-joined"
	case strings.Contains(writer, "encodeUnjailedSnapshot("):
		enc = "length-prefixed"
	}
	c.P("Definition snapshot_encoding : string := %s. (* %s *)", CoqStr(enc), strings.ReplaceAll(writer, "*)", "* )"))
	c.Info("snapshot_encoding", enc)
	if enc == "length-prefixed" {
		ef := FindFunc(kf, "", "encodeUnjailedSnapshot")
		df := FindFunc(kf, "", "decodeUnjailedSnapshot")
		if ef == nil || df == nil {
			return fmt.Errorf("encodeUnjailedSnapshot / decodeUnjailedSnapshot not found")
		}
		es, ds := c.Src(ef.Body), c.Src(df.Body)
		if !strings.Contains(es, "byte(len(v))") || !strings.Contains(es, "math.MaxUint8") {
			return fmt.Errorf("encodeUnjailedSnapshot: one-byte length prefix with bound check not recognised")
		}
		if !strings.Contains(ds, "int(bz[0])") || !strings.Contains(ds, "n > len(bz)") {
			return fmt.Errorf("decodeUnjailedSnapshot: length-prefixed reader not recognised")
		}
	}
	ugs := c.Src(ug.Body)
	legacyOnce := strings.Contains(ugs, "us.Has([]byte(cUnjailedSnapshotStoreKey))") && strings.Contains(ugs, "us.Delete([]byte(cUnjailedSnapshotStoreKey))")
	c.P("Definition legacy_reader_only_when_legacy_key_present : bool := %v.", legacyOnce)
	c.P("Definition legacy_key_deleted_on_write : bool := %v.", strings.Contains(ugs, "us.Delete([]byte(cUnjailedSnapshotStoreKey))"))
	return nil
}

// assignsTo returns the right-hand sides of `name := rhs` / `name, err := rhs` inside n.
func assignsTo(n ast.Node, name string) []ast.Expr {
	var out []ast.Expr
	ast.Inspect(n, func(x ast.Node) bool {
		as, ok := x.(*ast.AssignStmt)
		if !ok || len(as.Rhs) != 1 || len(as.Lhs) == 0 {
			return true
		}
		if id, ok := as.Lhs[0].(*ast.Ident); ok && id.Name == name {
			out = append(out, as.Rhs[0])
		}
		return true
	})
	return out
}
