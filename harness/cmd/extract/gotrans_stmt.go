package main

// gotrans, statements.  A statement list is translated in continuation-passing style:
// stmts(list, k) is the Gallina term for "run list, then k".  An `if` whose branches do not all
// return simply gets the rest of the list in both branches (duplicated).  Assignments rebind the
// same Gallina name with `let` (or `bind` when the right-hand side can panic).  Loops are
// `for _, x := range xs { ... }` only and become a structural `fix` over the list whose extra
// arguments are the variables the body assigns.

import (
	"fmt"
	"go/ast"
	"go/token"
	"sort"
	"strings"
)

type mutEvent struct {
	name string
	call *ast.CallExpr
}

// exprM translates an expression and reports the in-place *big.Int updates it contains.
func (t *tr) exprM(e ast.Expr) (val, []mutEvent, error) {
	var evs []mutEvent
	ast.Inspect(e, func(n ast.Node) bool {
		ce, ok := n.(*ast.CallExpr)
		if !ok {
			return true
		}
		se, ok := ce.Fun.(*ast.SelectorExpr)
		if !ok {
			return true
		}
		id, ok := se.X.(*ast.Ident)
		if !ok {
			return true
		}
		if b, _ := t.lookup(id.Name); b != nil && b.k == kBig {
			switch se.Sel.Name {
			case "Sign", "IsUint64", "IsInt64", "Uint64", "Cmp":
			default:
				evs = append(evs, mutEvent{id.Name, ce})
			}
		}
		return true
	})
	v, err := t.expr(e)
	return v, evs, err
}

func countIdent(n ast.Node, name string) int {
	c := 0
	ast.Inspect(n, func(m ast.Node) bool {
		if id, ok := m.(*ast.Ident); ok && id.Name == name {
			c++
		}
		return true
	})
	return c
}

// pureExpr: an expression that must not update any variable.
func (t *tr) pureExpr(e ast.Expr) (val, error) {
	v, evs, err := t.exprM(e)
	if err != nil {
		return v, err
	}
	if len(evs) > 0 {
		return v, t.errf(evs[0].call, "in-place update of *big.Int variable %s inside an expression (allowed only as a statement of its own or in a return whose other operands do not read it)", evs[0].name)
	}
	return v, nil
}

// letIn emits `let x := v in rest` / `bind v (fun x => rest)`.
func (t *tr) letIn(n ast.Node, name string, v val, rest string) (string, error) {
	if v.partial {
		if !t.resMode {
			return "", needRes{}
		}
		return fmt.Sprintf("bind %s (fun %s =>\n  %s)", atom(v.code), name, rest), nil
	}
	return fmt.Sprintf("let %s := %s in\n  %s", name, v.code, rest), nil
}

// block translates a nested block; names it declares are invisible to the continuation.
func (t *tr) block(list []ast.Stmt, k func() (string, error)) (string, error) {
	depth := len(t.scopes)
	t.push()
	s, err := t.stmts(list, func() (string, error) {
		saved := t.scopes
		t.scopes = t.scopes[:depth]
		defer func() { t.scopes = saved }()
		return k()
	})
	t.scopes = t.scopes[:depth]
	return s, err
}

func (t *tr) stmts(list []ast.Stmt, k func() (string, error)) (string, error) {
	if len(list) == 0 {
		return k()
	}
	rest := func() (string, error) { return t.stmts(list[1:], k) }
	switch s := list[0].(type) {
	case *ast.ReturnStmt:
		return t.ret(s)
	case *ast.EmptyStmt:
		return rest()
	case *ast.DeclStmt:
		return t.declStmt(s, rest)
	case *ast.AssignStmt:
		return t.assign(s, rest)
	case *ast.IncDecStmt:
		op := token.ADD
		if s.Tok == token.DEC {
			op = token.SUB
		}
		return t.assignTo(s, s.X, &ast.BinaryExpr{X: s.X, Op: op, Y: &ast.BasicLit{Kind: token.INT, Value: "1"}}, token.ASSIGN, rest)
	case *ast.ExprStmt:
		return t.exprStmt(s, rest)
	case *ast.IfStmt:
		return t.ifStmt(s, rest)
	case *ast.RangeStmt:
		return t.rangeStmt(s, rest)
	case *ast.BranchStmt:
		if s.Label != nil || len(t.loops) == 0 {
			return "", t.errf(s, "%s outside a loop / with a label is not in the subset", s.Tok)
		}
		lc := t.loops[len(t.loops)-1]
		switch s.Tok {
		case token.CONTINUE:
			return lc.next, nil
		case token.BREAK:
			return lc.done()
		}
	}
	return "", t.errf(list[0], "statement form %T is not in the subset: %s", list[0], firstLine(t.c.Src(list[0])))
}

func firstLine(s string) string {
	if i := strings.Index(s, "\n"); i >= 0 {
		return s[:i] + " …"
	}
	return s
}

func (t *tr) ret(s *ast.ReturnStmt) (string, error) {
	if t.spec.Frag != nil && t.spec.Frag.From != "" {
		return t.fragRet(s)
	}
	want := 0
	if t.result != kUnit {
		want++
	}
	if t.errRes {
		want++
	}
	if len(s.Results) != want {
		return "", t.errf(s, "return with %d values, %d expected", len(s.Results), want)
	}
	if t.errRes {
		ev, err := t.pureExpr(s.Results[len(s.Results)-1])
		if err != nil {
			return "", err
		}
		switch {
		case ev.isErr:
			return "Fail", nil
		case ev.isNil:
			if t.result == kUnit {
				return "Val tt", nil
			}
		default:
			return "", t.errf(s, "error result %s is neither nil nor a freshly constructed error (fmt.Errorf / errors.New)", t.c.Src(s.Results[len(s.Results)-1]))
		}
	}
	return t.retValue(s, s.Results[0], t.result, t.resElem)
}

func (t *tr) retValue(s *ast.ReturnStmt, e ast.Expr, k kind, elem kind) (string, error) {
	v, evs, err := t.exprM(e)
	if err != nil {
		return "", err
	}
	for _, ev := range evs {
		// the updated variable dies with the function; its old value must not be read after the update
		if countIdent(e, ev.name) != countIdent(ev.call, ev.name) {
			return "", t.errf(ev.call, "%s is updated in place and also read elsewhere in the same return expression", ev.name)
		}
	}
	if len(evs) > 1 {
		return "", t.errf(s, "more than one in-place *big.Int update in one return expression")
	}
	if v, err = t.coerce(e, v, k); err != nil {
		return "", err
	}
	if v.partial {
		if !t.resMode {
			return "", needRes{}
		}
		return v.code, nil
	}
	if t.resMode {
		return "Val " + atom(v.code), nil
	}
	return v.code, nil
}

func (t *tr) declStmt(s *ast.DeclStmt, rest func() (string, error)) (string, error) {
	gd, ok := s.Decl.(*ast.GenDecl)
	if !ok || gd.Tok != token.VAR || len(gd.Specs) != 1 {
		return "", t.errf(s, "declaration form is not in the subset")
	}
	vs := gd.Specs[0].(*ast.ValueSpec)
	if len(vs.Names) != 1 || vs.Type == nil {
		return "", t.errf(s, "var declaration form is not in the subset")
	}
	name := vs.Names[0].Name
	if len(vs.Values) == 1 {
		return t.define(s, name, vs.Values[0], vs.Type, rest)
	}
	// struct variable of the translation spec
	if t.spec.Frag != nil {
		for _, o := range t.spec.Frag.Out {
			if strings.HasPrefix(o, name+".") {
				if _, err := t.declare(s, name, kStruct, 0); err != nil {
					return "", err
				}
				return rest()
			}
		}
	}
	k, el, err := t.typeKind(vs.Type)
	if err != nil {
		return "", err
	}
	var zero string
	switch k {
	case kU64, kI64:
		zero = "0"
	case kBool:
		zero = "false"
	case kSdk:
		k = kSdkOpt // the zero value of sdkmath.Int has a nil inner pointer
		zero = "(@None Z)"
	case kDecOpt:
		zero = "(@None Z)"
	case kList:
		zero = "(@nil Z)"
	default:
		return "", t.errf(s, "zero value of %s is not in the subset", k)
	}
	b, err := t.declare(s, name, k, el)
	if err != nil {
		return "", err
	}
	b.zeroVal = true
	r, err := rest()
	if err != nil {
		return "", err
	}
	return fmt.Sprintf("let %s := %s in\n  %s", b.coq, zero, r), nil
}

func (t *tr) define(n ast.Node, name string, rhs ast.Expr, ty ast.Expr, rest func() (string, error)) (string, error) {
	v, err := t.pureExpr(rhs)
	if err != nil {
		return "", err
	}
	if ty != nil {
		k, _, err := t.typeKind(ty)
		if err != nil {
			return "", err
		}
		if v, err = t.coerce(rhs, v, k); err != nil {
			return "", err
		}
	}
	if v.k == kUntyped {
		v.k = kI64 // default type of an untyped integer constant is int
		if !inRange(v.cst, kI64) {
			return "", t.errf(rhs, "constant overflows int")
		}
	}
	if v.isNil || v.isErr || v.k == kUnknown || v.k == kStruct {
		return "", t.errf(rhs, "right-hand side is not a value of the subset")
	}
	if v.k == kBig && !v.fresh {
		return "", t.errf(rhs, "this would make two variables point to the same *big.Int (aliasing is not in the subset)")
	}
	b, err := t.declare(n, name, v.k, v.elem)
	if err != nil {
		return "", err
	}
	r, err := rest()
	if err != nil {
		return "", err
	}
	return t.letIn(n, b.coq, v, r)
}

func (t *tr) assign(s *ast.AssignStmt, rest func() (string, error)) (string, error) {
	// q, r := new(big.Int).QuoRem(x, y, new(big.Int))
	if len(s.Lhs) == 2 && len(s.Rhs) == 1 && s.Tok == token.DEFINE {
		if ce, ok := s.Rhs[0].(*ast.CallExpr); ok {
			if se, ok := ce.Fun.(*ast.SelectorExpr); ok && se.Sel.Name == "QuoRem" && len(ce.Args) == 3 {
				return t.quoRem(s, ce, se, rest)
			}
		}
	}
	if len(s.Lhs) != 1 || len(s.Rhs) != 1 {
		return "", t.errf(s, "multi-value assignment is not in the subset: %s", firstLine(t.c.Src(s)))
	}
	switch s.Tok {
	case token.DEFINE:
		id, ok := s.Lhs[0].(*ast.Ident)
		if !ok {
			return "", t.errf(s, "left-hand side of := is not an identifier")
		}
		return t.define(s, id.Name, s.Rhs[0], nil, rest)
	case token.ASSIGN:
		return t.assignTo(s, s.Lhs[0], s.Rhs[0], s.Tok, rest)
	case token.ADD_ASSIGN, token.SUB_ASSIGN, token.MUL_ASSIGN, token.QUO_ASSIGN, token.REM_ASSIGN:
		op := map[token.Token]token.Token{token.ADD_ASSIGN: token.ADD, token.SUB_ASSIGN: token.SUB, token.MUL_ASSIGN: token.MUL, token.QUO_ASSIGN: token.QUO, token.REM_ASSIGN: token.REM}[s.Tok]
		return t.assignTo(s, s.Lhs[0], &ast.BinaryExpr{X: s.Lhs[0], Op: op, Y: s.Rhs[0], OpPos: s.TokPos}, token.ASSIGN, rest)
	}
	return "", t.errf(s, "assignment operator %s is not in the subset", s.Tok)
}

func (t *tr) quoRem(s *ast.AssignStmt, ce *ast.CallExpr, se *ast.SelectorExpr, rest func() (string, error)) (string, error) {
	recv, err := t.pureExpr(se.X)
	if err != nil {
		return "", err
	}
	m, err := t.pureExpr(ce.Args[2])
	if err != nil {
		return "", err
	}
	if recv.k != kBig || !recv.fresh || m.k != kBig || !m.fresh {
		return "", t.errf(s, "QuoRem is in the subset only with fresh receiver and remainder (new(big.Int))")
	}
	x, err := t.pureExpr(ce.Args[0])
	if err != nil {
		return "", err
	}
	y, err := t.pureExpr(ce.Args[1])
	if err != nil {
		return "", err
	}
	if x.k != kBig || y.k != kBig {
		return "", t.errf(s, "QuoRem operands of kind %s, %s", x.k, y.k)
	}
	qn, ok1 := s.Lhs[0].(*ast.Ident)
	rn, ok2 := s.Lhs[1].(*ast.Ident)
	if !ok1 || !ok2 {
		return "", t.errf(s, "left-hand side of := is not an identifier")
	}
	// bind x and y once
	xs, ys := t.fresh(), t.fresh()
	var q, r val
	if y.cst != nil && y.cst.Sign() != 0 {
		q = val{code: fmt.Sprintf("Z.quot %s %s", xs, ys), k: kBig, fresh: true}
		r = val{code: fmt.Sprintf("Z.rem %s %s", xs, ys), k: kBig, fresh: true}
	} else {
		q = val{code: fmt.Sprintf("go_quo %s %s", xs, ys), k: kBig, fresh: true, partial: true}
		r = val{code: fmt.Sprintf("go_rem %s %s", xs, ys), k: kBig, fresh: true, partial: true}
	}
	bq, err := t.declare(s, qn.Name, kBig, 0)
	if err != nil {
		return "", err
	}
	br, err := t.declare(s, rn.Name, kBig, 0)
	if err != nil {
		return "", err
	}
	body, err := rest()
	if err != nil {
		return "", err
	}
	if body, err = t.letIn(s, br.coq, r, body); err != nil {
		return "", err
	}
	if body, err = t.letIn(s, bq.coq, q, body); err != nil {
		return "", err
	}
	if body, err = t.letIn(s, ys, y, body); err != nil {
		return "", err
	}
	return t.letIn(s, xs, x, body)
}

// assignTo: x = e for a variable or a field of a flattened struct variable; x = T{f: e, ...}.
func (t *tr) assignTo(n ast.Node, lhs ast.Expr, rhs ast.Expr, _ token.Token, rest func() (string, error)) (string, error) {
	p := pathOf(lhs)
	if p == "" {
		return "", t.errf(lhs, "assignment target %s is not in the subset", t.c.Src(lhs))
	}
	root := strings.SplitN(p, ".", 2)[0]
	rb, depth := t.lookup(root)
	if rb == nil {
		return "", t.errf(lhs, "assignment to %s, which is not a local variable", p)
	}
	if rb.param {
		return "", t.errf(lhs, "assignment to the parameter / input %s is not in the subset", root)
	}
	if cl, ok := rhs.(*ast.CompositeLit); ok && rb.k == kStruct && p == root {
		// flatten: one assignment per field, in source order; all right-hand sides see the old values
		type fv struct {
			name string
			v    val
		}
		var fvs []fv
		for _, e := range cl.Elts {
			kv, ok := e.(*ast.KeyValueExpr)
			if !ok {
				return "", t.errf(e, "positional struct literal is not in the subset")
			}
			fn, ok := kv.Key.(*ast.Ident)
			if !ok {
				return "", t.errf(e, "struct literal key")
			}
			v, err := t.pureExpr(kv.Value)
			if err != nil {
				return "", err
			}
			if strings.Contains(t.c.Src(kv.Value), root+".") {
				return "", t.errf(e, "struct literal assigned to %s reads %s", root, root)
			}
			fvs = append(fvs, fv{fn.Name, v})
		}
		for _, f := range fvs {
			fp := root + "." + f.name
			if old, ok := t.scopes[depth][fp]; ok {
				if old.k != f.v.k && !(old.k == kSdkOpt && f.v.k == kSdk) {
					return "", t.errf(n, "field %s assigned values of kinds %s and %s", fp, old.k, f.v.k)
				}
			} else {
				t.scopes[depth][fp] = &binding{coq: coqIdent(fp), k: f.v.k, elem: f.v.elem}
			}
		}
		body, err := rest()
		if err != nil {
			return "", err
		}
		for i := len(fvs) - 1; i >= 0; i-- {
			b := t.scopes[depth][root+"."+fvs[i].name]
			v := fvs[i].v
			if b.k == kSdkOpt && v.k == kSdk {
				v = t.wrapSome(v)
			}
			if body, err = t.letIn(n, b.coq, v, body); err != nil {
				return "", err
			}
		}
		return body, nil
	}
	b, _ := t.lookup(p)
	if b == nil {
		return "", t.errf(lhs, "assignment to %s, which is not a declared variable", p)
	}
	v, err := t.pureExpr(rhs)
	if err != nil {
		return "", err
	}
	if v, err = t.coerce(rhs, v, b.k); err != nil {
		return "", err
	}
	if v.k == kBig && !v.fresh {
		return "", t.errf(rhs, "this would make two variables point to the same *big.Int (aliasing is not in the subset)")
	}
	wasZero := b.zeroVal
	b.zeroVal = false
	b.cst = nil
	body, err := rest()
	_ = wasZero
	if err != nil {
		return "", err
	}
	return t.letIn(n, b.coq, v, body)
}

func (t *tr) exprStmt(s *ast.ExprStmt, rest func() (string, error)) (string, error) {
	ce, ok := s.X.(*ast.CallExpr)
	if !ok {
		return "", t.errf(s, "expression statement is not in the subset")
	}
	src := t.c.Src(ce.Fun)
	// copy(dst, src) / slices.Sort(w)
	if src == "copy" && len(ce.Args) == 2 {
		d := pathOf(ce.Args[0])
		db, _ := t.lookup(d)
		sv, err := t.pureExpr(ce.Args[1])
		if err != nil {
			return "", err
		}
		if db == nil || db.param || db.k != kList || sv.k != kList || sv.elem != db.elem {
			return "", t.errf(s, "copy is in the subset only from a slice into a local slice variable of the same element type")
		}
		body, err := rest()
		if err != nil {
			return "", err
		}
		code, p := t.lift([]val{sv}, func(c []string) string { return fmt.Sprintf("go_copy %s %s", db.coq, c[0]) }, false)
		return t.letIn(s, db.coq, val{code: code, k: kList, elem: db.elem, partial: p}, body)
	}
	if se, ok := ce.Fun.(*ast.SelectorExpr); ok && len(ce.Args) == 1 {
		if id, ok := se.X.(*ast.Ident); ok && t.imports[id.Name] == "slices" && se.Sel.Name == "Sort" {
			if b, _ := t.lookup(id.Name); b == nil {
				d := pathOf(ce.Args[0])
				db, _ := t.lookup(d)
				if db == nil || db.param || db.k != kList {
					return "", t.errf(s, "slices.Sort is in the subset only on a local slice variable (sorting a parameter would change the caller's slice)")
				}
				body, err := rest()
				if err != nil {
					return "", err
				}
				return t.letIn(s, db.coq, val{code: "go_sort " + db.coq, k: kList, elem: db.elem}, body)
			}
		}
	}
	// z.Op(x, y) with z a local *big.Int variable: z = result
	v, evs, err := t.exprM(ce)
	if err != nil {
		return "", err
	}
	if len(evs) == 1 && evs[0].call == ce && v.k == kBig && v.mutVar == evs[0].name {
		b, _ := t.lookup(v.mutVar)
		body, err := rest()
		if err != nil {
			return "", err
		}
		return t.letIn(s, b.coq, v, body)
	}
	return "", t.errf(s, "call statement %s is not in the subset", firstLine(t.c.Src(s)))
}

func (t *tr) ifStmt(s *ast.IfStmt, rest func() (string, error)) (string, error) {
	if s.Init != nil {
		return "", t.errf(s, "if with an init statement is not in the subset")
	}
	c, err := t.pureExpr(s.Cond)
	if err != nil {
		return "", err
	}
	if c.k != kBool {
		return "", t.errf(s.Cond, "condition of kind %s", c.k)
	}
	thenC, err := t.block(s.Body.List, rest)
	if err != nil {
		return "", err
	}
	var elseC string
	switch e := s.Else.(type) {
	case nil:
		elseC, err = rest()
	case *ast.BlockStmt:
		elseC, err = t.block(e.List, rest)
	case *ast.IfStmt:
		elseC, err = t.block([]ast.Stmt{e}, rest)
	default:
		return "", t.errf(s, "else form")
	}
	if err != nil {
		return "", err
	}
	if c.partial {
		if !t.resMode {
			return "", needRes{}
		}
		n := t.fresh()
		return fmt.Sprintf("bind %s (fun %s =>\n  if %s\n  then %s\n  else %s)", atom(c.code), n, n, thenC, elseC), nil
	}
	return fmt.Sprintf("if %s\n  then %s\n  else %s", c.code, thenC, elseC), nil
}

// assignedIn: the outer variables (and struct fields) a loop body assigns.
func (t *tr) assignedIn(body *ast.BlockStmt) []string {
	set := map[string]bool{}
	add := func(e ast.Expr) {
		p := pathOf(e)
		if p == "" {
			return
		}
		root := strings.SplitN(p, ".", 2)[0]
		if b, _ := t.lookup(root); b != nil {
			if b.k == kStruct {
				for i := range t.scopes {
					for name := range t.scopes[i] {
						if strings.HasPrefix(name, root+".") {
							set[name] = true
						}
					}
				}
			} else if bb, _ := t.lookup(p); bb != nil {
				set[p] = true
			}
		}
	}
	ast.Inspect(body, func(n ast.Node) bool {
		switch s := n.(type) {
		case *ast.AssignStmt:
			if s.Tok != token.DEFINE {
				for _, l := range s.Lhs {
					add(l)
				}
			}
		case *ast.IncDecStmt:
			add(s.X)
		case *ast.ExprStmt:
			if ce, ok := s.X.(*ast.CallExpr); ok {
				if se, ok := ce.Fun.(*ast.SelectorExpr); ok {
					add(se.X)
				}
				for _, a := range ce.Args {
					if t.c.Src(ce.Fun) == "copy" || strings.HasSuffix(t.c.Src(ce.Fun), ".Sort") {
						add(a)
					}
				}
			}
		}
		return true
	})
	var out []string
	for k := range set {
		out = append(out, k)
	}
	sort.Strings(out)
	return out
}

func (t *tr) rangeStmt(s *ast.RangeStmt, rest func() (string, error)) (string, error) {
	if s.Tok != token.DEFINE || s.Value == nil {
		return "", t.errf(s, "only `for _, x := range xs` is in the subset")
	}
	if k, ok := s.Key.(*ast.Ident); !ok || k.Name != "_" {
		return "", t.errf(s, "only `for _, x := range xs` is in the subset (the index is not available)")
	}
	xid, ok := s.Value.(*ast.Ident)
	if !ok {
		return "", t.errf(s, "range value is not an identifier")
	}
	xs, err := t.pureExpr(s.X)
	if err != nil {
		return "", err
	}
	if xs.k != kList {
		return "", t.errf(s.X, "range over %s is not in the subset", xs.k)
	}
	state := t.assignedIn(s.Body)
	var binders, argNames []string
	for _, p := range state {
		b, _ := t.lookup(p)
		if b.k == kBig {
			return "", t.errf(s, "*big.Int variable %s updated inside a loop is not in the subset", p)
		}
		binders = append(binders, fmt.Sprintf("(%s : %s)", b.coq, coqType(b.k)))
		argNames = append(argNames, b.coq)
		b.zeroVal, b.cst = false, nil
	}
	t.tmp++
	loopName := fmt.Sprintf("go_loop%d", t.tmp)
	lname, tname := fmt.Sprintf("go_l%d", t.tmp), fmt.Sprintf("go_r%d", t.tmp)
	next := strings.TrimSpace(strings.Join(append([]string{loopName, tname}, argNames...), " "))
	// after the loop (evaluated inside the fix, where the state variables are the fix's arguments)
	done := rest
	depth := len(t.scopes)
	doneHidden := func() (string, error) {
		saved := t.scopes
		t.scopes = t.scopes[:depth]
		defer func() { t.scopes = saved }()
		savedLoops := t.loops
		t.loops = t.loops[:len(t.loops)-1]
		defer func() { t.loops = savedLoops }()
		return done()
	}
	nilCase, err := done()
	if err != nil {
		return "", err
	}
	t.loops = append(t.loops, &loopCtx{next: next, done: doneHidden})
	t.push()
	xb, err := t.declare(s, xid.Name, xs.elem, 0)
	if err != nil {
		return "", err
	}
	body, err := t.stmts(s.Body.List, func() (string, error) { return next, nil })
	t.pop()
	t.loops = t.loops[:len(t.loops)-1]
	if err != nil {
		return "", err
	}
	fix := fmt.Sprintf("(fix %s (%s : list Z) %s {struct %s} : %s :=\n  match %s with\n  | nil => %s\n  | cons %s %s => %s\n  end)",
		loopName, lname, strings.Join(binders, " "), lname, t.resultType(), lname, nilCase, xb.coq, tname, body)
	code, p := t.lift([]val{xs}, func(c []string) string {
		return strings.TrimSpace(fix + " " + c[0] + " " + strings.Join(argNames, " "))
	}, t.resMode)
	if p && !t.resMode {
		return "", needRes{}
	}
	return code, nil
}
