package main

// C09, second round: source facts about the attestation / pruning steps of the consensus
// end-blocker, the evm attesters, the skyway end-blocker and the valset snapshot comparison.
// Each fact decides a field of Sys/EndBlockAttest.current (the model variant that is compared with
// the implementation) or is asserted by Sys/EndBlockModsProofs.second_round_facts.
//
// Unknown AST shape => error (the translator never guesses).

import (
	"fmt"
	"go/ast"
	"go/token"
	"strconv"
	"strings"
)

// c09EffectiveRecover: does fd contain a `defer` whose operand is a function literal that calls
// recover() DIRECTLY (not inside a nested literal, not through a helper), or a named function of the
// same file whose body calls recover() directly?  Only such a recover() stops a panic (Go spec:
// "recover was not called directly by a deferred function" => nil).
func c09DirectRecover(body *ast.BlockStmt) bool {
	found := false
	ast.Inspect(body, func(n ast.Node) bool {
		if _, ok := n.(*ast.FuncLit); ok {
			return false // a nested literal is another function
		}
		if ce, ok := n.(*ast.CallExpr); ok {
			if id, ok := ce.Fun.(*ast.Ident); ok && id.Name == "recover" && len(ce.Args) == 0 {
				found = true
			}
		}
		return true
	})
	return found
}

func c09EffectiveRecover(f *ast.File, fd *ast.FuncDecl) bool {
	ok := false
	ast.Inspect(fd.Body, func(n ast.Node) bool {
		if fl, isLit := n.(*ast.FuncLit); isLit && fl != nil {
			return false // defers of nested literals protect only those
		}
		ds, isDefer := n.(*ast.DeferStmt)
		if !isDefer {
			return true
		}
		switch fun := ds.Call.Fun.(type) {
		case *ast.FuncLit:
			if c09DirectRecover(fun.Body) {
				ok = true
			}
		case *ast.Ident:
			if t := FindFunc(f, "", fun.Name); t != nil && t.Body != nil && c09DirectRecover(t.Body) {
				ok = true
			}
		case *ast.SelectorExpr:
			for _, d := range f.Decls {
				if t, isFn := d.(*ast.FuncDecl); isFn && t.Recv != nil && t.Name.Name == fun.Sel.Name && t.Body != nil && c09DirectRecover(t.Body) {
					ok = true
				}
			}
		}
		return false
	})
	return ok
}

func c09Facts2(c *Ctx) error {
	b := func(name string, v bool) { c.P("Definition %s : bool := %v.", name, v) }

	// ---- x/consensus/keeper/attest.go: the loop ----
	af, err := c.Parse("x/consensus/keeper/attest.go")
	if err != nil {
		return err
	}
	loop := FindFunc(af, "Keeper", "CheckAndProcessAttestedMessages")
	if loop == nil {
		return fmt.Errorf("CheckAndProcessAttestedMessages not found")
	}
	contFound, shape := false, false
	ast.Inspect(loop.Body, func(n ast.Node) bool {
		is, ok := n.(*ast.IfStmt)
		if !ok || is.Init == nil || !strings.Contains(c.Src(is.Init), "ProcessMessageForAttestation(") {
			return true
		}
		shape = true
		if len(is.Body.List) == 0 {
			return true
		}
		switch last := is.Body.List[len(is.Body.List)-1].(type) {
		case *ast.BranchStmt:
			contFound = last.Tok == token.CONTINUE
		case *ast.ReturnStmt:
			contFound = false
		default:
			// falls through to the next iteration only if nothing follows in the range body; be strict
			contFound = false
		}
		return true
	})
	if !shape {
		return fmt.Errorf("CheckAndProcessAttestedMessages: no `if err := ...ProcessMessageForAttestation(...); err != nil` found")
	}
	b("attest_loop_continues_on_error", contFound)
	b("attest_loop_recovers", len(Calls(loop.Body, "recover")) > 0)

	// ---- util/libcons/consensus.go: VerifyEvidence ----
	lf, err := c.Parse("util/libcons/consensus.go")
	if err != nil {
		return err
	}
	ve := FindFunc(lf, "ConsensusChecker", "VerifyEvidence")
	if ve == nil {
		return fmt.Errorf("VerifyEvidence not found")
	}
	// `if hashable == nil { return ... }` between UnpackAny and BytesToHash
	var posUnpack, posHash, posGuard token.Pos
	for _, ce := range Calls(ve.Body, "UnpackAny") {
		posUnpack = ce.Pos()
	}
	for _, ce := range Calls(ve.Body, "BytesToHash") {
		posHash = ce.Pos()
	}
	if posUnpack == 0 || posHash == 0 {
		return fmt.Errorf("VerifyEvidence: UnpackAny / BytesToHash not found")
	}
	ast.Inspect(ve.Body, func(n ast.Node) bool {
		is, ok := n.(*ast.IfStmt)
		if ok && is.Init == nil && c.Src(is.Cond) == "hashable == nil" && len(is.Body.List) > 0 {
			if _, ok := is.Body.List[len(is.Body.List)-1].(*ast.ReturnStmt); ok {
				posGuard = is.Pos()
			}
		}
		return true
	})
	b("verify_evidence_guards_absent_proof", posGuard > posUnpack && posGuard < posHash)
	// the 2/3 rule and the zero-value running sum
	cons := FindFunc(lf, "consensusPower", "consensus")
	if cons == nil {
		return fmt.Errorf("consensusPower.consensus not found")
	}
	csrc := c.Src(cons.Body)
	b("consensus_power_two_thirds", strings.Contains(csrc, "c.runningSum.Mul(sdkmath.NewInt(3)).GTE(") && strings.Contains(csrc, "c.totalPower.Mul(sdkmath.NewInt(2))"))
	b("consensus_power_zero_value_is_no_consensus", strings.Contains(csrc, "if c.runningSum == zero {\n\t\treturn false"))

	// ---- x/consensus/keeper/concensus_keeper.go: AddMessageEvidence, pruning ----
	kf, err := c.Parse("x/consensus/keeper/concensus_keeper.go")
	if err != nil {
		return err
	}
	ame := FindFunc(kf, "Keeper", "AddMessageEvidence")
	if ame == nil {
		return fmt.Errorf("AddMessageEvidence not found")
	}
	validates := false
	if vcalls := Calls(ame.Body, "validateEvidenceProof"); len(vcalls) == 1 {
		var posAdd token.Pos
		for _, ce := range Calls(ame.Body, "AddEvidence") {
			posAdd = ce.Pos()
		}
		validates = posAdd != 0 && vcalls[0].Pos() < posAdd
		if vf := FindFunc(kf, "Keeper", "validateEvidenceProof"); vf != nil {
			vsrc := c.Src(vf.Body)
			validates = validates && strings.Contains(vsrc, "proof == nil") && strings.Contains(vsrc, "UnpackAny(proof, &hashable)") &&
				strings.Contains(vsrc, "hashable.BytesToHash()")
		} else {
			validates = false
		}
	}
	b("add_evidence_validates_proof", validates)

	jw := FindFunc(kf, "Keeper", "jailValidatorsWhichMissedAttestation")
	if jw == nil {
		return fmt.Errorf("jailValidatorsWhichMissedAttestation not found")
	}
	jsrc := c.Src(jw.Body)
	// the first use of r.TotalVotes must be the comparison with a zero-value math.Int
	first := strings.Index(jsrc, "r.TotalVotes")
	structCmp := first >= 0 && strings.HasPrefix(jsrc[first:], "r.TotalVotes == zero") && strings.Contains(jsrc[:first], "var zero math.Int")
	b("prune_votes_zero_value_compare", structCmp)
	b("prune_faulty_threshold_is_tenth", strings.Contains(jsrc, "r.TotalVotes.Mul(math.NewInt(10)).LT(r.TotalShares)"))
	pj := FindFunc(kf, "Keeper", "PruneJob")
	if pj == nil {
		return fmt.Errorf("PruneJob not found")
	}
	// PruneJob logs the jailing error and always deletes
	pjOK := false
	if n := len(pj.Body.List); n >= 2 {
		if rs, ok := pj.Body.List[n-1].(*ast.ReturnStmt); ok && len(rs.Results) == 1 && strings.Contains(c.Src(rs.Results[0]), "DeleteJob(") {
			pjOK = !strings.Contains(c.Src(pj.Body.List[n-2]), "return")
		}
	}
	b("prune_job_always_deletes", pjOK)

	// ---- x/consensus/module.go: period and age of pruning ----
	mf, err := c.Parse("x/consensus/module.go")
	if err != nil {
		return err
	}
	eb := FindFunc(mf, "AppModule", "EndBlock")
	if eb == nil {
		return fmt.Errorf("consensus EndBlock not found")
	}
	period, age := "", ""
	ast.Inspect(eb.Body, func(n ast.Node) bool {
		is, ok := n.(*ast.IfStmt)
		if !ok {
			return true
		}
		be, ok := is.Cond.(*ast.BinaryExpr)
		if !ok {
			return true
		}
		if rem, ok := be.X.(*ast.BinaryExpr); ok && rem.Op == token.REM && strings.HasSuffix(c.Src(rem.X), "BlockHeight()") {
			for _, ce := range Calls(is.Body, "PruneOldMessages") {
				if len(ce.Args) == 2 {
					period, age = c.Src(rem.Y), c.Src(ce.Args[1])
				}
			}
		}
		return true
	})
	if _, err := strconv.Atoi(period); err != nil {
		return fmt.Errorf("consensus EndBlock: pruning period %q is not an integer literal", period)
	}
	if _, err := strconv.Atoi(age); err != nil {
		return fmt.Errorf("consensus EndBlock: pruning age %q is not an integer literal", age)
	}
	c.P("Definition consensus_prune_period : Z := %s.", period)
	c.P("Definition consensus_prune_age : Z := %s.", age)
	// order of the three steps
	var order []string
	ast.Inspect(eb.Body, func(n ast.Node) bool {
		if ce, ok := n.(*ast.CallExpr); ok {
			if se, ok := ce.Fun.(*ast.SelectorExpr); ok {
				switch se.Sel.Name {
				case "CheckAndProcessEstimatedMessages", "CheckAndProcessAttestedMessages", "PruneOldMessages":
					order = append(order, se.Sel.Name)
				}
			}
		}
		return true
	})
	b("consensus_endblock_order_estimate_attest_prune", strings.Join(order, ",") == "CheckAndProcessEstimatedMessages,CheckAndProcessAttestedMessages,PruneOldMessages")

	// ---- x/evm/keeper/attest.go: the wrapper ----
	ef, err := c.Parse("x/evm/keeper/attest.go")
	if err != nil {
		return err
	}
	wr := FindFunc(ef, "Keeper", "attestMessageWrapper")
	if wr == nil {
		return fmt.Errorf("attestMessageWrapper not found")
	}
	wsrc := c.Src(wr.Body)
	b("attest_wrapper_flush_rule", strings.Contains(wsrc, "if retErr == nil || errors.Is(retErr, types.ErrEthTxNotVerified) ||\n\t\t\terrors.Is(retErr, types.ErrEthTxFailed) {\n\t\t\twriteCache()"))
	b("attest_wrapper_removes_in_cache", strings.Contains(wsrc, "q.Remove(cacheCtx, msg.GetId())") && strings.Contains(wsrc, "return fn(cacheCtx, q, msg, result.Winner)"))
	b("attest_wrapper_skips_without_evidence", strings.Contains(wsrc, "if len(msg.GetEvidence()) == 0 {\n\t\treturn nil"))
	b("attest_wrapper_recovers", len(Calls(wr.Body, "recover")) > 0)

	// ---- x/evm/types/eth_txable.go: every VerifyAgainstTX that reads m.Fees checks it first ----
	tf, err := c.Parse("x/evm/types/eth_txable.go")
	if err != nil {
		return err
	}
	readers, guardedReaders := 0, 0
	for _, d := range tf.Decls {
		fd, ok := d.(*ast.FuncDecl)
		if !ok || fd.Name.Name != "VerifyAgainstTX" || fd.Body == nil {
			continue
		}
		src := c.Src(fd.Body)
		use := strings.Index(src, "m.Fees.")
		if use < 0 {
			continue
		}
		readers++
		if g := strings.Index(src, "if m.Fees == nil {"); g >= 0 && g < use {
			// the guard must return
			rest := src[g:use]
			if strings.Contains(rest, "return ") {
				guardedReaders++
			}
		}
	}
	if readers == 0 {
		return fmt.Errorf("eth_txable.go: no VerifyAgainstTX reads m.Fees — shape changed")
	}
	c.P("Definition verify_tx_fee_readers : Z := %d.", readers)
	b("verify_tx_guards_nil_fees", guardedReaders == readers)

	// ---- x/evm/keeper/attest_validator_balances.go ----
	bf, err := c.Parse("x/evm/keeper/attest_validator_balances.go")
	if err != nil {
		return err
	}
	pb := FindFunc(bf, "Keeper", "processValidatorBalanceProof")
	if pb == nil {
		return fmt.Errorf("processValidatorBalanceProof not found")
	}
	bsrc := c.Src(pb.Body)
	idx := strings.Index(bsrc, "winner.Balances[i]")
	if idx < 0 {
		return fmt.Errorf("processValidatorBalanceProof: winner.Balances[i] not found — shape changed")
	}
	g := strings.Index(bsrc, "if len(winner.Balances) != len(request.GetHexAddresses()) {")
	b("balances_attester_checks_length", g >= 0 && g < idx && strings.Contains(bsrc[g:idx], "return "))

	// ---- x/skyway: the end-blocker ----
	sf, err := c.Parse("x/skyway/abci.go")
	if err != nil {
		return err
	}
	seb := FindFunc(sf, "", "EndBlocker")
	if seb == nil {
		return fmt.Errorf("skyway EndBlocker not found")
	}
	b("skyway_endblocker_recover_is_effective", c09EffectiveRecover(sf, seb))
	smf, err := c.Parse("x/skyway/module.go")
	if err != nil {
		return err
	}
	if smeb := FindFunc(smf, "AppModule", "EndBlock"); smeb != nil {
		b("skyway_module_endblock_recover_is_effective", c09EffectiveRecover(smf, smeb))
	} else {
		return fmt.Errorf("skyway AppModule.EndBlock not found")
	}
	// evm: deploySmartContractToChain contains panics raised while a deployment message is built
	df, err := c.Parse("x/evm/keeper/smart_contract_deployment.go")
	if err != nil {
		return err
	}
	dfd := FindFunc(df, "Keeper", "deploySmartContractToChain")
	if dfd == nil {
		return fmt.Errorf("deploySmartContractToChain not found")
	}
	b("deploy_compass_recover_is_effective", c09EffectiveRecover(df, dfd))
	// valset.Jail wraps slashing.Jail in a function literal with its own recover
	vjf, err := c.Parse("x/valset/keeper/keeper.go")
	if err != nil {
		return err
	}
	jfd := FindFunc(vjf, "Keeper", "Jail")
	if jfd == nil {
		return fmt.Errorf("valset Jail not found")
	}
	jailOK := false
	ast.Inspect(jfd.Body, func(n ast.Node) bool {
		if fl, ok := n.(*ast.FuncLit); ok {
			tmp := &ast.FuncDecl{Body: fl.Body}
			if len(Calls(fl.Body, "Jail")) > 0 && c09EffectiveRecover(vjf, tmp) {
				jailOK = true
			}
		}
		return true
	})
	b("valset_jail_recover_is_effective", jailOK)
	b("skyway_endblocker_recovers", len(seb.Body.List) > 0 && func() bool {
		// a deferred func with recover() among the first statements, before any step runs
		for _, st := range seb.Body.List {
			if ds, ok := st.(*ast.DeferStmt); ok {
				return len(Calls(ds.Call, "recover")) > 0
			}
			if es, ok := st.(*ast.ExprStmt); ok {
				if len(Calls(es, "createBatch")) > 0 {
					return false
				}
			}
		}
		return false
	}())
	var steps []string
	ast.Inspect(seb.Body, func(n ast.Node) bool {
		if ce, ok := n.(*ast.CallExpr); ok {
			name := ""
			switch f := ce.Fun.(type) {
			case *ast.Ident:
				name = f.Name
			case *ast.SelectorExpr:
				name = f.Sel.Name
			}
			switch name {
			case "createBatch", "attestationTally", "pruneAttestations", "UpdateValidatorNoncesToLatest", "processGasEstimates", "cleanupTimedOutBatches":
				steps = append(steps, name)
			}
		}
		return true
	})
	c.P("Definition skyway_endblocker_steps : list string := %s.", CoqStrList(steps))
	// no step's error is returned: EndBlocker has no result
	b("skyway_endblocker_has_no_result", seb.Type.Results == nil || len(seb.Type.Results.List) == 0)
	kaf, err := c.Parse("x/skyway/keeper/attestation.go")
	if err != nil {
		return err
	}
	pa := FindFunc(kaf, "Keeper", "processAttestation")
	ta := FindFunc(kaf, "Keeper", "TryAttestation")
	if pa == nil || ta == nil {
		return fmt.Errorf("skyway processAttestation / TryAttestation not found")
	}
	pasrc := c.Src(pa.Body)
	b("skyway_handler_in_cache_context", strings.Contains(pasrc, ".CacheContext()") && strings.Contains(pasrc, "k.AttestationHandler.Handle(ctx, *att, claim); err != nil") &&
		strings.Contains(pasrc, "} else {\n\t\tcommit()"))
	b("skyway_process_attestation_recovers", len(Calls(pa.Body, "recover")) > 0)
	tasrc := c.Src(ta.Body)
	iCursor := strings.Index(tasrc, "k.setLastObservedSkywayNonce(")
	iObserved := strings.Index(tasrc, "att.Observed = true")
	iProcess := strings.Index(tasrc, "k.processAttestation(")
	if iCursor < 0 || iObserved < 0 || iProcess < 0 {
		return fmt.Errorf("TryAttestation: cursor / observed / processAttestation not found — shape changed")
	}
	b("skyway_cursor_advances_before_handler", iCursor < iProcess && iObserved < iProcess)

	// ---- x/valset/keeper/keeper.go: isNewSnapshotWorthy divides by the snapshots' total shares ----
	vf, err := c.Parse("x/valset/keeper/keeper.go")
	if err != nil {
		return err
	}
	wf := FindFunc(vf, "Keeper", "isNewSnapshotWorthy")
	if wf == nil {
		return fmt.Errorf("isNewSnapshotWorthy not found")
	}
	divs := 0
	for _, ce := range Calls(wf.Body, "QuoInt") {
		if len(ce.Args) == 1 && strings.HasSuffix(c.Src(ce.Args[0]), ".TotalShares") {
			divs++
		}
	}
	c.P("Definition worthy_divisions_by_total_shares : Z := %d.", divs)
	wsrc2 := c.Src(wf.Body)
	b("worthy_guards_zero_total", strings.Contains(wsrc2, "TotalShares.IsZero()") || strings.Contains(wsrc2, "TotalShares.IsPositive()"))
	b("worthy_first_snapshot_short_circuits", strings.Contains(wsrc2, "if currentSnapshot == nil {"))
	// ---- error sources of the one end-blocker whose error reaches the SDK (x/valset) ----
	{
		errorSources := func(fd *ast.FuncDecl) ([]string, error) {
			// every `return <non-nil>`: the call whose error it hands on = the last assignment to err before it
			var out []string
			var lastCall string
			var bad error
			ast.Inspect(fd.Body, func(n ast.Node) bool {
				if _, ok := n.(*ast.FuncLit); ok {
					return false
				}
				switch v := n.(type) {
				case *ast.AssignStmt:
					for _, l := range v.Lhs {
						if id, ok := l.(*ast.Ident); ok && id.Name == "err" && len(v.Rhs) == 1 {
							if ce, ok := v.Rhs[0].(*ast.CallExpr); ok {
								lastCall = c.Src(ce.Fun)
							} else {
								lastCall = c.Src(v.Rhs[0])
							}
						}
					}
				case *ast.ReturnStmt:
					if len(v.Results) == 1 && c.Src(v.Results[0]) != "nil" {
						if c.Src(v.Results[0]) != "err" {
							bad = fmt.Errorf("%s: returns %q, not a callee's err", fd.Name.Name, c.Src(v.Results[0]))
						}
						out = append(out, lastCall)
					}
				}
				return true
			})
			return out, bad
		}
		vm, err := c.Parse("x/valset/module.go")
		if err != nil {
			return err
		}
		veb := FindFunc(vm, "AppModule", "EndBlock")
		if veb == nil {
			return fmt.Errorf("valset EndBlock not found")
		}
		src1, err := errorSources(veb)
		if err != nil {
			return err
		}
		ka, err := c.Parse("x/valset/keeper/keep_alive.go")
		if err != nil {
			return err
		}
		ug := FindFunc(ka, "Keeper", "UpdateGracePeriod")
		dec := FindFunc(ka, "", "decodeUnjailedSnapshot")
		if ug == nil || dec == nil {
			return fmt.Errorf("UpdateGracePeriod / decodeUnjailedSnapshot not found")
		}
		src2, err := errorSources(ug)
		if err != nil {
			return err
		}
		c.P("Definition valset_endblock_error_sources : list string := %s.", CoqStrList(src1))
		c.P("Definition update_grace_period_error_sources : list string := %s.", CoqStrList(src2))
		// reading the snapshot of the last block cannot fail: the decoder has one result, and nothing
		// between the store reads and the first fallible call returns
		b("decode_unjailed_snapshot_is_total", dec.Type.Results != nil && len(dec.Type.Results.List) == 1 && c.Src(dec.Type.Results.List[0].Type) == "[][]byte")
		ugs := c.Src(ug.Body)
		b("update_grace_period_reads_legacy_by_split", strings.Contains(ugs, "snapshot = bytes.Split(us.Get([]byte(cUnjailedSnapshotStoreKey)), []byte(\",\"))") &&
			strings.Contains(ugs, "snapshot = decodeUnjailedSnapshot(us.Get([]byte(cUnjailedSnapshotV2StoreKey)))"))
		b("update_grace_period_drops_legacy_key", strings.Contains(ugs, "us.Delete([]byte(cUnjailedSnapshotStoreKey))"))
	}

	// ---- x/treasury: the two lookups of a relayer's fee entry by chain compare the SAME way (exact ==) ----
	{
		tk, err := c.Parse("x/treasury/keeper/keeper.go")
		if err != nil {
			return err
		}
		cmpOf := func(fn string) (string, error) {
			fd := FindFunc(tk, "Keeper", fn)
			if fd == nil {
				return "", fmt.Errorf("%s not found", fn)
			}
			var conds []string
			ast.Inspect(fd.Body, func(n ast.Node) bool {
				rs, ok := n.(*ast.RangeStmt)
				if !ok || !strings.HasSuffix(c.Src(rs.X), ".Fees") {
					return true
				}
				for _, st := range rs.Body.List {
					if is, ok := st.(*ast.IfStmt); ok {
						conds = append(conds, c.Src(is.Cond))
					}
				}
				return true
			})
			if len(conds) != 1 {
				return "", fmt.Errorf("%s: %d conditions inside the loop over the fee entries, expected the one chain comparison", fn, len(conds))
			}
			return conds[0], nil
		}
		for _, fn := range []string{"GetRelayerFeesByChainReferenceID", "GetCombinedFeesForRelay"} {
			cond, err := cmpOf(fn)
			if err != nil {
				return err
			}
			if cond != "v.ChainReferenceId == chainReferenceID" {
				return fmt.Errorf("%s: unknown chain comparison %q (eligibility and pricing must both match the chain reference id exactly, `v.ChainReferenceId == chainReferenceID`: the invariant 'assigned => fee entry for the chain' is stated over one equality)", fn, cond)
			}
		}
		b("treasury_fee_lookups_compare_chain_exactly", true)
		// UpsertRelayerFee merges by the exact id as well (a Go map keyed by the string)
		tms, err := c.Parse("x/treasury/keeper/msg_server.go")
		if err != nil {
			return err
		}
		up := FindFunc(tms, "msgServer", "UpsertRelayerFee")
		if up == nil {
			return fmt.Errorf("UpsertRelayerFee not found")
		}
		us := c.Src(up.Body)
		b("treasury_upsert_merges_by_exact_chain", strings.Contains(us, "lkup[v.ChainReferenceId] = struct{}{}") && strings.Contains(us, "if _, fn := lkup[v.ChainReferenceId]; fn {"))
	}

	// ---- x/evm: the signature verifier hands the submitted signature to Ecrecover unchanged (which accepts 65 bytes only) ----
	{
		ek, err := c.Parse("x/evm/keeper/keeper.go")
		if err != nil {
			return err
		}
		sq := FindFunc(ek, "Keeper", "SupportedQueues")
		if sq == nil {
			return fmt.Errorf("SupportedQueues not found")
		}
		calls := Calls(sq.Body, "Ecrecover")
		if len(calls) != 1 || len(calls[0].Args) != 2 {
			return fmt.Errorf("SupportedQueues: expected one crypto.Ecrecover(hash, sig) call")
		}
		if got := c.Src(calls[0].Args[1]); got != "sig" {
			return fmt.Errorf("SupportedQueues: the signature handed to Ecrecover is %q, not the submitted `sig` (what is verified must be what is stored: BuildCompassConsensus indexes the stored 65 bytes)", got)
		}
		// sig must be the closure's own parameter
		okParam := false
		ast.Inspect(sq.Body, func(n ast.Node) bool {
			fl, ok := n.(*ast.FuncLit)
			if !ok || len(Calls(fl.Body, "Ecrecover")) != 1 {
				return true
			}
			for _, p := range fl.Type.Params.List {
				for _, nm := range p.Names {
					if nm.Name == "sig" && c.Src(p.Type) == "[]byte" {
						okParam = true
					}
				}
			}
			return true
		})
		b("signature_verifier_passes_submitted_bytes", okParam)
		tf2, err := c.Parse("x/evm/types/turnstone_abi.go")
		if err != nil {
			return err
		}
		bc := FindFunc(tf2, "", "BuildCompassConsensus")
		if bc == nil {
			return fmt.Errorf("BuildCompassConsensus not found")
		}
		b("compass_consensus_reads_byte_64", strings.Contains(c.Src(bc.Body), "sig.Signature[64]"))
	}

	// ---- x/evm: relay weights are validated when they are set ----
	{
		kf2, err := c.Parse("x/evm/keeper/keeper.go")
		if err != nil {
			return err
		}
		srw := FindFunc(kf2, "Keeper", "SetRelayWeights")
		if srw == nil {
			return fmt.Errorf("SetRelayWeights not found")
		}
		validated := false
		if vc := Calls(srw.Body, "Validate"); len(vc) == 1 {
			var posSave token.Pos
			for _, ce := range Calls(srw.Body, "Save") {
				posSave = ce.Pos()
			}
			validated = posSave != 0 && vc[0].Pos() < posSave
			if rf, err := c.Parse("x/evm/types/relay_weights.go"); err == nil {
				if vf := FindFunc(rf, "RelayWeights", "Validate"); vf != nil {
					vs := c.Src(vf.Body)
					validated = validated && strings.Contains(vs, "m.DecValues()") && strings.Contains(vs, "v.value.IsNegative() || v.value.GT(maxRelayWeight)")
				} else {
					validated = false
				}
			} else {
				validated = false
			}
		}
		b("relay_weights_validated_when_set", validated)
	}

	// ---- x/paloma/keeper/keeper.go: the version gate's two comparisons (anything else is an unknown shape) ----
	pf, err := c.Parse("x/paloma/keeper/keeper.go")
	if err != nil {
		return err
	}
	cv := FindFunc(pf, "Keeper", "CheckChainVersion")
	if cv == nil {
		return fmt.Errorf("CheckChainVersion not found")
	}
	var switches []*ast.SwitchStmt
	ast.Inspect(cv.Body, func(n ast.Node) bool {
		if fl, ok := n.(*ast.FuncLit); ok && fl != nil {
			return false
		}
		if sw, ok := n.(*ast.SwitchStmt); ok {
			switches = append(switches, sw)
		}
		return true
	})
	if len(switches) != 2 {
		return fmt.Errorf("CheckChainVersion: %d switch statements, expected the major.minor switch and the version switch", len(switches))
	}
	clauseShape := func(sw *ast.SwitchStmt) []string {
		var out []string
		for _, st := range sw.Body.List {
			cc := st.(*ast.CaseClause)
			var vals []string
			for _, e := range cc.List {
				vals = append(vals, c.Src(e))
			}
			lab := "default"
			if cc.List != nil {
				lab = strings.Join(vals, ",")
			}
			act := "pass"
			if len(Calls(cc, "abandon")) > 0 {
				act = "abandon"
			} else {
				for _, b := range cc.Body {
					if _, ok := b.(*ast.ReturnStmt); ok {
						act = "return"
					}
				}
			}
			out = append(out, lab+":"+act)
		}
		return out
	}
	if got := c.Src(switches[0].Tag); got != "semver.Compare(semver.MajorMinor(k.AppVersion), semver.MajorMinor(govVer))" {
		return fmt.Errorf("CheckChainVersion: unknown major.minor comparison %q", got)
	}
	if got := strings.Join(clauseShape(switches[0]), ";"); got != "0:pass;default:abandon" {
		return fmt.Errorf("CheckChainVersion: unknown major.minor switch shape %q", got)
	}
	if got := c.Src(switches[1].Tag); got != "semver.Compare(k.AppVersion, govVer)" {
		return fmt.Errorf("CheckChainVersion: unknown version comparison %q (the model compares in semantic-version order)", got)
	}
	if got := strings.Join(clauseShape(switches[1]), ";"); got != "0,1:return;-1:abandon" {
		return fmt.Errorf("CheckChainVersion: unknown version switch shape %q", got)
	}
	cvsrc := c.Src(cv.Body)
	imp := false
	for _, im := range pf.Imports {
		if im.Path.Value == `"golang.org/x/mod/semver"` && im.Name == nil {
			imp = true
		}
	}
	if !imp {
		return fmt.Errorf("x/paloma/keeper/keeper.go: `semver` is not golang.org/x/mod/semver")
	}
	b("version_gate_compares_semver", true)
	b("version_gate_skips_without_upgrade", strings.Contains(cvsrc, "if len(govVer) == 0 || govHeight == 0 {\n\t\treturn"))
	b("version_gate_adds_v_prefix", strings.Contains(cvsrc, `if !strings.HasPrefix(govVer, "v") {`))

	c.Info("second_round_facts", map[string]any{"attest_continue": contFound, "validates": validates, "fee_readers": readers, "guarded_fee_readers": guardedReaders, "skyway_steps": steps})
	return nil
}
