package main

import (
	"fmt"
	"go/ast"
	"go/token"
	"strings"
)

// C02: what the oracle theorems are stated over, read from the source as it is now:
//   - AttestationVotesPowerThreshold (x/skyway/types/genesis.go) and the divisor / comparison of
//     TryAttestation's `requiredPower := Threshold.Mul(totalPower).Quo(math.NewInt(D))`, `attestationPower.GT(requiredPower)`;
//   - whether Attest appends the validator to att.Votes only when it is not already there;
//   - whether TryAttestation writes the remote block height (which can fail) before it moves the cursor;
//   - the nonce conditions of Attest / TryAttestation / attestationTally (`!= last+1`, `== last+1`);
//   - eventsToKeep of pruneAttestations.
func init() { extractors["C02"] = extractC02 }

func extractC02(c *Ctx) error {
	gf, err := c.ParseDir("x/skyway/types")
	if err != nil {
		return err
	}
	thr, ok := ConstValue(c, gf, "AttestationVotesPowerThreshold")
	if !ok {
		return fmt.Errorf("AttestationVotesPowerThreshold not found")
	}
	// math.NewInt(66)
	num := ""
	if strings.HasPrefix(thr, "math.NewInt(") && strings.HasSuffix(thr, ")") {
		num = strings.TrimSuffix(strings.TrimPrefix(thr, "math.NewInt("), ")")
	}
	if num == "" || strings.Trim(num, "0123456789") != "" {
		return fmt.Errorf("AttestationVotesPowerThreshold: expected math.NewInt(<literal>), got %s", thr)
	}

	af, err := c.Parse("x/skyway/keeper/attestation.go")
	if err != nil {
		return err
	}
	try := FindFunc(af, "Keeper", "TryAttestation")
	if try == nil {
		return fmt.Errorf("Keeper.TryAttestation not found")
	}
	den := ""
	ast.Inspect(try.Body, func(n ast.Node) bool {
		as, ok := n.(*ast.AssignStmt)
		if !ok || len(as.Lhs) != 1 || c.Src(as.Lhs[0]) != "requiredPower" || len(as.Rhs) != 1 {
			return true
		}
		src := c.Src(as.Rhs[0])
		const pre = "types.AttestationVotesPowerThreshold.Mul(totalPower).Quo(math.NewInt("
		if strings.HasPrefix(src, pre) && strings.HasSuffix(src, "))") {
			den = strings.TrimSuffix(strings.TrimPrefix(src, pre), "))")
		} else {
			den = "?" + src
		}
		return true
	})
	if den == "" || strings.Trim(den, "0123456789") != "" {
		return fmt.Errorf("TryAttestation: requiredPower := types.AttestationVotesPowerThreshold.Mul(totalPower).Quo(math.NewInt(D)) not recognised (%s)", den)
	}
	// the comparison that fires
	cmp := ""
	var fireIf *ast.IfStmt
	ast.Inspect(try.Body, func(n ast.Node) bool {
		is, ok := n.(*ast.IfStmt)
		if !ok {
			return true
		}
		s := c.Src(is.Cond)
		switch s {
		case "attestationPower.GT(requiredPower)":
			cmp, fireIf = "GT", is
		case "attestationPower.GTE(requiredPower)":
			cmp, fireIf = "GTE", is
		}
		return true
	})
	if cmp == "" {
		return fmt.Errorf("TryAttestation: `if attestationPower.GT(requiredPower)` not recognised")
	}
	// the power that is summed: one GetLastValidatorPower per element of att.Votes
	sumOK := false
	ast.Inspect(try.Body, func(n ast.Node) bool {
		rs, ok := n.(*ast.RangeStmt)
		if ok && c.Src(rs.X) == "att.Votes" {
			if len(Calls(rs.Body, "GetLastValidatorPower")) == 1 && strings.Contains(c.Src(rs.Body), "attestationPower = attestationPower.Add(math.NewInt(validatorPower))") {
				sumOK = true
			}
		}
		return true
	})
	if !sumOK {
		return fmt.Errorf("TryAttestation: loop `for _, validator := range att.Votes { … GetLastValidatorPower … attestationPower.Add }` not recognised")
	}
	// order of the cursor write and the height write inside the firing branch; the nonce guard
	var posCursor, posHeight, posObserved, posProcess token.Pos
	for _, ce := range Calls(fireIf.Body, "setLastObservedSkywayNonce") {
		posCursor = ce.Pos()
	}
	for _, ce := range Calls(fireIf.Body, "SetLastObservedEthereumBlockHeight") {
		posHeight = ce.Pos()
	}
	for _, ce := range Calls(fireIf.Body, "processAttestation") {
		posProcess = ce.Pos()
	}
	ast.Inspect(fireIf.Body, func(n ast.Node) bool {
		as, ok := n.(*ast.AssignStmt)
		if ok && len(as.Lhs) == 1 && c.Src(as.Lhs[0]) == "att.Observed" && c.Src(as.Rhs[0]) == "true" {
			posObserved = as.Pos()
		}
		return true
	})
	if posCursor == 0 || posHeight == 0 || posObserved == 0 || posProcess == 0 {
		return fmt.Errorf("TryAttestation: cursor write / height write / Observed=true / processAttestation not all found in the firing branch")
	}
	if !(posCursor < posObserved && posHeight < posObserved && posObserved < posProcess) {
		return fmt.Errorf("TryAttestation: expected cursor and height writes, then att.Observed = true, then processAttestation")
	}
	guard := ""
	ast.Inspect(fireIf.Body, func(n ast.Node) bool {
		is, ok := n.(*ast.IfStmt)
		if ok && strings.Contains(c.Src(is.Cond), "claim.GetSkywayNonce()") && strings.Contains(c.Src(is.Cond), "lastSkywayNonce") {
			guard = c.Src(is.Cond)
			if is.Pos() > posCursor || is.Pos() > posHeight {
				guard = "late:" + guard
			}
		}
		return true
	})
	if guard != "claim.GetSkywayNonce() != lastSkywayNonce+1" {
		return fmt.Errorf("TryAttestation: order guard `claim.GetSkywayNonce() != lastSkywayNonce+1` before the writes not recognised (%q)", guard)
	}
	if !strings.Contains(c.Src(try.Body), "if !att.Observed {") {
		return fmt.Errorf("TryAttestation: `if !att.Observed` guard not recognised")
	}

	// Attest
	at := FindFunc(af, "Keeper", "Attest")
	if at == nil {
		return fmt.Errorf("Keeper.Attest not found")
	}
	if !strings.Contains(c.Src(at.Body), "claim.GetSkywayNonce() != lastSkywayNonce+1") {
		return fmt.Errorf("Attest: per-validator nonce check `claim.GetSkywayNonce() != lastSkywayNonce+1` not recognised")
	}
	dedup, appendSeen := false, false
	var walk func(n ast.Node, guarded bool)
	walk = func(n ast.Node, guarded bool) {
		ast.Inspect(n, func(x ast.Node) bool {
			switch t := x.(type) {
			case *ast.IfStmt:
				g := guarded
				cond := strings.ReplaceAll(c.Src(t.Cond), " ", "")
				if cond == "!slices.Contains(att.Votes,valAddr)" {
					g = true
				}
				if t.Init != nil {
					walk(t.Init, guarded)
				}
				walk(t.Body, g)
				if t.Else != nil {
					walk(t.Else, guarded)
				}
				return false
			case *ast.AssignStmt:
				if len(t.Lhs) == 1 && c.Src(t.Lhs[0]) == "att.Votes" {
					if strings.ReplaceAll(c.Src(t.Rhs[0]), " ", "") != "append(att.Votes,valAddr)" {
						appendSeen = false
						dedup = false
						return false
					}
					appendSeen = true
					dedup = guarded
				}
			}
			return true
		})
	}
	walk(at.Body, false)
	if !appendSeen {
		return fmt.Errorf("Attest: `att.Votes = append(att.Votes, valAddr)` not recognised")
	}

	// attestationTally / pruneAttestations
	bf, err := c.Parse("x/skyway/abci.go")
	if err != nil {
		return err
	}
	tl := FindFunc(bf, "", "attestationTally")
	if tl == nil {
		return fmt.Errorf("attestationTally not found")
	}
	if !strings.Contains(c.Src(tl.Body), "if nonce == uint64(lastEventNonce)+1 {") || len(Calls(tl.Body, "TryAttestation")) != 1 {
		return fmt.Errorf("attestationTally: `if nonce == uint64(lastEventNonce)+1 { TryAttestation }` not recognised")
	}
	pr := FindFunc(bf, "", "pruneAttestations")
	if pr == nil {
		return fmt.Errorf("pruneAttestations not found")
	}
	keep := ""
	ast.Inspect(pr.Body, func(n ast.Node) bool {
		vs, ok := n.(*ast.ValueSpec)
		if ok && len(vs.Names) == 1 && vs.Names[0].Name == "eventsToKeep" && len(vs.Values) == 1 {
			keep = c.Src(vs.Values[0])
		}
		return true
	})
	if keep == "" || strings.Trim(keep, "0123456789") != "" {
		return fmt.Errorf("pruneAttestations: const eventsToKeep not recognised")
	}

	// attestationTally returns the error of TryAttestation (an error at one attestation ends the tally)
	abort := false
	ast.Inspect(tl.Body, func(n ast.Node) bool {
		bs, ok := n.(*ast.BlockStmt)
		if !ok {
			return true
		}
		for i, st := range bs.List {
			as, ok := st.(*ast.AssignStmt)
			if !ok || len(as.Rhs) != 1 || !strings.Contains(c.Src(as.Rhs[0]), "k.TryAttestation(") || i+1 >= len(bs.List) {
				continue
			}
			if is, ok := bs.List[i+1].(*ast.IfStmt); ok && c.Src(is.Cond) == "err != nil" && len(is.Body.List) == 1 && c.Src(is.Body.List[0]) == "return err" {
				abort = true
			}
		}
		return true
	})

	// every store of the oracle is opened with the chain reference id of the claim / of the call
	type site struct{ file, fn, arg string }
	sites := []site{
		{"x/skyway/keeper/attestation.go", "SetAttestation", "chainReferenceID"}, {"x/skyway/keeper/attestation.go", "GetAttestation", "chainReferenceID"},
		{"x/skyway/keeper/attestation.go", "DeleteAttestation", "chainReferenceID"}, {"x/skyway/keeper/attestation.go", "IterateAttestations", "chainReferenceID"},
		{"x/skyway/keeper/attestation.go", "GetLastObservedSkywayNonce", "chainReferenceID"}, {"x/skyway/keeper/attestation.go", "setLastObservedSkywayNonce", "chainReferenceID"},
		{"x/skyway/keeper/attestation.go", "GetLastObservedEthereumBlockHeight", "chainReferenceID"}, {"x/skyway/keeper/attestation.go", "SetLastObservedEthereumBlockHeight", "chainReferenceID"},
		{"x/skyway/keeper/attestation.go", "GetLastSkywayNonceByValidator", "chainReferenceID"}, {"x/skyway/keeper/attestation.go", "SetLastSkywayNonceByValidator", "chainReferenceID"},
		{"x/skyway/keeper/attestation.go", "IterateValidatorLastEventNonces", "chainReferenceID"}, {"x/skyway/keeper/attestation.go", "GetLatestCompassID", "chainReferenceID"},
		{"x/skyway/keeper/attestation.go", "setLatestCompassID", "chainReferenceID"}, {"x/skyway/keeper/keeper.go", "overrideNonce", "chainReferenceId"},
		{"x/skyway/keeper/keeper.go", "UpdateValidatorNoncesToLatest", "chainReferenceId"},
	}
	for _, st := range sites {
		f, err := c.Parse(st.file)
		if err != nil {
			return err
		}
		fn := FindFunc(f, "Keeper", st.fn)
		if fn == nil {
			return fmt.Errorf("Keeper.%s not found", st.fn)
		}
		opens := 0
		for _, ce := range Calls(fn.Body, "GetStore") {
			if len(ce.Args) != 2 || c.Src(ce.Args[1]) != st.arg {
				return fmt.Errorf("%s: store opened with %s, expected the chain reference id parameter %s", st.fn, c.Src(ce), st.arg)
			}
			opens++
		}
		if opens == 0 {
			return fmt.Errorf("%s: k.GetStore(ctx, %s) not found", st.fn, st.arg)
		}
	}
	chainArg := func(fn *ast.FuncDecl, names ...string) error {
		for _, nm := range names {
			cs := Calls(fn.Body, nm)
			if len(cs) == 0 {
				return fmt.Errorf("%s: call of %s not found", fn.Name.Name, nm)
			}
			for _, ce := range cs {
				found := false
				for _, a := range ce.Args {
					if c.Src(a) == "claim.GetChainReferenceId()" {
						found = true
					}
				}
				if !found {
					return fmt.Errorf("%s: %s is not called with claim.GetChainReferenceId()", fn.Name.Name, c.Src(ce))
				}
			}
		}
		return nil
	}
	if err := chainArg(at, "GetLastSkywayNonceByValidator", "GetAttestation", "SetAttestation", "SetLastSkywayNonceByValidator"); err != nil {
		return err
	}
	if err := chainArg(try, "GetLastObservedSkywayNonce", "SetLastObservedEthereumBlockHeight", "setLastObservedSkywayNonce", "SetAttestation"); err != nil {
		return err
	}
	for _, ce := range append(Calls(tl.Body, "GetAttestationMapping"), Calls(tl.Body, "GetLastObservedSkywayNonce")...) {
		if len(ce.Args) != 2 || c.Src(ce.Args[1]) != "chainReferenceID" {
			return fmt.Errorf("attestationTally: %s is not called with the tallied chain's id", c.Src(ce))
		}
	}
	gm := FindFunc(af, "Keeper", "GetAttestationMapping")
	if gm == nil || len(Calls(gm.Body, "GetLatestCompassID")) != 1 || c.Src(Calls(gm.Body, "GetLatestCompassID")[0].Args[1]) != "chainReferenceID" ||
		len(Calls(gm.Body, "IterateAttestations")) != 1 || c.Src(Calls(gm.Body, "IterateAttestations")[0].Args[1]) != "chainReferenceID" {
		return fmt.Errorf("GetAttestationMapping: compass id and attestations are not read for the same chainReferenceID")
	}

	// the three claim handlers of the msg server admit only the operator of a Bonded validator
	mf, err := c.Parse("x/skyway/keeper/msg_server.go")
	if err != nil {
		return err
	}
	chk := FindFunc(mf, "msgServer", "checkOrchestratorValidatorInSet")
	if chk == nil {
		return fmt.Errorf("msgServer.checkOrchestratorValidatorInSet not found")
	}
	bondedReq := strings.Contains(strings.ReplaceAll(c.Src(chk.Body), " ", ""), "ifval==nil||!val.IsBonded(){")
	// … and first bind the named orchestrator to the creator of the message (the account the ante
	// handler checked against the signers): `if msg.Orchestrator != msg.Metadata.Creator { return nil, … }`
	// as a top-level statement of the handler, before the validator lookup
	creatorBound := map[string]bool{}
	for _, h := range []string{"SendToPalomaClaim", "BatchSendToRemoteClaim", "LightNodeSaleClaim"} {
		fn := FindFunc(mf, "msgServer", h)
		if fn == nil {
			return fmt.Errorf("msgServer.%s not found", h)
		}
		for _, st := range fn.Body.List {
			is, ok := st.(*ast.IfStmt)
			if !ok || is.Init != nil || is.Else != nil || len(is.Body.List) != 1 {
				continue
			}
			cond := strings.ReplaceAll(c.Src(is.Cond), " ", "")
			ret, isRet := is.Body.List[0].(*ast.ReturnStmt)
			chk0 := Calls(fn.Body, "checkOrchestratorValidatorInSet")
			if (cond == "msg.Orchestrator!=msg.Metadata.Creator" || cond == "msg.Metadata.Creator!=msg.Orchestrator") && isRet && len(ret.Results) == 2 &&
				c.Src(ret.Results[0]) == "nil" && c.Src(ret.Results[1]) != "nil" && len(chk0) == 1 && is.Pos() < chk0[0].Pos() {
				creatorBound[h] = true
			}
		}
		a, b := Calls(fn.Body, "checkOrchestratorValidatorInSet"), Calls(fn.Body, "claimHandlerCommon")
		if len(a) != 1 || len(b) != 1 || a[0].Pos() > b[0].Pos() {
			return fmt.Errorf("msgServer.%s: checkOrchestratorValidatorInSet before claimHandlerCommon not recognised", h)
		}
	}

	// executed-batch claims: refused at or after the batch timeout, at vote time (msg server) and in the handler
	apc := FindFunc(mf, "", "additionalPatchChecks")
	kf, err := c.Parse("x/skyway/keeper/batch.go")
	if err != nil {
		return err
	}
	obe := FindFunc(kf, "Keeper", "OutgoingTxBatchExecuted")
	if apc == nil || obe == nil || !strings.Contains(c.Src(apc.Body), "if b.BatchTimeout <= msg.EthBlockHeight {") ||
		!strings.Contains(c.Src(obe.Body), "if b.BatchTimeout <= claim.EthBlockHeight {") {
		return fmt.Errorf("additionalPatchChecks / OutgoingTxBatchExecuted: `b.BatchTimeout <= …EthBlockHeight` refusal not recognised")
	}

	// the handler path converts no claim amount partially (.Int64() / .Uint64() panic outside their range, the
	// end-blocker's recover swallows the panic after the claim was marked observed)
	hf, err := c.Parse("x/skyway/keeper/attestation_handler.go")
	if err != nil {
		return err
	}
	partial := 0
	var partialSites []string
	ast.Inspect(hf, func(n ast.Node) bool {
		ce, ok := n.(*ast.CallExpr)
		if !ok {
			return true
		}
		se, ok := ce.Fun.(*ast.SelectorExpr)
		if !ok || (se.Sel.Name != "Int64" && se.Sel.Name != "Uint64") || len(ce.Args) != 0 {
			return true
		}
		x := strings.ToLower(c.Src(se.X))
		if strings.Contains(x, "amount") || strings.Contains(x, "coin") || strings.Contains(x, "toburn") {
			partial++
			partialSites = append(partialSites, c.Src(ce))
		}
		return true
	})
	for _, ce := range Calls(obe.Body, "Int64") {
		partial++
		partialSites = append(partialSites, c.Src(ce))
	}

	c.P("(* x/skyway/types/genesis.go: AttestationVotesPowerThreshold = %s;", thr)
	c.P("   x/skyway/keeper/attestation.go TryAttestation: requiredPower = Threshold*total quo %s, fires when attestationPower.%s(requiredPower) *)", den, cmp)
	c.P("Definition threshold_num : Z := %s.", num)
	c.P("Definition threshold_den : Z := %s.", den)
	c.P("Definition threshold_strict : bool := %v.", cmp == "GT")
	c.P("(* Attest: att.Votes = append(att.Votes, valAddr) guarded by !slices.Contains(att.Votes, valAddr)? *)")
	c.P("Definition vote_dedup : bool := %v.", dedup)
	c.P("(* TryAttestation: SetLastObservedEthereumBlockHeight (can fail) called before setLastObservedSkywayNonce? *)")
	c.P("Definition height_before_cursor : bool := %v.", posHeight < posCursor)
	c.P("(* attestationTally: `err := k.TryAttestation(...); if err != nil { return err }` — an error ends the tally *)")
	c.P("Definition tally_aborts_on_error : bool := %v.", abort)
	c.P("(* msgServer.checkOrchestratorValidatorInSet: `if val == nil || !val.IsBonded()` rejects; called by all three claim handlers before Attest *)")
	c.P("Definition vote_requires_bonded : bool := %v.", bondedReq)
	c.P("(* claim handlers: `if msg.Orchestrator != msg.Metadata.Creator { return nil, err }` before the validator lookup, per claim type *)")
	c.P("Definition creator_bound_deposit : bool := %v.", creatorBound["SendToPalomaClaim"])
	c.P("Definition creator_bound_batch : bool := %v.", creatorBound["BatchSendToRemoteClaim"])
	c.P("Definition creator_bound_sale : bool := %v.", creatorBound["LightNodeSaleClaim"])
	c.P("(* attestation_handler.go / OutgoingTxBatchExecuted: partial numeric conversions (.Int64() / .Uint64()) of claim amounts: %v *)", partialSites)
	c.P("Definition handler_amount_partial_conversions : Z := %d.", partial)
	c.P("(* stores of the oracle opened with the chain reference id of the call (attestation.go getters/setters, overrideNonce, UpdateValidatorNoncesToLatest) *)")
	c.P("Definition per_chain_store_sites : Z := %d.", len(sites))
	c.P("(* pruneAttestations *)")
	c.P("Definition events_to_keep : Z := %s.", keep)
	c.Info("threshold", fmt.Sprintf("%s/%s %s", num, den, cmp))
	c.Info("vote_dedup", dedup)
	c.Info("height_before_cursor", posHeight < posCursor)
	c.Info("events_to_keep", keep)
	c.Info("tally_aborts_on_error", abort)
	c.Info("vote_requires_bonded", bondedReq)
	c.Info("handler_amount_partial_conversions", partial)
	c.Info("creator_bound", fmt.Sprintf("deposit=%v batch=%v sale=%v", creatorBound["SendToPalomaClaim"], creatorBound["BatchSendToRemoteClaim"], creatorBound["LightNodeSaleClaim"]))
	c.Info("per_chain_store_sites", len(sites))
	return nil
}
