package main

// gotrans, fragments: functions that also talk to stores / other keepers cannot be translated as
// a whole.  Two restricted forms are offered instead, both fully translated inside (nothing is
// skipped within the selected code):
//   - a contiguous run of top-level statements of the body (inputs declared by source text; on
//     fall-through the run yields the declared output variables as a tuple);
//   - single anchored expressions (the right-hand side of a uniquely identified assignment, the
//     condition of a uniquely identified if).
// For a statement run, the SHA-256 of the source text of all statements of the function that were
// NOT translated is emitted as <Def>_context_digest; Trans/<Prop>Fn.v pins it, so that a change
// outside the translated run is noticed as well (it needs a review, then a new pin).

import (
	"crypto/sha256"
	"encoding/hex"
	"fmt"
	"go/ast"
	"strings"
)

func (t *tr) bindTextArgs(args []argSpec) string {
	var binders []string
	for _, a := range args {
		t.scopes[0][a.Go] = &binding{coq: a.Coq, k: a.K, elem: a.Elem, param: true}
		binders = append(binders, fmt.Sprintf("(%s : %s)", a.Coq, coqType(a.K)))
	}
	return strings.Join(binders, " ")
}

func (t *tr) fragment(fd *ast.FuncDecl) ([]string, error) {
	fr := t.spec.Frag
	var defs []string
	if fr.From != "" {
		d, err := t.stmtRun(fd)
		if err != nil {
			return nil, err
		}
		defs = append(defs, d...)
	}
	for i := range fr.Exprs {
		d, err := t.exprFragment(fd, &fr.Exprs[i])
		if err != nil {
			return nil, err
		}
		defs = append(defs, d)
	}
	return defs, nil
}

func (t *tr) uniqueTop(fd *ast.FuncDecl, text string) (int, error) {
	idx := -1
	for i, s := range fd.Body.List {
		if strings.Contains(t.c.Src(s), text) {
			if idx >= 0 {
				return 0, t.errf(fd, "fragment anchor %q matches more than one top-level statement of %s", text, fd.Name.Name)
			}
			idx = i
		}
	}
	if idx < 0 {
		return 0, t.errf(fd, "fragment anchor %q matches no top-level statement of %s", text, fd.Name.Name)
	}
	return idx, nil
}

func (t *tr) stmtRun(fd *ast.FuncDecl) ([]string, error) {
	fr := t.spec.Frag
	i, err := t.uniqueTop(fd, fr.From)
	if err != nil {
		return nil, err
	}
	j, err := t.uniqueTop(fd, fr.To)
	if err != nil {
		return nil, err
	}
	if j < i {
		return nil, t.errf(fd, "fragment anchors are out of order")
	}
	if len(fr.Out) == 0 && j != len(fd.Body.List)-1 {
		return nil, t.errf(fd, "a fragment without outputs must end with the last statement of the function")
	}
	// results of the enclosing function
	t.result, t.errRes = kUnit, false
	if rs := fd.Type.Results; rs != nil {
		var tys []ast.Expr
		for _, fl := range rs.List {
			if len(fl.Names) > 0 {
				return nil, t.errf(fl, "named results are not in the subset")
			}
			tys = append(tys, fl.Type)
		}
		if len(tys) > 0 && t.c.Src(tys[len(tys)-1]) == "error" {
			t.errRes = true
			tys = tys[:len(tys)-1]
		}
		if len(tys) > 1 {
			return nil, t.errf(rs, "more than one non-error result is not in the subset")
		}
		if len(tys) == 1 {
			k, el, err := t.typeKind(tys[0])
			if err != nil {
				return nil, err
			}
			t.result, t.resElem = k, el
		}
	}
	t.resMode = true
	t.scopes = []map[string]*binding{{}}
	binders := t.bindTextArgs(t.spec.Args)
	t.push()
	outType := ""
	body, err := t.stmts(fd.Body.List[i:j+1], func() (string, error) {
		if len(fr.Out) == 0 {
			return "", t.errf(fd.Body, "control reaches the end of the fragment without a return")
		}
		var codes, tys []string
		for _, o := range fr.Out {
			b, _ := t.lookup(o)
			if b == nil || b.k == kUnknown || b.k == kStruct {
				return "", t.errf(fd.Body, "fragment output %s is not an assigned variable at the end of the fragment", o)
			}
			codes = append(codes, b.coq)
			tys = append(tys, coqType(b.k))
		}
		ty := "(" + strings.Join(tys, " * ") + ")"
		if outType != "" && outType != ty {
			return "", t.errf(fd.Body, "fragment outputs have different types on different paths")
		}
		outType = ty
		return "Val (" + strings.Join(codes, ", ") + ")", nil
	})
	if err != nil {
		return nil, err
	}
	rty := t.resultType()
	if len(fr.Out) > 0 {
		rty = "res " + outType
	}
	defs := []string{fmt.Sprintf("Definition %s %s : %s :=\n  %s.\n", t.spec.Def, binders, rty, body)}
	if fr.PinRest {
		h := sha256.New()
		var rest []string
		for k, s := range fd.Body.List {
			if k < i || k > j {
				src := t.c.Src(s)
				rest = append(rest, src)
				h.Write([]byte(src))
				h.Write([]byte{0})
			}
		}
		h.Write([]byte(t.c.Src(fd.Type)))
		defs = append(defs, fmt.Sprintf("(* SHA-256 over the source text of the %d top-level statements of %s outside the translated run, and of its signature *)\nDefinition %s_context_digest : list Z := %s.\n",
			len(rest), fd.Name.Name, t.spec.Def, hexAsZList(hex.EncodeToString(h.Sum(nil)))))
	}
	return defs, nil
}

// the digest as four 64-bit words (no String import needed in the generated file)
func hexAsZList(h string) string {
	var parts []string
	for i := 0; i+16 <= len(h); i += 16 {
		parts = append(parts, "0x"+h[i:i+16])
	}
	return "[" + strings.Join(parts, "; ") + "]"
}

// fragRet: a return inside a statement run that has outputs.
func (t *tr) fragRet(s *ast.ReturnStmt) (string, error) {
	fr := t.spec.Frag
	if len(fr.Out) == 0 {
		// the run is a suffix of the function: ordinary return semantics
		saved := t.spec.Frag
		t.spec.Frag = nil
		defer func() { t.spec.Frag = saved }()
		return t.ret(s)
	}
	if !t.errRes || len(s.Results) == 0 {
		return "", t.errf(s, "return inside a fragment with outputs must return an error")
	}
	ev, err := t.pureExpr(s.Results[len(s.Results)-1])
	if err != nil {
		return "", err
	}
	if ev.isErr {
		return "Fail", nil
	}
	return "", t.errf(s, "early successful return inside a fragment with outputs is not in the subset")
}

func (t *tr) exprFragment(fd *ast.FuncDecl, ef *exprFrag) (string, error) {
	var found []ast.Expr
	kindText := strings.SplitN(ef.Anchor, ":", 2)
	if len(kindText) != 2 {
		return "", fmt.Errorf("gotrans: bad anchor %q", ef.Anchor)
	}
	ast.Inspect(fd.Body, func(n ast.Node) bool {
		switch s := n.(type) {
		case *ast.AssignStmt:
			if kindText[0] == "stmt" && len(s.Rhs) == 1 && len(s.Lhs) == 1 && strings.HasPrefix(t.c.Src(s), kindText[1]) {
				found = append(found, s.Rhs[0])
			}
		case *ast.IfStmt:
			if kindText[0] == "ifcond" && strings.Contains(t.c.Src(s.Cond), kindText[1]) {
				found = append(found, s.Cond)
			}
		}
		return true
	})
	if len(found) != 1 {
		return "", t.errf(fd, "anchor %q matches %d places in %s (exactly one expected)", ef.Anchor, len(found), fd.Name.Name)
	}
	t.resMode = true
	t.tmp = 0
	t.scopes = []map[string]*binding{{}}
	binders := t.bindTextArgs(ef.Args)
	t.push()
	v, err := t.pureExpr(found[0])
	if err != nil {
		return "", err
	}
	if v.isNil || v.isErr || v.k == kUnknown || v.k == kStruct {
		return "", t.errf(found[0], "anchored expression is not a value of the subset")
	}
	ty := coqType(v.k)
	if v.partial {
		if strings.Contains(ty, " ") {
			ty = "(" + ty + ")"
		}
		ty = "res " + ty
	}
	return fmt.Sprintf("(* %s *)\nDefinition %s %s : %s :=\n  %s.\n", commentSafe(t.c.Src(found[0])), ef.Def, binders, ty, v.code), nil
}
