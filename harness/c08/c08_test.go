//go:build verif

// Package c08: twin execution (X) for C08 — the same scripted history is executed against the
// REAL keepers / msg servers in several fresh OS processes that differ only in what is NOT chain
// history: process environment (PALOMA_FF_PIGEON_STATUS_UPDATE set / unset / empty, TZ),
// GOMAXPROCS, extra read-only work between the operations, and — because every process has its
// own hash seed and every `range` its own random start — the iteration order of every Go map.
// After every operation each process prints the result class of the operation and a digest of all
// KV stores; the streams must be identical (direct oracle).  The outcomes observed in every
// environment are also emitted as Coq cases and compared with the model (Sys/Ambient.v), which takes
// the environment / iteration order as an explicit argument.
package c08

import (
	"bufio"
	"encoding/json"
	"fmt"
	"os"
	"os/exec"
	"path/filepath"
	"regexp"
	"sort"
	"strings"
	"testing"

	"github.com/palomachain/paloma/v2/verifharness/emit"
)

const ffName = "PALOMA_FF_PIGEON_STATUS_UPDATE"

// twinEnv is what differs between two executions of the same history.
type twinEnv struct {
	Name       string `json:"name"`
	FlagSet    bool   `json:"flag_set"`
	FlagValue  string `json:"flag_value"`
	GoMaxProcs int    `json:"gomaxprocs"`
	TZ         string `json:"tz"`
	Extra      bool   `json:"extra_reads"` // read-only queries and discarded cache-context executions between operations
	Restart    bool   `json:"restart"`     // full-application twin only: the node is restarted (new application object, stores copied) at marked blocks
	RestartAll bool   `json:"restart_all,omitempty"` // ... at every block boundary
	Slow       bool   `json:"slow,omitempty"`        // full-application twin only: a slow node (sleeping logger) in the marked end blockers
}

type stepOut struct {
	I      int    `json:"i"`
	Kind   string `json:"kind"`
	Result string `json:"result"`
	Digest string `json:"digest"`
	Obs    string `json:"obs,omitempty"` // extra projected observable (e.g. the picked validator)
	// Events: digest of the event sequence (type + attributes, in order) the operation left in the event managers of
	// the contexts it ran on — what a block's result carries besides the state
	Events string `json:"events,omitempty"`
}

func twinEnvs(tier string) []twinEnv {
	envs := []twinEnv{
		{Name: "plain", FlagSet: false, GoMaxProcs: 1, TZ: "UTC"},
		{Name: "flag+queries", FlagSet: true, FlagValue: "1", GoMaxProcs: 8, TZ: "Asia/Tokyo", Extra: true},
		{Name: "flag-empty", FlagSet: true, FlagValue: "", GoMaxProcs: 2, TZ: "America/New_York", Restart: true, Slow: true},
		{Name: "plain+queries", FlagSet: false, GoMaxProcs: 4, TZ: "UTC", Extra: true, Restart: true, RestartAll: true},
	}
	if tier == "thorough" {
		for i := 0; i < 12; i++ {
			envs = append(envs, twinEnv{Name: fmt.Sprintf("rep%d", i), FlagSet: i%2 == 0, FlagValue: "x", GoMaxProcs: 1 + i%16, TZ: "UTC", Extra: i%3 == 0, Restart: i%4 == 1, RestartAll: i%8 == 5})
		}
	}
	return envs
}

// envNamesRead: every environment variable name the state-machine source reads through os.Getenv /
// os.LookupEnv with a literal name (x/, util/, app/, non-test files).  The twins with FlagSet set ALL of
// them, so that a newly introduced variable is varied too.
func envNamesRead() []string {
	repo := os.Getenv("VERIF_REPO")
	if repo == "" {
		repo = "/repo"
	}
	re := regexp.MustCompile(`os\.(?:LookupEnv|Getenv)\(\s*"([^"]+)"`)
	set := map[string]bool{ffName: true}
	for _, d := range []string{"x", "util", "app"} {
		_ = filepath.WalkDir(filepath.Join(repo, d), func(path string, de os.DirEntry, err error) error {
			if err != nil || de.IsDir() || !strings.HasSuffix(path, ".go") || strings.HasSuffix(path, "_test.go") {
				return nil
			}
			raw, err := os.ReadFile(path)
			if err != nil {
				return nil
			}
			for _, m := range re.FindAllSubmatch(raw, -1) {
				set[string(m[1])] = true
			}
			return nil
		})
	}
	var names []string
	for n := range set {
		names = append(names, n)
	}
	sort.Strings(names)
	return names
}

var envNames = envNamesRead()

func isEnvName(kv string) bool {
	for _, n := range envNames {
		if strings.HasPrefix(kv, n+"=") {
			return true
		}
	}
	return false
}

// flagEnv: the assignments a twin with the flag set adds to its environment.
func flagEnv(e twinEnv) []string {
	var out []string
	if e.FlagSet {
		for _, n := range envNames {
			out = append(out, n+"="+e.FlagValue)
		}
	}
	return out
}

// runChild executes a script in a fresh process under env e and returns the per-step outputs.
func runChild(t *testing.T, dir string, script []Op, e twinEnv, tag string) ([]stepOut, error) {
	sp := filepath.Join(dir, "script_"+tag+".json")
	op := filepath.Join(dir, "out_"+tag+"_"+e.Name+".jsonl")
	js, _ := json.Marshal(script)
	if err := os.WriteFile(sp, js, 0o644); err != nil {
		return nil, err
	}
	cmd := exec.Command(os.Args[0], "-test.run", "^TestCorr$", "-test.count=1")
	var env []string
	for _, kv := range os.Environ() {
		if isEnvName(kv) || strings.HasPrefix(kv, "TZ=") || strings.HasPrefix(kv, "GOMAXPROCS=") || strings.HasPrefix(kv, "C08_") {
			continue
		}
		env = append(env, kv)
	}
	env = append(env, "C08_CHILD="+sp, "C08_CHILD_OUT="+op, fmt.Sprintf("GOMAXPROCS=%d", e.GoMaxProcs), "TZ="+e.TZ)
	if e.Extra {
		env = append(env, "C08_EXTRA=1")
	}
	env = append(env, flagEnv(e)...)
	cmd.Env = env
	out, err := cmd.CombinedOutput()
	if err != nil {
		tail := string(out)
		if len(tail) > 3000 {
			tail = tail[len(tail)-3000:]
		}
		return nil, fmt.Errorf("child %s: %v\n%s", e.Name, err, tail)
	}
	f, err := os.Open(op)
	if err != nil {
		return nil, err
	}
	defer f.Close()
	var res []stepOut
	sc := bufio.NewScanner(f)
	sc.Buffer(make([]byte, 1<<20), 1<<26)
	for sc.Scan() {
		var s stepOut
		if err := json.Unmarshal(sc.Bytes(), &s); err != nil {
			return nil, err
		}
		res = append(res, s)
	}
	if len(res) != len(script) {
		return nil, fmt.Errorf("child %s: %d outputs for %d operations", e.Name, len(res), len(script))
	}
	return res, nil
}

func childMain(t *testing.T) {
	raw, err := os.ReadFile(os.Getenv("C08_CHILD"))
	if err != nil {
		t.Fatal(err)
	}
	var script []Op
	if err := json.Unmarshal(raw, &script); err != nil {
		t.Fatal(err)
	}
	w := newWorld(t)
	extra := os.Getenv("C08_EXTRA") != ""
	f, err := os.Create(os.Getenv("C08_CHILD_OUT"))
	if err != nil {
		t.Fatal(err)
	}
	defer f.Close()
	bw := bufio.NewWriter(f)
	defer bw.Flush()
	for i, op := range script {
		if extra {
			w.extraReads(op)
		}
		w.resetEvents()
		res, obs := w.apply(op)
		js, _ := json.Marshal(stepOut{I: i, Kind: op.Kind, Result: res, Digest: w.digest(), Obs: obs, Events: w.events()})
		bw.Write(js)
		bw.WriteByte('\n')
	}
}

// firstDivergence returns the first step at which two streams differ, or -1.
func firstDivergence(a, b []stepOut) int {
	for i := range a {
		if i >= len(b) || a[i] != b[i] {
			return i
		}
	}
	return -1
}

func TestCorr(t *testing.T) {
	if os.Getenv("C08_CHILD") != "" {
		if os.Getenv("C08_CHILD_MODE") == "app" {
			appChildMain(t)
		} else {
			childMain(t)
		}
		return
	}
	run := emit.Start("C08", 300)
	run.Rule("twin executions of one scripted history (status updates with valid / malformed creators and known / unknown levels, relayer picks on tie-rich metrics, metric purges, snapshot-worthiness tests, evidence tallies, end-blockers) in fresh processes under different environments, GOMAXPROCS, extra reads and map seeds; a history is non-trivial when it has at least one operation that changes a store and one that is rejected")
	dir, err := os.MkdirTemp("", "c08-twin-")
	if err != nil {
		t.Fatal(err)
	}
	if keep := os.Getenv("C08_KEEP"); keep != "" { // debugging: keep scripts and child outputs
		dir = keep
		_ = os.MkdirAll(dir, 0o755)
	} else {
		defer os.RemoveAll(dir)
	}
	envs := twinEnvs(run.Tier)

	// one twin group = one scripted history executed under every environment
	twin := func(tag string, script []Op) (outs [][]stepOut, ok bool) {
		for _, e := range envs {
			o, err := runChild(t, dir, script, e, tag)
			if err != nil {
				t.Fatalf("twin run failed: %v", err)
			}
			outs = append(outs, o)
		}
		return outs, true
	}
	// report: compare every stream with the first one; on divergence try to shrink to the single operation
	check := func(tag string, script []Op) [][]stepOut {
		outs, _ := twin(tag, script)
		for k := 1; k < len(outs); k++ {
			d := firstDivergence(outs[0], outs[k])
			if d < 0 {
				continue
			}
			op := script[d]
			replay := map[string]any{"envs": []twinEnv{envs[0], envs[k]}, "diverges_at": d,
				"outputs": []stepOut{outs[0][d], outs[k][d]}}
			// shrink: the operation alone on a fresh world (a light-node operation: with the earlier operations on the same client)
			min := []Op{op}
			if op.Kind == "lightnode" {
				min = nil
				for _, p := range script[:d+1] {
					if p.Kind == "lightnode" && p.Light.Client == op.Light.Client {
						min = append(min, p)
					}
				}
			}
			alone, _ := twin(tag+"_shrunk", min)
			if l := len(min) - 1; firstDivergence(alone[0], alone[k]) == l {
				replay["history"] = min
				replay["diverges_at"] = l
				replay["outputs"] = []stepOut{alone[0][l], alone[k][l]}
			} else {
				replay["history"] = script[:d+1]
			}
			run.Violate("C08:twin-divergence:"+op.id(), fmt.Sprintf("same history, different outcome: operation %s gives %q under environment %s and %q under %s",
				op.id(), outs[0][d].Result+"/"+outs[0][d].Obs+" events="+outs[0][d].Events, envs[0].Name, outs[k][d].Result+"/"+outs[k][d].Obs+" events="+outs[k][d].Events, envs[k].Name), replay)
			break
		}
		return outs
	}

	// corpus first
	for i, script := range corpusScripts() {
		outs := check(fmt.Sprintf("corpus%d", i), script)
		emitCases(run, script, outs, envs)
	}
	// generated histories
	nHist := 2
	if run.Tier == "thorough" {
		nHist = 8
	}
	perHist := run.N / nHist
	if perHist < 10 {
		perHist = 10
	}
	for h := 0; h < nHist; h++ {
		script := genScript(run, perHist)
		outs := check(fmt.Sprintf("h%d", h), script)
		emitCases(run, script, outs, envs)
	}
	// full-application twin: block histories on the integration fixture (app_test.go)
	for i, sc := range corpusAppScripts() {
		outs := checkApp(t, run, dir, fmt.Sprintf("appcorpus%d", i), sc, envs)
		emitAppCases(run, sc, outs, envs)
	}
	nApp, nBlocks := 2, 12
	if run.Tier == "thorough" {
		nApp, nBlocks = 20, 24
	}
	for h := 0; h < nApp; h++ {
		sc := genAppScript(run, nBlocks)
		outs := checkApp(t, run, dir, fmt.Sprintf("app%d", h), sc, envs)
		emitAppCases(run, sc, outs, envs)
	}
	if err := run.Finish("Sys.Ambient Corr.C08", "C08.case", "C08.check"); err != nil {
		t.Fatal(err)
	}
}
