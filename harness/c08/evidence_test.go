//go:build verif

package c08

// Round 7: the evidence tally at keeper level.  The submissions of a script are stored with the REAL
// QueuedSignedMessage.AddEvidence (the code that keeps one piece of evidence per validator) and tallied
// with the REAL libcons.ConsensusChecker.VerifyEvidence (which ranges over a Go map of groups), several
// times in one process; every twin reports the elected winner.  Validators report again with a proof of
// another type (an error report after a tx proof and vice versa) before the tally.

import (
	"context"
	"fmt"
	"math/big"
	"strings"

	sdkmath "cosmossdk.io/math"
	"github.com/cosmos/cosmos-sdk/codec"
	codectypes "github.com/cosmos/cosmos-sdk/codec/types"
	ethcommon "github.com/ethereum/go-ethereum/common"
	ethtypes "github.com/ethereum/go-ethereum/core/types"
	"github.com/palomachain/paloma/v2/util/libcons"
	"github.com/palomachain/paloma/v2/verifharness/emit"
	consensustypes "github.com/palomachain/paloma/v2/x/consensus/types"
	evmtypes "github.com/palomachain/paloma/v2/x/evm/types"
	valsettypes "github.com/palomachain/paloma/v2/x/valset/types"
)

// evidenceOp: Powers per validator; Subs in submission order: [validator, proof kind (0 = tx proof, 1 = error report), variant]
type evidenceOp struct {
	Powers []int64  `json:"powers"`
	Subs   [][3]int `json:"subs"`
}

var evCodec = func() codec.Codec {
	reg := codectypes.NewInterfaceRegistry()
	evmtypes.RegisterInterfaces(reg)
	consensustypes.RegisterInterfaces(reg)
	return codec.NewProtoCodec(reg)
}()

func evProof(kind, variant int) *codectypes.Any {
	var a *codectypes.Any
	var err error
	if kind == 0 {
		to := ethcommon.HexToAddress("0x51eca2efb15afacc612278c71f5edb35986f172f")
		bz, merr := ethtypes.NewTx(&ethtypes.LegacyTx{Nonce: uint64(variant), GasPrice: big.NewInt(1), Gas: 21000, To: &to, Value: big.NewInt(0)}).MarshalBinary()
		if merr != nil {
			panic(merr)
		}
		a, err = codectypes.NewAnyWithValue(&evmtypes.TxExecutedProof{SerializedTX: bz})
	} else {
		a, err = codectypes.NewAnyWithValue(&evmtypes.SmartContractExecutionErrorProof{ErrorMessage: fmt.Sprintf("e%d", variant)})
	}
	if err != nil {
		panic(err)
	}
	return a
}

func applyEvidence(ctx context.Context, op *evidenceOp) (string, string) {
	return guarded(func() (string, string) {
		sn := &valsettypes.Snapshot{TotalShares: sdkmath.ZeroInt()}
		for i, p := range op.Powers {
			sn.Validators = append(sn.Validators, valsettypes.Validator{Address: valAddr(i), ShareCount: sdkmath.NewInt(p), State: valsettypes.ValidatorState_ACTIVE})
			sn.TotalShares = sn.TotalShares.Add(sdkmath.NewInt(p))
		}
		msg := &consensustypes.QueuedSignedMessage{}
		for _, s := range op.Subs {
			msg.AddEvidence(consensustypes.Evidence{ValAddress: valAddr(s[0] % len(op.Powers)), Proof: evProof(s[1], s[2])})
		}
		checker := libcons.New(func(context.Context) (*valsettypes.Snapshot, error) { return sn, nil }, evCodec)
		first := ""
		for rep := 0; rep < 2*repeat; rep++ {
			var evs []libcons.Evidence
			for _, e := range msg.GetEvidence() {
				evs = append(evs, e)
			}
			r, err := checker.VerifyEvidence(ctx, evs)
			got := errClass(err)
			if err == nil && r != nil {
				switch w := r.Winner.(type) {
				case *evmtypes.TxExecutedProof:
					tx, _ := w.GetTX()
					got = fmt.Sprintf("winner=tx-proof nonce=%d", tx.Nonce())
				case *evmtypes.SmartContractExecutionErrorProof:
					got = "winner=error-report " + w.ErrorMessage
				default:
					got = fmt.Sprintf("winner=%T", w)
				}
			}
			got = fmt.Sprintf("%s stored=%d", got, len(msg.GetEvidence()))
			if rep == 0 {
				first = got
			} else if got != first {
				return "ok", "UNSTABLE " + first + " vs " + got
			}
		}
		return "ok", first
	})
}

func genEvidence(run *emit.Run) Op {
	r := run.Rng
	n := 3 + r.Intn(4)
	op := &evidenceOp{}
	for i := 0; i < n; i++ {
		op.Powers = append(op.Powers, []int64{10, 10, 10, 20, 5}[r.Intn(5)])
	}
	k0 := r.Intn(2)
	for _, v := range r.Perm(n) { // everybody reports one kind ...
		if r.Intn(6) != 0 {
			op.Subs = append(op.Subs, [3]int{v, k0, r.Intn(8) / 7})
		}
	}
	for _, v := range r.Perm(n) { // ... and most of them report again, with the other kind
		if r.Intn(4) != 0 {
			op.Subs = append(op.Subs, [3]int{v, 1 - k0, r.Intn(8) / 7})
		}
	}
	if r.Intn(3) == 0 { // and some a third time
		for _, v := range r.Perm(n)[:1+r.Intn(n)] {
			op.Subs = append(op.Subs, [3]int{v, r.Intn(2), 0})
		}
	}
	return Op{Kind: "evidence", Evidence: op}
}

// corpusEvidence: seeded C08-P — four equal validators, three hand in a tx proof and then an error report; and the other way round.
func corpusEvidence() []Op {
	mk := func(first int) Op {
		op := &evidenceOp{Powers: []int64{10, 10, 10, 10}}
		for _, k := range []int{first, 1 - first} {
			for v := 0; v < 3; v++ {
				op.Subs = append(op.Subs, [3]int{v, k, 0})
			}
		}
		return Op{Kind: "evidence", Evidence: op}
	}
	return []Op{mk(0), mk(1)}
}

// emitEvidenceCase: the observed winner against C04's model of AddEvidence + VerifyEvidence under two group orders.
func emitEvidenceCase(run *emit.Run, op *evidenceOp, o stepOut, nontrivial bool) {
	var pw, subs []string
	for i, p := range op.Powers {
		pw = append(pw, emit.Pair(emit.ZI(int64(i)), emit.ZI(p)))
	}
	for _, s := range op.Subs {
		subs = append(subs, emit.Pair(emit.ZI(int64(s[0]%len(op.Powers))), emit.ZI(int64(s[1])), emit.ZI(int64(s[2]))))
	}
	got := emit.Pair(emit.ZI(0), emit.ZI(0), emit.ZI(0))
	var v int64
	if n, _ := fmt.Sscanf(o.Obs, "winner=tx-proof nonce=%d", &v); n == 1 {
		got = emit.Pair(emit.ZI(1), emit.ZI(0), emit.ZI(v))
	} else if n, _ := fmt.Sscanf(o.Obs, "winner=error-report e%d", &v); n == 1 {
		got = emit.Pair(emit.ZI(1), emit.ZI(1), emit.ZI(v))
	}
	run.Count("evidence-tally", strings.SplitN(o.Obs, " ", 2)[0])
	run.Case(fmt.Sprintf("C08.CEvidence %s %s %s", emit.List(pw), emit.List(subs), got), nontrivial, map[string]any{"op": op, "obs": o.Obs})
}
