//go:build verif

package c08

// Generator, corpus and parent-side driver of the full-application twin (app_test.go).

import (
	"bufio"
	"encoding/json"
	"fmt"
	"math/rand"
	"os"
	"os/exec"
	"path/filepath"
	"sort"
	"strings"
	"testing"

	"github.com/palomachain/paloma/v2/verifharness/emit"
)

// ---- generator ----

var decPool = []string{"0", "0.5", "1.0"}
var feePool = []string{"1.0", "1.0", "1.1", "2.0"}

func genPowers(r *rand.Rand, n int) []int64 {
	p := make([]int64, n)
	switch r.Intn(5) {
	case 0: // all equal
		for i := range p {
			p[i] = 10
		}
	case 1: // one large holder, equal small ones: the 25 % jail protection triggers part-way
		p[0] = int64(25 + r.Intn(20))
		rest := (100 - p[0]) / int64(n-1)
		if rest < 1 {
			rest = 1
		}
		for i := 1; i < n; i++ {
			p[i] = rest
		}
	case 2: // few distinct values
		for i := range p {
			p[i] = []int64{5, 10, 20}[r.Intn(3)]
		}
	default:
		for i := range p {
			p[i] = int64(1 + r.Intn(30))
		}
	}
	return p
}

func genAppMsg(r *rand.Rand, nv, nc int, chainInfoOnly bool) appMsg {
	m := appMsg{Val: r.Intn(nv), Chain: r.Intn(nc)}
	k := r.Intn(39)
	if chainInfoOnly {
		k = 4 + r.Intn(6)
	}
	switch {
	case k < 2:
		m.Kind, m.Data = "keepalive", []string{"v9.9.9", "v2.4.0", "v0.0.1", "garbage"}[r.Intn(4)]
	case k < 4:
		m.Kind, m.Data, m.Level = "status", fmt.Sprintf("s%d", r.Intn(100)), int32(r.Intn(3))
		if r.Intn(6) == 0 {
			m.Level = 99
		}
		if r.Intn(8) == 0 {
			m.Data = "bad:paloma1notbech32"
		}
	case k < 8:
		m.Kind = "weights"
		m.W = &[5]string{}
		for i := range m.W {
			m.W[i] = decPool[r.Intn(len(decPool))]
		}
	case k < 9:
		m.Kind, m.Data = "minbal", []string{"0", "55", "1000000000000000000", "x"}[r.Intn(4)]
	case k < 10:
		m.Kind, m.Data = "feemgr", []string{appFeeMgr, "0x0000000000000000000000000000000000000001", "nope"}[r.Intn(3)]
	case k < 12:
		m.Kind, m.Data = "fee", []string{"1.0", "1.1", "2.0", "0", "-1", "1000000", "1.0000006", "1.0000012", "1.0000018"}[r.Intn(9)]
	case k < 13:
		m.Kind, m.Data, m.Drop = "extinfo", []string{"", "b"}[r.Intn(2)], r.Intn(3) == 0
		if r.Intn(2) == 0 {
			m.Trait = []string{"mev"}
		}
	case k < 14:
		m.Kind, m.Data = "secfee", []string{"0.01", "0.3", "bad"}[r.Intn(3)]
	case k < 15:
		m.Kind, m.Data, m.Gas = "pigeonreq", []string{"v1.0.0", "v9.9.9", "v10.0.0"}[r.Intn(3)], uint64(r.Intn(3)*200)
	case k < 18:
		m.Kind = "job"
	case k < 21:
		m.Kind, m.Data, m.Mev = "slc", fmt.Sprintf("p%d", r.Intn(5)), r.Intn(4) == 0
	case k < 24:
		m.Kind, m.Msg, m.Data = "sign", r.Intn(6), []string{"", "", "", "b"}[r.Intn(4)]
		if r.Intn(8) == 0 {
			m.Level = 1
		}
	case k < 26:
		m.Kind, m.Msg, m.Gas = "estimate", r.Intn(6), []uint64{21000, 21000, 50000, 0}[r.Intn(4)]
	case k < 28:
		m.Kind, m.Msg, m.Data, m.Gas = "pubdata", r.Intn(6), fmt.Sprintf("txhash%d", r.Intn(3)), uint64(r.Intn(3))
	case k < 29:
		m.Kind, m.Msg, m.Data = "errdata", r.Intn(6), "boom"
	case k >= 37:
		// one validator, two kinds of change on different chains (snapshot-worthiness finds one of them first)
		m.Kind, m.Mixed, m.Data, m.Trait = "extinfo", true, []string{"b", "c"}[r.Intn(2)], [][]string{{"mev"}, {"x", "y"}}[r.Intn(2)]
	case k >= 36:
		// one tx with signatures for several queues, some refused
		m.Kind, m.Level = "signmulti", int32(r.Intn(4))
	case k >= 34:
		// governance changes the list of gas exempt addresses (read by the ante chain)
		m.Kind, m.Data = "gasexempt", []string{"", "0", "1,2", fmt.Sprint(r.Intn(nv)), "0,1,2,3"}[r.Intn(5)]
	default:
		m.Kind, m.Msg = "evidence", r.Intn(6)
		m.Data = []string{"e1", "e1", "e2", "tx:garbage"}[r.Intn(4)]
	}
	return m
}

func genAppTx(r *rand.Rand, nv, nc int) appTx {
	tx := appTx{}
	sim := r.Intn(5) == 0
	n := 1
	if r.Intn(3) == 0 {
		n = 2 + r.Intn(2)
	}
	for i := 0; i < n; i++ {
		// simulated-only and multi-message transactions lean towards the messages that write chain infos
		tx.Msgs = append(tx.Msgs, genAppMsg(r, nv, nc, (sim || n > 1) && r.Intn(2) == 0))
	}
	if n > 1 && r.Intn(3) == 0 { // a transaction that fails in its last message: everything before is rolled back
		tx.Msgs = append(tx.Msgs, appMsg{Kind: "status", Data: "x", Level: 99})
	}
	tx.SimOnly = sim
	return tx
}

// contentious: a message is scheduled, relayed by val a, and attested by a set holding at least
// 10 % and less than 2/3 of the stake — when it is pruned 300 blocks later the others are jailed.
func contentious(r *rand.Rand, powers []int64, chain int) [][]appTx {
	total := int64(0)
	for _, p := range powers {
		total += p
	}
	perm := r.Perm(len(powers))
	var set []int
	sum := int64(0)
	for _, v := range perm {
		if 3*(sum+powers[v]) >= 2*total {
			continue
		}
		set = append(set, v)
		sum += powers[v]
		if 10*sum >= total && r.Intn(2) == 0 {
			break
		}
	}
	if len(set) == 0 {
		set = []int{perm[0]}
	}
	b1 := []appTx{{Msgs: []appMsg{{Kind: "slc", Chain: chain, Data: "contentious"}}}}
	b2 := []appTx{{Msgs: []appMsg{{Kind: "pubdata", Val: set[0], Chain: chain, Msg: -1, Data: "txhash", Gas: 1}}}}
	for _, v := range set {
		proof := "e1"
		if r.Intn(4) == 0 {
			proof = "e2"
		}
		b2 = append(b2, appTx{Msgs: []appMsg{{Kind: "evidence", Val: v, Chain: chain, Msg: -1, Data: proof}}})
	}
	return [][]appTx{b1, b2}
}

// attested: a message is scheduled, relayed, and evidence with ONE proof arrives from validators holding at least 2/3 of
// the stake: the consensus EndBlocker attests it, the evm keeper reports it to its listeners (metrix writes the relayer's
// history), metrix recomputes the relay metrics at the next height divisible by 10.
func attested(r *rand.Rand, powers []int64, chain int) [][]appTx {
	total := int64(0)
	for _, p := range powers {
		total += p
	}
	var set []int
	sum := int64(0)
	for _, v := range r.Perm(len(powers)) {
		set = append(set, v)
		sum += powers[v]
		if 3*sum >= 2*total && r.Intn(2) == 0 {
			break
		}
	}
	proof := []string{"e1", "ethtx:5"}[r.Intn(2)]
	b1 := []appTx{{Msgs: []appMsg{{Kind: "slc", Chain: chain, Data: "attested"}}}}
	b2 := []appTx{{Msgs: []appMsg{{Kind: "estimate", Val: set[0], Chain: chain, Msg: -1, Gas: 21000}}},
		{Msgs: []appMsg{{Kind: "pubdata", Val: set[0], Chain: chain, Msg: -1, Data: "txhash", Gas: 1}}}}
	for _, v := range set {
		b2 = append(b2, appTx{Msgs: []appMsg{{Kind: "evidence", Val: v, Chain: chain, Msg: -1, Data: proof}}})
	}
	if r.Intn(2) == 0 {
		// round 7: the same validators report AGAIN for the same message with a proof of the other type before the tally (an
		// error report after a tx proof or vice versa): the later report replaces the earlier one, one piece of evidence per
		// validator — otherwise two groups could hold 2/3 and the winner would follow the map order
		other := map[string]string{"e1": "ethtx:5", "ethtx:5": "e1"}[proof]
		for _, v := range set {
			b2 = append(b2, appTx{Msgs: []appMsg{{Kind: "evidence", Val: v, Chain: chain, Msg: -1, Data: other}}})
		}
	}
	return [][]appTx{b1, b2}
}

func genAppScript(run *emit.Run, nBlocks int) *appScript {
	r := run.Rng
	nv := 4 + r.Intn(6)
	if r.Intn(3) == 0 { // few validators: every jail protection (25 % of the active stake, last one standing) is close
		nv = 4 + r.Intn(2)
	}
	g := appGenesis{NChains: 1 + r.Intn(3), Powers: genPowers(r, nv)}
	for i := 0; i < nv; i++ {
		var fs []string
		for c := 0; c < g.NChains; c++ {
			fs = append(fs, feePool[r.Intn(len(feePool))])
		}
		g.Fees = append(g.Fees, fs)
		if r.Intn(3) == 0 {
			g.Traits = append(g.Traits, []string{"mev"})
		} else {
			g.Traits = append(g.Traits, nil)
		}
	}
	for i := range g.Weights {
		g.Weights[i] = decPool[r.Intn(len(decPool))]
	}
	if r.Intn(3) == 0 {
		// round 3: a chain of near-tie relayer fees — 1.0, 1.0000006, 1.0000012, ... and one validator at 2.0 spanning the
		// range — with the address order opposing the score order (the cheapest validator has the largest address): a
		// comparison "equal within a tolerance" is cyclic on it and the pick depends on the map order
		for i := 0; i < nv; i++ {
			for c := 0; c < g.NChains; c++ {
				g.Fees[i][c] = fmt.Sprintf("1.%07d", 6*(nv-1-i))
				if i == 0 {
					g.Fees[i][c] = "2.0"
				}
			}
		}
		g.Weights = [5]string{"1.0", "0", "0", "0", "0"}
	}
	if r.Intn(2) == 0 { // some pigeons never report alive
		g.Dead = r.Perm(nv)[:2+r.Intn(2)]
	}
	sc := &appScript{Genesis: g}
	h, t := int64(2), int64(1_700_000_100)
	add := func(txs []appTx) {
		if r.Intn(6) == 0 { // a proposed block that is never finalised: other transactions, maybe at a periodic-work height
			ph := h
			if r.Intn(2) == 0 {
				ph = (h/50 + 1) * 50
			}
			var ptx []appTx
			for k := 1 + r.Intn(3); k > 0; k-- {
				tx := genAppTx(r, nv, g.NChains)
				tx.SimOnly = false
				ptx = append(ptx, tx)
			}
			sc.Blocks = append(sc.Blocks, appBlock{Height: ph, Time: t, Txs: ptx, Phantom: true})
		}
		sc.Blocks = append(sc.Blocks, appBlock{Height: h, Time: t, Txs: txs, Restart: r.Intn(4) == 0, Quiet: r.Intn(3) == 0})
	}
	slowNext := false
	randTxs := func() []appTx {
		var txs []appTx
		for k := r.Intn(4); k > 0; k-- {
			txs = append(txs, genAppTx(r, nv, g.NChains))
		}
		return txs
	}
	step := func() {
		d := int64(1)
		if r.Intn(5) == 0 { // next multiple of 10: metrix / valset periodic work
			d = 10 - h%10
		}
		h += d
		t += 2*d + int64(r.Intn(5))
	}
	phase1 := nBlocks * 2 / 3
	cont := contentious(r, g.Powers, r.Intn(g.NChains))
	att := attested(r, g.Powers, r.Intn(g.NChains))
	for i := 0; i < phase1; i++ {
		txs := randTxs()
		if i == 1 {
			txs = append(txs, cont[0]...)
		}
		if i == 2 {
			txs = append(cont[1], txs...)
		}
		if i == 3 {
			// a queue of messages in front of the one that will be attested
			for k := 2 + r.Intn(4); k > 0; k-- {
				txs = append(txs, appTx{Msgs: []appMsg{{Kind: "slc", Chain: att[0][0].Msgs[0].Chain, Data: fmt.Sprintf("w%d", k)}}})
			}
			txs = append(txs, att[0]...)
		}
		if i == 4 {
			txs = append(att[1], txs...)
			slowNext = true
		}
		add(txs)
		if slowNext { // the block in which the evidence arrives: the slow twin is slow in one of its end blockers (mostly consensus)
			slowNext = false
			lb := &sc.Blocks[len(sc.Blocks)-1]
			// an episode of 8 slow logger calls somewhere in the blocker (the consensus end blocker makes about 40 calls before it
			// looks at evidence, then about 10 per queued message)
			lb.Slow, lb.SlowAt, lb.SlowFrom = true, 1, 40+8*r.Intn(6)
			if r.Intn(3) == 0 {
				lb.SlowAt, lb.SlowFrom = r.Intn(7), 8*r.Intn(8)
			}
		}
		step()
	}
	// the pruning block: first multiple of 50 more than 300 blocks later
	nh := ((h+301)/50 + 1) * 50
	t += 2 * (nh - h)
	h = nh
	add(randTxs())
	for i := phase1 + 1; i < nBlocks; i++ {
		step()
		add(randTxs())
	}
	return sc
}

// ---- corpus: the two situations in which a node-local difference could matter ----

func corpusAppScripts() []*appScript {
	// (1) a chain-info write on a branch that is discarded (simulation; failed transaction), then a
	// relayer pick that reads the relay weights; one twin restarts in between.  Block times are
	// multiples of 60 so that the top-ranked validator is picked.
	w := func(fee, feat string) *[5]string { return &[5]string{fee, "0", "0", "0", feat} }
	a := &appScript{
		Genesis: appGenesis{Powers: []int64{10, 10, 10}, NChains: 1, Fees: [][]string{{"1.0"}, {"2.0"}, {"2.0"}},
			Traits: [][]string{nil, {"mev"}, nil}, Weights: *w("1.0", "0")},
		Blocks: []appBlock{
			{Height: 2, Time: 1_700_000_100, Txs: []appTx{
				{SimOnly: true, Msgs: []appMsg{{Kind: "weights", W: w("0", "1.0")}}},
				{Msgs: []appMsg{{Kind: "slc", Data: "p"}}}}},
			{Height: 3, Time: 1_700_000_160, Txs: []appTx{
				{Msgs: []appMsg{{Kind: "weights", W: w("0", "1.0")}, {Kind: "status", Data: "x", Level: 99}}}}},
			{Height: 50, Time: 1_700_000_200, Phantom: true, Txs: []appTx{
				{Msgs: []appMsg{{Kind: "extinfo", Val: 2, Data: "b", Trait: []string{"mev"}}}}, {Msgs: []appMsg{{Kind: "fee", Val: 1, Data: "1.0"}}}}},
			{Height: 4, Time: 1_700_000_220, Restart: true, Txs: []appTx{{Msgs: []appMsg{{Kind: "job"}}}}},
			{Height: 5, Time: 1_700_000_280, Txs: []appTx{
				{SimOnly: true, Msgs: []appMsg{{Kind: "minbal", Data: "77"}, {Kind: "feemgr", Data: "0x0000000000000000000000000000000000000001"}}},
				{Msgs: []appMsg{{Kind: "slc", Data: "q", Mev: true}}},
				{Msgs: []appMsg{{Kind: "sign", Val: 0, Msg: -1}, {Kind: "sign", Val: 2, Msg: -1}}},
				{Msgs: []appMsg{{Kind: "sign", Val: 1, Msg: -1, Level: 1}}},
				{Msgs: []appMsg{{Kind: "estimate", Val: 1, Msg: -1, Gas: 21000}}}}},
		},
	}
	// (2) a contentious message pruned while five equal validators did not attest: the jail protection
	// (25 % of the remaining stake) stops the jailing part-way — who survives depends on the order.
	b := &appScript{
		Genesis: appGenesis{Powers: []int64{30, 14, 14, 14, 14, 14}, NChains: 1,
			Fees:   [][]string{{"1.1"}, {"1.1"}, {"1.1"}, {"1.1"}, {"1.1"}, {"1.1"}},
			Traits: [][]string{nil, nil, nil, nil, nil, nil}, Weights: [5]string{"1.0", "1.0", "1.0", "1.0", "1.0"}},
		Blocks: []appBlock{
			{Height: 2, Time: 1_700_000_100, Txs: []appTx{{Msgs: []appMsg{{Kind: "slc", Data: "c"}}}}},
			{Height: 3, Time: 1_700_000_102, Txs: []appTx{
				{Msgs: []appMsg{{Kind: "pubdata", Val: 0, Msg: -1, Data: "txhash", Gas: 1}}},
				{Msgs: []appMsg{{Kind: "evidence", Val: 0, Msg: -1, Data: "tx:serialized"}}}}},
			{Height: 350, Time: 1_700_000_800, Restart: true, Txs: nil},
			{Height: 351, Time: 1_700_000_802, Txs: []appTx{{Msgs: []appMsg{{Kind: "slc", Data: "d"}}}}},
		},
	}
	// (3) two of four equal validators never report alive: valset's EndBlocker jails the inactive ones, and the
	// protection lets only one of them be jailed (10 of 40 passes, 10 of 30 does not).
	c := &appScript{
		Genesis: appGenesis{Powers: []int64{10, 10, 10, 10}, NChains: 1, Fees: [][]string{{"1.0"}, {"1.0"}, {"1.0"}, {"1.0"}},
			Traits: [][]string{nil, nil, nil, nil}, Weights: [5]string{"1.0", "0", "0", "0", "0"}, Dead: []int{1, 3, 2}},
		Blocks: []appBlock{
			{Height: 2, Time: 1_700_000_100, Txs: []appTx{{Msgs: []appMsg{{Kind: "keepalive", Val: 0, Data: "v9.9.9"}}}}},
			{Height: 60, Time: 1_700_000_220, Txs: []appTx{{Msgs: []appMsg{{Kind: "slc", Data: "p"}}}}},
			{Height: 100, Time: 1_700_000_300, Restart: true, Txs: []appTx{{Msgs: []appMsg{{Kind: "job"}}}}},
		},
	}
	// (4) seeded C08-D: relayer fees 2.0 / 1.0000012 / 1.0000006 / 1.0 (the cheapest validator has the largest address),
	// only the fee counts: a chain of near-ties.  Several picks at block times with different residues.
	d := &appScript{
		Genesis: appGenesis{Powers: []int64{10, 10, 10, 10}, NChains: 1, Fees: [][]string{{"2.0"}, {"1.0000012"}, {"1.0000006"}, {"1.0"}},
			Traits: [][]string{nil, nil, nil, nil}, Weights: [5]string{"1.0", "0", "0", "0", "0"}},
		Blocks: []appBlock{
			{Height: 2, Time: 1_700_000_100, Txs: []appTx{{Msgs: []appMsg{{Kind: "slc", Data: "p"}}}, {Msgs: []appMsg{{Kind: "job"}}}}},
			{Height: 3, Time: 1_700_000_101, Txs: []appTx{{Msgs: []appMsg{{Kind: "slc", Data: "q"}}}, {Msgs: []appMsg{{Kind: "slc", Data: "r"}}}}},
			{Height: 4, Time: 1_700_000_102, Restart: true, Txs: []appTx{{Msgs: []appMsg{{Kind: "job"}}}, {Msgs: []appMsg{{Kind: "slc", Data: "s"}}}}},
			{Height: 5, Time: 1_700_000_103, Txs: []appTx{{Msgs: []appMsg{{Kind: "slc", Data: "t"}}}}},
		},
	}
	// (5) seeded C08-E: a relayed message is attested at height 3 (evidence from 3 of 4 equal validators): metrix writes
	// the relayer's history; the relay metrics are recomputed at height 10.  A node restarted in between must recompute
	// the same.  (6) seeded C08-F: status updates of every level in one block.
	e := &appScript{
		Genesis: appGenesis{Powers: []int64{10, 10, 10, 10}, NChains: 1, Fees: [][]string{{"1.0"}, {"2.0"}, {"2.0"}, {"2.0"}},
			Traits: [][]string{nil, nil, nil, nil}, Weights: [5]string{"1.0", "0", "0", "0", "0"}},
		Blocks: []appBlock{
			{Height: 2, Time: 1_700_000_100, Txs: []appTx{{Msgs: []appMsg{{Kind: "slc", Data: "p"}}}}},
			{Height: 3, Time: 1_700_000_102, Txs: []appTx{
				{Msgs: []appMsg{{Kind: "estimate", Val: 0, Msg: -1, Gas: 21000}}},
				{Msgs: []appMsg{{Kind: "pubdata", Val: 0, Msg: -1, Data: "txhash", Gas: 1}}},
				{Msgs: []appMsg{{Kind: "evidence", Val: 0, Msg: -1, Data: "e1"}}},
				{Msgs: []appMsg{{Kind: "evidence", Val: 1, Msg: -1, Data: "e1"}}},
				{Msgs: []appMsg{{Kind: "evidence", Val: 2, Msg: -1, Data: "e1"}}}}},
			{Height: 4, Time: 1_700_000_104, Restart: true, Txs: []appTx{
				{Msgs: []appMsg{{Kind: "status", Data: "dbg", Level: 0}}}, {Msgs: []appMsg{{Kind: "status", Data: "inf", Level: 1}}},
				{Msgs: []appMsg{{Kind: "status", Data: "boom", Level: 2}}}}},
			{Height: 10, Time: 1_700_000_116, Txs: nil},
			{Height: 11, Time: 1_700_000_118, Txs: []appTx{{Msgs: []appMsg{{Kind: "slc", Data: "q"}}}}},
			{Height: 20, Time: 1_700_000_136, Restart: true, Txs: nil},
		},
	}
	// (7) seeded C08-G: five messages queued, evidence from 3 of 4 validators for the NEWEST one; the slow twin is slow (8 logger
	// calls of 150 ms, from the 48th call on: the attestation round starts at about the 41st and makes many more) while it runs
	// the consensus end blocker of that block.  What gets attested in a block must not depend on how long it took.
	slcs := func(n int) []appTx {
		var txs []appTx
		for k := 0; k < n; k++ {
			txs = append(txs, appTx{Msgs: []appMsg{{Kind: "slc", Data: fmt.Sprintf("m%d", k)}}})
		}
		return txs
	}
	g := &appScript{
		Genesis: appGenesis{Powers: []int64{10, 10, 10, 10}, NChains: 1, Fees: [][]string{{"1.0"}, {"2.0"}, {"2.0"}, {"2.0"}},
			Traits: [][]string{nil, nil, nil, nil}, Weights: [5]string{"1.0", "0", "0", "0", "0"}},
		Blocks: []appBlock{
			{Height: 2, Time: 1_700_000_100, Txs: slcs(5)},
			{Height: 3, Time: 1_700_000_104, Slow: true, SlowAt: 1, SlowFrom: 48, Txs: []appTx{
				{Msgs: []appMsg{{Kind: "estimate", Val: 0, Msg: -1, Gas: 21000}}},
				{Msgs: []appMsg{{Kind: "pubdata", Val: 0, Msg: -1, Data: "txhash", Gas: 1}}},
				{Msgs: []appMsg{{Kind: "evidence", Val: 0, Msg: -1, Data: "e1"}}},
				{Msgs: []appMsg{{Kind: "evidence", Val: 1, Msg: -1, Data: "e1"}}},
				{Msgs: []appMsg{{Kind: "evidence", Val: 2, Msg: -1, Data: "e1"}}}}},
			{Height: 4, Time: 1_700_000_108, Txs: nil},
		},
	}
	// (8) seeded C08-H: a transaction, then governance makes validator 0's account gas exempt, a restart, and transactions of
	// validator 0 and 1: gas used (0 for the exempt payer) must be the same on the node that kept running and the restarted one;
	// then the exemption is withdrawn again.
	st := func(v int, d string) appTx { return appTx{Msgs: []appMsg{{Kind: "status", Val: v, Data: d, Level: 1}}} }
	h := &appScript{
		Genesis: appGenesis{Powers: []int64{10, 10, 10}, NChains: 1, Fees: [][]string{{"1.0"}, {"2.0"}, {"2.0"}},
			Traits: [][]string{nil, nil, nil}, Weights: [5]string{"1.0", "0", "0", "0", "0"}},
		Blocks: []appBlock{
			{Height: 2, Time: 1_700_000_100, Txs: []appTx{st(0, "a"), {Msgs: []appMsg{{Kind: "keepalive", Val: 1, Data: "v9.9.9"}}}}},
			{Height: 3, Time: 1_700_000_102, Txs: []appTx{{Msgs: []appMsg{{Kind: "gasexempt", Data: "0"}}}}},
			{Height: 4, Time: 1_700_000_104, Restart: true, Txs: []appTx{st(0, "b"), st(1, "c"), {Msgs: []appMsg{{Kind: "keepalive", Val: 0, Data: "v9.9.9"}}}}},
			{Height: 5, Time: 1_700_000_106, Txs: []appTx{{Msgs: []appMsg{{Kind: "gasexempt", Data: ""}}}, st(0, "d")}},
			{Height: 6, Time: 1_700_000_108, Restart: true, Txs: []appTx{st(0, "e")}},
		},
	}
	// (9) seeded C08-K: one MsgAddMessagesSignatures for three queues — a good signature, a corrupted one, an unknown message id —
	// from a sender that is not gas exempt: the error and the gas of the failed tx must be the same in every execution.
	// (10) seeded C08-M: validator 1 rotates its key on chain 0 and only changes traits on chain 1; the valset end blocker at
	// height 50 builds the next snapshot: whatever it reports about WHY the snapshot is new must be the same in every execution.
	two := appGenesis{Powers: []int64{10, 10, 10, 10}, NChains: 2, Fees: [][]string{{"1.0", "1.0"}, {"2.0", "2.0"}, {"2.0", "2.0"}, {"2.0", "2.0"}},
		Traits: [][]string{nil, nil, nil, nil}, Weights: [5]string{"1.0", "0", "0", "0", "0"}}
	k := &appScript{Genesis: two, Blocks: []appBlock{
		{Height: 2, Time: 1_700_000_100, Txs: []appTx{{Msgs: []appMsg{{Kind: "slc", Chain: 0, Data: "p"}}}, {Msgs: []appMsg{{Kind: "slc", Chain: 1, Data: "q"}}}}},
		{Height: 3, Time: 1_700_000_102, Txs: []appTx{{Msgs: []appMsg{{Kind: "signmulti", Val: 1, Chain: 0, Level: 3}}}, {Msgs: []appMsg{{Kind: "signmulti", Val: 2, Chain: 1, Level: 3}}}}},
		{Height: 4, Time: 1_700_000_104, Txs: []appTx{{Msgs: []appMsg{{Kind: "signmulti", Val: 3, Chain: 0, Level: 1}}}, {Msgs: []appMsg{{Kind: "signmulti", Val: 1, Chain: 1, Level: 2}}},
			{Msgs: []appMsg{{Kind: "signmulti", Val: 2, Chain: 0, Level: 0}}}}},
	}}
	m := &appScript{Genesis: two, Blocks: []appBlock{
		{Height: 2, Time: 1_700_000_100, Txs: []appTx{{Msgs: []appMsg{{Kind: "extinfo", Val: 1, Chain: 0, Mixed: true, Data: "b", Trait: []string{"mev"}}}}}},
		{Height: 50, Time: 1_700_000_200, Txs: nil},
		{Height: 51, Time: 1_700_000_202, Txs: []appTx{{Msgs: []appMsg{{Kind: "extinfo", Val: 2, Chain: 1, Mixed: true, Data: "c", Trait: []string{"x", "y"}}}}}},
		{Height: 100, Time: 1_700_000_300, Restart: true, Txs: nil},
	}}
	// (11) seeded C08-P: three of four equal validators hand in a tx proof for a relayed message and then an error report for
	// the same message, and in a second message the other way round, all before the end blocker tallies.
	evs := func(msg int, first, second string) []appTx {
		var txs []appTx
		for _, d := range []string{first, second} {
			for v := 0; v < 3; v++ {
				txs = append(txs, appTx{Msgs: []appMsg{{Kind: "evidence", Val: v, Msg: msg, Data: d}}})
			}
		}
		return txs
	}
	p := &appScript{
		Genesis: appGenesis{Powers: []int64{10, 10, 10, 10}, NChains: 1, Fees: [][]string{{"1.0"}, {"2.0"}, {"2.0"}, {"2.0"}},
			Traits: [][]string{nil, nil, nil, nil}, Weights: [5]string{"1.0", "0", "0", "0", "0"}},
		Blocks: []appBlock{
			{Height: 2, Time: 1_700_000_100, Txs: []appTx{{Msgs: []appMsg{{Kind: "slc", Data: "p"}}}, {Msgs: []appMsg{{Kind: "slc", Data: "q"}}}}},
			{Height: 3, Time: 1_700_000_102, Txs: append(append([]appTx{
				{Msgs: []appMsg{{Kind: "estimate", Val: 0, Msg: -1, Gas: 21000}}}, {Msgs: []appMsg{{Kind: "estimate", Val: 0, Msg: -2, Gas: 21000}}},
				{Msgs: []appMsg{{Kind: "pubdata", Val: 0, Msg: -1, Data: "txhash", Gas: 1}}}, {Msgs: []appMsg{{Kind: "pubdata", Val: 0, Msg: -2, Data: "txhash2", Gas: 1}}}},
				evs(-1, "ethtx:7", "e1")...), evs(-2, "e1", "ethtx:8")...)},
			{Height: 4, Time: 1_700_000_104, Txs: nil},
			{Height: 10, Time: 1_700_000_116, Restart: true, Txs: nil},
		},
	}
	return []*appScript{a, b, c, d, e, g, h, k, m, p}
}

// ---- parent side ----

func runAppChild(dir string, sc *appScript, e twinEnv, tag string) ([]blockOut, error) {
	sp := filepath.Join(dir, "app_"+tag+".json")
	op := filepath.Join(dir, "appout_"+tag+"_"+e.Name+".jsonl")
	js, _ := json.Marshal(sc)
	if err := os.WriteFile(sp, js, 0o644); err != nil {
		return nil, err
	}
	cmd := exec.Command(os.Args[0], "-test.run", "^TestCorr$", "-test.count=1")
	var env []string
	for _, kv := range os.Environ() {
		if isEnvName(kv) || strings.HasPrefix(kv, "TZ=") || strings.HasPrefix(kv, "GOMAXPROCS=") || strings.HasPrefix(kv, "C08_") {
			continue
		}
		env = append(env, kv)
	}
	env = append(env, "C08_CHILD="+sp, "C08_CHILD_MODE=app", "C08_CHILD_OUT="+op, fmt.Sprintf("GOMAXPROCS=%d", e.GoMaxProcs), "TZ="+e.TZ)
	if e.Extra {
		env = append(env, "C08_EXTRA=1")
	}
	if e.RestartAll {
		env = append(env, "C08_RESTART=all")
	} else if e.Restart {
		env = append(env, "C08_RESTART=1")
	}
	if e.Slow {
		env = append(env, "C08_SLOW=1")
	}
	env = append(env, flagEnv(e)...)
	cmd.Env = env
	out, err := cmd.CombinedOutput()
	if err != nil {
		tail := string(out)
		if len(tail) > 3000 {
			tail = tail[len(tail)-3000:]
		}
		return nil, fmt.Errorf("app child %s: %v\n%s", e.Name, err, tail)
	}
	f, err := os.Open(op)
	if err != nil {
		return nil, err
	}
	defer f.Close()
	var res []blockOut
	s := bufio.NewScanner(f)
	s.Buffer(make([]byte, 1<<20), 1<<26)
	for s.Scan() {
		var b blockOut
		if err := json.Unmarshal(s.Bytes(), &b); err != nil {
			return nil, err
		}
		res = append(res, b)
	}
	if len(res) != len(sc.Blocks) {
		return nil, fmt.Errorf("app child %s: %d outputs for %d blocks", e.Name, len(res), len(sc.Blocks))
	}
	return res, nil
}

func appChildMain(t *testing.T) {
	raw, err := os.ReadFile(os.Getenv("C08_CHILD"))
	if err != nil {
		t.Fatal(err)
	}
	var sc appScript
	if err := json.Unmarshal(raw, &sc); err != nil {
		t.Fatal(err)
	}
	w := newAppWorld(t, &sc)
	extra, restart := os.Getenv("C08_EXTRA") != "", os.Getenv("C08_RESTART") != ""
	f, err := os.Create(os.Getenv("C08_CHILD_OUT"))
	if err != nil {
		t.Fatal(err)
	}
	defer f.Close()
	bw := bufio.NewWriter(f)
	defer bw.Flush()
	for i, b := range sc.Blocks {
		js, _ := json.Marshal(w.runBlock(i, b, extra, restart))
		bw.Write(js)
		bw.WriteByte('\n')
	}
}

// divergingField names what differs between two block reports (stable part of the violation id).
func divergingField(a, b blockOut) string {
	for i := range a.Tx {
		if i >= len(b.Tx) || a.Tx[i] != b.Tx[i] {
			return "tx-result"
		}
	}
	switch {
	case len(a.Tx) != len(b.Tx):
		return "tx-result"
	case a.Digest != b.Digest:
		return "state"
	case a.Events != b.Events:
		return "events"
	case a.Query != b.Query:
		return "query-answers"
	}
	return "height"
}

func truncated(sc *appScript, upto int) *appScript {
	c := &appScript{Genesis: sc.Genesis}
	for i := 0; i <= upto && i < len(sc.Blocks); i++ {
		b := sc.Blocks[i]
		b.Txs = append([]appTx{}, b.Txs...)
		c.Blocks = append(c.Blocks, b)
	}
	return c
}

// shrinkApp: drop transactions of earlier blocks as long as `fails` still holds (bounded effort;
// a failure that depends on map order may survive fewer removals than possible — the result
// always failed at least once).
func shrinkApp(sc *appScript, fails func(*appScript) bool, budget int) *appScript {
	cur := sc
	for bi := 0; bi < len(cur.Blocks) && budget > 0; bi++ {
		for ti := len(cur.Blocks[bi].Txs) - 1; ti >= 0 && budget > 0; ti-- {
			cand := truncated(cur, len(cur.Blocks))
			cand.Blocks[bi].Txs = append(append([]appTx{}, cand.Blocks[bi].Txs[:ti]...), cand.Blocks[bi].Txs[ti+1:]...)
			budget--
			if fails(cand) {
				cur = cand
			}
		}
	}
	return cur
}

// checkApp runs one block history under every environment, reports divergences, returns the streams.
func checkApp(t *testing.T, run *emit.Run, dir, tag string, sc *appScript, envs []twinEnv) [][]blockOut {
	var outs [][]blockOut
	for _, e := range envs {
		o, err := runAppChild(dir, sc, e, tag)
		if err != nil {
			t.Fatalf("app twin run failed: %v", err)
		}
		outs = append(outs, o)
	}
	reported := false
	// node-local: repeated executions on branches of one state disagree
	for k, e := range envs {
		for d, b := range outs[k] {
			if b.Unstable == "" || reported {
				continue
			}
			kind := "endblock"
			if strings.HasPrefix(b.Unstable, "tx:") {
				kind = "tx"
			}
			e := e
			n := 0
			min := shrinkApp(truncated(sc, d), func(c *appScript) bool {
				n++
				o, err := runAppChild(dir, c, e, fmt.Sprintf("%s_shr%d", tag, n))
				return err == nil && len(o) > 0 && o[len(o)-1].Unstable != ""
			}, 10)
			run.Violate("C08:unstable-within-process:"+kind, fmt.Sprintf("the same block executed several times on branches of the same state does not give the same state and event sequence (block %d, height %d, environment %s): %s",
				d, b.Height, e.Name, b.Unstable), map[string]any{"history": min, "env": e, "diverges_at_block": len(min.Blocks) - 1, "report": b.Unstable})
			reported = true
		}
	}
	// twin divergence: one report for the first diverging twin that did extra node-local work (simulations, phantom
	// blocks, queries), one for the first diverging twin that did none but was RESTARTED — different causes
	reportedClass := map[bool]bool{}
	for k := 1; k < len(outs); k++ {
		if reportedClass[envs[k].Extra] || (reported && envs[k].Extra) {
			continue
		}
		for d := range outs[0] {
			if outs[0][d].key() == outs[k][d].key() {
				continue
			}
			field := divergingField(outs[0][d], outs[k][d])
			pair := []twinEnv{envs[0], envs[k]}
			n := 0
			min := shrinkApp(truncated(sc, d), func(c *appScript) bool {
				n++
				a, err1 := runAppChild(dir, c, pair[0], fmt.Sprintf("%s_shr%d", tag, n))
				b, err2 := runAppChild(dir, c, pair[1], fmt.Sprintf("%s_shr%d", tag, n))
				if err1 != nil || err2 != nil {
					return false
				}
				l := len(a) - 1
				return a[l].key() != b[l].key()
			}, 10)
			run.Violate("C08:app-twin-divergence:"+field, fmt.Sprintf("same block history, different %s at block %d (height %d) between environments %s and %s: %v vs %v",
				field, d, outs[0][d].Height, envs[0].Name, envs[k].Name, outs[0][d], outs[k][d]),
				map[string]any{"history": min, "envs": pair, "diverges_at_block": len(min.Blocks) - 1, "outputs_of_unshrunk_history": []blockOut{outs[0][d], outs[k][d]}})
			reportedClass[envs[k].Extra] = true
			break
		}
	}
	return outs
}

// emitAppCases: histograms + one Coq case per observed prune (jailing order model, Sys/Ambient.v).
func emitAppCases(run *emit.Run, sc *appScript, outs [][]blockOut, envs []twinEnv) {
	failed, changed := false, false
	for i, b := range sc.Blocks {
		if b.Phantom {
			run.Count("app-blocks", "phantom")
			continue
		}
		for ti, tx := range b.Txs {
			for _, m := range tx.Msgs {
				run.Count("app-msgs", m.Kind)
			}
			if tx.SimOnly {
				run.Count("app-tx", "simulated-only")
				continue
			}
			res := outs[0][i].Tx
			// begin:/end: entries may precede / follow; transaction results are aligned from the first tx
			off := 0
			if len(res) > 0 && strings.HasPrefix(res[0], "begin:") {
				off = 1
			}
			if ti+off < len(res) {
				if strings.HasPrefix(res[ti+off], "ok") {
					run.Count("app-tx", "ok")
				} else {
					run.Count("app-tx", "failed")
					failed = true
				}
			}
		}
		if b.Restart {
			run.Count("app-blocks", "restart-boundary")
		}
		if i > 0 && outs[0][i].Digest != outs[0][i-1].Digest {
			changed = true
		}
		run.Count("app-blocks", "total")
	}
	nontrivial := failed && changed
	for k, e := range envs {
		if !e.Extra {
			continue
		}
		for _, b := range outs[k] {
			if b.Jail == nil {
				continue
			}
			var vals, rounds, after []string
			for _, v := range b.Jail.Vals {
				vals = append(vals, emit.Pair(emit.ZI(v[0]), emit.ZI(v[1]), emit.Bool(v[2] == 1)))
			}
			for _, rd := range b.Jail.Rounds {
				rounds = append(rounds, intsCoq(rd))
			}
			sort.Ints(b.Jail.After)
			for _, a := range b.Jail.After {
				after = append(after, emit.ZI(int64(a)))
			}
			njailed := 0
			for _, v := range b.Jail.Vals {
				if v[2] == 1 {
					njailed++
				}
			}
			run.Count("prune-rounds", fmt.Sprint(len(b.Jail.Rounds)))
			run.Count("prune-newly-jailed", fmt.Sprint(len(b.Jail.After)-njailed))
			run.Case(fmt.Sprintf("C08.CJailMissing %s %s %s", emit.List(vals), emit.List(rounds), emit.List(after)), nontrivial || len(b.Jail.Rounds) > 0, nil)
		}
		break
	}
}
