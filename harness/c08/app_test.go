//go:build verif

package c08

// Full-application twin (round 2).  One scripted BLOCK history — transactions of many modules
// through the real msg servers / governance handlers, then every paloma module's BeginBlock and
// EndBlock in app.go order — is executed on tests/integration/helper.InitFixture (all keepers of
// the application on one IAVL multistore) in several fresh OS processes.  The twins differ in
// what is NOT chain history:
//
//   - process environment, TZ, GOMAXPROCS, map hash seeds (as in the keeper-level twin);
//   - Extra: before every transaction the node answers queries and SIMULATES the transaction on a
//     discarded CacheContext; it also simulates transactions that never make it into a block
//     (SimOnly); before every EndBlock it executes Begin/EndBlock a few times on discarded
//     branches of the same state (those executions must agree with each other and with the
//     committed one on state AND event sequence: oracle unstable-within-process);
//   - Restart: at marked block boundaries the node is "restarted": a completely new application
//     (new keepers, new in-memory state) is constructed and every KV store of the old node is
//     copied into it.
//
// After every block each twin prints: result (+ projected observable) of every transaction,
// digest of the block's event sequence, digest of every KV store, digest of a fixed set of
// keeper-level query answers.  The streams must be identical.

import (
	"context"
	"crypto/ecdsa"
	"crypto/sha256"
	"encoding/binary"
	"encoding/hex"
	"fmt"
	"math/big"
	"os"
	"sort"
	"strings"
	"testing"
	"time"

	"cosmossdk.io/core/header"
	sdkmath "cosmossdk.io/math"
	storetypes "cosmossdk.io/store/types"
	"github.com/cometbft/cometbft/crypto/ed25519"
	codectypes "github.com/cosmos/cosmos-sdk/codec/types"
	cryptocodec "github.com/cosmos/cosmos-sdk/crypto/codec"
	sdk "github.com/cosmos/cosmos-sdk/types"
	govv1beta1 "github.com/cosmos/cosmos-sdk/x/gov/types/v1beta1"
	slashingtypes "github.com/cosmos/cosmos-sdk/x/slashing/types"
	stakingtypes "github.com/cosmos/cosmos-sdk/x/staking/types"
	ethcommon "github.com/ethereum/go-ethereum/common"
	ethtypes "github.com/ethereum/go-ethereum/core/types"
	"github.com/ethereum/go-ethereum/crypto"
	"github.com/onsi/ginkgo/v2"
	"github.com/palomachain/paloma/v2/tests/integration/helper"
	"github.com/palomachain/paloma/v2/util/libcons"
	"github.com/palomachain/paloma/v2/x/consensus"
	consensuskeeper "github.com/palomachain/paloma/v2/x/consensus/keeper"
	consensustypes "github.com/palomachain/paloma/v2/x/consensus/types"
	"github.com/palomachain/paloma/v2/x/evm"
	evmkeeper "github.com/palomachain/paloma/v2/x/evm/keeper"
	evmtypes "github.com/palomachain/paloma/v2/x/evm/types"
	"github.com/palomachain/paloma/v2/x/metrix"
	"github.com/palomachain/paloma/v2/x/paloma"
	palomakeeper "github.com/palomachain/paloma/v2/x/paloma/keeper"
	palomatypes "github.com/palomachain/paloma/v2/x/paloma/types"
	"github.com/palomachain/paloma/v2/x/scheduler"
	schedulerkeeper "github.com/palomachain/paloma/v2/x/scheduler/keeper"
	schedulertypes "github.com/palomachain/paloma/v2/x/scheduler/types"
	"github.com/palomachain/paloma/v2/x/treasury"
	treasurykeeper "github.com/palomachain/paloma/v2/x/treasury/keeper"
	treasurytypes "github.com/palomachain/paloma/v2/x/treasury/types"
	"github.com/palomachain/paloma/v2/x/valset"
	valsetkeeper "github.com/palomachain/paloma/v2/x/valset/keeper"
	valsettypes "github.com/palomachain/paloma/v2/x/valset/types"
)

// ---- script ----

// appMsg is one message of a transaction.  Everything is in the script; the children draw nothing.
type appMsg struct {
	Kind  string    `json:"kind"`
	Val   int       `json:"val,omitempty"`   // acting validator (creator / subject)
	Chain int       `json:"chain,omitempty"` // chain index
	Msg   int       `json:"msg,omitempty"`   // target consensus message: index into the chain's queued messages (mod their number)
	Data  string    `json:"data,omitempty"`  // free text: status text, pigeon version, fee, balance, proof, address salt ...
	Level int32     `json:"level,omitempty"`
	W     *[5]string `json:"w,omitempty"`
	Mev   bool      `json:"mev,omitempty"`
	Gas   uint64    `json:"gas,omitempty"`
	Trait []string  `json:"trait,omitempty"`
	Drop  bool      `json:"drop,omitempty"` // extinfo: leave this chain out
	// Mixed (extinfo): only chain `Chain` gets the new address (key salt Data) and keeps the genesis traits; the other
	// chains keep the genesis address and get the traits Trait — two different kinds of change of one validator
	Mixed bool `json:"mixed,omitempty"`
}

type appTx struct {
	Msgs []appMsg `json:"msgs"`
	// SimOnly: a transaction some client asked a node to simulate; it is never in a block.  Only
	// twins with Extra execute it, on a discarded branch.
	SimOnly bool `json:"sim_only,omitempty"`
}

type appBlock struct {
	Height  int64   `json:"height"`
	Time    int64   `json:"time"`
	Txs     []appTx `json:"txs"`
	Restart bool    `json:"restart,omitempty"` // twins with Restart are restarted before this block
	// Phantom: a block that was proposed and executed by some nodes (ProcessProposal / optimistic execution) but
	// never finalised.  Only twins with Extra execute it — transactions, begin and end blockers — on a discarded
	// branch of their state.  It is not part of the chain history.
	Phantom bool `json:"phantom,omitempty"`
	// Quiet: twins with Extra answer no queries during this block (queries re-read the store and could repair
	// a stale in-memory object before it is observed); they still simulate.
	Quiet bool `json:"quiet,omitempty"`
	// Slow: in the twin that plays a slow node, the SlowAt-th end blocker of this block runs with a logger that sleeps
	// on every call (ante_test.go).
	Slow     bool `json:"slow,omitempty"`
	SlowAt   int  `json:"slow_at,omitempty"`
	SlowFrom int  `json:"slow_from,omitempty"` // the episode of slowness starts with this logger call of the blocker
}

type appGenesis struct {
	Powers  []int64    `json:"powers"`
	Fees    [][]string `json:"fees"`   // per validator, per chain: multiplicator
	Traits  [][]string `json:"traits"` // per validator
	NChains int        `json:"n_chains"`
	Weights [5]string  `json:"weights"`
	Dead    []int      `json:"dead,omitempty"` // validators whose pigeon never reported alive: jailed by valset's EndBlocker (height > 50, every 10th)
}

type appScript struct {
	Genesis appGenesis `json:"genesis"`
	Blocks  []appBlock `json:"blocks"`
}

// blockOut is what a twin reports after a block.  Compared field by field across twins.
type blockOut struct {
	I      int      `json:"i"`
	Height int64    `json:"height"`
	Tx     []string `json:"tx"`     // per transaction of the block (SimOnly ones: "-")
	Events string   `json:"events"` // digest of the committed event sequence of the block
	Digest string   `json:"digest"` // digest of all KV stores after the block
	Query  string   `json:"query"`  // digest of keeper-level query answers after the block
	Jailed string   `json:"jailed"` // validator numbers jailed after the block (readable part of the state)
	// node-local findings (empty when fine); not compared, reported
	Unstable string   `json:"unstable,omitempty"`
	Jail     *jailObs `json:"jail,omitempty"` // Extra twins, prune heights: PruneOldMessages observed on a discarded branch
}

func (b blockOut) String() string {
	return fmt.Sprintf("{tx=%q events=%s state=%s queries=%s jailed=[%s]}", b.Tx, b.Events, b.Digest, b.Query, b.Jailed)
}

func (b blockOut) key() string {
	return fmt.Sprintf("%d|%d|%s|%s|%s|%s|%s", b.I, b.Height, strings.Join(b.Tx, "\x1f"), b.Events, b.Digest, b.Query, b.Jailed)
}

// jailObs: the jailing part of the prune job, observed on a discarded branch.
type jailObs struct {
	Vals   [][3]int64 `json:"vals"`   // per validator index: [index, consensus power, 1 if jailed] before
	Rounds [][]int    `json:"rounds"` // per stale contentious message that passes the gate: validators without evidence, in snapshot order
	After  []int      `json:"after"`  // indices jailed afterwards (sorted)
}

var appChains = []string{"eth-main", "bnb-main", "arb-main"}

const appFeeMgr = "0xb794f5ea0ba39494ce839613fffba74279579268"

// ---- world ----

type appWorld struct {
	t    *testing.T
	f    *helper.Fixture
	sc   *appScript
	vals []sdk.ValAddress

	palomaMS   palomatypes.MsgServer
	valsetMS   valsettypes.MsgServer
	treasuryMS treasurytypes.MsgServer
	consMS     consensustypes.MsgServer
	schedMS    schedulertypes.MsgServer
	evmGov     govv1beta1.Handler
	valsetGov  govv1beta1.Handler
	treasGov   govv1beta1.Handler

	begin []func(context.Context) error
	end   []func(context.Context) error

	keys []storeRef // persistent KV stores, by name
	ante sdk.AnteHandler // the paloma ante decorators; constructed with the application (a restart makes a new chain)
}

func newAppWorld(t *testing.T, sc *appScript) *appWorld {
	w := &appWorld{t: t, sc: sc}
	w.f = helper.InitFixture(ginkgo.GinkgoT())
	w.bind()
	w.genesis()
	return w
}

// bind (re)creates everything that holds a keeper: msg servers, proposal handlers, app modules.
func (w *appWorld) bind() {
	f := w.f
	// app.go: the metrix keeper listens to "consensus message attested" of the consensus keeper (pruning punishes a
	// relayer that did not deliver) and of the evm keeper (attestation of a relayed message) — the relay HISTORY, from
	// which metrix recomputes the relay metrics every 10th block.  The fixture does not wire this; done here BEFORE
	// anything copies the keepers (msg servers, app modules).  The evm keeper that attests is the one in the registry.
	f.ConsensusKeeper.AddMessageConsensusAttestedListener(&f.MetrixKeeper)
	for _, r := range f.ConsensusKeeper.VerifC07Registered() {
		if ek, ok := r.(*evmkeeper.Keeper); ok {
			ek.AddMessageConsensusAttestedListener(&f.MetrixKeeper)
		}
	}
	w.palomaMS = palomakeeper.NewMsgServerImpl(f.PalomaKeeper)
	w.valsetMS = valsetkeeper.NewMsgServerImpl(f.ValsetKeeper)
	w.treasuryMS = treasurykeeper.NewMsgServerImpl(f.TreasuryKeeper)
	w.consMS = consensuskeeper.NewMsgServerImpl(f.ConsensusKeeper)
	w.schedMS = schedulerkeeper.NewMsgServerImpl(f.SchedulerKeeper)
	w.evmGov = evm.NewReferenceChainReferenceIDProposalHandler(f.EvmKeeper)
	w.valsetGov = valset.NewValsetProposalHandler(f.ValsetKeeper)
	w.treasGov = treasury.NewFeeProposalHandler(f.TreasuryKeeper)
	schedMod := scheduler.NewAppModule(f.Codec, f.SchedulerKeeper, nil, nil)
	consMod := consensus.NewAppModule(f.Codec, f.ConsensusKeeper, nil, nil)
	valsetMod := valset.NewAppModule(f.Codec, f.ValsetKeeper, nil, nil)
	palomaMod := paloma.NewAppModule(f.Codec, f.PalomaKeeper, nil, nil)
	evmMod := evm.NewAppModule(f.Codec, f.EvmKeeper, nil, nil)
	treasMod := treasury.NewAppModule(f.Codec, f.TreasuryKeeper, nil, nil)
	metrixMod := metrix.NewAppModule(f.Codec, f.MetrixKeeper)
	// app.go SetOrderBeginBlockers / SetOrderEndBlockers restricted to the paloma modules the fixture has
	// (skyway is not exported by the fixture; the SDK modules' blockers need funded pools)
	w.begin = []func(context.Context) error{schedMod.BeginBlock, consMod.BeginBlock, valsetMod.BeginBlock, palomaMod.BeginBlock, evmMod.BeginBlock, treasMod.BeginBlock, metrixMod.BeginBlock}
	w.end = []func(context.Context) error{schedMod.EndBlock, consMod.EndBlock, valsetMod.EndBlock, palomaMod.EndBlock, evmMod.EndBlock, treasMod.EndBlock, metrixMod.EndBlock}
	// persistent stores
	w.keys = nil
	ms, ok := f.Ctx.MultiStore().(interface {
		StoreKeysByName() map[string]storetypes.StoreKey
	})
	if !ok {
		w.t.Fatalf("fixture multistore does not list its keys")
	}
	byName := ms.StoreKeysByName()
	names := make([]string, 0, len(byName))
	for n, k := range byName {
		if _, isKV := k.(*storetypes.KVStoreKey); isKV {
			names = append(names, n)
		}
	}
	sort.Strings(names)
	for _, n := range names {
		w.keys = append(w.keys, storeRef{name: n, key: byName[n]})
	}
	w.ante = w.buildAnte()
}

func (w *appWorld) at(height, unix int64) sdk.Context {
	tm := time.Unix(unix, 0).UTC()
	return w.f.Ctx.WithHeaderInfo(header.Info{Height: height, Time: tm}).WithBlockHeight(height).WithBlockTime(tm).
		WithIsCheckTx(false).WithEventManager(sdk.NewEventManager())
}

func (w *appWorld) acc(i int) string { return sdk.AccAddress(w.vals[i%len(w.vals)]).String() }

func (w *appWorld) meta(i int) valsettypes.MsgMetadata {
	return valsettypes.MsgMetadata{Creator: w.acc(i), Signers: []string{w.acc(i)}}
}

// ethKey: the validator's key on an external chain (deterministic).  The external account's address
// is derived from it and its "pubkey" is the 20 address bytes (what the evm queues verify against).
func ethKey(v, c int, salt string) *ecdsa.PrivateKey {
	seed := sha256.Sum256([]byte(fmt.Sprintf("c08-eth-%d-%d-%s", v, c, salt)))
	k, err := crypto.ToECDSA(seed[:])
	if err != nil {
		panic(err)
	}
	return k
}

func remoteAddr(v, c int, salt string) string {
	return crypto.PubkeyToAddress(ethKey(v, c, salt).PublicKey).Hex()
}

func remotePub(v, c int, salt string) []byte {
	return crypto.PubkeyToAddress(ethKey(v, c, salt).PublicKey).Bytes()
}

func (w *appWorld) genesis() {
	g := w.sc.Genesis
	f := w.f
	ctx := w.at(1, 1_700_000_040)
	must := func(err error) {
		if err != nil {
			w.t.Fatalf("genesis: %v", err)
		}
	}
	for c := 0; c < g.NChains; c++ {
		must(f.EvmKeeper.AddSupportForNewChain(ctx, appChains[c], uint64(c+1), 123, "0x1234", big.NewInt(55)))
		must(f.EvmKeeper.SetFeeManagerAddress(ctx, appChains[c], appFeeMgr))
		must(f.EvmKeeper.ActivateChainReferenceID(ctx, appChains[c], &evmtypes.SmartContract{Id: 123}, "addr", []byte("abc")))
	}
	for i, power := range g.Powers {
		priv := ed25519.GenPrivKeyFromSecret([]byte(fmt.Sprintf("c08-cons-%d", i)))
		protoPK, err := cryptocodec.FromCmtPubKeyInterface(priv.PubKey())
		must(err)
		pk, err := codectypes.NewAnyWithValue(protoPK)
		must(err)
		op := sdk.ValAddress([]byte(fmt.Sprintf("c08-operator-addr-%02d", i)))
		w.vals = append(w.vals, op)
		tokens := sdk.TokensFromConsensusPower(power, sdk.DefaultPowerReduction)
		val := stakingtypes.Validator{OperatorAddress: op.String(), Tokens: tokens, DelegatorShares: sdkmath.LegacyNewDecFromInt(tokens),
			Status: stakingtypes.Bonded, ConsensusPubkey: pk}
		must(f.StakingKeeper.SetValidator(ctx, val))
		must(f.StakingKeeper.SetValidatorByConsAddr(ctx, val))
		consAddr, err := val.GetConsAddr()
		must(err)
		must(f.SlashingKeeper.SetValidatorSigningInfo(ctx, consAddr, slashingtypes.NewValidatorSigningInfo(consAddr, 0, 0, time.Time{}, false, int64(i%3))))
		var infos []*valsettypes.ExternalChainInfo
		for c := 0; c < g.NChains; c++ {
			infos = append(infos, &valsettypes.ExternalChainInfo{ChainType: "evm", ChainReferenceID: appChains[c], Address: remoteAddr(i, c, ""),
				Pubkey: remotePub(i, c, ""), Traits: g.Traits[i]})
		}
		must(f.ValsetKeeper.AddExternalChainInfo(ctx, op, infos))
		fs := &treasurytypes.RelayerFeeSetting{ValAddress: op.String()}
		for c := 0; c < g.NChains; c++ {
			fs.Fees = append(fs.Fees, treasurytypes.RelayerFeeSetting_FeeSetting{Multiplicator: sdkmath.LegacyMustNewDecFromStr(g.Fees[i][c]), ChainReferenceId: appChains[c]})
		}
		must(f.TreasuryKeeper.SetRelayerFee(ctx, op, fs))
		dead := false
		for _, d := range g.Dead {
			dead = dead || d == i
		}
		if !dead {
			must(f.ValsetKeeper.KeepValidatorAlive(ctx, op, "v9.9.9"))
		}
	}
	_, err := f.ValsetKeeper.TriggerSnapshotBuild(ctx)
	must(err)
	f.MetrixKeeper.UpdateUptime(ctx)
	for c := 0; c < g.NChains; c++ {
		must(f.EvmKeeper.SetRelayWeights(ctx, appChains[c], &evmtypes.RelayWeights{Fee: g.Weights[0], Uptime: g.Weights[1], SuccessRate: g.Weights[2], ExecutionTime: g.Weights[3], FeatureSet: g.Weights[4]}))
		// one scheduler job per chain, created through the msg server
		_, err := w.schedMS.CreateJob(ctx, &schedulertypes.MsgCreateJob{
			Job: &schedulertypes.Job{ID: fmt.Sprintf("job%d", c), Routing: schedulertypes.Routing{ChainType: "evm", ChainReferenceID: appChains[c]},
				Definition:          []byte(`{"abi":"0xabcd","address":"0x1111111111111111111111111111111111111111"}`),
				Payload:             []byte(`{"hexPayload":"0a0b0c0d"}`),
				IsPayloadModifiable: true, EnforceMEVRelay: c == 1},
			Metadata: w.meta(0)})
		must(err)
	}
}

// ---- digests ----

func putLen(h interface{ Write([]byte) (int, error) }, b []byte) {
	var lb [8]byte
	binary.BigEndian.PutUint64(lb[:], uint64(len(b)))
	h.Write(lb[:])
	h.Write(b)
}

// stateDigest: sha256 over (store name, key, value) of every persistent KV store as seen from ctx.
func (w *appWorld) stateDigest(ctx sdk.Context) string {
	h := sha256.New()
	for _, s := range w.keys {
		putLen(h, []byte(s.name))
		it := ctx.KVStore(s.key).Iterator(nil, nil)
		for ; it.Valid(); it.Next() {
			putLen(h, it.Key())
			putLen(h, it.Value())
		}
		it.Close()
	}
	return hex.EncodeToString(h.Sum(nil))[:32]
}

func eventsDigest(evs sdk.Events) string {
	h := sha256.New()
	for _, ev := range evs {
		putLen(h, []byte(ev.Type))
		for _, a := range ev.Attributes {
			putLen(h, []byte(a.Key))
			putLen(h, []byte(a.Value))
		}
		putLen(h, []byte{0xff})
	}
	return fmt.Sprintf("%d:%s", len(evs), hex.EncodeToString(h.Sum(nil))[:24])
}

// queueNames: every consensus queue of a chain, in SupportedConsensusQueues order.
func queueNames(chain string) []string {
	return []string{
		consensustypes.Queue(evmtypes.ConsensusTurnstoneMessage, consensustypes.ChainTypeEVM, chain),
		consensustypes.Queue(evmkeeper.ConsensusGetValidatorBalances, consensustypes.ChainTypeEVM, chain),
		consensustypes.Queue(evmkeeper.ConsensusCollectFundEvents, consensustypes.ChainTypeEVM, chain),
		consensustypes.Queue(evmkeeper.ConsensusGetReferenceBlock, consensustypes.ChainTypeEVM, chain),
	}
}

// queries: what a node answers from its state through the keepers' read API (the same functions
// the gRPC query servers and the other modules call).  Returns a digest of all answers.
func (w *appWorld) queries(ctx sdk.Context) (dg string) {
	defer func() {
		if r := recover(); r != nil {
			dg = fmt.Sprintf("panic:%v", r)
		}
	}()
	f := w.f
	h := sha256.New()
	say := func(format string, a ...any) { putLen(h, []byte(fmt.Sprintf(format, a...))) }
	for c := 0; c < w.sc.Genesis.NChains; c++ {
		ci, err := f.EvmKeeper.GetChainInfo(ctx, appChains[c])
		say("ci %v %v", ci, err)
		rw, err := f.EvmKeeper.GetRelayWeights(ctx, appChains[c])
		say("rw %v %v", rw, err)
		fees, err := f.TreasuryKeeper.GetRelayerFeesByChainReferenceID(ctx, appChains[c])
		ks := make([]string, 0, len(fees))
		for k, v := range fees {
			ks = append(ks, k+"="+v.String())
		}
		sort.Strings(ks)
		say("fees %v %v", ks, err)
		for _, q := range queueNames(appChains[c]) {
			msgs, err := f.ConsensusKeeper.GetMessagesFromQueue(ctx, q, 0)
			say("q %s %d %v", q, len(msgs), err)
			for _, m := range msgs {
				bz, _ := f.Codec.MarshalInterface(m)
				putLen(h, bz)
			}
		}
		tq := queueNames(appChains[c])[0]
		for i, v := range w.vals {
			a, _ := f.ConsensusKeeper.GetMessagesForSigning(ctx, tq, v)
			b, _ := f.ConsensusKeeper.GetMessagesForRelaying(ctx, tq, v)
			d, _ := f.ConsensusKeeper.GetMessagesForAttesting(ctx, tq, v)
			e, _ := f.ConsensusKeeper.GetMessagesForGasEstimation(ctx, tq, v)
			say("for %d %d %d %d %d", i, len(a), len(b), len(d), len(e))
		}
	}
	all, err := f.EvmKeeper.GetAllChainInfos(ctx)
	say("all %v %v", all, err)
	sn, err := f.ValsetKeeper.GetCurrentSnapshot(ctx)
	if sn != nil {
		bz, _ := f.Codec.Marshal(sn)
		putLen(h, bz)
	}
	say("sn %v", err)
	for _, u := range f.ValsetKeeper.GetUnjailedValidators(ctx) {
		say("unjailed %s", u.GetOperator())
	}
	for i, v := range w.vals {
		j, err := f.ValsetKeeper.IsJailed(ctx, v)
		al, err2 := f.ValsetKeeper.IsValidatorAlive(ctx, v)
		cis, err3 := f.ValsetKeeper.GetValidatorChainInfos(ctx, v)
		say("val %d %v %v %v %v %v %v", i, j, err, al, err2, cis, err3)
		m, err := f.MetrixKeeper.GetValidatorMetrics(ctx, v)
		say("metrics %v %v", m, err)
		hi, err := f.MetrixKeeper.GetValidatorHistory(ctx, v)
		say("hist %v %v", hi, err)
	}
	rf, err := f.TreasuryKeeper.GetRelayerFees(ctx)
	say("rf %v %v", rf, err)
	tf, err := f.TreasuryKeeper.GetFees(ctx)
	say("tf %v %v", tf, err)
	pr, err := f.ValsetKeeper.PigeonRequirements(ctx)
	say("pr %v %v", pr, err)
	say("pp %v", f.PalomaKeeper.GetParams(ctx))
	for c := 0; c < w.sc.Genesis.NChains; c++ {
		j, err := f.SchedulerKeeper.GetJob(ctx, fmt.Sprintf("job%d", c))
		say("job %v %v", j, err)
	}
	return hex.EncodeToString(h.Sum(nil))[:24]
}

// ---- message execution ----

type queued struct {
	queue string
	msg   consensustypes.QueuedSignedMessageI
}

func (w *appWorld) queuedOf(ctx sdk.Context, chain string) []queued {
	var out []queued
	for _, q := range queueNames(chain) {
		msgs, err := w.f.ConsensusKeeper.GetMessagesFromQueue(ctx, q, 0)
		if err != nil {
			continue
		}
		for _, m := range msgs {
			out = append(out, queued{q, m})
		}
	}
	return out
}

func (w *appWorld) target(ctx sdk.Context, m appMsg) (string, uint64) {
	chain := appChains[m.Chain%w.sc.Genesis.NChains]
	qs := w.queuedOf(ctx, chain)
	if m.Msg < 0 { // -k: the k-th newest message of the chain's turnstone queue
		var ts []queued
		for _, q := range qs {
			if q.queue == queueNames(chain)[0] {
				ts = append(ts, q)
			}
		}
		if len(ts) == 0 {
			return queueNames(chain)[0], 0
		}
		k := len(ts) + m.Msg
		if k < 0 {
			k = 0
		}
		return ts[k].queue, ts[k].msg.GetId()
	}
	if len(qs) == 0 {
		return queueNames(chain)[0], 0
	}
	t := qs[m.Msg%len(qs)]
	return t.queue, t.msg.GetId()
}

func (w *appWorld) assigneeOf(ctx sdk.Context, chain string, id uint64) string {
	for _, q := range w.queuedOf(ctx, chain) {
		if q.msg.GetId() != id {
			continue
		}
		cm, err := q.msg.ConsensusMsg(w.f.Codec)
		if err != nil {
			return "?"
		}
		if em, ok := cm.(*evmtypes.Message); ok {
			for i, v := range w.vals {
				if v.String() == em.Assignee {
					return fmt.Sprintf("val%d", i)
				}
			}
			return em.Assignee
		}
	}
	return "-"
}

// execMsg runs one message against ctx.  obs: a projected return value that must agree too.
func (w *appWorld) execMsg(ctx sdk.Context, m appMsg) (obs string, err error) {
	f := w.f
	g := w.sc.Genesis
	v := m.Val % len(w.vals)
	chain := appChains[m.Chain%g.NChains]
	switch m.Kind {
	case "status":
		creator := w.acc(v)
		if strings.HasPrefix(m.Data, "bad:") {
			creator = strings.TrimPrefix(m.Data, "bad:")
		}
		_, err = w.palomaMS.AddStatusUpdate(ctx, &palomatypes.MsgAddStatusUpdate{Status: m.Data, Level: palomatypes.MsgAddStatusUpdate_Level(m.Level),
			Metadata: valsettypes.MsgMetadata{Creator: creator, Signers: []string{creator}}})
	case "keepalive":
		_, err = w.valsetMS.KeepAlive(ctx, &valsettypes.MsgKeepAlive{PigeonVersion: m.Data, Metadata: w.meta(v)})
	case "extinfo":
		var infos []*valsettypes.ExternalChainInfo
		for c := 0; c < g.NChains; c++ {
			if m.Drop && c == m.Chain%g.NChains {
				continue
			}
			salt, traits := m.Data, m.Trait
			if m.Mixed {
				if c == m.Chain%g.NChains {
					traits = g.Traits[v]
				} else {
					salt = ""
				}
			}
			infos = append(infos, &valsettypes.ExternalChainInfo{ChainType: "evm", ChainReferenceID: appChains[c], Address: remoteAddr(v, c, salt),
				Pubkey: remotePub(v, c, salt), Traits: traits})
		}
		_, err = w.valsetMS.AddExternalChainInfoForValidator(ctx, &valsettypes.MsgAddExternalChainInfoForValidator{ChainInfos: infos, Metadata: w.meta(v)})
	case "fee":
		d, derr := sdkmath.LegacyNewDecFromStr(m.Data)
		if derr != nil {
			return "", derr
		}
		_, err = w.treasuryMS.UpsertRelayerFee(ctx, &treasurytypes.MsgUpsertRelayerFee{Metadata: w.meta(v), FeeSetting: &treasurytypes.RelayerFeeSetting{
			ValAddress: w.vals[v].String(), Fees: []treasurytypes.RelayerFeeSetting_FeeSetting{{Multiplicator: d, ChainReferenceId: chain}}}})
	case "weights":
		if m.W == nil {
			m.W = &[5]string{}
		}
		err = w.evmGov(ctx, &evmtypes.RelayWeightsProposal{Title: "w", Description: "w", ChainReferenceID: chain,
			Fee: m.W[0], Uptime: m.W[1], SuccessRate: m.W[2], ExecutionTime: m.W[3], FeatureSet: m.W[4]})
	case "minbal":
		err = w.evmGov(ctx, &evmtypes.ChangeMinOnChainBalanceProposal{Title: "b", Description: "b", ChainReferenceID: chain, MinOnChainBalance: m.Data})
	case "feemgr":
		err = w.evmGov(ctx, &evmtypes.SetFeeManagerAddressProposal{Title: "f", Summary: "f", ChainReferenceID: chain, FeeManagerAddress: m.Data})
	case "pigeonreq":
		err = w.valsetGov(ctx, &valsettypes.SetPigeonRequirementsProposal{Title: "p", Description: "p", MinVersion: m.Data, TargetBlockHeight: m.Gas})
	case "secfee":
		err = w.treasGov(ctx, &treasurytypes.SecurityFeeProposal{Title: "s", Description: "s", Fee: m.Data})
	case "gasexempt":
		// governance: the list of gas exempt addresses becomes the accounts of the validators named in Data ("0,2"; "" = none)
		var vs []int
		for _, p := range strings.Split(m.Data, ",") {
			var k int
			if _, serr := fmt.Sscanf(p, "%d", &k); serr == nil {
				vs = append(vs, k%len(w.vals))
			}
		}
		err = w.gasExempt(ctx, vs)
	case "job":
		var id uint64
		id, err = f.SchedulerKeeper.ExecuteJob(ctx, fmt.Sprintf("job%d", m.Chain%g.NChains), nil, sdk.AccAddress(w.vals[v]), nil)
		if err == nil {
			obs = fmt.Sprintf("id=%d assignee=%s", id, w.assigneeOf(ctx, chain, id))
		}
	case "slc":
		var id uint64
		id, err = f.EvmKeeper.AddSmartContractExecutionToConsensus(ctx, chain, "abc", &evmtypes.SubmitLogicCall{
			HexContractAddress: "0x51eca2efb15afacc612278c71f5edb35986f172f", Abi: []byte(`[]`), Payload: []byte(m.Data), Deadline: 1_900_000_000,
			ExecutionRequirements: evmtypes.SubmitLogicCall_ExecutionRequirements{EnforceMEVRelay: m.Mev}})
		if err == nil {
			obs = fmt.Sprintf("id=%d assignee=%s", id, w.assigneeOf(ctx, chain, id))
		}
	case "sign":
		// the validator signs the target message with its key on that chain (Data = the salt of the key: "" is the
		// key registered at genesis, anything else only verifies after a matching extinfo)
		q, id := w.target(ctx, m)
		var sig []byte
		for _, qm := range w.queuedOf(ctx, chain) {
			if qm.queue == q && qm.msg.GetId() == id {
				bz, berr := qm.msg.GetBytesToSign(f.Codec)
				if berr != nil {
					return "", berr
				}
				sig, err = crypto.Sign(crypto.Keccak256(append([]byte(evmkeeper.SignaturePrefix), bz...)), ethKey(v, m.Chain%g.NChains, m.Data))
				if err != nil {
					return "", err
				}
			}
		}
		if m.Level != 0 && len(sig) > 0 { // a corrupted signature
			sig[0] ^= 0xff
		}
		_, err = w.consMS.AddMessagesSignatures(ctx, &consensustypes.MsgAddMessagesSignatures{Metadata: w.meta(v),
			SignedMessages: []*consensustypes.ConsensusMessageSignature{{Id: id, QueueTypeName: q, Signature: sig, SignedByAddress: remoteAddr(v, m.Chain%g.NChains, m.Data)}}})
		obs = fmt.Sprintf("id=%d", id)
	case "signmulti":
		// ONE MsgAddMessagesSignatures with signatures for several queues: the newest turnstone message of chain `Chain`
		// (good signature), the newest turnstone message of the next chain (Level&1: corrupted signature), and (Level&2) a
		// message id that does not exist in the validator-balances queue.  With a single chain the second entry is left out.
		var sms []*consensustypes.ConsensusMessageSignature
		signFor := func(c int, corrupt bool) error {
			mm := m
			mm.Chain, mm.Msg = c, -1
			q, id := w.target(ctx, mm)
			var sig []byte
			for _, qm := range w.queuedOf(ctx, appChains[c]) {
				if qm.queue == q && qm.msg.GetId() == id {
					bz, berr := qm.msg.GetBytesToSign(f.Codec)
					if berr != nil {
						return berr
					}
					var serr error
					if sig, serr = crypto.Sign(crypto.Keccak256(append([]byte(evmkeeper.SignaturePrefix), bz...)), ethKey(v, c, "")); serr != nil {
						return serr
					}
				}
			}
			if corrupt && len(sig) > 0 {
				sig[0] ^= 0xff
			}
			sms = append(sms, &consensustypes.ConsensusMessageSignature{Id: id, QueueTypeName: q, Signature: sig, SignedByAddress: remoteAddr(v, c, "")})
			return nil
		}
		c0 := m.Chain % g.NChains
		if err = signFor(c0, false); err != nil {
			return "", err
		}
		if g.NChains > 1 {
			if err = signFor((c0+1)%g.NChains, m.Level&1 != 0); err != nil {
				return "", err
			}
		}
		if m.Level&2 != 0 {
			sms = append(sms, &consensustypes.ConsensusMessageSignature{Id: 987654, QueueTypeName: queueNames(appChains[c0])[1], Signature: []byte{1, 2, 3}, SignedByAddress: remoteAddr(v, c0, "")})
		}
		_, err = w.consMS.AddMessagesSignatures(ctx, &consensustypes.MsgAddMessagesSignatures{Metadata: w.meta(v), SignedMessages: sms})
		obs = fmt.Sprintf("n=%d", len(sms))
	case "estimate":
		q, id := w.target(ctx, m)
		_, err = w.consMS.AddMessageEstimates(ctx, &consensustypes.MsgAddMessageGasEstimates{Metadata: w.meta(v),
			Estimates: []*consensustypes.MsgAddMessageGasEstimates_GasEstimate{{MsgId: id, QueueTypeName: q, Value: m.Gas, EstimatedByAddress: remoteAddr(v, m.Chain%g.NChains, "")}}})
		obs = fmt.Sprintf("id=%d", id)
	case "pubdata":
		q, id := w.target(ctx, m)
		_, err = w.consMS.SetPublicAccessData(ctx, &consensustypes.MsgSetPublicAccessData{Metadata: w.meta(v), MessageID: id, QueueTypeName: q, Data: []byte(m.Data), ValsetID: m.Gas})
		obs = fmt.Sprintf("id=%d", id)
	case "errdata":
		q, id := w.target(ctx, m)
		_, err = w.consMS.SetErrorData(ctx, &consensustypes.MsgSetErrorData{Metadata: w.meta(v), MessageID: id, QueueTypeName: q, Data: []byte(m.Data)})
		obs = fmt.Sprintf("id=%d", id)
	case "evidence":
		q, id := w.target(ctx, m)
		var proof *codectypes.Any
		if strings.HasPrefix(m.Data, "ethtx:") {
			// a well-formed (unsigned legacy) ethereum transaction: accepted as a tx proof by the evidence validation
			var n uint64
			fmt.Sscanf(strings.TrimPrefix(m.Data, "ethtx:"), "%d", &n)
			to := ethcommon.HexToAddress("0x51eca2efb15afacc612278c71f5edb35986f172f")
			bz, merr := ethtypes.NewTx(&ethtypes.LegacyTx{Nonce: n, GasPrice: big.NewInt(1), Gas: 21000, To: &to, Value: big.NewInt(0), Data: []byte("c08")}).MarshalBinary()
			if merr != nil {
				return "", merr
			}
			proof, err = codectypes.NewAnyWithValue(&evmtypes.TxExecutedProof{SerializedTX: bz})
		} else if strings.HasPrefix(m.Data, "tx:") {
			proof, err = codectypes.NewAnyWithValue(&evmtypes.TxExecutedProof{SerializedTX: []byte(strings.TrimPrefix(m.Data, "tx:"))})
		} else {
			proof, err = codectypes.NewAnyWithValue(&evmtypes.SmartContractExecutionErrorProof{ErrorMessage: m.Data})
		}
		if err != nil {
			return "", err
		}
		_, err = w.consMS.AddEvidence(ctx, &consensustypes.MsgAddEvidence{Metadata: w.meta(v), MessageID: id, QueueTypeName: q, Proof: proof})
		obs = fmt.Sprintf("id=%d", id)
	default:
		w.t.Fatalf("unknown message kind %q", m.Kind)
	}
	return obs, err
}

func shortErr(err error) string {
	s := err.Error()
	sum := sha256.Sum256([]byte(s))
	if len(s) > 70 {
		s = s[:70]
	}
	return fmt.Sprintf("%s#%s", s, hex.EncodeToString(sum[:4]))
}

// runTx: baseapp semantics — all messages on one branch of ctx, written back only if every message
// succeeds; a panic is a failed transaction.  commit=false: simulation, never written back.
func (w *appWorld) runTx(ctx sdk.Context, tx appTx, commit bool) (res string, evs sdk.Events) {
	branch, write := ctx.CacheContext()
	// its own gas meter: the gas a transaction used is part of its result (and of the block's results hash)
	branch = branch.WithEventManager(sdk.NewEventManager()).WithGasMeter(storetypes.NewInfiniteGasMeter())
	if !commit {
		branch = branch.WithIsCheckTx(true)
	}
	gas := func() string { return fmt.Sprintf("gas=%d", branch.GasMeter().GasConsumed()) }
	// the ante chain first (CheckTx mode for a simulated execution); it may replace the gas meter
	var aerr error
	func() {
		defer func() {
			if r := recover(); r != nil {
				aerr = fmt.Errorf("panic: %v", r)
			}
		}()
		var actx sdk.Context
		actx, aerr = w.ante(branch, w.anteTxOf(tx), false)
		if aerr == nil {
			branch = actx
		}
	}()
	if aerr != nil {
		return fmt.Sprintf("fail@ante: %s %s", shortErr(aerr), gas()), nil
	}
	var obs []string
	for i, m := range tx.Msgs {
		var o string
		var err error
		func() {
			defer func() {
				if r := recover(); r != nil {
					err = fmt.Errorf("panic: %v", r)
				}
			}()
			o, err = w.execMsg(branch, m)
		}()
		if err != nil {
			return fmt.Sprintf("fail@%d %s: %s %s", i, m.Kind, shortErr(err), gas()), nil
		}
		obs = append(obs, o)
	}
	if commit {
		write()
	}
	return "ok " + strings.Join(obs, ";") + " " + gas(), branch.EventManager().Events()
}

// beginEnd runs the block's begin and end blockers in app.go order on ctx.
func (w *appWorld) runBlockers(ctx sdk.Context, fs []func(context.Context) error, slowAt ...int) string { // slowAt: blocker index, first slow call
	var errs []string
	for i, f := range fs {
		ctx := ctx
		if len(slowAt) == 2 && slowAt[0] == i {
			ctx = slowCtx(ctx, slowAt[1]) // this node is slow for a while during this blocker
		}
		func() {
			defer func() {
				if r := recover(); r != nil {
					errs = append(errs, fmt.Sprintf("%d:panic:%v", i, r))
				}
			}()
			if err := f(ctx); err != nil {
				errs = append(errs, fmt.Sprintf("%d:%s", i, shortErr(err)))
			}
		}()
	}
	return strings.Join(errs, ",")
}

// restart: a completely new application is constructed and the persistent KV stores of the old
// one are copied into it.  Everything that lived in the old process's memory is gone.
func (w *appWorld) restart() {
	old := w.f
	oldKeys := w.keys
	w.f = helper.InitFixture(ginkgo.GinkgoT())
	w.bind()
	if len(oldKeys) != len(w.keys) {
		w.t.Fatalf("restart: %d stores before, %d after", len(oldKeys), len(w.keys))
	}
	for i, nk := range w.keys {
		if nk.name != oldKeys[i].name {
			w.t.Fatalf("restart: store names differ: %s / %s", nk.name, oldKeys[i].name)
		}
		dst := w.f.Ctx.KVStore(nk.key)
		var del [][]byte
		it := dst.Iterator(nil, nil)
		for ; it.Valid(); it.Next() {
			del = append(del, append([]byte{}, it.Key()...))
		}
		it.Close()
		for _, k := range del {
			dst.Delete(k)
		}
		src := old.Ctx.KVStore(oldKeys[i].key).Iterator(nil, nil)
		for ; src.Valid(); src.Next() {
			dst.Set(append([]byte{}, src.Key()...), append([]byte{}, src.Value()...))
		}
		src.Close()
	}
}

const blockRepeats = 3

// runBlock executes one block and reports.
func (w *appWorld) runBlock(i int, b appBlock, extra, restart bool) blockOut {
	// C08_RESTART=1: restarted at the marked block boundaries; =all: at EVERY boundary (between any write and whatever
	// later block consumes it — e.g. a relay-history write and metrix's recompute at the next height divisible by 10)
	if (restart && b.Restart) || (os.Getenv("C08_RESTART") == "all" && i > 0 && !b.Phantom) {
		w.restart()
	}
	out := blockOut{I: i, Height: b.Height}
	ctx := w.at(b.Height, b.Time)
	var evs sdk.Events
	if b.Phantom {
		if extra {
			ph, _ := ctx.CacheContext()
			ph = ph.WithEventManager(sdk.NewEventManager())
			_ = w.runBlockers(ph, w.begin)
			for _, tx := range b.Txs {
				_, _ = w.runTx(ph, tx, true) // committed to the phantom branch only
			}
			_ = w.runBlockers(ph, w.end)
			_ = w.queries(ph)
		}
		out.Tx = []string{"phantom"}
		out.Digest = w.stateDigest(ctx)
		out.Query = w.queries(ctx)
		out.Events = eventsDigest(nil)
		out.Jailed = w.jailedList(ctx)
		return out
	}
	if e := w.runBlockers(ctx, w.begin); e != "" {
		out.Tx = append(out.Tx, "begin:"+e)
	}
	evs = append(evs, ctx.EventManager().Events()...)
	for _, tx := range b.Txs {
		if extra {
			if !b.Quiet {
				_ = w.queries(ctx)
			}
			// the same transaction simulated first (CheckTx / simulate); repeated executions on branches of the
			// same state must agree with each other and with the delivery
			sim, sevs := w.runTx(ctx, tx, false)
			if sim2, sevs2 := w.runTx(ctx, tx, false); sim2 != sim || eventsDigest(sevs2) != eventsDigest(sevs) {
				out.Unstable = fmt.Sprintf("tx: simulated %q / %s, simulated again %q / %s", sim, eventsDigest(sevs), sim2, eventsDigest(sevs2))
			}
			if tx.SimOnly {
				out.Tx = append(out.Tx, "-")
				continue
			}
			res, tevs := w.runTx(ctx, tx, true)
			if sim != res || eventsDigest(sevs) != eventsDigest(tevs) {
				out.Unstable = fmt.Sprintf("tx: simulated %q / %s, delivered %q / %s", sim, eventsDigest(sevs), res, eventsDigest(tevs))
			}
			out.Tx = append(out.Tx, res)
			evs = append(evs, tevs...)
			continue
		}
		if tx.SimOnly {
			out.Tx = append(out.Tx, "-")
			continue
		}
		res, tevs := w.runTx(ctx, tx, true)
		out.Tx = append(out.Tx, res)
		evs = append(evs, tevs...)
	}
	var branchRuns []string
	if extra {
		if b.Height%50 == 0 {
			out.Jail = w.observePrune(ctx)
		}
		for r := 0; r < blockRepeats; r++ {
			br, _ := ctx.CacheContext()
			br = br.WithEventManager(sdk.NewEventManager())
			e := w.runBlockers(br, w.end)
			branchRuns = append(branchRuns, e+"|"+w.stateDigest(br)+"|"+eventsDigest(br.EventManager().Events()))
		}
	}
	ectx := ctx.WithEventManager(sdk.NewEventManager())
	var e string
	if b.Slow && os.Getenv("C08_SLOW") != "" {
		e = w.runBlockers(ectx, w.end, b.SlowAt%len(w.end), b.SlowFrom)
	} else {
		e = w.runBlockers(ectx, w.end)
	}
	if e != "" {
		out.Tx = append(out.Tx, "end:"+e)
	}
	real := e + "|" + w.stateDigest(ectx) + "|" + eventsDigest(ectx.EventManager().Events())
	for r, br := range branchRuns {
		if br != real && out.Unstable == "" {
			out.Unstable = fmt.Sprintf("endblock: execution %d on a branch of the block's state gave %s, the committed execution %s", r, br, real)
		}
	}
	evs = append(evs, ectx.EventManager().Events()...)
	out.Events = eventsDigest(evs)
	out.Digest = w.stateDigest(ctx)
	out.Query = w.queries(ctx)
	out.Jailed = w.jailedList(ctx)
	return out
}

func (w *appWorld) jailedList(ctx sdk.Context) string {
	var js []string
	for i, v := range w.vals {
		if j, _ := w.f.ValsetKeeper.IsJailed(ctx, v); j {
			js = append(js, fmt.Sprint(i))
		}
	}
	return strings.Join(js, ",")
}

// observePrune: PruneOldMessages(ctx, 300) — the consensus EndBlocker's pruning — on a discarded
// branch; reports which validators were jailed and, for every stale message that reaches the
// jailing loop, the validators without evidence in snapshot order (the gate — delivery attempted,
// no consensus, at least 10 % voted — is evaluated with the real libcons checker).
func (w *appWorld) observePrune(ctx sdk.Context) (obs *jailObs) {
	defer func() {
		if r := recover(); r != nil {
			obs = nil
		}
	}()
	f := w.f
	br, _ := ctx.CacheContext()
	br = br.WithEventManager(sdk.NewEventManager())
	o := &jailObs{}
	idx := map[string]int{}
	for i, v := range w.vals {
		idx[v.String()] = i
		sv, err := f.StakingKeeper.GetValidator(br, v)
		if err != nil {
			return nil
		}
		j := int64(0)
		if sv.IsJailed() {
			j = 1
		}
		o.Vals = append(o.Vals, [3]int64{int64(i), sv.GetConsensusPower(sdk.DefaultPowerReduction), j})
	}
	sn, err := f.ValsetKeeper.GetCurrentSnapshot(br)
	if err != nil || sn == nil {
		return nil
	}
	checker := libcons.New(f.ValsetKeeper.GetCurrentSnapshot, f.Codec)
	// same order as PruneOldMessages: the registry's queues (chains in store order, queue types in
	// SupportedConsensusQueues order), messages in id order
	sq, err := f.EvmKeeper.SupportedQueues(br)
	if err != nil {
		return nil
	}
	for _, opt := range sq {
		msgs, err := f.ConsensusKeeper.GetMessagesFromQueue(br, opt.QueueTypeName, 9999)
		if err != nil {
			return nil
		}
		for _, m := range msgs {
			q := queued{opt.QueueTypeName, m}
			if br.BlockHeight()-q.msg.GetAddedAtBlockHeight() <= 300 {
				continue
			}
			if q.msg.GetPublicAccessData() == nil && q.msg.GetErrorData() == nil {
				continue
			}
			var evs []libcons.Evidence
			has := map[string]bool{}
			for _, e := range q.msg.GetEvidence() {
				evs = append(evs, e)
				has[e.GetValAddress().String()] = true
			}
			r, verr := checker.VerifyEvidence(br, evs)
			if verr == nil || r == nil {
				continue
			}
			var zero sdkmath.Int
			if r.TotalVotes == zero || r.TotalVotes.Mul(sdkmath.NewInt(10)).LT(r.TotalShares) {
				continue
			}
			if len(sn.Validators) == 0 || sn.TotalShares.IsZero() {
				continue
			}
			round := []int{}
			for _, v := range sn.Validators {
				if !has[v.GetAddress().String()] {
					k, ok := idx[v.GetAddress().String()]
					if !ok {
						return nil
					}
					round = append(round, k)
				}
			}
			o.Rounds = append(o.Rounds, round)
		}
	}
	if err := f.ConsensusKeeper.PruneOldMessages(br, 300); err != nil {
		return nil
	}
	for i, v := range w.vals {
		if j, _ := f.ValsetKeeper.IsJailed(br, v); j {
			o.After = append(o.After, i)
		}
	}
	return o
}
