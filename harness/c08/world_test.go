//go:build verif

package c08

import (
	"context"
	"crypto/sha256"
	"encoding/binary"
	"encoding/hex"
	"fmt"
	"sort"
	"strings"
	"testing"

	storetypes "cosmossdk.io/store/types"
	sdk "github.com/cosmos/cosmos-sdk/types"
	keepertest "github.com/palomachain/paloma/v2/testutil/keeper"
	palomakeeper "github.com/palomachain/paloma/v2/x/paloma/keeper"
	palomatypes "github.com/palomachain/paloma/v2/x/paloma/types"
	valsettypes "github.com/palomachain/paloma/v2/x/valset/types"
)

// Op is one scripted operation.  Everything an operation needs is in the script (no randomness in
// the child processes), so that every twin executes literally the same history.
type Op struct {
	Kind string `json:"kind"`
	// status: MsgAddStatusUpdate through the real paloma msg server
	Creator   string   `json:"creator,omitempty"`
	CreatorOK bool     `json:"creator_ok,omitempty"`
	Level     int32    `json:"level,omitempty"`
	Status    string   `json:"status,omitempty"`
	Args      []string `json:"args,omitempty"`
	// rank / worthy / purge / evidence: see ops_test.go
	Rank    *rankOp    `json:"rank,omitempty"`
	Worthy  *worthyOp  `json:"worthy,omitempty"`
	Purge   *purgeOp   `json:"purge,omitempty"`
	Jail    *jailOp    `json:"jail,omitempty"`
	Publish *publishOp `json:"publish,omitempty"`
	Light   *lightOp   `json:"light,omitempty"` // lightnode: lightnode_test.go
	Evidence *evidenceOp `json:"evidence,omitempty"` // evidence: evidence_test.go
}

// id: the stable identity of the operation's shape (used in violation ids).
func (o Op) id() string {
	switch o.Kind {
	case "status":
		switch {
		case !o.CreatorOK:
			return "status:malformed-creator"
		case o.Level < 0 || o.Level > 2:
			return "status:unknown-level"
		default:
			return "status:valid"
		}
	case "purge":
		if o.Purge != nil && o.Purge.Attest {
			return "metrix:attested"
		}
		return "metrix:purge"
	case "lightnode":
		if o.Light != nil {
			return "lightnode:" + o.Light.Act
		}
	}
	return o.Kind
}

type world struct {
	t      *testing.T
	pk     *palomakeeper.Keeper
	pctx   sdk.Context
	pms    palomatypes.MsgServer
	stores []storeRef
	x      *xworld // keepers used by the other operations (ops_test.go)
	ln     *lnEnv  // light-node licence path on real auth / bank / feegrant (lightnode_test.go)
}

type storeRef struct {
	name string
	ctx  func() sdk.Context
	key  storetypes.StoreKey
}

func newWorld(t *testing.T) *world {
	w := &world{t: t}
	w.pk, w.pctx = keepertest.PalomaKeeper(t)
	w.pms = palomakeeper.NewMsgServerImpl(*w.pk)
	w.addStores("paloma", func() sdk.Context { return w.pctx })
	w.x = newXWorld(t, w)
	w.ln = newLnEnv()
	w.addStores("lightnode", func() sdk.Context { return w.ln.ctx })
	return w
}

// addStores registers every KV store mounted in the context's multistore for the digest.
func (w *world) addStores(prefix string, ctx func() sdk.Context) {
	ms, ok := ctx().MultiStore().(interface {
		StoreKeysByName() map[string]storetypes.StoreKey
	})
	if !ok {
		w.t.Fatalf("multistore of %s does not list its keys", prefix)
	}
	byName := ms.StoreKeysByName()
	names := make([]string, 0, len(byName))
	for n := range byName {
		names = append(names, n)
	}
	sort.Strings(names)
	for _, n := range names {
		w.stores = append(w.stores, storeRef{name: prefix + "/" + n, ctx: ctx, key: byName[n]})
	}
}

// digest: sha256 over (store name, key, value) of every KV store, in store-name then key order.
func (w *world) digest() string {
	h := sha256.New()
	var lb [8]byte
	put := func(b []byte) {
		binary.BigEndian.PutUint64(lb[:], uint64(len(b)))
		h.Write(lb[:])
		h.Write(b)
	}
	for _, s := range w.stores {
		put([]byte(s.name))
		it := s.ctx().KVStore(s.key).Iterator(nil, nil)
		for ; it.Valid(); it.Next() {
			put(it.Key())
			put(it.Value())
		}
		it.Close()
	}
	return hex.EncodeToString(h.Sum(nil))[:32]
}

// resetEvents gives every context a fresh event manager; events() digests what an operation left in them (context
// order fixed).  A message delivered on a branch hands its events to the parent's manager when the branch is written.
func (w *world) resetEvents() {
	w.pctx = w.pctx.WithEventManager(sdk.NewEventManager())
	w.x.mctx = w.x.mctx.WithEventManager(sdk.NewEventManager())
	w.x.vctx = w.x.vctx.WithEventManager(sdk.NewEventManager())
	w.ln.ctx = w.ln.ctx.WithEventManager(sdk.NewEventManager())
}

func (w *world) events() string {
	var evs sdk.Events
	for _, c := range []sdk.Context{w.pctx, w.x.mctx, w.x.vctx, w.ln.ctx} {
		evs = append(evs, c.EventManager().Events()...)
	}
	return eventsDigest(evs)
}

func errClass(err error) string {
	if err == nil {
		return "ok"
	}
	s := err.Error()
	switch {
	case strings.Contains(s, "failed to parse creator"):
		return "err:creator"
	case strings.Contains(s, "status level"):
		return "err:level"
	}
	if len(s) > 80 {
		s = s[:80]
	}
	return "err:" + s
}

// guarded runs f and maps a panic to the result class "panic" (a panicking handler is a failed tx).
func guarded(f func() (string, string)) (res, obs string) {
	defer func() {
		if r := recover(); r != nil {
			res, obs = "panic", ""
		}
	}()
	return f()
}

func (w *world) apply(op Op) (string, string) {
	switch op.Kind {
	case "status":
		return guarded(func() (string, string) {
			msg := &palomatypes.MsgAddStatusUpdate{
				Status:   op.Status,
				Level:    palomatypes.MsgAddStatusUpdate_Level(op.Level),
				Metadata: valsettypes.MsgMetadata{Creator: op.Creator, Signers: []string{op.Creator}},
			}
			for i := 0; i+1 < len(op.Args); i += 2 {
				msg.Args = append(msg.Args, palomatypes.MsgAddStatusUpdate_KeyValuePair{Key: op.Args[i], Value: op.Args[i+1]})
			}
			// message delivery: cache context, written back on success only (baseapp semantics)
			cctx, write := w.pctx.CacheContext()
			_, err := w.pms.AddStatusUpdate(cctx, msg)
			if err == nil {
				write()
			}
			return errClass(err), ""
		})
	case "lightnode":
		return w.ln.apply(op.Light)
	case "evidence":
		return applyEvidence(w.pctx, op.Evidence)
	default:
		return w.x.apply(op)
	}
}

// extraReads: work a node may do between two transactions without it being part of the history —
// queries, and the same message executed on a discarded cache context (CheckTx / simulation).
func (w *world) extraReads(op Op) {
	_ = w.pk.GetParams(w.pctx)
	func() {
		defer func() { _ = recover() }()
		saved := w.pctx
		cctx, _ := w.pctx.CacheContext()
		w.pctx = cctx
		defer func() { w.pctx = saved }()
		if op.Kind == "status" {
			w.apply(op) // never written back
		}
	}()
	if op.Kind == "lightnode" {
		func() {
			defer func() { _ = recover() }()
			saved := w.ln.ctx
			w.ln.ctx, _ = saved.CacheContext()
			defer func() { w.ln.ctx = saved }()
			w.apply(op) // simulated: written to a branch that is dropped
		}()
	}
	w.x.extraReads(op)
}

var _ = context.Background
var _ = fmt.Sprint
