//go:build verif

package c08

// Round 3: the light-node licence path of x/paloma — MsgAddLightNodeClientLicense then
// MsgRegisterLightNodeClient through the REAL msg server on the REAL x/auth account keeper, x/bank
// keeper, x/feegrant keeper and vesting account types (wired as app.go wires them; recipe of
// harness/c18/env_test.go, without its fault proxies).  Registration turns the base account into a
// continuous vesting account whose end is the block time plus `VestingMonths` CALENDAR months: the
// only calendar arithmetic in a transaction handler.  Calendar arithmetic is zone-dependent; the block
// time is in UTC whatever the node's TZ, and must stay there.  The twins run in different time zones
// (UTC, Asia/Tokyo: +9 without DST, America/New_York: DST), the generator aims block times at month
// ends and vesting periods across DST changes.

import (
	"fmt"
	"time"
	_ "time/tzdata" // the zones the twins run in must exist even where the image has no zoneinfo

	"cosmossdk.io/log"
	sdkmath "cosmossdk.io/math"
	storetypes "cosmossdk.io/store/types"
	"cosmossdk.io/x/feegrant"
	feegrantkeeper "cosmossdk.io/x/feegrant/keeper"
	feegrantmodule "cosmossdk.io/x/feegrant/module"
	cmtproto "github.com/cometbft/cometbft/proto/tendermint/types"
	"github.com/cosmos/cosmos-sdk/codec/address"
	"github.com/cosmos/cosmos-sdk/runtime"
	"github.com/cosmos/cosmos-sdk/testutil/integration"
	sdk "github.com/cosmos/cosmos-sdk/types"
	moduletestutil "github.com/cosmos/cosmos-sdk/types/module/testutil"
	"github.com/cosmos/cosmos-sdk/x/auth"
	authcodec "github.com/cosmos/cosmos-sdk/x/auth/codec"
	authkeeper "github.com/cosmos/cosmos-sdk/x/auth/keeper"
	authtypes "github.com/cosmos/cosmos-sdk/x/auth/types"
	"github.com/cosmos/cosmos-sdk/x/auth/vesting"
	vestingtypes "github.com/cosmos/cosmos-sdk/x/auth/vesting/types"
	"github.com/cosmos/cosmos-sdk/x/bank"
	bankkeeper "github.com/cosmos/cosmos-sdk/x/bank/keeper"
	banktypes "github.com/cosmos/cosmos-sdk/x/bank/types"
	govtypes "github.com/cosmos/cosmos-sdk/x/gov/types"
	minttypes "github.com/cosmos/cosmos-sdk/x/mint/types"
	paramskeeper "github.com/cosmos/cosmos-sdk/x/params/keeper"
	paramstypes "github.com/cosmos/cosmos-sdk/x/params/types"
	params2 "github.com/palomachain/paloma/v2/app/params"
	"github.com/palomachain/paloma/v2/testutil/common"
	"github.com/palomachain/paloma/v2/verifharness/emit"
	palomakeeper "github.com/palomachain/paloma/v2/x/paloma/keeper"
	palomatypes "github.com/palomachain/paloma/v2/x/paloma/types"
	valsettypes "github.com/palomachain/paloma/v2/x/valset/types"
)

const lnDenom = "ugrain"

// lightOp: one message of the licence path at a given block time (UTC seconds + nanoseconds).
type lightOp struct {
	Act    string `json:"act"` // "license" (creator funds a licence for Client) | "register" (Client registers)
	Client int    `json:"client"`
	Amount int64  `json:"amount,omitempty"`
	Months uint32 `json:"months,omitempty"`
	Time   int64  `json:"time"`
	Nanos  int64  `json:"nanos,omitempty"`
}

type lnEnv struct {
	ctx    sdk.Context
	acc    authkeeper.AccountKeeper
	bank   bankkeeper.BaseKeeper
	msg    palomatypes.MsgServer
	funder sdk.AccAddress
}

func lnClient(i int) sdk.AccAddress {
	b := make([]byte, 20)
	b[0] = 0xE0
	b[18] = byte(i >> 8)
	b[19] = byte(i)
	return sdk.AccAddress(b)
}

// The chain's bech32 prefixes, in the parent (which generates creators and decides whether they parse) and in every
// child alike: the licence path parses the creator with the global configuration.
func init() { common.SetupPalomaPrefixes() }

var lnCodec = address.Bech32Codec{Bech32Prefix: params2.AccountAddressPrefix}

func lnStr(a sdk.AccAddress) string {
	s, err := lnCodec.BytesToString(a)
	if err != nil {
		panic(err)
	}
	return s
}

func newLnEnv() *lnEnv {
	keys := storetypes.NewKVStoreKeys(authtypes.StoreKey, banktypes.StoreKey, feegrant.StoreKey, paramstypes.StoreKey, palomatypes.StoreKey)
	tkeys := storetypes.NewTransientStoreKeys(paramstypes.TStoreKey)
	encCfg := moduletestutil.MakeTestEncodingConfig(auth.AppModuleBasic{}, bank.AppModuleBasic{}, vesting.AppModuleBasic{}, feegrantmodule.AppModuleBasic{})
	palomatypes.RegisterInterfaces(encCfg.InterfaceRegistry)
	logger := log.NewNopLogger()
	cms := integration.CreateMultiStore(keys, logger)
	for _, key := range tkeys {
		cms.MountStoreWithDB(key, storetypes.StoreTypeTransient, nil)
	}
	if err := cms.LoadLatestVersion(); err != nil {
		panic(err)
	}
	cdc := encCfg.Codec
	ctx := sdk.NewContext(cms, cmtproto.Header{Time: time.Unix(1_700_000_000, 0).UTC(), Height: 1}, false, logger)
	maccPerms := map[string][]string{
		minttypes.ModuleName:   {authtypes.Minter},
		palomatypes.ModuleName: nil, // as in app.go
	}
	// not AccAddress.String(): the SDK caches address strings per byte string, and another fixture of this process may
	// have rendered the same module address before the paloma prefixes were set
	authority := lnStr(authtypes.NewModuleAddress(govtypes.ModuleName))
	acc := authkeeper.NewAccountKeeper(cdc, runtime.NewKVStoreService(keys[authtypes.StoreKey]), authtypes.ProtoBaseAccount, maccPerms,
		address.Bech32Codec{Bech32Prefix: params2.AccountAddressPrefix}, params2.AccountAddressPrefix, authority)
	blocked := map[string]bool{}
	for name := range maccPerms {
		blocked[lnStr(authtypes.NewModuleAddress(name))] = true
	}
	bk := bankkeeper.NewBaseKeeper(cdc, runtime.NewKVStoreService(keys[banktypes.StoreKey]), acc, blocked, authority, logger)
	fg := feegrantkeeper.NewKeeper(cdc, runtime.NewKVStoreService(keys[feegrant.StoreKey]), acc)
	fg = fg.SetBankKeeper(bk)
	pk := paramskeeper.NewKeeper(cdc, encCfg.Amino, keys[paramstypes.StoreKey], tkeys[paramstypes.TStoreKey])
	pk.Subspace(palomatypes.ModuleName)
	sub, _ := pk.GetSubspace(palomatypes.ModuleName)
	pal := palomakeeper.NewKeeper(cdc, runtime.NewKVStoreService(keys[palomatypes.StoreKey]), sub, "v1.0.0", lnDenom, acc, bk, fg, nil, nil,
		authcodec.NewBech32Codec(params2.ValidatorAddressPrefix), authority)
	e := &lnEnv{ctx: ctx, acc: acc, bank: bk, msg: palomakeeper.NewMsgServerImpl(*pal)}
	_ = acc.GetModuleAccount(ctx, palomatypes.ModuleName) // exists from genesis on a real chain
	e.funder = sdk.AccAddress(append([]byte{0xF0}, make([]byte, 19)...))
	coins := sdk.NewCoins(sdk.NewCoin(lnDenom, sdkmath.NewInt(1_000_000_000_000)))
	if err := bk.MintCoins(ctx, minttypes.ModuleName, coins); err != nil {
		panic(err)
	}
	if err := bk.SendCoinsFromModuleToAccount(ctx, minttypes.ModuleName, e.funder, coins); err != nil {
		panic(err)
	}
	return e
}

// apply: the message on a branch at the operation's block time, written back on success (baseapp).
// Observable of a registration: start and end of the vesting account and the activation time of
// the client record, all as stored.
func (e *lnEnv) apply(op *lightOp) (string, string) {
	return guarded(func() (string, string) {
		// WithBlockTime converts to UTC, as baseapp's header does: the block time carries no zone of the node
		at := e.ctx.WithBlockTime(time.Unix(op.Time, op.Nanos))
		cctx, write := at.CacheContext()
		client := lnClient(op.Client)
		var err error
		obs := ""
		switch op.Act {
		case "license":
			_, err = e.msg.AddLightNodeClientLicense(cctx, &palomatypes.MsgAddLightNodeClientLicense{
				Metadata:      valsettypes.MsgMetadata{Creator: lnStr(e.funder), Signers: []string{lnStr(e.funder)}},
				ClientAddress: lnStr(client), Amount: sdk.NewCoin(lnDenom, sdkmath.NewInt(op.Amount)), VestingMonths: op.Months})
		case "register":
			_, err = e.msg.RegisterLightNodeClient(cctx, &palomatypes.MsgRegisterLightNodeClient{
				Metadata: valsettypes.MsgMetadata{Creator: lnStr(client), Signers: []string{lnStr(client)}}})
			if err == nil {
				va, ok := e.acc.GetAccount(cctx, client).(*vestingtypes.ContinuousVestingAccount)
				if !ok {
					obs = "no-vesting-account"
				} else {
					obs = fmt.Sprintf("start=%d end=%d", va.StartTime, va.EndTime)
				}
			}
		default:
			panic("unknown light-node action " + op.Act)
		}
		if err == nil {
			write()
		}
		return errClass(err), obs
	})
}

// ---- generator ----

// lnTimes: block times at which calendar arithmetic in a local zone differs from UTC — the last days of
// a month at hours that are already the next day east of Greenwich / still the previous day west of it,
// the first day of a month, leap days — and ordinary times (then only a DST change inside the vesting
// period shows).
func genLightTime(run *emit.Run) (int64, int64) {
	r := run.Rng
	y := 2023 + r.Intn(4)
	m := time.Month(1 + r.Intn(12))
	var d, h int
	switch r.Intn(4) {
	case 0: // last day(s) of the month, late: next day (next month) in Asia
		d, h = daysIn(y, m)-r.Intn(3), 15+r.Intn(9)
	case 1: // first day of the month, early: previous month in America
		d, h = 1, r.Intn(5)
	case 2: // January 29..31 / leap day
		if r.Intn(2) == 0 {
			m, d, h = time.January, 29+r.Intn(3), r.Intn(24)
		} else {
			y, m, d, h = 2024, time.February, 29, r.Intn(24)
		}
	default:
		d, h = 1+r.Intn(28), r.Intn(24)
	}
	t := time.Date(y, m, d, h, r.Intn(60), r.Intn(60), 0, time.UTC)
	nanos := int64(0)
	if r.Intn(3) == 0 {
		nanos = int64(r.Intn(1_000_000_000))
	}
	return t.Unix(), nanos
}

func daysIn(y int, m time.Month) int { return time.Date(y, m+1, 0, 0, 0, 0, 0, time.UTC).Day() }

var lnMonths = []uint32{1, 1, 2, 3, 6, 6, 12, 13, 24, 24, 0, 120}

// genLight: a licence followed (usually) by the registration at a later block time; sometimes a
// registration without licence or a second licence for the same client (rejected).
func genLight(run *emit.Run, next *int) []Op {
	r := run.Rng
	*next++
	c := *next
	t, n := genLightTime(run)
	var ops []Op
	switch r.Intn(8) {
	case 0: // no licence
		return []Op{{Kind: "lightnode", Light: &lightOp{Act: "register", Client: c, Time: t, Nanos: n}}}
	case 1: // duplicate licence
		ops = append(ops, Op{Kind: "lightnode", Light: &lightOp{Act: "license", Client: c, Amount: 1000, Months: 3, Time: t - 100}})
	}
	ops = append(ops, Op{Kind: "lightnode", Light: &lightOp{Act: "license", Client: c, Amount: int64(1 + r.Intn(5_000_000)),
		Months: lnMonths[r.Intn(len(lnMonths))], Time: t - 50}})
	if r.Intn(8) != 0 {
		ops = append(ops, Op{Kind: "lightnode", Light: &lightOp{Act: "register", Client: c, Time: t, Nanos: n}})
	}
	return ops
}

// corpusLight: the two situations of seeded change C08-C.  (1) 2024-01-31T20:00Z + 1 month: 2024-03-02T20:00Z
// in UTC (February 31st normalised); in Asia/Tokyo it is already February 1st, 05:00, so the end is March 1st
// 05:00 JST = 2024-02-29T20:00Z.  (2) 2024-01-15T12:00Z + 6 months: crosses the start of DST in
// America/New_York, where 07:00 EST + 6 months = 07:00 EDT = 11:00Z, not 12:00Z.  (3) the default 24 months
// from a leap day, late in the evening.
func corpusLight() []Op {
	at := func(y int, m time.Month, d, h int) int64 { return time.Date(y, m, d, h, 0, 0, 0, time.UTC).Unix() }
	var ops []Op
	for i, c := range []struct {
		t int64
		m uint32
	}{{at(2024, 1, 31, 20), 1}, {at(2024, 1, 15, 12), 6}, {at(2024, 2, 29, 20), 24}} {
		ops = append(ops,
			Op{Kind: "lightnode", Light: &lightOp{Act: "license", Client: 9000 + i, Amount: 5_000_000, Months: c.m, Time: c.t - 60}},
			Op{Kind: "lightnode", Light: &lightOp{Act: "register", Client: 9000 + i, Time: c.t, Nanos: 500_000_000}})
	}
	return ops
}

// emitLightCase: the stored vesting end against the model's calendar arithmetic in UTC (Sys/Calendar.v).
func emitLightCase(run *emit.Run, script []Op, i int, o stepOut, nontrivial bool) {
	op := script[i].Light
	if op.Act != "register" || o.Result != "ok" {
		run.Count("lightnode", op.Act+" -> "+o.Result)
		return
	}
	var start, end int64
	if _, err := fmt.Sscanf(o.Obs, "start=%d end=%d", &start, &end); err != nil {
		run.Violate("C08:lightnode-no-vesting-account", "a successful registration left no continuous vesting account: "+o.Obs, map[string]any{"history": script[:i+1]})
		return
	}
	// the licence this registration consumed: the last successful one for the client
	months := int64(-1)
	for j := i - 1; j >= 0; j-- {
		if l := script[j].Light; script[j].Kind == "lightnode" && l.Act == "license" && l.Client == op.Client {
			months = int64(l.Months) // a duplicate licence is rejected: the FIRST one counts; keep scanning
		}
	}
	run.Count("lightnode", fmt.Sprintf("register ok months=%d", months))
	run.Case(fmt.Sprintf("C08.CVestEnd %s %s %s %s", emit.ZI(op.Time), emit.ZI(months), emit.ZI(start), emit.ZI(end)), nontrivial, map[string]any{"op": op, "obs": o.Obs})
}
