//go:build verif

package c08

import (
	"context"
	"fmt"
	"math/big"
	"sort"
	"strings"
	"testing"

	sdkmath "cosmossdk.io/math"
	sdk "github.com/cosmos/cosmos-sdk/types"
	stakingtypes "github.com/cosmos/cosmos-sdk/x/staking/types"
	xchain "github.com/palomachain/paloma/v2/internal/x-chain"
	keepertest "github.com/palomachain/paloma/v2/testutil/keeper"
	"github.com/palomachain/paloma/v2/util/eventbus"
	"github.com/palomachain/paloma/v2/verifharness/emit"
	evmkeeper "github.com/palomachain/paloma/v2/x/evm/keeper"
	evmtypes "github.com/palomachain/paloma/v2/x/evm/types"
	metrixkeeper "github.com/palomachain/paloma/v2/x/metrix/keeper"
	metrixtypes "github.com/palomachain/paloma/v2/x/metrix/types"
	palomatypes "github.com/palomachain/paloma/v2/x/paloma/types"
	valsetkeeper "github.com/palomachain/paloma/v2/x/valset/keeper"
	valsettypes "github.com/palomachain/paloma/v2/x/valset/types"
)

// ---- operation payloads ----

// rank: rankValidators on a map built from Rows (address number, five raw LegacyDec strings)
type rankOp struct {
	Rows [][6]string `json:"rows"` // [addr number, fee, uptime, success, exec, feature]
	W    [5]string   `json:"w"`
}

// worthy: isNewSnapshotWorthy on two one-validator snapshots that differ only in the external
// chain infos (Traits false) or only in the traits of their single chain info (Traits true)
type worthyOp struct {
	// Mixed (round 5): the validator has chain infos for every key; in the new snapshot the chains in Present have
	// another ADDRESS (key rotation) and the other chains other TRAITS — two different reasons to be worthy, found in
	// one loop over a Go map; only the boolean may leave that loop
	Mixed   bool  `json:"mixed,omitempty"`
	Traits  bool  `json:"traits"`
	Keys    []int `json:"keys"`    // current
	Present []int `json:"present"` // new (same length)
}

// attest / purge: metrix keeper
type purgeOp struct {
	Attest    bool   `json:"attest"` // true: OnConsensusMessageAttested, false: PurgeRelayMetrics
	Val       int    `json:"val"`
	MessageID uint64 `json:"message_id"`
	Success   bool   `json:"success"`
}

// jail: paloma keeper JailValidatorsWithMissingExternalChainInfos; Keys = chains the chain
// supports, Vals[i] = chains validator i supports
type jailOp struct {
	Keys []int   `json:"keys"`
	Vals [][]int `json:"vals"`
}

// publish: eventbus.Publish with subscribers registered in the given order
type publishOp struct {
	Subs []int `json:"subs"`
}

const nVals = 6

func valAddr(i int) sdk.ValAddress {
	b := make([]byte, 20)
	b[0] = 0xA0
	b[19] = byte(i)
	return sdk.ValAddress(b)
}

// address strings used as map keys; their string order is the numbering the model uses
func rankAddr(i int) string { return fmt.Sprintf("val%03d", i) }

type xworld struct {
	t    *testing.T
	w    *world
	mk   *metrixkeeper.Keeper
	mctx sdk.Context
	vk   *valsetkeeper.Keeper
	vctx sdk.Context
	fv   *fakeValset
}

func newXWorld(t *testing.T, w *world) *xworld {
	x := &xworld{t: t, w: w}
	x.mk, x.mctx = keepertest.MetrixKeeper(t)
	x.mctx = x.mctx.WithBlockHeight(1000)
	w.addStores("metrix", func() sdk.Context { return x.mctx })
	x.vk, x.vctx = keepertest.ValsetKeeper(t)
	w.addStores("valset", func() sdk.Context { return x.vctx })
	x.fv = &fakeValset{}
	w.pk.Valset = x.fv
	return x
}

// ---- fakes for the paloma keeper's collaborators (the loop under test is the keeper's own) ----

type fakeValset struct {
	vals   []stakingtypes.ValidatorI
	infos  map[string][]*valsettypes.ExternalChainInfo
	jailed []string
}

func (f *fakeValset) GetUnjailedValidators(context.Context) []stakingtypes.ValidatorI { return f.vals }
func (f *fakeValset) Jail(_ context.Context, v sdk.ValAddress, reason string) error {
	f.jailed = append(f.jailed, fmt.Sprintf("%d:%s", v[19], reason))
	return nil
}
func (f *fakeValset) GetValidatorChainInfos(_ context.Context, v sdk.ValAddress) ([]*valsettypes.ExternalChainInfo, error) {
	return f.infos[string(v)], nil
}

type fakeChains struct{ ids []xchain.ReferenceID }

func (f fakeChains) XChainType() xchain.Type                                { return "evm" }
func (f fakeChains) XChainReferenceIDs(context.Context) []xchain.ReferenceID { return f.ids }

func chainName(k int) string { return fmt.Sprintf("c%03d", k) }

func decOf(s string) sdkmath.LegacyDec {
	b, ok := new(big.Int).SetString(s, 10)
	if !ok {
		panic("bad decimal " + s)
	}
	return sdkmath.LegacyNewDecFromBigIntWithPrec(b, 18)
}

// repeat: how many times a map-consuming function is called on the same input inside one process
// (every call iterates in its own random order); the answers must agree.
const repeat = 8

func (x *xworld) apply(op Op) (string, string) {
	switch op.Kind {
	case "rank":
		return guarded(func() (string, string) {
			var first string
			for rep := 0; rep < repeat; rep++ {
				infos := map[string]evmkeeper.ValidatorInfo{}
				for _, r := range op.Rank.Rows {
					infos["val"+r[0]] = evmkeeper.ValidatorInfo{Fee: decOf(r[1]), Uptime: decOf(r[2]), SuccessRate: decOf(r[3]), ExecutionTime: decOf(r[4]), FeatureSet: decOf(r[5])}
				}
				w := evmtypes.RelayWeightDec{Fee: decOf(op.Rank.W[0]), Uptime: decOf(op.Rank.W[1]), SuccessRate: decOf(op.Rank.W[2]), ExecutionTime: decOf(op.Rank.W[3]), FeatureSet: decOf(op.Rank.W[4])}
				addrs, scores, err := evmkeeper.VerifC08Rank(x.w.pctx, infos, w)
				if err != nil {
					return errClass(err), ""
				}
				var sb strings.Builder
				for i := range addrs {
					fmt.Fprintf(&sb, "%s=%s;", strings.TrimPrefix(addrs[i], "val"), scores[i].BigInt().String())
				}
				if rep == 0 {
					first = sb.String()
				} else if sb.String() != first {
					return "ok", "UNSTABLE " + first + " vs " + sb.String()
				}
			}
			return "ok", first
		})
	case "worthy":
		return guarded(func() (string, string) {
			mk := func(keys []int) *valsettypes.Snapshot {
				v := valsettypes.Validator{Address: valAddr(1), ShareCount: sdkmath.NewInt(100), State: valsettypes.ValidatorState_ACTIVE}
				if op.Worthy.Traits {
					ci := &valsettypes.ExternalChainInfo{ChainType: "evm", ChainReferenceID: "c", Address: "0x1"}
					for _, k := range keys {
						ci.Traits = append(ci.Traits, fmt.Sprintf("t%03d", k))
					}
					v.ExternalChainInfos = []*valsettypes.ExternalChainInfo{ci}
				} else {
					for _, k := range keys {
						v.ExternalChainInfos = append(v.ExternalChainInfos, &valsettypes.ExternalChainInfo{ChainType: "evm", ChainReferenceID: chainName(k), Address: "0x1"})
					}
				}
				return &valsettypes.Snapshot{Validators: []valsettypes.Validator{v}, TotalShares: sdkmath.NewInt(100)}
			}
			if op.Worthy.Mixed {
				rot := map[int]bool{}
				for _, k := range op.Worthy.Present {
					rot[k] = true
				}
				mkm := func(isNew bool) *valsettypes.Snapshot {
					v := valsettypes.Validator{Address: valAddr(1), ShareCount: sdkmath.NewInt(100), State: valsettypes.ValidatorState_ACTIVE}
					for _, k := range op.Worthy.Keys {
						ci := &valsettypes.ExternalChainInfo{ChainType: "evm", ChainReferenceID: chainName(k), Address: "0x1", Traits: []string{"a"}}
						if isNew && rot[k] {
							ci.Address = "0x2"
						} else if isNew {
							ci.Traits = []string{"b"}
						}
						v.ExternalChainInfos = append(v.ExternalChainInfos, ci)
					}
					return &valsettypes.Snapshot{Validators: []valsettypes.Validator{v}, TotalShares: sdkmath.NewInt(100)}
				}
				mk = func(keys []int) *valsettypes.Snapshot { return mkm(len(keys) == 0) }
			}
			first := ""
			for rep := 0; rep < repeat; rep++ {
				// events of this execution are part of what must agree (the boolean is all that may leave the loops)
				ectx := x.vctx.WithEventManager(sdk.NewEventManager())
				var cur, nw *valsettypes.Snapshot
				if op.Worthy.Mixed {
					cur, nw = mk([]int{0}), mk(nil)
				} else {
					cur, nw = mk(op.Worthy.Keys), mk(op.Worthy.Present)
				}
				got := fmt.Sprint(x.vk.VerifC08SnapshotWorthy(ectx, cur, nw)) + "|" + eventsDigest(ectx.EventManager().Events())
				if rep == 0 {
					x.vctx.EventManager().EmitEvents(ectx.EventManager().Events())
				}
				if rep == 0 {
					first = got
				} else if got != first {
					return "ok", "UNSTABLE " + first + " vs " + got
				}
			}
			return "ok", strings.SplitN(first, "|", 2)[0]
		})
	case "purge":
		return guarded(func() (string, string) {
			if op.Purge.Attest {
				x.mk.OnConsensusMessageAttested(x.mctx, metrixtypes.MessageAttestedEvent{
					AssignedAtBlockHeight: sdkmath.NewInt(10), HandledAtBlockHeight: sdkmath.NewInt(12),
					Assignee: valAddr(op.Purge.Val), MessageID: op.Purge.MessageID, WasRelayedSuccessfully: op.Purge.Success,
				})
				return "ok", ""
			}
			before := x.history()
			ectx := x.mctx.WithEventManager(sdk.NewEventManager())
			x.mk.PurgeRelayMetrics(ectx)
			// the event sequence of the call is part of what must agree (a discarded branch has its own manager)
			return "ok", before + "|" + x.history() + "|" + eventsDigest(ectx.EventManager().Events())
		})
	case "jail":
		return guarded(func() (string, string) {
			var ids []xchain.ReferenceID
			for _, k := range op.Jail.Keys {
				ids = append(ids, xchain.ReferenceID(chainName(k)))
			}
			x.w.pk.ExternalChains = []palomatypes.ExternalChainSupporterKeeper{fakeChains{ids}}
			x.fv.vals, x.fv.infos, x.fv.jailed = nil, map[string][]*valsettypes.ExternalChainInfo{}, nil
			for i, ks := range op.Jail.Vals {
				va := valAddr(i)
				oper, err := sdk.Bech32ifyAddressBytes("palomavaloper", va)
				if err != nil {
					panic(err)
				}
				x.fv.vals = append(x.fv.vals, stakingtypes.Validator{OperatorAddress: oper})
				for _, k := range ks {
					x.fv.infos[string(va)] = append(x.fv.infos[string(va)], &valsettypes.ExternalChainInfo{ChainType: "evm", ChainReferenceID: chainName(k)})
				}
			}
			err := x.w.pk.JailValidatorsWithMissingExternalChainInfos(x.w.pctx)
			return errClass(err), strings.Join(x.fv.jailed, "|")
		})
	case "publish":
		return guarded(func() (string, string) {
			var order []string
			ev := eventbus.EVMActivatedChain()
			for _, s := range op.Publish.Subs {
				s := s
				ev.Subscribe(fmt.Sprintf("sub%03d", s), func(context.Context, eventbus.EVMActivatedChainEvent) error {
					order = append(order, fmt.Sprint(s))
					return nil
				})
			}
			ev.Publish(x.w.pctx, eventbus.EVMActivatedChainEvent{ChainReferenceID: "c"})
			for _, s := range op.Publish.Subs {
				ev.Unsubscribe(fmt.Sprintf("sub%03d", s))
			}
			return "ok", strings.Join(order, ",")
		})
	}
	x.t.Fatalf("unknown operation kind %q", op.Kind)
	return "", ""
}

// history: the metrix history store projected to "val:count[first id]" per validator, in key order.
func (x *xworld) history() string {
	var parts []string
	for i := 0; i < nVals; i++ {
		h, err := x.mk.GetValidatorHistory(x.mctx, valAddr(i))
		if err != nil || h == nil {
			continue
		}
		parts = append(parts, fmt.Sprintf("%d:%d", i, len(h.Records)))
	}
	return strings.Join(parts, ",")
}

func (x *xworld) extraReads(op Op) {
	// queries
	_, _ = x.mk.GetMessageNonceCache(x.mctx)
	for i := 0; i < nVals; i++ {
		_, _ = x.mk.GetValidatorHistory(x.mctx, valAddr(i))
	}
	// the operation itself on discarded cache contexts (simulation / CheckTx)
	func() {
		defer func() { _ = recover() }()
		sm, sv, sp := x.mctx, x.vctx, x.w.pctx
		x.mctx, _ = sm.CacheContext()
		x.vctx, _ = sv.CacheContext()
		x.w.pctx, _ = sp.CacheContext()
		defer func() { x.mctx, x.vctx, x.w.pctx = sm, sv, sp }()
		switch op.Kind {
		case "rank", "worthy", "purge", "jail":
			x.apply(op)
		}
	}()
}

// ---- script generation ----

func goodCreator(i int) string {
	b := make([]byte, 20)
	b[0] = 0xC0
	b[19] = byte(i)
	return sdk.AccAddress(b).String()
}

// creatorOK: bech32 parsing is glue (not modelled): the SDK's own parser decides.
func creatorOK(s string) bool {
	_, err := sdk.AccAddressFromBech32(s)
	return err == nil
}

var badCreators = []string{"", "paloma1notbech32", "cosmos1qqqqqqqqqqqqqqqqqqqqqqqqqqqqqqqqnrql8a", "\x00\xff", "paloma1"}

func genStatus(run *emit.Run) Op {
	r := run.Rng
	op := Op{Kind: "status", Status: fmt.Sprintf("status-%d", r.Intn(1000))}
	if r.Intn(5) == 0 {
		op.Creator = badCreators[r.Intn(len(badCreators))]
	} else {
		op.Creator = goodCreator(r.Intn(8))
	}
	op.CreatorOK = creatorOK(op.Creator)
	switch r.Intn(6) {
	case 0:
		op.Level = []int32{3, 99, -1, 1 << 30, -(1 << 31)}[r.Intn(5)]
	default:
		op.Level = int32(r.Intn(3))
	}
	for k := r.Intn(3); k > 0; k-- {
		op.Args = append(op.Args, fmt.Sprintf("k%d", r.Intn(5)), fmt.Sprintf("v%d", r.Intn(5)))
	}
	return op
}

var e18 = new(big.Int).Exp(big.NewInt(10), big.NewInt(18), nil)

// genNearTie: a CHAIN of near-ties — neighbouring total scores closer than 1e-6 (or 1e-9, 1e-12 ...) while the outer
// ones are further apart — with the address order opposing the score order, plus one validator far away that
// spans the normalisation range.  Any "equal within a tolerance" comparison is not transitive on such a chain, and
// the result of sorting with it depends on the order in which the map hands out the entries.
func genNearTie(run *emit.Run) Op {
	r := run.Rng
	n := 3 + r.Intn(4)
	// step of the chain in units of 1e-18 relative to a span of 1.0: 6e-7 (seeded C08-D's tolerance is 1e-6), and other scales
	// ... up to 6e-2 (a "within 10 %" comparison); n <= 6 keeps the chain below the far validator
	step := []int64{600_000_000_000, 600_000_000_000, 400_000_000_000, 900_000_000_000, 600_000_000, 600_000, 6,
		600_000_000_000_000, 6_000_000_000_000_000, 60_000_000_000_000_000}[r.Intn(10)]
	col := 1 + r.Intn(5) // which metric carries the chain
	if col == 4 {
		col = 1 // execution time is whole numbers
	}
	ids := r.Perm(40)[:n+1]
	sort.Ints(ids)
	flat := []string{"0", e18.String(), new(big.Int).Div(e18, big.NewInt(2)).String()}[r.Intn(3)]
	ro := nearTieChain(step, n, col, ids, flat)
	r.Shuffle(len(ro.Rows), func(i, j int) { ro.Rows[i], ro.Rows[j] = ro.Rows[j], ro.Rows[i] })
	for k := range ro.W {
		ro.W[k] = e18.String()
	}
	if r.Intn(3) == 0 {
		ro.W[col-1] = new(big.Int).Div(e18, big.NewInt(2)).String()
	}
	return Op{Kind: "rank", Rank: ro}
}

// nearTieChain: n chain members with values 1.0 + k*step (k < n) on metric col and one far validator at 2.0; ids ascending.
func nearTieChain(step int64, n, col int, ids []int, flat string) *rankOp {
	ro := &rankOp{}
	for k := 0; k <= n; k++ {
		row := [6]string{fmt.Sprintf("%03d", ids[k]), flat, flat, flat, "0", flat}
		v := new(big.Int).Add(e18, big.NewInt(step*int64(k)))
		if k == n {
			v = new(big.Int).Mul(e18, big.NewInt(2)) // spans the range: (v - min) / (max - min) = k * step
		}
		row[col] = v.String()
		ro.Rows = append(ro.Rows, row)
	}
	// Address order must OPPOSE score order inside the chain.  ids ascend with k.  A "higher is better" metric ranks the
	// chain n-1, ..., 0 by score and 0, ..., n-1 by address: opposed as it is.  The fee is "smaller is better": score
	// order 0, ..., n-1, so the cheapest validator gets the largest address of the chain.
	if col == 1 {
		for k := 0; k < n/2; k++ {
			ro.Rows[k][0], ro.Rows[n-1-k][0] = ro.Rows[n-1-k][0], ro.Rows[k][0]
		}
	}
	for k := range ro.W {
		ro.W[k] = e18.String()
	}
	return ro
}

func corpusNearTies() []Op {
	var ops []Op
	step := int64(60_000_000_000_000_000)
	ids := []int{1, 2, 3, 5, 8, 13, 14, 15, 21, 22, 30, 34, 39}
	for i := 0; step >= 6; i, step = i+1, step/10 {
		ops = append(ops, Op{Kind: "rank", Rank: nearTieChain(step, 12, []int{1, 2, 3, 5}[i%4], ids, []string{"5", "0"}[i%2])})
	}
	return ops
}

func genRank(run *emit.Run) Op {
	r := run.Rng
	if r.Intn(3) == 0 {
		return genNearTie(run)
	}
	n := 1 + r.Intn(7)
	ro := &rankOp{}
	small := func() string { // tie-rich: few distinct values
		return new(big.Int).Mul(big.NewInt(int64(r.Intn(3))), new(big.Int).Div(e18, big.NewInt(2))).String()
	}
	wide := func() string {
		return new(big.Int).Rand(r, new(big.Int).Mul(e18, big.NewInt(3))).String()
	}
	tie := r.Intn(3)
	for _, id := range r.Perm(20)[:n] {
		row := [6]string{fmt.Sprintf("%03d", id)}
		for k := 1; k <= 5; k++ {
			if r.Intn(3) < tie {
				row[k] = small()
			} else {
				row[k] = wide()
			}
			if k == 4 { // execution time comes from a math.Int: whole numbers
				row[k] = new(big.Int).Mul(big.NewInt(int64(r.Intn(4))), e18).String()
			}
		}
		ro.Rows = append(ro.Rows, row)
	}
	for k := range ro.W {
		if r.Intn(2) == 0 {
			ro.W[k] = e18.String()
		} else {
			ro.W[k] = wide()
		}
	}
	return Op{Kind: "rank", Rank: ro}
}

func genWorthy(run *emit.Run) Op {
	r := run.Rng
	n := 1 + r.Intn(6)
	keys := r.Perm(12)[:n]
	present := append([]int{}, keys...)
	r.Shuffle(len(present), func(i, j int) { present[i], present[j] = present[j], present[i] })
	if r.Intn(2) == 0 { // replace some keys by fresh ones: same length, some missing
		for k := r.Intn(n) + 1; k > 0; k-- {
			present[r.Intn(n)] = 12 + r.Intn(50)
		}
		seen := map[int]bool{}
		for i := range present {
			for seen[present[i]] {
				present[i] = 100 + r.Intn(900)
			}
			seen[present[i]] = true
		}
	}
	if r.Intn(4) == 0 && n >= 2 { // one validator: some chains rotated their address, the others changed traits
		return Op{Kind: "worthy", Worthy: &worthyOp{Mixed: true, Keys: keys, Present: keys[:1+r.Intn(n-1)]}}
	}
	return Op{Kind: "worthy", Worthy: &worthyOp{Traits: r.Intn(2) == 0, Keys: keys, Present: present}}
}

func genJail(run *emit.Run) Op {
	r := run.Rng
	jo := &jailOp{Keys: r.Perm(10)[:1+r.Intn(6)]}
	for v := 0; v < 1+r.Intn(4); v++ {
		var ks []int
		for _, k := range r.Perm(10) {
			if r.Intn(2) == 0 {
				ks = append(ks, k)
			}
		}
		if r.Intn(3) == 0 {
			ks = append([]int{}, jo.Keys...)
		}
		jo.Vals = append(jo.Vals, ks)
	}
	return Op{Kind: "jail", Jail: jo}
}

// genScript: status updates interleaved with the map-consuming functions; message ids of the
// metrix events grow so that purges have something to purge (scoring window = 1000 ids).
func genScript(run *emit.Run, n int) []Op {
	r := run.Rng
	var s []Op
	msgID := uint64(1 + r.Intn(50))
	lnNext := r.Intn(1000) * 8
	for i := 0; i < n; i++ {
		switch k := r.Intn(25); {
		case k < 6:
			s = append(s, genStatus(run))
		case k < 9:
			s = append(s, genRank(run))
		case k < 11:
			s = append(s, genWorthy(run))
		case k < 13:
			s = append(s, genJail(run))
		case k < 14:
			s = append(s, Op{Kind: "publish", Publish: &publishOp{Subs: r.Perm(9)[:1+r.Intn(6)]}})
		case k < 18:
			msgID += uint64(1 + r.Intn(400))
			s = append(s, Op{Kind: "purge", Purge: &purgeOp{Attest: true, Val: r.Intn(nVals), MessageID: msgID, Success: r.Intn(3) > 0}})
		case k < 20:
			s = append(s, Op{Kind: "purge", Purge: &purgeOp{}})
		case k >= 23: // round 7: evidence tally after re-submissions of another proof type
			s = append(s, genEvidence(run))
		default: // round 3: licence + registration of a light-node client (calendar arithmetic on the block time)
			s = append(s, genLight(run, &lnNext)...)
		}
	}
	return s
}

// corpusScripts: minimised past failures, replayed first (harness/corpus/C08/).
func corpusScripts() [][]Op {
	return [][]Op{
		// F5: unknown level — failed tx on nodes that set PALOMA_FF_PIGEON_STATUS_UPDATE, success elsewhere (pinned tree)
		{{Kind: "status", Creator: goodCreator(1), CreatorOK: true, Level: 99, Status: "s"}},
		// F5b: malformed creator — error with the variable, success without (pinned tree)
		{{Kind: "status", Creator: "paloma1notbech32", CreatorOK: creatorOK("paloma1notbech32"), Level: 1, Status: "s"}},
		{{Kind: "status", Creator: goodCreator(2), CreatorOK: true, Level: 1, Status: "s", Args: []string{"a", "b"}}},
		// seeded C08-F: every known level from a valid creator — what the handler does after the flag test (only nodes
		// with the variable in their environment get there) must not be visible in state, result or EVENTS
		{{Kind: "status", Creator: goodCreator(3), CreatorOK: true, Level: 0, Status: "dbg"},
			{Kind: "status", Creator: goodCreator(3), CreatorOK: true, Level: 1, Status: "inf", Args: []string{"k", "v"}},
			{Kind: "status", Creator: goodCreator(4), CreatorOK: true, Level: 2, Status: "boom", Args: []string{"k", "v"}},
			{Kind: "status", Creator: goodCreator(4), CreatorOK: true, Level: 2, Status: ""}},
		// all-equal scores: the ranking is decided by the address tie-break alone
		{{Kind: "rank", Rank: &rankOp{Rows: [][6]string{{"007", "5", "5", "5", "0", "5"}, {"003", "5", "5", "5", "0", "5"}, {"011", "5", "5", "5", "0", "5"}, {"001", "5", "5", "5", "0", "5"}},
			W: [5]string{e18.String(), e18.String(), e18.String(), e18.String(), e18.String()}}}},
		// seeded C08-D: relayer fees 1.0 / 1.0000006 / 1.0000012 and 2.0, all else equal, the cheapest validator has the
		// largest address: a chain of near-ties (neighbours within 1e-6, the outer two not)
		{{Kind: "rank", Rank: &rankOp{Rows: [][6]string{{"030", "1000000000000000000", "5", "5", "0", "5"}, {"020", "1000000600000000000", "5", "5", "0", "5"},
			{"010", "1000001200000000000", "5", "5", "0", "5"}, {"040", "2000000000000000000", "5", "5", "0", "5"}},
			W: [5]string{e18.String(), e18.String(), e18.String(), e18.String(), e18.String()}}}},
		// the same at every scale: chains of 12 members with step 6e-2, 6e-3, ..., 6e-17 of the range — "equal within eps" is
		// cyclic on the chain with step s for every eps in (s, 11 s], so every eps between 6e-17 and 0.66 meets one of them
		corpusNearTies(),
		// seeded C08-M: one validator rotated its address on chain 1 and changed traits on chains 2 and 3
		{{Kind: "worthy", Worthy: &worthyOp{Mixed: true, Keys: []int{1, 2, 3}, Present: []int{1}}},
			{Kind: "worthy", Worthy: &worthyOp{Mixed: true, Keys: []int{4, 7}, Present: []int{7}}}},
		// seeded C08-P: evidence re-submitted with the other proof type before the tally
		corpusEvidence(),
		// seeded C08-C: month-end / DST / leap-day registrations of light-node clients
		corpusLight(),
	}
}

func resultCode(res string) int64 {
	switch res {
	case "ok":
		return 0
	case "err:creator":
		return 1
	case "err:level":
		return 2
	case "panic":
		return 3
	}
	return 9
}

func intsCoq(xs []int) string {
	s := make([]string, len(xs))
	for i, x := range xs {
		s[i] = emit.ZI(int64(x))
	}
	return emit.List(s)
}

// emitCases: one Coq case per (operation, environment): the model, given that environment, must
// produce the observed result.
func emitCases(run *emit.Run, script []Op, outs [][]stepOut, envs []twinEnv) {
	changed, rejected := false, false
	for k := range outs {
		prev := ""
		for i, o := range outs[k] {
			if o.Result != "ok" {
				rejected = true
			}
			if i > 0 && o.Digest != prev {
				changed = true
			}
			prev = o.Digest
		}
	}
	nontrivial := changed && rejected
	for i, op := range script {
		for k, e := range envs {
			o := outs[k][i]
			run.Count("ops", op.id())
			if strings.HasPrefix(o.Obs, "UNSTABLE") {
				run.Violate("C08:unstable-within-process:"+op.id(), fmt.Sprintf("operation %s gives different answers on the same input inside one process: %s", op.id(), o.Obs),
					map[string]any{"history": []Op{op}, "env": e, "output": o})
				continue
			}
			switch op.Kind {
			case "status":
				run.Count("status", fmt.Sprintf("%s flag=%v -> %s", op.id(), e.FlagSet, o.Result))
				run.Case(fmt.Sprintf("C08.CStatus %s %s %s %s", emit.Bool(e.FlagSet), emit.Bool(op.CreatorOK), emit.ZI(int64(op.Level)), emit.ZI(resultCode(o.Result))),
					nontrivial, map[string]any{"op": op, "env": e, "result": o.Result})
			case "rank":
				if k != 0 || o.Result != "ok" { // the streams are equal (oracle); one case per operation
					continue
				}
				var rows, got []string
				for _, r := range op.Rank.Rows {
					id, _ := new(big.Int).SetString(r[0], 10)
					rows = append(rows, emit.Pair(emit.Z(id), r[1], r[2], r[3], r[4], r[5]))
				}
				for _, p := range strings.Split(strings.TrimSuffix(o.Obs, ";"), ";") {
					kv := strings.SplitN(p, "=", 2)
					id, _ := new(big.Int).SetString(kv[0], 10)
					sc, _ := new(big.Int).SetString(kv[1], 10)
					got = append(got, emit.Pair(emit.Z(id), emit.Z(sc)))
				}
				run.Count("rank-size", fmt.Sprint(len(rows)))
				run.Case(fmt.Sprintf("C08.CRank %s %s %s", emit.List(rows), emit.Pair(op.Rank.W[0], op.Rank.W[1], op.Rank.W[2], op.Rank.W[3], op.Rank.W[4]), emit.List(got)), nontrivial, nil)
			case "worthy":
				if k != 0 || op.Worthy.Mixed {
					continue
				}
				run.Count("worthy", o.Obs)
				run.Case(fmt.Sprintf("C08.CAnyMissing %s %s %s", intsCoq(op.Worthy.Keys), intsCoq(op.Worthy.Present), o.Obs), nontrivial, nil)
			case "jail":
				if k != 0 {
					continue
				}
				// one case per validator: the chains named in its jail reason, in the order of the reason
				reasons := map[int]string{}
				if o.Obs != "" {
					for _, j := range strings.Split(o.Obs, "|") {
						kv := strings.SplitN(j, ":", 2)
						var vi int
						fmt.Sscan(kv[0], &vi)
						reasons[vi] = kv[1]
					}
				}
				for vi, ks := range op.Jail.Vals {
					var got []int
					if rs, ok := reasons[vi]; ok {
						rs = strings.TrimPrefix(rs, "not supporting these external chains: ")
						for _, p := range strings.Split(rs, "], [") {
							p = strings.Trim(p, "[]")
							var c int
							fmt.Sscanf(strings.TrimPrefix(p, "evm, c"), "%d", &c)
							got = append(got, c)
						}
					}
					run.Count("jail-missing", fmt.Sprint(len(got)))
					run.Case(fmt.Sprintf("C08.CSortedMissing %s %s %s", intsCoq(op.Jail.Keys), intsCoq(ks), intsCoq(got)), nontrivial, nil)
				}
			case "purge":
				if k != 0 || op.Purge.Attest {
					continue
				}
				emitPurgeCase(run, script[:i], o, nontrivial)
			case "evidence":
				if k != 0 || o.Result != "ok" {
					continue
				}
				emitEvidenceCase(run, op.Evidence, o, nontrivial)
			case "lightnode":
				// every twin's stored vesting period against the model (the model has no zone to look at)
				emitLightCase(run, script, i, o, nontrivial)
			case "publish":
				if k != 0 {
					continue
				}
				// handlers must have run in subscriber-id order
				want := append([]int{}, op.Publish.Subs...)
				sort.Ints(want)
				var ws []string
				for _, x := range want {
					ws = append(ws, fmt.Sprint(x))
				}
				if o.Obs != strings.Join(ws, ",") {
					run.Violate("C08:publish-order", "eventbus.Publish did not call the handlers in sorted subscriber order: "+o.Obs, map[string]any{"history": []Op{op}})
				}
			}
		}
	}
}

// emitPurgeCase: store before / after as the child observed them; the updates are recomputed here
// from the history so far (which records of which validator fall below the threshold).
func emitPurgeCase(run *emit.Run, prefix []Op, o stepOut, nontrivial bool) {
	parse := func(s string) map[int]int {
		m := map[int]int{}
		if s == "" {
			return m
		}
		for _, p := range strings.Split(s, ",") {
			var v, c int
			fmt.Sscanf(p, "%d:%d", &v, &c)
			m[v] = c
		}
		return m
	}
	ba := strings.SplitN(o.Obs, "|", 3)
	if len(ba) < 2 {
		return
	}
	before, after := parse(ba[0]), parse(ba[1])
	// replay the attest events: per validator the message ids recorded since its last purge
	ids := map[int][]uint64{}
	var last uint64
	for _, p := range prefix {
		if p.Kind != "purge" {
			continue
		}
		if p.Purge.Attest {
			l := ids[p.Purge.Val]
			if len(l) >= 100 {
				l = l[1:]
			}
			ids[p.Purge.Val] = append(l, p.Purge.MessageID)
			last = p.Purge.MessageID
		} else if last > 1000 {
			for v, l := range ids {
				var keep []uint64
				for i, id := range l {
					if id >= last-1000 {
						keep = l[i:]
						break
					}
				}
				ids[v] = keep
			}
		}
	}
	var ups [][2]int
	if last > 1000 {
		for v, l := range ids {
			kept := 0
			for i, id := range l {
				if id >= last-1000 {
					kept = len(l) - i
					break
				}
			}
			if kept != len(l) || len(l) == 0 {
				ups = append(ups, [2]int{v, kept})
			}
		}
	}
	// the order in which the updates are listed is arbitrary (a Go map here too): the model must not care
	coq := func(m map[int]int) string {
		var ks []int
		for k := range m {
			ks = append(ks, k)
		}
		sort.Ints(ks)
		var s []string
		for _, k := range ks {
			s = append(s, emit.Pair(emit.ZI(int64(k)), emit.ZI(int64(m[k]))))
		}
		return emit.List(s)
	}
	var us []string
	for _, u := range ups {
		us = append(us, emit.Pair(emit.ZI(int64(u[0])), emit.ZI(int64(u[1]))))
	}
	run.Count("purge-updates", fmt.Sprint(len(ups)))
	run.Case(fmt.Sprintf("C08.CPurge %s %s %s", coq(before), emit.List(us), coq(after)), nontrivial, nil)
}
