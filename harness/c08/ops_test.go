//go:build verif

package c08

import (
	"fmt"
	"testing"

	sdk "github.com/cosmos/cosmos-sdk/types"
	"github.com/palomachain/paloma/v2/verifharness/emit"
)

type rankOp struct{}
type worthyOp struct{}
type purgeOp struct{}
type jailOp struct{}
type publishOp struct{}

type xworld struct {
	t *testing.T
	w *world
}

func newXWorld(t *testing.T, w *world) *xworld { return &xworld{t: t, w: w} }

func (x *xworld) apply(op Op) (string, string) {
	x.t.Fatalf("unknown operation kind %q", op.Kind)
	return "", ""
}
func (x *xworld) extraReads(op Op) {}

// ---- script generation ----

func goodCreator(i int) string {
	b := make([]byte, 20)
	b[0] = 0xC0
	b[19] = byte(i)
	return sdk.AccAddress(b).String()
}

// creatorOK: bech32 parsing is glue (not modelled): the SDK's own parser decides.
func creatorOK(s string) bool {
	_, err := sdk.AccAddressFromBech32(s)
	return err == nil
}

var badCreators = []string{"", "paloma1notbech32", "cosmos1qqqqqqqqqqqqqqqqqqqqqqqqqqqqqqqqnrql8a", "\x00\xff", "paloma1"}

func genStatus(run *emit.Run) Op {
	r := run.Rng
	op := Op{Kind: "status", Status: fmt.Sprintf("status-%d", r.Intn(1000))}
	if r.Intn(5) == 0 {
		op.Creator = badCreators[r.Intn(len(badCreators))]
	} else {
		op.Creator = goodCreator(r.Intn(8))
	}
	op.CreatorOK = creatorOK(op.Creator)
	switch r.Intn(6) {
	case 0:
		op.Level = []int32{3, 99, -1, 1 << 30, -(1 << 31)}[r.Intn(5)]
	default:
		op.Level = int32(r.Intn(3))
	}
	for k := r.Intn(3); k > 0; k-- {
		op.Args = append(op.Args, fmt.Sprintf("k%d", r.Intn(5)), fmt.Sprintf("v%d", r.Intn(5)))
	}
	return op
}

func genScript(run *emit.Run, n int) []Op {
	var s []Op
	for i := 0; i < n; i++ {
		s = append(s, genStatus(run))
	}
	return s
}

// corpusScripts: minimised past failures, replayed first (harness/corpus/C08/).
func corpusScripts() [][]Op {
	return [][]Op{
		// F5: unknown level — failed tx on nodes that set PALOMA_FF_PIGEON_STATUS_UPDATE, success elsewhere (pinned tree)
		{{Kind: "status", Creator: goodCreator(1), CreatorOK: true, Level: 99, Status: "s"}},
		// F5b: malformed creator — error with the variable, success without (pinned tree)
		{{Kind: "status", Creator: "paloma1notbech32", CreatorOK: creatorOK("paloma1notbech32"), Level: 1, Status: "s"}},
		{{Kind: "status", Creator: goodCreator(2), CreatorOK: true, Level: 1, Status: "s", Args: []string{"a", "b"}}},
	}
}

func resultCode(res string) int64 {
	switch res {
	case "ok":
		return 0
	case "err:creator":
		return 1
	case "err:level":
		return 2
	case "panic":
		return 3
	}
	return 9
}

// emitCases: one Coq case per (operation, environment): the model, given that environment, must
// produce the observed result.
func emitCases(run *emit.Run, script []Op, outs [][]stepOut, envs []twinEnv) {
	changed, rejected := false, false
	for k := range outs {
		prev := ""
		for i, o := range outs[k] {
			if o.Result != "ok" {
				rejected = true
			}
			if i > 0 && o.Digest != prev {
				changed = true
			}
			prev = o.Digest
		}
	}
	nontrivial := changed && rejected
	for i, op := range script {
		for k, e := range envs {
			o := outs[k][i]
			switch op.Kind {
			case "status":
				run.Count("status", fmt.Sprintf("%s flag=%v -> %s", op.id(), e.FlagSet, o.Result))
				run.Case(fmt.Sprintf("C08.CStatus %s %s %s %s", emit.Bool(e.FlagSet), emit.Bool(op.CreatorOK), emit.ZI(int64(op.Level)), emit.ZI(resultCode(o.Result))),
					nontrivial, map[string]any{"op": op, "env": e, "result": o.Result})
			default:
				emitXCase(run, op, o, e, nontrivial)
			}
		}
	}
}

func emitXCase(run *emit.Run, op Op, o stepOut, e twinEnv, nontrivial bool) {}
