//go:build verif

package c08

// Round 4.
//
// (1) The paloma ante decorators of app.go (LogMsgDecorator, VerifyAuthorisedSignatureDecorator,
// GasExemptAddressDecorator, chained with sdk.ChainAnteDecorators in that order) in front of every
// transaction of the full-application twin, in CheckTx mode for the simulated execution and in
// deliver mode for the delivery.  The SDK's base ante handler (signatures, sequence numbers, fees —
// TxFeeSkipper charges none) is not run: the scripts carry no signed transactions.  The ante chain
// is an object of the PROCESS: it is constructed when the application is (bind), so a restarted
// twin gets a new one.  Every transaction runs under its own gas meter and the gas it used is part
// of its result, as it is part of a block's results hash.
//
// (2) A slow node: a logger that sleeps on every call (bounded per block), installed for the
// execution of ONE end blocker of a marked block in one twin.  A node is slow for reasons that are
// not chain history — disk, log sink, GC, catching up; nothing it executes may depend on it.

import (
	"fmt"
	"os"
	"time"

	"cosmossdk.io/log"
	storetypes "cosmossdk.io/store/types"
	feegrant "cosmossdk.io/x/feegrant"
	feegrantkeeper "cosmossdk.io/x/feegrant/keeper"
	"github.com/cosmos/cosmos-sdk/codec/address"
	"github.com/cosmos/cosmos-sdk/runtime"
	sdk "github.com/cosmos/cosmos-sdk/types"
	authkeeper "github.com/cosmos/cosmos-sdk/x/auth/keeper"
	authtypes "github.com/cosmos/cosmos-sdk/x/auth/types"
	govtypes "github.com/cosmos/cosmos-sdk/x/gov/types"
	params2 "github.com/palomachain/paloma/v2/app/params"
	"github.com/palomachain/paloma/v2/x/paloma"
	palomatypes "github.com/palomachain/paloma/v2/x/paloma/types"
	valsettypes "github.com/palomachain/paloma/v2/x/valset/types"
	"google.golang.org/protobuf/reflect/protoreflect"
)

// ---- ante chain ----

func (w *appWorld) buildAnte() sdk.AnteHandler {
	f := w.f
	var authKey, fgKey storetypes.StoreKey
	for _, k := range w.keys {
		switch k.name {
		case authtypes.StoreKey:
			authKey = k.key
		case feegrant.StoreKey:
			fgKey = k.key
		}
	}
	if authKey == nil || fgKey == nil {
		w.t.Fatalf("fixture has no auth / feegrant store")
	}
	// the fixture keeps its account and feegrant keepers to itself: the same keepers over the same stores
	ak := authkeeper.NewAccountKeeper(f.Codec, runtime.NewKVStoreService(authKey.(*storetypes.KVStoreKey)), authtypes.ProtoBaseAccount, nil,
		address.Bech32Codec{Bech32Prefix: params2.AccountAddressPrefix}, params2.AccountAddressPrefix, lnStr(authtypes.NewModuleAddress(govtypes.ModuleName)))
	fk := feegrantkeeper.NewKeeper(f.Codec, runtime.NewKVStoreService(fgKey.(*storetypes.KVStoreKey)), ak)
	return sdk.ChainAnteDecorators(
		paloma.NewLogMsgDecorator(f.Codec),
		paloma.NewVerifyAuthorisedSignatureDecorator(fk),
		paloma.NewGasExemptAddressDecorator(f.PalomaKeeper),
	)
}

// anteTx: what the ante decorators see of a scripted transaction — its fee payer (the account of the first message's
// validator) and those of its messages that are sdk.Msgs built without the state (status updates, keep-alives).
type anteTx struct {
	payer sdk.AccAddress
	msgs  []sdk.Msg
}

func (t anteTx) GetMsgs() []sdk.Msg                                { return t.msgs }
func (t anteTx) GetMsgsV2() ([]protoreflect.ProtoMessage, error)   { return nil, nil }
func (t anteTx) GetGas() uint64                                    { return 10_000_000 }
func (t anteTx) GetFee() sdk.Coins                                 { return sdk.NewCoins() }
func (t anteTx) FeePayer() []byte                                  { return t.payer }
func (t anteTx) FeeGranter() []byte                                { return nil }

func (w *appWorld) anteTxOf(tx appTx) anteTx {
	at := anteTx{}
	for i, m := range tx.Msgs {
		v := m.Val % len(w.vals)
		if i == 0 {
			at.payer = sdk.AccAddress(w.vals[v])
		}
		switch m.Kind {
		case "status":
			if len(m.Data) < 4 || m.Data[:4] != "bad:" {
				at.msgs = append(at.msgs, &palomatypes.MsgAddStatusUpdate{Status: m.Data, Level: palomatypes.MsgAddStatusUpdate_Level(m.Level), Metadata: w.meta(v)})
			}
		case "keepalive":
			at.msgs = append(at.msgs, &valsettypes.MsgKeepAlive{PigeonVersion: m.Data, Metadata: w.meta(v)})
		}
	}
	return at
}

// gasExempt: governance sets x/paloma's GasExemptAddresses through the x/params proposal handler.
func (w *appWorld) gasExempt(ctx sdk.Context, vals []int) error {
	list := "["
	for i, v := range vals {
		if i > 0 {
			list += ","
		}
		list += fmt.Sprintf("%q", w.acc(v))
	}
	list += "]"
	sub, ok := w.f.ParamsKeeper.GetSubspace(palomatypes.ModuleName)
	if !ok {
		return fmt.Errorf("no params subspace for x/paloma")
	}
	// what x/params' ParameterChangeProposal handler does for one change
	return sub.Update(ctx, palomatypes.KeyGasExcemptAddresses, []byte(list))
}

// ---- slow node ----

// slowLogger: an EPISODE of slowness — from the from-th logger call of the blocker on, `naps` calls sleep `each`.
type slowLogger struct {
	in    log.Logger
	each  time.Duration
	from  int
	naps  int
	calls *int
}

func (l slowLogger) nap() {
	*l.calls++
	if n := *l.calls - 1 - l.from; n >= 0 && n < l.naps {
		time.Sleep(l.each)
	}
}
func (l slowLogger) Info(msg string, kv ...any)  { l.nap(); l.in.Info(msg, kv...) }
func (l slowLogger) Warn(msg string, kv ...any)  { l.nap(); l.in.Warn(msg, kv...) }
func (l slowLogger) Error(msg string, kv ...any) { l.nap(); l.in.Error(msg, kv...) }
func (l slowLogger) Debug(msg string, kv ...any) { l.nap(); l.in.Debug(msg, kv...) }
func (l slowLogger) With(kv ...any) log.Logger {
	return slowLogger{in: l.in.With(kv...), each: l.each, from: l.from, naps: l.naps, calls: l.calls}
}
func (l slowLogger) Impl() any { return l.in.Impl() }

// slowCtx: ctx with a logger that sleeps 150 ms in each of 8 consecutive calls (1.2 s), starting with call number `from`.
func slowCtx(ctx sdk.Context, from int) sdk.Context {
	calls := 0
	if v := os.Getenv("C08_SLOWFROM"); v != "" { // experiments
		fmt.Sscan(v, &from)
	}
	return ctx.WithLogger(slowLogger{in: ctx.Logger(), each: 150 * time.Millisecond, from: from, naps: 8, calls: &calls})
}
