package c16

// Correspondence harness + direct oracle for C16 (x/tokenfactory).
//
// Every history is driven through the REAL msg server (keeper.NewMsgServerImpl) over the REAL bank
// keeper, delivered the way the chain delivers a message: ValidateBasic, then the handler under a
// cache context that is written back only when the handler returns nil (a panic is recovered and
// discarded, as baseapp's runTx does).  After every step the harness
//   * records outcome class + projected observables for the Coq model (Corr/C16.v), and
//   * evaluates the property's direct oracle on the real state (run.Violate on failure).

import (
	"encoding/json"
	"errors"
	"fmt"
	"math/big"
	"math/rand"
	"os"
	"path/filepath"
	"sort"
	"strconv"
	"strings"
	"testing"

	sdkmath "cosmossdk.io/math"
	sdk "github.com/cosmos/cosmos-sdk/types"
	"github.com/cosmos/cosmos-sdk/types/bech32"
	sdkerrors "github.com/cosmos/cosmos-sdk/types/errors"
	authtypes "github.com/cosmos/cosmos-sdk/x/auth/types"
	banktypes "github.com/cosmos/cosmos-sdk/x/bank/types"
	govtypes "github.com/cosmos/cosmos-sdk/x/gov/types"
	minttypes "github.com/cosmos/cosmos-sdk/x/mint/types"
	"github.com/palomachain/paloma/v2/verifharness/emit"
	tftypes "github.com/palomachain/paloma/v2/x/tokenfactory/types"
)

// ---- a concrete, replayable operation ----
type opRec struct {
	Kind     string `json:"kind"` // create mint burn chadmin setmeta xsend xmint xburn
	Sender   string `json:"sender,omitempty"`
	Denom    string `json:"denom,omitempty"` // denom / subdenom (create) / metadata base
	NewAdmin string `json:"new_admin,omitempty"`
	To       string `json:"to,omitempty"` // xsend recipient
	Amount   string `json:"amount,omitempty"`
	Tag      int64  `json:"tag,omitempty"`
	BadMeta  bool   `json:"bad_meta,omitempty"`
	Outcome  string `json:"outcome,omitempty"` // filled in when executed
	// second round (extended histories): kinds raw:<kind>, wcreate wmint wburn wchadmin wsetmeta, params, genesis
	Contract  int      `json:"contract,omitempty"`  // which contract sends a w* op
	HasMd     bool     `json:"has_md,omitempty"`    // wcreate carries metadata
	MdBase    string   `json:"md_base,omitempty"`   // metadata.Base as written by the contract
	Authority string   `json:"authority,omitempty"` // params: MsgUpdateParams.Authority
	NewFee    []feeRec `json:"new_fee,omitempty"`   // params: the coins as written (possibly invalid)
	// third round: kind "tx" (a whole transaction), "grant" / "revoke" (fee allowance Sender -> To)
	Signers []string `json:"signers,omitempty"` // Metadata.Signers of a message inside a tx (default: the creator)
	Msgs    []opRec  `json:"msgs,omitempty"`    // the messages of a tx
}

type feeRec struct {
	Denom  string `json:"denom"`
	Amount string `json:"amount"`
}

type setup struct {
	Users int      `json:"users"`
	Fee   []string `json:"fee"` // coins "10ugrain"
	Ops   []opRec  `json:"ops"`
	Seed  int64    `json:"seed,omitempty"`
	Index int      `json:"index,omitempty"`
	Ext   bool     `json:"ext,omitempty"` // extended history (bindings, raw calls, params, genesis)
	Raw   bool     `json:"raw,omitempty"` // contains raw msg-server calls: the delivery oracle is off
}

const (
	idTF    = 100
	idDistr = 101
)

var outcomeName = map[int]string{0: "ok", 1: "validate", 2: "notexist", 3: "unauthorized", 4: "invaliddenom", 5: "exists",
	6: "hassupply", 7: "naming", 8: "funds", 9: "blocked", 10: "addr", 11: "meta", 12: "panic", 13: "badrequest", 14: "ante", 99: "other"}

type hist struct {
	e       *env
	run     *emit.Run
	strs    []string
	sidx    map[string]int
	users   []sdk.AccAddress
	acctID  map[string]int64 // raw address bytes -> id
	nextID  int64
	watch   []int64
	watchA  []sdk.AccAddress
	fee     sdk.Coins
	created []string
	isCreat map[string]bool
	ghost   map[string]*big.Int // minted - burned + external, per denom, by successful ops
	steps   []string
	ops     []opRec
	nOK     int
	nRej    int
	st      setup
	// second round
	lastErr error
	x       *xext               // non-nil: extended history (chain_test.go)
	idx     map[string][]string // ghost of the creator -> denoms index, by the creator string as written
	addrBy  map[int64]sdk.AccAddress
}

func userAddr(i int) sdk.AccAddress {
	n := 20
	if i == 4 {
		n = 32
	}
	b := make([]byte, n)
	copy(b, []byte(fmt.Sprintf("c16user%d", i)))
	b[n-1] = byte(0x10 + i)
	b[0] = byte(0x21 + 37*i) // spread the first bech32 characters
	return sdk.AccAddress(b)
}

func newHist(t testing.TB, run *emit.Run, st setup) *hist {
	h := &hist{e: newEnv(t), run: run, sidx: map[string]int{}, acctID: map[string]int64{}, nextID: 200,
		isCreat: map[string]bool{}, ghost: map[string]*big.Int{}, st: st, idx: map[string][]string{}, addrBy: map[int64]sdk.AccAddress{}}
	for i := 0; i < st.Users; i++ {
		a := userAddr(i)
		h.users = append(h.users, a)
		h.acctID[string(a)] = int64(i + 1)
		h.addrBy[int64(i+1)] = a
		h.watch = append(h.watch, int64(i+1))
		h.watchA = append(h.watchA, a)
	}
	h.acctID[string(h.e.tfMod)] = idTF
	h.acctID[string(h.e.dsMod)] = idDistr
	h.addrBy[idTF], h.addrBy[idDistr] = h.e.tfMod, h.e.dsMod
	h.watch = append(h.watch, idTF, idDistr)
	h.watchA = append(h.watchA, h.e.tfMod, h.e.dsMod)
	var fee sdk.Coins
	for _, f := range st.Fee {
		c, err := sdk.ParseCoinNormalized(f)
		if err != nil {
			t.Fatal(err)
		}
		fee = fee.Add(c)
	}
	h.fee = fee
	h.e.tk.SetParams(h.e.ctx, tftypes.Params{DenomCreationFee: fee})
	return h
}

func (h *hist) S(s string) int {
	if i, ok := h.sidx[s]; ok {
		return i
	}
	i := len(h.strs)
	h.strs = append(h.strs, s)
	h.sidx[s] = i
	return i
}

func (h *hist) idOf(a sdk.AccAddress) int64 {
	if id, ok := h.acctID[string(a)]; ok {
		return id
	}
	h.nextID++
	h.acctID[string(a)] = h.nextID
	h.addrBy[h.nextID] = a
	return h.nextID
}

func coqStr(s string) string {
	for i := 0; i < len(s); i++ {
		if s[i] < 32 || s[i] > 126 {
			return "(bytes_str " + emit.Bytes([]byte(s)) + ")"
		}
	}
	return emit.Str(s)
}

func classify(kind string, err error) int {
	switch {
	case err == nil:
		return 0
	case errors.Is(err, tftypes.ErrDenomDoesNotExist):
		return 2
	case errors.Is(err, tftypes.ErrUnauthorized):
		return 3
	case errors.Is(err, tftypes.ErrInvalidDenom):
		return 4
	case errors.Is(err, tftypes.ErrDenomExists):
		return 5
	case strings.Contains(err.Error(), "can't create subdenoms that are the same as a native denom"):
		return 6
	case errors.Is(err, tftypes.ErrSubdenomTooLong), errors.Is(err, tftypes.ErrCreatorTooLong), errors.Is(err, tftypes.ErrInvalidCreator):
		return 7
	case errors.Is(err, sdkerrors.ErrInsufficientFunds):
		return 8
	case errors.Is(err, sdkerrors.ErrUnauthorized):
		return 9
	case kind == "chadmin":
		return 10 // bech32 error of the new admin (metadata.Validate)
	}
	return 99
}

type dobs struct {
	denom  string
	supply *big.Int
	bals   []*big.Int
	admin  int // -1 none, else string index
	adminS string
	tag    int64
}

func (h *hist) observe(d string) dobs { return h.observeAt(h.e.ctx, d) }

func (h *hist) observeAt(ctx sdk.Context, d string) dobs {
	o := dobs{denom: d, supply: new(big.Int), admin: -1, tag: -1}
	valid := sdk.ValidateDenom(d) == nil
	if valid {
		o.supply = h.e.bk.GetSupply(ctx, d).Amount.BigInt()
	}
	for _, a := range h.watchA {
		if valid {
			o.bals = append(o.bals, h.e.bk.GetBalance(ctx, a, d).Amount.BigInt())
		} else {
			o.bals = append(o.bals, new(big.Int))
		}
	}
	if h.e.tk.GetDenomPrefixStore(ctx, d).Has([]byte(tftypes.DenomAuthorityMetadataKey)) {
		md, err := h.e.tk.GetAuthorityMetadata(ctx, d)
		if err == nil {
			o.admin = h.S(md.Admin)
			o.adminS = md.Admin
		}
	}
	if md, ok := h.e.bk.GetDenomMetaData(ctx, d); ok {
		o.tag = 0
		if md.Description != "" {
			o.tag, _ = strconv.ParseInt(md.Description, 10, 64)
		}
	}
	return o
}

// zx prints a Z literal in hexadecimal (Coq parses long decimal literals very slowly).
func zx(x *big.Int) string {
	if x.Sign() < 0 {
		return "(-0x" + new(big.Int).Neg(x).Text(16) + ")"
	}
	return "0x" + x.Text(16)
}

func (h *hist) obsTerm(o dobs) string {
	var sp []string
	for i, b := range o.bals {
		if b.Sign() != 0 {
			sp = append(sp, fmt.Sprintf("B %d %s", i, zx(b)))
		}
	}
	return fmt.Sprintf("DObs %d %s %s %d %d", h.S(o.denom), zx(o.supply), emit.List(sp), o.admin+1, o.tag+1)
}

func metaFor(d string, tag int64, bad bool) banktypes.Metadata {
	md := banktypes.Metadata{Description: strconv.FormatInt(tag, 10), Base: d, Display: d, Name: "n", Symbol: "s",
		DenomUnits: []*banktypes.DenomUnit{{Denom: d, Exponent: 0}}}
	if bad {
		md.Name = ""
	}
	return md
}

func parseAmt(s string) *big.Int {
	x, ok := new(big.Int).SetString(s, 10)
	if !ok {
		return new(big.Int)
	}
	return x
}

// deliver: ValidateBasic, then the handler under a cache context committed only on success.
func (h *hist) deliver(kind string, vb func() error, call func(ctx sdk.Context) (string, error)) (code int, ret string) {
	if vb != nil {
		if err := vb(); err != nil {
			return 1, ""
		}
	}
	cctx, write := h.e.ctx.CacheContext()
	func() {
		defer func() {
			if r := recover(); r != nil {
				code, ret = 12, ""
			}
		}()
		r, err := call(cctx)
		h.lastErr = err
		code = classify(kind, err)
		if err == nil {
			ret = r
			write()
		}
	}()
	return code, ret
}

func (h *hist) violate(id, what string) {
	if h.x != nil && h.x.raw && id != "C16:unclassified-error" {
		// raw histories call the msg server as nobody on the chain can: only model = code is checked
		h.run.Count("raw-history-oracle-off", id)
		return
	}
	st := h.st
	st.Ops = append([]opRec{}, h.ops...)
	h.run.Violate(id, what, st)
}

// exec runs one concrete op on the real code, records the model step, and evaluates the oracle.
func (h *hist) exec(r opRec) {
	ctx := h.e.ctx
	amt := parseAmt(r.Amount)
	var term string
	var code int
	var ret string
	watchD := []string{}
	var before dobs
	target := r.Denom
	switch r.Kind {
	case "create":
		target = strings.Join([]string{"factory", r.Sender, r.Denom}, "/")
		before = h.observe(target)
		snap := h.feeSnap(r.Sender)
		defer func() { h.feeOracle(r.Kind, r.Sender, code == 0, snap) }()
		m := tftypes.NewMsgCreateDenom(r.Sender, r.Denom)
		m.Metadata.Signers = h.signersFor(r.Sender)
		code, ret = h.deliver(r.Kind, m.ValidateBasic, func(c sdk.Context) (string, error) {
			resp, err := h.e.srv.CreateDenom(c, m)
			if err != nil {
				return "", err
			}
			return resp.NewTokenDenom, nil
		})
		term = fmt.Sprintf("KCreate %d %d", h.S(r.Sender), h.S(r.Denom))
		watchD = append(watchD, target)
		for _, f := range h.fee {
			watchD = append(watchD, f.Denom)
		}
		if r.Denom != "" && sdk.ValidateDenom(r.Denom) == nil {
			watchD = append(watchD, r.Denom)
		}
	case "mint", "burn":
		before = h.observe(target)
		coin := sdk.Coin{Denom: r.Denom, Amount: sdkmath.NewIntFromBigInt(amt)}
		if r.Kind == "mint" {
			m := tftypes.NewMsgMint(r.Sender, coin)
			m.Metadata.Signers = h.signersFor(r.Sender)
			code, _ = h.deliver(r.Kind, m.ValidateBasic, func(c sdk.Context) (string, error) { _, err := h.e.srv.Mint(c, m); return "", err })
			term = fmt.Sprintf("KMint %d %d %s", h.S(r.Sender), h.S(r.Denom), zx(amt))
		} else {
			m := tftypes.NewMsgBurn(r.Sender, coin)
			m.Metadata.Signers = h.signersFor(r.Sender)
			code, _ = h.deliver(r.Kind, m.ValidateBasic, func(c sdk.Context) (string, error) { _, err := h.e.srv.Burn(c, m); return "", err })
			term = fmt.Sprintf("KBurn %d %d %s", h.S(r.Sender), h.S(r.Denom), zx(amt))
		}
		watchD = append(watchD, target)
	case "chadmin":
		before = h.observe(target)
		m := tftypes.NewMsgChangeAdmin(r.Sender, r.Denom, r.NewAdmin)
		m.Metadata.Signers = h.signersFor(r.Sender)
		code, _ = h.deliver(r.Kind, m.ValidateBasic, func(c sdk.Context) (string, error) { _, err := h.e.srv.ChangeAdmin(c, m); return "", err })
		term = fmt.Sprintf("KChangeAdmin %d %d %d", h.S(r.Sender), h.S(r.Denom), h.S(r.NewAdmin))
		watchD = append(watchD, target)
	case "setmeta":
		before = h.observe(target)
		md := metaFor(r.Denom, r.Tag, r.BadMeta)
		m := tftypes.NewMsgSetDenomMetadata(r.Sender, md)
		m.Metadata.Signers = h.signersFor(r.Sender)
		code, _ = h.deliver(r.Kind, m.ValidateBasic, func(c sdk.Context) (string, error) { _, err := h.e.srv.SetDenomMetadata(c, m); return "", err })
		term = fmt.Sprintf("KSetMeta %d %d %s %d", h.S(r.Sender), h.S(r.Denom), emit.Bool(md.Validate() == nil), r.Tag)
		watchD = append(watchD, target)
	case "xsend", "xmint", "xburn":
		// other actors on the same bank: valid denoms, positive amounts, known accounts only
		before = h.observe(target)
		a, err := sdk.AccAddressFromBech32(r.Sender)
		if err != nil || sdk.ValidateDenom(r.Denom) != nil || amt.Sign() <= 0 {
			return
		}
		coins := sdk.NewCoins(sdk.NewCoin(r.Denom, sdkmath.NewIntFromBigInt(amt)))
		switch r.Kind {
		case "xsend":
			to, err := sdk.AccAddressFromBech32(r.To)
			if err != nil {
				return
			}
			code, _ = h.deliver(r.Kind, nil, func(c sdk.Context) (string, error) { return "", h.e.bk.SendCoins(c, a, to, coins) })
			term = fmt.Sprintf("KXSend %d %d %d %s", h.idOf(a), h.idOf(to), h.S(r.Denom), zx(amt))
		case "xmint":
			code, _ = h.deliver(r.Kind, nil, func(c sdk.Context) (string, error) {
				if err := h.e.bk.MintCoins(c, minttypes.ModuleName, coins); err != nil {
					return "", err
				}
				return "", h.e.bk.SendCoinsFromModuleToAccount(c, minttypes.ModuleName, a, coins)
			})
			term = fmt.Sprintf("KXMint %d %d %s", h.idOf(a), h.S(r.Denom), zx(amt))
			if code == 0 {
				h.addGhost(r.Denom, amt)
			}
		case "xburn":
			code, _ = h.deliver(r.Kind, nil, func(c sdk.Context) (string, error) {
				if err := h.e.bk.SendCoinsFromAccountToModule(c, a, minttypes.ModuleName, coins); err != nil {
					return "", err
				}
				return "", h.e.bk.BurnCoins(c, minttypes.ModuleName, coins)
			})
			term = fmt.Sprintf("KXBurn %d %d %s", h.idOf(a), h.S(r.Denom), zx(amt))
			if code == 0 {
				h.addGhost(r.Denom, new(big.Int).Neg(amt))
			}
		}
		watchD = append(watchD, target)
	default:
		return
	}
	_ = ctx
	r.Outcome = outcomeName[code]
	h.ops = append(h.ops, r)
	h.run.Count("op", r.Kind)
	h.run.Count("outcome", r.Kind+":"+outcomeName[code])
	if code == 0 {
		h.nOK++
	} else {
		h.nRej++
	}
	if code == 99 {
		h.violate("C16:unclassified-error", fmt.Sprintf("%s returned an error the harness cannot classify: %v", r.Kind, h.lastErr))
	}

	// ---- direct oracle on the real state ----
	after := h.observe(target)
	h.oracle(r, code, ret, amt, target, before, after)
	if h.x != nil && h.x.raw && (r.Kind == "mint" || r.Kind == "burn") && sdk.ValidateDenom(target) == nil {
		h.ghost[target] = h.e.bk.GetSupply(h.e.ctx, target).Amount.BigInt()
	}

	// ---- model step ----
	nd := -1
	if r.Kind == "create" && code == 0 {
		nd = h.S(ret)
	}
	seen := map[string]bool{}
	var obs []string
	for _, d := range watchD {
		if seen[d] {
			continue
		}
		seen[d] = true
		obs = append(obs, h.obsTerm(h.observe(d)))
	}
	if h.x != nil {
		h.steps = append(h.steps, fmt.Sprintf("XStep (XK (%s)) %d %d %s %s", term, code, nd+1, emit.List(obs), emit.List(h.extObs(r, code))))
		return
	}
	h.steps = append(h.steps, fmt.Sprintf("Step (%s) %d %d %s", term, code, nd+1, emit.List(obs)))
}

// signersFor: in first-round histories the signer is the creator (the constructors' choice).  In
// extended histories every other message is signed by some OTHER valid account: ValidateBasic must
// judge the creator on its own, whoever signs (binding creator to signers is the ante decorator's
// job, property C03).
func (h *hist) signersFor(creator string) []string {
	if h.x != nil && len(h.ops)%2 == 1 {
		h.run.Count("signers", "other-valid-account")
		return []string{h.users[len(h.ops)%len(h.users)].String()}
	}
	return []string{creator}
}

func (h *hist) addGhost(d string, x *big.Int) {
	g := h.ghost[d]
	if g == nil {
		g = new(big.Int)
		h.ghost[d] = g
	}
	g.Add(g, x)
}

func eqBals(a, b []*big.Int, except int, delta *big.Int) bool {
	for i := range a {
		want := new(big.Int).Set(a[i])
		if i == except {
			want.Add(want, delta)
		}
		if want.Cmp(b[i]) != 0 {
			return false
		}
	}
	return true
}

// oracle: the property itself, evaluated on the real keepers' state around one step.
func (h *hist) oracle(r opRec, code int, ret string, amt *big.Int, target string, before, after dobs) {
	ok := code == 0
	privileged := r.Kind == "mint" || r.Kind == "burn" || r.Kind == "chadmin" || r.Kind == "setmeta"
	if privileged && ok {
		// only the current admin; the admin is a real account; the denom was created by the factory
		if before.admin < 0 || before.adminS != r.Sender || r.Sender == "" {
			h.violate("C16:non-admin-acted", fmt.Sprintf("%s on %q by %q succeeded, admin was %q (record present: %v)", r.Kind, target, r.Sender, before.adminS, before.admin >= 0))
		}
		if !h.isCreat[target] {
			h.violate("C16:foreign-denom-touched", fmt.Sprintf("%s on %q succeeded but the denom was never created through the factory", r.Kind, target))
		}
		if _, _, err := tftypes.DeconstructDenom(target); err != nil {
			h.violate("C16:foreign-denom-touched", fmt.Sprintf("%s on %q succeeded but the denom does not deconstruct: %v", r.Kind, target, err))
		}
	}
	if (r.Kind == "mint" || r.Kind == "burn") && ok {
		delta := new(big.Int).Set(amt)
		if r.Kind == "burn" {
			delta.Neg(delta)
		}
		h.addGhost(target, delta)
		who := -1
		if a, err := sdk.AccAddressFromBech32(r.Sender); err == nil {
			for i, w := range h.watchA {
				if w.Equals(a) {
					who = i
				}
			}
		}
		if !eqBals(before.bals, after.bals, who, delta) {
			h.violate("C16:mint-burn-touched-other-balance", fmt.Sprintf("%s of %s %q by %q: balances %v -> %v", r.Kind, amt, target, r.Sender, before.bals, after.bals))
		}
		if new(big.Int).Add(before.supply, delta).Cmp(after.supply) != 0 {
			h.violate("C16:supply-delta", fmt.Sprintf("%s of %s %q: supply %s -> %s", r.Kind, amt, target, before.supply, after.supply))
		}
	}
	if privileged && !ok {
		// a refused privileged message changes nothing about the denom
		if before.supply.Cmp(after.supply) != 0 || !eqBals(before.bals, after.bals, -1, nil) || before.admin != after.admin || before.adminS != after.adminS || before.tag != after.tag {
			h.violate("C16:refused-message-had-effect", fmt.Sprintf("refused %s on %q by %q changed the denom's state", r.Kind, target, r.Sender))
		}
	}
	if r.Kind == "create" {
		if ok {
			if ret != "factory/"+r.Sender+"/"+r.Denom {
				h.violate("C16:namespace", fmt.Sprintf("create by %q sub %q returned %q", r.Sender, r.Denom, ret))
			}
			if h.isCreat[ret] || before.tag >= 0 || before.admin >= 0 {
				h.violate("C16:created-twice", fmt.Sprintf("denom %q created although it existed (created before: %v, metadata: %v, admin record: %v)", ret, h.isCreat[ret], before.tag >= 0, before.admin >= 0))
			}
			if after.admin < 0 || after.adminS != r.Sender {
				h.violate("C16:creator-not-admin", fmt.Sprintf("after create of %q admin is %q", ret, after.adminS))
			}
			h.isCreat[ret] = true
			h.created = append(h.created, ret)
			h.indexOracle(r.Sender, ret)
		}
		if before.supply.Cmp(after.supply) != 0 {
			h.violate("C16:supply-delta", fmt.Sprintf("create changed the supply of %q", target))
		}
	}
	// supply = mints - burns (+ what other modules did), for every denom the history touched
	for d, g := range h.ghost {
		if sdk.ValidateDenom(d) != nil {
			continue
		}
		if h.e.bk.GetSupply(h.e.ctx, d).Amount.BigInt().Cmp(g) != 0 {
			h.violate("C16:supply-ne-mints-minus-burns", fmt.Sprintf("supply of %q is %s, successful mints - burns (+ external) is %s", d, h.e.bk.GetSupply(h.e.ctx, d).Amount, g))
		}
	}
}

func (h *hist) finish(nontrivialMin int) {
	if h.x != nil {
		h.xPrepare()
	}
	// final observation of every denom string the history mentioned
	var fee []string
	for _, f := range h.fee {
		fee = append(fee, emit.Pair(emit.ZI(int64(h.S(f.Denom))), zx(f.Amount.BigInt())))
	}
	var ds []string
	for _, s := range h.strs {
		ds = append(ds, s)
	}
	var final []string
	for _, d := range ds {
		final = append(final, h.obsTerm(h.observe(d)))
	}
	// address book: every string (and every '/'-segment of it) that the real bech32 parser accepts
	cand := map[string]bool{}
	for _, s := range h.strs {
		cand[s] = true
		for _, p := range strings.Split(s, "/") {
			cand[p] = true
		}
	}
	var keys []string
	for k := range cand {
		keys = append(keys, k)
	}
	sort.Strings(keys)
	var book []string
	for _, k := range keys {
		if a, err := sdk.AccAddressFromBech32(k); err == nil {
			book = append(book, emit.Pair(emit.ZI(int64(h.S(k))), emit.ZI(h.idOf(a))))
		}
	}
	var strs []string
	for _, s := range h.strs {
		strs = append(strs, coqStr(s))
	}
	var blocked []string
	for _, name := range []string{authtypes.FeeCollectorName, "distribution", minttypes.ModuleName, "bonded_tokens_pool", "not_bonded_tokens_pool", tftypes.ModuleName} {
		blocked = append(blocked, emit.ZI(h.idOf(authtypes.NewModuleAddress(name))))
	}
	var watch []string
	for _, w := range h.watch {
		watch = append(watch, emit.ZI(w))
	}
	term := fmt.Sprintf("CHist %s %s %d %d %s %s %s %s %s", emit.List(strs), emit.List(book), idTF, idDistr,
		emit.List(blocked), emit.List(fee), emit.List(watch), emit.List(h.steps), emit.List(final))
	if h.x != nil {
		term = fmt.Sprintf("CHist2 %s %s %s %d %d %s %s %d %s %s %s %s", emit.List(strs), emit.List(book), emit.List(h.x.names),
			idTF, idDistr, emit.List(blocked), emit.List(h.x.fee0), h.x.authIdx, emit.List(watch), emit.List(h.steps),
			emit.List(final), emit.List(h.x.finalExt))
	}
	var sample any
	if h.run.NCases() < 3 {
		st := h.st
		st.Ops = h.ops
		sample = st
	}
	h.run.Case(term, h.nOK >= nontrivialMin && h.nRej >= 1, sample)
	h.run.Count("history-length", strconv.Itoa(len(h.ops)/5*5)+"+")
	h.run.Count("created-per-history", strconv.Itoa(len(h.created)))
}

// ---- generation ----

func upperAddr(a sdk.AccAddress) string { return strings.ToUpper(a.String()) }

func otherPrefix(a sdk.AccAddress) string {
	s, _ := bech32.ConvertAndEncode("cosmos", a)
	return s
}

var subs = []string{"foo", "bar", "", "ugrain", "a/b", "x.y-z_1:2", "uusdc", strings.Repeat("s", 44), strings.Repeat("s", 45),
	"sp ace", "\xc3\xbcn\xc3\xaf", "FOO", "foo/", "1", "factory"}

func (h *hist) senderPool(rng *rand.Rand, hostile bool) string {
	if !hostile {
		return h.users[rng.Intn(len(h.users))].String()
	}
	switch rng.Intn(9) {
	case 0:
		return ""
	case 1:
		return "foo"
	case 2:
		return upperAddr(h.users[rng.Intn(len(h.users))])
	case 3:
		return otherPrefix(h.users[0])
	case 4:
		return h.e.tfMod.String()
	case 5:
		return authtypes.NewModuleAddress(govtypes.ModuleName).String()
	case 6:
		s := h.users[0].String()
		return s[:len(s)-1] + "q" // bad checksum (or, rarely, valid)
	case 7:
		return h.users[rng.Intn(len(h.users))].String() + "/x"
	default:
		return h.users[rng.Intn(len(h.users))].String()
	}
}

func (h *hist) denomPool(rng *rand.Rand, hostile bool) string {
	u := h.users[rng.Intn(len(h.users))].String()
	if !hostile {
		if len(h.created) > 0 && rng.Intn(10) < 8 {
			return h.created[rng.Intn(len(h.created))]
		}
		return "factory/" + u + "/" + subs[rng.Intn(2)]
	}
	switch rng.Intn(16) {
	case 0:
		return "ugrain"
	case 1:
		return "uusdc"
	case 2:
		return ""
	case 3:
		return "x"
	case 4:
		return "1abc"
	case 5:
		return "factory"
	case 6:
		return "factory/" + u
	case 7:
		return "factory//x"
	case 8:
		return "factory/foo/bar"
	case 9:
		return "Factory/" + u + "/foo"
	case 10:
		return "ibc/27394FB092D2ECCD56123C74F36E4C1F926001CEADA9CA97EA622B25F41E5EB2"
	case 11:
		return "factory/" + u + "/a b"
	case 12:
		return "factory/" + strings.ToUpper(u) + "/foo"
	case 13:
		return "factory/" + otherPrefix(h.users[0]) + "/foo"
	case 14:
		return "factory/" + u + "/" + strings.Repeat("z", 100)
	default:
		return "factory/" + u + "/" + subs[rng.Intn(len(subs))]
	}
}

var two256 = new(big.Int).Lsh(big.NewInt(1), 256)

func amountPool(rng *rand.Rand, hostile bool) *big.Int {
	if !hostile {
		return big.NewInt(int64(1 + rng.Intn(1000)))
	}
	switch rng.Intn(8) {
	case 0:
		return big.NewInt(0)
	case 1:
		return big.NewInt(-int64(1 + rng.Intn(5)))
	case 2:
		return new(big.Int).Sub(two256, big.NewInt(int64(1+rng.Intn(3))))
	case 3:
		return new(big.Int).Lsh(big.NewInt(1), 255)
	case 4:
		return new(big.Int).Sub(new(big.Int).Lsh(big.NewInt(1), 255), big.NewInt(int64(rng.Intn(1000))))
	default:
		return emit.BigUpTo(rng, 256)
	}
}

func (h *hist) currentAdmin(d string) string {
	md, err := h.e.tk.GetAuthorityMetadata(h.e.ctx, d)
	if err != nil {
		return ""
	}
	return md.Admin
}

func (h *hist) next(rng *rand.Rand, hostileRate int) opRec {
	// one decision per op: a hostile op has one (sometimes more) hostile field, the rest is plausible
	hostileOp := rng.Intn(100) < hostileRate
	forced := rng.Intn(3)
	hostile := func(field int) bool { return hostileOp && (field == forced || rng.Intn(4) == 0) }
	k := rng.Intn(100)
	if len(h.ops) < len(h.users)+6 && len(h.created) < 2 && rng.Intn(10) < 6 {
		k = 0
	}
	adminOr := func(d, s string) string {
		if rng.Intn(10) < 8 {
			if a := h.currentAdmin(d); a != "" || rng.Intn(4) == 0 {
				return a
			}
		}
		return s
	}
	switch {
	case k < 14:
		sub := subs[rng.Intn(3)]
		if hostile(0) {
			sub = subs[rng.Intn(len(subs))]
			if rng.Intn(6) == 0 && len(h.created) > 0 {
				sub = h.created[rng.Intn(len(h.created))]
			}
		}
		return opRec{Kind: "create", Sender: h.senderPool(rng, hostile(1)), Denom: sub}
	case k < 62:
		kind := "mint"
		if k >= 40 {
			kind = "burn"
		}
		d := h.denomPool(rng, hostile(0))
		s := h.senderPool(rng, hostile(1))
		if !hostile(1) {
			s = adminOr(d, s)
		}
		amt := amountPool(rng, hostile(2))
		if kind == "burn" && !hostileOp && rng.Intn(10) < 8 && sdk.ValidateDenom(d) == nil {
			if a, err := sdk.AccAddressFromBech32(s); err == nil {
				if b := h.e.bk.GetBalance(h.e.ctx, a, d).Amount.BigInt(); b.Sign() > 0 {
					amt = new(big.Int).Add(new(big.Int).Rand(rng, b), big.NewInt(1))
				}
			}
		}
		return opRec{Kind: kind, Sender: s, Denom: d, Amount: amt.String()}
	case k < 75:
		d := h.denomPool(rng, hostile(0))
		s := h.senderPool(rng, hostile(1))
		if !hostile(1) {
			s = adminOr(d, s)
		}
		na := h.senderPool(rng, hostile(2) || rng.Intn(100) < 15)
		if rng.Intn(12) == 0 {
			na = ""
		}
		return opRec{Kind: "chadmin", Sender: s, Denom: d, NewAdmin: na}
	case k < 83:
		d := h.denomPool(rng, hostile(0))
		s := h.senderPool(rng, hostile(1))
		if !hostile(1) {
			s = adminOr(d, s)
		}
		return opRec{Kind: "setmeta", Sender: s, Denom: d, Tag: int64(1 + rng.Intn(1000)), BadMeta: hostile(2) && rng.Intn(2) == 0}
	default:
		kind := []string{"xsend", "xmint", "xburn"}[rng.Intn(3)]
		d := "ugrain"
		if len(h.created) > 0 && rng.Intn(10) < 7 {
			d = h.created[rng.Intn(len(h.created))]
		} else if rng.Intn(4) == 0 {
			d = "factory/" + h.users[rng.Intn(len(h.users))].String() + "/" + subs[rng.Intn(2)]
		}
		amt := amountPool(rng, rng.Intn(100) < 10)
		if amt.Sign() <= 0 {
			amt = big.NewInt(1)
		}
		from := h.users[rng.Intn(len(h.users))]
		if kind != "xmint" && rng.Intn(10) < 7 {
			if b := h.e.bk.GetBalance(h.e.ctx, from, d).Amount.BigInt(); b.Sign() > 0 {
				amt = new(big.Int).Add(new(big.Int).Rand(rng, b), big.NewInt(1))
			}
		}
		return opRec{Kind: kind, Sender: from.String(), To: h.users[rng.Intn(len(h.users))].String(), Denom: d, Amount: amt.String()}
	}
}

func TestCorr(t *testing.T) {
	run := emit.Start("C16", 500)
	run.Rule("history of 10-32 ops over 3-5 accounts through the real tokenfactory msg server + real bank keeper " +
		"(create / mint / burn / change-admin / set-metadata, ~20% hostile fields: native, malformed and foreign denoms, " +
		"empty / upper-case / foreign-prefix / module senders, 0 / negative / 2^256-scale amounts; plus bank sends and " +
		"other-module mint/burn); non-trivial = at least 2 accepted state changes and at least 1 rejected op")
	search := os.Getenv("VERIF_SEARCH") == "1"

	// corpus first
	files, _ := filepath.Glob("../corpus/C16/*.json")
	sort.Strings(files)
	for _, f := range files {
		bz, err := os.ReadFile(f)
		if err != nil {
			t.Fatal(err)
		}
		var st setup
		if err := json.Unmarshal(bz, &st); err != nil {
			t.Fatalf("%s: %v", f, err)
		}
		ops := st.Ops
		st.Ops = nil
		var h *hist
		if st.Ext {
			h = newXHist(t, run, st, 2)
		} else {
			h = newHist(t, run, st)
		}
		h.fund()
		if st.Ext {
			h.fundContracts()
		}
		for _, o := range ops {
			o.Sender, o.Denom, o.NewAdmin, o.To = h.expand(o.Sender), h.expand(o.Denom), h.expand(o.NewAdmin), h.expand(o.To)
			o.MdBase, o.Authority = h.expand(o.MdBase), h.expand(o.Authority)
			for j := range o.Msgs {
				m := &o.Msgs[j]
				m.Sender, m.Denom, m.NewAdmin = h.expand(m.Sender), h.expand(m.Denom), h.expand(m.NewAdmin)
				for k := range m.Signers {
					m.Signers[k] = h.expand(m.Signers[k])
				}
			}
			for i := range o.NewFee {
				o.NewFee[i].Denom = h.expand(o.NewFee[i].Denom)
			}
			if st.Ext {
				h.xexec(o)
			} else {
				h.exec(o)
			}
		}
		h.finish(1)
		run.Count("source", "corpus")
	}

	// is there a way to the msg server around ValidateBasic? (real router, real authz keeper)
	gateValidateBasic(t, run)

	// first-round histories: 5/8 of the budget (400 of the quick tier's 640, as before)
	oldN := run.N * 5 / 8
	for i := 0; run.NCases() < oldN; i++ {
		rng := rand.New(rand.NewSource(run.Rng.Int63()))
		st := setup{Users: 3 + rng.Intn(3), Seed: run.Seed, Index: i}
		switch rng.Intn(4) {
		case 0:
		case 1:
			st.Fee = []string{"10ugrain"}
		case 2:
			st.Fee = []string{"1000000ugrain"}
		default:
			st.Fee = []string{"7ugrain", "3uusdc"}
		}
		if st.Fee != nil && st.Fee[0] == "1000000ugrain" && rng.Intn(2) == 0 {
			st.Fee = []string{"1ugrain"}
		}
		h := newHist(t, run, st)
		h.fund()
		hostileRate := 20
		if search || rng.Intn(5) == 0 {
			hostileRate = 45
		}
		n := 10 + rng.Intn(23)
		for j := 0; j < n; j++ {
			h.exec(h.next(rng, hostileRate))
		}
		h.finish(2)
		run.Count("source", "generated")
	}

	// second-round histories: bindings, params, genesis round trips; one in four also raw calls
	for i := 0; run.NCases() < run.N; i++ {
		rng := rand.New(rand.NewSource(run.Rng.Int63()))
		st := setup{Users: 3 + rng.Intn(2), Seed: run.Seed, Index: i, Ext: true, Raw: rng.Intn(4) == 0}
		switch rng.Intn(4) {
		case 0:
		case 1:
			st.Fee = []string{"10ugrain"}
		case 2:
			st.Fee = []string{"1ugrain"}
		default:
			st.Fee = []string{"7ugrain", "3uusdc"}
		}
		h := newXHist(t, run, st, 2)
		h.fund()
		h.fundContracts()
		hostileRate := 20
		if search || rng.Intn(5) == 0 {
			hostileRate = 45
		}
		n := 10 + rng.Intn(19)
		for j := 0; j < n; j++ {
			h.xexec(h.nextX(rng, hostileRate))
		}
		h.finish(2)
		if st.Raw {
			run.Count("source", "generated-ext-raw")
		} else {
			run.Count("source", "generated-ext")
		}
	}
	if err := run.Finish("TokenFactory.Ledger TokenFactory.Denom TokenFactory.Factory TokenFactory.Chain Corr.C16", "Corr.C16.case", "Corr.C16.check"); err != nil {
		t.Fatal(err)
	}
}

// expand replaces the corpus placeholders @0..@4 (user addresses), @U0..@U4 (the same in upper
// case) and @tf (the tokenfactory module account) so that corpus files stay readable.
func (h *hist) expand(s string) string {
	if !strings.Contains(s, "@") {
		return s
	}
	for i, u := range h.users {
		s = strings.ReplaceAll(s, fmt.Sprintf("@U%d", i), strings.ToUpper(u.String()))
		s = strings.ReplaceAll(s, fmt.Sprintf("@%d", i), u.String())
	}
	if h.x != nil {
		for i, c := range h.x.contracts {
			s = strings.ReplaceAll(s, fmt.Sprintf("@c%d", i), c.String())
		}
	}
	s = strings.ReplaceAll(s, "@gov", h.e.authority)
	return strings.ReplaceAll(s, "@tf", h.e.tfMod.String())
}

// fund: another module mints the fee denominations to the users (as ops of the history, so the
// model sees them).
func (h *hist) fund() {
	for i, u := range h.users {
		if i == 2 {
			continue // one account without funds
		}
		h.exec(opRec{Kind: "xmint", Sender: u.String(), Denom: "ugrain", Amount: strconv.Itoa(25 + 1000000*(i%2))})
		if i%2 == 0 {
			h.exec(opRec{Kind: "xmint", Sender: u.String(), Denom: "uusdc", Amount: "5"})
		}
	}
}
