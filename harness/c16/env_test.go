package c16

// A minimal real environment for x/tokenfactory: real auth account keeper, real bank keeper, real
// staking + distribution keepers (community pool), and the real tokenfactory keeper + msg server,
// wired exactly as app/app.go wires them (bank <- account; tokenfactory <- account, bank, distr).
// No fixture in /repo builds a tokenfactory keeper (tests/integration/helper and
// x/skyway/keeper/test_common.go both leave it out), so it is built here from the same parts.

import (
	"testing"
	"time"

	"cosmossdk.io/log"
	"cosmossdk.io/store"
	"cosmossdk.io/store/metrics"
	storetypes "cosmossdk.io/store/types"
	"cosmossdk.io/x/feegrant"
	feegrantkeeper "cosmossdk.io/x/feegrant/keeper"
	feegrantmodule "cosmossdk.io/x/feegrant/module"
	wasmkeeper "github.com/CosmWasm/wasmd/x/wasm/keeper"
	tmproto "github.com/cometbft/cometbft/proto/tendermint/types"
	dbm "github.com/cosmos/cosmos-db"
	"github.com/cosmos/cosmos-sdk/codec"
	codectypes "github.com/cosmos/cosmos-sdk/codec/types"
	"github.com/cosmos/cosmos-sdk/runtime"
	sdk "github.com/cosmos/cosmos-sdk/types"
	moduletestutil "github.com/cosmos/cosmos-sdk/types/module/testutil"
	"github.com/cosmos/cosmos-sdk/x/auth"
	authcodec "github.com/cosmos/cosmos-sdk/x/auth/codec"
	authkeeper "github.com/cosmos/cosmos-sdk/x/auth/keeper"
	authtypes "github.com/cosmos/cosmos-sdk/x/auth/types"
	authzkeeper "github.com/cosmos/cosmos-sdk/x/authz/keeper"
	authzmodule "github.com/cosmos/cosmos-sdk/x/authz/module"
	"github.com/cosmos/cosmos-sdk/x/bank"
	bankkeeper "github.com/cosmos/cosmos-sdk/x/bank/keeper"
	banktypes "github.com/cosmos/cosmos-sdk/x/bank/types"
	"github.com/cosmos/cosmos-sdk/x/distribution"
	distrkeeper "github.com/cosmos/cosmos-sdk/x/distribution/keeper"
	distrtypes "github.com/cosmos/cosmos-sdk/x/distribution/types"
	govtypes "github.com/cosmos/cosmos-sdk/x/gov/types"
	minttypes "github.com/cosmos/cosmos-sdk/x/mint/types"
	paramskeeper "github.com/cosmos/cosmos-sdk/x/params/keeper"
	paramstypes "github.com/cosmos/cosmos-sdk/x/params/types"
	"github.com/cosmos/cosmos-sdk/x/staking"
	stakingkeeper "github.com/cosmos/cosmos-sdk/x/staking/keeper"
	stakingtypes "github.com/cosmos/cosmos-sdk/x/staking/types"
	chainparams "github.com/palomachain/paloma/v2/app/params"
	"github.com/palomachain/paloma/v2/testutil/common"
	"github.com/palomachain/paloma/v2/util/libwasm"
	palomamodule "github.com/palomachain/paloma/v2/x/paloma"
	"github.com/palomachain/paloma/v2/x/tokenfactory"
	tfbindings "github.com/palomachain/paloma/v2/x/tokenfactory/bindings"
	tfkeeper "github.com/palomachain/paloma/v2/x/tokenfactory/keeper"
	tftypes "github.com/palomachain/paloma/v2/x/tokenfactory/types"
)

type env struct {
	ctx   sdk.Context
	ak    authkeeper.AccountKeeper
	bk    bankkeeper.BaseKeeper
	dk    distrkeeper.Keeper
	tk    tfkeeper.Keeper
	srv   tftypes.MsgServer
	tfMod sdk.AccAddress
	dsMod sdk.AccAddress
	// second round
	keyTF     *storetypes.KVStoreKey
	keyAuthz  *storetypes.KVStoreKey
	cdc       codec.Codec
	reg       codectypes.InterfaceRegistry
	authority string
	wasm      wasmkeeper.Messenger // util/libwasm router in front of the tokenfactory bindings
	// third round: whole transactions through the real signature-authorisation decorator
	fg  feegrantkeeper.Keeper
	dec palomamodule.VerifyAuthorisedSignatureDecorator
}

func newEnv(t testing.TB) *env {
	common.SetupPalomaPrefixes()
	keyAcc := storetypes.NewKVStoreKey(authtypes.StoreKey)
	keyBank := storetypes.NewKVStoreKey(banktypes.StoreKey)
	keyStaking := storetypes.NewKVStoreKey(stakingtypes.StoreKey)
	keyDistro := storetypes.NewKVStoreKey(distrtypes.StoreKey)
	keyParams := storetypes.NewKVStoreKey(paramstypes.StoreKey)
	tkeyParams := storetypes.NewTransientStoreKey(paramstypes.TStoreKey)
	keyTF := storetypes.NewKVStoreKey(tftypes.StoreKey)
	keyAuthz := storetypes.NewKVStoreKey(authzkeeper.StoreKey)
	keyFG := storetypes.NewKVStoreKey(feegrant.StoreKey)

	enc := moduletestutil.MakeTestEncodingConfig(
		auth.AppModuleBasic{}, bank.AppModuleBasic{}, staking.AppModuleBasic{},
		distribution.AppModuleBasic{}, tokenfactory.AppModuleBasic{}, authzmodule.AppModuleBasic{}, feegrantmodule.AppModuleBasic{},
	)
	cdc := enc.Codec

	db := dbm.NewMemDB()
	ms := store.NewCommitMultiStore(db, log.NewNopLogger(), metrics.NewNoOpMetrics())
	for _, k := range []storetypes.StoreKey{keyAcc, keyBank, keyStaking, keyDistro, keyParams, keyTF, keyAuthz, keyFG} {
		ms.MountStoreWithDB(k, storetypes.StoreTypeIAVL, db)
	}
	ms.MountStoreWithDB(tkeyParams, storetypes.StoreTypeTransient, db)
	if err := ms.LoadLatestVersion(); err != nil {
		t.Fatal(err)
	}
	ctx := sdk.NewContext(ms, tmproto.Header{Height: 1234, Time: time.Date(2024, 1, 1, 0, 0, 0, 0, time.UTC)}, false, log.NewNopLogger())

	legacyAmino := codec.NewLegacyAmino()
	pk := paramskeeper.NewKeeper(cdc, legacyAmino, keyParams, tkeyParams)
	pk.Subspace(tftypes.ModuleName)
	tfSub, _ := pk.GetSubspace(tftypes.ModuleName)

	// same permissions as app/app.go for the modules that exist here
	maccPerms := map[string][]string{
		authtypes.FeeCollectorName:     nil,
		distrtypes.ModuleName:          nil,
		minttypes.ModuleName:           {authtypes.Minter, authtypes.Burner}, // stands for "some other module" (external mint/burn)
		stakingtypes.BondedPoolName:    {authtypes.Burner, authtypes.Staking},
		stakingtypes.NotBondedPoolName: {authtypes.Burner, authtypes.Staking},
		govtypes.ModuleName:            {authtypes.Burner},
		tftypes.ModuleName:             {authtypes.Minter, authtypes.Burner},
	}
	authority := authtypes.NewModuleAddress(govtypes.ModuleName).String()
	ak := authkeeper.NewAccountKeeper(cdc, runtime.NewKVStoreService(keyAcc), authtypes.ProtoBaseAccount,
		maccPerms, authcodec.NewBech32Codec(chainparams.AccountAddressPrefix), chainparams.AccountAddressPrefix, authority)

	// app.BlockedAddresses(): every module account except gov
	blocked := map[string]bool{}
	for acc := range maccPerms {
		blocked[authtypes.NewModuleAddress(acc).String()] = true
	}
	delete(blocked, authtypes.NewModuleAddress(govtypes.ModuleName).String())

	bk := bankkeeper.NewBaseKeeper(cdc, runtime.NewKVStoreService(keyBank), ak, blocked, authority, log.NewNopLogger())
	if err := bk.SetParams(ctx, banktypes.Params{DefaultSendEnabled: true}); err != nil {
		t.Fatal(err)
	}
	sk := stakingkeeper.NewKeeper(cdc, runtime.NewKVStoreService(keyStaking), ak, bk, authority,
		authcodec.NewBech32Codec(chainparams.ValidatorAddressPrefix), authcodec.NewBech32Codec(chainparams.ConsNodeAddressPrefix))
	dk := distrkeeper.NewKeeper(cdc, runtime.NewKVStoreService(keyDistro), ak, bk, sk, authtypes.FeeCollectorName, authority)
	if err := dk.Params.Set(ctx, distrtypes.DefaultParams()); err != nil {
		t.Fatal(err)
	}
	if err := dk.FeePool.Set(ctx, distrtypes.InitialFeePool()); err != nil {
		t.Fatal(err)
	}
	for name := range maccPerms {
		ak.GetModuleAccount(ctx, name)
	}
	tk := tfkeeper.NewKeeper(keyTF, tfSub, ak, bk, dk, authority)
	e := &env{ctx: ctx, ak: ak, bk: bk, dk: dk, tk: tk, srv: tfkeeper.NewMsgServerImpl(tk),
		tfMod: authtypes.NewModuleAddress(tftypes.ModuleName), dsMod: authtypes.NewModuleAddress(distrtypes.ModuleName),
		keyTF: keyTF, keyAuthz: keyAuthz, cdc: cdc, reg: enc.InterfaceRegistry, authority: authority}
	// app.go buildWasmMessageDecorator: the libwasm router; only the tokenfactory messenger is wired
	// here (a token_factory_msg never reaches the other three)
	// app.go: feegrant keeper over the account keeper; ante.go: the decorator asks it AllowancesByGranter
	e.fg = feegrantkeeper.NewKeeper(cdc, runtime.NewKVStoreService(keyFG), ak).SetBankKeeper(bk)
	e.dec = palomamodule.NewVerifyAuthorisedSignatureDecorator(e.fg)
	e.wasm = libwasm.NewRouterMessageDecorator(log.NewNopLogger(), nil, nil, nil,
		tfbindings.NewMessenger(&e.bk, &e.tk))(nil)
	return e
}
