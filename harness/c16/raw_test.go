package c16

// Not part of the check (bin/check runs TestCorr only): records, on the real code, the two facts
// about the RAW msg server that the delivery assumptions of the C16 theorems are there for
// (design/C16.md "what the theorems assume of the callers").
//   1. Mint is not atomic on its own: mintTo mints to the module account before the bank refuses
//      a blocked recipient, so a failed raw Mint leaves supply and module balance increased.
//   2. Without ValidateBasic the empty creator matches the empty admin of any denom that has no
//      admin record (or whose admin renounced): a raw ChangeAdmin{Creator: ""} succeeds.
// Both are unreachable through baseapp / the wasm bindings (ValidateBasic + commit-on-success).

import (
	"testing"

	sdkmath "cosmossdk.io/math"
	sdk "github.com/cosmos/cosmos-sdk/types"
	minttypes "github.com/cosmos/cosmos-sdk/x/mint/types"
	tftypes "github.com/palomachain/paloma/v2/x/tokenfactory/types"
)

func TestRawHandler(t *testing.T) {
	e := newEnv(t)
	e.tk.SetParams(e.ctx, tftypes.Params{})
	a := userAddr(0)
	d := "factory/" + a.String() + "/foo"
	if _, err := e.srv.CreateDenom(e.ctx, tftypes.NewMsgCreateDenom(a.String(), "foo")); err != nil {
		t.Fatal(err)
	}
	// 1. hand the admin role to a blocked module account, then raw-mint as that account
	blocked := e.tfMod.String()
	if _, err := e.srv.ChangeAdmin(e.ctx, tftypes.NewMsgChangeAdmin(a.String(), d, blocked)); err != nil {
		t.Fatal(err)
	}
	_, err := e.srv.Mint(e.ctx, tftypes.NewMsgMint(blocked, sdk.NewCoin(d, sdkmath.NewInt(7))))
	sup := e.bk.GetSupply(e.ctx, d).Amount
	t.Logf("raw Mint by blocked admin: err=%v supply=%s module balance=%s", err, sup, e.bk.GetBalance(e.ctx, e.tfMod, d).Amount)
	if err == nil || !sup.Equal(sdkmath.NewInt(7)) {
		t.Errorf("expected a failed raw Mint that still left 7 minted (err=%v supply=%s)", err, sup)
	}
	// 2. empty creator against a denom nobody created
	never := "factory/" + a.String() + "/never"
	m := tftypes.NewMsgChangeAdmin("", never, userAddr(1).String())
	vb := m.ValidateBasic()
	_, err = e.srv.ChangeAdmin(e.ctx, m)
	md, _ := e.tk.GetAuthorityMetadata(e.ctx, never)
	t.Logf("raw ChangeAdmin{Creator:\"\"} on a never-created denom: ValidateBasic=%v handler err=%v admin now=%q", vb, err, md.Admin)
	if vb == nil || err != nil || md.Admin != userAddr(1).String() {
		t.Errorf("expected ValidateBasic to refuse and the raw handler to accept")
	}
	_ = minttypes.ModuleName
}
