package c16

// Second round: extended histories (Corr.C16.CHist2 / TokenFactory/Chain.v).
//
// On top of the five delivered messages and the other actors on the bank (c16_test.go) a history may
// contain
//   - wasm bindings: a contract's token_factory_msg as JSON through the REAL util/libwasm router and
//     x/tokenfactory/bindings (create with metadata, mint to mint_to_address, burn, change admin,
//     set metadata), each under a commit-on-success cache context as wasmd runs a sub-message;
//   - MsgUpdateParams (the creation fee changes during the history; authority and others try);
//   - a genesis round trip: ExportGenesis, empty the tokenfactory store, InitGenesis (the bank state
//     stays, as bank's InitGenesis runs before tokenfactory's);
//   - in "raw" histories: the msg server called as a Go function, no ValidateBasic, no cache context
//     (what it leaves behind on failure is compared with Chain.raw).
// Direct oracles on the real state: fee paid by the creator into the community pool and booked there,
// supply untouched; creator -> denoms index; only the admin contract acts; a binding mint credits
// mint_to_address only and debits nobody; genesis keeps every admin record, supply and balance.

import (
	"encoding/json"
	"errors"
	"fmt"
	"math/big"
	"math/rand"
	"sort"
	"strings"
	"testing"

	sdkmath "cosmossdk.io/math"
	storetypes "cosmossdk.io/store/types"
	"cosmossdk.io/x/feegrant"
	feegrantkeeper "cosmossdk.io/x/feegrant/keeper"
	wasmvmtypes "github.com/CosmWasm/wasmvm/v2/types"
	"github.com/cosmos/cosmos-sdk/baseapp"
	codectypes "github.com/cosmos/cosmos-sdk/codec/types"
	"github.com/cosmos/cosmos-sdk/runtime"
	sdk "github.com/cosmos/cosmos-sdk/types"
	sdkerrors "github.com/cosmos/cosmos-sdk/types/errors"
	"github.com/cosmos/cosmos-sdk/x/authz"
	authzkeeper "github.com/cosmos/cosmos-sdk/x/authz/keeper"
	banktypes "github.com/cosmos/cosmos-sdk/x/bank/types"
	"github.com/palomachain/paloma/v2/util/libwasm"
	"github.com/palomachain/paloma/v2/verifharness/emit"
	tfbind "github.com/palomachain/paloma/v2/x/tokenfactory/bindings/types"
	tftypes "github.com/palomachain/paloma/v2/x/tokenfactory/types"
	valsettypes "github.com/palomachain/paloma/v2/x/valset/types"
	protov2 "google.golang.org/protobuf/proto"
)

type xext struct {
	contracts []sdk.AccAddress
	names     []string
	fee0      []string
	authIdx   int
	finalExt  []string
	raw       bool
	spellings map[string]bool // creator strings that ever created (index observations)
}

func contractAddr(i int) sdk.AccAddress {
	b := make([]byte, 32) // wasmd contract addresses are 32 bytes
	copy(b, []byte(fmt.Sprintf("c16contract%d", i)))
	b[0] = byte(0x55 + 61*i)
	b[31] = byte(0x40 + i)
	return sdk.AccAddress(b)
}

func newXHist(t testing.TB, run *emit.Run, st setup, contracts int) *hist {
	h := newHist(t, run, st)
	h.x = &xext{raw: st.Raw, spellings: map[string]bool{}}
	for i := 0; i < contracts; i++ {
		a := contractAddr(i)
		h.x.contracts = append(h.x.contracts, a)
		id := h.idOf(a)
		h.watch = append(h.watch, id)
		h.watchA = append(h.watchA, a)
	}
	for _, f := range h.fee {
		h.x.fee0 = append(h.x.fee0, emit.Pair(emit.ZI(int64(h.S(f.Denom))), zx(f.Amount.BigInt())))
	}
	h.x.authIdx = h.S(h.e.authority)
	return h
}

// ---- observations beyond the denom table ----

func (h *hist) paramsTerm() string {
	var l []string
	for _, c := range h.e.tk.GetParams(h.e.ctx).DenomCreationFee {
		l = append(l, emit.Pair(emit.ZI(int64(h.S(c.Denom))), zx(c.Amount.BigInt())))
	}
	return "EParams " + emit.List(l)
}

func (h *hist) indexTerm(creator string) string {
	var l []string
	for _, d := range h.e.tk.GetDenomsFromCreator(h.e.ctx, creator) {
		l = append(l, emit.ZI(int64(h.S(d))))
	}
	return fmt.Sprintf("EIndex %d %s", h.S(creator), emit.List(l))
}

func (h *hist) poolAmount(denom string) *big.Int {
	fp, err := h.e.dk.FeePool.Get(h.e.ctx)
	if err != nil {
		return new(big.Int)
	}
	return fp.CommunityPool.AmountOf(denom).TruncateInt().BigInt()
}

func (h *hist) poolTerms() []string {
	var l []string
	for _, c := range h.fee {
		l = append(l, fmt.Sprintf("EPool %d %s", h.S(c.Denom), zx(h.poolAmount(c.Denom))))
	}
	return l
}

// extObs: what is compared with the model after a step, besides the denom observations.
func (h *hist) extObs(r opRec, code int) []string {
	var l []string
	switch strings.TrimPrefix(r.Kind, "raw:") {
	case "create":
		l = append(l, h.indexTerm(r.Sender))
		l = append(l, h.poolTerms()...)
	case "wcreate":
		l = append(l, h.indexTerm(h.x.contracts[r.Contract].String()))
		l = append(l, h.poolTerms()...)
	case "params":
		l = append(l, h.paramsTerm())
	case "genesis":
		for _, s := range h.spellingList() {
			l = append(l, h.indexTerm(s))
		}
	}
	return l
}

func (h *hist) spellingList() []string {
	var l []string
	for s := range h.x.spellings {
		l = append(l, s)
	}
	sort.Strings(l)
	return l
}

// xPrepare closes the string table under "String() of every account" / "account of every string that
// parses" and renders the account names and the final extended observations.
func (h *hist) xPrepare() {
	for {
		n, m := len(h.strs), len(h.addrBy)
		ids := make([]int64, 0, len(h.addrBy))
		for id := range h.addrBy {
			ids = append(ids, id)
		}
		sort.Slice(ids, func(i, j int) bool { return ids[i] < ids[j] })
		for _, id := range ids {
			h.S(h.addrBy[id].String())
		}
		for _, s := range append([]string{}, h.strs...) {
			for _, p := range append([]string{s}, strings.Split(s, "/")...) {
				if a, err := sdk.AccAddressFromBech32(p); err == nil {
					h.idOf(a)
				}
			}
		}
		if n == len(h.strs) && m == len(h.addrBy) {
			break
		}
	}
	ids := make([]int64, 0, len(h.addrBy))
	for id := range h.addrBy {
		ids = append(ids, id)
	}
	sort.Slice(ids, func(i, j int) bool { return ids[i] < ids[j] })
	h.x.names = nil
	for _, id := range ids {
		h.x.names = append(h.x.names, emit.Pair(emit.ZI(id), emit.ZI(int64(h.S(h.addrBy[id].String())))))
	}
	h.x.finalExt = []string{h.paramsTerm()}
	for _, s := range h.spellingList() {
		h.x.finalExt = append(h.x.finalExt, h.indexTerm(s))
	}
	h.x.finalExt = append(h.x.finalExt, h.poolTerms()...)
}

// ---- direct oracles shared with the first-round histories ----

type feeSnapT struct {
	ok     bool
	addr   sdk.AccAddress
	fee    sdk.Coins
	sender map[string]*big.Int
	distr  map[string]*big.Int
	pool   map[string]*big.Int
	supply map[string]*big.Int
}

func (h *hist) feeSnap(sender string) feeSnapT {
	s := feeSnapT{fee: h.fee, sender: map[string]*big.Int{}, distr: map[string]*big.Int{}, pool: map[string]*big.Int{}, supply: map[string]*big.Int{}}
	a, err := sdk.AccAddressFromBech32(sender)
	if err != nil {
		return s
	}
	s.ok, s.addr = true, a
	for _, c := range h.fee {
		s.sender[c.Denom] = h.e.bk.GetBalance(h.e.ctx, a, c.Denom).Amount.BigInt()
		s.distr[c.Denom] = h.e.bk.GetBalance(h.e.ctx, h.e.dsMod, c.Denom).Amount.BigInt()
		s.pool[c.Denom] = h.poolAmount(c.Denom)
		s.supply[c.Denom] = h.e.bk.GetSupply(h.e.ctx, c.Denom).Amount.BigInt()
	}
	return s
}

// feeOracle: a successful create moved exactly the fee in force from the creator to the distribution
// module account, the community pool grew by the same, nothing was minted or burned; a refused create
// moved nothing (raw calls excepted: they are not atomic).
func (h *hist) feeOracle(kind, sender string, ok bool, s feeSnapT) {
	if !s.ok || (h.x != nil && h.x.raw) {
		return
	}
	for _, c := range s.fee {
		want := new(big.Int)
		if ok {
			want.Set(c.Amount.BigInt())
		}
		after := h.feeSnap(sender)
		dSender := new(big.Int).Sub(s.sender[c.Denom], after.sender[c.Denom])
		dDistr := new(big.Int).Sub(after.distr[c.Denom], s.distr[c.Denom])
		dPool := new(big.Int).Sub(after.pool[c.Denom], s.pool[c.Denom])
		if s.addr.Equals(h.e.dsMod) {
			dSender, dDistr = want, want // the pool paying itself: net zero on the account
		}
		if dSender.Cmp(want) != 0 || dDistr.Cmp(want) != 0 || dPool.Cmp(want) != 0 || after.supply[c.Denom].Cmp(s.supply[c.Denom]) != 0 {
			h.violate("C16:creation-fee", fmt.Sprintf("%s by %q (ok=%v) with fee %s: creator -%s, distribution account +%s, community pool +%s, supply %s -> %s",
				kind, sender, ok, c, dSender, dDistr, dPool, s.supply[c.Denom], after.supply[c.Denom]))
		}
	}
}

// indexOracle: after a successful create the creator's index lists exactly the denoms that creator
// string created (until a genesis round trip re-keys it by the canonical spelling).
func (h *hist) indexOracle(creator, denom string) {
	h.idx[creator] = append(h.idx[creator], denom)
	if h.x != nil {
		h.x.spellings[creator] = true
	}
	h.indexCheck(creator)
}

func (h *hist) indexCheck(creator string) {
	want := append([]string{}, h.idx[creator]...)
	sort.Strings(want)
	got := h.e.tk.GetDenomsFromCreator(h.e.ctx, creator)
	if strings.Join(want, ",") != strings.Join(got, ",") {
		h.violate("C16:creator-index", fmt.Sprintf("denoms of creator %q: index %v, created %v", creator, got, want))
	}
}

// ---- extended ops ----

func isAddrErr(err error) bool {
	s := err.Error()
	return strings.Contains(s, "ech32") || strings.Contains(s, "empty address string") || strings.Contains(s, "address max length")
}

func classifyRaw(kind string, err error) int {
	c := classify(kind, err)
	if c != 99 {
		return c
	}
	switch {
	case isAddrErr(err):
		return 10
	case strings.HasPrefix(err.Error(), "invalid denom") && kind == "create":
		return 7 // GetTokenDenom: sdk.ValidateDenom of the constructed denom (ValidateBasic normally sees it first)
	case strings.HasPrefix(err.Error(), "invalid denom"):
		return 4 // DeconstructDenom: sdk.ValidateDenom's own error (ValidateBasic normally sees it first)
	case kind == "setmeta":
		return 11
	}
	return 99
}

func wasmJSON(m tfbind.Message) []byte {
	bz, err := json.Marshal(libwasm.CustomMessage{TokenFactory: &m})
	if err != nil {
		panic(err)
	}
	return bz
}

// bindMeta: the metadata body a contract sends.  When it names a Base of its own the body is
// CONSISTENT with that base (display and first unit = base), so that banktypes.Metadata.Validate
// accepts it and only the binding's "Base must be the same as denom" stands between the contract and
// the bank metadata of another denom.
func bindMeta(d string, tag int64, base string, bad bool) tfbind.Metadata {
	u := d
	if base != "" {
		u = base
	}
	md := tfbind.Metadata{Description: fmt.Sprint(tag), Base: base, Display: u, Name: "n", Symbol: "s",
		DenomUnits: []tfbind.DenomUnit{{Denom: u, Exponent: 0}}}
	if bad {
		md.Name = ""
	}
	return md
}

func bankMetaOf(md tfbind.Metadata, denom string) banktypes.Metadata {
	if md.Base == "" {
		md.Base = denom
	}
	var units []*banktypes.DenomUnit
	for _, u := range md.DenomUnits {
		units = append(units, &banktypes.DenomUnit{Denom: u.Denom, Exponent: u.Exponent, Aliases: u.Aliases})
	}
	return banktypes.Metadata{Description: md.Description, Display: md.Display, Base: md.Base, Name: md.Name, Symbol: md.Symbol, DenomUnits: units}
}

func classifyMetaErr(err error) int {
	s := err.Error()
	switch {
	case strings.Contains(s, "only admin can set metadata"):
		return 3
	case strings.Contains(s, "Base must be the same as denom"):
		return 13
	}
	return 11
}

// xexec runs one extended op (anything that is not a first-round kind).
func (h *hist) xexec(r opRec) {
	switch r.Kind {
	case "tx":
		h.txexec(r)
		return
	case "grant", "revoke":
		h.grantexec(r)
		return
	}
	if !strings.HasPrefix(r.Kind, "raw:") && !strings.HasPrefix(r.Kind, "w") && r.Kind != "params" && r.Kind != "genesis" {
		h.exec(r)
		return
	}
	amt := parseAmt(r.Amount)
	var term string
	var code int
	var ret string
	var watchD []string
	target := r.Denom
	var before dobs
	var ct sdk.AccAddress
	if strings.HasPrefix(r.Kind, "w") {
		ct = h.x.contracts[r.Contract%len(h.x.contracts)]
		r.Contract = r.Contract % len(h.x.contracts)
	}
	dispatch := func(m tfbind.Message) error {
		var err error
		code, ret = h.deliver(r.Kind, nil, func(c sdk.Context) (string, error) {
			_, data, _, e := h.e.wasm.DispatchMsg(c, ct, "", wasmvmtypes.CosmosMsg{Custom: wasmJSON(m)})
			err = e
			if e != nil {
				if strings.Contains(e.Error(), "recovered panic") {
					panic(e) // the libwasm router turned a panic into an error: outcome class "panic"
				}
				return "", e
			}
			if len(data) == 1 {
				var resp tftypes.MsgCreateDenomResponse
				if e := resp.Unmarshal(data[0]); e == nil {
					return resp.NewTokenDenom, nil
				}
			}
			return "", nil
		})
		return err
	}
	switch {
	case strings.HasPrefix(r.Kind, "raw:"):
		kind := strings.TrimPrefix(r.Kind, "raw:")
		var call func(ctx sdk.Context) (string, error)
		switch kind {
		case "create":
			target = strings.Join([]string{"factory", r.Sender, r.Denom}, "/")
			m := tftypes.NewMsgCreateDenom(r.Sender, r.Denom)
			call = func(c sdk.Context) (string, error) {
				resp, err := h.e.srv.CreateDenom(c, m)
				if err != nil {
					return "", err
				}
				return resp.NewTokenDenom, nil
			}
			term = fmt.Sprintf("KCreate %d %d", h.S(r.Sender), h.S(r.Denom))
			for _, f := range h.fee {
				watchD = append(watchD, f.Denom)
			}
		case "mint":
			m := tftypes.NewMsgMint(r.Sender, sdk.Coin{Denom: r.Denom, Amount: sdkmath.NewIntFromBigInt(amt)})
			call = func(c sdk.Context) (string, error) { _, err := h.e.srv.Mint(c, m); return "", err }
			term = fmt.Sprintf("KMint %d %d %s", h.S(r.Sender), h.S(r.Denom), zx(amt))
		case "burn":
			m := tftypes.NewMsgBurn(r.Sender, sdk.Coin{Denom: r.Denom, Amount: sdkmath.NewIntFromBigInt(amt)})
			call = func(c sdk.Context) (string, error) { _, err := h.e.srv.Burn(c, m); return "", err }
			term = fmt.Sprintf("KBurn %d %d %s", h.S(r.Sender), h.S(r.Denom), zx(amt))
		case "chadmin":
			m := tftypes.NewMsgChangeAdmin(r.Sender, r.Denom, r.NewAdmin)
			call = func(c sdk.Context) (string, error) { _, err := h.e.srv.ChangeAdmin(c, m); return "", err }
			term = fmt.Sprintf("KChangeAdmin %d %d %d", h.S(r.Sender), h.S(r.Denom), h.S(r.NewAdmin))
		case "setmeta":
			md := metaFor(r.Denom, r.Tag, r.BadMeta)
			m := tftypes.NewMsgSetDenomMetadata(r.Sender, md)
			call = func(c sdk.Context) (string, error) { _, err := h.e.srv.SetDenomMetadata(c, m); return "", err }
			term = fmt.Sprintf("KSetMeta %d %d %s %d", h.S(r.Sender), h.S(r.Denom), emit.Bool(md.Validate() == nil), r.Tag)
		default:
			return
		}
		before = h.observe(target)
		// no ValidateBasic, no cache context: whatever the handler wrote stays
		func() {
			defer func() {
				if rec := recover(); rec != nil {
					code, ret = 12, ""
				}
			}()
			res, err := call(h.e.ctx)
			h.lastErr = err
			code = classifyRaw(kind, err)
			if err == nil {
				ret = res
			}
		}()
		if kind == "create" && code == 0 {
			h.isCreat[ret] = true
			h.created = append(h.created, ret)
			h.idx[r.Sender] = append(h.idx[r.Sender], ret)
			h.x.spellings[r.Sender] = true
		}
		if (kind == "mint" || kind == "burn") && sdk.ValidateDenom(r.Denom) == nil {
			// the ghost follows the real supply here: a failed raw mint leaves coins behind
			h.ghost[r.Denom] = h.e.bk.GetSupply(h.e.ctx, r.Denom).Amount.BigInt()
		}
		term = "XKRaw (" + term + ")"
		watchD = append(watchD, target)
		h.run.Count("raw-dirty", fmt.Sprintf("%s:%s:%v", kind, outcomeName[code], code != 0 && h.dirty(before, h.observe(target))))
	case r.Kind == "wcreate":
		cs := ct.String()
		target = "factory/" + cs + "/" + r.Denom
		before = h.observe(target)
		if r.HasMd {
			defer h.baseOracle(r, ct, target, h.observe(r.MdBase))()
		}
		snap := h.feeSnap(cs)
		cd := &tfbind.CreateDenom{Subdenom: r.Denom}
		mdTerm := "NoMd"
		if r.HasMd {
			md := bindMeta(target, r.Tag, r.MdBase, r.BadMeta)
			cd.Metadata = &md
			mdTerm = fmt.Sprintf("(Md %d %s %d)", h.S(r.MdBase), emit.Bool(bankMetaOf(md, target).Validate() == nil), r.Tag)
		}
		err := dispatch(tfbind.Message{CreateDenom: cd})
		if err != nil && code != 12 {
			switch {
			case tftypes.NewMsgCreateDenom(cs, r.Denom).ValidateBasic() != nil:
				code = 1
			case strings.Contains(err.Error(), "setting metadata"):
				code = classifyMetaErr(err)
			default:
				code = classify("create", err)
				if code == 99 && isAddrErr(err) {
					code = 10
				}
			}
		}
		term = fmt.Sprintf("XKWCreate %d %d %s", h.idOf(ct), h.S(r.Denom), mdTerm)
		watchD = append(watchD, target)
		for _, f := range h.fee {
			watchD = append(watchD, f.Denom)
		}
		h.feeOracle(r.Kind, cs, code == 0, snap)
	case r.Kind == "wmint":
		before = h.observe(target)
		err := dispatch(tfbind.Message{MintTokens: &tfbind.MintTokens{Denom: r.Denom, Amount: sdkmath.NewIntFromBigInt(amt), MintToAddress: r.To}})
		if err != nil && code != 12 {
			m := tftypes.NewMsgMint(ct.String(), sdk.Coin{Denom: r.Denom, Amount: sdkmath.NewIntFromBigInt(amt)})
			switch {
			case strings.Contains(err.Error(), "address from bech32"):
				code = 10
			case m.ValidateBasic() != nil:
				code = 1
			default:
				code = classify("mint", err)
			}
		}
		term = fmt.Sprintf("XKWMint %d %d %s %d", h.idOf(ct), h.S(r.Denom), zx(amt), h.S(r.To))
		watchD = append(watchD, target)
	case r.Kind == "wburn":
		before = h.observe(target)
		err := dispatch(tfbind.Message{BurnTokens: &tfbind.BurnTokens{Denom: r.Denom, Amount: sdkmath.NewIntFromBigInt(amt), BurnFromAddress: r.To}})
		if err != nil && code != 12 {
			m := tftypes.NewMsgBurn(ct.String(), sdk.Coin{Denom: r.Denom, Amount: sdkmath.NewIntFromBigInt(amt)})
			switch {
			case strings.Contains(err.Error(), "BurnFromAddress must be"):
				code = 13
			case m.ValidateBasic() != nil:
				code = 1
			default:
				code = classify("burn", err)
			}
		}
		term = fmt.Sprintf("XKWBurn %d %d %s %d", h.idOf(ct), h.S(r.Denom), zx(amt), h.S(r.To))
		watchD = append(watchD, target)
	case r.Kind == "wchadmin":
		before = h.observe(target)
		err := dispatch(tfbind.Message{ChangeAdmin: &tfbind.ChangeAdmin{Denom: r.Denom, NewAdminAddress: r.NewAdmin}})
		if err != nil && code != 12 {
			switch {
			case strings.Contains(err.Error(), "address from bech32"):
				code = 10
			case func() bool {
				na, e := sdk.AccAddressFromBech32(r.NewAdmin)
				return e != nil || tftypes.NewMsgChangeAdmin(ct.String(), r.Denom, na.String()).ValidateBasic() != nil
			}():
				code = 1
			default:
				code = classify("chadmin", err)
			}
		}
		term = fmt.Sprintf("XKWChangeAdmin %d %d %d", h.idOf(ct), h.S(r.Denom), h.S(r.NewAdmin))
		watchD = append(watchD, target)
	case r.Kind == "wsetmeta":
		before = h.observe(target)
		defer h.baseOracle(r, ct, target, h.observe(r.MdBase))()
		md := bindMeta(r.Denom, r.Tag, r.MdBase, r.BadMeta)
		err := dispatch(tfbind.Message{SetMetadata: &tfbind.SetMetadata{Denom: r.Denom, Metadata: md}})
		if err != nil && code != 12 {
			code = classifyMetaErr(err)
		}
		term = fmt.Sprintf("XKWSetMeta %d %d %d %s %d", h.idOf(ct), h.S(r.Denom), h.S(r.MdBase), emit.Bool(bankMetaOf(md, r.Denom).Validate() == nil), r.Tag)
		watchD = append(watchD, target)
	case r.Kind == "params":
		var coins sdk.Coins
		var fl []string
		for _, f := range r.NewFee {
			a := parseAmt(f.Amount)
			coins = append(coins, sdk.Coin{Denom: f.Denom, Amount: sdkmath.NewIntFromBigInt(a)})
			fl = append(fl, emit.Pair(emit.ZI(int64(h.S(f.Denom))), zx(a)))
		}
		m := &tftypes.MsgUpdateParams{Authority: r.Authority, Params: tftypes.Params{DenomCreationFee: coins},
			Metadata: valsettypes.MsgMetadata{Creator: r.Sender, Signers: []string{r.Sender}}}
		valid := m.Params.Validate() == nil
		oldFee := h.e.tk.GetParams(h.e.ctx).DenomCreationFee
		code, _ = h.deliver(r.Kind, m.ValidateBasic, func(c sdk.Context) (string, error) { _, err := h.e.srv.UpdateParams(c, m); return "", err })
		term = fmt.Sprintf("XKParams %d %d %s %s", h.S(r.Authority), h.S(r.Sender), emit.List(fl), emit.Bool(valid))
		now := h.e.tk.GetParams(h.e.ctx).DenomCreationFee
		if code == 0 {
			if r.Authority != h.e.authority || r.Sender != h.e.authority || !valid {
				h.violate("C16:params-unauthorized", fmt.Sprintf("UpdateParams by %q (authority field %q, valid=%v) succeeded; keeper authority is %q", r.Sender, r.Authority, valid, h.e.authority))
			}
			if !now.Equal(coins) {
				h.violate("C16:params-not-stored", fmt.Sprintf("UpdateParams(%s) succeeded but GetParams gives %s", coins, now))
			}
			h.fee = now
		} else if !now.Equal(oldFee) {
			h.violate("C16:params-refused-but-changed", fmt.Sprintf("refused UpdateParams changed the fee %s -> %s", oldFee, now))
		}
	case r.Kind == "genesis":
		code = h.genesisRoundTrip()
		term = "XKGenesis"
		watchD = append(watchD, h.created...)
	default:
		return
	}
	r.Outcome = outcomeName[code]
	h.ops = append(h.ops, r)
	h.run.Count("op", r.Kind)
	h.run.Count("outcome", r.Kind+":"+outcomeName[code])
	if code == 0 {
		h.nOK++
	} else {
		h.nRej++
	}
	if code == 99 {
		h.violate("C16:unclassified-error", fmt.Sprintf("%s returned an error the harness cannot classify: %v", r.Kind, h.lastErr))
	}
	if strings.HasPrefix(r.Kind, "w") {
		h.wasmOracle(r, ct, code, ret, amt, target, before, h.observe(target))
	}
	nd := -1
	if (r.Kind == "wcreate" || r.Kind == "raw:create") && code == 0 {
		nd = h.S(ret)
	}
	seen := map[string]bool{}
	var obs []string
	for _, d := range watchD {
		if seen[d] {
			continue
		}
		seen[d] = true
		obs = append(obs, h.obsTerm(h.observe(d)))
	}
	h.steps = append(h.steps, fmt.Sprintf("XStep (%s) %d %d %s %s", term, code, nd+1, emit.List(obs), emit.List(h.extObs(r, code))))
}

// baseOracle: a set_metadata (or create with metadata) that names denom D but carries metadata.base B
// must not touch the bank metadata of B unless the contract is the admin of B.
func (h *hist) baseOracle(r opRec, ct sdk.AccAddress, named string, before dobs) func() {
	return func() {
		if r.MdBase == "" || r.MdBase == named {
			return
		}
		after := h.observe(r.MdBase)
		if after.tag != before.tag && before.adminS != ct.String() {
			h.violate("C16:metadata-of-other-denom-written", fmt.Sprintf("%s naming %q with metadata.base %q by contract %s changed the bank metadata of %q (tag %d -> %d) whose admin is %q",
				r.Kind, named, r.MdBase, ct.String(), r.MdBase, before.tag, after.tag, before.adminS))
		}
	}
}

func (h *hist) dirty(a, b dobs) bool {
	return a.supply.Cmp(b.supply) != 0 || !eqBals(a.bals, b.bals, -1, nil) || a.admin != b.admin || a.adminS != b.adminS || a.tag != b.tag
}

func (h *hist) watchIndex(a sdk.AccAddress) int {
	for i, w := range h.watchA {
		if w.Equals(a) {
			return i
		}
	}
	return -1
}

// wasmOracle: the property for a contract acting through the bindings, on the real state.
func (h *hist) wasmOracle(r opRec, ct sdk.AccAddress, code int, ret string, amt *big.Int, target string, before, after dobs) {
	ok := code == 0
	cs := ct.String()
	switch r.Kind {
	case "wcreate":
		if ok {
			if ret != "factory/"+cs+"/"+r.Denom {
				h.violate("C16:namespace", fmt.Sprintf("contract %s created sub %q and got %q", cs, r.Denom, ret))
			}
			if h.isCreat[ret] || before.tag >= 0 || before.admin >= 0 {
				h.violate("C16:created-twice", fmt.Sprintf("denom %q created by a contract although it existed", ret))
			}
			if after.adminS != cs {
				h.violate("C16:creator-not-admin", fmt.Sprintf("after the contract's create of %q admin is %q", ret, after.adminS))
			}
			h.isCreat[ret] = true
			h.created = append(h.created, ret)
			h.indexOracle(cs, ret)
		} else if h.dirty(before, after) {
			h.violate("C16:refused-message-had-effect", fmt.Sprintf("refused contract create of %q changed its state", target))
		}
		return
	}
	if ok {
		if before.admin < 0 || before.adminS != cs {
			h.violate("C16:non-admin-acted", fmt.Sprintf("%s on %q by contract %s succeeded, admin was %q", r.Kind, target, cs, before.adminS))
		}
		if !h.isCreat[target] {
			h.violate("C16:foreign-denom-touched", fmt.Sprintf("%s on %q by a contract succeeded but the denom was never created through the factory", r.Kind, target))
		}
	} else if h.dirty(before, after) {
		h.violate("C16:refused-message-had-effect", fmt.Sprintf("refused %s on %q by contract %s changed the denom's state", r.Kind, target, cs))
	}
	if !ok {
		return
	}
	switch r.Kind {
	case "wmint":
		// supply +x; mint_to_address +x; every other watched balance (the admin contract's too, unless
		// it is the recipient) as before: nobody is debited
		h.addGhost(target, amt)
		who := -1
		if a, err := sdk.AccAddressFromBech32(r.To); err == nil {
			who = h.watchIndex(a)
		}
		if !eqBals(before.bals, after.bals, who, amt) {
			h.violate("C16:mint-burn-touched-other-balance", fmt.Sprintf("contract mint of %s %q to %q: balances %v -> %v", amt, target, r.To, before.bals, after.bals))
		}
		if new(big.Int).Add(before.supply, amt).Cmp(after.supply) != 0 {
			h.violate("C16:supply-delta", fmt.Sprintf("contract mint of %s %q: supply %s -> %s", amt, target, before.supply, after.supply))
		}
	case "wburn":
		neg := new(big.Int).Neg(amt)
		h.addGhost(target, neg)
		if !eqBals(before.bals, after.bals, h.watchIndex(ct), neg) {
			h.violate("C16:mint-burn-touched-other-balance", fmt.Sprintf("contract burn of %s %q (burn_from %q): balances %v -> %v", amt, target, r.To, before.bals, after.bals))
		}
		if new(big.Int).Add(before.supply, neg).Cmp(after.supply) != 0 {
			h.violate("C16:supply-delta", fmt.Sprintf("contract burn of %s %q: supply %s -> %s", amt, target, before.supply, after.supply))
		}
	}
	for d, g := range h.ghost {
		if sdk.ValidateDenom(d) != nil {
			continue
		}
		if h.e.bk.GetSupply(h.e.ctx, d).Amount.BigInt().Cmp(g) != 0 {
			h.violate("C16:supply-ne-mints-minus-burns", fmt.Sprintf("supply of %q is %s, successful mints - burns (+ external) is %s", d, h.e.bk.GetSupply(h.e.ctx, d).Amount, g))
		}
	}
}

// genesisRoundTrip: ExportGenesis, empty the tokenfactory store, InitGenesis; committed only when
// InitGenesis does not panic.  Oracle: the exported state validates; every admin record, supply and
// balance is as before; the index lists every denom under its creator's canonical spelling.
func (h *hist) genesisRoundTrip() (code int) {
	beforeD := map[string]dobs{}
	for _, d := range h.created {
		beforeD[d] = h.observe(d)
	}
	cctx, write := h.e.ctx.CacheContext()
	gs := h.e.tk.ExportGenesis(cctx)
	if err := gs.Validate(); err != nil && !h.x.raw {
		h.violate("C16:genesis-export-invalid", fmt.Sprintf("the exported tokenfactory genesis does not validate: %v", err))
	}
	if len(gs.FactoryDenoms) != len(h.created) && !h.x.raw {
		h.violate("C16:genesis-export-incomplete", fmt.Sprintf("%d denoms created, %d exported", len(h.created), len(gs.FactoryDenoms)))
	}
	func() {
		defer func() {
			if rec := recover(); rec != nil {
				code = 12
			}
		}()
		st := cctx.KVStore(h.e.keyTF)
		var keys [][]byte
		it := st.Iterator(nil, nil)
		for ; it.Valid(); it.Next() {
			keys = append(keys, append([]byte{}, it.Key()...))
		}
		it.Close()
		for _, k := range keys {
			st.Delete(k)
		}
		h.e.tk.InitGenesis(cctx, *gs)
		write()
	}()
	h.run.Count("genesis", fmt.Sprintf("denoms=%d code=%d", len(gs.FactoryDenoms)/3*3, code))
	if code != 0 {
		if !h.x.raw {
			h.violate("C16:genesis-import-panics", "InitGenesis panicked on the state ExportGenesis produced")
		}
		return code
	}
	// the index is re-keyed by the canonical creator
	nidx := map[string][]string{}
	h.x.spellingsAdd(h)
	for _, d := range h.created {
		cr, _, err := tftypes.DeconstructDenom(d)
		if err != nil {
			continue
		}
		nidx[cr] = append(nidx[cr], d)
		h.x.spellings[cr] = true
	}
	h.idx = nidx
	if h.x.raw {
		return code
	}
	for _, d := range h.created {
		b, a := beforeD[d], h.observe(d)
		if b.admin != a.admin || b.adminS != a.adminS {
			h.violate("C16:genesis-admin-changed", fmt.Sprintf("genesis round trip changed the admin of %q: %q -> %q", d, b.adminS, a.adminS))
		}
		if b.supply.Cmp(a.supply) != 0 || !eqBals(b.bals, a.bals, -1, nil) {
			h.violate("C16:genesis-ledger-changed", fmt.Sprintf("genesis round trip changed supply / balances of %q", d))
		}
		if b.tag != a.tag {
			h.run.Count("genesis-metadata", "reset-to-bare") // InitGenesis overwrites the bank metadata (design/C16.md)
		} else {
			h.run.Count("genesis-metadata", "same")
		}
	}
	for cr, want := range nidx {
		sort.Strings(want)
		got := h.e.tk.GetDenomsFromCreator(h.e.ctx, cr)
		if strings.Join(want, ",") != strings.Join(got, ",") {
			h.violate("C16:creator-index", fmt.Sprintf("after the genesis round trip, denoms of creator %q: index %v, expected %v", cr, got, want))
		}
	}
	return code
}

func (x *xext) spellingsAdd(h *hist) {
	for s := range h.idx {
		x.spellings[s] = true
	}
}

// ---- generation ----

func (h *hist) anyAddr(rng *rand.Rand, hostile bool) string {
	if !hostile && rng.Intn(3) == 0 {
		return h.x.contracts[rng.Intn(len(h.x.contracts))].String()
	}
	return h.senderPool(rng, hostile)
}

func (h *hist) contractDenom(rng *rand.Rand, ci int, hostile bool) string {
	cs := h.x.contracts[ci].String()
	if hostile {
		return h.denomPool(rng, rng.Intn(2) == 0)
	}
	var own []string
	for _, d := range h.created {
		if h.currentAdmin(d) == cs {
			own = append(own, d)
		}
	}
	if len(own) > 0 && rng.Intn(10) < 8 {
		return own[rng.Intn(len(own))]
	}
	return "factory/" + cs + "/" + subs[rng.Intn(2)]
}

// foreignBase: a denom the contract has no say over — somebody else's factory denom, a native one, or
// a factory name nobody created.
func (h *hist) foreignBase(rng *rand.Rand) string {
	switch rng.Intn(4) {
	case 0:
		return "uusdc"
	case 1:
		return "factory/" + h.users[rng.Intn(len(h.users))].String() + "/never"
	default:
		if len(h.created) > 0 {
			return h.created[rng.Intn(len(h.created))]
		}
		return "ugrain"
	}
}

var feeMenu = [][]feeRec{
	{},
	{{"ugrain", "5"}},
	{{"ugrain", "7"}, {"uusdc", "3"}},
	{{"ugrain", "1"}},
	{{"uusdc", "2"}},
}

func (h *hist) nextX(rng *rand.Rand, hostileRate int) opRec {
	hostileOp := rng.Intn(100) < hostileRate
	k := rng.Intn(128)
	if k >= 100 && !h.x.raw {
		if k < 116 {
			return h.nextTx(rng, hostileRate)
		}
		a, b := h.users[rng.Intn(len(h.users))], h.users[rng.Intn(len(h.users))]
		kind := "grant"
		if k >= 126 {
			kind = "revoke"
		}
		return opRec{Kind: kind, Sender: a.String(), To: b.String()}
	}
	k = k % 100
	ci := rng.Intn(len(h.x.contracts))
	cs := h.x.contracts[ci].String()
	owns := false
	for _, d := range h.created {
		if h.currentAdmin(d) == cs {
			owns = true
		}
	}
	if !owns && k >= 34 && k < 82 && rng.Intn(10) < 7 {
		k = 34 // a contract that controls nothing yet creates first
		hostileOp = false
	}
	switch {
	case k < 34: // first-round kinds (users), with contracts as possible counterparties
		r := h.next(rng, hostileRate)
		if r.Kind == "chadmin" && rng.Intn(3) == 0 {
			r.NewAdmin = cs // hand a user's denom to a contract
		}
		if h.x.raw && r.Kind == "chadmin" && rng.Intn(4) == 0 {
			r.NewAdmin = h.e.tfMod.String() // a blocked admin: its raw mint fails after MintCoins
		}
		if r.Kind == "xsend" && rng.Intn(3) == 0 {
			r.To = cs
		}
		if h.x.raw && rng.Intn(100) < 60 && !strings.HasPrefix(r.Kind, "x") {
			if rng.Intn(3) == 0 {
				r.Sender = "" // the empty creator meets the empty admin
			}
			r.Kind = "raw:" + r.Kind
		}
		return r
	case k < 44:
		sub := subs[rng.Intn(3)]
		if hostileOp {
			sub = subs[rng.Intn(len(subs))]
		}
		r := opRec{Kind: "wcreate", Contract: ci, Denom: sub}
		if rng.Intn(2) == 0 {
			r.HasMd, r.Tag = true, int64(1+rng.Intn(1000))
			switch rng.Intn(7) {
			case 0:
				r.MdBase = "factory/" + cs + "/" + sub
			case 1:
				r.MdBase = "ugrain"
			case 2:
				r.BadMeta = true
			case 3:
				r.MdBase = h.foreignBase(rng)
			}
		}
		return r
	case k < 66:
		d := h.contractDenom(rng, ci, hostileOp && rng.Intn(2) == 0)
		amt := amountPool(rng, hostileOp && rng.Intn(3) == 0)
		if k < 56 {
			to := h.anyAddr(rng, hostileOp && rng.Intn(3) == 0)
			switch rng.Intn(8) {
			case 0:
				to = cs
			case 1:
				to = h.e.tfMod.String() // a blocked module account: bank.SendCoins does not look
			}
			return opRec{Kind: "wmint", Contract: ci, Denom: d, Amount: amt.String(), To: to}
		}
		from := ""
		switch rng.Intn(6) {
		case 0:
			from = cs
		case 1:
			from = h.users[rng.Intn(len(h.users))].String() // somebody else's coins: refused
		}
		if !hostileOp && sdk.ValidateDenom(d) == nil {
			if b := h.e.bk.GetBalance(h.e.ctx, h.x.contracts[ci], d).Amount.BigInt(); b.Sign() > 0 {
				amt = new(big.Int).Add(new(big.Int).Rand(rng, b), big.NewInt(1))
			}
		}
		return opRec{Kind: "wburn", Contract: ci, Denom: d, Amount: amt.String(), To: from}
	case k < 74:
		d := h.contractDenom(rng, ci, hostileOp && rng.Intn(2) == 0)
		na := h.anyAddr(rng, hostileOp && rng.Intn(2) == 0)
		if rng.Intn(8) == 0 {
			na = "" // the binding's doc says "" renounces; parseAddress refuses it
		}
		return opRec{Kind: "wchadmin", Contract: ci, Denom: d, NewAdmin: na}
	case k < 82:
		d := h.contractDenom(rng, ci, hostileOp && rng.Intn(2) == 0)
		r := opRec{Kind: "wsetmeta", Contract: ci, Denom: d, Tag: int64(1 + rng.Intn(1000))}
		switch rng.Intn(7) {
		case 0:
			r.MdBase = d
		case 1:
			r.MdBase = "ugrain"
		case 2:
			r.BadMeta = true
		case 3, 4:
			r.MdBase = h.foreignBase(rng)
		}
		return r
	case k < 92:
		r := opRec{Kind: "params", Authority: h.e.authority, Sender: h.e.authority}
		r.NewFee = feeMenu[rng.Intn(len(feeMenu))]
		if len(h.created) > 0 && rng.Intn(5) == 0 {
			r.NewFee = []feeRec{{h.created[rng.Intn(len(h.created))], "2"}} // fee in a factory denom
		}
		if hostileOp || rng.Intn(4) == 0 {
			switch rng.Intn(7) {
			case 0:
				r.Authority, r.Sender = h.users[0].String(), h.users[0].String()
			case 1:
				r.Sender = h.users[0].String()
			case 2:
				r.Authority = h.users[0].String()
			case 3:
				r.NewFee = []feeRec{{"uusdc", "3"}, {"ugrain", "7"}} // unsorted
			case 4:
				r.NewFee = []feeRec{{"ugrain", "0"}}
			case 5:
				r.NewFee = []feeRec{{"ugrain", "-4"}}
			default:
				r.Sender, r.Authority = "", ""
			}
		}
		return r
	default:
		return opRec{Kind: "genesis"}
	}
}

func (h *hist) fundContracts() {
	for i, c := range h.x.contracts {
		h.exec(opRec{Kind: "xmint", Sender: c.String(), Denom: "ugrain", Amount: fmt.Sprint(40 + 1000000*(i%2))})
		if i == 0 {
			h.exec(opRec{Kind: "xmint", Sender: c.String(), Denom: "uusdc", Amount: "9"})
		}
	}
}

// gate: is there any path to the msg server that skips ValidateBasic?  Every consumer of
// app.MsgServiceRouter() (baseapp runMsgs, gov, authz, wasm's stargate/any messages, ICA host) calls
// the handler the router registered, and that handler calls ValidateBasic itself (cosmos-sdk
// baseapp/msg_service_router.go; pinned by the translator).  Driven here on the real router and the
// real authz keeper with the messages the raw msg server would accept: Creator "" against the empty
// admin of a never-created and of a renounced denom.
func gateValidateBasic(t testing.TB, run *emit.Run) {
	h := newHist(t, run, setup{Users: 3})
	e := h.e
	router := baseapp.NewMsgServiceRouter()
	router.SetInterfaceRegistry(e.reg)
	tftypes.RegisterMsgServer(router, e.srv)
	ak := authzkeeper.NewKeeper(runtime.NewKVStoreService(e.keyAuthz), e.cdc, router, e.ak)
	u0, u1 := h.users[0].String(), h.users[1].String()
	d := "factory/" + u0 + "/foo"
	never := "factory/" + u0 + "/never"
	must := func(err error) {
		if err != nil {
			t.Fatalf("gate setup: %v", err)
		}
	}
	// a renounced denom (fee-free params were set by newHist); if even this fails the histories below
	// will say why with a replay — the gate is skipped rather than aborting the run
	if _, err := e.srv.CreateDenom(e.ctx, tftypes.NewMsgCreateDenom(u0, "foo")); err != nil {
		run.Count("gate", "skipped: setup create failed")
		return
	}
	if _, err := e.srv.ChangeAdmin(e.ctx, tftypes.NewMsgChangeAdmin(u0, d, "")); err != nil {
		run.Count("gate", "skipped: setup renounce failed")
		return
	}
	run.Count("gate", "ran")
	mk := func(m sdk.Msg) sdk.Msg { return m }
	signed := func(creator string) valsettypes.MsgMetadata {
		return valsettypes.MsgMetadata{Creator: creator, Signers: []string{u1}}
	}
	msgs := []sdk.Msg{
		mk(&tftypes.MsgChangeAdmin{Denom: never, NewAdmin: u1, Metadata: signed("")}),
		mk(&tftypes.MsgChangeAdmin{Denom: d, NewAdmin: u1, Metadata: signed("")}),
		mk(&tftypes.MsgSetDenomMetadata{DenomMetadata: metaFor(d, 7, false), Metadata: signed("")}),
		mk(&tftypes.MsgMint{Amount: sdk.NewInt64Coin(d, 5), Metadata: signed("")}),
		mk(&tftypes.MsgBurn{Amount: sdk.NewInt64Coin(d, 5), Metadata: signed("")}),
	}
	for _, m := range msgs {
		name := sdk.MsgTypeURL(m)
		// raw: what the handler alone would do (recorded, not a violation: nothing calls it like this)
		rawOK := func() (ok bool) {
			defer func() { recover() }()
			c, _ := e.ctx.CacheContext()
			var err error
			switch x := m.(type) {
			case *tftypes.MsgChangeAdmin:
				_, err = e.srv.ChangeAdmin(c, x)
			case *tftypes.MsgSetDenomMetadata:
				_, err = e.srv.SetDenomMetadata(c, x)
			case *tftypes.MsgMint:
				_, err = e.srv.Mint(c, x)
			case *tftypes.MsgBurn:
				_, err = e.srv.Burn(c, x)
			}
			return err == nil
		}()
		run.Count("gate-raw-handler", fmt.Sprintf("%s accepted=%v", name, rawOK))
		// 1. the handler every router consumer calls
		hd := router.Handler(m)
		if hd == nil {
			t.Fatalf("gate: no route for %s", name)
		}
		c1, _ := e.ctx.CacheContext()
		_, err := hd(c1, m)
		run.Count("gate-router", fmt.Sprintf("%s refused=%v", name, err != nil))
		if err == nil {
			run.Violate("C16:handler-reached-without-validate-basic",
				fmt.Sprintf("the msg service router delivered %s with Creator \"\" to the msg server and it succeeded", name), m)
		}
		// 2. nested in authz MsgExec (grantee = the inner message's signer: no grant is needed)
		anyMsg, aerr := codectypes.NewAnyWithValue(m)
		must(aerr)
		c2, _ := e.ctx.CacheContext()
		_, err = ak.Exec(c2, &authz.MsgExec{Grantee: u1, Msgs: []*codectypes.Any{anyMsg}})
		run.Count("gate-authz", fmt.Sprintf("%s refused=%v", name, err != nil))
		if err == nil {
			run.Violate("C16:handler-reached-without-validate-basic",
				fmt.Sprintf("authz MsgExec delivered %s with Creator \"\" to the msg server and it succeeded", name), m)
		}
	}
	// positive control: the same router does deliver a well-formed message
	ok := tftypes.NewMsgCreateDenom(u1, "viarouter")
	c3, _ := e.ctx.CacheContext()
	e.tk.SetParams(c3, tftypes.Params{})
	if _, err := router.Handler(ok)(c3, ok); err != nil {
		run.Count("gate", "positive control refused: "+outcomeName[classify("create", err)])
	}
	_ = errors.Is
	_ = sdkerrors.ErrInvalidAddress
	_ = storetypes.StoreTypeIAVL
}

// ---- third round: whole transactions through the real decorator ----

type fakeTx struct{ msgs []sdk.Msg }

func (f fakeTx) GetMsgs() []sdk.Msg                    { return f.msgs }
func (f fakeTx) GetMsgsV2() ([]protov2.Message, error) { return nil, nil }

// grantexec: a fee allowance in the real x/feegrant keeper (another module: no model step; the grants
// in force are read back from the keeper and given to the model with every transaction).
func (h *hist) grantexec(r opRec) {
	a, err1 := sdk.AccAddressFromBech32(r.Sender)
	b, err2 := sdk.AccAddressFromBech32(r.To)
	if err1 != nil || err2 != nil || a.Equals(b) {
		return
	}
	var err error
	if r.Kind == "grant" {
		err = h.e.fg.GrantAllowance(h.e.ctx, a, b, &feegrant.BasicAllowance{})
	} else {
		_, err = feegrantkeeper.NewMsgServerImpl(h.e.fg).RevokeAllowance(h.e.ctx, &feegrant.MsgRevokeAllowance{Granter: r.Sender, Grantee: r.To})
	}
	r.Outcome = "ok"
	if err != nil {
		r.Outcome = "refused"
	}
	h.ops = append(h.ops, r)
	h.run.Count("op", r.Kind)
}

func (h *hist) grantsTerm() string {
	var l []string
	_ = h.e.fg.IterateAllFeeAllowances(h.e.ctx, func(g feegrant.Grant) bool {
		a, e1 := sdk.AccAddressFromBech32(g.Granter)
		b, e2 := sdk.AccAddressFromBech32(g.Grantee)
		if e1 == nil && e2 == nil {
			l = append(l, emit.Pair(emit.ZI(h.idOf(a)), emit.ZI(h.idOf(b))))
		}
		return false
	})
	return emit.List(l)
}

type builtMsg struct {
	r       opRec
	msg     sdk.Msg
	term    string
	target  string
	amt     *big.Int
	call    func(sdk.Context) (string, error)
	signers []string
}

func (h *hist) buildMsg(r opRec) (b builtMsg, ok bool) {
	b.r, b.amt, b.target = r, parseAmt(r.Amount), r.Denom
	b.signers = r.Signers
	if len(b.signers) == 0 {
		b.signers = []string{r.Sender}
	}
	md := valsettypes.MsgMetadata{Creator: r.Sender, Signers: b.signers}
	coin := sdk.Coin{Denom: r.Denom, Amount: sdkmath.NewIntFromBigInt(b.amt)}
	switch r.Kind {
	case "create":
		m := &tftypes.MsgCreateDenom{Subdenom: r.Denom, Metadata: md}
		b.target = strings.Join([]string{"factory", r.Sender, r.Denom}, "/")
		b.msg, b.term = m, fmt.Sprintf("KCreate %d %d", h.S(r.Sender), h.S(r.Denom))
		b.call = func(c sdk.Context) (string, error) {
			resp, err := h.e.srv.CreateDenom(c, m)
			if err != nil {
				return "", err
			}
			return resp.NewTokenDenom, nil
		}
	case "mint":
		m := &tftypes.MsgMint{Amount: coin, Metadata: md}
		b.msg, b.term = m, fmt.Sprintf("KMint %d %d %s", h.S(r.Sender), h.S(r.Denom), zx(b.amt))
		b.call = func(c sdk.Context) (string, error) { _, err := h.e.srv.Mint(c, m); return "", err }
	case "burn":
		m := &tftypes.MsgBurn{Amount: coin, Metadata: md}
		b.msg, b.term = m, fmt.Sprintf("KBurn %d %d %s", h.S(r.Sender), h.S(r.Denom), zx(b.amt))
		b.call = func(c sdk.Context) (string, error) { _, err := h.e.srv.Burn(c, m); return "", err }
	case "chadmin":
		m := &tftypes.MsgChangeAdmin{Denom: r.Denom, NewAdmin: r.NewAdmin, Metadata: md}
		b.msg, b.term = m, fmt.Sprintf("KChangeAdmin %d %d %d", h.S(r.Sender), h.S(r.Denom), h.S(r.NewAdmin))
		b.call = func(c sdk.Context) (string, error) { _, err := h.e.srv.ChangeAdmin(c, m); return "", err }
	case "setmeta":
		bm := metaFor(r.Denom, r.Tag, r.BadMeta)
		m := &tftypes.MsgSetDenomMetadata{DenomMetadata: bm, Metadata: md}
		b.msg, b.term = m, fmt.Sprintf("KSetMeta %d %d %s %d", h.S(r.Sender), h.S(r.Denom), emit.Bool(bm.Validate() == nil), r.Tag)
		b.call = func(c sdk.Context) (string, error) { _, err := h.e.srv.SetDenomMetadata(c, m); return "", err }
	default:
		return b, false
	}
	var sg []string
	for _, s := range b.signers {
		sg = append(sg, emit.ZI(int64(h.S(s))))
	}
	b.term = fmt.Sprintf("TM (%s) %s", b.term, emit.List(sg))
	return b, true
}

// authorisedBy: did the creator's account sign the message, or fee-grant one of its signers?  Asked
// of the real feegrant keeper, account by account (not of the decorator).
func (h *hist) authorisedBy(ctx sdk.Context, creator string, signers []string) bool {
	ca, err := sdk.AccAddressFromBech32(creator)
	if err != nil {
		return false
	}
	for _, s := range signers {
		sa, err := sdk.AccAddressFromBech32(s)
		if err != nil {
			continue
		}
		if sa.Equals(ca) {
			return true
		}
		if al, err := h.e.fg.GetAllowance(ctx, ca, sa); err == nil && al != nil {
			return true
		}
	}
	return false
}

// txexec: baseapp.runTx for a transaction of tokenfactory messages: ValidateBasic of every message,
// the REAL VerifyAuthorisedSignatureDecorator over the whole transaction, then the msg server for
// each message on one cache context, written back only when all succeed.
func (h *hist) txexec(r opRec) {
	var bs []builtMsg
	var msgs []sdk.Msg
	var terms []string
	for _, m := range r.Msgs {
		b, ok := h.buildMsg(m)
		if !ok {
			return
		}
		bs = append(bs, b)
		msgs = append(msgs, b.msg)
		terms = append(terms, b.term)
	}
	if len(bs) == 0 {
		return
	}
	grants := h.grantsTerm()
	feeDenoms := []string{}
	for _, f := range h.fee {
		feeDenoms = append(feeDenoms, f.Denom)
	}
	var targets []string
	for _, b := range bs {
		targets = append(targets, b.target)
	}
	beforeAll := map[string]dobs{}
	for _, d := range targets {
		beforeAll[d] = h.observe(d)
	}
	code := 0
	for _, m := range msgs {
		if vb, ok := m.(sdk.HasValidateBasic); ok && vb.ValidateBasic() != nil {
			code = 1
		}
	}
	if code == 0 {
		func() {
			defer func() {
				if rec := recover(); rec != nil {
					code = 12
				}
			}()
			reached := false
			_, err := h.e.dec.AnteHandle(h.e.ctx, fakeTx{msgs}, false, func(ctx sdk.Context, tx sdk.Tx, sim bool) (sdk.Context, error) {
				reached = true
				return ctx, nil
			})
			if err != nil || !reached {
				code = 14
			}
		}()
	}
	type pending struct {
		b             builtMsg
		ret           string
		before, after dobs
		authorised    bool
	}
	var done []pending
	if code == 0 {
		cctx, write := h.e.ctx.CacheContext()
		for _, b := range bs {
			p := pending{b: b, before: h.observeAt(cctx, b.target), authorised: h.authorisedBy(cctx, b.r.Sender, b.signers)}
			func() {
				defer func() {
					if rec := recover(); rec != nil {
						code = 12
					}
				}()
				ret, err := b.call(cctx)
				h.lastErr = err
				if c := classify(b.r.Kind, err); c != 0 {
					code = c
				}
				p.ret = ret
			}()
			if code != 0 {
				break
			}
			p.after = h.observeAt(cctx, b.target)
			done = append(done, p)
		}
		if code == 0 {
			write()
		}
	}
	r.Outcome = outcomeName[code]
	h.ops = append(h.ops, r)
	h.run.Count("op", "tx")
	h.run.Count("outcome", "tx:"+outcomeName[code])
	h.run.Count("tx-shape", fmt.Sprintf("msgs=%d", len(bs)))
	if code == 0 {
		h.nOK++
	} else {
		h.nRej++
	}
	if code == 99 {
		h.violate("C16:unclassified-error", fmt.Sprintf("a message of a tx returned an error the harness cannot classify: %v", h.lastErr))
	}

	// ---- direct oracle, transaction level ----
	if code != 0 {
		for _, d := range targets {
			if h.dirty(beforeAll[d], h.observe(d)) {
				h.violate("C16:refused-tx-had-effect", fmt.Sprintf("a refused transaction (%s) changed the state of %q", outcomeName[code], d))
			}
		}
	} else {
		foreign := 0
		for i, p := range done {
			k, cr := p.b.r.Kind, p.b.r.Sender
			if !p.authorised {
				h.violate("C16:tx-creator-did-not-authorise", fmt.Sprintf("message %d of a delivered transaction (%s on %q) names creator %q, who is not among its signers %v and fee-granted none of them", i, k, p.b.target, cr, p.b.signers))
			}
			if len(p.b.signers) > 0 && p.b.signers[0] != cr {
				foreign++
			}
			switch k {
			case "create":
				if p.ret != "factory/"+cr+"/"+p.b.r.Denom {
					h.violate("C16:namespace", fmt.Sprintf("create by %q sub %q in a tx returned %q", cr, p.b.r.Denom, p.ret))
				}
				if h.isCreat[p.ret] || p.before.tag >= 0 || p.before.admin >= 0 {
					h.violate("C16:created-twice", fmt.Sprintf("denom %q created in a tx although it existed", p.ret))
				}
				h.isCreat[p.ret] = true
				h.created = append(h.created, p.ret)
				h.idx[cr] = append(h.idx[cr], p.ret)
				h.x.spellings[cr] = true
				defer h.indexCheck(cr)
			default:
				if p.before.admin < 0 || p.before.adminS != cr || cr == "" {
					h.violate("C16:non-admin-acted", fmt.Sprintf("%s on %q by %q succeeded inside a tx, admin was %q", k, p.b.target, cr, p.before.adminS))
				}
				if !h.isCreat[p.b.target] {
					h.violate("C16:foreign-denom-touched", fmt.Sprintf("%s on %q succeeded inside a tx but the denom was never created through the factory", k, p.b.target))
				}
			}
			if k == "mint" || k == "burn" {
				delta := new(big.Int).Set(p.b.amt)
				if k == "burn" {
					delta.Neg(delta)
				}
				h.addGhost(p.b.target, delta)
				who := -1
				if a, err := sdk.AccAddressFromBech32(cr); err == nil {
					who = h.watchIndex(a)
				}
				if !eqBals(p.before.bals, p.after.bals, who, delta) {
					h.violate("C16:mint-burn-touched-other-balance", fmt.Sprintf("%s of %s %q by %q inside a tx: balances %v -> %v", k, p.b.amt, p.b.target, cr, p.before.bals, p.after.bals))
				}
			}
		}
		h.run.Count("tx-delivered", fmt.Sprintf("msgs=%d signed-by-other=%d", len(done), foreign))
		for d, g := range h.ghost {
			if sdk.ValidateDenom(d) == nil && h.e.bk.GetSupply(h.e.ctx, d).Amount.BigInt().Cmp(g) != 0 {
				h.violate("C16:supply-ne-mints-minus-burns", fmt.Sprintf("supply of %q is %s, successful mints - burns (+ external) is %s", d, h.e.bk.GetSupply(h.e.ctx, d).Amount, g))
			}
		}
	}

	// ---- model step ----
	seen := map[string]bool{}
	var obs []string
	for _, d := range append(append([]string{}, targets...), feeDenoms...) {
		if !seen[d] {
			seen[d] = true
			obs = append(obs, h.obsTerm(h.observe(d)))
		}
	}
	var ext []string
	for _, b := range bs {
		if b.r.Kind == "create" {
			ext = append(ext, h.indexTerm(b.r.Sender))
		}
	}
	ext = append(ext, h.poolTerms()...)
	h.steps = append(h.steps, fmt.Sprintf("XStep (XKTx %s %s) %d 0 %s %s", grants, emit.List(terms), code, emit.List(obs), emit.List(ext)))
}

// msgInNameOf: a plausible message with creator `who`: on a denom `who` administers if there is one,
// else (or sometimes) a create.
func (h *hist) msgInNameOf(rng *rand.Rand, who, signer string) opRec {
	var own []string
	for _, d := range h.created {
		if h.currentAdmin(d) == who {
			own = append(own, d)
		}
	}
	if len(own) == 0 || rng.Intn(5) == 0 {
		return opRec{Kind: "create", Sender: who, Denom: []string{"foo", "bar", "t1", "t2", "t3"}[rng.Intn(5)]}
	}
	d := own[rng.Intn(len(own))]
	switch rng.Intn(5) {
	case 0, 1:
		return opRec{Kind: "mint", Sender: who, Denom: d, Amount: fmt.Sprint(1 + rng.Intn(500))}
	case 2:
		amt := big.NewInt(int64(1 + rng.Intn(50)))
		if a, err := sdk.AccAddressFromBech32(who); err == nil {
			if b := h.e.bk.GetBalance(h.e.ctx, a, d).Amount.BigInt(); b.Sign() > 0 && rng.Intn(4) > 0 {
				amt = new(big.Int).Add(new(big.Int).Rand(rng, b), big.NewInt(1))
			}
		}
		return opRec{Kind: "burn", Sender: who, Denom: d, Amount: amt.String()}
	case 3:
		na := signer
		if rng.Intn(3) == 0 {
			na = h.users[rng.Intn(len(h.users))].String()
		}
		return opRec{Kind: "chadmin", Sender: who, Denom: d, NewAdmin: na}
	default:
		return opRec{Kind: "setmeta", Sender: who, Denom: d, Tag: int64(1 + rng.Intn(1000))}
	}
}

// nextTx: a transaction of 1-4 tokenfactory messages signed by ONE account M (sometimes two): M's own
// messages and messages in the name of other accounts X — delivered only where X fee-granted M.
func (h *hist) nextTx(rng *rand.Rand, hostileRate int) opRec {
	m := h.users[rng.Intn(len(h.users))].String()
	other := h.users[rng.Intn(len(h.users))].String()
	var pairs [][2]string
	_ = h.e.fg.IterateAllFeeAllowances(h.e.ctx, func(g feegrant.Grant) bool {
		pairs = append(pairs, [2]string{g.Granter, g.Grantee})
		return false
	})
	if len(pairs) > 0 && rng.Intn(10) < 6 {
		p := pairs[rng.Intn(len(pairs))]
		other, m = p[0], p[1] // X granted M
	}
	n := 1 + rng.Intn(4)
	tx := opRec{Kind: "tx"}
	for i := 0; i < n; i++ {
		var sub opRec
		switch c := rng.Intn(100); {
		case c < 45 || (i == 0 && c < 70):
			sub = h.msgInNameOf(rng, m, m) // the signer's own message (first, mostly)
		case c < 85:
			sub = h.msgInNameOf(rng, other, m) // in somebody else's name
		default:
			for {
				sub = h.next(rng, hostileRate/4) // one hostile field in any message already sinks the whole tx
				if !strings.HasPrefix(sub.Kind, "x") {
					break
				}
			}
		}
		switch rng.Intn(12) {
		case 0:
			sub.Signers = []string{m, h.users[rng.Intn(len(h.users))].String()}
		case 1:
			sub.Signers = []string{sub.Sender}
		default:
			sub.Signers = []string{m}
		}
		tx.Msgs = append(tx.Msgs, sub)
	}
	return tx
}
