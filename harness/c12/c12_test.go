// Package c12 is the correspondence harness (X) and direct oracle for property C12: valset
// keep-alive / grace period / inactivity jailing, driven on the REAL valset, staking and slashing
// keepers of x/skyway/keeper.CreateTestEnv, block by block, through the real msg server, the real
// AppModule Begin/EndBlock and the real staking end-blocker.
package c12

import (
	"bytes"
	"encoding/hex"
	"encoding/json"
	"fmt"
	"math/rand"
	"os"
	"path/filepath"
	"sort"
	"strings"
	"testing"
	"time"

	"cosmossdk.io/log"
	sdkmath "cosmossdk.io/math"
	"github.com/cosmos/cosmos-sdk/crypto/keys/ed25519"
	sdk "github.com/cosmos/cosmos-sdk/types"
	authtypes "github.com/cosmos/cosmos-sdk/x/auth/types"
	stakingkeeper "github.com/cosmos/cosmos-sdk/x/staking/keeper"
	stakingtypes "github.com/cosmos/cosmos-sdk/x/staking/types"
	"github.com/palomachain/paloma/v2/verifharness/emit"
	skywaykeeper "github.com/palomachain/paloma/v2/x/skyway/keeper"
	skywaytypes "github.com/palomachain/paloma/v2/x/skyway/types"
	"github.com/palomachain/paloma/v2/x/valset"
	valsetkeeper "github.com/palomachain/paloma/v2/x/valset/keeper"
	valsettypes "github.com/palomachain/paloma/v2/x/valset/types"
	"golang.org/x/mod/semver"
)

const (
	legacyKey = "unjailed-validators-snapshot"
	v2Key     = "unjailed-validators-snapshot-v2"
	denom     = "ugrain"
)

var baseTime = time.Date(2024, time.January, 1, 0, 0, 0, 0, time.UTC)

// version pool; ranks are computed with the real semver.Compare (trusted to be a total preorder,
// which is also checked on the pool below).
var versions = []string{"v1.11.3", "v1.11.2", "v1.11.4", "v1.12.0", "v2.0.0", "v1.11.3-rc1", "v1.11.3+meta",
	"1.12.0", "", "garbage", "v1.11", "v1", "v1.11.03", "v0.0.1", "v10.4.0"}

func rank(v string) int64 {
	n := int64(0)
	// number of distinct classes strictly below v
	seen := []string{}
	for _, w := range versions {
		if semver.Compare(w, v) < 0 {
			dup := false
			for _, s := range seen {
				if semver.Compare(s, w) == 0 {
					dup = true
				}
			}
			if !dup {
				seen = append(seen, w)
				n++
			}
		}
	}
	return n
}

// ---- replay format ----

type Op struct {
	K   string `json:"k"`             // add env begin keepalive setmin schedule unjail extjail jail delegate end
	I   int    `json:"i,omitempty"`   // validator index (creation table)
	Ver string `json:"ver,omitempty"` // version string
	N   int64  `json:"n,omitempty"`   // target height / dh / amount
	Dt  int64  `json:"dt,omitempty"`  // seconds
	// only for k = "end": validators jailed through valset.Jail by another module's end-blocker that runs
	// BEFORE valset's (consensus: missed attestations) resp. AFTER it (paloma: missing chain infos)
	Pre  []int `json:"pre,omitempty"`
	Post []int `json:"post,omitempty"`
}

type History struct {
	Addrs  []string `json:"addrs"`  // hex, creation table
	Tokens []int64  `json:"tokens"` // initial self-delegation per table entry
	N0     int      `json:"n0"`     // validators created before the first block
	H0     int64    `json:"h0"`
	Legacy *string  `json:"legacy"` // hex blob seeded under the legacy key (nil = none)
	MaxVal uint32   `json:"maxval"` // staking MaxValidators (0 = 100)
	Ops    []Op     `json:"ops"`
}

// ---- world ----

type world struct {
	t    *testing.T
	in   skywaykeeper.TestInput
	ctx  sdk.Context
	k    valsetkeeper.Keeper
	mod  valset.AppModule
	msg  valsettypes.MsgServer
	stk  stakingtypes.MsgServer
	h    History
	addr []sdk.ValAddress
	cons []sdk.ConsAddress
	live []bool // created
	everBonded []bool
	whale sdk.AccAddress

	// model-side mirror of what was emitted (status, power) to emit OEnv deltas
	emSt  []int
	emPow []int64

	// oracle bookkeeping (independent of the keeper's stores)
	lastKA  map[int]int64 // height of last ACCEPTED keep-alive
	since   map[int]int64 // first processed end-block at which the validator was seen unjailed (after being jailed / absent)
	prevUnj map[int]bool
	minVer  string
	jailRec map[int]jailRec // last jailing through valset.Jail, by the schedule of the property text
	unjailH map[int]int64   // height of the last unjail event
	legacyParsed bool       // a seeded legacy blob was understood by the oracle (20-byte addresses, 21-byte stride)
	nEsc, nReset, nSoonAfterUnjail int

	stAtCheck [4]int
	terms []string
	lastObs, lastBlob string
	nJail, nGrace, nRefuse, nProt int
	viol  []string
}

func (w *world) setCtx(h int64, t time.Time) {
	w.ctx = w.ctx.WithBlockHeight(h).WithBlockTime(t)
}

func newWorld(t *testing.T, h History) *world {
	in := skywaykeeper.CreateTestEnv(t)
	w := &world{t: t, in: in, h: h}
	w.ctx = sdk.UnwrapSDKContext(in.Context).WithLogger(log.NewNopLogger()).WithBlockHeight(h.H0).WithBlockTime(baseTime.Add(time.Second))
	maxVal := h.MaxVal
	if maxVal == 0 {
		maxVal = 100
	}
	params := stakingtypes.Params{
		UnbondingTime:     10 * time.Minute,
		MaxValidators:     maxVal,
		MaxEntries:        10,
		HistoricalEntries: 10,
		BondDenom:         denom,
		MinCommissionRate: sdkmath.LegacyNewDecWithPrec(5, 2),
	}
	if err := in.StakingKeeper.SetParams(w.ctx, params); err != nil {
		t.Fatal(err)
	}
	w.k = in.ValsetKeeper
	w.mod = valset.NewAppModule(in.Marshaler, w.k, in.AccountKeeper, in.BankKeeper)
	w.msg = valsetkeeper.NewMsgServerImpl(w.k)
	w.stk = stakingkeeper.NewMsgServerImpl(&in.StakingKeeper)
	n := len(h.Addrs)
	w.addr = make([]sdk.ValAddress, n)
	w.cons = make([]sdk.ConsAddress, n)
	w.live = make([]bool, n)
	w.everBonded = make([]bool, n)
	w.emSt = make([]int, n)
	w.emPow = make([]int64, n)
	for i, a := range h.Addrs {
		b, err := hex.DecodeString(a)
		if err != nil {
			t.Fatal(err)
		}
		w.addr[i] = sdk.ValAddress(b)
	}
	w.lastKA = map[int]int64{}
	w.since = map[int]int64{}
	w.prevUnj = map[int]bool{}
	w.jailRec = map[int]jailRec{}
	w.unjailH = map[int]int64{}
	w.minVer = "v1.11.3"
	// whale for later delegations
	w.whale = sdk.AccAddress(bytes.Repeat([]byte{0xEE}, 20))
	w.fund(w.whale, 1_000_000_000_000)
	return w
}

func (w *world) fund(acc sdk.AccAddress, amt int64) {
	coins := sdk.NewCoins(sdk.NewInt64Coin(denom, amt))
	if err := w.in.BankKeeper.MintCoins(w.ctx, skywaytypes.ModuleName, coins); err != nil {
		w.t.Fatal(err)
	}
	if err := w.in.BankKeeper.SendCoinsFromModuleToAccount(w.ctx, skywaytypes.ModuleName, acc, coins); err != nil {
		w.t.Fatal(err)
	}
	if w.in.AccountKeeper.GetAccount(w.ctx, acc) == nil {
		w.in.AccountKeeper.SetAccount(w.ctx, w.in.AccountKeeper.NewAccount(w.ctx, authtypes.NewBaseAccountWithAddress(acc)))
	}
}

func (w *world) addVal(i int) {
	a := w.addr[i]
	acc := sdk.AccAddress(a)
	w.fund(acc, w.h.Tokens[i])
	pk := ed25519.GenPrivKeyFromSecret(append([]byte("c12-cons-"), a...)).PubKey()
	w.cons[i] = sdk.ConsAddress(pk.Address())
	if bytes.Equal(w.cons[i], a) {
		w.t.Fatalf("validator %d: consensus address equals operator address", i)
	}
	m := skywaykeeper.NewTestMsgCreateValidator(a, pk, sdkmath.NewInt(w.h.Tokens[i]))
	if _, err := w.stk.CreateValidator(w.ctx, m); err != nil {
		w.t.Fatalf("create validator %d: %v", i, err)
	}
	w.live[i] = true
	w.emSt[i] = 1
	w.emPow[i] = 0
	w.terms = append(w.terms, fmt.Sprintf("C12.OAddVal %d", i))
}

func (w *world) val(i int) stakingtypes.Validator {
	v, err := w.in.StakingKeeper.GetValidator(w.ctx, w.addr[i])
	if err != nil {
		w.t.Fatalf("get validator %d: %v", i, err)
	}
	return v
}

func stCode(s stakingtypes.BondStatus) int {
	switch s {
	case stakingtypes.Unbonded:
		return 1
	case stakingtypes.Unbonding:
		return 2
	case stakingtypes.Bonded:
		return 3
	}
	return 0
}

// emitEnv emits the staking-side facts (status, consensus power) that changed since last emitted.
func (w *world) emitEnv() {
	var items []string
	for i := range w.addr {
		if !w.live[i] {
			continue
		}
		v := w.val(i)
		st, pw := stCode(v.GetStatus()), v.GetConsensusPower(sdk.DefaultPowerReduction)
		if st == 3 {
			w.everBonded[i] = true
		}
		if st != w.emSt[i] || pw != w.emPow[i] {
			items = append(items, emit.Pair(emit.ZI(int64(i)), emit.ZI(int64(st)), emit.ZI(pw)))
			w.emSt[i], w.emPow[i] = st, pw
		}
	}
	if len(items) > 0 {
		w.terms = append(w.terms, "C12.OEnv "+emit.List(items))
	}
}

func relNs(t time.Time) int64 {
	if t.Before(baseTime) {
		return 0
	}
	return t.Sub(baseTime).Nanoseconds()
}

type jailRec struct {
	d  time.Duration
	at time.Time
}

// the fixed schedule of the property text (independent of the keeper's table)
var specTable = []time.Duration{time.Minute, 5 * time.Minute, 15 * time.Minute, time.Hour, 24 * time.Hour}

func specNext(d time.Duration) time.Duration {
	for _, s := range specTable {
		if d < s {
			return s
		}
	}
	return specTable[len(specTable)-1]
}

func specThreshold(d time.Duration) time.Duration {
	return max(30*time.Minute, d+d/20)
}

// noteValsetJailing is the direct oracle for the sentence schedule: called right after a successful
// jailing through valset.Jail (inactivity sweep or another module); the sentence is observed on the
// slashing signing info (jailed-until minus block time), the expectation comes from the harness's own
// record of the validator's previous valset jailing.
func (w *world) noteValsetJailing(i int, how string) {
	now := w.ctx.BlockTime()
	si, err := w.in.SlashingKeeper.GetValidatorSigningInfo(w.ctx, w.cons[i])
	if err != nil {
		w.violate("C12:sentence-schedule", fmt.Sprintf("validator %d jailed (%s) at height %d but has no slashing signing info: %v", i, how, w.ctx.BlockHeight(), err))
		return
	}
	got := si.JailedUntil.Sub(now)
	want := specTable[0]
	rec, has := w.jailRec[i]
	prev := "no previous valset jailing"
	if has {
		age := now.Sub(rec.at)
		thr := specThreshold(rec.d)
		if age < thr {
			want = specNext(rec.d)
			w.nEsc++
		} else {
			w.nReset++
		}
		prev = fmt.Sprintf("previous valset jailing %s earlier with sentence %s (reset threshold %s)", age, rec.d, thr)
	}
	if got != want {
		w.violate("C12:sentence-schedule", fmt.Sprintf(
			"validator %d (operator %s, consensus %s) jailed (%s) at height %d: jailed-until is block time + %s, the schedule gives %s; %s",
			i, hex.EncodeToString(w.addr[i]), hex.EncodeToString(w.cons[i]), how, w.ctx.BlockHeight(), got, want, prev))
	}
	w.jailRec[i] = jailRec{d: want, at: now}
}

// valsetJail: another module jails through valset.Jail
func (w *world) valsetJail(i int, how string) {
	// only for validators that have a slashing signing info (have been bonded), as in production
	if !(w.live[i] && w.everBonded[i]) {
		return
	}
	was := w.val(i).IsJailed()
	prot := w.protectedNow(i)
	err := w.k.Jail(w.ctx, w.addr[i], "verif: "+how)
	if err == nil {
		if prot {
			w.violate("C12:protected-jailed", fmt.Sprintf("valset.Jail (%s) jailed validator %d at height %d while it was the last active validator or held more than 25%% of the bonded unjailed power", how, i, w.ctx.BlockHeight()))
		}
		if was {
			w.violate("C12:jailed-twice", fmt.Sprintf("valset.Jail succeeded for validator %d which was already jailed", i))
		}
		w.noteValsetJailing(i, how)
	}
	w.terms = append(w.terms, fmt.Sprintf("C12.OJail %d %s", i, emit.Bool(err == nil)))
}

func (w *world) violate(id, what string) {
	w.viol = append(w.viol, id+"|"+what)
}

// protectedNow evaluates the network-protection rules of Jail on the real staking state.
func (w *world) protectedNow(i int) bool {
	total, count := int64(0), 0
	_ = w.in.StakingKeeper.IterateValidators(w.ctx, func(_ int64, v stakingtypes.ValidatorI) bool {
		if v.IsBonded() && !v.IsJailed() {
			total += v.GetConsensusPower(sdk.DefaultPowerReduction)
			count++
		}
		return false
	})
	cp := w.val(i).GetConsensusPower(sdk.DefaultPowerReduction)
	return count == 1 || 4*cp > total
}

func (w *world) apply(op Op) {
	h := w.ctx.BlockHeight()
	switch op.K {
	case "add":
		w.addVal(op.I)
	case "begin":
		if err := w.mod.BeginBlock(w.ctx); err != nil {
			w.t.Fatal(err)
		}
		w.terms = append(w.terms, "C12.OBegin")
	case "keepalive":
		_, err := w.msg.KeepAlive(w.ctx, &valsettypes.MsgKeepAlive{
			PigeonVersion: op.Ver,
			Metadata:      valsettypes.MsgMetadata{Creator: sdk.AccAddress(w.addr[op.I]).String()},
		})
		req, _ := w.k.PigeonRequirements(w.ctx)
		if err == nil {
			w.lastKA[op.I] = h
			if semver.Compare(op.Ver, req.MinVersion) < 0 {
				w.violate("C12:old-relayer-accepted", fmt.Sprintf("keep-alive with version %q accepted while minimum is %q", op.Ver, req.MinVersion))
			}
			if !w.live[op.I] {
				w.violate("C12:unknown-validator-keepalive", "keep-alive accepted for an address that is not a validator")
			}
		} else {
			w.nRefuse++
		}
		w.terms = append(w.terms, fmt.Sprintf("C12.OKeepAlive %d %d %s", op.I, rank(op.Ver), emit.Bool(err == nil)))
	case "setmin":
		before, _ := w.k.PigeonRequirements(w.ctx)
		err := w.k.SetPigeonRequirements(w.ctx, &valsettypes.PigeonRequirements{MinVersion: op.Ver})
		w.checkMin(before.MinVersion)
		w.terms = append(w.terms, fmt.Sprintf("C12.OSetMin %d %s", rank(op.Ver), emit.Bool(err == nil)))
	case "schedule":
		before, _ := w.k.PigeonRequirements(w.ctx)
		err := w.k.SetScheduledPigeonRequirements(w.ctx, &valsettypes.ScheduledPigeonRequirements{
			Requirements: &valsettypes.PigeonRequirements{MinVersion: op.Ver}, TargetBlockHeight: uint64(op.N),
		})
		w.checkMin(before.MinVersion)
		w.terms = append(w.terms, fmt.Sprintf("C12.OSchedule %d %d %s", rank(op.Ver), op.N, emit.Bool(err == nil)))
	case "unjail":
		if w.live[op.I] && w.val(op.I).IsJailed() {
			if err := w.in.StakingKeeper.Unjail(w.ctx, w.cons[op.I]); err != nil {
				w.t.Fatal(err)
			}
			w.unjailH[op.I] = h
			w.terms = append(w.terms, fmt.Sprintf("C12.OUnjail %d", op.I))
		}
	case "extjail":
		if w.live[op.I] && !w.val(op.I).IsJailed() {
			if err := w.in.StakingKeeper.Jail(w.ctx, w.cons[op.I]); err != nil {
				w.t.Fatal(err)
			}
			w.terms = append(w.terms, fmt.Sprintf("C12.OExtJail %d", op.I))
		}
	case "jail":
		// another module jailing through valset.Jail in a transaction (e.g. evm balance attestation)
		w.valsetJail(op.I, "other module, tx")
	case "delegate":
		if w.live[op.I] {
			_, err := w.stk.Delegate(w.ctx, &stakingtypes.MsgDelegate{
				DelegatorAddress: w.whale.String(), ValidatorAddress: w.addr[op.I].String(),
				Amount: sdk.NewInt64Coin(denom, op.N),
			})
			if err != nil {
				w.t.Fatalf("delegate: %v", err)
			}
			w.emitEnv() // consensus power changes at once (status only at the staking end-blocker)
		}
	case "end":
		w.endBlock(op)
	default:
		w.t.Fatalf("unknown op %q", op.K)
	}
}

func (w *world) checkMin(before string) {
	after, _ := w.k.PigeonRequirements(w.ctx)
	if semver.Compare(after.MinVersion, before) < 0 {
		w.violate("C12:min-version-decreased", fmt.Sprintf("minimum pigeon version went from %q to %q", before, after.MinVersion))
	}
	w.minVer = after.MinVersion
}

func (w *world) endBlock(op Op) {
	h := w.ctx.BlockHeight()
	// app order: staking end-blocker first, then valset
	if _, err := w.in.StakingKeeper.EndBlocker(w.ctx); err != nil {
		w.t.Fatal(err)
	}
	w.emitEnv()
	for _, i := range op.Pre {
		w.valsetJail(i, "other module, end-blocker before valset's")
	}
	n := len(w.addr)
	preJ := make([]bool, n)
	preSt := make([]int, n)
	prePow := make([]int64, n)
	runTotal, runCount := int64(0), 0 // bonded unjailed power / count while the sweep proceeds (accounting only)
	for i := 0; i < n; i++ {
		if w.live[i] {
			v := w.val(i)
			preJ[i], preSt[i], prePow[i] = v.IsJailed(), stCode(v.GetStatus()), v.GetConsensusPower(sdk.DefaultPowerReduction)
			if preSt[i] == 3 && !preJ[i] {
				runTotal += prePow[i]
				runCount++
			}
		}
	}
	sweptJ := make([]bool, n)
	beforeMin, _ := w.k.PigeonRequirements(w.ctx)
	if err := w.mod.EndBlock(w.ctx); err != nil {
		w.t.Fatalf("valset EndBlock: %v", err)
	}
	w.checkMin(beforeMin.MinVersion)
	check := h > 50 && h%10 == 0
	var obs []string
	for i := 0; i < n; i++ {
		if !w.live[i] {
			continue
		}
		v := w.val(i)
		j := v.IsJailed()
		g, gok := w.k.VerifC12GraceStart(w.ctx, w.addr[i])
		dur, _, _ := w.k.VerifC12JailRecord(w.ctx, sdk.ValAddress(w.cons[i]))
		until := int64(0)
		if si, err := w.in.SlashingKeeper.GetValidatorSigningInfo(w.ctx, w.cons[i]); err == nil {
			until = relNs(si.JailedUntil)
		}
		obs = append(obs, emit.Pair(emit.Bool(j), emit.Opt(emit.ZI(g), gok), emit.ZI(dur.Nanoseconds()), emit.ZI(until)))
		if gok && g == h {
			w.nGrace++
		}

		// ---- direct oracle on the real state ----
		// "unjailed since": first end-block the validator ENTERED unjailed (the grace snapshot is taken
		// before the sweep of the same end-block)
		if !preJ[i] && !w.prevUnj[i] {
			w.since[i] = h
		}
		la, hasKA := w.lastKA[i]
		expired := !hasKA || h >= la+2000
		newly := !preJ[i] && j // jailed by the valset end-block (only the inactivity sweep jails there)
		if newly {
			w.nJail++
			sweptJ[i] = true
			w.noteValsetJailing(i, "inactivity sweep")
			if uh, ok := w.unjailH[i]; ok && h-uh <= 30 {
				w.nSoonAfterUnjail++ // observation (d): no violation of C12 as stated
			}
			if !check {
				w.violate("C12:jailed-outside-check", fmt.Sprintf("validator %d jailed by the end-block of height %d, not a liveness-check height", i, h))
			}
			if !expired {
				w.violate("C12:alive-jailed", fmt.Sprintf("validator %d jailed for inactivity at height %d with a keep-alive accepted at %d (alive until %d)", i, h, la, la+2000))
			}
			if _, seen := w.since[i]; !seen {
				w.since[i] = h
			}
			if (w.h.Legacy == nil || w.legacyParsed) && h-w.since[i] <= 30 {
				w.violate("C12:grace-jailed", fmt.Sprintf("validator %d jailed for inactivity at height %d, unjailed only since %d", i, h, w.since[i]))
			}
		}
		if check && !preJ[i] && expired {
			w.stAtCheck[preSt[i]]++
		}
		if check && !preJ[i] && (preSt[i] == 2 || preSt[i] == 3) && expired && !j {
			s, ok := w.since[i]
			if ok && h-s > 30 {
				if w.protectedNow(i) {
					w.nProt++
				} else {
					w.violate("C12:inactive-not-jailed", fmt.Sprintf(
						"validator %d (%s, has 0x2c: %v) unjailed since height %d, no unexpired keep-alive, not protected, still unjailed after the liveness check at height %d (grace start stored: %d)",
						i, hex.EncodeToString(w.addr[i]), bytes.IndexByte(w.addr[i], 0x2c) >= 0, s, h, g))
				}
			}
		}
	}
	for i := 0; i < n; i++ {
		if w.live[i] {
			w.prevUnj[i] = !preJ[i]
		}
	}
	// "jailing it is forbidden by the network-protection rules": the sweep visits validators in staking's
	// iteration order (store key: length byte + operator address); with the jailings it made so far
	// accounted for, a validator it jails must not have been the last active one nor hold more than 25 %
	order := []int{}
	for i := 0; i < n; i++ {
		if sweptJ[i] {
			order = append(order, i)
		}
	}
	sort.Slice(order, func(a, b int) bool {
		ka := append([]byte{byte(len(w.addr[order[a]]))}, w.addr[order[a]]...)
		kb := append([]byte{byte(len(w.addr[order[b]]))}, w.addr[order[b]]...)
		return bytes.Compare(ka, kb) < 0
	})
	for _, i := range order {
		if runCount == 1 || 4*prePow[i] > runTotal {
			w.violate("C12:protected-jailed", fmt.Sprintf(
				"validator %d (power %d) jailed by the inactivity sweep at height %d while protected: %d active validator(s) with total power %d at its turn",
				i, prePow[i], h, runCount, runTotal))
		}
		if preSt[i] == 3 {
			runTotal -= prePow[i]
			runCount--
		}
	}
	// stored snapshot blob (new key) and presence of the legacy key
	blob, has := w.k.VerifC12SnapshotGet(w.ctx, v2Key)
	_, hasLegacy := w.k.VerifC12SnapshotGet(w.ctx, legacyKey)
	blobTerm := "None"
	if has {
		blobTerm = "(Some " + emit.Bytes(blob) + ")"
	}
	// observations / blob identical to the previous end-block's are sent as None (= "unchanged"); the
	// model side still compares them on every block
	obsTerm := "(Some " + emit.List(obs) + ")"
	if obsTerm == w.lastObs {
		obsTerm = "None"
	} else {
		w.lastObs = obsTerm
	}
	blobTerm = "(Some " + blobTerm + ")"
	if blobTerm == w.lastBlob {
		blobTerm = "None"
	} else {
		w.lastBlob = blobTerm
	}
	if len(op.Post) == 0 {
		w.terms = append(w.terms, fmt.Sprintf("C12.OEnd %d %d %s %d %s %s", op.N, op.Dt*1_000_000_000, obsTerm, rank(w.minVer), blobTerm, emit.Bool(hasLegacy)))
	} else {
		w.terms = append(w.terms, fmt.Sprintf("C12.OEnd 0 0 %s %d %s %s", obsTerm, rank(w.minVer), blobTerm, emit.Bool(hasLegacy)))
		for _, i := range op.Post {
			w.valsetJail(i, "other module, end-blocker after valset's")
		}
		w.terms = append(w.terms, fmt.Sprintf("C12.OTick %d %d", op.N, op.Dt*1_000_000_000))
	}
	w.setCtx(h+op.N, w.ctx.BlockTime().Add(time.Duration(op.Dt)*time.Second))
}

func runHistory(t *testing.T, h History) *world {
	w := newWorld(t, h)
	if h.Legacy != nil {
		b, err := hex.DecodeString(*h.Legacy)
		if err != nil {
			t.Fatal(err)
		}
		w.k.VerifC12SnapshotSet(w.ctx, legacyKey, b)
	}
	for i := 0; i < h.N0; i++ {
		w.addVal(i)
	}
	if h.Legacy != nil {
		// What the earlier binary wrote: 20-byte addresses joined by ','.  The oracle reads it by position
		// (21-byte stride), not by splitting: a member WITHOUT 0x2c counts as "unjailed for long" (no grace
		// period is due), everybody else is newly unjailed at the first end-block (theorem
		// legacy_block_only_grants: a member with 0x2c gets a spurious grace period once).
		b, _ := hex.DecodeString(*h.Legacy)
		if len(b) == 0 || len(b)%21 == 20 {
			w.legacyParsed = true
			for k := 0; k+20 <= len(b); k += 21 {
				if k > 0 && b[k-1] != ',' {
					w.legacyParsed = false
				}
			}
		}
		if w.legacyParsed {
			for k := 0; k+20 <= len(b); k += 21 {
				m := b[k : k+20]
				if bytes.IndexByte(m, 0x2c) >= 0 {
					continue
				}
				for i := 0; i < h.N0; i++ {
					if bytes.Equal(m, w.addr[i]) {
						w.prevUnj[i] = true
						w.since[i] = -1 << 40
					}
				}
			}
		}
	}
	for _, op := range h.Ops {
		w.apply(op)
	}
	return w
}

// ---- generator ----

func genAddr(r *rand.Rand, comma bool) []byte {
	b := make([]byte, 20)
	r.Read(b)
	for i := range b {
		if b[i] == 0x2c {
			b[i] = 0x2d
		}
	}
	if comma {
		switch r.Intn(4) {
		case 0:
			b[0] = 0x2c
		case 1:
			b[19] = 0x2c
		default:
			for k := 1 + r.Intn(2); k > 0; k-- {
				b[r.Intn(20)] = 0x2c
			}
		}
	}
	return b
}

func genHistory(r *rand.Rand, search bool) History {
	var h History
	n := 2 + r.Intn(6)
	extra := r.Intn(3)
	commaMode := r.Intn(2) == 0
	for i := 0; i < n+extra+1; i++ { // last table entry is never created (unknown validator)
		h.Addrs = append(h.Addrs, hex.EncodeToString(genAddr(r, commaMode && r.Intn(10) < 6)))
		var tok int64
		switch r.Intn(6) {
		case 0:
			tok = 1_000_000
		case 1:
			tok = int64(1+r.Intn(5))*1_000_000 + int64(r.Intn(1_000_000))
		case 2:
			tok = int64(1 + r.Intn(999_999)) // power 0: never bonds
		default:
			tok = int64(1+r.Intn(4)) * 1_000_000
		}
		h.Tokens = append(h.Tokens, tok)
	}
	h.N0 = n
	if r.Intn(2) == 0 && n >= 3 {
		h.MaxVal = uint32(2 + r.Intn(n-1)) // some validators are displaced: unbonding / unbonded while unjailed
	}
	h0s := []int64{1, 2, 38, 45, 49, 50, 51, 60, 99, 1000, 5000}
	h.H0 = h0s[r.Intn(len(h0s))]
	if r.Intn(10) < 3 {
		// blob left behind by the previous binary: raw addresses joined by ','
		var parts [][]byte
		for i := 0; i < n; i++ {
			if r.Intn(4) > 0 {
				b, _ := hex.DecodeString(h.Addrs[i])
				parts = append(parts, b)
			}
		}
		s := hex.EncodeToString(bytes.Join(parts, []byte(",")))
		h.Legacy = &s
	}
	blocks := 45 + r.Intn(50)
	if search {
		blocks += 40
	}
	created := n
	pick := func() int { return r.Intn(created) }
	ver := func() string {
		if r.Intn(3) == 0 {
			return versions[r.Intn(len(versions))]
		}
		return []string{"v1.11.3", "v1.12.0", "v2.0.0", "v1.11.4"}[r.Intn(4)]
	}
	height := h.H0
	var kaHeights []int64
	// some validators are diligent (keep sending), the others silent
	diligent := map[int]bool{}
	for i := 0; i < n+extra; i++ {
		if r.Intn(3) == 0 {
			diligent[i] = true
		}
	}
	for b := 0; b < blocks; b++ {
		h.Ops = append(h.Ops, Op{K: "begin"})
		for k := r.Intn(3); k > 0; k-- {
			switch x := r.Intn(100); {
			case x < 30:
				i := pick()
				if r.Intn(12) == 0 {
					i = len(h.Addrs) - 1 // unknown validator
				}
				h.Ops = append(h.Ops, Op{K: "keepalive", I: i, Ver: ver()})
			case x < 45:
				h.Ops = append(h.Ops, Op{K: "unjail", I: pick()})
			case x < 52:
				h.Ops = append(h.Ops, Op{K: "extjail", I: pick()})
			case x < 62:
				h.Ops = append(h.Ops, Op{K: "jail", I: pick()})
			case x < 72:
				h.Ops = append(h.Ops, Op{K: "delegate", I: pick(), N: int64(1+r.Intn(6)) * 500_000})
			case x < 80:
				h.Ops = append(h.Ops, Op{K: "setmin", Ver: ver()})
			case x < 86:
				h.Ops = append(h.Ops, Op{K: "schedule", Ver: ver(), N: height + int64(r.Intn(6)) - 1})
			case x < 92:
				if created < n+extra {
					h.Ops = append(h.Ops, Op{K: "add", I: created})
					created++
				}
			default:
				for i := range diligent {
					if i < created {
						h.Ops = append(h.Ops, Op{K: "keepalive", I: i, Ver: "v2.0.0"})
					}
				}
			}
		}
		// remember the heights of keep-alives sent in this block (TTL boundary targeting)
		for k := len(h.Ops) - 1; k >= 0 && h.Ops[k].K != "begin"; k-- {
			if h.Ops[k].K == "keepalive" {
				kaHeights = append(kaHeights, height)
				break
			}
		}
		dh := int64(1)
		switch x := r.Intn(100); {
		case x < 6:
			dh = []int64{2, 7, 9, 10, 11, 29, 30, 31, 32}[r.Intn(9)]
		case x < 9:
			dh = []int64{1989, 1990, 1999, 2000, 2001}[r.Intn(5)]
		case x < 14 && len(kaHeights) > 0:
			// land exactly on (or next to) the expiry height of an earlier keep-alive
			t := kaHeights[r.Intn(len(kaHeights))] + 2000 + int64(r.Intn(3)) - 1
			if t > height {
				dh = t - height
			}
		case x < 20:
			// land on the next liveness-check height
			if d := 10 - height%10; d > 0 {
				dh = d
			}
		}
		dt := int64(2)
		switch x := r.Intn(100); {
		case x < 10:
			dt = []int64{59, 60, 61, 299, 300, 301, 900, 1799, 1800, 1801, 3600, 3780, 3781, 86400, 90720, 90721, 200000}[r.Intn(17)]
		case x < 20:
			dt = int64(1 + r.Intn(40))
		}
		e := Op{K: "end", N: dh, Dt: dt}
		// valset.Jail from the end-blocker of a module that runs before (consensus) / after (paloma) valset's
		switch x := r.Intn(100); {
		case x < 6:
			e.Pre = []int{pick()}
		case x < 12:
			e.Post = []int{pick()}
		}
		h.Ops = append(h.Ops, e)
		height += dh
	}
	return h
}

// genLadder: the sentence ladder.  Five to seven equal validators (20 % or less each), one of them
// silent; it is jailed by the sweep at height 60, then again and again — by the sweep after a fresh grace
// period, or through valset.Jail by another module (transaction, end-blocker before / after valset's) —
// with the time since the previous jailing aimed at the reset threshold of the expected sentence
// (max(30 min, d + d/20)) minus / plus one second, exactly on it, or anywhere.
func genLadder(r *rand.Rand) History {
	var h History
	n := 5 + r.Intn(3)
	comma := r.Intn(2) == 0
	for i := 0; i < n+1; i++ {
		h.Addrs = append(h.Addrs, hex.EncodeToString(genAddr(r, comma && r.Intn(2) == 0)))
		h.Tokens = append(h.Tokens, 2_000_000)
	}
	h.N0, h.H0 = n, 1
	victim := r.Intn(n)
	height := int64(1)
	begin := func() { h.Ops = append(h.Ops, Op{K: "begin"}) }
	end := func(N, dt int64, pre, post []int) {
		h.Ops = append(h.Ops, Op{K: "end", N: N, Dt: dt, Pre: pre, Post: post})
		height += N
	}
	begin()
	for i := 0; i < n; i++ {
		if i != victim {
			h.Ops = append(h.Ops, Op{K: "keepalive", I: i, Ver: "v2.0.0"})
		}
	}
	end(1, 2, nil, nil)
	for height <= 60 { // the end-block of height 60 jails the silent validator: first sentence
		begin()
		end(1, 2, nil, nil)
	}
	d := specTable[0]
	for k := 3 + r.Intn(5); k > 0; k-- {
		thr := int64(specThreshold(d) / time.Second)
		var target int64 // seconds between the previous jailing and the next one
		switch x := r.Intn(10); {
		case x < 3:
			target = thr - 1
		case x < 5:
			target = thr
		case x < 6:
			target = thr + 1
		case x < 8:
			target = 40 + r.Int63n(thr-40)
		default:
			target = thr + r.Int63n(thr)
		}
		// this is the block right after the jailing, 2 s later
		begin()
		h.Ops = append(h.Ops, Op{K: "unjail", I: victim})
		switch r.Intn(4) {
		case 0: // by the sweep, at the first check height after the new grace period
			hc := ((height + 31 + 9) / 10) * 10
			end(hc-height, target-2, nil, nil)
			begin()
			end(1, 2, nil, nil)
		case 1:
			end(1, target-2, nil, nil)
			begin()
			h.Ops = append(h.Ops, Op{K: "jail", I: victim})
			end(1, 2, nil, nil)
		case 2:
			end(1, target-2, nil, nil)
			begin()
			end(1, 2, []int{victim}, nil)
		default:
			end(1, target-2, nil, nil)
			begin()
			end(1, 2, nil, []int{victim})
		}
		if target < thr {
			d = specNext(d)
		} else {
			d = specTable[0]
		}
	}
	begin()
	end(1, 2, nil, nil)
	return h
}

func caseTerm(h History, w *world) string {
	var addrs []string
	for _, a := range h.Addrs {
		b, _ := hex.DecodeString(a)
		addrs = append(addrs, emit.Bytes(b))
	}
	legacy := "None"
	if h.Legacy != nil {
		b, _ := hex.DecodeString(*h.Legacy)
		legacy = "(Some " + emit.Bytes(b) + ")"
	}
	return fmt.Sprintf("C12.CHist %s %s %d %d [\n    %s]", emit.List(addrs), legacy, h.H0, rank("v1.11.3"), strings.Join(w.terms, ";\n    "))
}

func checkSemverPool(run *emit.Run) {
	for _, a := range versions {
		for _, b := range versions {
			if semver.Compare(a, b) != -semver.Compare(b, a) {
				run.Violate("C12:semver-not-antisymmetric", a+" vs "+b, nil)
			}
			for _, c := range versions {
				if semver.Compare(a, b) <= 0 && semver.Compare(b, c) <= 0 && semver.Compare(a, c) > 0 {
					run.Violate("C12:semver-not-transitive", a+" "+b+" "+c, nil)
				}
			}
		}
	}
}

// primitive cases for the codec and the sentence schedule
func primitives(run *emit.Run) {
	tab := valsetkeeper.VerifC12JailSentences()
	var ds []time.Duration
	ds = append(ds, 0, 1, -1)
	for _, s := range tab {
		ds = append(ds, s-1, s, s+1, s+s/20, s+s/20-1)
	}
	for i := 0; i < 40; i++ {
		ds = append(ds, time.Duration(run.Rng.Int63n(int64(48*time.Hour))))
	}
	for _, d := range ds {
		run.Case(fmt.Sprintf("C12.CSentence %s %s %s", emit.ZI(d.Nanoseconds()),
			emit.ZI(valsetkeeper.VerifC12DeriveJailSentence(d).Nanoseconds()),
			emit.ZI(valsetkeeper.VerifC12JailSentenceResetThreshold(d).Nanoseconds())), true, nil)
		run.Count("kind", "sentence")
	}
	var tz []string
	for _, s := range tab {
		tz = append(tz, emit.ZI(s.Nanoseconds()))
	}
	run.Case("C12.CTable "+emit.List(tz), true, nil)
}

func TestCorr(t *testing.T) {
	run := emit.Start("C12", 60)
	run.Rule("each case is one history on the real valset+staking+slashing keepers: 2-7 validators with random 20-byte addresses (half of the histories force 0x2c into addresses), 45-95 blocks with keep-alives (all version classes, unknown validators), external jail/unjail, valset.Jail from another module, delegations, pigeon-requirement changes (immediate and scheduled), late validator creation, height jumps over 10/30/2000 boundaries, time jumps over the sentence table, optionally a comma-joined legacy blob seeded; after every end-block the jailed flag, grace start, jail-record duration and jailed-until of every validator, the minimum version and the stored snapshot blob are compared with the model; non-trivial = at least one inactivity jailing and one refused operation or grace grant")
	search := os.Getenv("VERIF_SEARCH") == "1"
	checkSemverPool(run)
	primitives(run)

	var hs []History
	// corpus first
	files, _ := filepath.Glob("../corpus/C12/*.json")
	sort.Strings(files)
	for _, f := range files {
		bz, err := os.ReadFile(f)
		if err != nil {
			t.Fatal(err)
		}
		var h History
		if err := json.Unmarshal(bz, &h); err != nil {
			t.Fatalf("%s: %v", f, err)
		}
		hs = append(hs, h)
		run.Count("kind", "corpus")
	}
	if rp := os.Getenv("VERIF_REPLAY"); rp != "" {
		bz, err := os.ReadFile(rp)
		if err != nil {
			t.Fatal(err)
		}
		var h History
		if err := json.Unmarshal(bz, &h); err != nil {
			t.Fatal(err)
		}
		hs = []History{h}
	} else {
		for i := 0; i < run.N; i++ {
			hs = append(hs, genHistory(run.Rng, search))
		}
		for i := 0; i < (run.N+4)/5; i++ {
			hs = append(hs, genLadder(run.Rng))
		}
	}
	for hi, h := range hs {
		w := runHistory(t, h)
		if hi < len(files) && os.Getenv("VERIF_REPLAY") == "" {
			// observation (d) (design/C12.md): the witnesses of theorem grace_after_every_unjailing_refuted on the real keeper
			switch filepath.Base(files[hi]) {
			case "d_unjail_right_after_sweep.json":
				g, _ := w.k.VerifC12GraceStart(w.ctx, w.addr[0])
				run.Count("observation_d_sweep_witness_reproduced_on_real_keeper", fmt.Sprint(w.nJail == 2 && w.nSoonAfterUnjail == 1 && g == 1))
			case "d_jailed_by_later_end_blocker.json":
				g, _ := w.k.VerifC12GraceStart(w.ctx, w.addr[0])
				run.Count("observation_d_later_end_blocker_witness_no_new_grace_on_real_keeper", fmt.Sprint(g == 1 && !w.val(0).IsJailed()))
			}
		}
		for _, v := range w.viol {
			p := strings.SplitN(v, "|", 2)
			run.Violate(p[0], p[1], h)
		}
		nontrivial := w.nJail > 0 && (w.nRefuse > 0 || w.nGrace > 0)
		run.Case(caseTerm(h, w), nontrivial, map[string]any{"validators": h.N0, "blocks": len(h.Ops), "h0": h.H0, "inactivity_jailings": w.nJail})
		run.Count("kind", "history")
		run.Count("inactivity_jailings", fmt.Sprint(min(w.nJail, 5)))
		run.Count("protected_skips", fmt.Sprint(min(w.nProt, 3)))
		run.Count("legacy_seed", fmt.Sprint(h.Legacy != nil))
		run.Count("sentences_escalated", fmt.Sprint(min(w.nEsc, 5)))
		run.Count("sentences_reset", fmt.Sprint(min(w.nReset, 5)))
		run.Count("sweep_jailed_within_30_blocks_of_unjail_event", fmt.Sprint(min(w.nSoonAfterUnjail, 3)))
		for st, c := range w.stAtCheck {
			for ; c > 0; c-- {
				run.Count("silent_unjailed_at_check_by_status", []string{"?", "unbonded", "unbonding", "bonded"}[st])
			}
		}
		hasComma := false
		for _, a := range h.Addrs {
			if strings.Contains(a, "2c") {
				b, _ := hex.DecodeString(a)
				if bytes.IndexByte(b, 0x2c) >= 0 {
					hasComma = true
				}
			}
		}
		run.Count("address_with_0x2c", fmt.Sprint(hasComma))
		for _, op := range h.Ops {
			run.Count("op", op.K)
		}
	}
	if err := run.Finish("Valset.KeepAlive Corr.C12", "C12.case", "C12.check"); err != nil {
		t.Fatal(err)
	}
}
