package c06

// Part B: skyway batch confirmations.  keeper.SetupFiveValChain: real skyway / evm / valset / staking /
// bank keepers, the real msg server, validators registered with keeper.EthPrivKeys (real secp256k1).

import (
	"crypto/ecdsa"
	"encoding/hex"
	"fmt"
	"math/big"
	"sort"
	"strings"
	"testing"
	"time"

	"cosmossdk.io/log"
	sdkmath "cosmossdk.io/math"
	"github.com/cosmos/cosmos-sdk/crypto/keys/ed25519"
	"github.com/cosmos/cosmos-sdk/crypto/keys/secp256k1"
	sdk "github.com/cosmos/cosmos-sdk/types"
	authtypes "github.com/cosmos/cosmos-sdk/x/auth/types"
	stakingkeeper "github.com/cosmos/cosmos-sdk/x/staking/keeper"
	stakingtypes "github.com/cosmos/cosmos-sdk/x/staking/types"
	"github.com/ethereum/go-ethereum/common"
	"github.com/ethereum/go-ethereum/crypto"
	"github.com/palomachain/paloma/v2/util/libcons"
	"github.com/palomachain/paloma/v2/verifharness/emit"
	skyway "github.com/palomachain/paloma/v2/x/skyway"
	"github.com/palomachain/paloma/v2/x/skyway/keeper"
	"github.com/palomachain/paloma/v2/x/skyway/types"
	evmtypes "github.com/palomachain/paloma/v2/x/evm/types"
	treasurytypes "github.com/palomachain/paloma/v2/x/treasury/types"
	valsettypes "github.com/palomachain/paloma/v2/x/valset/types"
)

const (
	chainName = "test-chain"
	erc20     = "0x0bc529c00C6401aEF6D220BE8C6Ea1667F6Ad93e"
	denom     = "ugrain"
)

type bversion struct {
	cp  []byte
	coq string // "contract body nonce timeout relayer est"
}

type bhist struct {
	t       *testing.T
	run     *emit.Run
	in      keeper.TestInput
	ctx     sdk.Context
	ms      types.MsgServer
	token   *types.EthAddress
	send    sdk.AccAddress
	keys    []*ecdsa.PrivateKey
	addrIDs map[string]int64 // lower-case hex of the 20-byte address -> model id
	strIDs  map[string]int64 // address string exactly as written at registration -> model id (collision check)
	keyIDs  map[string]int64 // registered Pubkey blob -> model id (only the collision check looks at it)
	relIDs  map[string]int64
	bodyIDs map[string]int64
	tid     string
	nonces  []uint64
	vers    map[uint64][]bversion
	accs    []sdk.AccAddress  // orchestrator (= validator operator) accounts, model id = index
	vals    []sdk.ValAddress
	orchIdx map[string]int64
	regAddr []string          // lower-case hex address registered now
	prevAddr map[int]string   // validator -> the address it released with its last re-registration (no snapshot was built since)
	stranger sdk.AccAddress   // an account that is no validator (model id strangerID, never given a status)
	scID     uint64           // id of the chain's active compass contract
	c2       *chain2          // a second EVM chain with a bridged token of its own (two-chain histories only)
	on2      map[uint64]bool  // batch nonce -> the batch is on the second chain
	dead     bool             // the history ended (a redeploy left open batches behind: known finding on trees without the fix)
	regAt   map[string]string // "<nonce>/<val>" -> address registered when the confirmation was accepted
	steps   []string
	replay  []map[string]any
	okOps   int
	rejOps  int
	viol    bool
}

// chain2: the second chain of a two-chain history.  Its token contract address sorts ABOVE the first chain's, so the batch
// store (iterated in reverse key order: token contract descending) lists its batches first.
type chain2 struct {
	name  string
	token *types.EthAddress
	denom string
	tid   string
	scID  uint64
	reg   []string // lower-case hex address each validator has registered for it now ("" = none)
}

const (
	chain2Name  = "chain-two"
	chain2Token = "0xFf00000000000000000000000000000000000a02"
	chain2Denom = "utokb"
)

func (h *bhist) is2(n uint64) bool { return h.c2 != nil && h.on2[n] }
func (h *bhist) cidOf(n uint64) int64 {
	if h.is2(n) {
		return 2
	}
	return 1
}
func (h *bhist) tokenOf(n uint64) *types.EthAddress {
	if h.is2(n) {
		return h.c2.token
	}
	return h.token
}
func (h *bhist) tidOf(n uint64) string {
	if h.is2(n) {
		return h.c2.tid
	}
	return h.tid
}
func (h *bhist) nameOf(n uint64) string {
	if h.is2(n) {
		return h.c2.name
	}
	return chainName
}

// regOf: the address validator v has registered now for the chain of batch n.
func (h *bhist) regOf(v int, n uint64) string {
	if h.is2(n) {
		return h.c2.reg[v]
	}
	return h.regAddr[v]
}

// addSecondChain: chain-two with its own bridged token (contract address above the first chain's), every validator
// registered on both chains with the same eth key, relayer fees for both, an active compass, a fresh snapshot.
func (h *bhist) addSecondChain() {
	t, in := h.t, h.in
	must := func(err error) {
		if err != nil {
			t.Fatal(err)
		}
	}
	must(in.EvmKeeper.AddSupportForNewChain(h.ctx, chain2Name, 2, 123, "0x1234", big.NewInt(55)))
	tok, err := types.NewEthAddress(chain2Token)
	must(err)
	h.c2 = &chain2{name: chain2Name, token: tok, denom: chain2Denom, tid: "compass-1-" + chain2Name, scID: 1}
	h.on2 = map[uint64]bool{}
	for v := range h.vals {
		infos, err := in.ValsetKeeper.GetValidatorChainInfos(h.ctx, h.vals[v])
		must(err)
		if len(infos) != 1 {
			t.Fatalf("validator %d: %d accounts", v, len(infos))
		}
		two := &valsettypes.ExternalChainInfo{ChainType: "evm", ChainReferenceID: chain2Name, Address: infos[0].Address, Pubkey: infos[0].Pubkey}
		must(in.ValsetKeeper.AddExternalChainInfo(h.ctx, h.vals[v], []*valsettypes.ExternalChainInfo{infos[0], two}))
		must(in.TreasuryKeeper.SetRelayerFee(h.ctx, h.vals[v], &treasurytypes.RelayerFeeSetting{ValAddress: h.vals[v].String(), Fees: []treasurytypes.RelayerFeeSetting_FeeSetting{
			{Multiplicator: sdkmath.LegacyMustNewDecFromStr("1.10"), ChainReferenceId: chainName}, {Multiplicator: sdkmath.LegacyMustNewDecFromStr("1.10"), ChainReferenceId: chain2Name}}}))
		a := common.HexToAddress(infos[0].Address)
		h.c2.reg = append(h.c2.reg, lower(a))
		row := func(c int64, x *valsettypes.ExternalChainInfo) string {
			return emit.Pair(emit.ZI(c), emit.ZI(idOf(h.strIDs, x.Address)), emit.ZI(idOf(h.keyIDs, hex.EncodeToString(x.Pubkey))), emit.ZI(idOf(h.addrIDs, lower(a))))
		}
		h.steps = append(h.steps, fmt.Sprintf("C06.BStep (C06.BReg %d %s) 0 [] []", v, emit.List([]string{row(1, infos[0]), row(2, two)})))
	}
	must(in.EvmKeeper.ActivateChainReferenceID(h.ctx, chain2Name, &evmtypes.SmartContract{Id: 1}, "0x6B3E98aA540B2C3545E1DbA2D5e8B3e3e8bD3c7e", []byte(h.c2.tid)))
	h.ctx = h.ctx.WithBlockHeight(h.ctx.BlockHeight() + 1)
	h.in.Context = h.ctx
	_, err = in.ValsetKeeper.TriggerSnapshotBuild(h.ctx)
	must(err)
	in.MetrixKeeper.UpdateUptime(h.ctx)
	must(keeper.NewSkywayProposalHandler(in.SkywayKeeper)(h.ctx, &types.SetERC20ToDenomProposal{Title: "t", Description: "d", ChainReferenceId: chain2Name, Erc20: chain2Token, Denom: chain2Denom}))
	coins := sdk.NewCoins(sdk.NewCoin(chain2Denom, sdkmath.NewInt(1_000_000_000)))
	must(in.BankKeeper.MintCoins(h.ctx, types.ModuleName, coins))
	must(in.BankKeeper.SendCoinsFromModuleToAccount(h.ctx, types.ModuleName, h.send, coins))
	h.replay = append(h.replay, map[string]any{"op": "setup: second chain " + chain2Name + " with token " + chain2Token + " (sorts above the first chain's token), validators registered on both chains, snapshot rebuilt"})
}

func lower(a common.Address) string { return strings.ToLower(a.Hex()) }

func spellingClass(written string, a common.Address) string {
	switch {
	case written == a.Hex():
		return "checksummed-0x"
	case !strings.HasPrefix(written, "0x") && !strings.HasPrefix(written, "0X"):
		return "no-prefix"
	case strings.HasPrefix(written, "0X"):
		return "0X-prefix"
	case written[2:] == strings.ToLower(written[2:]):
		return "lower"
	case written[2:] == strings.ToUpper(written[2:]):
		return "upper"
	}
	return "mixed"
}

func (h *bhist) keyAddr(i int) common.Address { return crypto.PubkeyToAddress(h.keys[i].PublicKey) }

const strangerID = 900

func newBHist(t *testing.T, run *emit.Run) *bhist { return newBHistN(t, run, 0) }

// newBHistN: keeper.SetupFiveValChain plus [extra] more bonded validators, each with its own registered eth key.
func newBHistN(t *testing.T, run *emit.Run, extra int) *bhist {
	in, c := keeper.SetupFiveValChain(t)
	ctx := sdk.UnwrapSDKContext(c).WithLogger(log.NewNopLogger())
	in.Context = ctx
	h := &bhist{t: t, run: run, in: in, ctx: ctx, ms: keeper.NewMsgServerImpl(in.SkywayKeeper), addrIDs: map[string]int64{}, strIDs: map[string]int64{}, keyIDs: map[string]int64{},
		relIDs: map[string]int64{}, bodyIDs: map[string]int64{}, vers: map[uint64][]bversion{}, regAt: map[string]string{}, orchIdx: map[string]int64{}}
	for i := 0; i < 5; i++ {
		h.accs = append(h.accs, keeper.AccAddrs[i])
		h.vals = append(h.vals, keeper.ValAddrs[i])
		h.orchIdx[keeper.AccAddrs[i].String()] = int64(i)
		h.regAddr = append(h.regAddr, "")
	}
	h.stranger = sdk.AccAddress(append([]byte("c06-no-validator-acc"), 0, 0)[:20])
	tok, err := types.NewEthAddress(erc20)
	if err != nil {
		t.Fatal(err)
	}
	h.token = tok
	h.keys = append(h.keys, keeper.EthPrivKeys[:5]...)
	for i := 0; i < 4; i++ {
		b := make([]byte, 32)
		run.Rng.Read(b)
		b[0] |= 1
		k, err := crypto.ToECDSA(b)
		if err != nil {
			t.Fatal(err)
		}
		h.keys = append(h.keys, k)
	}
	h.send = sdk.AccAddress(append([]byte("c06-unrelated-acct"), 0, 0)[:20])
	coins := sdk.NewCoins(sdk.NewCoin(denom, sdkmath.NewInt(1_000_000_000)))
	if err := in.BankKeeper.MintCoins(ctx, types.ModuleName, coins); err != nil {
		t.Fatal(err)
	}
	in.AccountKeeper.SetAccount(ctx, in.AccountKeeper.NewAccountWithAddress(ctx, h.send))
	if err := in.BankKeeper.SendCoinsFromModuleToAccount(ctx, types.ModuleName, h.send, coins); err != nil {
		t.Fatal(err)
	}
	ci, err := in.EvmKeeper.GetChainInfo(ctx, chainName)
	if err != nil {
		t.Fatal(err)
	}
	h.tid = string(ci.SmartContractUniqueID)
	h.scID = ci.ActiveSmartContractID
	// what SetupFiveValChain registered, as the first model steps
	for v := 0; v < 5; v++ {
		infos, err := in.ValsetKeeper.GetValidatorChainInfos(ctx, keeper.ValAddrs[v])
		if err != nil {
			t.Fatal(err)
		}
		var coq []string
		for _, x := range infos {
			a := common.HexToAddress(x.Address)
			coq = append(coq, emit.Pair("1", emit.ZI(idOf(h.strIDs, x.Address)), emit.ZI(idOf(h.keyIDs, hex.EncodeToString(x.Pubkey))), emit.ZI(idOf(h.addrIDs, lower(a)))))
			h.regAddr[v] = lower(a)
		}
		h.steps = append(h.steps, fmt.Sprintf("C06.BStep (C06.BStat %d %d) 0 [] []", v, h.statusCode(v)))
		h.steps = append(h.steps, fmt.Sprintf("C06.BStep (C06.BReg %d %s) 0 [] []", v, emit.List(coq)))
	}
	h.replay = append(h.replay, map[string]any{"op": "setup: keeper.SetupFiveValChain, validator i registered with EthPrivKeys[i]"})
	if extra > 0 {
		h.addValidators(extra)
	}
	return h
}

// statusCode: the staking status of validator v as the staking keeper has it now (model codes, Skyway/Confirms.v).
func (h *bhist) statusCode(v int) int64 {
	val, err := h.in.StakingKeeper.GetValidator(h.ctx, h.vals[v])
	if err != nil {
		return 0
	}
	switch val.Status {
	case stakingtypes.Unbonded:
		return 1
	case stakingtypes.Unbonding:
		return 2
	case stakingtypes.Bonded:
		return 3
	}
	return 0
}

// addValidators: [extra] more validators through the staking msg server (as keeper.SetupTestChain does, which stops at a
// hundred bonded validators), MaxValidators raised so that all are bonded; each registers an eth key of its own.
func (h *bhist) addValidators(extra int) {
	t, in, r := h.t, h.in, h.run.Rng
	params, err := in.StakingKeeper.GetParams(h.ctx)
	if err != nil {
		t.Fatal(err)
	}
	params.MaxValidators = uint32(5 + extra + 8)
	if err := in.StakingKeeper.SetParams(h.ctx, params); err != nil {
		t.Fatal(err)
	}
	srv := stakingkeeper.NewMsgServerImpl(&in.StakingKeeper)
	first := len(h.accs)
	for i := 0; i < extra; i++ {
		seed := make([]byte, 32)
		r.Read(seed)
		cons := ed25519.GenPrivKeyFromSecret(seed)
		vk := secp256k1.GenPrivKeyFromSecret(seed)
		valAddr := sdk.ValAddress(vk.PubKey().Address())
		acc := sdk.AccAddress(valAddr)
		account := in.AccountKeeper.NewAccount(h.ctx, authtypes.NewBaseAccount(acc, vk.PubKey(), uint64(100+i), 0))
		coins := sdk.NewCoins(sdk.NewCoin(keeper.TestingStakeParams.BondDenom, keeper.StakingAmount))
		if err := in.BankKeeper.MintCoins(h.ctx, types.ModuleName, coins); err != nil {
			t.Fatal(err)
		}
		if err := in.BankKeeper.SendCoinsFromModuleToAccount(h.ctx, types.ModuleName, acc, coins); err != nil {
			t.Fatal(err)
		}
		in.AccountKeeper.SetAccount(h.ctx, account)
		if _, err := srv.CreateValidator(h.ctx, keeper.NewTestMsgCreateValidator(valAddr, cons.PubKey(), keeper.StakingAmount)); err != nil {
			t.Fatalf("CreateValidator: %v", err)
		}
		b := make([]byte, 32)
		r.Read(b)
		b[0] |= 1
		k, err := crypto.ToECDSA(b)
		if err != nil {
			t.Fatal(err)
		}
		h.keys = append(h.keys, k)
		h.accs = append(h.accs, acc)
		h.vals = append(h.vals, valAddr)
		h.orchIdx[acc.String()] = int64(len(h.accs) - 1)
		h.regAddr = append(h.regAddr, "")
	}
	if _, err := in.StakingKeeper.EndBlocker(h.ctx); err != nil {
		t.Fatal(err)
	}
	for v := first; v < len(h.accs); v++ {
		a := h.keyAddr(len(h.keys) - len(h.accs) + v)
		written := spell(r, a)
		if err := in.ValsetKeeper.AddExternalChainInfo(h.ctx, h.vals[v], []*valsettypes.ExternalChainInfo{
			{ChainType: "evm", ChainReferenceID: chainName, Address: written, Pubkey: a.Bytes()}}); err != nil {
			t.Fatalf("AddExternalChainInfo: %v", err)
		}
		h.regAddr[v] = lower(a)
		st := h.statusCode(v)
		if st != 3 {
			t.Fatalf("validator %d is not bonded after the staking end blocker (status %d)", v, st)
		}
		h.steps = append(h.steps, fmt.Sprintf("C06.BStep (C06.BStat %d %d) 0 [] []", v, st))
		h.steps = append(h.steps, fmt.Sprintf("C06.BStep (C06.BReg %d [(1, %d, %d, %d)]) 0 [] []", v, idOf(h.strIDs, written), idOf(h.keyIDs, hex.EncodeToString(a.Bytes())), idOf(h.addrIDs, lower(a))))
	}
	h.replay = append(h.replay, map[string]any{"op": fmt.Sprintf("setup: %d more validators created through the staking msg server (MaxValidators %d), all bonded, validator v registered with its own eth key", extra, params.MaxValidators)})
}

func (h *bhist) stored(nonce uint64) *types.InternalOutgoingTxBatch {
	b, err := h.in.SkywayKeeper.GetOutgoingTXBatch(h.ctx, *h.tokenOf(nonce), nonce)
	if err != nil {
		h.t.Fatal(err)
	}
	return b
}

func bodyOf(b *types.InternalOutgoingTxBatch, tid string) string {
	s := "tid=" + tid
	for _, tx := range b.Transactions {
		s += fmt.Sprintf("|%s:%s", lower(tx.DestAddress.GetAddress()), tx.Erc20Token.Amount.String())
	}
	return s
}

func (h *bhist) versionOf(b *types.InternalOutgoingTxBatch) bversion {
	cp, err := b.GetCheckpoint(h.tidOf(b.BatchNonce))
	if err != nil {
		h.t.Fatal(err)
	}
	return bversion{cp: cp, coq: fmt.Sprintf("%d %d %d %d %d %s", h.cidOf(b.BatchNonce), idOf(h.bodyIDs, bodyOf(b, h.tidOf(b.BatchNonce))), b.BatchNonce, b.BatchTimeout,
		idOf(h.relIDs, lower(b.AssigneeRemoteAddress)), emit.ZU(b.GasEstimate))}
}

func (h *bhist) noteVersions() {
	for _, n := range h.nonces {
		if b := h.stored(n); b != nil {
			v := h.versionOf(b)
			vs := h.vers[n]
			if len(vs) == 0 || vs[len(vs)-1].coq != v.coq {
				h.vers[n] = append(vs, v)
			}
		}
	}
}

func (h *bhist) valOfOrch(o string) int64 {
	if i, ok := h.orchIdx[o]; ok {
		return i
	}
	if o == h.stranger.String() {
		return strangerID
	}
	return 99
}

func (h *bhist) violate(id, what string) {
	if h.viol {
		return
	}
	h.viol = true
	if !violationBudget(h.run, id) {
		return
	}
	h.run.Violate(id, what, map[string]any{"part": "batch", "history": h.replay})
}

// observe: projection for the model + the direct oracle on the real store.
func (h *bhist) observe(after string) (string, string) {
	var bs, cs []string
	live := map[uint64]*types.InternalOutgoingTxBatch{}
	ns := append([]uint64{}, h.nonces...)
	sort.Slice(ns, func(i, j int) bool { return ns[i] < ns[j] })
	for _, n := range ns {
		b := h.stored(n)
		if b == nil {
			continue
		}
		live[n] = b
		bs = append(bs, emit.Pair(emit.ZU(n), emit.ZI(h.cidOf(n)), emit.ZU(b.GasEstimate), emit.ZI(idOf(h.relIDs, lower(b.AssigneeRemoteAddress)))))
		cp, err := b.GetCheckpoint(h.tidOf(n))
		if err != nil {
			h.t.Fatal(err)
		}
		if hex.EncodeToString(cp) != hex.EncodeToString(b.BytesToSign) {
			h.violate("C06:batch-bytes-to-sign-not-current-checkpoint", fmt.Sprintf("after %s: batch %d stores BytesToSign %x, its checkpoint is %x", after, n, b.BytesToSign, cp))
		}
	}
	seenVal, seenKey := map[string]bool{}, map[string]bool{}
	h.in.SkywayKeeper.IterateBatchConfirms(h.ctx, func(_ []byte, c types.MsgConfirmBatch) bool {
		v := h.valOfOrch(c.Orchestrator)
		signer := lower(common.HexToAddress(c.EthSigner))
		ccid := int64(1)
		if h.c2 != nil && common.HexToAddress(c.TokenContract) == h.c2.token.GetAddress() {
			ccid = 2
		}
		cs = append(cs, emit.Pair(emit.ZU(c.Nonce), emit.ZI(ccid), emit.ZI(v), emit.ZI(idOf(h.addrIDs, signer))))
		b := live[c.Nonce]
		if b == nil {
			h.violate("C06:confirm-without-batch", fmt.Sprintf("after %s: a confirmation of validator #%d for batch %d is stored but the batch is not", after, v, c.Nonce))
			return false
		}
		cp, _ := b.GetCheckpoint(h.tidOf(c.Nonce))
		// the stored field exactly as stored: plain hex of exactly 65 bytes (no prefix stripped, nothing cut off)
		sg, err := hex.DecodeString(c.Signature)
		ok := err == nil && len(sg) == 65
		var rec common.Address
		if ok {
			if sg[64] >= 27 {
				sg[64] -= 27
			}
			pk, err := crypto.SigToPub(crypto.Keccak256(append([]byte("\x19Ethereum Signed Message:\n32"), cp...)), sg)
			ok = err == nil
			if ok {
				rec = crypto.PubkeyToAddress(*pk)
			}
		}
		if !ok || lower(rec) != signer {
			h.violate("C06:stored-confirm-invalid-for-current-checkpoint", fmt.Sprintf("after %s: batch %d keeps a confirmation of validator #%d (signer %s) that does not verify against the batch's current checkpoint %x", after, c.Nonce, v, c.EthSigner, cp))
		}
		if want := h.regAt[fmt.Sprintf("%d/%d", c.Nonce, v)]; want != signer {
			h.violate("C06:stored-key-not-the-registered-key", fmt.Sprintf("after %s: batch %d stores signer %s for validator #%d, registered address when it confirmed was %s", after, c.Nonce, signer, v, want))
		}
		kv, kk := fmt.Sprintf("%d/%d", c.Nonce, v), fmt.Sprintf("%d/%s", c.Nonce, signer)
		if seenVal[kv] || seenKey[kk] {
			h.violate("C06:batch-confirmed-twice-by-same-validator-or-key", fmt.Sprintf("after %s: batch %d holds two confirmations by the same validator or eth key (validator #%d, key %s)", after, c.Nonce, v, signer))
		}
		seenVal[kv], seenKey[kk] = true, true
		return false
	})
	return emit.List(bs), emit.List(cs)
}

func (h *bhist) step(op string, class int64, rep map[string]any) { h.stepObs(op, class, rep, true) }

// stepObs: with obs the real store is projected for the model and the oracle evaluated; without (histories with more
// than a hundred confirmations: every step in full would make the case quadratic) only the outcome class is compared.
func (h *bhist) stepObs(op string, class int64, rep map[string]any, obs bool) {
	rep["outcome"] = class
	h.replay = append(h.replay, rep)
	if class == 0 {
		h.okOps++
	} else {
		h.rejOps++
	}
	if !obs {
		h.steps = append(h.steps, fmt.Sprintf("C06.BStepNoObs (%s) %d", op, class))
		return
	}
	b, c := h.observe(fmt.Sprint(rep["op"]))
	h.steps = append(h.steps, fmt.Sprintf("C06.BStep (%s) %d %s %s", op, class, b, c))
	h.noteVersions()
}

var bdests = []string{"0xd041c41EA1bf0F006ADBb6d2c9ef9D425dE5eaD7", "0x1111111111111111111111111111111111111111", "0x2222222222222222222222222222222222222222"}

func (h *bhist) opBuild() { h.opBuildOn(false) }

func (h *bhist) opBuildOn(second bool) {
	r := h.run.Rng
	cname, ctoken, cdenom, cid, ctid := chainName, h.token, denom, 1, h.tid
	if second {
		cname, ctoken, cdenom, cid, ctid = h.c2.name, h.c2.token, h.c2.denom, 2, h.c2.tid
	}
	n := 1 + r.Intn(2)
	var txs []string
	for i := 0; i < n; i++ {
		d, _ := types.NewEthAddress(bdests[r.Intn(len(bdests))])
		amt := int64(1 + r.Intn(3))
		if _, err := h.in.SkywayKeeper.AddToOutgoingPool(h.ctx, h.send, *d, sdk.NewCoin(cdenom, sdkmath.NewInt(amt)), cname); err != nil {
			h.t.Fatalf("AddToOutgoingPool: %v", err)
		}
		txs = append(txs, fmt.Sprintf("%s:%d", d.GetAddress().Hex(), amt))
	}
	b, err := h.in.SkywayKeeper.BuildOutgoingTXBatch(h.ctx, cname, *ctoken, 10)
	if err != nil && second && strings.Contains(err.Error(), "no remote address found for validator") {
		// the relayer picked from the snapshot has re-registered since and has no account on the second chain any more:
		// nothing is built (the batch builder works on a branch of the store), the transfers stay in the pool
		h.run.Count("op", "build-refused(relayer without account on the chain)")
		h.replay = append(h.replay, map[string]any{"op": "build (refused: " + err.Error() + ")", "chain": cname})
		return
	}
	if err != nil || b == nil {
		h.t.Fatalf("BuildOutgoingTXBatch: %v %v", b, err)
	}
	h.nonces = append(h.nonces, b.BatchNonce)
	if second {
		h.on2[b.BatchNonce] = true
	}
	h.run.Count("op", "build")
	h.step(fmt.Sprintf("C06.BBld %d %d %d %d %d", cid, cid, idOf(h.bodyIDs, bodyOf(b, ctid)), b.BatchTimeout, idOf(h.relIDs, lower(b.AssigneeRemoteAddress))), 0,
		map[string]any{"op": "build", "chain": cname, "pool": txs, "nonce": b.BatchNonce})
}

func (h *bhist) pickNonce() (uint64, bool) {
	if len(h.nonces) == 0 {
		return 0, false
	}
	if h.run.Rng.Intn(15) == 0 {
		return uint64(70 + h.run.Rng.Intn(3)), true
	}
	return h.nonces[h.run.Rng.Intn(len(h.nonces))], true
}

func confirmClass(err error) int64 {
	if err == nil {
		return 0
	}
	s := err.Error()
	switch {
	case strings.Contains(s, "couldn't find batch"):
		return 1
	case strings.Contains(s, "no eth address set for validator"):
		return 2
	case strings.Contains(s, "does not match delegate eth address"):
		return 3
	case strings.Contains(s, "signature verification failed"):
		return 4
	case strings.Contains(s, "duplicate signature"):
		return 5
	case strings.Contains(s, "already confirmed this batch"):
		return 6
	case strings.Contains(s, "validator does not exist"), strings.Contains(s, "no validator found"):
		return 9
	case strings.Contains(s, "validator is unbonded"):
		return 10
	case strings.Contains(s, "signature decoding"), strings.Contains(s, "could not decode hex string"):
		return 12
	}
	return 50
}

func (h *bhist) opConfirm() {
	r := h.run.Rng
	n, ok := h.pickNonce()
	if !ok {
		return
	}
	v := r.Intn(len(h.accs))
	if r.Intn(25) == 0 {
		v = -1 // an orchestrator account that is no validator
	}
	h.confirmAs(v, n, false, true)
}

// confirmAs: orchestrator v (-1: the account that is no validator) sends MsgConfirmBatch for batch n.  plain: the
// registered key over the current checkpoint, nothing else; otherwise the variants are drawn.
func (h *bhist) confirmAs(v int, n uint64, plain, obs bool) {
	r := h.run.Rng
	orch, mv, reg := h.stranger, int64(strangerID), ""
	if v >= 0 {
		orch, mv, reg = h.accs[v], int64(v), h.regOf(v, n)
	}
	signerKey := -1
	for i := range h.keys {
		if lower(h.keyAddr(i)) == reg {
			signerKey = i
		}
	}
	how := "registered"
	if signerKey < 0 || (!plain && r.Intn(10) == 0) {
		signerKey = r.Intn(len(h.keys))
		how = "other-key"
	}
	claimed := common.HexToAddress(reg)
	if reg == "" {
		claimed = h.keyAddr(signerKey)
	}
	if !plain && r.Intn(12) == 0 {
		claimed = h.keyAddr(r.Intn(len(h.keys)))
		how += "/claims-other-address"
	}
	// the key the validator released with its last re-registration (the valset snapshot, built before, still lists it):
	// signed with it and claimed as signer - it is not the validator's registered key any more
	if prev := h.prevAddr[v]; !plain && v >= 0 && prev != "" && prev != reg && r.Intn(6) == 0 {
		for i := range h.keys {
			if lower(h.keyAddr(i)) == prev {
				signerKey, claimed, how = i, common.HexToAddress(prev), "released-key"
			}
		}
	}
	if v < 0 {
		how = "no-validator"
	} else if st := h.statusCode(v); st != 3 {
		how += fmt.Sprintf("/status-%d", st)
	}
	var cp []byte
	var spec string
	what := "current"
	vs := h.vers[n]
	keyID := idOf(h.addrIDs, lower(h.keyAddr(signerKey)))
	k := 19
	if !plain {
		k = r.Intn(20)
	}
	switch {
	case len(vs) == 0 || k == 0:
		what = "junk"
		cp = make([]byte, 32)
		r.Read(cp)
		spec = "C06.CJunk"
	case k < 5 && len(vs) > 1:
		what = "stale"
		ver := vs[r.Intn(len(vs)-1)]
		cp, spec = ver.cp, fmt.Sprintf("(C06.COver %d %s)", keyID, ver.coq)
	case k < 7 && len(h.nonces) > 1:
		what = "other-batch"
		o := h.nonces[r.Intn(len(h.nonces))]
		if len(h.vers[o]) == 0 {
			o = n
		}
		ver := h.vers[o][len(h.vers[o])-1]
		cp, spec = ver.cp, fmt.Sprintf("(C06.COver %d %s)", keyID, ver.coq)
	default:
		ver := vs[len(vs)-1]
		cp, spec = ver.cp, fmt.Sprintf("(C06.COver %d %s)", keyID, ver.coq)
	}
	sgb, err := types.NewEthereumSignature(cp, h.keys[signerKey])
	if err != nil {
		h.t.Fatal(err)
	}
	if r.Intn(4) == 0 {
		sgb[64] += 27
	}
	sig := hex.EncodeToString(sgb)
	// the signature FIELD in other lengths and spellings: a valid 65-byte signature cut short or followed by more bytes,
	// or written with a 0x prefix.  Only exactly 65 bytes of plain hex are a signature; what is stored is the field as sent.
	if !plain && r.Intn(7) == 0 {
		shape := []string{"63-bytes", "64-bytes", "66-bytes", "67-bytes", "96-bytes", "0x-prefixed", "0x-prefixed-96-bytes"}[r.Intn(7)]
		tail := make([]byte, 31)
		r.Read(tail)
		switch shape {
		case "63-bytes":
			sig = hex.EncodeToString(sgb[:63])
		case "64-bytes":
			sig = hex.EncodeToString(sgb[:64])
		case "66-bytes":
			sig = hex.EncodeToString(append(append([]byte{}, sgb...), tail[:1]...))
		case "67-bytes":
			sig = hex.EncodeToString(append(append([]byte{}, sgb...), tail[:2]...))
		case "96-bytes":
			sig = hex.EncodeToString(append(append([]byte{}, sgb...), tail...))
		case "0x-prefixed":
			sig = "0x" + sig
		case "0x-prefixed-96-bytes":
			sig = "0x" + hex.EncodeToString(append(append([]byte{}, sgb...), tail...))
		}
		what += "/signature-field:" + shape
		spec = "C06.CJunk" // not a signature over anything, whatever its first 65 bytes are
	}
	written := spell(r, claimed)
	h.run.Count("signer-spelling", spellingClass(written, claimed))
	_, err = h.ms.ConfirmBatch(h.ctx, &types.MsgConfirmBatch{
		Nonce: n, TokenContract: spell(r, h.tokenOf(n).GetAddress()), EthSigner: written, Orchestrator: orch.String(), Signature: sig,
		Metadata: valsettypes.MsgMetadata{Creator: orch.String(), Signers: []string{orch.String()}},
	})
	c := confirmClass(err)
	if c == 50 {
		h.t.Fatalf("ConfirmBatch: %v", err)
	}
	if c == 12 {
		// refused by the message's stateless validation (the signature field is not hex): never reaches the keeper, no model step
		h.run.Count("op", "confirm(not-hex)")
		h.run.Count("confirm-what", what+"/"+how)
		h.replay = append(h.replay, map[string]any{"op": "confirm (refused: signature field is not hex)", "validator": mv, "nonce": n, "signature": sig})
		if obs {
			h.observe("confirm")
		}
		return
	}
	if err == nil {
		h.regAt[fmt.Sprintf("%d/%d", n, mv)] = reg
		if v < 0 || h.statusCode(v) < 2 {
			h.violate("C06:confirmation-by-unbonded-or-no-validator", fmt.Sprintf("after confirm: batch %d accepted a confirmation of orchestrator %s whose validator is unbonded or does not exist", n, orch))
		}
	}
	h.run.Count("op", "confirm")
	h.run.Count("confirm-what", what+"/"+how)
	h.run.Count("confirm-outcome", fmt.Sprint(c))
	h.stepObs(fmt.Sprintf("C06.BCnf %d %d %d %d %s", mv, n, h.cidOf(n), idOf(h.addrIDs, lower(claimed)), spec), c,
		map[string]any{"op": "confirm", "validator": mv, "orchestrator": orch.String(), "nonce": n, "eth_signer": written, "signing_key": signerKey, "signed": what, "checkpoint": hex.EncodeToString(cp), "signature": sig}, obs)
}

// opSetStatus: the staking module moves a validator between bonded / unbonding / unbonded (its record is rewritten in
// place: what unbonding, jailing and re-bonding do to Status); skyway reads the status in confirmHandlerCommon.
func (h *bhist) opSetStatus(v int, st int64) {
	val, err := h.in.StakingKeeper.GetValidator(h.ctx, h.vals[v])
	if err != nil {
		h.t.Fatal(err)
	}
	val.Status = map[int64]stakingtypes.BondStatus{1: stakingtypes.Unbonded, 2: stakingtypes.Unbonding, 3: stakingtypes.Bonded}[st]
	if err := h.in.StakingKeeper.SetValidator(h.ctx, val); err != nil {
		h.t.Fatal(err)
	}
	h.run.Count("op", "set-status")
	h.run.Count("status", fmt.Sprint(st))
	h.step(fmt.Sprintf("C06.BStat %d %d", v, h.statusCode(v)), 0, map[string]any{"op": "staking status", "validator": v, "status": val.Status.String()})
}

var bests = []uint64{1, 21000, 299999, 300000, 300001, 123456789}

// opEstimate: UpdateBatchGasEstimate as the end-blocker calls it (argument: the batch as iterated).
func (h *bhist) opEstimate() {
	n, ok := h.pickNonce()
	if !ok {
		return
	}
	est := bests[h.run.Rng.Intn(len(bests))]
	arg := h.stored(n)
	if arg == nil {
		return
	}
	err := h.in.SkywayKeeper.UpdateBatchGasEstimate(h.ctx, *arg, est)
	c := int64(0)
	switch {
	case err == nil:
	case strings.Contains(err.Error(), "already set"):
		c = 7
	default:
		h.t.Fatalf("UpdateBatchGasEstimate: %v", err)
	}
	h.run.Count("op", "update-estimate")
	h.run.Count("estimate-outcome", fmt.Sprint(c))
	h.step(fmt.Sprintf("C06.BUpd %d %d %s", n, h.cidOf(n), emit.ZU(est)), c, map[string]any{"op": "update-estimate", "nonce": n, "estimate": est})
}

// opEndBlock: validators send MsgEstimateBatchGas, (sometimes time passes beyond the timeout), the module's
// EndBlocker runs; what it did is read back and given to the model as BUpd / BRem steps.
func (h *bhist) opEndBlock() {
	r := h.run.Rng
	before := map[uint64]uint64{}
	var live []uint64
	for _, n := range h.nonces {
		if b := h.stored(n); b != nil {
			before[n] = b.GasEstimate
			live = append(live, n)
		}
	}
	how := "endblock:estimates"
	if r.Intn(6) == 0 {
		how = "endblock:timeout"
		h.ctx = h.ctx.WithBlockTime(h.ctx.BlockTime().Add(11 * time.Minute))
		h.in.Context = h.ctx
	} else if len(live) > 0 {
		n := live[r.Intn(len(live))]
		base := bests[r.Intn(len(bests))]
		for _, v := range r.Perm(5)[:2+r.Intn(4)] {
			_, _ = h.ms.EstimateBatchGas(h.ctx, &types.MsgEstimateBatchGas{
				Nonce: n, TokenContract: spell(r, h.tokenOf(n).GetAddress()), EthSigner: spell(r, common.HexToAddress(h.regAddr[v])), Estimate: base + uint64(r.Intn(3)),
				Metadata: valsettypes.MsgMetadata{Creator: h.accs[v].String(), Signers: []string{h.accs[v].String()}},
			})
		}
	}
	cc := libcons.New(h.in.ValsetKeeper.GetCurrentSnapshot, h.in.Marshaler)
	skyway.EndBlocker(h.ctx, h.in.SkywayKeeper, cc)
	h.run.Count("op", how)
	did := false
	for _, n := range live {
		b := h.stored(n)
		if b != nil && b.GasEstimate != before[n] {
			h.run.Count("endblock-effect", "estimate-elected")
			h.step(fmt.Sprintf("C06.BUpd %d %d %s", n, h.cidOf(n), emit.ZU(b.GasEstimate)), 0, map[string]any{"op": how + " -> elected estimate", "nonce": n, "estimate": b.GasEstimate})
			did = true
		}
	}
	var gone []uint64
	for _, n := range live {
		if h.stored(n) == nil {
			gone = append(gone, n)
		}
	}
	for i, n := range gone {
		h.run.Count("endblock-effect", "timed-out")
		op := fmt.Sprintf("C06.BRem %d %d", n, h.cidOf(n))
		rep := map[string]any{"op": how + " -> cancelled timed-out batch", "nonce": n}
		if i+1 < len(gone) {
			rep["outcome"] = 0
			h.replay = append(h.replay, rep)
			h.steps = append(h.steps, fmt.Sprintf("C06.BStepNoObs (%s) 0", op))
		} else {
			h.step(op, 0, rep)
		}
		did = true
	}
	if !did {
		h.run.Count("endblock-effect", "nothing")
		h.replay = append(h.replay, map[string]any{"op": how})
		h.observe(how)
	}
}

func (h *bhist) opRemove() {
	n, ok := h.pickNonce()
	if !ok {
		return
	}
	var err error
	how := "cancel"
	if h.run.Rng.Intn(2) == 0 {
		err = h.in.SkywayKeeper.CancelOutgoingTXBatch(h.ctx, *h.tokenOf(n), n)
	} else {
		how = "executed"
		err = h.in.SkywayKeeper.OutgoingTxBatchExecuted(h.ctx, *h.tokenOf(n), types.MsgBatchSendToRemoteClaim{
			BatchNonce: n, EthBlockHeight: 1, TokenContract: h.tokenOf(n).GetAddress().Hex(), ChainReferenceId: h.nameOf(n)})
	}
	c := int64(0)
	if err != nil {
		if h.stored(n) != nil {
			h.t.Fatalf("%s failed on a stored batch: %v", how, err)
		}
		c = 1
	}
	h.run.Count("op", how)
	h.step(fmt.Sprintf("C06.BRem %d %d", n, h.cidOf(n)), c, map[string]any{"op": how, "nonce": n})
}

// opRegister: a validator replaces its external account (new key), possibly with one another validator
// holds now (collision) or held earlier (a key handed over while batches are open).
func (h *bhist) opRegister(v, key int) {
	h.registerAs(v, key, spell(h.run.Rng, h.keyAddr(key)))
}

// registerSpelled: form < 0 = checksummed.
func (h *bhist) registerSpelled(v, key, form int) {
	a := h.keyAddr(key)
	if form < 0 {
		h.registerAs(v, key, a.Hex())
		return
	}
	h.registerAs(v, key, spellForm(a, form))
}

func (h *bhist) registerAs(v, key int, written string) {
	a := h.keyAddr(key)
	err := h.in.ValsetKeeper.AddExternalChainInfo(h.ctx, h.vals[v], []*valsettypes.ExternalChainInfo{
		{ChainType: "evm", ChainReferenceID: chainName, Address: written, Pubkey: a.Bytes()}})
	c := int64(0)
	switch {
	case err == nil:
		if h.prevAddr == nil {
			h.prevAddr = map[int]string{}
		}
		if h.regAddr[v] != "" && h.regAddr[v] != lower(a) {
			h.prevAddr[v] = h.regAddr[v]
		}
		h.regAddr[v] = lower(a)
		if h.c2 != nil {
			h.c2.reg[v] = "" // the new set of accounts has none for the second chain
		}
	case strings.Contains(err.Error(), "external account already registered"):
		c = 8
	case strings.Contains(err.Error(), "cannot be a pigeon"):
		c = 11
	default:
		h.t.Fatalf("AddExternalChainInfo: %v", err)
	}
	h.run.Count("op", "register")
	h.run.Count("register-outcome", fmt.Sprint(c))
	h.step(fmt.Sprintf("C06.BReg %d [(1, %d, %d, %d)]", v, idOf(h.strIDs, written), idOf(h.keyIDs, hex.EncodeToString(a.Bytes())), idOf(h.addrIDs, lower(a))), c,
		map[string]any{"op": "register", "validator": v, "key": key, "address": written})
}

// redeployRefreshes: does the tree under test renew the open batches of a chain when the chain's compass changes?  Probed
// by the scripted scenario at the start of the run (corpus batch_compass_redeploy.json); random histories contain compass
// redeploys only if it does (without the renewal the first redeploy over an open batch ends the history with the known finding).
var redeployRefreshes bool

// opRedeploy: a new compass is activated for the chain (evm ActivateChainReferenceID, as the attestation of an uploaded
// compass does); sameID: the new deployment reports the compass id the chain already has.  The checkpoint of a batch covers
// the compass id and ConfirmBatch verifies against the id of the CURRENT compass: what the module did to the open batches
// is read back and given to the model as BRebody steps (new body, confirmations dropped).
func (h *bhist) opRedeploy(sameID bool) { h.opRedeployOn(false, sameID) }

// opLateActivation (seeded C06-S): the activation of an OLDER or equal compass deployment (contract id not above the active
// one, another unique id) is processed after a newer compass is active.  evm ignores it: the chain stays bound to the active
// compass, ConfirmBatch keeps verifying against the checkpoint for the active compass id - and nothing else may move: the
// open batches' stored bytes to sign and confirmations stay as they are.  Followed by confirmations over (a) the stored
// bytes, (b) the checkpoint for the active compass, (c) the checkpoint for the stale compass.
func (h *bhist) opLateActivation(second bool) {
	cname, tid, scID := chainName, h.tid, h.scID
	if second {
		cname, tid, scID = h.c2.name, h.c2.tid, h.c2.scID
	}
	r := h.run.Rng
	id := scID
	if id > 0 && r.Intn(2) == 0 {
		id = uint64(r.Intn(int(scID))) + 0
		if id == 0 {
			id = scID
		}
	}
	stale := fmt.Sprintf("compass-stale-%d-%s", r.Intn(1000), cname)
	if err := h.in.EvmKeeper.ActivateChainReferenceID(h.ctx, cname, &evmtypes.SmartContract{Id: id}, "0x7C3E98aA540B2C3545E1DbA2D5e8B3e3e8bD3c7e", []byte(stale)); err != nil {
		h.t.Fatalf("ActivateChainReferenceID: %v", err)
	}
	ci, err := h.in.EvmKeeper.GetChainInfo(h.ctx, cname)
	if err != nil || string(ci.SmartContractUniqueID) != tid {
		h.t.Fatalf("late activation of contract %d changed the chain's compass id: %q %v", id, ci.GetSmartContractUniqueID(), err)
	}
	how := fmt.Sprintf("late-activation(contract id %d <= active %d, compass id %s)", id, scID, stale)
	h.run.Count("op", "late-activation-of-older-compass")
	h.replay = append(h.replay, map[string]any{"op": how, "chain": cname})
	for _, n := range h.nonces {
		if b := h.stored(n); b != nil && h.is2(n) == second {
			if cp, _ := b.GetCheckpoint(tid); hex.EncodeToString(cp) != hex.EncodeToString(b.BytesToSign) {
				h.violate("C06:late-activation-rewrites-open-batch-bytes", fmt.Sprintf("after %s: evm ignored the activation (the chain keeps compass id %q, ConfirmBatch verifies against it) but announced it; skyway rewrote batch %d's stored bytes to sign for the stale compass id and dropped its confirmations: validators are told to sign bytes ConfirmBatch refuses", how, tid, n))
			}
		}
	}
	h.observe(how) // bytes to sign of every open batch = checkpoint under the ACTIVE compass id; model: nothing happened
	oracleOnly := false
	if h.viol {
		// the history ends here for the model; the three confirmations are still sent and judged directly: whatever is accepted
		// must verify against the checkpoint for the compass the chain IS bound to (evm chain info)
		h.dead, oracleOnly = true, true
	}
	// confirmations over the three candidate byte strings of an open batch of that chain
	for _, n := range h.nonces {
		b := h.stored(n)
		if b == nil || h.is2(n) != second {
			continue
		}
		v := r.Intn(len(h.accs))
		reg := h.regOf(v, n)
		key := -1
		for i := range h.keys {
			if lower(h.keyAddr(i)) == reg {
				key = i
			}
		}
		if key < 0 {
			break
		}
		staleCp, err := b.GetCheckpoint(stale)
		if err != nil {
			h.t.Fatal(err)
		}
		ver := h.versionOf(b)
		for _, cand := range []struct {
			what string
			cp   []byte
			spec string
		}{{"stored-bytes-to-sign", b.BytesToSign, ""}, {"checkpoint-active-compass", ver.cp, ""}, {"checkpoint-stale-compass", staleCp, "C06.CJunk"}} {
			spec := cand.spec
			if spec == "" {
				if hex.EncodeToString(cand.cp) == hex.EncodeToString(ver.cp) {
					spec = fmt.Sprintf("(C06.COver %d %s)", idOf(h.addrIDs, reg), ver.coq)
				} else {
					spec = "C06.CJunk"
				}
			}
			sgb, err := types.NewEthereumSignature(cand.cp, h.keys[key])
			if err != nil {
				h.t.Fatal(err)
			}
			sig := hex.EncodeToString(sgb)
			_, err = h.ms.ConfirmBatch(h.ctx, &types.MsgConfirmBatch{
				Nonce: n, TokenContract: h.tokenOf(n).GetAddress().Hex(), EthSigner: common.HexToAddress(reg).Hex(), Orchestrator: h.accs[v].String(), Signature: sig,
				Metadata: valsettypes.MsgMetadata{Creator: h.accs[v].String(), Signers: []string{h.accs[v].String()}},
			})
			c := confirmClass(err)
			if c == 50 {
				h.t.Fatalf("ConfirmBatch: %v", err)
			}
			if oracleOnly {
				if err == nil && hex.EncodeToString(cand.cp) != hex.EncodeToString(ver.cp) && violationBudget(h.run, "C06:confirmation-accepted-for-a-compass-the-chain-is-not-bound-to") {
					h.replay = append(h.replay, map[string]any{"op": "confirm", "validator": v, "nonce": n, "signed": cand.what, "checkpoint": hex.EncodeToString(cand.cp), "signature": sig, "outcome": 0})
					h.run.Violate("C06:confirmation-accepted-for-a-compass-the-chain-is-not-bound-to", fmt.Sprintf("after %s: ConfirmBatch accepted and stored a confirmation of validator #%d for batch %d signed over the %s (%x), which is not the checkpoint for the compass the chain is bound to (%q, %x)", how, v, n, cand.what, cand.cp, tid, ver.cp), map[string]any{"part": "batch", "history": h.replay})
				}
				continue
			}
			if err == nil {
				h.regAt[fmt.Sprintf("%d/%d", n, v)] = reg
			}
			h.run.Count("confirm-what", "after-late-activation/"+cand.what)
			h.run.Count("confirm-outcome", fmt.Sprint(c))
			h.step(fmt.Sprintf("C06.BCnf %d %d %d %d %s", v, n, h.cidOf(n), idOf(h.addrIDs, reg), spec), c,
				map[string]any{"op": "confirm", "validator": v, "nonce": n, "signed": cand.what, "checkpoint": hex.EncodeToString(cand.cp), "signature": sig})
		}
		break
	}
}

func (h *bhist) opRedeployOn(second, sameID bool) {
	cname, ptid, pscID := chainName, &h.tid, &h.scID
	if second {
		cname, ptid, pscID = h.c2.name, &h.c2.tid, &h.c2.scID
	}
	newTid := *ptid
	*pscID++
	if !sameID {
		newTid = fmt.Sprintf("compass-%d-%s", *pscID, cname)
	}
	if err := h.in.EvmKeeper.ActivateChainReferenceID(h.ctx, cname, &evmtypes.SmartContract{Id: *pscID}, "0x5A3E98aA540B2C3545E1DbA2D5e8B3e3e8bD3c7e", []byte(newTid)); err != nil {
		h.t.Fatalf("ActivateChainReferenceID: %v", err)
	}
	ci, err := h.in.EvmKeeper.GetChainInfo(h.ctx, cname)
	if err != nil || string(ci.SmartContractUniqueID) != newTid {
		h.t.Fatalf("compass id after activation: %q %v", ci.GetSmartContractUniqueID(), err)
	}
	*ptid = newTid
	how := "compass-redeploy"
	if sameID {
		how = "compass-reactivated-same-id"
	}
	if h.c2 != nil {
		how += "(" + cname + ")"
	}
	h.run.Count("op", how)
	var changed []uint64
	stale, kept := uint64(0), 0
	for _, n := range h.nonces {
		b := h.stored(n)
		if b == nil {
			continue
		}
		cp, err := b.GetCheckpoint(h.tidOf(n))
		if err != nil {
			h.t.Fatal(err)
		}
		if hex.EncodeToString(cp) != hex.EncodeToString(b.BytesToSign) {
			stale = n
			cs, _ := h.in.SkywayKeeper.GetBatchConfirmByNonceAndTokenContract(h.ctx, n, *h.tokenOf(n))
			kept += len(cs)
		}
		if vs := h.vers[n]; len(vs) > 0 && vs[len(vs)-1].coq != h.versionOf(b).coq {
			changed = append(changed, n)
		}
	}
	if stale != 0 {
		h.run.Count("redeploy-effect", "open batches left with the old compass id")
		h.replay = append(h.replay, map[string]any{"op": how, "compass_id": newTid})
		h.violate("C06:compass-redeploy-keeps-open-batch-confirms", fmt.Sprintf("after %s: batch %d still stores the bytes to sign of the previous compass (ConfirmBatch now verifies against the checkpoint with compass id %q) and the open batches keep %d confirmation(s) that do not verify against it", how, stale, newTid, kept))
		h.dead = true
		return
	}
	if len(changed) == 0 {
		h.run.Count("redeploy-effect", "nothing")
		h.replay = append(h.replay, map[string]any{"op": how, "compass_id": newTid})
		h.observe(how)
		return
	}
	for i, n := range changed {
		h.run.Count("redeploy-effect", "open batch renewed")
		op := fmt.Sprintf("C06.BRbd %d %d %d", n, h.cidOf(n), idOf(h.bodyIDs, bodyOf(h.stored(n), h.tidOf(n))))
		rep := map[string]any{"op": how + " -> batch renewed", "compass_id": newTid, "nonce": n}
		h.stepObs(op, 0, rep, i+1 == len(changed))
	}
	h.noteVersions()
}

func (h *bhist) finish() {
	h.run.Case("C06.CBatch "+emit.List(h.steps), h.okOps > 0 && h.rejOps > 0, map[string]any{"part": "batch", "steps": len(h.steps)})
}

// handover: validator a confirms, moves to a fresh key, validator b takes a's old key and confirms the same batch.
func (h *bhist) opHandover() {
	r := h.run.Rng
	a := r.Intn(len(h.accs))
	b := (a + 1 + r.Intn(len(h.accs)-1)) % len(h.accs)
	old := -1
	for i := range h.keys {
		if lower(h.keyAddr(i)) == h.regAddr[a] {
			old = i
		}
	}
	if old < 0 {
		return
	}
	h.run.Count("op", "key-handover")
	h.opRegister(a, 5+r.Intn(4))
	h.opRegister(b, old)
}

func runBatchHistory(t *testing.T, run *emit.Run) *bhist {
	h := newBHist(t, run)
	r := run.Rng
	h.opBuild()
	n := 12 + r.Intn(14)
	for i := 0; i < n && !h.dead; i++ {
		switch k := r.Intn(100); {
		case k < 10:
			h.opBuild()
		case k < 55:
			h.opConfirm()
		case k < 58:
			h.opSetStatus(r.Intn(len(h.accs)), []int64{3, 3, 2, 1}[r.Intn(4)])
		case k < 60:
			if redeployRefreshes && r.Intn(3) == 0 {
				h.opLateActivation(false)
			} else if redeployRefreshes {
				h.opRedeploy(r.Intn(4) == 0)
			} else {
				h.opConfirm()
			}
		case k < 70:
			h.opEstimate()
		case k < 80:
			h.opEndBlock()
		case k < 86:
			h.opRegister(r.Intn(len(h.accs)), r.Intn(len(h.keys)))
		case k < 94:
			h.opHandover()
		default:
			h.opRemove()
		}
	}
	h.finish()
	return h
}

// runBigSetHistory: a validator set of more than a hundred (keeper.SetupFiveValChain + 97..104 validators created through
// the staking msg server, MaxValidators raised accordingly).  One batch; every validator confirms it through the real msg
// server (a few with the drawn variants unless scripted); the five validators of the snapshot send gas estimates and the
// module's EndBlocker elects one: UpdateBatchGasEstimate recomputes the checkpoint and has to delete ALL confirmations;
// some validators confirm the new checkpoint; a second batch is confirmed by everybody and cancelled.  The store is
// projected / the oracle evaluated every 25 confirmations and after each of the other steps.
func runBigSetHistory(t *testing.T, run *emit.Run, scripted bool) *bhist {
	r := run.Rng
	extra := 97 + r.Intn(8)
	h := newBHistN(t, run, extra)
	nv := len(h.accs)
	run.Count("big-set", fmt.Sprintf("validators=%d", nv))
	if !scripted {
		// some validators are on their way out: unbonding ones may still confirm, unbonded ones may not
		for _, v := range r.Perm(nv)[:3] {
			h.opSetStatus(v, []int64{2, 2, 1}[r.Intn(3)])
		}
	}
	late := map[int]bool{}
	confirmAll := func(n uint64) {
		for i, v := range r.Perm(nv) {
			if late[v] {
				continue
			}
			h.confirmAs(v, n, scripted || r.Intn(12) > 0, i%25 == 24 || i == nv-1)
		}
	}
	elect := func(n uint64) {
		before := h.stored(n).GasEstimate
		for v := 0; v < 5; v++ {
			_, _ = h.ms.EstimateBatchGas(h.ctx, &types.MsgEstimateBatchGas{
				Nonce: n, TokenContract: h.token.GetAddress().Hex(), EthSigner: common.HexToAddress(h.regAddr[v]).Hex(), Estimate: 21000 + uint64(v%2),
				Metadata: valsettypes.MsgMetadata{Creator: h.accs[v].String(), Signers: []string{h.accs[v].String()}},
			})
		}
		cc := libcons.New(h.in.ValsetKeeper.GetCurrentSnapshot, h.in.Marshaler)
		skyway.EndBlocker(h.ctx, h.in.SkywayKeeper, cc)
		b := h.stored(n)
		if b == nil || b.GasEstimate == before {
			h.run.Count("big-set", "estimate NOT elected")
			h.replay = append(h.replay, map[string]any{"op": "endblock:estimates (nothing elected)"})
			h.observe("endblock:estimates")
			return
		}
		h.run.Count("big-set", "estimate elected over >100 confirmations")
		h.run.Count("op", "endblock:estimates")
		h.step(fmt.Sprintf("C06.BUpd %d 1 %s", n, emit.ZU(b.GasEstimate)), 0, map[string]any{"op": "endblock:estimates -> elected estimate", "nonce": n, "estimate": b.GasEstimate})
	}
	h.opBuild()
	n1 := h.nonces[0]
	confirmAll(n1)
	elect(n1)
	// the new checkpoint is confirmed: by validators of both ends of the orchestrator address order and a few others
	byAddr := r.Perm(nv)
	sort.Slice(byAddr, func(i, j int) bool { return string(h.accs[byAddr[i]]) < string(h.accs[byAddr[j]]) })
	again := []int{byAddr[0], byAddr[1], byAddr[nv-1], byAddr[nv-2], byAddr[nv-3]}
	again = append(again, r.Perm(nv)[:4]...)
	for _, v := range again {
		h.confirmAs(v, n1, true, true)
	}
	h.opBuild()
	n2 := h.nonces[1]
	// four validators are late; meanwhile four others, spread over the orchestrator address order (first, middle, last
	// and one beyond the hundredth), confirm and then hand their keys over to the late ones, who try to confirm with them:
	// a key confirms a batch once, wherever its confirmation sits in the store
	lateVals := []int{byAddr[2], byAddr[nv/3], byAddr[nv-4], byAddr[nv/2+1]}
	for _, v := range lateVals {
		late[v] = true
	}
	confirmAll(n2)
	for i, a := range []int{byAddr[0], byAddr[nv/2], byAddr[nv-1], byAddr[100]} {
		b := lateVals[i]
		old := -1
		for k := range h.keys {
			if lower(h.keyAddr(k)) == h.regAddr[a] {
				old = k
			}
		}
		if old < 0 {
			continue
		}
		h.run.Count("op", "key-handover")
		h.opRegister(a, 5+i)
		h.opRegister(b, old)
		h.confirmAs(b, n2, true, true)
	}
	h.run.Count("op", "cancel")
	err := h.in.SkywayKeeper.CancelOutgoingTXBatch(h.ctx, *h.token, n2)
	if err != nil {
		t.Fatalf("CancelOutgoingTXBatch: %v", err)
	}
	h.step(fmt.Sprintf("C06.BRem %d 1", n2), 0, map[string]any{"op": "cancel", "nonce": n2})
	for _, v := range again[:3] {
		h.confirmAs(v, n2, true, true)
	}
	h.finish()
	return h
}

// runTwoChainHistory (seeded C06-F): two EVM chains with a bridged token each, the second chain's token contract address
// above the first's; batches are open and confirmed on BOTH chains when a new compass is activated for one of them.  The
// renewal has to reach every open batch of the activated chain wherever it sits in the batch store (iterated token
// contract descending, nonce descending) and must leave the other chain's batches and confirmations alone.
func runTwoChainHistory(t *testing.T, run *emit.Run, scripted bool) *bhist {
	h := newBHist(t, run)
	h.addSecondChain()
	r := run.Rng
	run.Count("two-chain", "histories")
	confirmSome := func(n uint64) {
		for _, v := range r.Perm(5)[:2+r.Intn(3)] {
			h.confirmAs(v, n, scripted || r.Intn(6) > 0, true)
		}
	}
	h.opBuildOn(false)
	h.opBuildOn(true)
	confirmSome(h.nonces[0])
	confirmSome(h.nonces[1])
	if scripted {
		h.opRedeployOn(false, false) // the first chain's batch sorts AFTER the second chain's in the iteration
		if !h.dead {
			confirmSome(h.nonces[0])
			h.opRedeployOn(true, false)
		}
		if !h.dead {
			confirmSome(h.nonces[1])
		}
		h.finish()
		return h
	}
	n := 10 + r.Intn(10)
	for i := 0; i < n && !h.dead; i++ {
		switch k := r.Intn(100); {
		case k < 15:
			h.opBuildOn(r.Intn(2) == 0)
		case k < 60:
			h.opConfirm()
		case k < 68:
			h.opEndBlock()
		case k < 74:
			h.opRemove()
		case k < 80:
			h.opRegister(r.Intn(5), r.Intn(len(h.keys)))
		default:
			if redeployRefreshes && r.Intn(4) == 0 {
				h.opLateActivation(r.Intn(2) == 0)
			} else if redeployRefreshes {
				h.opRedeployOn(r.Intn(2) == 0, r.Intn(5) == 0)
			} else {
				h.opConfirm()
			}
		}
	}
	h.finish()
	return h
}
