package c06

// Part B: skyway batch confirmations.  keeper.SetupFiveValChain: real skyway / evm / valset / staking /
// bank keepers, the real msg server, validators registered with keeper.EthPrivKeys (real secp256k1).

import (
	"crypto/ecdsa"
	"encoding/hex"
	"fmt"
	"sort"
	"strings"
	"testing"
	"time"

	"cosmossdk.io/log"
	sdkmath "cosmossdk.io/math"
	"github.com/cosmos/cosmos-sdk/crypto/keys/ed25519"
	"github.com/cosmos/cosmos-sdk/crypto/keys/secp256k1"
	sdk "github.com/cosmos/cosmos-sdk/types"
	authtypes "github.com/cosmos/cosmos-sdk/x/auth/types"
	stakingkeeper "github.com/cosmos/cosmos-sdk/x/staking/keeper"
	stakingtypes "github.com/cosmos/cosmos-sdk/x/staking/types"
	"github.com/ethereum/go-ethereum/common"
	"github.com/ethereum/go-ethereum/crypto"
	"github.com/palomachain/paloma/v2/util/libcons"
	"github.com/palomachain/paloma/v2/verifharness/emit"
	skyway "github.com/palomachain/paloma/v2/x/skyway"
	"github.com/palomachain/paloma/v2/x/skyway/keeper"
	"github.com/palomachain/paloma/v2/x/skyway/types"
	evmtypes "github.com/palomachain/paloma/v2/x/evm/types"
	valsettypes "github.com/palomachain/paloma/v2/x/valset/types"
)

const (
	chainName = "test-chain"
	erc20     = "0x0bc529c00C6401aEF6D220BE8C6Ea1667F6Ad93e"
	denom     = "ugrain"
)

type bversion struct {
	cp  []byte
	coq string // "contract body nonce timeout relayer est"
}

type bhist struct {
	t       *testing.T
	run     *emit.Run
	in      keeper.TestInput
	ctx     sdk.Context
	ms      types.MsgServer
	token   *types.EthAddress
	send    sdk.AccAddress
	keys    []*ecdsa.PrivateKey
	addrIDs map[string]int64 // lower-case hex of the 20-byte address -> model id
	strIDs  map[string]int64 // address string exactly as written at registration -> model id (collision check)
	keyIDs  map[string]int64 // registered Pubkey blob -> model id (only the collision check looks at it)
	relIDs  map[string]int64
	bodyIDs map[string]int64
	tid     string
	nonces  []uint64
	vers    map[uint64][]bversion
	accs    []sdk.AccAddress  // orchestrator (= validator operator) accounts, model id = index
	vals    []sdk.ValAddress
	orchIdx map[string]int64
	regAddr []string          // lower-case hex address registered now
	stranger sdk.AccAddress   // an account that is no validator (model id strangerID, never given a status)
	scID     uint64           // id of the chain's active compass contract
	dead     bool             // the history ended (a redeploy left open batches behind: known finding on trees without the fix)
	regAt   map[string]string // "<nonce>/<val>" -> address registered when the confirmation was accepted
	steps   []string
	replay  []map[string]any
	okOps   int
	rejOps  int
	viol    bool
}

func lower(a common.Address) string { return strings.ToLower(a.Hex()) }

func spellingClass(written string, a common.Address) string {
	switch {
	case written == a.Hex():
		return "checksummed-0x"
	case !strings.HasPrefix(written, "0x") && !strings.HasPrefix(written, "0X"):
		return "no-prefix"
	case strings.HasPrefix(written, "0X"):
		return "0X-prefix"
	case written[2:] == strings.ToLower(written[2:]):
		return "lower"
	case written[2:] == strings.ToUpper(written[2:]):
		return "upper"
	}
	return "mixed"
}

func (h *bhist) keyAddr(i int) common.Address { return crypto.PubkeyToAddress(h.keys[i].PublicKey) }

const strangerID = 900

func newBHist(t *testing.T, run *emit.Run) *bhist { return newBHistN(t, run, 0) }

// newBHistN: keeper.SetupFiveValChain plus [extra] more bonded validators, each with its own registered eth key.
func newBHistN(t *testing.T, run *emit.Run, extra int) *bhist {
	in, c := keeper.SetupFiveValChain(t)
	ctx := sdk.UnwrapSDKContext(c).WithLogger(log.NewNopLogger())
	in.Context = ctx
	h := &bhist{t: t, run: run, in: in, ctx: ctx, ms: keeper.NewMsgServerImpl(in.SkywayKeeper), addrIDs: map[string]int64{}, strIDs: map[string]int64{}, keyIDs: map[string]int64{},
		relIDs: map[string]int64{}, bodyIDs: map[string]int64{}, vers: map[uint64][]bversion{}, regAt: map[string]string{}, orchIdx: map[string]int64{}}
	for i := 0; i < 5; i++ {
		h.accs = append(h.accs, keeper.AccAddrs[i])
		h.vals = append(h.vals, keeper.ValAddrs[i])
		h.orchIdx[keeper.AccAddrs[i].String()] = int64(i)
		h.regAddr = append(h.regAddr, "")
	}
	h.stranger = sdk.AccAddress(append([]byte("c06-no-validator-acc"), 0, 0)[:20])
	tok, err := types.NewEthAddress(erc20)
	if err != nil {
		t.Fatal(err)
	}
	h.token = tok
	h.keys = append(h.keys, keeper.EthPrivKeys[:5]...)
	for i := 0; i < 4; i++ {
		b := make([]byte, 32)
		run.Rng.Read(b)
		b[0] |= 1
		k, err := crypto.ToECDSA(b)
		if err != nil {
			t.Fatal(err)
		}
		h.keys = append(h.keys, k)
	}
	h.send = sdk.AccAddress(append([]byte("c06-unrelated-acct"), 0, 0)[:20])
	coins := sdk.NewCoins(sdk.NewCoin(denom, sdkmath.NewInt(1_000_000_000)))
	if err := in.BankKeeper.MintCoins(ctx, types.ModuleName, coins); err != nil {
		t.Fatal(err)
	}
	in.AccountKeeper.SetAccount(ctx, in.AccountKeeper.NewAccountWithAddress(ctx, h.send))
	if err := in.BankKeeper.SendCoinsFromModuleToAccount(ctx, types.ModuleName, h.send, coins); err != nil {
		t.Fatal(err)
	}
	ci, err := in.EvmKeeper.GetChainInfo(ctx, chainName)
	if err != nil {
		t.Fatal(err)
	}
	h.tid = string(ci.SmartContractUniqueID)
	h.scID = ci.ActiveSmartContractID
	// what SetupFiveValChain registered, as the first model steps
	for v := 0; v < 5; v++ {
		infos, err := in.ValsetKeeper.GetValidatorChainInfos(ctx, keeper.ValAddrs[v])
		if err != nil {
			t.Fatal(err)
		}
		var coq []string
		for _, x := range infos {
			a := common.HexToAddress(x.Address)
			coq = append(coq, emit.Pair("1", emit.ZI(idOf(h.strIDs, x.Address)), emit.ZI(idOf(h.keyIDs, hex.EncodeToString(x.Pubkey))), emit.ZI(idOf(h.addrIDs, lower(a)))))
			h.regAddr[v] = lower(a)
		}
		h.steps = append(h.steps, fmt.Sprintf("C06.BStep (C06.BStat %d %d) 0 [] []", v, h.statusCode(v)))
		h.steps = append(h.steps, fmt.Sprintf("C06.BStep (C06.BReg %d %s) 0 [] []", v, emit.List(coq)))
	}
	h.replay = append(h.replay, map[string]any{"op": "setup: keeper.SetupFiveValChain, validator i registered with EthPrivKeys[i]"})
	if extra > 0 {
		h.addValidators(extra)
	}
	return h
}

// statusCode: the staking status of validator v as the staking keeper has it now (model codes, Skyway/Confirms.v).
func (h *bhist) statusCode(v int) int64 {
	val, err := h.in.StakingKeeper.GetValidator(h.ctx, h.vals[v])
	if err != nil {
		return 0
	}
	switch val.Status {
	case stakingtypes.Unbonded:
		return 1
	case stakingtypes.Unbonding:
		return 2
	case stakingtypes.Bonded:
		return 3
	}
	return 0
}

// addValidators: [extra] more validators through the staking msg server (as keeper.SetupTestChain does, which stops at a
// hundred bonded validators), MaxValidators raised so that all are bonded; each registers an eth key of its own.
func (h *bhist) addValidators(extra int) {
	t, in, r := h.t, h.in, h.run.Rng
	params, err := in.StakingKeeper.GetParams(h.ctx)
	if err != nil {
		t.Fatal(err)
	}
	params.MaxValidators = uint32(5 + extra + 8)
	if err := in.StakingKeeper.SetParams(h.ctx, params); err != nil {
		t.Fatal(err)
	}
	srv := stakingkeeper.NewMsgServerImpl(&in.StakingKeeper)
	first := len(h.accs)
	for i := 0; i < extra; i++ {
		seed := make([]byte, 32)
		r.Read(seed)
		cons := ed25519.GenPrivKeyFromSecret(seed)
		vk := secp256k1.GenPrivKeyFromSecret(seed)
		valAddr := sdk.ValAddress(vk.PubKey().Address())
		acc := sdk.AccAddress(valAddr)
		account := in.AccountKeeper.NewAccount(h.ctx, authtypes.NewBaseAccount(acc, vk.PubKey(), uint64(100+i), 0))
		coins := sdk.NewCoins(sdk.NewCoin(keeper.TestingStakeParams.BondDenom, keeper.StakingAmount))
		if err := in.BankKeeper.MintCoins(h.ctx, types.ModuleName, coins); err != nil {
			t.Fatal(err)
		}
		if err := in.BankKeeper.SendCoinsFromModuleToAccount(h.ctx, types.ModuleName, acc, coins); err != nil {
			t.Fatal(err)
		}
		in.AccountKeeper.SetAccount(h.ctx, account)
		if _, err := srv.CreateValidator(h.ctx, keeper.NewTestMsgCreateValidator(valAddr, cons.PubKey(), keeper.StakingAmount)); err != nil {
			t.Fatalf("CreateValidator: %v", err)
		}
		b := make([]byte, 32)
		r.Read(b)
		b[0] |= 1
		k, err := crypto.ToECDSA(b)
		if err != nil {
			t.Fatal(err)
		}
		h.keys = append(h.keys, k)
		h.accs = append(h.accs, acc)
		h.vals = append(h.vals, valAddr)
		h.orchIdx[acc.String()] = int64(len(h.accs) - 1)
		h.regAddr = append(h.regAddr, "")
	}
	if _, err := in.StakingKeeper.EndBlocker(h.ctx); err != nil {
		t.Fatal(err)
	}
	for v := first; v < len(h.accs); v++ {
		a := h.keyAddr(len(h.keys) - len(h.accs) + v)
		written := spell(r, a)
		if err := in.ValsetKeeper.AddExternalChainInfo(h.ctx, h.vals[v], []*valsettypes.ExternalChainInfo{
			{ChainType: "evm", ChainReferenceID: chainName, Address: written, Pubkey: a.Bytes()}}); err != nil {
			t.Fatalf("AddExternalChainInfo: %v", err)
		}
		h.regAddr[v] = lower(a)
		st := h.statusCode(v)
		if st != 3 {
			t.Fatalf("validator %d is not bonded after the staking end blocker (status %d)", v, st)
		}
		h.steps = append(h.steps, fmt.Sprintf("C06.BStep (C06.BStat %d %d) 0 [] []", v, st))
		h.steps = append(h.steps, fmt.Sprintf("C06.BStep (C06.BReg %d [(1, %d, %d, %d)]) 0 [] []", v, idOf(h.strIDs, written), idOf(h.keyIDs, hex.EncodeToString(a.Bytes())), idOf(h.addrIDs, lower(a))))
	}
	h.replay = append(h.replay, map[string]any{"op": fmt.Sprintf("setup: %d more validators created through the staking msg server (MaxValidators %d), all bonded, validator v registered with its own eth key", extra, params.MaxValidators)})
}

func (h *bhist) stored(nonce uint64) *types.InternalOutgoingTxBatch {
	b, err := h.in.SkywayKeeper.GetOutgoingTXBatch(h.ctx, *h.token, nonce)
	if err != nil {
		h.t.Fatal(err)
	}
	return b
}

func bodyOf(b *types.InternalOutgoingTxBatch, tid string) string {
	s := "tid=" + tid
	for _, tx := range b.Transactions {
		s += fmt.Sprintf("|%s:%s", lower(tx.DestAddress.GetAddress()), tx.Erc20Token.Amount.String())
	}
	return s
}

func (h *bhist) versionOf(b *types.InternalOutgoingTxBatch) bversion {
	cp, err := b.GetCheckpoint(h.tid)
	if err != nil {
		h.t.Fatal(err)
	}
	return bversion{cp: cp, coq: fmt.Sprintf("1 %d %d %d %d %s", idOf(h.bodyIDs, bodyOf(b, h.tid)), b.BatchNonce, b.BatchTimeout,
		idOf(h.relIDs, lower(b.AssigneeRemoteAddress)), emit.ZU(b.GasEstimate))}
}

func (h *bhist) noteVersions() {
	for _, n := range h.nonces {
		if b := h.stored(n); b != nil {
			v := h.versionOf(b)
			vs := h.vers[n]
			if len(vs) == 0 || vs[len(vs)-1].coq != v.coq {
				h.vers[n] = append(vs, v)
			}
		}
	}
}

func (h *bhist) valOfOrch(o string) int64 {
	if i, ok := h.orchIdx[o]; ok {
		return i
	}
	if o == h.stranger.String() {
		return strangerID
	}
	return 99
}

func (h *bhist) violate(id, what string) {
	if h.viol {
		return
	}
	h.viol = true
	if !violationBudget(h.run, id) {
		return
	}
	h.run.Violate(id, what, map[string]any{"part": "batch", "history": h.replay})
}

// observe: projection for the model + the direct oracle on the real store.
func (h *bhist) observe(after string) (string, string) {
	var bs, cs []string
	live := map[uint64]*types.InternalOutgoingTxBatch{}
	ns := append([]uint64{}, h.nonces...)
	sort.Slice(ns, func(i, j int) bool { return ns[i] < ns[j] })
	for _, n := range ns {
		b := h.stored(n)
		if b == nil {
			continue
		}
		live[n] = b
		bs = append(bs, emit.Pair(emit.ZU(n), "1", emit.ZU(b.GasEstimate), emit.ZI(idOf(h.relIDs, lower(b.AssigneeRemoteAddress)))))
		cp, err := b.GetCheckpoint(h.tid)
		if err != nil {
			h.t.Fatal(err)
		}
		if hex.EncodeToString(cp) != hex.EncodeToString(b.BytesToSign) {
			h.violate("C06:batch-bytes-to-sign-not-current-checkpoint", fmt.Sprintf("after %s: batch %d stores BytesToSign %x, its checkpoint is %x", after, n, b.BytesToSign, cp))
		}
	}
	seenVal, seenKey := map[string]bool{}, map[string]bool{}
	h.in.SkywayKeeper.IterateBatchConfirms(h.ctx, func(_ []byte, c types.MsgConfirmBatch) bool {
		v := h.valOfOrch(c.Orchestrator)
		signer := lower(common.HexToAddress(c.EthSigner))
		cs = append(cs, emit.Pair(emit.ZU(c.Nonce), "1", emit.ZI(v), emit.ZI(idOf(h.addrIDs, signer))))
		b := live[c.Nonce]
		if b == nil {
			h.violate("C06:confirm-without-batch", fmt.Sprintf("after %s: a confirmation of validator #%d for batch %d is stored but the batch is not", after, v, c.Nonce))
			return false
		}
		cp, _ := b.GetCheckpoint(h.tid)
		sg, err := hex.DecodeString(strings.TrimPrefix(c.Signature, "0x"))
		ok := err == nil && len(sg) == 65
		var rec common.Address
		if ok {
			if sg[64] >= 27 {
				sg[64] -= 27
			}
			pk, err := crypto.SigToPub(crypto.Keccak256(append([]byte("\x19Ethereum Signed Message:\n32"), cp...)), sg)
			ok = err == nil
			if ok {
				rec = crypto.PubkeyToAddress(*pk)
			}
		}
		if !ok || lower(rec) != signer {
			h.violate("C06:stored-confirm-invalid-for-current-checkpoint", fmt.Sprintf("after %s: batch %d keeps a confirmation of validator #%d (signer %s) that does not verify against the batch's current checkpoint %x", after, c.Nonce, v, c.EthSigner, cp))
		}
		if want := h.regAt[fmt.Sprintf("%d/%d", c.Nonce, v)]; want != signer {
			h.violate("C06:stored-key-not-the-registered-key", fmt.Sprintf("after %s: batch %d stores signer %s for validator #%d, registered address when it confirmed was %s", after, c.Nonce, signer, v, want))
		}
		kv, kk := fmt.Sprintf("%d/%d", c.Nonce, v), fmt.Sprintf("%d/%s", c.Nonce, signer)
		if seenVal[kv] || seenKey[kk] {
			h.violate("C06:batch-confirmed-twice-by-same-validator-or-key", fmt.Sprintf("after %s: batch %d holds two confirmations by the same validator or eth key (validator #%d, key %s)", after, c.Nonce, v, signer))
		}
		seenVal[kv], seenKey[kk] = true, true
		return false
	})
	return emit.List(bs), emit.List(cs)
}

func (h *bhist) step(op string, class int64, rep map[string]any) { h.stepObs(op, class, rep, true) }

// stepObs: with obs the real store is projected for the model and the oracle evaluated; without (histories with more
// than a hundred confirmations: every step in full would make the case quadratic) only the outcome class is compared.
func (h *bhist) stepObs(op string, class int64, rep map[string]any, obs bool) {
	rep["outcome"] = class
	h.replay = append(h.replay, rep)
	if class == 0 {
		h.okOps++
	} else {
		h.rejOps++
	}
	if !obs {
		h.steps = append(h.steps, fmt.Sprintf("C06.BStepNoObs (%s) %d", op, class))
		return
	}
	b, c := h.observe(fmt.Sprint(rep["op"]))
	h.steps = append(h.steps, fmt.Sprintf("C06.BStep (%s) %d %s %s", op, class, b, c))
	h.noteVersions()
}

var bdests = []string{"0xd041c41EA1bf0F006ADBb6d2c9ef9D425dE5eaD7", "0x1111111111111111111111111111111111111111", "0x2222222222222222222222222222222222222222"}

func (h *bhist) opBuild() {
	r := h.run.Rng
	n := 1 + r.Intn(2)
	var txs []string
	for i := 0; i < n; i++ {
		d, _ := types.NewEthAddress(bdests[r.Intn(len(bdests))])
		amt := int64(1 + r.Intn(3))
		if _, err := h.in.SkywayKeeper.AddToOutgoingPool(h.ctx, h.send, *d, sdk.NewCoin(denom, sdkmath.NewInt(amt)), chainName); err != nil {
			h.t.Fatalf("AddToOutgoingPool: %v", err)
		}
		txs = append(txs, fmt.Sprintf("%s:%d", d.GetAddress().Hex(), amt))
	}
	b, err := h.in.SkywayKeeper.BuildOutgoingTXBatch(h.ctx, chainName, *h.token, 10)
	if err != nil || b == nil {
		h.t.Fatalf("BuildOutgoingTXBatch: %v %v", b, err)
	}
	h.nonces = append(h.nonces, b.BatchNonce)
	h.run.Count("op", "build")
	h.step(fmt.Sprintf("C06.BBld 1 1 %d %d %d", idOf(h.bodyIDs, bodyOf(b, h.tid)), b.BatchTimeout, idOf(h.relIDs, lower(b.AssigneeRemoteAddress))), 0,
		map[string]any{"op": "build", "pool": txs, "nonce": b.BatchNonce})
}

func (h *bhist) pickNonce() (uint64, bool) {
	if len(h.nonces) == 0 {
		return 0, false
	}
	if h.run.Rng.Intn(15) == 0 {
		return uint64(70 + h.run.Rng.Intn(3)), true
	}
	return h.nonces[h.run.Rng.Intn(len(h.nonces))], true
}

func confirmClass(err error) int64 {
	if err == nil {
		return 0
	}
	s := err.Error()
	switch {
	case strings.Contains(s, "couldn't find batch"):
		return 1
	case strings.Contains(s, "no eth address set for validator"):
		return 2
	case strings.Contains(s, "does not match delegate eth address"):
		return 3
	case strings.Contains(s, "signature verification failed"):
		return 4
	case strings.Contains(s, "duplicate signature"):
		return 5
	case strings.Contains(s, "already confirmed this batch"):
		return 6
	case strings.Contains(s, "validator does not exist"), strings.Contains(s, "no validator found"):
		return 9
	case strings.Contains(s, "validator is unbonded"):
		return 10
	}
	return 50
}

func (h *bhist) opConfirm() {
	r := h.run.Rng
	n, ok := h.pickNonce()
	if !ok {
		return
	}
	v := r.Intn(len(h.accs))
	if r.Intn(25) == 0 {
		v = -1 // an orchestrator account that is no validator
	}
	h.confirmAs(v, n, false, true)
}

// confirmAs: orchestrator v (-1: the account that is no validator) sends MsgConfirmBatch for batch n.  plain: the
// registered key over the current checkpoint, nothing else; otherwise the variants are drawn.
func (h *bhist) confirmAs(v int, n uint64, plain, obs bool) {
	r := h.run.Rng
	orch, mv, reg := h.stranger, int64(strangerID), ""
	if v >= 0 {
		orch, mv, reg = h.accs[v], int64(v), h.regAddr[v]
	}
	signerKey := -1
	for i := range h.keys {
		if lower(h.keyAddr(i)) == reg {
			signerKey = i
		}
	}
	how := "registered"
	if signerKey < 0 || (!plain && r.Intn(10) == 0) {
		signerKey = r.Intn(len(h.keys))
		how = "other-key"
	}
	claimed := common.HexToAddress(reg)
	if reg == "" {
		claimed = h.keyAddr(signerKey)
	}
	if !plain && r.Intn(12) == 0 {
		claimed = h.keyAddr(r.Intn(len(h.keys)))
		how += "/claims-other-address"
	}
	if v < 0 {
		how = "no-validator"
	} else if st := h.statusCode(v); st != 3 {
		how += fmt.Sprintf("/status-%d", st)
	}
	var cp []byte
	var spec string
	what := "current"
	vs := h.vers[n]
	keyID := idOf(h.addrIDs, lower(h.keyAddr(signerKey)))
	k := 19
	if !plain {
		k = r.Intn(20)
	}
	switch {
	case len(vs) == 0 || k == 0:
		what = "junk"
		cp = make([]byte, 32)
		r.Read(cp)
		spec = "C06.CJunk"
	case k < 5 && len(vs) > 1:
		what = "stale"
		ver := vs[r.Intn(len(vs)-1)]
		cp, spec = ver.cp, fmt.Sprintf("(C06.COver %d %s)", keyID, ver.coq)
	case k < 7 && len(h.nonces) > 1:
		what = "other-batch"
		o := h.nonces[r.Intn(len(h.nonces))]
		if len(h.vers[o]) == 0 {
			o = n
		}
		ver := h.vers[o][len(h.vers[o])-1]
		cp, spec = ver.cp, fmt.Sprintf("(C06.COver %d %s)", keyID, ver.coq)
	default:
		ver := vs[len(vs)-1]
		cp, spec = ver.cp, fmt.Sprintf("(C06.COver %d %s)", keyID, ver.coq)
	}
	sgb, err := types.NewEthereumSignature(cp, h.keys[signerKey])
	if err != nil {
		h.t.Fatal(err)
	}
	if r.Intn(4) == 0 {
		sgb[64] += 27
	}
	sig := hex.EncodeToString(sgb)
	written := spell(r, claimed)
	h.run.Count("signer-spelling", spellingClass(written, claimed))
	_, err = h.ms.ConfirmBatch(h.ctx, &types.MsgConfirmBatch{
		Nonce: n, TokenContract: spell(r, h.token.GetAddress()), EthSigner: written, Orchestrator: orch.String(), Signature: sig,
		Metadata: valsettypes.MsgMetadata{Creator: orch.String(), Signers: []string{orch.String()}},
	})
	c := confirmClass(err)
	if c == 50 {
		h.t.Fatalf("ConfirmBatch: %v", err)
	}
	if err == nil {
		h.regAt[fmt.Sprintf("%d/%d", n, mv)] = reg
		if v < 0 || h.statusCode(v) < 2 {
			h.violate("C06:confirmation-by-unbonded-or-no-validator", fmt.Sprintf("after confirm: batch %d accepted a confirmation of orchestrator %s whose validator is unbonded or does not exist", n, orch))
		}
	}
	h.run.Count("op", "confirm")
	h.run.Count("confirm-what", what+"/"+how)
	h.run.Count("confirm-outcome", fmt.Sprint(c))
	h.stepObs(fmt.Sprintf("C06.BCnf %d %d 1 %d %s", mv, n, idOf(h.addrIDs, lower(claimed)), spec), c,
		map[string]any{"op": "confirm", "validator": mv, "orchestrator": orch.String(), "nonce": n, "eth_signer": written, "signing_key": signerKey, "signed": what, "checkpoint": hex.EncodeToString(cp), "signature": sig}, obs)
}

// opSetStatus: the staking module moves a validator between bonded / unbonding / unbonded (its record is rewritten in
// place: what unbonding, jailing and re-bonding do to Status); skyway reads the status in confirmHandlerCommon.
func (h *bhist) opSetStatus(v int, st int64) {
	val, err := h.in.StakingKeeper.GetValidator(h.ctx, h.vals[v])
	if err != nil {
		h.t.Fatal(err)
	}
	val.Status = map[int64]stakingtypes.BondStatus{1: stakingtypes.Unbonded, 2: stakingtypes.Unbonding, 3: stakingtypes.Bonded}[st]
	if err := h.in.StakingKeeper.SetValidator(h.ctx, val); err != nil {
		h.t.Fatal(err)
	}
	h.run.Count("op", "set-status")
	h.run.Count("status", fmt.Sprint(st))
	h.step(fmt.Sprintf("C06.BStat %d %d", v, h.statusCode(v)), 0, map[string]any{"op": "staking status", "validator": v, "status": val.Status.String()})
}

var bests = []uint64{1, 21000, 299999, 300000, 300001, 123456789}

// opEstimate: UpdateBatchGasEstimate as the end-blocker calls it (argument: the batch as iterated).
func (h *bhist) opEstimate() {
	n, ok := h.pickNonce()
	if !ok {
		return
	}
	est := bests[h.run.Rng.Intn(len(bests))]
	arg := h.stored(n)
	if arg == nil {
		return
	}
	err := h.in.SkywayKeeper.UpdateBatchGasEstimate(h.ctx, *arg, est)
	c := int64(0)
	switch {
	case err == nil:
	case strings.Contains(err.Error(), "already set"):
		c = 7
	default:
		h.t.Fatalf("UpdateBatchGasEstimate: %v", err)
	}
	h.run.Count("op", "update-estimate")
	h.run.Count("estimate-outcome", fmt.Sprint(c))
	h.step(fmt.Sprintf("C06.BUpd %d 1 %s", n, emit.ZU(est)), c, map[string]any{"op": "update-estimate", "nonce": n, "estimate": est})
}

// opEndBlock: validators send MsgEstimateBatchGas, (sometimes time passes beyond the timeout), the module's
// EndBlocker runs; what it did is read back and given to the model as BUpd / BRem steps.
func (h *bhist) opEndBlock() {
	r := h.run.Rng
	before := map[uint64]uint64{}
	var live []uint64
	for _, n := range h.nonces {
		if b := h.stored(n); b != nil {
			before[n] = b.GasEstimate
			live = append(live, n)
		}
	}
	how := "endblock:estimates"
	if r.Intn(6) == 0 {
		how = "endblock:timeout"
		h.ctx = h.ctx.WithBlockTime(h.ctx.BlockTime().Add(11 * time.Minute))
		h.in.Context = h.ctx
	} else if len(live) > 0 {
		n := live[r.Intn(len(live))]
		base := bests[r.Intn(len(bests))]
		for _, v := range r.Perm(5)[:2+r.Intn(4)] {
			_, _ = h.ms.EstimateBatchGas(h.ctx, &types.MsgEstimateBatchGas{
				Nonce: n, TokenContract: spell(r, h.token.GetAddress()), EthSigner: spell(r, common.HexToAddress(h.regAddr[v])), Estimate: base + uint64(r.Intn(3)),
				Metadata: valsettypes.MsgMetadata{Creator: h.accs[v].String(), Signers: []string{h.accs[v].String()}},
			})
		}
	}
	cc := libcons.New(h.in.ValsetKeeper.GetCurrentSnapshot, h.in.Marshaler)
	skyway.EndBlocker(h.ctx, h.in.SkywayKeeper, cc)
	h.run.Count("op", how)
	did := false
	for _, n := range live {
		b := h.stored(n)
		if b != nil && b.GasEstimate != before[n] {
			h.run.Count("endblock-effect", "estimate-elected")
			h.step(fmt.Sprintf("C06.BUpd %d 1 %s", n, emit.ZU(b.GasEstimate)), 0, map[string]any{"op": how + " -> elected estimate", "nonce": n, "estimate": b.GasEstimate})
			did = true
		}
	}
	var gone []uint64
	for _, n := range live {
		if h.stored(n) == nil {
			gone = append(gone, n)
		}
	}
	for i, n := range gone {
		h.run.Count("endblock-effect", "timed-out")
		op := fmt.Sprintf("C06.BRem %d 1", n)
		rep := map[string]any{"op": how + " -> cancelled timed-out batch", "nonce": n}
		if i+1 < len(gone) {
			rep["outcome"] = 0
			h.replay = append(h.replay, rep)
			h.steps = append(h.steps, fmt.Sprintf("C06.BStepNoObs (%s) 0", op))
		} else {
			h.step(op, 0, rep)
		}
		did = true
	}
	if !did {
		h.run.Count("endblock-effect", "nothing")
		h.replay = append(h.replay, map[string]any{"op": how})
		h.observe(how)
	}
}

func (h *bhist) opRemove() {
	n, ok := h.pickNonce()
	if !ok {
		return
	}
	var err error
	how := "cancel"
	if h.run.Rng.Intn(2) == 0 {
		err = h.in.SkywayKeeper.CancelOutgoingTXBatch(h.ctx, *h.token, n)
	} else {
		how = "executed"
		err = h.in.SkywayKeeper.OutgoingTxBatchExecuted(h.ctx, *h.token, types.MsgBatchSendToRemoteClaim{
			BatchNonce: n, EthBlockHeight: 1, TokenContract: h.token.GetAddress().Hex(), ChainReferenceId: chainName})
	}
	c := int64(0)
	if err != nil {
		if h.stored(n) != nil {
			h.t.Fatalf("%s failed on a stored batch: %v", how, err)
		}
		c = 1
	}
	h.run.Count("op", how)
	h.step(fmt.Sprintf("C06.BRem %d 1", n), c, map[string]any{"op": how, "nonce": n})
}

// opRegister: a validator replaces its external account (new key), possibly with one another validator
// holds now (collision) or held earlier (a key handed over while batches are open).
func (h *bhist) opRegister(v, key int) {
	h.registerAs(v, key, spell(h.run.Rng, h.keyAddr(key)))
}

// registerSpelled: form < 0 = checksummed.
func (h *bhist) registerSpelled(v, key, form int) {
	a := h.keyAddr(key)
	if form < 0 {
		h.registerAs(v, key, a.Hex())
		return
	}
	h.registerAs(v, key, spellForm(a, form))
}

func (h *bhist) registerAs(v, key int, written string) {
	a := h.keyAddr(key)
	err := h.in.ValsetKeeper.AddExternalChainInfo(h.ctx, h.vals[v], []*valsettypes.ExternalChainInfo{
		{ChainType: "evm", ChainReferenceID: chainName, Address: written, Pubkey: a.Bytes()}})
	c := int64(0)
	switch {
	case err == nil:
		h.regAddr[v] = lower(a)
	case strings.Contains(err.Error(), "external account already registered"):
		c = 8
	case strings.Contains(err.Error(), "cannot be a pigeon"):
		c = 11
	default:
		h.t.Fatalf("AddExternalChainInfo: %v", err)
	}
	h.run.Count("op", "register")
	h.run.Count("register-outcome", fmt.Sprint(c))
	h.step(fmt.Sprintf("C06.BReg %d [(1, %d, %d, %d)]", v, idOf(h.strIDs, written), idOf(h.keyIDs, hex.EncodeToString(a.Bytes())), idOf(h.addrIDs, lower(a))), c,
		map[string]any{"op": "register", "validator": v, "key": key, "address": written})
}

// redeployRefreshes: does the tree under test renew the open batches of a chain when the chain's compass changes?  Probed
// by the scripted scenario at the start of the run (corpus batch_compass_redeploy.json); random histories contain compass
// redeploys only if it does (without the renewal the first redeploy over an open batch ends the history with the known finding).
var redeployRefreshes bool

// opRedeploy: a new compass is activated for the chain (evm ActivateChainReferenceID, as the attestation of an uploaded
// compass does); sameID: the new deployment reports the compass id the chain already has.  The checkpoint of a batch covers
// the compass id and ConfirmBatch verifies against the id of the CURRENT compass: what the module did to the open batches
// is read back and given to the model as BRebody steps (new body, confirmations dropped).
func (h *bhist) opRedeploy(sameID bool) {
	newTid := h.tid
	h.scID++
	if !sameID {
		newTid = fmt.Sprintf("compass-%d-%s", h.scID, chainName)
	}
	if err := h.in.EvmKeeper.ActivateChainReferenceID(h.ctx, chainName, &evmtypes.SmartContract{Id: h.scID}, "0x5A3E98aA540B2C3545E1DbA2D5e8B3e3e8bD3c7e", []byte(newTid)); err != nil {
		h.t.Fatalf("ActivateChainReferenceID: %v", err)
	}
	ci, err := h.in.EvmKeeper.GetChainInfo(h.ctx, chainName)
	if err != nil || string(ci.SmartContractUniqueID) != newTid {
		h.t.Fatalf("compass id after activation: %q %v", ci.GetSmartContractUniqueID(), err)
	}
	h.tid = newTid
	how := "compass-redeploy"
	if sameID {
		how = "compass-reactivated-same-id"
	}
	h.run.Count("op", how)
	var changed []uint64
	stale, kept := uint64(0), 0
	for _, n := range h.nonces {
		b := h.stored(n)
		if b == nil {
			continue
		}
		cp, err := b.GetCheckpoint(h.tid)
		if err != nil {
			h.t.Fatal(err)
		}
		if hex.EncodeToString(cp) != hex.EncodeToString(b.BytesToSign) {
			stale = n
			cs, _ := h.in.SkywayKeeper.GetBatchConfirmByNonceAndTokenContract(h.ctx, n, *h.token)
			kept += len(cs)
		}
		if vs := h.vers[n]; len(vs) > 0 && vs[len(vs)-1].coq != h.versionOf(b).coq {
			changed = append(changed, n)
		}
	}
	if stale != 0 {
		h.run.Count("redeploy-effect", "open batches left with the old compass id")
		h.replay = append(h.replay, map[string]any{"op": how, "compass_id": newTid})
		h.violate("C06:compass-redeploy-keeps-open-batch-confirms", fmt.Sprintf("after %s: batch %d still stores the bytes to sign of the previous compass (ConfirmBatch now verifies against the checkpoint with compass id %q) and the open batches keep %d confirmation(s) that do not verify against it", how, stale, newTid, kept))
		h.dead = true
		return
	}
	if len(changed) == 0 {
		h.run.Count("redeploy-effect", "nothing")
		h.replay = append(h.replay, map[string]any{"op": how, "compass_id": newTid})
		h.observe(how)
		return
	}
	for i, n := range changed {
		h.run.Count("redeploy-effect", "open batch renewed")
		op := fmt.Sprintf("C06.BRbd %d 1 %d", n, idOf(h.bodyIDs, bodyOf(h.stored(n), h.tid)))
		rep := map[string]any{"op": how + " -> batch renewed", "compass_id": newTid, "nonce": n}
		h.stepObs(op, 0, rep, i+1 == len(changed))
	}
	h.noteVersions()
}

func (h *bhist) finish() {
	h.run.Case("C06.CBatch "+emit.List(h.steps), h.okOps > 0 && h.rejOps > 0, map[string]any{"part": "batch", "steps": len(h.steps)})
}

// handover: validator a confirms, moves to a fresh key, validator b takes a's old key and confirms the same batch.
func (h *bhist) opHandover() {
	r := h.run.Rng
	a := r.Intn(len(h.accs))
	b := (a + 1 + r.Intn(len(h.accs)-1)) % len(h.accs)
	old := -1
	for i := range h.keys {
		if lower(h.keyAddr(i)) == h.regAddr[a] {
			old = i
		}
	}
	if old < 0 {
		return
	}
	h.run.Count("op", "key-handover")
	h.opRegister(a, 5+r.Intn(4))
	h.opRegister(b, old)
}

func runBatchHistory(t *testing.T, run *emit.Run) *bhist {
	h := newBHist(t, run)
	r := run.Rng
	h.opBuild()
	n := 12 + r.Intn(14)
	for i := 0; i < n && !h.dead; i++ {
		switch k := r.Intn(100); {
		case k < 10:
			h.opBuild()
		case k < 55:
			h.opConfirm()
		case k < 58:
			h.opSetStatus(r.Intn(len(h.accs)), []int64{3, 3, 2, 1}[r.Intn(4)])
		case k < 60:
			if redeployRefreshes {
				h.opRedeploy(r.Intn(4) == 0)
			} else {
				h.opConfirm()
			}
		case k < 70:
			h.opEstimate()
		case k < 80:
			h.opEndBlock()
		case k < 86:
			h.opRegister(r.Intn(len(h.accs)), r.Intn(len(h.keys)))
		case k < 94:
			h.opHandover()
		default:
			h.opRemove()
		}
	}
	h.finish()
	return h
}

// runBigSetHistory: a validator set of more than a hundred (keeper.SetupFiveValChain + 97..104 validators created through
// the staking msg server, MaxValidators raised accordingly).  One batch; every validator confirms it through the real msg
// server (a few with the drawn variants unless scripted); the five validators of the snapshot send gas estimates and the
// module's EndBlocker elects one: UpdateBatchGasEstimate recomputes the checkpoint and has to delete ALL confirmations;
// some validators confirm the new checkpoint; a second batch is confirmed by everybody and cancelled.  The store is
// projected / the oracle evaluated every 25 confirmations and after each of the other steps.
func runBigSetHistory(t *testing.T, run *emit.Run, scripted bool) *bhist {
	r := run.Rng
	extra := 97 + r.Intn(8)
	h := newBHistN(t, run, extra)
	nv := len(h.accs)
	run.Count("big-set", fmt.Sprintf("validators=%d", nv))
	if !scripted {
		// some validators are on their way out: unbonding ones may still confirm, unbonded ones may not
		for _, v := range r.Perm(nv)[:3] {
			h.opSetStatus(v, []int64{2, 2, 1}[r.Intn(3)])
		}
	}
	late := map[int]bool{}
	confirmAll := func(n uint64) {
		for i, v := range r.Perm(nv) {
			if late[v] {
				continue
			}
			h.confirmAs(v, n, scripted || r.Intn(12) > 0, i%25 == 24 || i == nv-1)
		}
	}
	elect := func(n uint64) {
		before := h.stored(n).GasEstimate
		for v := 0; v < 5; v++ {
			_, _ = h.ms.EstimateBatchGas(h.ctx, &types.MsgEstimateBatchGas{
				Nonce: n, TokenContract: h.token.GetAddress().Hex(), EthSigner: common.HexToAddress(h.regAddr[v]).Hex(), Estimate: 21000 + uint64(v%2),
				Metadata: valsettypes.MsgMetadata{Creator: h.accs[v].String(), Signers: []string{h.accs[v].String()}},
			})
		}
		cc := libcons.New(h.in.ValsetKeeper.GetCurrentSnapshot, h.in.Marshaler)
		skyway.EndBlocker(h.ctx, h.in.SkywayKeeper, cc)
		b := h.stored(n)
		if b == nil || b.GasEstimate == before {
			h.run.Count("big-set", "estimate NOT elected")
			h.replay = append(h.replay, map[string]any{"op": "endblock:estimates (nothing elected)"})
			h.observe("endblock:estimates")
			return
		}
		h.run.Count("big-set", "estimate elected over >100 confirmations")
		h.run.Count("op", "endblock:estimates")
		h.step(fmt.Sprintf("C06.BUpd %d 1 %s", n, emit.ZU(b.GasEstimate)), 0, map[string]any{"op": "endblock:estimates -> elected estimate", "nonce": n, "estimate": b.GasEstimate})
	}
	h.opBuild()
	n1 := h.nonces[0]
	confirmAll(n1)
	elect(n1)
	// the new checkpoint is confirmed: by validators of both ends of the orchestrator address order and a few others
	byAddr := r.Perm(nv)
	sort.Slice(byAddr, func(i, j int) bool { return string(h.accs[byAddr[i]]) < string(h.accs[byAddr[j]]) })
	again := []int{byAddr[0], byAddr[1], byAddr[nv-1], byAddr[nv-2], byAddr[nv-3]}
	again = append(again, r.Perm(nv)[:4]...)
	for _, v := range again {
		h.confirmAs(v, n1, true, true)
	}
	h.opBuild()
	n2 := h.nonces[1]
	// four validators are late; meanwhile four others, spread over the orchestrator address order (first, middle, last
	// and one beyond the hundredth), confirm and then hand their keys over to the late ones, who try to confirm with them:
	// a key confirms a batch once, wherever its confirmation sits in the store
	lateVals := []int{byAddr[2], byAddr[nv/3], byAddr[nv-4], byAddr[nv/2+1]}
	for _, v := range lateVals {
		late[v] = true
	}
	confirmAll(n2)
	for i, a := range []int{byAddr[0], byAddr[nv/2], byAddr[nv-1], byAddr[100]} {
		b := lateVals[i]
		old := -1
		for k := range h.keys {
			if lower(h.keyAddr(k)) == h.regAddr[a] {
				old = k
			}
		}
		if old < 0 {
			continue
		}
		h.run.Count("op", "key-handover")
		h.opRegister(a, 5+i)
		h.opRegister(b, old)
		h.confirmAs(b, n2, true, true)
	}
	h.run.Count("op", "cancel")
	err := h.in.SkywayKeeper.CancelOutgoingTXBatch(h.ctx, *h.token, n2)
	if err != nil {
		t.Fatalf("CancelOutgoingTXBatch: %v", err)
	}
	h.step(fmt.Sprintf("C06.BRem %d 1", n2), 0, map[string]any{"op": "cancel", "nonce": n2})
	for _, v := range again[:3] {
		h.confirmAs(v, n2, true, true)
	}
	h.finish()
	return h
}
