package c06

import (
	"encoding/hex"
	"encoding/json"
	"fmt"
	"os"
	"path/filepath"
	"sort"
	"strings"
	"testing"

	sdkmath "cosmossdk.io/math"
	"github.com/ethereum/go-ethereum/common"
	"github.com/ethereum/go-ethereum/crypto"
	"github.com/palomachain/paloma/v2/verifharness/emit"
	"github.com/palomachain/paloma/v2/x/consensus/keeper/consensus"
	consensustypes "github.com/palomachain/paloma/v2/x/consensus/types"
	evmkeeper "github.com/palomachain/paloma/v2/x/evm/keeper"
	evmtypes "github.com/palomachain/paloma/v2/x/evm/types"
	"github.com/palomachain/paloma/v2/x/skyway/keeper"
	"github.com/palomachain/paloma/v2/x/skyway/types"
	treasurytypes "github.com/palomachain/paloma/v2/x/treasury/types"
	valsettypes "github.com/palomachain/paloma/v2/x/valset/types"
)

type corpusEntry struct {
	Scenario string `json:"scenario"`
	Note     string `json:"note"`
}

// replayCorpus runs the minimised past failures first (harness/corpus/C06/*.json).
func replayCorpus(t *testing.T, run *emit.Run) {
	files, _ := filepath.Glob("../corpus/C06/*.json")
	sort.Strings(files)
	for _, f := range files {
		raw, err := os.ReadFile(f)
		if err != nil {
			t.Fatal(err)
		}
		var e corpusEntry
		if err := json.Unmarshal(raw, &e); err != nil {
			t.Fatalf("%s: %v", f, err)
		}
		run.Count("corpus", e.Scenario)
		switch e.Scenario {
		case "batch-key-handover":
			scriptedKeyHandover(t, run, -1, -1)
		case "batch-key-handover-respelled":
			// the released key comes back under every accepted spelling of its address
			for form := 0; form < nSpellings; form++ {
				scriptedKeyHandover(t, run, form, (form*5+3)%nSpellings)
			}
		case "queue-key-of-another-chain":
			scriptedKeyOfAnotherChain(t, run, true)
			scriptedKeyOfAnotherChain(t, run, false)
		case "queue-pubkey-encoding-alias":
			scriptedPubkeyAlias(t, run, false)
			scriptedPubkeyAlias(t, run, true)
		case "queue-valset-republished-same-members":
			scriptedValsetRepublish(t, run)
		case "queue-compass-upgrade-over-signed-message":
			scriptedCompassUpgradeOverSigned(t, run)
		case "queue-fees-attached-after-election":
			scriptedLateFees(t, run)
		case "batch-compass-redeploy":
			scriptedRedeploy(t, run)
		case "batch-two-chains-compass-redeploy":
			runTwoChainHistory(t, run, true)
		case "batch-released-key-before-next-snapshot":
			scriptedReleasedKey(t, run)
		case "batch-late-activation-of-older-compass":
			scriptedLateActivation(t, run)
		case "batch-more-than-100-confirms":
			runBigSetHistory(t, run, true)
		default:
			t.Fatalf("%s: unknown scenario %q", f, e.Scenario)
		}
	}
}

// scriptedKeyHandover: validator 0 confirms a batch with its key, moves to a fresh key, validator 1
// registers validator 0's old key and confirms the SAME batch with it.  The batch must not end up with
// two confirmations by one eth key.  Recorded as a model case as well.
//
// regForm / confForm < 0: checksummed everywhere; otherwise validator 1 registers the key in spelling
// regForm and names it in spelling confForm in its confirmation.
func scriptedKeyHandover(t *testing.T, run *emit.Run, regForm, confForm int) {
	h := newBHist(t, run)
	h.opBuild()
	n := h.nonces[0]
	confirm := func(v, key, form int) {
		ver := h.vers[n][len(h.vers[n])-1]
		sgb, err := types.NewEthereumSignature(ver.cp, h.keys[key])
		if err != nil {
			t.Fatal(err)
		}
		sig := hex.EncodeToString(sgb)
		a := h.keyAddr(key)
		written := a.Hex()
		if form >= 0 {
			written = spellForm(a, form)
		}
		_, err = h.ms.ConfirmBatch(h.ctx, &types.MsgConfirmBatch{
			Nonce: n, TokenContract: h.token.GetAddress().Hex(), EthSigner: written, Orchestrator: keeper.AccAddrs[v].String(), Signature: sig,
			Metadata: valsettypes.MsgMetadata{Creator: keeper.AccAddrs[v].String(), Signers: []string{keeper.AccAddrs[v].String()}},
		})
		c := confirmClass(err)
		if c == 50 {
			t.Fatalf("ConfirmBatch: %v", err)
		}
		if err == nil {
			h.regAt[fmt.Sprintf("%d/%d", n, v)] = h.regAddr[v]
		}
		h.step(fmt.Sprintf("C06.BCnf %d %d 1 %d (C06.COver %d %s)", v, n, idOf(h.addrIDs, lower(a)), idOf(h.addrIDs, lower(a)), ver.coq), c,
			map[string]any{"op": "confirm", "validator": v, "nonce": n, "eth_signer": written, "signing_key": key, "signed": "current", "signature": sig})
	}
	confirm(0, 0, -1)
	h.opRegister(0, 5)
	h.registerSpelled(1, 0, regForm)
	confirm(1, 0, confForm)
	h.finish()
}

// scriptedReassignWitness replays the witness of Properties.C06.reassign_keeps_stale_sigs on the real
// keeper: a signed logic call is moved to another relayer with ReassignValidator (via the verif hook);
// its stored signature then no longer verifies.  A violation only if the function has a production caller.
func scriptedReassignWitness(t *testing.T, run *emit.Run) {
	h := newQHist(t, run)
	h.latent = true
	h.opRegister(0, []acctRow{h.row(qchains[0], 0)})
	chain := qchains[0]
	em := &evmtypes.Message{ChainReferenceID: chain, TurnstoneID: "compass-" + chain, Assignee: h.e.vals[0].String(), AssigneeRemoteAddress: h.keyAddr(0).Hex(),
		Action: &evmtypes.Message_SubmitLogicCall{SubmitLogicCall: &evmtypes.SubmitLogicCall{HexContractAddress: "0x0000000000000000000000000000000000000001",
			Payload: []byte{7}, SenderAddress: []byte("alice"), Deadline: 1700001000}}}
	id, err := h.e.cons.PutMessageInQueue(h.e.ctx, turnstoneQueue(chain), em, &consensus.PutOptions{RequireSignatures: true})
	if err != nil {
		t.Fatal(err)
	}
	h.items = append(h.items, id)
	h.chainOf[id] = chain
	h.noteVersions()
	ver := h.vers[id][0]
	sig, err := crypto.Sign(crypto.Keccak256(append([]byte(evmkeeper.SignaturePrefix), ver.bytes...)), h.keys[0])
	if err != nil {
		t.Fatal(err)
	}
	if err := h.e.cons.AddMessageSignature(h.e.ctx, h.e.vals[0], []*consensustypes.ConsensusMessageSignature{
		{Id: id, QueueTypeName: turnstoneQueue(chain), Signature: sig, SignedByAddress: h.reg[0][0].addr}}); err != nil {
		t.Fatalf("witness: signature refused: %v", err)
	}
	h.regAt[fmt.Sprintf("%d/%d", id, 0)] = hex.EncodeToString(h.reg[0][0].key)
	h.replay = append(h.replay, map[string]any{"op": "witness: register, put logic call, validator 0 signs"})
	h.observe("witness: sign")
	if h.viol {
		return
	}
	if err := h.e.cons.VerifReassignMessageValidator(h.e.ctx, h.e.vals[1].String(), h.keyAddr(3).Hex(), id, turnstoneQueue(chain)); err != nil {
		t.Fatalf("witness: reassign: %v", err)
	}
	h.moved = map[uint64]bool{id: true}
	h.replay = append(h.replay, map[string]any{"op": "witness: ReassignValidator to validator 1 / another relayer address"})
	h.observe("witness: reassign")
	if !h.viol {
		run.Count("latent-reassign", "NOT reproduced")
	}
}

// scriptedKeyOfAnotherChain: validator 0 uses one key on both chains, then rotates the key of chain-b only
// (rotated) or drops its chain-b account altogether (!rotated); a chain-b message is then signed with the
// chain-a key and submitted under the chain-a account's address.  GetSigningKey must not find a key:
// the validator has not registered that key for chain-b.  Recorded as a model case as well; the oracle
// compares what is stored with what the harness registered.
func scriptedKeyOfAnotherChain(t *testing.T, run *emit.Run, rotated bool) {
	h := newQHist(t, run)
	a := h.keyAddr(0)
	rowA := acctRow{chain: qchains[0], addr: a.Hex(), key: a.Bytes()}
	h.opRegister(0, []acctRow{rowA, {chain: qchains[1], addr: a.Hex(), key: a.Bytes()}})
	h.opRegister(1, []acctRow{h.row(qchains[0], 1), h.row(qchains[1], 1)})
	rows := []acctRow{rowA}
	if rotated {
		n := h.keyAddr(4)
		rows = append(rows, acctRow{chain: qchains[1], addr: n.Hex(), key: n.Bytes()})
	}
	h.opRegister(0, rows)
	chain := qchains[1]
	em := &evmtypes.Message{ChainReferenceID: chain, TurnstoneID: "compass-" + chain, Assignee: h.e.vals[1].String(), AssigneeRemoteAddress: h.keyAddr(1).Hex(),
		Action: &evmtypes.Message_SubmitLogicCall{SubmitLogicCall: &evmtypes.SubmitLogicCall{HexContractAddress: "0x0000000000000000000000000000000000000001",
			Payload: []byte{9}, SenderAddress: []byte("alice"), Deadline: 1700001000}}}
	kind, body, _ := describe(em)
	id, err := h.e.cons.PutMessageInQueue(h.e.ctx, turnstoneQueue(chain), em, &consensus.PutOptions{RequireSignatures: true})
	if err != nil {
		t.Fatal(err)
	}
	h.items = append(h.items, id)
	h.chainOf[id] = chain
	h.step(fmt.Sprintf("C06.QPut %d %d %d %d false", qchainID(chain), kind, idOf(h.bodyIDs, body), idOf(h.relIDs, lowerOf(em.AssigneeRemoteAddress))), 0,
		map[string]any{"op": "put", "chain": chain, "kind": kind, "id": id, "needs_estimate": false, "relayer": em.AssigneeRemoteAddress, "payload": "09"})
	ver := h.vers[id][len(h.vers[id])-1]
	sign := func(v, key int, addr string) {
		sig, err := crypto.Sign(crypto.Keccak256(append([]byte(evmkeeper.SignaturePrefix), ver.bytes...)), h.keys[key])
		if err != nil {
			t.Fatal(err)
		}
		regNow, found := h.registeredKey(v, chain, addr)
		err = h.e.cons.AddMessageSignature(h.e.ctx, h.e.vals[v], []*consensustypes.ConsensusMessageSignature{
			{Id: id, QueueTypeName: turnstoneQueue(chain), Signature: sig, SignedByAddress: addr}})
		c := classOf(err)
		if c == 50 {
			t.Fatalf("AddMessageSignature: %v", err)
		}
		if err == nil {
			h.regAt[fmt.Sprintf("%d/%d", id, v)] = hex.EncodeToString(regNow)
			if !found {
				h.regAt[fmt.Sprintf("%d/%d", id, v)] = "(validator has no account " + addr + " registered for " + chain + ")"
			}
		}
		h.step(fmt.Sprintf("C06.QSign %d %d %d %d (C06.SOver %d %s)", v, qchainID(chain), id, idOf(h.addrIDs, addr),
			h.ethID(h.keyAddr(key)), ver.coq), c,
			map[string]any{"op": "sign", "validator": v, "chain": chain, "id": id, "named_address": addr, "signing_key": key, "signed": "current",
				"bytes": hex.EncodeToString(ver.bytes), "signature": hex.EncodeToString(sig)})
	}
	sign(0, 0, a.Hex()) // the key / account validator 0 has registered for chain-a only
	if rotated {
		sign(0, 4, h.keyAddr(4).Hex()) // the key it has registered for chain-b
	}
	sign(1, 1, h.reg[1][1].addr)
	h.finish()
}

// scriptedPubkeyAlias replays the witness of Properties.C06.key_unique_up_to_encoding_refuted on the real keepers: two
// validators hold ONE EVM key at the same time (handover = false: validator 1 registers it under another spelling of the
// address and a left-padded Pubkey blob while validator 0 still has it; handover = true: validator 0 has moved to a fresh
// key in between) and both sign the same message with it.
func scriptedPubkeyAlias(t *testing.T, run *emit.Run, handover bool) {
	h := newQHist(t, run)
	chain := qchains[0]
	a := h.keyAddr(0)
	h.opRegister(0, []acctRow{{chain: chain, addr: a.Hex(), key: a.Bytes()}})
	em := &evmtypes.Message{ChainReferenceID: chain, TurnstoneID: "compass-" + chain, Assignee: h.e.vals[2].String(), AssigneeRemoteAddress: h.keyAddr(2).Hex(),
		Action: &evmtypes.Message_SubmitLogicCall{SubmitLogicCall: &evmtypes.SubmitLogicCall{HexContractAddress: "0x0000000000000000000000000000000000000001",
			Payload: []byte{5}, SenderAddress: []byte("alice"), Deadline: 1700001000}}}
	kind, body, _ := describe(em)
	id, err := h.e.cons.PutMessageInQueue(h.e.ctx, turnstoneQueue(chain), em, &consensus.PutOptions{RequireSignatures: true})
	if err != nil {
		t.Fatal(err)
	}
	h.items = append(h.items, id)
	h.chainOf[id] = chain
	h.step(fmt.Sprintf("C06.QPut %d %d %d %d false", qchainID(chain), kind, idOf(h.bodyIDs, body), idOf(h.relIDs, lowerOf(em.AssigneeRemoteAddress))), 0,
		map[string]any{"op": "put", "chain": chain, "kind": kind, "id": id, "needs_estimate": false, "relayer": em.AssigneeRemoteAddress, "payload": "05"})
	ver := h.vers[id][len(h.vers[id])-1]
	sign := func(v int, addr string) {
		sig, err := crypto.Sign(crypto.Keccak256(append([]byte(evmkeeper.SignaturePrefix), ver.bytes...)), h.keys[0])
		if err != nil {
			t.Fatal(err)
		}
		regNow, found := h.registeredKey(v, chain, addr)
		err = h.e.cons.AddMessageSignature(h.e.ctx, h.e.vals[v], []*consensustypes.ConsensusMessageSignature{
			{Id: id, QueueTypeName: turnstoneQueue(chain), Signature: sig, SignedByAddress: addr}})
		c := classOf(err)
		if c == 50 {
			t.Fatalf("AddMessageSignature: %v", err)
		}
		if err == nil && found {
			h.regAt[fmt.Sprintf("%d/%d", id, v)] = hex.EncodeToString(regNow)
		}
		h.step(fmt.Sprintf("C06.QSign %d %d %d %d (C06.SOver %d %s)", v, qchainID(chain), id, idOf(h.addrIDs, addr), h.ethID(a), ver.coq), c,
			map[string]any{"op": "sign", "validator": v, "chain": chain, "id": id, "named_address": addr, "signing_key": 0, "signed": "current",
				"bytes": hex.EncodeToString(ver.bytes), "signature": hex.EncodeToString(sig)})
	}
	sign(0, a.Hex())
	if handover {
		n := h.keyAddr(4)
		h.opRegister(0, []acctRow{{chain: chain, addr: n.Hex(), key: n.Bytes()}})
	}
	other := strings.ToLower(a.Hex())
	h.opRegister(1, []acctRow{{chain: chain, addr: other, key: append(make([]byte, 12), a.Bytes()...)}})
	sign(1, other)
	h.finish()
}

// scriptedRedeploy: a batch is open and confirmed by two validators when a new compass (another compass id) is activated
// for its chain.  The checkpoint covers the compass id and ConfirmBatch verifies against the current one: the module has to
// renew the batch's bytes to sign and drop the confirmations (BRebody in the model).  On a tree that does not, the history
// ends with the known finding C06:compass-redeploy-keeps-open-batch-confirms; on one that does, a confirmation over the old
// checkpoint is refused, confirmations over the new one are accepted, and the probe result switches compass redeploys on in
// the generated histories.
func scriptedRedeploy(t *testing.T, run *emit.Run) {
	h := newBHist(t, run)
	h.opBuild()
	n := h.nonces[0]
	h.confirmAs(0, n, true, true)
	h.confirmAs(1, n, true, true)
	old := h.vers[n][len(h.vers[n])-1]
	h.opRedeploy(true) // same compass id again: nothing may change
	if len(h.vers[n]) != 1 {
		t.Fatalf("re-activation with the same compass id changed the batch")
	}
	h.opRedeploy(false)
	redeployRefreshes = !h.dead
	run.Count("redeploy-probe", fmt.Sprintf("open batches renewed: %v", redeployRefreshes))
	if !h.dead {
		// validator 2 still signs the old checkpoint (refused), then the new one; validator 0 confirms again
		sgb, err := types.NewEthereumSignature(old.cp, h.keys[2])
		if err != nil {
			t.Fatal(err)
		}
		_, err = h.ms.ConfirmBatch(h.ctx, &types.MsgConfirmBatch{
			Nonce: n, TokenContract: h.token.GetAddress().Hex(), EthSigner: h.keyAddr(2).Hex(), Orchestrator: h.accs[2].String(), Signature: hex.EncodeToString(sgb),
			Metadata: valsettypes.MsgMetadata{Creator: h.accs[2].String(), Signers: []string{h.accs[2].String()}},
		})
		c := confirmClass(err)
		if c == 50 {
			t.Fatalf("ConfirmBatch: %v", err)
		}
		if err == nil {
			h.regAt[fmt.Sprintf("%d/%d", n, 2)] = h.regAddr[2]
		}
		a := h.keyAddr(2)
		h.step(fmt.Sprintf("C06.BCnf 2 %d 1 %d (C06.COver %d %s)", n, idOf(h.addrIDs, lower(a)), idOf(h.addrIDs, lower(a)), old.coq), c,
			map[string]any{"op": "confirm", "validator": 2, "nonce": n, "signed": "checkpoint of the previous compass", "signature": hex.EncodeToString(sgb)})
		h.confirmAs(2, n, true, true)
		h.confirmAs(0, n, true, true)
	}
	h.finish()
}

// scriptedValsetRepublish (seeded C06-G): a valset update is published and signed by two validators; a validator adds a
// trait to an account, so a new snapshot with a new id and the SAME members and powers is built and published.  The valset
// id is part of the update's signing bytes: the pending update must not keep the signatures given for the old id
// (SendValsetMsgForChain deletes it and queues a fresh one); the validators sign the new one.
func scriptedValsetRepublish(t *testing.T, run *emit.Run) {
	h := newQHist(t, run)
	chain := qchains[0]
	for v := 0; v < nVals; v++ {
		a := h.keyAddr(v)
		h.opRegister(v, []acctRow{{chain: chain, addr: a.Hex(), key: a.Bytes()}})
	}
	h.opPublish(true)
	signAll := func() {
		var id uint64
		for _, iv := range h.allItems() {
			if k, _, _ := describe(iv.em); k == 1 && iv.chain == chain {
				id = iv.id
			}
		}
		if id == 0 {
			run.Count("valset-republish", "no valset update in the queue")
			return
		}
		ver := h.vers[id][len(h.vers[id])-1]
		for v := 0; v < 2; v++ {
			sig, err := crypto.Sign(crypto.Keccak256(append([]byte(evmkeeper.SignaturePrefix), ver.bytes...)), h.keys[v])
			if err != nil {
				t.Fatal(err)
			}
			addr := h.reg[v][0].addr
			err = h.e.cons.AddMessageSignature(h.e.ctx, h.e.vals[v], []*consensustypes.ConsensusMessageSignature{
				{Id: id, QueueTypeName: turnstoneQueue(chain), Signature: sig, SignedByAddress: addr}})
			c := classOf(err)
			if c == 50 {
				t.Fatalf("AddMessageSignature: %v", err)
			}
			if err == nil {
				h.regAt[fmt.Sprintf("%d/%d", id, v)] = hex.EncodeToString(h.reg[v][0].key)
			}
			h.step(fmt.Sprintf("C06.QSign %d %d %d %d (C06.SOver %d %s)", v, qchainID(chain), id, idOf(h.addrIDs, addr), h.ethID(h.keyAddr(v)), ver.coq), c,
				map[string]any{"op": "sign", "validator": v, "chain": chain, "id": id, "named_address": addr, "signing_key": v, "signed": "current (pending valset update)",
					"bytes": hex.EncodeToString(ver.bytes), "signature": hex.EncodeToString(sig)})
		}
	}
	signAll()
	h.opPublish(true) // same members and powers, new snapshot id
	signAll()
	h.finish()
}

// scriptedReleasedKey (seeded C06-E): validator 0 replaces its account (new key) while a batch is open; no valset snapshot
// is built afterwards.  A confirmation signed with the RELEASED key and naming its address must be refused (the key
// registered to the validator is the new one), one with the new key accepted.
func scriptedReleasedKey(t *testing.T, run *emit.Run) {
	h := newBHist(t, run)
	h.opBuild()
	n := h.nonces[0]
	h.opRegister(0, 5)
	old := h.prevAddr[0]
	ver := h.vers[n][len(h.vers[n])-1]
	sgb, err := types.NewEthereumSignature(ver.cp, h.keys[0])
	if err != nil {
		t.Fatal(err)
	}
	_, err = h.ms.ConfirmBatch(h.ctx, &types.MsgConfirmBatch{
		Nonce: n, TokenContract: h.token.GetAddress().Hex(), EthSigner: h.keyAddr(0).Hex(), Orchestrator: h.accs[0].String(), Signature: hex.EncodeToString(sgb),
		Metadata: valsettypes.MsgMetadata{Creator: h.accs[0].String(), Signers: []string{h.accs[0].String()}},
	})
	c := confirmClass(err)
	if c == 50 {
		t.Fatalf("ConfirmBatch: %v", err)
	}
	if err == nil {
		h.regAt[fmt.Sprintf("%d/%d", n, 0)] = h.regAddr[0]
	}
	h.step(fmt.Sprintf("C06.BCnf 0 %d 1 %d (C06.COver %d %s)", n, idOf(h.addrIDs, old), idOf(h.addrIDs, old), ver.coq), c,
		map[string]any{"op": "confirm", "validator": 0, "nonce": n, "eth_signer": h.keyAddr(0).Hex(), "signed": "current, with the key released by the re-registration", "signature": hex.EncodeToString(sgb)})
	h.confirmAs(0, n, true, true)
	h.finish()
}

// scriptPutLogicCall / scriptSign: explicit steps for the scripted queue scenarios.
func (h *qhist) scriptPutLogicCall(chain string, assignee int, needs bool, payload byte) uint64 {
	em := &evmtypes.Message{ChainReferenceID: chain, TurnstoneID: h.tidOf(chain), Assignee: h.e.vals[assignee].String(), AssigneeRemoteAddress: h.keyAddr(assignee).Hex(),
		Action: &evmtypes.Message_SubmitLogicCall{SubmitLogicCall: &evmtypes.SubmitLogicCall{HexContractAddress: "0x0000000000000000000000000000000000000001",
			Payload: []byte{payload}, SenderAddress: []byte("alice"), Deadline: 1700001000}}}
	kind, body, _ := describe(em)
	id, err := h.e.cons.PutMessageInQueue(h.e.ctx, turnstoneQueue(chain), em, &consensus.PutOptions{RequireSignatures: true, RequireGasEstimation: needs})
	if err != nil {
		h.t.Fatal(err)
	}
	h.items = append(h.items, id)
	h.chainOf[id] = chain
	h.step(fmt.Sprintf("C06.QPut %d %d %d %d %s", qchainID(chain), kind, idOf(h.bodyIDs, body), idOf(h.relIDs, lowerOf(em.AssigneeRemoteAddress)), emit.Bool(needs)), 0,
		map[string]any{"op": "put", "chain": chain, "kind": kind, "id": id, "needs_estimate": needs, "relayer": em.AssigneeRemoteAddress})
	return id
}

func (h *qhist) scriptSign(v int, id uint64, chain string) {
	ver := h.vers[id][len(h.vers[id])-1]
	row := h.reg[v][0]
	key := -1
	for i := range h.keys {
		if h.keyAddr(i) == common.BytesToAddress(row.key) {
			key = i
		}
	}
	sig, err := crypto.Sign(crypto.Keccak256(append([]byte(evmkeeper.SignaturePrefix), ver.bytes...)), h.keys[key])
	if err != nil {
		h.t.Fatal(err)
	}
	err = h.e.cons.AddMessageSignature(h.e.ctx, h.e.vals[v], []*consensustypes.ConsensusMessageSignature{
		{Id: id, QueueTypeName: turnstoneQueue(chain), Signature: sig, SignedByAddress: row.addr}})
	c := classOf(err)
	if c == 50 {
		h.t.Fatalf("AddMessageSignature: %v", err)
	}
	if err == nil {
		h.regAt[fmt.Sprintf("%d/%d", id, v)] = hex.EncodeToString(row.key)
	}
	h.step(fmt.Sprintf("C06.QSign %d %d %d %d (C06.SOver %d %s)", v, qchainID(chain), id, idOf(h.addrIDs, row.addr), h.ethID(h.keyAddr(key)), ver.coq), c,
		map[string]any{"op": "sign", "validator": v, "chain": chain, "id": id, "named_address": row.addr, "signing_key": key, "signed": "current",
			"bytes": hex.EncodeToString(ver.bytes), "signature": hex.EncodeToString(sig)})
}

func (h *qhist) scriptRegisterAll(chain string) {
	for v := 0; v < nVals; v++ {
		a := h.keyAddr(v)
		h.opRegister(v, []acctRow{{chain: chain, addr: a.Hex(), key: a.Bytes()}})
	}
}

// scriptedCompassUpgradeOverSigned (seeded C06-K): a logic call queued for compass A is signed by two validators; compass B
// (another unique id) is activated for the chain.  The compass id is hashed into the call's signing bytes: if evm moves the
// call over to the new compass, nothing signed for A may stay on it.
func scriptedCompassUpgradeOverSigned(t *testing.T, run *emit.Run) {
	h := newQHist(t, run)
	chain := qchains[0]
	h.scriptRegisterAll(chain)
	id := h.scriptPutLogicCall(chain, 2, false, 3)
	h.scriptSign(0, id, chain)
	h.scriptSign(1, id, chain)
	h.opCompassUpgradeOn(chain)
	h.scriptSign(3, id, chain)
	h.finish()
}

// scriptedLateFees (seeded C06-M): the assignee of a fee paying message has withdrawn its relayer fee when the gas estimates
// reach consensus (the fees cannot be calculated: the election is rolled back as a whole); a validator signs; the fee
// setting comes back and the end-blocker runs again.  Whenever the fees get attached, no signature given before may stay.
func scriptedLateFees(t *testing.T, run *emit.Run) {
	h := newQHist(t, run)
	chain := qchains[0]
	h.scriptRegisterAll(chain)
	setFee := func(v int, on bool) {
		rfs := &treasurytypes.RelayerFeeSetting{ValAddress: h.e.vals[v].String()}
		mult := sdkmath.LegacyZeroDec()
		if on {
			mult = sdkmath.LegacyNewDecWithPrec(150, 2)
		}
		for _, c := range qchains {
			rfs.Fees = append(rfs.Fees, treasurytypes.RelayerFeeSetting_FeeSetting{ChainReferenceId: c, Multiplicator: mult})
		}
		if err := h.e.tre.SetRelayerFee(h.e.ctx, h.e.vals[v], rfs); err != nil {
			t.Fatal(err)
		}
		h.replay = append(h.replay, map[string]any{"op": "relayer fee setting", "validator": v, "usable": on})
	}
	setFee(2, false)
	id := h.scriptPutLogicCall(chain, 2, true, 4)
	for v := 0; v < nVals; v++ {
		h.opEstimate(id, chain, v, 21000)
	}
	h.opEndBlock()
	h.scriptSign(0, id, chain)
	h.scriptSign(1, id, chain)
	setFee(2, true)
	h.opEndBlock()
	h.opEndBlock()
	h.scriptSign(3, id, chain)
	h.finish()
}

// scriptedLateActivation (seeded C06-S): compass 2 is active, a batch is open and confirmed; the activation of the older
// compass deployment (contract id 1, another unique id) is processed late.  Nothing may move.
func scriptedLateActivation(t *testing.T, run *emit.Run) {
	h := newBHist(t, run)
	h.opRedeploy(false)
	if h.dead {
		h.finish()
		return
	}
	h.opBuild()
	n := h.nonces[0]
	h.confirmAs(0, n, true, true)
	h.confirmAs(1, n, true, true)
	h.opLateActivation(false)
	if !h.dead {
		h.confirmAs(2, n, true, true)
	}
	h.finish()
}
