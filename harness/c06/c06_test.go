// Package c06 is the correspondence harness and direct oracle of property C06: every stored
// signature is valid for the message / batch as it currently stands.
package c06

import (
	"go/ast"
	"go/parser"
	"go/token"
	"io/fs"
	"math/rand"
	"os"
	"path/filepath"
	"sort"
	"strings"
	"testing"

	"github.com/ethereum/go-ethereum/common"
	"github.com/palomachain/paloma/v2/verifharness/emit"
)

// spell writes an eth address the way a client may: the code accepts 40 hex digits in any case with
// "0x", "0X" or (outside geth's HexToAddress-only paths also) no prefix.  The spelling of every address in
// every message is drawn independently; keys are compared as parsed 20-byte values by oracle and model.
func spellForm(a common.Address, form int) string {
	digits := a.Hex()[2:] // EIP-55
	switch form % 4 {
	case 1:
		digits = strings.ToLower(digits)
	case 2:
		digits = strings.ToUpper(digits)
	case 3: // flip the case of some letters: neither checksummed nor uniform
		b := []byte(strings.ToLower(digits))
		for i := range b {
			if b[i] >= 'a' && b[i] <= 'f' && (i*7+form)%3 == 0 {
				b[i] -= 32
			}
		}
		digits = string(b)
	}
	switch (form / 4) % 3 {
	case 1:
		return "0X" + digits
	case 2:
		return digits
	}
	return "0x" + digits
}

const nSpellings = 12

// spell: checksummed "0x…" half of the time (what pigeon sends), any other accepted form otherwise.
func spell(r *rand.Rand, a common.Address) string {
	if r.Intn(2) == 0 {
		return a.Hex()
	}
	return spellForm(a, r.Intn(nSpellings))
}

// violationBudget: the first three histories that violate a given oracle clause are reported with their replay, the
// others only counted (every history of a run can hit the same defect).
var violationsSeen = map[string]int{}

func violationBudget(run *emit.Run, id string) bool {
	violationsSeen[id]++
	run.Count("oracle-violations", id)
	return violationsSeen[id] <= 3
}

func lowerOf(s string) string { return strings.ToLower(common.HexToAddress(s).Hex()) }

// liveReassignCallers: production call sites of the signature-keeping reassignment (same query as the
// translator's, on the tree under test).  Empty on the pinned tree.
var liveReassignCallers []string

func scanReassignCallers(repo string) []string {
	set := map[string]bool{}
	skip := map[string]bool{"mocks": true, "testutil": true, "tests": true, ".git": true, "docs": true, "proto": true}
	fset := token.NewFileSet()
	_ = filepath.WalkDir(repo, func(p string, d fs.DirEntry, err error) error {
		if err != nil {
			return nil
		}
		if d.IsDir() {
			if skip[d.Name()] {
				return filepath.SkipDir
			}
			return nil
		}
		n := d.Name()
		if !strings.HasSuffix(n, ".go") || strings.HasSuffix(n, "_test.go") || strings.HasPrefix(n, "verif_hooks") {
			return nil
		}
		src, err := os.ReadFile(p)
		if err != nil || !(strings.Contains(string(src), "Reassign") || strings.Contains(string(src), "reassignMessageValidator")) {
			return nil
		}
		f, err := parser.ParseFile(fset, p, src, 0)
		if err != nil {
			return nil
		}
		rel, _ := filepath.Rel(repo, p)
		for _, dcl := range f.Decls {
			fd, ok := dcl.(*ast.FuncDecl)
			if !ok || fd.Body == nil {
				continue
			}
			recv := ""
			if fd.Recv != nil && len(fd.Recv.List) == 1 {
				t := fd.Recv.List[0].Type
				if s, ok := t.(*ast.StarExpr); ok {
					t = s.X
				}
				if id, ok := t.(*ast.Ident); ok {
					recv = id.Name
				}
			}
			ast.Inspect(fd.Body, func(x ast.Node) bool {
				ce, ok := x.(*ast.CallExpr)
				if !ok {
					return true
				}
				name := ""
				switch fn := ce.Fun.(type) {
				case *ast.SelectorExpr:
					name = fn.Sel.Name
				case *ast.Ident:
					name = fn.Name
				}
				switch name {
				case "ReassignOrphanedMessages":
					set[rel+":"+fd.Name.Name] = true
				case "reassignMessageValidator":
					if fd.Name.Name != "ReassignOrphanedMessages" {
						set[rel+":"+fd.Name.Name] = true
					}
				case "ReassignValidator":
					if fd.Name.Name != "reassignMessageValidator" && !(fd.Name.Name == "ReassignValidator" && recv == "BatchQueue") {
						set[rel+":"+fd.Name.Name] = true
					}
				}
				return true
			})
		}
		return nil
	})
	var out []string
	for k := range set {
		out = append(out, k)
	}
	sort.Strings(out)
	return out
}

func TestCorr(t *testing.T) {
	run := emit.Start("C06", 160)
	run.Rule("Part A (2/3 of the budget): seeded histories on the real consensus keeper with the real valset keeper (GetSigningKey, account " +
		"registration), the real EVM queue verifier and secp256k1 keys: register / re-register accounts (fresh key, another validator's key, same again), " +
		"put (UpdateValset, SubmitLogicCall, UploadUserSmartContract, UploadSmartContract, CompassHandover on two chains), sign (registered key over current " +
		"bytes / over an earlier version / over another message; another key; unregistered address; junk; missing message; wrong queue), gas estimates, " +
		"CheckAndProcessEstimatedMessages (election + fee attachment), DeleteJob; one history in eight also uses the latent ReassignValidator. " +
		"Part B: histories on keeper.SetupFiveValChain through the real skyway msg server: build, ConfirmBatch (same variants), UpdateBatchGasEstimate, " +
		"EstimateBatchGas + EndBlocker, cancel / executed / timeout, re-registration and key hand-over between validators, staking status changes " +
		"(bonded / unbonding / unbonded) and confirmations by an account that is no validator; one history in 96 (and a scripted one first) has a " +
		"validator set of 102..109 whose members all confirm a batch before its estimate is elected / it is cancelled. After every step the stored " +
		"signatures are re-verified with go-ethereum against the CURRENT bytes (oracle) and the projected state is compared with the Coq model. " +
		"Non-trivial = at least one accepted and one rejected operation.")
	repo := os.Getenv("VERIF_REPO")
	if repo == "" {
		repo = "/repo"
	}
	liveReassignCallers = scanReassignCallers(repo)
	run.Extra("reassign_live_callers", liveReassignCallers)

	replayCorpus(t, run)
	scriptedReassignWitness(t, run)

	nq := run.N * 2 / 3
	for i := 0; i < nq; i++ {
		runQueueHistory(t, run, i%8 == 7)
	}
	for i := nq; i < run.N; i++ {
		if (i-nq)%96 == 5 {
			runBigSetHistory(t, run, false)
			continue
		}
		if (i-nq)%8 == 3 {
			runTwoChainHistory(t, run, false)
			continue
		}
		runBatchHistory(t, run)
	}
	if err := run.Finish("Cons.Queue Skyway.Confirms Corr.C06", "C06.case", "C06.check"); err != nil {
		t.Fatal(err)
	}
}
