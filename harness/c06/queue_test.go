package c06

// Part A: the consensus queue.  Real consensus keeper, real valset keeper (GetSigningKey, external
// account registration with its collision check), real EVM keeper (SupportedQueues: the secp256k1
// verifier), real treasury keeper as fee provider; staking is a four-validator stub and the
// current snapshot is set by the harness (that is C04/C10's subject).

import (
	"context"
	"crypto/ecdsa"
	"encoding/hex"
	"fmt"
	"math/big"
	"sort"
	"strings"
	"testing"
	"time"

	"cosmossdk.io/log"
	sdkmath "cosmossdk.io/math"
	"cosmossdk.io/store"
	"cosmossdk.io/store/metrics"
	storetypes "cosmossdk.io/store/types"
	tmproto "github.com/cometbft/cometbft/proto/tendermint/types"
	tmdb "github.com/cosmos/cosmos-db"
	"github.com/cosmos/cosmos-sdk/codec"
	codectypes "github.com/cosmos/cosmos-sdk/codec/types"
	"github.com/cosmos/cosmos-sdk/runtime"
	sdk "github.com/cosmos/cosmos-sdk/types"
	authcodec "github.com/cosmos/cosmos-sdk/x/auth/codec"
	typesparams "github.com/cosmos/cosmos-sdk/x/params/types"
	stakingtypes "github.com/cosmos/cosmos-sdk/x/staking/types"
	"github.com/ethereum/go-ethereum/common"
	"github.com/ethereum/go-ethereum/crypto"
	chainparams "github.com/palomachain/paloma/v2/app/params"
	xchain "github.com/palomachain/paloma/v2/internal/x-chain"
	"github.com/palomachain/paloma/v2/util/eventbus"
	"github.com/palomachain/paloma/v2/verifharness/emit"
	consensuskeeper "github.com/palomachain/paloma/v2/x/consensus/keeper"
	"github.com/palomachain/paloma/v2/x/consensus/keeper/consensus"
	consensustypes "github.com/palomachain/paloma/v2/x/consensus/types"
	evmkeeper "github.com/palomachain/paloma/v2/x/evm/keeper"
	evmtypes "github.com/palomachain/paloma/v2/x/evm/types"
	metrixkeeper "github.com/palomachain/paloma/v2/x/metrix/keeper"
	metrixtypes "github.com/palomachain/paloma/v2/x/metrix/types"
	treasurykeeper "github.com/palomachain/paloma/v2/x/treasury/keeper"
	treasurytypes "github.com/palomachain/paloma/v2/x/treasury/types"
	valsetkeeper "github.com/palomachain/paloma/v2/x/valset/keeper"
	valsettypes "github.com/palomachain/paloma/v2/x/valset/types"
)

// ---------- collaborators that are not the real keepers ----------

type fakeStaking struct{ vals []sdk.ValAddress }

func (f *fakeStaking) Validator(_ context.Context, a sdk.ValAddress) (stakingtypes.ValidatorI, error) {
	for _, v := range f.vals {
		if v.Equals(a) {
			return stakingtypes.Validator{OperatorAddress: a.String(), Status: stakingtypes.Bonded, Tokens: sdkmath.NewInt(1000000), DelegatorShares: sdkmath.LegacyNewDec(1000000)}, nil
		}
	}
	return nil, fmt.Errorf("validator %s not found", a)
}

func (f *fakeStaking) IterateValidators(ctx context.Context, fn func(int64, stakingtypes.ValidatorI) bool) error {
	for i, v := range f.vals {
		x, _ := f.Validator(ctx, v)
		if fn(int64(i), x) {
			break
		}
	}
	return nil
}
func (f *fakeStaking) Jail(context.Context, sdk.ConsAddress) error { return nil }

type fakeSlashing struct{}

func (fakeSlashing) Jail(context.Context, sdk.ConsAddress) error                 { return nil }
func (fakeSlashing) JailUntil(context.Context, sdk.ConsAddress, time.Time) error { return nil }

// vsWrap is the real valset keeper with the snapshot queries answered by the harness.
type vsWrap struct {
	*valsetkeeper.Keeper
	snap *valsettypes.Snapshot
}

func (w *vsWrap) GetCurrentSnapshot(context.Context) (*valsettypes.Snapshot, error) {
	if w.snap == nil {
		return nil, fmt.Errorf("no snapshot found")
	}
	return w.snap, nil
}
func (w *vsWrap) FindSnapshotByID(context.Context, uint64) (*valsettypes.Snapshot, error) {
	return w.GetCurrentSnapshot(nil)
}
func (w *vsWrap) SetSnapshotOnChain(context.Context, uint64, string) error { return nil }
func (w *vsWrap) GetLatestSnapshotOnChain(context.Context, string) (*valsettypes.Snapshot, error) {
	return w.GetCurrentSnapshot(nil)
}

var qchains = []string{"chain-a", "chain-b"} // model ids 1, 2

func qchainID(s string) int64 {
	for i, c := range qchains {
		if c == s {
			return int64(i + 1)
		}
	}
	return 99
}

func turnstoneQueue(chain string) string {
	return consensustypes.Queue(evmtypes.ConsensusTurnstoneMessage, xchain.Type("evm"), xchain.ReferenceID(chain))
}

var qcdc codec.Codec

func theCdc() codec.Codec {
	if qcdc == nil {
		reg := codectypes.NewInterfaceRegistry()
		consensustypes.RegisterInterfaces(reg)
		evmtypes.RegisterInterfaces(reg)
		valsettypes.RegisterInterfaces(reg)
		qcdc = codec.NewProtoCodec(reg)
	}
	return qcdc
}

const nVals = 4

type qenv struct {
	ctx  sdk.Context
	cons *consensuskeeper.Keeper
	vs   *vsWrap
	tre  *treasurykeeper.Keeper
	evm  *evmkeeper.Keeper
	met  metrixkeeper.Keeper
	vals []sdk.ValAddress
}

func newQEnv(t *testing.T) *qenv {
	keys := map[string]*storetypes.KVStoreKey{}
	db := tmdb.NewMemDB()
	ms := store.NewCommitMultiStore(db, log.NewNopLogger(), metrics.NewNoOpMetrics())
	for _, n := range []string{evmtypes.StoreKey, consensustypes.StoreKey, treasurytypes.StoreKey, metrixtypes.StoreKey, valsettypes.StoreKey} {
		keys[n] = storetypes.NewKVStoreKey(n)
		ms.MountStoreWithDB(keys[n], storetypes.StoreTypeIAVL, db)
	}
	mem := storetypes.NewMemoryStoreKey("mem_verif")
	ms.MountStoreWithDB(mem, storetypes.StoreTypeMemory, nil)
	if err := ms.LoadLatestVersion(); err != nil {
		t.Fatal(err)
	}
	cdc := theCdc()
	sub := func(n string) typesparams.Subspace {
		return typesparams.NewSubspace(cdc, consensustypes.Amino, keys[n], mem, n+"Params")
	}
	ctx := sdk.NewContext(ms, tmproto.Header{Height: 5, Time: time.Unix(1700000000, 0).UTC()}, false, log.NewNopLogger())
	ac := authcodec.NewBech32Codec(chainparams.ValidatorAddressPrefix)
	e := &qenv{}
	for i := 0; i < nVals; i++ {
		a := make([]byte, 20)
		copy(a, fmt.Sprintf("c06-validator-%02d-----", i))
		e.vals = append(e.vals, sdk.ValAddress(a))
	}
	rvs := valsetkeeper.NewKeeper(cdc, runtime.NewKVStoreService(keys[valsettypes.StoreKey]), sub(valsettypes.StoreKey),
		&fakeStaking{vals: e.vals}, fakeSlashing{}, sdk.DefaultPowerReduction, ac)
	vs := &vsWrap{Keeper: rvs}
	reg := consensuskeeper.NewRegistry()
	evmK := &evmkeeper.Keeper{}
	tre := treasurykeeper.NewKeeper(cdc, runtime.NewKVStoreService(keys[treasurytypes.StoreKey]), sub(treasurytypes.StoreKey), nil, nil, evmK)
	met := metrixkeeper.NewKeeper(cdc, runtime.NewKVStoreService(keys[metrixtypes.StoreKey]), sub(metrixtypes.StoreKey), nil, nil, ac)
	cons := consensuskeeper.NewKeeper(cdc, runtime.NewKVStoreService(keys[consensustypes.StoreKey]), sub(consensustypes.StoreKey), vs, reg, tre)
	*evmK = *evmkeeper.NewKeeper(cdc, runtime.NewKVStoreService(keys[evmtypes.StoreKey]), "", cons, vs, ac, &met, *tre)
	cons.LateInject(evmK)
	reg.Add(evmK)
	// a skyway keeper of an earlier batch history listens to chain activations with a store of its own: not here
	eventbus.EVMActivatedChain().Unsubscribe("skyway-keeper")
	for i, c := range qchains {
		if err := evmK.AddSupportForNewChain(ctx, c, uint64(i+1), 123, "0x1234", big.NewInt(55)); err != nil {
			t.Fatal(err)
		}
		// active, with the compass id the queued messages carry: the valset publisher only serves active chains
		if err := evmK.ActivateChainReferenceID(ctx, c, &evmtypes.SmartContract{Id: 1}, "0x5A3E98aA540B2C3545E1DbA2D5e8B3e3e8bD3c7e", []byte("compass-"+c)); err != nil {
			t.Fatal(err)
		}
	}
	for _, v := range e.vals {
		if err := met.VerifSetValidatorMetrics(ctx, v, &metrixtypes.ValidatorMetrics{ValAddress: v.String(), Uptime: sdkmath.LegacyOneDec(),
			SuccessRate: sdkmath.LegacyOneDec(), ExecutionTime: sdkmath.NewInt(100), FeatureSet: sdkmath.LegacyOneDec()}); err != nil {
			t.Fatal(err)
		}
	}
	snap := &valsettypes.Snapshot{Id: 1, TotalShares: sdkmath.NewInt(nVals)}
	for _, v := range e.vals {
		snap.Validators = append(snap.Validators, valsettypes.Validator{Address: v, ShareCount: sdkmath.NewInt(1), State: valsettypes.ValidatorState_ACTIVE})
	}
	vs.snap = snap
	e.ctx, e.cons, e.vs, e.tre, e.evm, e.met = ctx, cons, vs, tre, evmK, met
	return e
}

// ---------- one history ----------

type version struct {
	bytes []byte
	coq   string // "k body id est fees relayer" — arguments of C06.SOver after the key
}

type qhist struct {
	t       *testing.T
	run     *emit.Run
	e       *qenv
	keys    []*ecdsa.PrivateKey
	addrIDs map[string]int64 // external account address string -> model id
	keyIDs  map[string]int64 // registered Pubkey bytes (hex) -> model id = 1000 * (id of the EVM key the blob stands for) + encoding variant
	ethIDs  map[string]int64 // EVM key (the 20 bytes the verifier takes from a Pubkey blob: its last 20) -> id
	nEnc    map[int64]int64  // EVM key id -> number of non-canonical blobs seen for it
	relIDs  map[string]int64 // relayer address -> model id
	bodyIDs map[string]int64
	reg     [nVals][]acctRow // what the harness believes is registered (mirrors successful registrations)
	items   []uint64
	chainOf map[uint64]string
	vers    map[uint64][]version
	regAt   map[string]string // "<id>/<val>" -> hex of the key registered when the signature was accepted
	steps   []string
	replay  []map[string]any
	okOps   int
	rejOps  int
	latent  bool
	viol    bool
	moved   map[uint64]bool // items that went through the latent ReassignValidator
	tids    map[string]string // chain -> current compass id
	scIDs   map[string]uint64
	snapID  uint64          // id of the harness-built valset snapshot
	shares  [nVals]int64
	lastPub string          // what the last published snapshot looked like (members, shares)
}

type acctRow struct {
	chain string
	addr  string
	key   []byte
}

func idOf(m map[string]int64, k string) int64 {
	if v, ok := m[k]; ok {
		return v
	}
	v := int64(len(m) + 1)
	m[k] = v
	return v
}

// registeredKey: the Pubkey of the first account validator v has registered for exactly (chain, address string).
func (h *qhist) registeredKey(v int, chain, addr string) ([]byte, bool) {
	for _, row := range h.reg[v] {
		if row.chain == chain && row.addr == addr {
			return row.key, true
		}
	}
	return nil, false
}

// ethID: model id of the EVM key a signature is checked against (common.BytesToAddress of the Pubkey blob).
func (h *qhist) ethID(a common.Address) int64 { return idOf(h.ethIDs, lower(a)) }

// blobID: model id of a registered Pubkey blob.  The code compares blobs byte-wise (collision check, one signature per
// key) but verifies against the last 20 bytes only, so several blobs stand for one EVM key: id = 1000 * ethID + variant
// (variant 0 = the plain 20 bytes); the model's verifier looks at id / 1000 (Corr.C06.qverify).
func (h *qhist) blobID(blob []byte) int64 {
	k := hex.EncodeToString(blob)
	if id, ok := h.keyIDs[k]; ok {
		return id
	}
	a := common.BytesToAddress(blob)
	e := h.ethID(a)
	id := e * 1000
	if k != hex.EncodeToString(a.Bytes()) {
		h.nEnc[e]++
		id += h.nEnc[e]
	}
	h.keyIDs[k] = id
	return id
}

func (h *qhist) keyAddr(i int) common.Address { return crypto.PubkeyToAddress(h.keys[i].PublicKey) }

func (h *qhist) valIdx(a sdk.ValAddress) int64 {
	for i, v := range h.e.vals {
		if v.Equals(a) {
			return int64(i)
		}
	}
	return 99
}

func feesCoq(f *evmtypes.Fees) string {
	if f == nil {
		return "None"
	}
	return fmt.Sprintf("(Some (%s, %s, %s))", emit.ZU(f.RelayerFee), emit.ZU(f.CommunityFee), emit.ZU(f.SecurityFee))
}

// describe returns the kind code, the canonical body string, the fees and the relayer of a queued turnstone message.
func describe(em *evmtypes.Message) (kind int64, body string, fees *evmtypes.Fees) {
	switch a := em.Action.(type) {
	case *evmtypes.Message_UpdateValset:
		v := a.UpdateValset.GetValset()
		return 1, fmt.Sprintf("uv|%s|%v|%v|%d", em.TurnstoneID, v.GetValidators(), v.GetPowers(), v.GetValsetID()), nil
	case *evmtypes.Message_SubmitLogicCall:
		m := a.SubmitLogicCall
		return 2, fmt.Sprintf("slc|%s|%s|%x|%x|%d", em.TurnstoneID, strings.ToLower(m.HexContractAddress), m.Payload, m.SenderAddress, m.Deadline), m.Fees
	case *evmtypes.Message_UploadSmartContract:
		return 3, fmt.Sprintf("usc|%x", a.UploadSmartContract.Bytecode), nil
	case *evmtypes.Message_UploadUserSmartContract:
		m := a.UploadUserSmartContract
		return 4, fmt.Sprintf("uusc|%s|%s|%x|%x|%d", em.TurnstoneID, strings.ToLower(m.DeployerAddress), m.Bytecode, m.SenderAddress, m.Deadline), m.Fees
	case *evmtypes.Message_CompassHandover:
		m := a.CompassHandover
		s := fmt.Sprintf("ch|%d", m.Deadline)
		for _, x := range m.ForwardCallArgs {
			s += fmt.Sprintf("|%s:%x", strings.ToLower(x.HexContractAddress), x.Payload)
		}
		return 5, s, nil
	}
	return 6, "other", nil
}

type itemView struct {
	id    uint64
	chain string
	qm    consensustypes.QueuedSignedMessageI
	em    *evmtypes.Message
}

func (h *qhist) allItems() []itemView {
	var out []itemView
	for _, c := range qchains {
		msgs, err := h.e.cons.GetMessagesFromQueue(h.e.ctx, turnstoneQueue(c), 0)
		if err != nil {
			h.t.Fatalf("GetMessagesFromQueue: %v", err)
		}
		for _, m := range msgs {
			cm, err := m.ConsensusMsg(theCdc())
			if err != nil {
				h.t.Fatal(err)
			}
			out = append(out, itemView{id: m.GetId(), chain: c, qm: m, em: cm.(*evmtypes.Message)})
		}
	}
	sort.Slice(out, func(i, j int) bool { return out[i].id < out[j].id })
	return out
}

func (h *qhist) versionOf(iv itemView) version {
	k, body, fees := describe(iv.em)
	bts, err := iv.qm.GetBytesToSign(theCdc())
	if err != nil {
		h.t.Fatalf("GetBytesToSign: %v", err)
	}
	return version{bytes: bts, coq: fmt.Sprintf("%d %d %d %s %s %d", k, idOf(h.bodyIDs, body), iv.id, emit.ZU(iv.qm.GetGasEstimate()),
		feesCoq(fees), idOf(h.relIDs, lowerOf(iv.em.AssigneeRemoteAddress)))}
}

// noteVersions records the current bytes of every item as a version that may be signed later (stale or not).
func (h *qhist) noteVersions() {
	for _, iv := range h.allItems() {
		v := h.versionOf(iv)
		vs := h.vers[iv.id]
		if len(vs) == 0 || vs[len(vs)-1].coq != v.coq {
			h.vers[iv.id] = append(vs, v)
		}
	}
}

func recoverAddr(bts, sig []byte) (common.Address, bool) {
	hsh := crypto.Keccak256(append([]byte(evmkeeper.SignaturePrefix), bts...))
	pk, err := crypto.SigToPub(hsh, sig)
	if err != nil {
		return common.Address{}, false
	}
	return crypto.PubkeyToAddress(*pk), true
}

// observe projects the stored items for the model AND evaluates the direct oracle on the real state.
func (h *qhist) observe(after string) string {
	var obs []string
	for _, iv := range h.allItems() {
		k, _, fees := describe(iv.em)
		var es, sg []string
		for _, g := range iv.qm.GetGasEstimates() {
			es = append(es, emit.Pair(emit.ZI(h.valIdx(g.ValAddress)), emit.ZU(g.Value)))
		}
		bts, err := iv.qm.GetBytesToSign(theCdc())
		if err != nil {
			h.t.Fatal(err)
		}
		seenVal, seenKey, seenRec := map[int64]bool{}, map[string]bool{}, map[common.Address]bool{}
		for _, s := range iv.qm.GetSignData() {
			v := h.valIdx(s.ValAddress)
			sg = append(sg, emit.Pair(emit.ZI(v), emit.ZI(idOf(h.addrIDs, s.ExternalAccountAddress)), emit.ZI(h.blobID(s.PublicKey))))
			rec, ok := recoverAddr(bts, s.Signature)
			if !ok || rec != common.BytesToAddress(s.PublicKey) {
				id := "C06:stored-signature-invalid-for-current-bytes"
				if h.latent && h.moved[iv.id] {
					id = "C06:reassign-keeps-stale-sigs"
				}
				h.violate(id, fmt.Sprintf("after %s: message %d (%s) keeps a signature of validator #%d that does not verify against the message's current signing bytes under the stored key %x", after, iv.id, iv.chain, v, s.PublicKey))
			}
			if want, ok := h.regAt[fmt.Sprintf("%d/%d", iv.id, v)]; !ok || want != hex.EncodeToString(s.PublicKey) {
				h.violate("C06:stored-key-not-the-registered-key", fmt.Sprintf("after %s: message %d stores key %x for validator #%d, registered key when it signed was %s", after, iv.id, s.PublicKey, v, want))
			}
			if seenVal[v] || seenKey[hex.EncodeToString(s.PublicKey)] {
				h.violate("C06:duplicate-validator-or-key", fmt.Sprintf("after %s: message %d has two signatures by the same validator or key (validator #%d, key %x)", after, iv.id, v, s.PublicKey))
			} else if ok && seenRec[rec] {
				h.violate("C06:queue-key-aliased-by-pubkey-encoding", fmt.Sprintf("after %s: message %d has two signatures made with one EVM key (%s) by two validators that registered it under different Pubkey encodings (this one: validator #%d, blob %x); the one-signature-per-key check and valset's collision check compare the blobs byte-wise, the verifier uses their last 20 bytes", after, iv.id, lower(rec), v, s.PublicKey))
			}
			seenVal[v], seenKey[hex.EncodeToString(s.PublicKey)] = true, true
			if ok {
				seenRec[rec] = true
			}
		}
		obs = append(obs, emit.Pair(emit.ZU(iv.id), emit.ZI(qchainID(iv.chain)), emit.ZI(k), emit.ZI(idOf(h.relIDs, lowerOf(iv.em.AssigneeRemoteAddress))),
			emit.ZU(iv.qm.GetGasEstimate()), feesCoq(fees), emit.List(es), emit.List(sg)))
	}
	return emit.List(obs)
}

func (h *qhist) violate(id, what string) {
	if h.viol {
		return
	}
	h.viol = true
	if id == "C06:reassign-keeps-stale-sigs" {
		// the latent path: reproduced on the real code, but a violation only once something calls it
		h.run.Count("latent-reassign", "stale signature kept (reproduced on the real keeper)")
		if len(liveReassignCallers) == 0 {
			return
		}
		what += "; ReassignValidator is now reachable from " + strings.Join(liveReassignCallers, ", ")
	}
	if !violationBudget(h.run, id) {
		return
	}
	h.run.Violate(id, what, map[string]any{"part": "queue", "history": h.replay})
}

func (h *qhist) step(op string, class int64, rep map[string]any) {
	rep["outcome"] = class
	h.replay = append(h.replay, rep)
	if class == 0 {
		h.okOps++
	} else {
		h.rejOps++
	}
	h.steps = append(h.steps, fmt.Sprintf("C06.QStep (%s) %d %s", op, class, h.observe(fmt.Sprint(rep["op"]))))
	h.noteVersions()
}

func classOf(err error) int64 {
	if err == nil {
		return 0
	}
	s := err.Error()
	switch {
	case strings.Contains(s, "signing key for valAddr"):
		return 1
	case strings.Contains(s, "does not exist"):
		return 2
	case strings.Contains(s, "already signed with the key"):
		return 3
	case strings.Contains(s, "validator already signed"):
		return 4
	case strings.Contains(s, "signature is invalid"):
		return 5
	case strings.Contains(s, "does not require gas estimation"):
		return 6
	case strings.Contains(s, "gas estimate already exists for validator"):
		return 7
	case strings.Contains(s, "gas estimate already exists for message"):
		return 8
	case strings.Contains(s, "external account already registered"):
		return 9
	}
	return 50
}

func (h *qhist) tidOf(chain string) string {
	if t, ok := h.tids[chain]; ok {
		return t
	}
	return "compass-" + chain
}

func newQHist(t *testing.T, run *emit.Run) *qhist {
	h := &qhist{tids: map[string]string{}, scIDs: map[string]uint64{},t: t, run: run, e: newQEnv(t), addrIDs: map[string]int64{}, keyIDs: map[string]int64{}, ethIDs: map[string]int64{}, nEnc: map[int64]int64{}, relIDs: map[string]int64{},
		bodyIDs: map[string]int64{}, chainOf: map[uint64]string{}, vers: map[uint64][]version{}, regAt: map[string]string{}}
	for i := 0; i < 7; i++ {
		b := make([]byte, 32)
		run.Rng.Read(b)
		b[0] |= 1
		k, err := crypto.ToECDSA(b)
		if err != nil {
			t.Fatal(err)
		}
		h.keys = append(h.keys, k)
	}
	// fee settings: most validators have a relayer fee on both chains
	for i, v := range h.e.vals {
		if run.Rng.Intn(8) == 0 {
			continue
		}
		rfs := &treasurytypes.RelayerFeeSetting{ValAddress: v.String()}
		for _, c := range qchains {
			rfs.Fees = append(rfs.Fees, treasurytypes.RelayerFeeSetting_FeeSetting{ChainReferenceId: c,
				Multiplicator: sdkmath.LegacyNewDecWithPrec(int64(100+run.Rng.Intn(200)+i), 2)})
		}
		if err := h.e.tre.SetRelayerFee(h.e.ctx, v, rfs); err != nil {
			t.Fatal(err)
		}
	}
	_ = h.e.tre.SetCommunityFundFee(h.e.ctx, "0.01")
	_ = h.e.tre.SetSecurityFee(h.e.ctx, "0.02")
	return h
}

// ---- operations ----

func (h *qhist) opRegister(v int, rows []acctRow) {
	var infos []*valsettypes.ExternalChainInfo
	var coq []string
	var rep []string
	for _, r := range rows {
		infos = append(infos, &valsettypes.ExternalChainInfo{ChainType: "evm", ChainReferenceID: r.chain, Address: r.addr, Pubkey: r.key})
		coq = append(coq, emit.Pair(emit.ZI(qchainID(r.chain)), emit.ZI(idOf(h.addrIDs, r.addr)), emit.ZI(h.blobID(r.key)),
			emit.ZI(idOf(h.relIDs, lowerOf(r.addr)))))
		rep = append(rep, fmt.Sprintf("%s %s %x", r.chain, r.addr, r.key))
	}
	err := h.e.vs.AddExternalChainInfo(h.e.ctx, h.e.vals[v], infos)
	c := classOf(err)
	if c == 50 {
		h.t.Fatalf("AddExternalChainInfo: %v", err)
	}
	if err == nil {
		h.reg[v] = rows
	}
	h.run.Count("op", "register")
	h.run.Count("register-outcome", fmt.Sprint(c))
	h.step(fmt.Sprintf("C06.QRegister %d %s", v, emit.List(coq)), c, map[string]any{"op": "register", "validator": v, "accounts": rep})
}

// row: the account of private key [key] on [chain]; the address string is spelled as a client might
// (GetSigningKey compares the named address with the registered STRING, so the model's address id is per string).
func (h *qhist) row(chain string, key int) acctRow {
	a := h.keyAddr(key)
	return acctRow{chain: chain, addr: spell(h.run.Rng, a), key: h.encodeKey(a)}
}

// encodeKey: the Pubkey blob registered for an EVM key: the 20 address bytes (what pigeon sends) five times in six,
// otherwise another byte string with the same last 20 bytes (left-padded to 32; behind a 0x04 marker and 44 other bytes).
func (h *qhist) encodeKey(a common.Address) []byte {
	switch h.run.Rng.Intn(12) {
	case 0:
		h.run.Count("pubkey-encoding", "left-padded-32")
		return append(make([]byte, 12), a.Bytes()...)
	case 1:
		h.run.Count("pubkey-encoding", "marker+44+address")
		b := append([]byte{4}, crypto.Keccak256(a.Bytes())...)
		b = append(b, make([]byte, 12)...)
		return append(b, a.Bytes()...)
	}
	h.run.Count("pubkey-encoding", "20-bytes")
	return a.Bytes()
}

var bodyPool = [][]byte{{1}, {2}, {3, 4}}

func (h *qhist) opPut() {
	r := h.run.Rng
	chain := qchains[r.Intn(len(qchains))]
	asg := r.Intn(nVals)
	rel := spell(r, h.keyAddr(r.Intn(len(h.keys))))
	if !strings.HasPrefix(rel, "0x") && !strings.HasPrefix(rel, "0X") {
		rel = "0x" + rel
	}
	em := &evmtypes.Message{ChainReferenceID: chain, TurnstoneID: h.tidOf(chain), Assignee: h.e.vals[asg].String(), AssigneeRemoteAddress: rel}
	needs := r.Intn(4) > 0
	pay := bodyPool[r.Intn(len(bodyPool))]
	switch k := r.Intn(10); {
	case k < 3:
		em.Action = &evmtypes.Message_UpdateValset{UpdateValset: &evmtypes.UpdateValset{Valset: &evmtypes.Valset{ValsetID: uint64(1 + r.Intn(2)),
			Validators: []string{h.keyAddr(0).Hex()}, Powers: []uint64{uint64(pay[0])}}}}
	case k < 7:
		em.Action = &evmtypes.Message_SubmitLogicCall{SubmitLogicCall: &evmtypes.SubmitLogicCall{HexContractAddress: "0x0000000000000000000000000000000000000001",
			Payload: pay, SenderAddress: []byte("alice"), Deadline: 1700001000}}
	case k < 8:
		em.Action = &evmtypes.Message_UploadUserSmartContract{UploadUserSmartContract: &evmtypes.UploadUserSmartContract{Bytecode: pay, SenderAddress: []byte("bob"),
			DeployerAddress: "0x0000000000000000000000000000000000000002", Deadline: 1700001000, Id: 1}}
	case k < 9:
		em.Action = &evmtypes.Message_UploadSmartContract{UploadSmartContract: &evmtypes.UploadSmartContract{Id: 1, Bytecode: pay}}
		needs = false
	default:
		em.Action = &evmtypes.Message_CompassHandover{CompassHandover: &evmtypes.CompassHandover{Deadline: 1700001000,
			ForwardCallArgs: []evmtypes.CompassHandover_ForwardCallArgs{{HexContractAddress: "0x0000000000000000000000000000000000000003", Payload: pay}}}}
	}
	kind, body, _ := describe(em)
	id, err := h.e.cons.PutMessageInQueue(h.e.ctx, turnstoneQueue(chain), em, &consensus.PutOptions{RequireSignatures: true, RequireGasEstimation: needs})
	if err != nil {
		h.t.Fatalf("PutMessageInQueue: %v", err)
	}
	h.items = append(h.items, id)
	h.chainOf[id] = chain
	h.run.Count("op", "put")
	h.run.Count("kind", fmt.Sprint(kind))
	h.step(fmt.Sprintf("C06.QPut %d %d %d %d %s", qchainID(chain), kind, idOf(h.bodyIDs, body), idOf(h.relIDs, lowerOf(rel)), emit.Bool(needs)), 0,
		map[string]any{"op": "put", "chain": chain, "kind": kind, "id": id, "needs_estimate": needs, "relayer": rel, "payload": hex.EncodeToString(pay)})
}

func (h *qhist) pickItem() (uint64, string, bool) {
	if len(h.items) == 0 {
		return 0, "", false
	}
	r := h.run.Rng
	if r.Intn(15) == 0 {
		return uint64(90 + r.Intn(5)), qchains[r.Intn(2)], true // does not exist
	}
	id := h.items[r.Intn(len(h.items))]
	c := h.chainOf[id]
	if r.Intn(20) == 0 {
		c = qchains[(int(qchainID(c)))%2] // right id, wrong queue
	}
	return id, c, true
}

// opSign: a validator sends MsgAddMessagesSignatures for one message.  Which private key signs which
// bytes is chosen here: the registered key over the current bytes (valid), over an earlier version of the
// same message (stale), over another message's bytes, a key that is not the registered one, junk.
func (h *qhist) opSign() {
	p, ok := h.prepSign(h.run.Rng.Intn(nVals))
	if !ok {
		return
	}
	err := h.e.cons.AddMessageSignature(h.e.ctx, h.e.vals[p.v], []*consensustypes.ConsensusMessageSignature{p.msg})
	c := classOf(err)
	if c == 50 {
		h.t.Fatalf("AddMessageSignature: %v", err)
	}
	if err == nil {
		h.regAt[fmt.Sprintf("%d/%d", p.id, p.v)] = p.regNow
	}
	h.run.Count("op", "sign")
	h.run.Count("sign-what", p.what)
	h.run.Count("sign-outcome", fmt.Sprint(c))
	h.step(p.coq, c, p.rep)
}

// opSignMulti: ONE MsgAddMessagesSignatures of a validator carrying signatures for two or three messages, possibly of
// different chains (what pigeon sends).  The keeper handles them in order and stops at the first it refuses.  Each element
// is first tried alone, in order, on a branch of the store that is thrown away: that tells how far the model has to go;
// then the real call is made with all of them at once and its outcome and the resulting store are what the model is
// compared with — anything the code carries over from one element to the next (a key looked up once, a queue looked up
// once) shows up as a difference.
func (h *qhist) opSignMulti() {
	r := h.run.Rng
	v := r.Intn(nVals)
	var ps []signPrep
	seen := map[uint64]bool{}
	plain := r.Intn(3) > 0
	for i := 0; i < 2+r.Intn(2); i++ {
		p, ok := h.prepSignP(v, plain && r.Intn(6) > 0)
		if !ok {
			return
		}
		if seen[p.id] && r.Intn(3) > 0 {
			continue
		}
		seen[p.id] = true
		ps = append(ps, p)
	}
	if len(ps) < 2 {
		return
	}
	dry, _ := h.e.ctx.CacheContext()
	upto := len(ps)
	for i, p := range ps {
		if err := h.e.cons.AddMessageSignature(dry, h.e.vals[v], []*consensustypes.ConsensusMessageSignature{p.msg}); err != nil {
			upto = i + 1
			break
		}
	}
	var msgs []*consensustypes.ConsensusMessageSignature
	for _, p := range ps {
		msgs = append(msgs, p.msg)
	}
	err := h.e.cons.AddMessageSignature(h.e.ctx, h.e.vals[v], msgs)
	c := classOf(err)
	if c == 50 {
		h.t.Fatalf("AddMessageSignature: %v", err)
	}
	h.run.Count("op", "sign-multi")
	h.run.Count("sign-multi", fmt.Sprintf("%d signatures, %d chains, outcome %d", len(ps), func() int {
		cs := map[string]bool{}
		for _, p := range ps {
			cs[p.chain] = true
		}
		return len(cs)
	}(), c))
	for i, p := range ps[:upto] {
		last := i+1 == upto
		if !last || err == nil {
			h.regAt[fmt.Sprintf("%d/%d", p.id, v)] = p.regNow
		}
		p.rep["op"] = fmt.Sprintf("sign (element %d of %d in one message)", i+1, len(ps))
		if !last {
			p.rep["outcome"] = 0
			h.replay = append(h.replay, p.rep)
			h.steps = append(h.steps, fmt.Sprintf("C06.QStepNoObs (%s) 0", p.coq))
			h.okOps++
			continue
		}
		h.step(p.coq, c, p.rep)
	}
}

type signPrep struct {
	v      int
	id     uint64
	chain  string
	msg    *consensustypes.ConsensusMessageSignature
	coq    string
	what   string
	regNow string // what the oracle expects as the stored key if the signature is accepted
	rep    map[string]any
}

// prepSign draws one signature of validator v: which message, which account it names, which private key signs which bytes.
func (h *qhist) prepSign(v int) (signPrep, bool) { return h.prepSignP(v, false) }

// plain: the registered account of the message's chain, its key, over the current bytes (when the validator has one).
func (h *qhist) prepSignP(v int, plain bool) (signPrep, bool) {
	r := h.run.Rng
	id, chain, ok := h.pickItem()
	if !ok {
		return signPrep{}, false
	}
	// the account the validator names
	var named *acctRow
	for i := range h.reg[v] {
		if h.reg[v][i].chain == chain {
			named = &h.reg[v][i]
			break
		}
	}
	addr := spell(r, h.keyAddr(r.Intn(len(h.keys)))) // not registered by v (probably)
	signer := r.Intn(len(h.keys))
	how := "unregistered-address"
	// the account the validator registered under the OTHER chain reference, named for a message of this chain and
	// signed with that account's key (a pigeon still running with the configuration of the other chain / of before a
	// rotation on this chain only): GetSigningKey must not find it
	var other *acctRow
	for i := range h.reg[v] {
		if h.reg[v][i].chain != chain {
			other = &h.reg[v][i]
		}
	}
	if plain && named != nil {
		addr, how = named.addr, "registered"
		for i := range h.keys {
			if h.keyAddr(i) == common.BytesToAddress(named.key) {
				signer = i
			}
		}
	} else if other != nil && r.Intn(7) == 0 {
		addr, how = other.addr, "other-chain-account"
		for i := range h.keys {
			if h.keyAddr(i) == common.BytesToAddress(other.key) {
				signer = i
			}
		}
		if named != nil && named.addr == other.addr {
			how = "other-chain-account(same-address-here)"
		}
	} else if named != nil && r.Intn(12) > 0 {
		addr = named.addr
		how = "registered"
		for i := range h.keys {
			if h.keyAddr(i) == common.BytesToAddress(named.key) {
				signer = i
			}
		}
		if r.Intn(8) == 0 {
			// the registered account, its address written differently: GetSigningKey looks the string up
			if w := spell(r, common.BytesToAddress(named.key)); w != named.addr {
				addr, how = w, "registered-respelled"
			}
		}
		if r.Intn(8) == 0 {
			signer = r.Intn(len(h.keys))
			how = "other-key"
		}
	}
	// what is signed
	var spec string
	var bts []byte
	what := "current"
	vs := h.vers[id]
	k := r.Intn(20)
	if plain {
		k = 19
	}
	switch {
	case len(vs) == 0 || k == 0:
		what = "junk"
		bts = make([]byte, 32)
		r.Read(bts)
		spec = "C06.SJunk"
	case k < 4 && len(vs) > 1:
		what = "stale"
		ver := vs[r.Intn(len(vs)-1)]
		bts, spec = ver.bytes, fmt.Sprintf("(C06.SOver %d %s)", h.ethID(h.keyAddr(signer)), ver.coq)
	case k < 6 && len(h.items) > 1:
		what = "other-message"
		o := h.items[r.Intn(len(h.items))]
		if len(h.vers[o]) == 0 {
			o = id
		}
		ver := h.vers[o][len(h.vers[o])-1]
		bts, spec = ver.bytes, fmt.Sprintf("(C06.SOver %d %s)", h.ethID(h.keyAddr(signer)), ver.coq)
	default:
		ver := vs[len(vs)-1]
		bts, spec = ver.bytes, fmt.Sprintf("(C06.SOver %d %s)", h.ethID(h.keyAddr(signer)), ver.coq)
	}
	sig, err := crypto.Sign(crypto.Keccak256(append([]byte(evmkeeper.SignaturePrefix), bts...)), h.keys[signer])
	if err != nil {
		h.t.Fatal(err)
	}
	if what == "junk" && r.Intn(2) == 0 {
		sig = sig[:r.Intn(65)]
	}
	// the key registered right now for (v, chain, addr), from the registrations the harness made (first exact match, as
	// a list scan gives it) - NOT asked from the code under test; recorded when the signature is accepted
	regNow, regFound := h.registeredKey(v, chain, addr)
	want := hex.EncodeToString(regNow)
	if !regFound {
		want = "(validator has no account " + addr + " registered for " + chain + ")"
	}
	return signPrep{v: v, id: id, chain: chain, what: what + "/" + how, regNow: want,
		msg: &consensustypes.ConsensusMessageSignature{Id: id, QueueTypeName: turnstoneQueue(chain), Signature: sig, SignedByAddress: addr},
		coq: fmt.Sprintf("C06.QSign %d %d %d %d %s", v, qchainID(chain), id, idOf(h.addrIDs, addr), spec),
		rep: map[string]any{"op": "sign", "validator": v, "chain": chain, "id": id, "named_address": addr, "signing_key": signer, "signed": what, "bytes": hex.EncodeToString(bts), "signature": hex.EncodeToString(sig)}}, true
}

var qests = []uint64{1, 21000, 299999, 300000, 300001, 5000000}

func (h *qhist) opEstimate(id uint64, chain string, v int, val uint64) {
	err := h.e.cons.AddMessageGasEstimates(h.e.ctx, h.e.vals[v], []*consensustypes.MsgAddMessageGasEstimates_GasEstimate{{MsgId: id, QueueTypeName: turnstoneQueue(chain), Value: val}})
	c := classOf(err)
	if c == 50 {
		h.t.Fatalf("AddMessageGasEstimates: %v", err)
	}
	h.run.Count("op", "estimate")
	h.run.Count("estimate-outcome", fmt.Sprint(c))
	h.step(fmt.Sprintf("C06.QEstimate %d %d %d %s", v, qchainID(chain), id, emit.ZU(val)), c, map[string]any{"op": "estimate", "validator": v, "chain": chain, "id": id, "value": val})
}

func (h *qhist) opEstimates() {
	r := h.run.Rng
	id, chain, ok := h.pickItem()
	if !ok {
		return
	}
	base := qests[r.Intn(len(qests))]
	n := 1 + r.Intn(nVals)
	for _, v := range r.Perm(nVals)[:n] {
		h.opEstimate(id, chain, v, base+uint64(r.Intn(2)))
	}
}

// opEndBlock runs the real end-blocker step; what it elected is read back and given to the model as
// QElect steps (the election itself is C04's subject, the fee values C14's).
func (h *qhist) opEndBlock() {
	before := map[uint64]uint64{}
	for _, iv := range h.allItems() {
		before[iv.id] = iv.qm.GetGasEstimate()
	}
	if err := h.e.cons.CheckAndProcessEstimatedMessages(h.e.ctx); err != nil {
		h.t.Fatalf("CheckAndProcessEstimatedMessages: %v", err)
	}
	h.run.Count("op", "endblock")
	var elected []itemView
	for _, iv := range h.allItems() {
		if iv.qm.GetGasEstimate() != before[iv.id] {
			elected = append(elected, iv)
		}
	}
	if len(elected) == 0 {
		h.run.Count("endblock-effect", "nothing")
		h.replay = append(h.replay, map[string]any{"op": "endblock", "elected": 0})
		h.observe("endblock")
		return
	}
	for i, iv := range elected {
		_, _, fees := describe(iv.em)
		f := "(0, 0, 0)"
		if fees != nil {
			f = fmt.Sprintf("(%s, %s, %s)", emit.ZU(fees.RelayerFee), emit.ZU(fees.CommunityFee), emit.ZU(fees.SecurityFee))
			h.run.Count("endblock-effect", "elected+fees")
		} else {
			h.run.Count("endblock-effect", "elected")
		}
		op := fmt.Sprintf("C06.QElect %d %d %s %s", qchainID(iv.chain), iv.id, emit.ZU(iv.qm.GetGasEstimate()), f)
		rep := map[string]any{"op": "endblock elected", "id": iv.id, "estimate": iv.qm.GetGasEstimate(), "fees": fmt.Sprint(fees)}
		if i+1 < len(elected) {
			rep["outcome"] = 0
			h.replay = append(h.replay, rep)
			h.steps = append(h.steps, fmt.Sprintf("C06.QStepNoObs (%s) 0", op))
			h.okOps++
		} else {
			h.step(op, 0, rep)
		}
	}
}

// opPublish: a new valset snapshot is built (new id; the validators' CURRENT external accounts; shares changed or not; a
// trait added to an account or not) and published through the real evm keeper (OnSnapshotBuilt's
// PublishSnapshotToAllChains -> PublishValsetToChain -> SendValsetMsgForChain): pending UpdateValset messages of older
// snapshots - possibly already signed - are superseded.  What the publisher did to the queues is read back: deleted messages
// are Remove steps, queued ones Put steps; a message whose content changed IN PLACE is a Replace step (Put with
// MsgIDToReplace keeps SignData - the oracle then re-verifies what is left on it).
func (h *qhist) opPublish(sameMembers bool) {
	r := h.run.Rng
	h.snapID++
	if h.snapID < 2 {
		h.snapID = 2
	}
	if !sameMembers && r.Intn(2) == 0 {
		h.shares[r.Intn(nVals)] += int64(1 + r.Intn(3))
	}
	snap := &valsettypes.Snapshot{Id: h.snapID, Height: h.e.ctx.BlockHeight(), CreatedAt: h.e.ctx.BlockTime(), TotalShares: sdkmath.ZeroInt()}
	desc := ""
	for v, val := range h.e.vals {
		if h.shares[v] == 0 {
			h.shares[v] = 1
		}
		var infos []*valsettypes.ExternalChainInfo
		for _, row := range h.reg[v] {
			info := &valsettypes.ExternalChainInfo{ChainType: "evm", ChainReferenceID: row.chain, Address: row.addr, Pubkey: row.key}
			if r.Intn(4) == 0 {
				info.Traits = []string{"mev"} // changes the snapshot, not what is published to the chain
			}
			infos = append(infos, info)
			desc += fmt.Sprintf("%d:%s:%s:%d|", v, row.chain, row.addr, h.shares[v])
		}
		snap.Validators = append(snap.Validators, valsettypes.Validator{Address: val, ShareCount: sdkmath.NewInt(h.shares[v]), State: valsettypes.ValidatorState_ACTIVE, ExternalChainInfos: infos})
		snap.TotalShares = snap.TotalShares.Add(sdkmath.NewInt(h.shares[v]))
	}
	how := "publish-valset:members-changed"
	if desc == h.lastPub {
		how = "publish-valset:same-members-new-id"
	}
	h.lastPub = desc
	h.e.vs.snap = snap
	before := h.snapshotItems()
	if err := h.e.evm.PublishSnapshotToAllChains(h.e.ctx, snap, true); err != nil {
		h.t.Fatalf("PublishSnapshotToAllChains: %v", err)
	}
	h.run.Count("op", how)
	h.readBack(before, how, "publish-effect")
}

// snapshotItems / readBack: what an operation of another module did to the queues, read back and given to the model:
// deleted messages are Remove steps, new ones Put steps, a message whose content changed IN PLACE a Replace step
// (Put with MsgIDToReplace keeps SignData - the oracle then re-verifies what is left on it).
func (h *qhist) snapshotItems() map[uint64]itemView {
	before := map[uint64]itemView{}
	for _, iv := range h.allItems() {
		before[iv.id] = iv
	}
	return before
}

func (h *qhist) readBack(before map[uint64]itemView, how, hist string) {
	type st struct {
		coq string
		rep map[string]any
	}
	var steps []st
	after := map[uint64]bool{}
	var fresh []itemView
	for _, iv := range h.allItems() {
		after[iv.id] = true
		old, was := before[iv.id]
		if !was {
			fresh = append(fresh, iv)
			continue
		}
		_, ob, _ := describe(old.em)
		_, nb, _ := describe(iv.em)
		if ob != nb {
			h.run.Count(hist, fmt.Sprintf("changed in place (%d signatures on it)", len(iv.qm.GetSignData())))
			steps = append(steps, st{fmt.Sprintf("C06.QReplace %d %d %d", qchainID(iv.chain), iv.id, idOf(h.bodyIDs, nb)),
				map[string]any{"op": how + " -> message content replaced in place", "id": iv.id, "chain": iv.chain, "signatures_on_it": len(iv.qm.GetSignData())}})
		}
	}
	var gone []uint64
	for id := range before {
		if !after[id] {
			gone = append(gone, id)
		}
	}
	sort.Slice(gone, func(i, j int) bool { return gone[i] < gone[j] })
	var rm []st
	for _, id := range gone {
		old := before[id]
		h.run.Count(hist, fmt.Sprintf("message deleted (signed: %v)", len(old.qm.GetSignData()) > 0))
		rm = append(rm, st{fmt.Sprintf("C06.QRemove %d %d", qchainID(old.chain), id), map[string]any{"op": how + " -> pending message deleted", "id": id, "chain": old.chain}})
		for i, x := range h.items {
			if x == id {
				h.items = append(h.items[:i], h.items[i+1:]...)
				break
			}
		}
	}
	steps = append(rm, steps...)
	for _, iv := range fresh {
		kind, body, _ := describe(iv.em)
		h.run.Count(hist, "message queued")
		h.items = append(h.items, iv.id)
		h.chainOf[iv.id] = iv.chain
		steps = append(steps, st{fmt.Sprintf("C06.QPut %d %d %d %d %s", qchainID(iv.chain), kind, idOf(h.bodyIDs, body), idOf(h.relIDs, lowerOf(iv.em.AssigneeRemoteAddress)), emit.Bool(iv.qm.GetRequireGasEstimation())),
			map[string]any{"op": how + " -> message queued", "id": iv.id, "chain": iv.chain, "relayer": iv.em.AssigneeRemoteAddress}})
	}
	if len(steps) == 0 {
		h.run.Count(hist, "nothing")
		h.replay = append(h.replay, map[string]any{"op": how})
		h.observe(how)
		return
	}
	for i, x := range steps {
		if i+1 < len(steps) {
			x.rep["outcome"] = 0
			h.replay = append(h.replay, x.rep)
			h.steps = append(h.steps, fmt.Sprintf("C06.QStepNoObs (%s) 0", x.coq))
			h.okOps++
			continue
		}
		h.step(x.coq, 0, x.rep)
	}
}

// opCompassUpgrade (seeded C06-K): a new compass with another unique id is activated for a chain that is already active
// (the end of a compass handover) while messages created - and possibly signed - for the previous compass are still
// queued.  The compass id is hashed into their signing bytes: whatever evm does to them must not leave signatures behind
// that were given for the old id.
func (h *qhist) opCompassUpgrade() { h.opCompassUpgradeOn(qchains[h.run.Rng.Intn(len(qchains))]) }

func (h *qhist) opCompassUpgradeOn(chain string) {
	if h.scIDs[chain] == 0 {
		h.scIDs[chain] = 1
	}
	h.scIDs[chain]++
	newTid := fmt.Sprintf("compass-%d-%s", h.scIDs[chain], chain)
	before := h.snapshotItems()
	if err := h.e.evm.ActivateChainReferenceID(h.e.ctx, chain, &evmtypes.SmartContract{Id: h.scIDs[chain]}, "0x5A3E98aA540B2C3545E1DbA2D5e8B3e3e8bD3c7e", []byte(newTid)); err != nil {
		h.t.Fatalf("ActivateChainReferenceID: %v", err)
	}
	h.tids[chain] = newTid
	h.run.Count("op", "compass-upgrade")
	h.readBack(before, "compass upgrade on "+chain+" (new id "+newTid+")", "compass-upgrade-effect")
}

// opFeeSettings (seeded C06-M): the relayer fee setting of a validator for the chains is withdrawn (set to zero: the fees of
// a message assigned to it cannot be calculated, its estimate election is rolled back) or set (again).
func (h *qhist) opFeeSettings() {
	r := h.run.Rng
	v := r.Intn(nVals)
	rfs := &treasurytypes.RelayerFeeSetting{ValAddress: h.e.vals[v].String()}
	how := "relayer-fee-withdrawn"
	mult := sdkmath.LegacyZeroDec() // an entry per chain with multiplicator zero (a setting WITHOUT an entry for the chain makes
	// GetCombinedFeesForRelay dereference a nil decimal: reported separately, fix 'relayer fee without an entry for the chain')
	if r.Intn(3) > 0 {
		how = "relayer-fee-set"
		mult = sdkmath.LegacyNewDecWithPrec(int64(100+r.Intn(200)+v), 2)
	}
	for _, c := range qchains {
		rfs.Fees = append(rfs.Fees, treasurytypes.RelayerFeeSetting_FeeSetting{ChainReferenceId: c, Multiplicator: mult})
	}
	if err := h.e.tre.SetRelayerFee(h.e.ctx, h.e.vals[v], rfs); err != nil {
		h.t.Fatalf("SetRelayerFee: %v", err)
	}
	h.run.Count("op", how)
	h.replay = append(h.replay, map[string]any{"op": how, "validator": v})
	h.observe(how)
}

func (h *qhist) opRemove() {
	id, chain, ok := h.pickItem()
	if !ok {
		return
	}
	err := h.e.cons.DeleteJob(h.e.ctx, turnstoneQueue(chain), id)
	c := classOf(err)
	if c == 50 {
		h.t.Fatalf("DeleteJob: %v", err)
	}
	if err == nil {
		for i, x := range h.items {
			if x == id {
				h.items = append(h.items[:i], h.items[i+1:]...)
				break
			}
		}
	}
	h.run.Count("op", "remove")
	h.step(fmt.Sprintf("C06.QRemove %d %d", qchainID(chain), id), c, map[string]any{"op": "remove", "chain": chain, "id": id})
}

func (h *qhist) opReRegister() {
	r := h.run.Rng
	v := r.Intn(nVals)
	var rows []acctRow
	switch r.Intn(6) {
	case 0: // somebody else's key / address: collision expected
		o := (v + 1 + r.Intn(nVals-1)) % nVals
		if len(h.reg[o]) > 0 {
			rows = append(rows, h.reg[o][r.Intn(len(h.reg[o]))])
		}
		rows = append(rows, h.row(qchains[r.Intn(2)], r.Intn(len(h.keys))))
	case 1: // same again
		rows = h.reg[v]
	case 2: // rotate the key of one chain only: the account of the other chain stays as it is
		c := qchains[r.Intn(2)]
		for _, row := range h.reg[v] {
			if row.chain != c {
				rows = append(rows, row)
			}
		}
		rows = append(rows, h.row(c, r.Intn(len(h.keys))))
		h.run.Count("op", "rotate-one-chain")
	default: // a (probably) fresh key on one or both chains
		for _, c := range qchains {
			if r.Intn(3) > 0 {
				rows = append(rows, h.row(c, r.Intn(len(h.keys))))
			}
		}
	}
	h.opRegister(v, rows)
}

// opHandover: validator a releases its accounts (moves to fresh keys) and validator b registers them:
// a key changes hands while messages it already signed are still queued.
func (h *qhist) opHandover() {
	r := h.run.Rng
	a := r.Intn(nVals)
	b := (a + 1 + r.Intn(nVals-1)) % nVals
	old := h.reg[a]
	if len(old) == 0 {
		return
	}
	h.run.Count("op", "key-handover")
	var fresh []acctRow
	for _, row := range old {
		fresh = append(fresh, h.row(row.chain, r.Intn(len(h.keys))))
	}
	h.opRegister(a, fresh)
	h.opRegister(b, old)
}

func (h *qhist) opReassign() {
	if len(h.items) == 0 {
		return
	}
	r := h.run.Rng
	id := h.items[r.Intn(len(h.items))]
	chain := h.chainOf[id]
	nv := r.Intn(nVals)
	rel := spell(r, h.keyAddr(r.Intn(len(h.keys))))
	err := h.e.cons.VerifReassignMessageValidator(h.e.ctx, h.e.vals[nv].String(), rel, id, turnstoneQueue(chain))
	c := classOf(err)
	if c == 50 {
		h.t.Fatalf("reassign: %v", err)
	}
	if h.moved == nil {
		h.moved = map[uint64]bool{}
	}
	h.moved[id] = true
	h.run.Count("op", "reassign(latent)")
	h.step(fmt.Sprintf("C06.QReassign %d %d %d", qchainID(chain), id, idOf(h.relIDs, lowerOf(rel))), c, map[string]any{"op": "reassign", "id": id, "relayer": rel})
}

func (h *qhist) finish() {
	nontrivial := h.okOps > 0 && h.rejOps > 0
	h.run.Case("C06.CQueue "+emit.List(h.steps), nontrivial, map[string]any{"part": "queue", "steps": len(h.steps)})
}

func runQueueHistory(t *testing.T, run *emit.Run, latent bool) *qhist {
	h := newQHist(t, run)
	h.latent = latent
	r := run.Rng
	// every validator registers key i on chain-a, most also on chain-b
	for v := 0; v < nVals; v++ {
		rows := []acctRow{h.row(qchains[0], v)}
		if r.Intn(4) > 0 {
			rows = append(rows, h.row(qchains[1], v))
		}
		h.opRegister(v, rows)
	}
	h.opPut()
	n := 14 + r.Intn(14)
	for i := 0; i < n; i++ {
		switch k := r.Intn(100); {
		case k < 12:
			h.opPut()
		case k < 49:
			h.opSign()
		case k < 55:
			h.opSignMulti()
		case k < 68:
			h.opEstimates()
		case k < 71:
			h.opPublish(r.Intn(2) == 0)
		case k < 72:
			h.opCompassUpgrade()
		case k < 82:
			h.opEndBlock()
		case k < 86:
			h.opReRegister()
		case k < 88:
			h.opFeeSettings()
		case k < 92:
			h.opHandover()
		case k < 96:
			h.opRemove()
		default:
			if latent {
				h.opReassign()
			} else {
				h.opSign()
			}
		}
	}
	h.finish()
	return h
}
