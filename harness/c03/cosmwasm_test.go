//go:build verif

package c03

// CosmWasm custom-message entry points (third round): util/libwasm's router -> the scheduler /
// skyway / tokenfactory bindings. These are message paths whose principal is the dispatching
// CONTRACT (wasmd authenticated its address; the transaction's signer only executed the contract):
// every identity a binding hands to a keeper must be the contract's, or a reviewed beneficiary.
// The bodies below name FOREIGN principals in every identity-bearing field. Dispatch goes through the
// REAL router (NewRouterMessageDecorator) and the REAL messengers over the real keepers; no wasm VM
// is needed. Oracle: the same KV attribution — a queued cross-chain call's SenderAddress is state
// attributed to that address (the queue record's core carries it).

import (
	"encoding/json"
	"fmt"
	"strings"
	"testing"

	"cosmossdk.io/log"
	wasmkeeper "github.com/CosmWasm/wasmd/x/wasm/keeper"
	wasmvmtypes "github.com/CosmWasm/wasmvm/v2/types"
	sdk "github.com/cosmos/cosmos-sdk/types"
	"github.com/palomachain/paloma/v2/util/libwasm"
	schedbindings "github.com/palomachain/paloma/v2/x/scheduler/bindings"
	schedulertypes "github.com/palomachain/paloma/v2/x/scheduler/types"
	skywaybindings "github.com/palomachain/paloma/v2/x/skyway/bindings"
	tfbindings "github.com/palomachain/paloma/v2/x/tokenfactory/bindings"
)

var wasmKinds = []string{
	"wasm.scheduler.execute_job", "wasm.scheduler.execute_job", "wasm.scheduler.legacy_execute_job", "wasm.scheduler.create_job",
	"wasm.tokenfactory.mint_tokens", "wasm.tokenfactory.change_admin", "wasm.tokenfactory.burn_tokens", "wasm.tokenfactory.create_denom",
	"wasm.skyway.send_tx", "wasm.skyway.cancel_tx", "wasm.skyway.set_erc20_to_denom",
}

func isWasmKind(k string) bool { return strings.HasPrefix(k, "wasm.") }

func wasmEnv(k string) int {
	switch {
	case strings.HasPrefix(k, "wasm.scheduler."):
		return 3
	case strings.HasPrefix(k, "wasm.tokenfactory."):
		return 2
	}
	return 1
}

// the router as app.go wires it, over the keepers this environment has
func (e *env) wasmRouter() wasmkeeper.Messenger {
	var legacy libwasm.Messenger[wasmvmtypes.CosmosMsg]
	switch {
	case e.three:
		return libwasm.NewRouterMessageDecorator(log.NewNopLogger(), schedbindings.NewLegacyMessenger(&e.f3.SchedulerKeeper),
			schedbindings.NewMessenger(&e.f3.SchedulerKeeper, e.sched), nil, nil)(nil)
	case e.two:
		return libwasm.NewRouterMessageDecorator(log.NewNopLogger(), legacy, nil, nil, tfbindings.NewMessenger(&e.bank, &e.tfK))(nil)
	}
	return libwasm.NewRouterMessageDecorator(log.NewNopLogger(), legacy, nil, skywaybindings.NewMessenger(e.skyway), tfbindings.NewMessenger(&e.in.BankKeeper, &e.tfK))(nil)
}

func (e *env) buildWasm(t *testing.T, s scen) (*built, error) {
	b := &built{}
	nm := func(f string) int {
		if v, ok := s.Named[f]; ok {
			return v
		}
		return -3 // the field is left out of the body
	}
	addr := func(i int) string {
		if i == -3 {
			return ""
		}
		if i < 0 || i >= nActors {
			return "not-an-address"
		}
		return e.acc(i)
	}
	if s.Creator < 0 || s.Creator >= nActors {
		return nil, fmt.Errorf("a wasm dispatch needs a contract address")
	}
	contract := e.actors[s.Creator]
	var body any
	switch s.Kind {
	case "wasm.scheduler.execute_job", "wasm.scheduler.legacy_execute_job":
		b.fields = []string{"Sender"}
		inner := map[string]any{"job_id": s.ID, "payload": []byte{0x0a, 0x0b, byte(s.Creator + 1)}}
		if s.Kind == "wasm.scheduler.legacy_execute_job" {
			b.fields = nil
			body = inner
		} else {
			if v := nm("Sender"); v != -3 {
				inner["sender"] = addr(v)
			}
			body = map[string]any{"scheduler_msg": map[string]any{"execute_job": inner}}
		}
		_, err := e.f3.SchedulerKeeper.GetJob(e.ctx, s.ID)
		b.biz = err == nil && s.ID != ""
	case "wasm.scheduler.create_job":
		body = map[string]any{"scheduler_msg": map[string]any{"create_job": map[string]any{"job": map[string]any{
			"job_id": s.ID, "chain_type": "evm", "chain_reference_id": chain,
			"definition": `{"abi":"0xabcd","address":"0x1111111111111111111111111111111111111111"}`, "payload": `{"hexPayload":"0a0b0c0d"}`,
			"payload_modifiable": true}}}}
		_, err := e.f3.SchedulerKeeper.GetJob(e.ctx, s.ID)
		b.biz = wellFormedJobID(s.ID) && err != nil
	case "wasm.tokenfactory.create_denom":
		body = map[string]any{"token_factory_msg": map[string]any{"create_denom": map[string]any{"subdenom": s.ID}}}
		b.biz = wellFormedSubdenom(s.ID) && !e.denoms[fmt.Sprintf("%d/%s", s.Creator, s.ID)]
	case "wasm.tokenfactory.mint_tokens", "wasm.tokenfactory.burn_tokens", "wasm.tokenfactory.change_admin":
		denom := fmt.Sprintf("factory/%s/%s", e.acc(s.Of), s.ID)
		adm, _ := e.tfK.GetAuthorityMetadata(e.ctx, denom)
		isAdmin := e.denoms[fmt.Sprintf("%d/%s", s.Of, s.ID)] && adm.Admin == contract.String()
		switch s.Kind {
		case "wasm.tokenfactory.mint_tokens":
			b.fields = []string{"MintToAddress"}
			to := nm("MintToAddress")
			body = map[string]any{"token_factory_msg": map[string]any{"mint_tokens": map[string]any{"denom": denom, "amount": "7", "mint_to_address": addr(to)}}}
			b.biz = isAdmin && to >= 0 && to < nActors
		case "wasm.tokenfactory.burn_tokens":
			b.fields = []string{"BurnFromAddress"}
			from := nm("BurnFromAddress")
			body = map[string]any{"token_factory_msg": map[string]any{"burn_tokens": map[string]any{"denom": denom, "amount": "3", "burn_from_address": addr(from)}}}
			b.biz = isAdmin && (from == -3 || from == s.Creator) && e.bank.GetBalance(e.ctx, contract, denom).Amount.GTE(sdk.NewInt64Coin(denom, 3).Amount)
		default:
			b.fields = []string{"NewAdminAddress"}
			na := nm("NewAdminAddress")
			body = map[string]any{"token_factory_msg": map[string]any{"change_admin": map[string]any{"denom": denom, "new_admin_address": addr(na)}}}
			b.biz = isAdmin && na >= 0 && na < nActors
		}
	case "wasm.skyway.send_tx":
		body = map[string]any{"skyway_msg": map[string]any{"send_tx": map[string]any{"remote_chain_destination_address": "0x4444444444444444444444444444444444444444",
			"amount": "5ugrain", "chain_reference_id": chain}}}
		b.biz = isVal(s.Creator)
	case "wasm.skyway.cancel_tx":
		body = map[string]any{"skyway_msg": map[string]any{"cancel_tx": map[string]any{"transaction_id": s.TxID}}}
		tx, err := e.skywayK.GetUnbatchedTxById(e.ctx, s.TxID)
		b.biz = err == nil && tx != nil && tx.Sender.Equals(contract)
	case "wasm.skyway.set_erc20_to_denom":
		denom := fmt.Sprintf("factory/%s/%s", e.acc(s.Of), s.ID)
		body = map[string]any{"skyway_msg": map[string]any{"set_erc20_to_denom": map[string]any{"erc20_address": s.Erc, "token_denom": denom, "chain_reference_id": chain}}}
		inner, err := e.build(t, scen{Kind: "skyway.MsgSetERC20ToTokenDenom", Creator: s.Creator, Signers: []int{s.Creator}, Of: s.Of, ID: s.ID, Erc: s.Erc, SigBy: -1})
		if err != nil {
			return nil, err
		}
		b.biz, b.nameOnly = inner.biz, inner.nameOnly
	default:
		return nil, fmt.Errorf("kind %s not driven", s.Kind)
	}
	bz, err := json.Marshal(body)
	if err != nil {
		return nil, err
	}
	router := e.wasmRouter()
	b.run = func(ctx sdk.Context) error {
		_, _, _, err := router.DispatchMsg(ctx, contract, "", wasmvmtypes.CosmosMsg{Custom: bz})
		if err == nil && s.Kind == "wasm.tokenfactory.create_denom" {
			e.denoms[fmt.Sprintf("%d/%s", s.Creator, s.ID)] = true
		}
		return err
	}
	return b, nil
}

// wasmPre: honest scene for a wasm dispatch, written through the real keepers / msg servers.
func (e *env) wasmPre(t *testing.T, s scen) {
	must := func(err error) {
		if err != nil {
			t.Fatalf("wasm scene: %v", err)
		}
	}
	switch wasmEnv(s.Kind) {
	case 3:
		// somebody else owns a job
		owner := s.Of
		_, err := e.sched.CreateJob(e.ctx, &schedulertypes.MsgCreateJob{Metadata: e.meta(scen{Creator: owner, Signers: []int{owner}}),
			Job: &schedulertypes.Job{ID: "vault-rebalance", Routing: schedulertypes.Routing{ChainType: "evm", ChainReferenceID: chain},
				Definition:          []byte(`{"abi":"0xabcd","address":"0x1111111111111111111111111111111111111111"}`),
				Payload:             []byte(`{"hexPayload":"0a0b0c0d"}`),
				IsPayloadModifiable: true}})
		must(err)
	case 2:
		// a denom of s.Of (the contract itself, or somebody else), some of it minted to its admin
		for _, p := range []scen{{Kind: "tokenfactory.MsgCreateDenom", Creator: s.Of, Signers: []int{s.Of}, ID: "gold", SigBy: -1},
			{Kind: "tokenfactory.MsgMint", Creator: s.Of, Signers: []int{s.Of}, ID: "gold", Of: s.Of, SigBy: -1}} {
			pb, err := e.build(t, p)
			must(err)
			must(pb.run(e.ctx))
		}
	default:
		// a transfer of somebody else is pending; the contract administers a denom of its own
		for _, p := range []scen{{Kind: "skyway.MsgSendToRemote", Creator: 2, Signers: []int{2}, SigBy: -1},
			{Kind: "tokenfactory.MsgCreateDenom", Creator: s.Creator, Signers: []int{s.Creator}, ID: "junk", SigBy: -1}} {
			pb, err := e.build(t, p)
			must(err)
			must(pb.run(e.ctx))
		}
	}
}
