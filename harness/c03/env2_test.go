//go:build verif

package c03

// Second environment: REAL auth, bank, staking, distribution, feegrant, tokenfactory and paloma
// keepers on one multistore (wired as app.go / the C16 and C18 harnesses wire them), for the
// tokenfactory and paloma msg servers. Here the decorator's feegrant keeper lives in the same
// context as everything else.

import (
	"testing"
	"time"

	"cosmossdk.io/log"
	"cosmossdk.io/store"
	"cosmossdk.io/store/metrics"
	storetypes "cosmossdk.io/store/types"
	"cosmossdk.io/x/feegrant"
	feegrantkeeper "cosmossdk.io/x/feegrant/keeper"
	feegrantmodule "cosmossdk.io/x/feegrant/module"
	tmproto "github.com/cometbft/cometbft/proto/tendermint/types"
	dbm "github.com/cosmos/cosmos-db"
	"github.com/cosmos/cosmos-sdk/codec"
	"github.com/cosmos/cosmos-sdk/runtime"
	sdk "github.com/cosmos/cosmos-sdk/types"
	moduletestutil "github.com/cosmos/cosmos-sdk/types/module/testutil"
	"github.com/cosmos/cosmos-sdk/x/auth"
	authcodec "github.com/cosmos/cosmos-sdk/x/auth/codec"
	authkeeper "github.com/cosmos/cosmos-sdk/x/auth/keeper"
	authtypes "github.com/cosmos/cosmos-sdk/x/auth/types"
	"github.com/cosmos/cosmos-sdk/x/auth/vesting"
	"github.com/cosmos/cosmos-sdk/x/bank"
	bankkeeper "github.com/cosmos/cosmos-sdk/x/bank/keeper"
	banktypes "github.com/cosmos/cosmos-sdk/x/bank/types"
	"github.com/cosmos/cosmos-sdk/x/distribution"
	distrkeeper "github.com/cosmos/cosmos-sdk/x/distribution/keeper"
	distrtypes "github.com/cosmos/cosmos-sdk/x/distribution/types"
	govtypes "github.com/cosmos/cosmos-sdk/x/gov/types"
	minttypes "github.com/cosmos/cosmos-sdk/x/mint/types"
	paramskeeper "github.com/cosmos/cosmos-sdk/x/params/keeper"
	paramstypes "github.com/cosmos/cosmos-sdk/x/params/types"
	"github.com/cosmos/cosmos-sdk/x/staking"
	stakingkeeper "github.com/cosmos/cosmos-sdk/x/staking/keeper"
	stakingtypes "github.com/cosmos/cosmos-sdk/x/staking/types"
	chainparams "github.com/palomachain/paloma/v2/app/params"
	"github.com/palomachain/paloma/v2/testutil/common"
	palomamodule "github.com/palomachain/paloma/v2/x/paloma"
	palomakeeper "github.com/palomachain/paloma/v2/x/paloma/keeper"
	palomatypes "github.com/palomachain/paloma/v2/x/paloma/types"
	"github.com/palomachain/paloma/v2/x/skyway/keeper"
	"github.com/palomachain/paloma/v2/x/tokenfactory"
	tfkeeper "github.com/palomachain/paloma/v2/x/tokenfactory/keeper"
	tftypes "github.com/palomachain/paloma/v2/x/tokenfactory/types"
)

func setup2(t *testing.T) *env {
	common.SetupPalomaPrefixes()
	names := []string{authtypes.StoreKey, banktypes.StoreKey, stakingtypes.StoreKey, distrtypes.StoreKey, paramstypes.StoreKey,
		feegrant.StoreKey, tftypes.StoreKey, palomatypes.StoreKey}
	keys := storetypes.NewKVStoreKeys(names...)
	tkeyParams := storetypes.NewTransientStoreKey(paramstypes.TStoreKey)
	enc := moduletestutil.MakeTestEncodingConfig(auth.AppModuleBasic{}, bank.AppModuleBasic{}, staking.AppModuleBasic{},
		distribution.AppModuleBasic{}, tokenfactory.AppModuleBasic{}, vesting.AppModuleBasic{}, feegrantmodule.AppModuleBasic{})
	palomatypes.RegisterInterfaces(enc.InterfaceRegistry)
	cdc := enc.Codec
	db := dbm.NewMemDB()
	ms := store.NewCommitMultiStore(db, log.NewNopLogger(), metrics.NewNoOpMetrics())
	for _, n := range names {
		ms.MountStoreWithDB(keys[n], storetypes.StoreTypeIAVL, db)
	}
	ms.MountStoreWithDB(tkeyParams, storetypes.StoreTypeTransient, db)
	if err := ms.LoadLatestVersion(); err != nil {
		t.Fatal(err)
	}
	ctx := sdk.NewContext(ms, tmproto.Header{Height: 1234, Time: time.Date(2024, 1, 1, 0, 0, 0, 0, time.UTC)}, false, log.NewNopLogger())
	pk := paramskeeper.NewKeeper(cdc, codec.NewLegacyAmino(), keys[paramstypes.StoreKey], tkeyParams)
	pk.Subspace(tftypes.ModuleName)
	pk.Subspace(palomatypes.ModuleName)
	tfSub, _ := pk.GetSubspace(tftypes.ModuleName)
	palSub, _ := pk.GetSubspace(palomatypes.ModuleName)
	maccPerms := map[string][]string{
		authtypes.FeeCollectorName:     nil,
		distrtypes.ModuleName:          nil,
		minttypes.ModuleName:           {authtypes.Minter, authtypes.Burner},
		stakingtypes.BondedPoolName:    {authtypes.Burner, authtypes.Staking},
		stakingtypes.NotBondedPoolName: {authtypes.Burner, authtypes.Staking},
		govtypes.ModuleName:            {authtypes.Burner},
		tftypes.ModuleName:             {authtypes.Minter, authtypes.Burner},
		palomatypes.ModuleName:         nil,
	}
	authority := authtypes.NewModuleAddress(govtypes.ModuleName).String()
	ak := authkeeper.NewAccountKeeper(cdc, runtime.NewKVStoreService(keys[authtypes.StoreKey]), authtypes.ProtoBaseAccount,
		maccPerms, authcodec.NewBech32Codec(chainparams.AccountAddressPrefix), chainparams.AccountAddressPrefix, authority)
	blocked := map[string]bool{}
	for acc := range maccPerms {
		blocked[authtypes.NewModuleAddress(acc).String()] = true
	}
	delete(blocked, authtypes.NewModuleAddress(govtypes.ModuleName).String())
	bk := bankkeeper.NewBaseKeeper(cdc, runtime.NewKVStoreService(keys[banktypes.StoreKey]), ak, blocked, authority, log.NewNopLogger())
	if err := bk.SetParams(ctx, banktypes.Params{DefaultSendEnabled: true}); err != nil {
		t.Fatal(err)
	}
	sk := stakingkeeper.NewKeeper(cdc, runtime.NewKVStoreService(keys[stakingtypes.StoreKey]), ak, bk, authority,
		authcodec.NewBech32Codec(chainparams.ValidatorAddressPrefix), authcodec.NewBech32Codec(chainparams.ConsNodeAddressPrefix))
	dk := distrkeeper.NewKeeper(cdc, runtime.NewKVStoreService(keys[distrtypes.StoreKey]), ak, bk, sk, authtypes.FeeCollectorName, authority)
	if err := dk.Params.Set(ctx, distrtypes.DefaultParams()); err != nil {
		t.Fatal(err)
	}
	if err := dk.FeePool.Set(ctx, distrtypes.InitialFeePool()); err != nil {
		t.Fatal(err)
	}
	for name := range maccPerms {
		ak.GetModuleAccount(ctx, name)
	}
	fg := feegrantkeeper.NewKeeper(cdc, runtime.NewKVStoreService(keys[feegrant.StoreKey]), ak).SetBankKeeper(bk)
	tk := tfkeeper.NewKeeper(keys[tftypes.StoreKey], tfSub, ak, bk, dk, authority)
	tk.SetParams(ctx, tftypes.Params{})
	pal := palomakeeper.NewKeeper(cdc, runtime.NewKVStoreService(keys[palomatypes.StoreKey]), palSub, "v1.0.0", "ugrain",
		ak, bk, fg, nil, nil, authcodec.NewBech32Codec(chainparams.ValidatorAddressPrefix), authority)

	e := &env{jobIDs: map[string]bool{}, denoms: map[string]bool{}, minted: map[string]bool{}, licensed: map[int]bool{}, two: true, ctx: ctx, fgCtx: ctx, fg: fg, keys: map[string]storetypes.StoreKey{}}
	for _, n := range names {
		e.keys[n] = keys[n]
	}
	e.dec = palomamodule.NewVerifyAuthorisedSignatureDecorator(fg)
	e.tf = tfkeeper.NewMsgServerImpl(tk)
	e.tfK = tk
	e.palomaK = pal
	e.cdc2 = cdc
	e.paloma = palomakeeper.NewMsgServerImpl(*pal)
	e.bank = bk
	for i := 0; i < nVals; i++ {
		e.actors = append(e.actors, keeper.AccAddrs[i])
	}
	for i := nVals; i < idxGov; i++ {
		b := make([]byte, 20)
		b[0], b[1], b[2], b[19] = 0xC0, 0x03, 0x5A, byte(i+1)
		e.actors = append(e.actors, sdk.AccAddress(b))
	}
	e.actors = append(e.actors, authtypes.NewModuleAddress(govtypes.ModuleName))
	// actors 0..5 hold funds (and therefore have accounts); 6 and 7 do not exist yet
	for i := 0; i <= idxUser0; i++ {
		c := sdk.NewCoins(sdk.NewInt64Coin("ugrain", 1_000_000))
		if err := bk.MintCoins(ctx, minttypes.ModuleName, c); err != nil {
			t.Fatal(err)
		}
		if err := bk.SendCoinsFromModuleToAccount(ctx, minttypes.ModuleName, e.actors[i], c); err != nil {
			t.Fatal(err)
		}
	}
	return e
}
