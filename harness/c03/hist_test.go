//go:build verif

package c03

// Object histories (second round): sequences of correctly self-signed messages by several
// principals over OBJECTS that are referred to by an identifier the sender chooses (a token denom,
// an ERC20 binding, a pending transfer), interleaved with NON-MESSAGE paths that rewrite state held
// in a principal's name: the ExportGenesis -> InitGenesis round trip of a Paloma module.
//
// Every message step is delivered exactly like a single case (ValidateBasic ;; decorator ;; real
// msg server in a cache context) under the same KV attribution oracle. A genesis step exports the
// module's state with the real ExportGenesis, passes it through the module's JSON codec, wipes the
// module's store and imports it with the real InitGenesis; its oracle compares, per actor, every KV
// pair attributed to it before and after, and the matrix "who may act on what" (probe messages in
// discarded cache contexts).
//
// The whole history is also given to the Coq model (Auth/Objects.v), which re-runs it and compares
// the accept / reject verdict of every step and the final projection (admin of every denom, denom
// bound to every ERC20 contract, sender of every pending transfer).

import (
	"crypto/sha256"
	"encoding/hex"
	"fmt"
	"math/rand"
	"os"
	"runtime/debug"
	"regexp"
	"sort"
	"strings"
	"testing"

	"bytes"

	sdkmath "cosmossdk.io/math"
	storetypes "cosmossdk.io/store/types"
	sdk "github.com/cosmos/cosmos-sdk/types"
	"github.com/palomachain/paloma/v2/verifharness/emit"
	consensusmod "github.com/palomachain/paloma/v2/x/consensus"
	consensustypes "github.com/palomachain/paloma/v2/x/consensus/types"
	evmmod "github.com/palomachain/paloma/v2/x/evm"
	evmtypes "github.com/palomachain/paloma/v2/x/evm/types"
	palomamod "github.com/palomachain/paloma/v2/x/paloma"
	palomatypes "github.com/palomachain/paloma/v2/x/paloma/types"
	schedmod "github.com/palomachain/paloma/v2/x/scheduler"
	schedtypes "github.com/palomachain/paloma/v2/x/scheduler/types"
	"github.com/palomachain/paloma/v2/x/skyway/keeper"
	skywaytypes "github.com/palomachain/paloma/v2/x/skyway/types"
	tftypes "github.com/palomachain/paloma/v2/x/tokenfactory/types"
	treasurymod "github.com/palomachain/paloma/v2/x/treasury"
	treasurytypes "github.com/palomachain/paloma/v2/x/treasury/types"
	valsetmod "github.com/palomachain/paloma/v2/x/valset"
	valsettypes "github.com/palomachain/paloma/v2/x/valset/types"
)

// ERC20 contracts of the histories: id 1 is the contract the environment's governance binding
// (ugrain) uses; 2 and 3 are free at the start.
var ercs = []string{tokReg, "0x7580bFE88Dd3d07947908FAE12d95872a260F2D8", "0x9fE46736679d2D9a65F0992F2272dE9f3c7fa6e0"}

var ercRe = regexp.MustCompile(`^(0[xX])?[0-9a-fA-F]{40}$`) // libeth.ValidateEthAddress: the prefix is optional

// ercID: which contract a submitted string names (case-insensitively: an address has one identity
// whatever its checksum casing), 0 = none of them / malformed.
func ercID(s string) (int64, bool) {
	if !ercRe.MatchString(s) {
		return 0, false
	}
	for i, e := range ercs {
		if strings.EqualFold(e[2:], s[len(s)-40:]) {
			return int64(i + 1), true
		}
	}
	return 0, true
}

var subs = []string{"gold", "silver", "junk"}

func subID(s string) int64 {
	for i, x := range subs {
		if x == s {
			return int64(i + 1)
		}
	}
	return 0
}

// histSubs: identities of subdenom strings within one history; a near-miss spelling is a subdenom
// of its own (4, 5, ...).
type histSubs struct {
	ids   map[string]int64
	order []string
}

func newHistSubs() *histSubs {
	h := &histSubs{ids: map[string]int64{}}
	for _, x := range subs {
		h.id(x)
	}
	return h
}

func (h *histSubs) id(s string) int64 {
	if v, ok := h.ids[s]; ok {
		return v
	}
	h.ids[s] = int64(len(h.order) + 1)
	h.order = append(h.order, s)
	return h.ids[s]
}

// module ids of genesis steps in the Coq cases
var modIDs = map[string]int64{"tokenfactory": 1, "skyway": 2, "treasury": 3, "paloma": 4, "evm": 5, "valset": 6, "consensus": 7, "scheduler": 8, "metrix": 9}

// modules whose genesis carries state attributed to principals: the round trip must reproduce it
// exactly; for the others (only parameters are exported) the import must not attribute anything new
var genesisCarries = map[string]bool{"tokenfactory": true, "skyway": true, "treasury": true, "paloma": true}

func (e *env) moduleStore(mod string) storetypes.StoreKey {
	switch mod {
	case "tokenfactory":
		if e.two {
			return e.keys[tftypes.StoreKey]
		}
		return e.tfStore
	case "skyway":
		return e.skyStore
	case "scheduler":
		return e.keys["upgrade"]
	case "paloma":
		return e.keys[palomatypes.StoreKey]
	case "treasury":
		return e.keys[treasurytypes.StoreKey]
	case "evm":
		return e.keys[evmtypes.StoreKey]
	case "valset":
		return e.keys[valsettypes.StoreKey]
	}
	return e.keys[mod]
}

// roundTrip: the module's real ExportGenesis, its state through the JSON codec (as `export` and
// `init` do), the module's store wiped, the real InitGenesis.
func (e *env) roundTrip(mod string) (err error) {
	defer func() {
		if r := recover(); r != nil {
			err = fmt.Errorf("panic: %v", r)
			if os.Getenv("VERIF_DEBUG") != "" {
				fmt.Printf("DEBUGSTACK %s\n", debug.Stack())
			}
		}
	}()
	ctx := e.ctx
	wipe := func() {
		st := ctx.KVStore(e.moduleStore(mod))
		var ks [][]byte
		it := st.Iterator(nil, nil)
		for ; it.Valid(); it.Next() {
			ks = append(ks, append([]byte(nil), it.Key()...))
		}
		it.Close()
		for _, k := range ks {
			st.Delete(k)
		}
	}
	switch mod {
	case "tokenfactory":
		gs := e.tfK.ExportGenesis(ctx)
		bz := tftypes.ModuleCdc.MustMarshalJSON(gs)
		var in tftypes.GenesisState
		tftypes.ModuleCdc.MustUnmarshalJSON(bz, &in)
		if err := in.Validate(); err != nil {
			return fmt.Errorf("exported genesis does not validate: %w", err)
		}
		wipe()
		e.tfK.InitGenesis(ctx, in)
	case "skyway":
		gs := keeper.ExportGenesis(ctx, e.skywayK)
		bz := e.in.Marshaler.MustMarshalJSON(&gs)
		var in skywaytypes.GenesisState
		e.in.Marshaler.MustUnmarshalJSON(bz, &in)
		wipe()
		keeper.InitGenesis(ctx, e.skywayK, in)
	case "treasury":
		gs := treasurymod.ExportGenesis(ctx, *e.in.TreasuryKeeper)
		bz := e.in.Marshaler.MustMarshalJSON(gs)
		var in treasurytypes.GenesisState
		e.in.Marshaler.MustUnmarshalJSON(bz, &in)
		wipe()
		treasurymod.InitGenesis(ctx, *e.in.TreasuryKeeper, in)
	case "paloma":
		gs := palomamod.ExportGenesis(ctx, *e.palomaK)
		bz := e.cdc2.MustMarshalJSON(gs)
		var in palomatypes.GenesisState
		e.cdc2.MustUnmarshalJSON(bz, &in)
		wipe()
		palomamod.InitGenesis(ctx, *e.palomaK, in)
	case "evm":
		gs := evmmod.ExportGenesis(ctx, e.in.EvmKeeper)
		bz := e.in.Marshaler.MustMarshalJSON(gs)
		var in evmtypes.GenesisState
		e.in.Marshaler.MustUnmarshalJSON(bz, &in)
		wipe()
		evmmod.InitGenesis(ctx, e.in.EvmKeeper, in)
	case "valset":
		gs := valsetmod.ExportGenesis(ctx, e.in.ValsetKeeper)
		bz := e.in.Marshaler.MustMarshalJSON(gs)
		var in valsettypes.GenesisState
		e.in.Marshaler.MustUnmarshalJSON(bz, &in)
		wipe()
		valsetmod.InitGenesis(ctx, e.in.ValsetKeeper, in)
	case "scheduler":
		gs := schedmod.ExportGenesis(ctx, *e.schedK)
		bz := e.in.Marshaler.MustMarshalJSON(gs)
		var in schedtypes.GenesisState
		e.in.Marshaler.MustUnmarshalJSON(bz, &in)
		wipe()
		schedmod.InitGenesis(ctx, *e.schedK, in)
	default:
		return fmt.Errorf("genesis round trip of %s not driven", mod)
	}
	return nil
}

var _ = consensusmod.InitGenesis
var _ = consensustypes.ModuleName

// scanSets: per actor, the set of digests of KV pairs (store | key | value) mentioning it.
func (e *env) scanSets(ctx sdk.Context) []map[string]bool {
	type needle struct{ raw, acc, val []byte }
	nd := make([]needle, len(e.actors))
	for i, a := range e.actors {
		nd[i] = needle{[]byte(a), []byte(a.String()), []byte(sdk.ValAddress(a).String())}
	}
	out := make([]map[string]bool, len(e.actors))
	for i := range out {
		out[i] = map[string]bool{}
	}
	e.eachPair(ctx, func(n string, key, v []byte) {
		for i := range nd {
			if bytes.Contains(key, nd[i].raw) || bytes.Contains(key, nd[i].acc) || bytes.Contains(key, nd[i].val) ||
				bytes.Contains(v, nd[i].raw) || bytes.Contains(v, nd[i].acc) || bytes.Contains(v, nd[i].val) {
				h := sha256.Sum256(append(append([]byte(n+"|"), key...), v...))
				out[i][n+":"+printable(key)+"="+hex.EncodeToString(h[:6])] = true
			}
		}
	})
	return out
}

// capabilities: who may act on what, observed by probe messages in discarded cache contexts:
// for every denom of the history and every actor, whether its MsgChangeAdmin (to itself) is
// accepted; for every pending transfer and every actor, whether its MsgCancelSendToRemote is.
func (e *env) capabilities(t *testing.T, denoms []string, maxTx uint64) string {
	var sb strings.Builder
	for _, d := range denoms {
		for p := 0; p <= idxUser0+2; p++ {
			cctx, _ := e.ctx.CacheContext()
			m := &tftypes.MsgChangeAdmin{Denom: d, NewAdmin: e.acc(p), Metadata: e.meta(scen{Creator: p, Signers: []int{p}})}
			_, err := e.tf.ChangeAdmin(cctx, m)
			if err == nil {
				fmt.Fprintf(&sb, "admin(%s)=%d;", d[len(d)-6:], p)
			}
		}
	}
	if !e.two {
		for id := uint64(1); id <= maxTx; id++ {
			for p := 0; p <= idxUser0+2; p++ {
				cctx, _ := e.ctx.CacheContext()
				var err error
				func() {
					defer func() {
						if r := recover(); r != nil {
							err = fmt.Errorf("panic")
						}
					}()
					_, err = e.skyway.CancelSendToRemote(cctx, &skywaytypes.MsgCancelSendToRemote{TransactionId: id, Metadata: e.meta(scen{Creator: p, Signers: []int{p}})})
				}()
				if err == nil {
					fmt.Fprintf(&sb, "cancel(%d)=%d;", id, p)
				}
			}
		}
	}
	return sb.String()
}

type histObs struct {
	Steps   []obs             `json:"steps"`
	Admins  map[string]int    `json:"admins"`
	Binds   map[string]string `json:"binds"`
	Pending map[uint64]int    `json:"pending"`
}

func (e *env) actorOf(addr string) int {
	for i := range e.actors {
		if e.acc(i) == addr {
			return i
		}
	}
	return -1
}

// genesisStep runs the round trip of one module under its oracle.
func (e *env) genesisStep(t *testing.T, run *emit.Run, mod string, denoms []string, maxTx uint64, replay any) obs {
	before := e.scanSets(e.ctx)
	govBefore := e.govDigest(e.ctx)
	capBefore := e.capabilities(t, denoms, maxTx)
	err := e.roundTrip(mod)
	if err != nil {
		run.Count("genesis", mod+" failed")
		if genesisCarries[mod] {
			run.Violate("C03:genesis-roundtrip:"+mod, fmt.Sprintf("the state exported by %s cannot be imported again: %v", mod, err), replay)
		}
		return obs{Ante: true, Err: err.Error()}
	}
	after := e.scanSets(e.ctx)
	o := obs{Ante: true, Ok: true}
	for i := range e.actors {
		var gained, lost []string
		for k := range after[i] {
			if !before[i][k] {
				gained = append(gained, k)
			}
		}
		for k := range before[i] {
			if !after[i][k] {
				lost = append(lost, k)
			}
		}
		sort.Strings(gained)
		sort.Strings(lost)
		if len(gained) > 0 || len(lost) > 0 {
			o.Touched = append(o.Touched, i)
		}
		if len(gained) > 0 || (genesisCarries[mod] && len(lost) > 0) {
			run.Violate("C03:genesis-roundtrip:"+mod,
				fmt.Sprintf("ExportGenesis -> InitGenesis of %s (no transaction at all) changed state attributed to actor %d: %d entries appeared / were rewritten %v, %d disappeared %v",
					mod, i, len(gained), trunc(gained), len(lost), trunc(lost)), replay)
		}
		if len(lost) > 0 && !genesisCarries[mod] {
			run.Count("genesis-drops", mod)
		}
	}
	if genesisCarries[mod] && !e.two {
		if g := e.govDigest(e.ctx); g != govBefore {
			run.Violate("C03:genesis-roundtrip:"+mod, fmt.Sprintf("ExportGenesis -> InitGenesis of %s changed governance-held settings", mod), replay)
		}
	}
	if capAfter := e.capabilities(t, denoms, maxTx); capAfter != capBefore {
		run.Violate("C03:genesis-roundtrip-who-may-act:"+mod,
			fmt.Sprintf("after ExportGenesis -> InitGenesis of %s the probe messages of other principals are accepted / refused differently: before [%s] after [%s]", mod, capBefore, capAfter), replay)
	}
	run.Count("genesis", mod)
	return o
}

func printable(k []byte) string {
	for _, c := range k {
		if c < 0x20 || c > 0x7e {
			return hex.EncodeToString(k)
		}
	}
	return string(k)
}

func trunc(xs []string) []string {
	if len(xs) > 3 {
		return append(append([]string{}, xs[:3]...), "...")
	}
	return xs
}

func runHist(t *testing.T, run *emit.Run, s scen, fromCorpus bool) {
	var e *env
	switch s.Env {
	case 2:
		e = setup2(t)
	case 3:
		e = setup3(t)
	default:
		e = setup(t)
	}
	var ho histObs
	var terms []string
	var denoms []string
	seenDenom := map[string]bool{}
	nextTx := uint64(0)
	renounced := map[string]bool{}
	hs := newHistSubs()
	subID := hs.id
	dn := func(st scen) (string, int64, int64) {
		if st.Of < 0 { // a native denom
			return st.ID, 0, map[string]int64{"ugrain": 1, "uother": 2}[st.ID]
		}
		return fmt.Sprintf("factory/%s/%s", e.acc(st.Of), st.ID), pid(st.Of), subID(st.ID)
	}
	for _, st := range s.Hist {
		var o obs
		var term string
		switch st.Kind {
		case "genesis":
			term = fmt.Sprintf("Objects.OGenesis %d", modIDs[st.Mod])
			if st.Mod == "skyway" {
				// the order in which ExportGenesis lists the denom -> erc20 entries (store order)
				var ord []string
				if all, err := e.skywayK.GetAllERC20ToDenoms(e.ctx); err == nil {
					for _, x := range all {
						switch {
						case x.Denom == "ugrain":
							ord = append(ord, emit.Pair("0", "1"))
						case x.Denom == "uother":
							ord = append(ord, emit.Pair("0", "2"))
						default:
							if c, sub, err := tftypes.DeconstructDenom(x.Denom); err == nil {
								ord = append(ord, emit.Pair(emit.ZI(pid(e.actorOf(c))), emit.ZI(subID(sub))))
							}
						}
					}
				}
				term = fmt.Sprintf("Objects.OGenesisSky %s", emit.List(ord))
			}
			o = e.genesisStep(t, run, st.Mod, denoms, nextTx, s)
		default:
			b, err := e.build(t, st)
			if err != nil {
				t.Fatalf("history step %+v cannot be built: %v", st, err)
			}
			d, dc, ds := dn(st)
			funded := false
			if st.Kind == "skyway.MsgSendToRemote" && st.Creator >= 0 && !e.two { // bank state is an input of the model
				funded = e.in.BankKeeper.GetBalance(e.ctx, e.actors[st.Creator], d).Amount.GTE(sdkmath.NewInt(5))
			}
			o = e.deliver(b, st)
			oracleR(run, st, b, o, s)
			if s.Env == 3 { // outside the object model: each step is compared like a single delivery
				run.Case(caseTerm(st, b, o), true, nil)
			}
			switch st.Kind {
			case "tokenfactory.MsgCreateDenom":
				term = fmt.Sprintf("Objects.OCreate %d %d %s", pid(st.Creator), subID(st.ID), emit.Bool(wellFormedSubdenom(st.ID)))
				if o.Ok {
					d = fmt.Sprintf("factory/%s/%s", e.acc(st.Creator), st.ID)
					if !seenDenom[d] {
						seenDenom[d] = true
						denoms = append(denoms, d)
					}
					if !e.two { // bank genesis of the history: the usual senders hold the new token
						c := sdk.NewCoins(sdk.NewCoin(d, sdkmath.NewInt(1000)))
						for _, h := range []int{0, 1, idxUser0} {
							if err := e.in.BankKeeper.MintCoins(e.ctx, skywaytypes.ModuleName, c); err != nil {
								t.Fatal(err)
							}
							if err := e.in.BankKeeper.SendCoinsFromModuleToAccount(e.ctx, skywaytypes.ModuleName, e.actors[h], c); err != nil {
								t.Fatal(err)
							}
						}
					}
				}
			case "tokenfactory.MsgChangeAdmin":
				na := st.Named["NewAdmin"]
				nap := pid(na)
				if na == -3 {
					nap = 0 // renounced: no admin
				}
				term = fmt.Sprintf("Objects.OChangeAdmin %d %d %d %d", pid(st.Creator), dc, ds, nap)
			case "tokenfactory.MsgMint":
				term = fmt.Sprintf("Objects.OMint %d %d %d", pid(st.Creator), dc, ds)
			case "skyway.MsgSetERC20ToTokenDenom":
				id, wf := ercID(st.Erc)
				term = fmt.Sprintf("Objects.OBind %d %d %d %d %s", pid(st.Creator), dc, ds, id, emit.Bool(wf))
			case "skyway.MsgSetERC20MappingProposal":
				id, _ := ercID(st.Erc)
				term = fmt.Sprintf("Objects.OGovBind %d %d %d", dc, ds, id)
			case "skyway.MsgSendToRemote":
				term = fmt.Sprintf("Objects.OSend %d %d %d %s", pid(st.Creator), dc, ds, emit.Bool(funded))
				if o.Ok {
					nextTx++
				}
			case "skyway.MsgCancelSendToRemote":
				term = fmt.Sprintf("Objects.OCancel %d %d", pid(st.Creator), st.TxID)
			default:
				term = "Objects.OOther"
			}
			run.Count("hist-step", fmt.Sprintf("%s ok=%v", st.Kind, o.Ok))
		}
		ho.Steps = append(ho.Steps, o)
		terms = append(terms, emit.Pair(term, emit.Bool(o.Ok)))
		// a denom whose admin role was renounced never gets an admin again, whatever happens
		if s.Env != 3 {
			for _, d := range denoms {
				md, err := e.tfK.GetAuthorityMetadata(e.ctx, d)
				if err != nil {
					continue
				}
				if renounced[d] && md.Admin != "" {
					run.Violate("C03:tokenfactory-renounced-denom-administered-again",
						fmt.Sprintf("step %d (%s by %d): denom %s, whose admin role was renounced, is administered by %s again (it can mint, burn, change admin and metadata)", len(ho.Steps)-1, st.Kind, st.Creator, d, md.Admin), s)
					renounced[d] = false
				}
				if md.Admin == "" {
					renounced[d] = true
				}
			}
		}
	}
	// final projection, read from the real stores
	var admins, binds, pend []string
	ho.Admins, ho.Binds, ho.Pending = map[string]int{}, map[string]string{}, map[uint64]int{}
	for of := 0; of <= idxUser0+2 && s.Env != 3; of++ {
		for _, sub := range hs.order {
			d := fmt.Sprintf("factory/%s/%s", e.acc(of), sub)
			if !seenDenom[d] {
				continue
			}
			md, err := e.tfK.GetAuthorityMetadata(e.ctx, d)
			a := int64(0)
			if err != nil {
				a = 98
			} else if md.Admin != "" {
				a = pid(e.actorOf(md.Admin))
			}
			ho.Admins[d] = int(a)
			admins = append(admins, emit.Pair(emit.ZI(pid(of)), emit.ZI(subID(sub)), emit.ZI(a)))
		}
	}
	if s.Env != 2 && s.Env != 3 {
		for i, x := range ercs {
			ea, _ := skywaytypes.NewEthAddress(x)
			d, err := e.skywayK.GetDenomOfERC20(e.ctx, chain, *ea)
			if err != nil {
				continue
			}
			ho.Binds[x] = d
			dc, ds := int64(0), int64(0)
			switch {
			case d == "ugrain":
				ds = 1
			case d == "uother":
				ds = 2
			default:
				c, sub, err := tftypes.DeconstructDenom(d)
				if err != nil {
					dc, ds = 98, 98
				} else {
					dc, ds = pid(e.actorOf(c)), subID(sub)
				}
			}
			binds = append(binds, emit.Pair(emit.ZI(int64(i+1)), emit.ZI(dc), emit.ZI(ds)))
		}
		txs, err := e.skywayK.GetUnbatchedTransactions(e.ctx)
		if err != nil {
			t.Fatal(err)
		}
		sort.Slice(txs, func(i, j int) bool { return txs[i].Id < txs[j].Id })
		for _, tx := range txs {
			p := e.actorOf(tx.Sender.String())
			ho.Pending[tx.Id] = p
			pend = append(pend, emit.Pair(emit.ZU(tx.Id), emit.ZI(pid(p))))
		}
	}
	if s.Env == 3 {
		run.Count("handover-len", fmt.Sprint(len(s.Hist)))
		return
	}
	run.Case(fmt.Sprintf("C03.CHist %d %s %s %s %s", s.Env, emit.List(terms), emit.List(admins), emit.List(binds), emit.List(pend)),
		true, map[string]any{"scenario": s, "observed": ho})
	run.Count("hist-len", fmt.Sprint(len(s.Hist)))
	if fromCorpus {
		run.Count("source", "corpus")
	}
}

// ---- generator of object histories ----

func selfSigned(kind string, by int) scen {
	return scen{Kind: kind, Creator: by, Signers: []int{by}, SigBy: -1, Named: map[string]int{}}
}

func ercVariant(r *rand.Rand, i int) string {
	x := ercs[i]
	switch r.Intn(6) {
	case 0:
		return strings.ToLower(x)
	case 1:
		return "0x" + strings.ToUpper(x[2:])
	case 2:
		return x[:41] // one digit short
	case 3:
		return x[2:] // without the 0x prefix
	}
	return x
}

// genHist: 3-9 steps. Two or three principals create denoms, hand their administration over,
// bind ERC20 contracts (each other's, governance's, fresh ones, case variants), move and cancel
// transfers (own ids and the others'), while module states go through genesis round trips.
func genHist(r *rand.Rand, env int) scen {
	s := scen{Kind: "hist", Env: env, SigBy: -1}
	who := []int{0, 1, idxUser0}
	if env == 2 {
		who = []int{0, 1, 2, idxUser0}
	}
	p := func() int { return who[r.Intn(len(who))] }
	type den struct {
		of  int
		sub string
	}
	var dens []den
	anyDen := func() den {
		if len(dens) == 0 || r.Intn(8) == 0 {
			return den{p(), subs[r.Intn(len(subs))]}
		}
		return dens[r.Intn(len(dens))]
	}
	txs := 0
	n := 3 + r.Intn(7)
	bound := map[int]bool{0: true} // contracts some step tried to bind (the generator's guess; 0 = governance's)
	boundDen := map[den]bool{}
	if r.Intn(4) == 0 {
		return genTemplate(r, env)
	}
	for i := 0; i < n; i++ {
		x := r.Intn(100)
		switch {
		case len(dens) < 2 && x < 60, x < 12:
			by := p()
			sub := subs[r.Intn(len(subs))]
			if r.Intn(10) == 0 {
				sub = nearMiss(r, sub)
			}
			st := selfSigned("tokenfactory.MsgCreateDenom", by)
			st.ID = sub
			s.Hist = append(s.Hist, st)
			if subID(sub) != 0 {
				dens = append(dens, den{by, sub})
			}
		case x < 30:
			d := anyDen()
			by := d.of
			if r.Intn(3) == 0 {
				by = p()
			}
			st := selfSigned("tokenfactory.MsgChangeAdmin", by)
			st.Of, st.ID = d.of, d.sub
			st.Named["NewAdmin"] = p()
			if r.Intn(4) == 0 {
				st.Named["NewAdmin"] = -3 // renounce
			}
			s.Hist = append(s.Hist, st)
			if st.Named["NewAdmin"] == -3 && r.Intn(2) == 0 {
				// the creator (or somebody else) creates the same subdenom again, then tries to mint / hand over
				again := selfSigned("tokenfactory.MsgCreateDenom", pick(r, d.of, d.of, p()))
				again.ID = d.sub
				s.Hist = append(s.Hist, again)
				ca := selfSigned("tokenfactory.MsgChangeAdmin", d.of)
				ca.Of, ca.ID = d.of, d.sub
				ca.Named["NewAdmin"] = p()
				s.Hist = append(s.Hist, ca)
			}
		case x < 55 && env != 2:
			d := anyDen()
			by := d.of
			if r.Intn(3) == 0 {
				by = p()
			}
			// mostly: a denom of the signer's that is not bound yet, and a contract somebody bound already
			for k := 0; k < 4 && boundDen[d]; k++ {
				d = anyDen()
				by = d.of
			}
			st := selfSigned("skyway.MsgSetERC20ToTokenDenom", by)
			st.Of, st.ID = d.of, d.sub
			ei := r.Intn(len(ercs))
			for k := 0; k < 3 && !bound[ei] && r.Intn(3) != 0; k++ {
				ei = r.Intn(len(ercs))
			}
			st.Erc = ercVariant(r, ei)
			if !bound[ei] {
				boundDen[d] = true
			}
			bound[ei] = true
			s.Hist = append(s.Hist, st)
		case x < 60 && env != 2:
			st := scen{Kind: "skyway.MsgSetERC20MappingProposal", Creator: idxGov, Signers: []int{idxGov}, SigBy: -1, Named: map[string]int{"Authority": idxGov}}
			st.Of, st.ID, st.Erc = -1, "uother", ercs[1+r.Intn(2)]
			if r.Intn(2) == 0 && len(dens) > 0 {
				d := anyDen()
				st.Of, st.ID = d.of, d.sub
			}
			s.Hist = append(s.Hist, st)
		case x < 72 && env != 2:
			d := anyDen()
			st := selfSigned("skyway.MsgSendToRemote", p())
			st.Of, st.ID = d.of, d.sub
			if r.Intn(4) == 0 {
				st.Of, st.ID = -1, "ugrain"
			}
			s.Hist = append(s.Hist, st)
			txs++
		case x < 82 && env != 2:
			st := selfSigned("skyway.MsgCancelSendToRemote", p())
			st.TxID = uint64(1 + r.Intn(txs+1))
			s.Hist = append(s.Hist, st)
		case x < 40 && env == 2:
			// a licence for a client that has none yet, paid by a funded principal (outside the object
			// model: oracle only), so that paloma's genesis round trip has something held in names
			st := selfSigned("paloma.MsgAddLightNodeClientLicense", who[r.Intn(len(who))])
			st.Named["ClientAddress"] = idxUser0 + 1 + r.Intn(2)
			s.Hist = append(s.Hist, st)
		case x < 72 && env == 2:
			d := anyDen()
			by := d.of
			if r.Intn(2) == 0 {
				by = p()
			}
			st := selfSigned("tokenfactory.MsgMint", by)
			st.Of, st.ID = d.of, d.sub
			s.Hist = append(s.Hist, st)
		default:
			mods := []string{"tokenfactory", "tokenfactory", "skyway", "skyway", "treasury"}
			if env == 2 {
				mods = []string{"tokenfactory", "tokenfactory", "paloma"}
			}
			s.Hist = append(s.Hist, scen{Kind: "genesis", Mod: mods[r.Intn(len(mods))], SigBy: -1})
		}
	}
	return s
}

// genTemplate: the two shapes the second-round seeded changes need, with random principals,
// denoms, contracts and optional extra steps in between.
func genTemplate(r *rand.Rand, env int) scen {
	s := scen{Kind: "hist", Env: env, SigBy: -1}
	who := []int{0, 1, idxUser0}
	r.Shuffle(len(who), func(i, j int) { who[i], who[j] = who[j], who[i] })
	a, b, u := who[0], who[1], who[2]
	subA, subB := subs[r.Intn(len(subs))], subs[r.Intn(len(subs))]
	add := func(st scen) { s.Hist = append(s.Hist, st) }
	mk := func(kind string, by, of int, sub string) scen {
		st := selfSigned(kind, by)
		st.Of, st.ID = of, sub
		return st
	}
	add(mk("tokenfactory.MsgCreateDenom", b, b, subB))
	if r.Intn(4) == 0 {
		// create -> mint -> renounce -> create again (same creator, same subdenom; also somebody else) -> mint
		if env == 2 {
			add(mk("tokenfactory.MsgMint", b, b, subB))
		}
		st := mk("tokenfactory.MsgChangeAdmin", b, b, subB)
		st.Named["NewAdmin"] = -3
		add(st)
		if r.Intn(2) == 0 {
			add(scen{Kind: "genesis", Mod: "tokenfactory", SigBy: -1})
		}
		add(mk("tokenfactory.MsgCreateDenom", pick(r, b, b, a), b, subB))
		if env == 2 {
			add(mk("tokenfactory.MsgMint", b, b, subB))
		}
		st = mk("tokenfactory.MsgChangeAdmin", b, b, subB)
		st.Named["NewAdmin"] = pick(r, a, b, u)
		add(st)
		return s
	}
	if env == 2 && r.Intn(2) == 0 {
		// licences of two clients paid by two principals, then paloma's (and tokenfactory's) genesis
		// round trip, then the clients' licences are still theirs
		for i, payer := range []int{a, b} {
			st := selfSigned("paloma.MsgAddLightNodeClientLicense", payer)
			st.Named["ClientAddress"] = idxUser0 + 1 + i
			add(st)
		}
		add(scen{Kind: "genesis", Mod: "paloma", SigBy: -1})
		if r.Intn(2) == 0 {
			add(scen{Kind: "genesis", Mod: "tokenfactory", SigBy: -1})
		}
		st := selfSigned("paloma.MsgAddLightNodeClientLicense", u)
		st.Named["ClientAddress"] = idxUser0 + 1 + r.Intn(2)
		add(st)
		return s
	}
	if env == 2 || r.Intn(2) == 0 {
		// an admin role handed over (or renounced to a third party), then genesis round trips, then
		// the former admin and the new one act
		to := pick(r, a, u)
		st := mk("tokenfactory.MsgChangeAdmin", b, b, subB)
		st.Named["NewAdmin"] = to
		add(st)
		if r.Intn(2) == 0 {
			add(mk("tokenfactory.MsgCreateDenom", a, a, subA))
		}
		mods := []string{"tokenfactory", "skyway", "treasury"}
		if env == 2 {
			mods = []string{"tokenfactory", "paloma"}
		}
		for k := 0; k < 1+r.Intn(2); k++ {
			add(scen{Kind: "genesis", Mod: mods[r.Intn(len(mods))], SigBy: -1})
		}
		add(scen{Kind: "genesis", Mod: "tokenfactory", SigBy: -1})
		st = mk("tokenfactory.MsgChangeAdmin", b, b, subB)
		st.Named["NewAdmin"] = b
		add(st)
		if env == 2 {
			add(mk("tokenfactory.MsgMint", b, b, subB))
			add(mk("tokenfactory.MsgMint", to, b, subB))
		} else {
			// the former admin, then the present one, bind the denom to an ERC20 contract
			st = mk("skyway.MsgSetERC20ToTokenDenom", b, b, subB)
			st.Erc = ercs[1+r.Intn(2)]
			add(st)
			st = mk("skyway.MsgSetERC20ToTokenDenom", to, b, subB)
			st.Erc = ercs[1+r.Intn(2)]
			add(st)
		}
		st = mk("tokenfactory.MsgChangeAdmin", to, b, subB)
		st.Named["NewAdmin"] = pick(r, a, b, u)
		add(st)
		return s
	}
	// somebody's ERC20 binding and a holder's pending transfer, then another token admin names the
	// same contract (or governance's) for a denom of its own
	eb := 1 + r.Intn(2)
	st := mk("skyway.MsgSetERC20ToTokenDenom", b, b, subB)
	st.Erc = ercs[eb]
	add(st)
	add(mk("skyway.MsgSendToRemote", u, b, subB))
	add(mk("tokenfactory.MsgCreateDenom", a, a, subA))
	if r.Intn(3) == 0 {
		add(scen{Kind: "genesis", Mod: pick2(r, "skyway", "tokenfactory"), SigBy: -1})
	}
	st = mk("skyway.MsgSetERC20ToTokenDenom", a, a, subA)
	st.Erc = ercVariant(r, pick(r, eb, eb, 0))
	add(st)
	if r.Intn(2) == 0 {
		st = mk("skyway.MsgSetERC20ToTokenDenom", a, a, subA)
		st.Erc = ercVariant(r, pick(r, eb, 0, 3-eb))
		add(st)
	}
	st = selfSigned("skyway.MsgCancelSendToRemote", pick(r, u, u, a))
	st.TxID = 1
	add(st)
	return s
}

func pick2(r *rand.Rand, xs ...string) string { return xs[r.Intn(len(xs))] }

// genHandover (third environment): an external-chain key changes hands between validators while a
// relay message it signed is still waiting. B signs M with its key K; B re-registers with another
// key (the real valset msg server: no proof of possession anywhere); A registers K as its own; A
// submits a signature for M under K — B's published signature, replayed. Variants: steps left out,
// another message, A signing first, B signing again afterwards.
func genHandover(r *rand.Rand) scen {
	s := scen{Kind: "hist", Env: 3, SigBy: -1}
	a := r.Intn(nVals)
	b := (a + 1 + r.Intn(nVals-1)) % nVals
	m := uint64(1 + r.Intn(2))
	sign := func(by, key, claimed int, msg uint64) scen {
		st := selfSigned("consensus.MsgAddMessagesSignatures", by)
		st.TxID, st.SigBy = msg, key
		st.Named["SignedByAddress"] = claimed
		return st
	}
	reg := func(by, whose int) scen {
		st := selfSigned("valset.MsgAddExternalChainInfoForValidator", by)
		st.Named["ChainInfos.Address"] = whose
		return st
	}
	add := func(st scen) { s.Hist = append(s.Hist, st) }
	if r.Intn(6) != 0 {
		add(sign(b, b, b, m))
	}
	if r.Intn(5) == 0 {
		add(sign(a, a, a, m))
	}
	if r.Intn(6) != 0 {
		add(reg(b, -1))
	}
	if r.Intn(8) != 0 {
		add(reg(a, b))
	}
	add(sign(a, b, b, pick64(r, m, m, m, 3-m)))
	if r.Intn(3) == 0 {
		add(sign(b, b, b, m))
	}
	if r.Intn(3) == 0 {
		add(reg(b, b))
	}
	return s
}

func pick64(r *rand.Rand, xs ...uint64) uint64 { return xs[r.Intn(len(xs))] }
