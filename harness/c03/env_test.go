//go:build verif

package c03

// Environment for C03: the REAL skyway / treasury / valset / evm keepers and msg servers of
// x/skyway/keeper/test_common.go (real auth, bank, staking underneath; five bonded validators with
// registered external-chain keys), the REAL VerifyAuthorisedSignatureDecorator and the REAL
// x/feegrant keeper (on its own store: the decorator only asks it AllowancesByGranter).

import (
	"bytes"
	"context"
	"crypto/sha256"
	"encoding/hex"
	"encoding/json"
	"fmt"
	"regexp"
	"sort"
	"strings"
	"testing"

	"cosmossdk.io/core/address"
	"cosmossdk.io/log"
	sdkmath "cosmossdk.io/math"
	storetypes "cosmossdk.io/store/types"
	"cosmossdk.io/x/feegrant"
	feegrantkeeper "cosmossdk.io/x/feegrant/keeper"
	feegrantmodule "cosmossdk.io/x/feegrant/module"
	cmtproto "github.com/cometbft/cometbft/proto/tendermint/types"
	"github.com/cosmos/cosmos-sdk/codec"
	"github.com/cosmos/cosmos-sdk/runtime"
	"github.com/cosmos/cosmos-sdk/testutil/integration"
	sdk "github.com/cosmos/cosmos-sdk/types"
	moduletestutil "github.com/cosmos/cosmos-sdk/types/module/testutil"
	authcodec "github.com/cosmos/cosmos-sdk/x/auth/codec"
	authtypes "github.com/cosmos/cosmos-sdk/x/auth/types"
	govtypes "github.com/cosmos/cosmos-sdk/x/gov/types"
	paramskeeper "github.com/cosmos/cosmos-sdk/x/params/keeper"
	"github.com/palomachain/paloma/v2/tests/integration/helper"
	consensustypes "github.com/palomachain/paloma/v2/x/consensus/types"
	evmkeeper "github.com/palomachain/paloma/v2/x/evm/keeper"
	evmtypes "github.com/palomachain/paloma/v2/x/evm/types"
	palomamodule "github.com/palomachain/paloma/v2/x/paloma"
	"github.com/palomachain/paloma/v2/x/skyway/keeper"
	skywaytypes "github.com/palomachain/paloma/v2/x/skyway/types"
	treasurykeeper "github.com/palomachain/paloma/v2/x/treasury/keeper"
	treasurytypes "github.com/palomachain/paloma/v2/x/treasury/types"
	valsetkeeper "github.com/palomachain/paloma/v2/x/valset/keeper"
	valsettypes "github.com/palomachain/paloma/v2/x/valset/types"
	bankkeeper "github.com/cosmos/cosmos-sdk/x/bank/keeper"
	xchain "github.com/palomachain/paloma/v2/internal/x-chain"
	palomakeeper "github.com/palomachain/paloma/v2/x/paloma/keeper"
	palomatypes "github.com/palomachain/paloma/v2/x/paloma/types"
	schedkeeper "github.com/palomachain/paloma/v2/x/scheduler/keeper"
	schedtypes "github.com/palomachain/paloma/v2/x/scheduler/types"
	tfkeeper "github.com/palomachain/paloma/v2/x/tokenfactory/keeper"
	tftypes "github.com/palomachain/paloma/v2/x/tokenfactory/types"
	protov2 "google.golang.org/protobuf/proto"
)

const (
	nVals    = 5
	idxUser0 = 5  // 5,6,7: plain accounts
	idxPig0  = 8  // 8,9: relayer ("pigeon") keys, fee-grantees
	idxGov   = 10 // the governance authority (gov module account)
	nActors  = 11
	chain    = "test-chain"
	tokReg   = "0x0bc529c00C6401aEF6D220BE8C6Ea1667F6Ad93e"
)

// principal id used in the Coq cases: index+1 (so that 0 never names anybody); unknown bytes = 99
func pid(i int) int64 {
	if i < 0 || i >= nActors {
		return 99
	}
	return int64(i + 1)
}

// in-memory account keeper for the feegrant keeper (it only needs accounts to exist)
type memAccounts struct {
	accs map[string]sdk.AccountI
	cdc  address.Codec
}

func (m *memAccounts) GetModuleAddress(name string) sdk.AccAddress { return authtypes.NewModuleAddress(name) }
func (m *memAccounts) GetModuleAccount(ctx context.Context, name string) sdk.ModuleAccountI {
	return authtypes.NewEmptyModuleAccount(name)
}
func (m *memAccounts) NewAccountWithAddress(ctx context.Context, addr sdk.AccAddress) sdk.AccountI {
	return authtypes.NewBaseAccountWithAddress(addr)
}
func (m *memAccounts) GetAccount(ctx context.Context, addr sdk.AccAddress) sdk.AccountI {
	return m.accs[string(addr)]
}
func (m *memAccounts) SetAccount(ctx context.Context, acc sdk.AccountI) {
	m.accs[string(acc.GetAddress())] = acc
}
func (m *memAccounts) AddressCodec() address.Codec { return m.cdc }

type noBank struct{}

func (noBank) SpendableCoins(ctx context.Context, addr sdk.AccAddress) sdk.Coins { return nil }
func (noBank) SendCoinsFromAccountToModule(ctx context.Context, a sdk.AccAddress, m string, c sdk.Coins) error {
	return nil
}
func (noBank) BlockedAddr(addr sdk.AccAddress) bool { return false }

type env struct {
	jobIDs   map[string]bool // what the honest pre-steps created (the harness's own bookkeeping)
	denoms   map[string]bool
	minted   map[string]bool
	licensed map[int]bool
	two      bool // second environment (tokenfactory, paloma)
	three    bool // third environment (integration fixture: consensus queues)
	f3       *helper.Fixture
	cons     consensustypes.MsgServer
	queue    string      // the turnstone queue of the third environment
	queued   []queuedMsg // relay messages waiting there
	tf       tftypes.MsgServer
	tfK      tfkeeper.Keeper
	tfStore  *storetypes.KVStoreKey
	skyStore *storetypes.KVStoreKey
	palomaK  *palomakeeper.Keeper
	cdc2     codec.Codec
	paloma   palomatypes.MsgServer
	bank     bankkeeper.BaseKeeper
	sched    schedtypes.MsgServer
	schedK   *schedkeeper.Keeper
	in       keeper.TestInput
	ctx      sdk.Context
	keys     map[string]storetypes.StoreKey
	skyway   skywaytypes.MsgServer
	skywayK  keeper.Keeper
	treasury treasurytypes.MsgServer
	valset   valsettypes.MsgServer
	evm      evmtypes.MsgServer
	dec      palomamodule.VerifyAuthorisedSignatureDecorator
	fg       feegrantkeeper.Keeper
	fgCtx    sdk.Context
	actors   []sdk.AccAddress
	batch    *skywaytypes.InternalOutgoingTxBatch
	chkpt    []byte
}

var fgEnc = moduletestutil.MakeTestEncodingConfig(feegrantmodule.AppModuleBasic{})

func setup(t *testing.T) *env {
	in, c := keeper.SetupFiveValChain(t)
	e := &env{in: in, jobIDs: map[string]bool{}, denoms: map[string]bool{}, minted: map[string]bool{}, licensed: map[int]bool{}}
	e.ctx = sdk.UnwrapSDKContext(c).WithLogger(log.NewNopLogger())
	ks, ok := e.ctx.MultiStore().(interface {
		StoreKeysByName() map[string]storetypes.StoreKey
	})
	if !ok {
		t.Fatalf("multistore %T has no StoreKeysByName", e.ctx.MultiStore())
	}
	e.keys = ks.StoreKeysByName()
	gov := authtypes.NewModuleAddress(govtypes.ModuleName)
	// the REAL tokenfactory keeper on a spare store of this multistore (x/capability's, which
	// nothing writes to here); the skyway keeper is rebuilt over the same stores and keepers with
	// that tokenfactory keeper and the governance authority (test_common.go passes nil / "")
	tfSpare, ok := e.keys["capability"].(*storetypes.KVStoreKey)
	if !ok {
		t.Fatalf("no spare store for tokenfactory")
	}
	pKey, ok1 := e.keys["params"].(*storetypes.KVStoreKey)
	tKey, ok2 := e.keys["transient_params"].(*storetypes.TransientStoreKey)
	if !ok1 || !ok2 {
		t.Fatalf("params stores not found: %v", e.keys)
	}
	pk := paramskeeper.NewKeeper(in.Marshaler, in.LegacyAmino, pKey, tKey)
	pk.Subspace(tftypes.ModuleName)
	tfSub, _ := pk.GetSubspace(tftypes.ModuleName)
	e.tfK = tfkeeper.NewKeeper(tfSpare, tfSub, in.AccountKeeper, in.BankKeeper, in.DistKeeper, gov.String())
	e.tfK.SetParams(e.ctx, tftypes.Params{})
	e.tf = tfkeeper.NewMsgServerImpl(e.tfK)
	e.tfStore = tfSpare
	skyKey, ok := e.keys[skywaytypes.StoreKey].(*storetypes.KVStoreKey)
	if !ok {
		t.Fatalf("skyway store key not found")
	}
	e.skyStore = skyKey
	e.skywayK = keeper.NewKeeper(in.Marshaler, in.AccountKeeper, in.StakingKeeper, in.BankKeeper, in.SlashingKeeper, in.DistKeeper,
		in.IbcTransferKeeper, in.EvmKeeper, nil, nil, e.tfK, keeper.NewSkywayStoreGetter(skyKey), gov.String(),
		authcodec.NewBech32Codec("palomavaloper"))
	e.skyway = keeper.NewMsgServerImpl(e.skywayK)
	e.treasury = treasurykeeper.NewMsgServerImpl(*in.TreasuryKeeper)
	e.valset = valsetkeeper.NewMsgServerImpl(in.ValsetKeeper)
	e.evm = evmkeeper.NewMsgServerImpl(in.EvmKeeper)
	// the REAL scheduler keeper over the real account keeper and the real evm keeper as its bridge;
	// its jobs live in a store of this multistore that nothing else writes to (x/upgrade's)
	spare, ok := e.keys["upgrade"].(*storetypes.KVStoreKey)
	if !ok {
		t.Fatalf("no spare store for the scheduler")
	}
	evmK := in.EvmKeeper
	e.schedK = schedkeeper.NewKeeper(in.Marshaler, runtime.NewKVStoreService(spare), in.AccountKeeper, evmK, []xchain.Bridge{evmK})
	e.sched = schedkeeper.NewMsgServerImpl(e.schedK)

	for i := 0; i < nVals; i++ {
		e.actors = append(e.actors, keeper.AccAddrs[i])
	}
	for i := nVals; i < idxGov; i++ {
		b := make([]byte, 20)
		b[0], b[1], b[2], b[19] = 0xC0, 0x03, 0x5A, byte(i+1)
		e.actors = append(e.actors, sdk.AccAddress(b))
	}
	e.actors = append(e.actors, gov)

	// feegrant keeper on its own store
	fkey := storetypes.NewKVStoreKey(feegrant.StoreKey)
	cms := integration.CreateMultiStore(map[string]*storetypes.KVStoreKey{feegrant.StoreKey: fkey}, log.NewNopLogger())
	e.fgCtx = sdk.NewContext(cms, cmtproto.Header{Height: 1, Time: e.ctx.BlockTime()}, false, log.NewNopLogger())
	accs := &memAccounts{accs: map[string]sdk.AccountI{}, cdc: authcodec.NewBech32Codec("paloma")}
	e.fg = feegrantkeeper.NewKeeper(codec.NewProtoCodec(fgEnc.InterfaceRegistry), runtime.NewKVStoreService(fkey), accs).SetBankKeeper(noBank{})
	e.dec = palomamodule.NewVerifyAuthorisedSignatureDecorator(e.fg)
	return e
}

func (e *env) acc(i int) string { return e.actors[i].String() }
func (e *env) val(i int) string { return sdk.ValAddress(e.actors[i]).String() }

func (e *env) grant(granter, grantee int) error {
	return e.fg.GrantAllowance(e.fgCtx, e.actors[granter], e.actors[grantee], &feegrant.BasicAllowance{})
}

// storeBatch puts one outgoing batch into the real store (as attestation_test.go does) so that
// batch confirmations and gas estimates have something to refer to.
func (e *env) storeBatch(t *testing.T) {
	lastH := e.in.SkywayKeeper.GetLastObservedEthereumBlockHeight(e.ctx, chain).EthereumBlockHeight
	b := skywaytypes.OutgoingTxBatch{
		BatchNonce:   1,
		BatchTimeout: lastH + 1000,
		Transactions: []skywaytypes.OutgoingTransferTx{{
			Id: 0, Sender: e.acc(idxUser0 + 2), DestAddress: keeper.EthAddrs[0].String(),
			Erc20Token: skywaytypes.ERC20Token{Contract: tokReg, Amount: sdkmath.NewInt(1), ChainReferenceId: chain},
		}},
		TokenContract:    tokReg,
		ChainReferenceId: chain,
	}
	ib, err := b.ToInternal()
	if err != nil {
		t.Fatal(err)
	}
	if err := e.in.SkywayKeeper.StoreBatch(e.ctx, *ib); err != nil {
		t.Fatal(err)
	}
	ci, err := e.in.EvmKeeper.GetChainInfo(e.ctx, chain)
	if err != nil {
		t.Fatal(err)
	}
	cp, err := ib.GetCheckpoint(string(ci.SmartContractUniqueID))
	if err != nil {
		t.Fatal(err)
	}
	e.batch, e.chkpt = ib, cp
}

// ---- attributed state ----

var denomNameRe = regexp.MustCompile(`factory/paloma1[0-9a-z]{38}/`)
var fullDenomRe = regexp.MustCompile(`factory/paloma1[0-9a-z]{38}/[a-zA-Z0-9./:_-]+`)

// scan digests, per actor, every KV pair of every store whose key or value mentions the actor
// (raw 20 bytes, account bech32 or validator-operator bech32), and the governance-held settings
// (read through the keepers' getters) for the authority.
func (e *env) scan(ctx sdk.Context) map[int]string {
	type needle struct{ raw, acc, val []byte }
	nd := make([]needle, len(e.actors))
	for i, a := range e.actors {
		nd[i] = needle{[]byte(a), []byte(a.String()), []byte(sdk.ValAddress(a).String())}
	}
	hs := make([][]string, len(e.actors))
	e.eachPair(ctx, func(n string, key, v []byte) {
		for i := range nd {
			if bytes.Contains(key, nd[i].raw) || bytes.Contains(key, nd[i].acc) || bytes.Contains(key, nd[i].val) ||
				bytes.Contains(v, nd[i].raw) || bytes.Contains(v, nd[i].acc) || bytes.Contains(v, nd[i].val) {
				h := sha256.Sum256(append(append([]byte(n+"|"), key...), v...))
				hs[i] = append(hs[i], hex.EncodeToString(h[:8]))
			}
		}
	})
	out := map[int]string{}
	for i := range hs {
		sort.Strings(hs[i])
		h := sha256.New()
		for _, s := range hs[i] {
			h.Write([]byte(s))
		}
		out[i] = hex.EncodeToString(h.Sum(nil)[:8])
	}
	out[idxGov] += "|" + e.govDigest(ctx)
	return out
}

// eachPair visits every KV pair of every persistent store (account numbers and legacy params
// subspaces excepted), with two refinements of what a pair is: in the bank store the creator's
// address inside a tokenfactory denom NAME is blanked (coins are their holder's), and a
// consensus-queue record is split into its per-validator parts (env3_test.go).
func (e *env) eachPair(ctx sdk.Context, fn func(store string, key, val []byte)) {
	names := make([]string, 0, len(e.keys))
	for n := range e.keys {
		names = append(names, n)
	}
	sort.Strings(names)
	for _, n := range names {
		k := e.keys[n]
		if _, ok := k.(*storetypes.KVStoreKey); !ok || n == "acc" || n == "params" {
			continue
		}
		it := ctx.KVStore(k).Iterator(nil, nil)
		for ; it.Valid(); it.Next() {
			key, v := it.Key(), it.Value()
			if n == "bank" {
				key, v = denomNameRe.ReplaceAll(key, []byte("factory/_/")), denomNameRe.ReplaceAll(v, []byte("factory/_/"))
			}
			if n == skywaytypes.StoreKey && e.tf != nil && !e.two && !e.three {
				// an ERC20 binding of a tokenfactory denom is held by whoever ADMINISTERS the denom now
				// (the denom's name only carries its creator): one more part, naming the admin
				if d := fullDenomRe.Find(v); d != nil {
					if md, err := e.tfK.GetAuthorityMetadata(ctx, string(d)); err == nil && md.Admin != "" {
						h := sha256.Sum256(v)
						fn(n, append(append([]byte{}, key...), []byte("|admin-of-bound-denom|"+md.Admin)...), []byte(hex.EncodeToString(h[:8])))
					}
				}
			}
			if strings.Contains(n, "consensus") {
				if parts, ok := e.queueVirtualPairs(key, v); ok {
					for _, p := range parts {
						fn(n, p[0], p[1])
					}
					continue
				}
			}
			fn(n, key, v)
		}
		it.Close()
	}
}

// governance-held settings of the modules in this environment
func (e *env) govDigest(ctx sdk.Context) string {
	var parts []string
	if e.three {
		return ""
	}
	if e.two {
		bz, _ := json.Marshal(e.tfK.GetParams(ctx))
		h := sha256.Sum256(bz)
		return hex.EncodeToString(h[:8])
	}
	add := func(name string, v any, err error) {
		bz, _ := json.Marshal(v)
		parts = append(parts, fmt.Sprintf("%s=%s/%v", name, bz, err))
	}
	p := e.in.SkywayKeeper.GetParams(ctx)
	add("skyway.params", p, nil)
	n, err := e.in.SkywayKeeper.GetLastObservedSkywayNonce(ctx, chain)
	add("skyway.nonce", n, err)
	ds, err := e.in.EvmKeeper.AllSmartContractsDeployments(ctx)
	add("evm.deployments", ds, err)
	cis, err := e.in.EvmKeeper.GetAllChainInfos(ctx)
	add("evm.chains", cis, err)
	lc, err := e.in.EvmKeeper.GetLastCompassContract(ctx)
	add("evm.compass", lc, err)
	// bindings of native denoms are governance's; a tokenfactory denom's binding is its admin's
	// (attributed through the KV scan: the denom carries its creator's address, and see nameOnly)
	m, err := e.in.SkywayKeeper.GetAllERC20ToDenoms(ctx)
	var nat []string
	for _, x := range m {
		if !strings.HasPrefix(x.Denom, "factory/") {
			nat = append(nat, x.ChainReferenceId+"|"+strings.ToLower(x.Erc20)+"|"+x.Denom)
		}
	}
	sort.Strings(nat)
	add("skyway.erc20", nat, err)
	h := sha256.Sum256([]byte(fmt.Sprint(parts)))
	return hex.EncodeToString(h[:8])
}

type fakeTx struct{ msgs []sdk.Msg }

func (f fakeTx) GetMsgs() []sdk.Msg                    { return f.msgs }
func (f fakeTx) GetMsgsV2() ([]protov2.Message, error) { return nil, nil }
