//go:build verif

// Package c03: correspondence harness + direct oracle for C03 (only the principal — or
// governance — changes state held in its name).
//
// Every case is ONE delivery on a fresh real environment, composed as baseapp composes it:
// msg.ValidateBasic() ;; VerifyAuthorisedSignatureDecorator.AnteHandle (real feegrant keeper) ;;
// the real msg server inside a cache context committed on success. The scenario chooses who signs,
// who is claimed as creator, who is named in every identity field, which fee grants exist and
// whose external-chain key signed the item. Observed: decorator verdict, handler success, and the
// set of actors whose attributed state (every KV pair of every store mentioning the actor, plus
// the governance-held settings for the authority) differs afterwards.
//
// The direct oracle is evaluated on the real run, independently of the Coq model and of the
// generated table: an actor whose state changed must be the creator with an authorised signer, a
// reviewed beneficiary named by the message, an actor whose external-chain key signed the item, or
// the authority when the authority signed.
package c03

import (
	"bytes"
	"context"
	"encoding/hex"
	"encoding/json"
	"fmt"
	"math/rand"
	"os"
	"path/filepath"
	"reflect"
	"sort"
	"strings"
	"testing"

	sdkmath "cosmossdk.io/math"
	storetypes "cosmossdk.io/store/types"
	"github.com/cosmos/cosmos-sdk/baseapp"
	"github.com/cosmos/cosmos-sdk/runtime"
	"github.com/cosmos/cosmos-sdk/x/authz"
	authzkeeper "github.com/cosmos/cosmos-sdk/x/authz/keeper"
	"cosmossdk.io/x/tx/signing"
	"github.com/cosmos/cosmos-sdk/codec"
	addresscodec "github.com/cosmos/cosmos-sdk/codec/address"
	gogoproto "github.com/cosmos/gogoproto/proto"
	codectypes "github.com/cosmos/cosmos-sdk/codec/types"
	sdk "github.com/cosmos/cosmos-sdk/types"
	"github.com/palomachain/paloma/v2/util/libmeta"
	"github.com/palomachain/paloma/v2/verifharness/emit"
	consensustypes "github.com/palomachain/paloma/v2/x/consensus/types"
	evmtypes "github.com/palomachain/paloma/v2/x/evm/types"
	palomatypes "github.com/palomachain/paloma/v2/x/paloma/types"
	schedulertypes "github.com/palomachain/paloma/v2/x/scheduler/types"
	"github.com/palomachain/paloma/v2/x/skyway/keeper"
	skywaytypes "github.com/palomachain/paloma/v2/x/skyway/types"
	tokenfactorytypes "github.com/palomachain/paloma/v2/x/tokenfactory/types"
	treasurytypes "github.com/palomachain/paloma/v2/x/treasury/types"
	vtypes "github.com/palomachain/paloma/v2/x/valset/types"
)

// ---- scenario (also the replay / corpus format) ----
type scen struct {
	Kind    string         `json:"kind"`
	Creator int            `json:"creator"`          // actor index, -1 = not an address at all
	Signers []int          `json:"signers"`          // metadata.signers (all of them signed: SDK, trusted)
	Grants  [][2]int       `json:"grants,omitempty"` // (granter, grantee)
	Named   map[string]int `json:"named,omitempty"`  // identity field -> actor index
	SigBy   int            `json:"sig_by,omitempty"` // whose external-chain key signs the item (-1: garbage)
	Note    string         `json:"note,omitempty"`
	ID      string         `json:"id,omitempty"`  // job id / subdenom as submitted (near-miss spellings included)
	Of      int            `json:"of,omitempty"`  // whose object (denom) the message refers to
	Nested  bool           `json:"nested,omitempty"` // inside a transaction: wrapped in authz.MsgExec(grantee = its signer)
	Tx      []scen         `json:"tx,omitempty"`     // kind "tx": the messages of one transaction, in order
	Pre     []scen         `json:"pre,omitempty"`    // honest deliveries that set the scene (must succeed)
	Erc     string         `json:"erc,omitempty"`    // ERC20 contract as submitted (SetERC20ToTokenDenom / governance mapping)
	TxID    uint64         `json:"tx_id,omitempty"`  // pending-transfer id as submitted (CancelSendToRemote)
	Mod     string         `json:"mod,omitempty"`    // kind "genesis": the module whose state goes through ExportGenesis -> InitGenesis
	Env     int            `json:"env,omitempty"`    // kind "hist": 1 = skyway environment, 2 = tokenfactory / paloma environment
	Hist    []scen         `json:"hist,omitempty"`   // kind "hist": an object history, every step delivered like a single case
	Depth   int            `json:"depth,omitempty"`  // kind "nest": levels of authz.MsgExec around the message Tx[0]
	Fees    int            `json:"fees,omitempty"`   // UpsertRelayerFee: 0 = one fee, 1 = an EMPTY fee list, 2 = the same chain twice
	Valset  uint64         `json:"valset_id,omitempty"` // SetPublicAccessData: the valset id the data is published for (0 = 1)
	Multi   []int          `json:"multi,omitempty"`  // AddExternalChainInfoForValidator: several accounts for the SAME chain, in order: whose registered address each one is (validator index; -1, -4, -5: fresh ones)
}

type built struct {
	msg    sdk.Msg
	run    func(ctx sdk.Context) error
	biz    bool    // valid apart from who signs / is named
	ext    []int   // actors whose external-chain signature over the item is carried and valid
	fields []string // identity fields given to the model, in order
	// actors that merely appear in the name of the token denom the message refers to
	// (factory/<creator of the denom>/<sub>) while the message's creator is its admin: the admin
	// role was handed over by them, what moves is the admin's
	nameOnly []int
	post     func(ctx sdk.Context) string // extra invariant on the state after an accepted delivery ("" = holds)
}

func (e *env) meta(s scen) vtypes.MsgMetadata {
	m := vtypes.MsgMetadata{}
	if s.Creator >= 0 {
		m.Creator = e.acc(s.Creator)
	} else {
		m.Creator = "not-an-address"
	}
	for _, i := range s.Signers {
		m.Signers = append(m.Signers, e.acc(i))
	}
	return m
}

func isVal(i int) bool { return i >= 0 && i < nVals }

var drivenKinds = []string{
	"skyway.MsgSendToPalomaClaim", "skyway.MsgBatchSendToRemoteClaim", "skyway.MsgLightNodeSaleClaim",
	"skyway.MsgConfirmBatch", "skyway.MsgConfirmBatch", "skyway.MsgEstimateBatchGas", "skyway.MsgSetERC20MappingProposal", "skyway.MsgNonceOverrideProposal",
	"skyway.MsgSendToRemote",
	"treasury.MsgUpsertRelayerFee", "valset.MsgKeepAlive",
	"evm.MsgRemoveSmartContractDeploymentRequest", "evm.MsgProposeNewReferenceBlockAttestation",
	"evm.MsgUploadUserSmartContractRequest",
	"scheduler.MsgCreateJob", "scheduler.MsgCreateJob",
	"tokenfactory.MsgCreateDenom", "tokenfactory.MsgMint", "tokenfactory.MsgBurn", "tokenfactory.MsgChangeAdmin",
	"paloma.MsgAddLightNodeClientLicense",
	"consensus.MsgAddMessagesSignatures", "consensus.MsgAddMessageGasEstimates", "consensus.MsgAddEvidence",
	"consensus.MsgSetPublicAccessData", "consensus.MsgSetErrorData", "valset.MsgAddExternalChainInfoForValidator",
	"wasm.scheduler.execute_job", "wasm.scheduler.execute_job", "wasm.scheduler.legacy_execute_job", "wasm.scheduler.create_job",
	"wasm.tokenfactory.mint_tokens", "wasm.tokenfactory.change_admin", "wasm.tokenfactory.burn_tokens", "wasm.tokenfactory.create_denom",
	"wasm.skyway.send_tx", "wasm.skyway.cancel_tx", "wasm.skyway.set_erc20_to_denom",
}

func (e *env) build(t *testing.T, s scen) (*built, error) {
	if isWasmKind(s.Kind) {
		return e.buildWasm(t, s)
	}
	md := e.meta(s)
	nm := func(f string) int {
		if v, ok := s.Named[f]; ok {
			return v
		}
		return s.Creator
	}
	addr := func(i int) string {
		if i < 0 || i >= nActors {
			return "not-an-address"
		}
		return e.acc(i)
	}
	b := &built{}
	switch s.Kind {
	case "skyway.MsgSendToPalomaClaim":
		o, r := nm("Orchestrator"), nm("PalomaReceiver")
		m := &skywaytypes.MsgSendToPalomaClaim{EventNonce: 1, EthBlockHeight: 10, TokenContract: tokReg, Amount: sdkmath.NewInt(777),
			EthereumSender: "0x2222222222222222222222222222222222222222", PalomaReceiver: addr(r), Orchestrator: addr(o),
			ChainReferenceId: chain, Metadata: md, SkywayNonce: 1}
		b.msg, b.biz = m, isVal(o)
		b.fields = []string{"Orchestrator", "PalomaReceiver"}
		b.run = func(ctx sdk.Context) error { _, err := e.skyway.SendToPalomaClaim(ctx, m); return err }
	case "skyway.MsgBatchSendToRemoteClaim":
		o := nm("Orchestrator")
		m := &skywaytypes.MsgBatchSendToRemoteClaim{EventNonce: 1, EthBlockHeight: 10, BatchNonce: 7, TokenContract: tokReg,
			ChainReferenceId: chain, Orchestrator: addr(o), Metadata: md, SkywayNonce: 1}
		b.msg, b.biz = m, isVal(o)
		b.fields = []string{"Orchestrator"}
		b.run = func(ctx sdk.Context) error { _, err := e.skyway.BatchSendToRemoteClaim(ctx, m); return err }
	case "skyway.MsgLightNodeSaleClaim":
		o, c := nm("Orchestrator"), nm("ClientAddress")
		m := &skywaytypes.MsgLightNodeSaleClaim{Metadata: md, EventNonce: 1, EthBlockHeight: 10, Orchestrator: addr(o), ChainReferenceId: chain,
			SkywayNonce: 1, ClientAddress: addr(c), Amount: sdkmath.NewInt(5), SmartContractAddress: "0x3333333333333333333333333333333333333333"}
		b.msg, b.biz = m, isVal(o)
		b.fields = []string{"Orchestrator", "ClientAddress"}
		b.run = func(ctx sdk.Context) error { _, err := e.skyway.LightNodeSaleClaim(ctx, m); return err }
	case "skyway.MsgConfirmBatch":
		e.storeBatch(t)
		o := nm("Orchestrator")
		sig := "00"
		signer := "0x0000000000000000000000000000000000000001"
		if isVal(s.SigBy) {
			bz, err := skywaytypes.NewEthereumSignature(e.chkpt, keeper.EthPrivKeys[s.SigBy])
			if err != nil {
				return nil, err
			}
			sig, signer = hex.EncodeToString(bz), keeper.EthAddrs[s.SigBy].String()
			if s.SigBy == o {
				b.ext = []int{o}
			}
		}
		m := &skywaytypes.MsgConfirmBatch{Nonce: 1, TokenContract: tokReg, EthSigner: signer, Orchestrator: addr(o), Signature: sig, Metadata: md}
		b.msg, b.biz = m, true
		b.fields = []string{"Orchestrator"}
		b.run = func(ctx sdk.Context) error { _, err := e.skyway.ConfirmBatch(ctx, m); return err }
	case "skyway.MsgEstimateBatchGas":
		e.storeBatch(t)
		m := &skywaytypes.MsgEstimateBatchGas{Metadata: md, Nonce: 1, TokenContract: tokReg, EthSigner: keeper.EthAddrs[0].String(), Estimate: 21000}
		b.msg, b.biz = m, isVal(s.Creator)
		b.run = func(ctx sdk.Context) error { _, err := e.skyway.EstimateBatchGas(ctx, m); return err }
	case "skyway.MsgSetERC20MappingProposal":
		a := nm("Authority")
		mp := skywaytypes.MsgSetERC20MappingProposal_ERC20ToDenomMapping{ChainReferenceId: chain, Erc20: "0x5555555555555555555555555555555555555555", Denom: "uother"}
		if s.Erc != "" {
			mp.Erc20 = s.Erc
			if s.Of >= 0 {
				mp.Denom = fmt.Sprintf("factory/%s/%s", addr(s.Of), s.ID)
			} else {
				mp.Denom = s.ID
			}
		}
		m := &skywaytypes.MsgSetERC20MappingProposal{Authority: addr(a), Metadata: md, Mappings: []skywaytypes.MsgSetERC20MappingProposal_ERC20ToDenomMapping{mp}}
		b.msg, b.biz = m, true
		b.fields = []string{"Authority"}
		b.run = func(ctx sdk.Context) error { _, err := e.skyway.SetERC20MappingProposal(ctx, m); return err }
	case "skyway.MsgNonceOverrideProposal":
		m := &skywaytypes.MsgNonceOverrideProposal{Metadata: md, ChainReferenceId: chain, Nonce: 41}
		b.msg, b.biz = m, true
		b.run = func(ctx sdk.Context) error { _, err := e.skyway.OverrideNonceProposal(ctx, m); return err }
	case "skyway.MsgSendToRemote":
		coin := sdk.NewInt64Coin("ugrain", 5)
		if s.ID != "" && s.Of < 0 {
			coin = sdk.NewInt64Coin(s.ID, 5)
		} else if s.ID != "" {
			coin = sdk.NewInt64Coin(fmt.Sprintf("factory/%s/%s", addr(s.Of), s.ID), 5)
		}
		m := &skywaytypes.MsgSendToRemote{EthDest: "0x4444444444444444444444444444444444444444", Amount: coin,
			ChainReferenceId: chain, Metadata: md}
		b.msg, b.biz = m, isVal(s.Creator) // only the validators' accounts hold ugrain here
		b.run = func(ctx sdk.Context) error { _, err := e.skyway.SendToRemote(ctx, m); return err }
	case "skyway.MsgSetERC20ToTokenDenom":
		denom := fmt.Sprintf("factory/%s/%s", addr(s.Of), s.ID)
		m := &skywaytypes.MsgSetERC20ToTokenDenom{Metadata: md, Denom: denom, ChainReferenceId: chain, Erc20: s.Erc}
		b.msg = m
		// valid apart from identity: the creator administers the denom and the contract is not bound yet
		// (the harness's own reading of the two stores, before the delivery)
		adm, _ := e.tfK.GetAuthorityMetadata(e.ctx, denom)
		free := false
		if ea, err := skywaytypes.NewEthAddress(s.Erc); err == nil {
			d, _ := e.skywayK.GetDenomOfERC20(e.ctx, chain, *ea)
			free = d == ""
		}
		b.biz = s.Creator >= 0 && adm.Admin == md.Creator && free
		b.run = func(ctx sdk.Context) error { _, err := e.skyway.SetERC20ToTokenDenom(ctx, m); return err }
	case "skyway.MsgCancelSendToRemote":
		m := &skywaytypes.MsgCancelSendToRemote{Metadata: md, TransactionId: s.TxID}
		b.msg = m
		tx, err := e.skywayK.GetUnbatchedTxById(e.ctx, s.TxID)
		b.biz = err == nil && tx != nil && s.Creator >= 0 && tx.Sender.Equals(e.actors[s.Creator])
		b.run = func(ctx sdk.Context) error { _, err := e.skyway.CancelSendToRemote(ctx, m); return err }
	case "consensus.MsgAddMessagesSignatures", "consensus.MsgAddMessageGasEstimates", "consensus.MsgAddEvidence",
		"consensus.MsgSetPublicAccessData", "consensus.MsgSetErrorData":
		// s.TxID: the queued message's id as submitted (one of the two waiting, or none)
		s.TxID = e.msgID(s.TxID)
		var rec consensustypes.QueuedSignedMessageI
		for _, qm := range e.queuedMessages(e.ctx) {
			if qm.GetId() == s.TxID {
				rec = qm
			}
		}
		exists := rec != nil
		switch s.Kind {
		case "consensus.MsgAddMessagesSignatures":
			// whose registered external-chain address is claimed, whose key signs
			ca := nm("SignedByAddress")
			addrS := "0x0000000000000000000000000000000000000001"
			if isVal(ca) {
				addrS = keeper.EthAddrs[ca].String()
			}
			var sig []byte
			if isVal(s.SigBy) {
				sig = e.signFor(s.TxID, s.SigBy)
			}
			if sig == nil {
				sig = []byte{1, 2, 3}
			}
			m := &consensustypes.MsgAddMessagesSignatures{Metadata: md, SignedMessages: []*consensustypes.ConsensusMessageSignature{
				{Id: s.TxID, QueueTypeName: e.queue, Signature: sig, SignedByAddress: addrS}}}
			b.msg = m
			// valid apart from identity, read from the real state before the delivery: the claimed address is
			// registered by the CREATOR's validator now, the signature verifies against the key registered
			// with it, and neither that key nor the creator has signed the message yet
			signed := false
			var regKey []byte
			if isVal(s.Creator) {
				if pk, err := e.f3.ValsetKeeper.GetSigningKey(e.ctx, sdk.ValAddress(e.actors[s.Creator]), "evm", chain, addrS); err == nil {
					regKey = pk
				}
			}
			if exists {
				for _, sd := range rec.GetSignData() {
					if (isVal(s.Creator) && sd.ValAddress.Equals(sdk.ValAddress(e.actors[s.Creator]))) || (regKey != nil && bytes.Equal(sd.PublicKey, regKey)) {
						signed = true
					}
				}
			}
			b.biz = isVal(s.Creator) && exists && regKey != nil && isVal(s.SigBy) && bytes.Equal(regKey, keeper.EthAddrs[s.SigBy].Bytes()) && !signed
			b.run = func(ctx sdk.Context) error { _, err := e.cons.AddMessagesSignatures(ctx, m); return err }
		case "consensus.MsgAddMessageGasEstimates":
			ca := nm("EstimatedByAddress")
			addrS := "0x0000000000000000000000000000000000000001"
			if isVal(ca) {
				addrS = keeper.EthAddrs[ca].String()
			}
			m := &consensustypes.MsgAddMessageGasEstimates{Metadata: md, Estimates: []*consensustypes.MsgAddMessageGasEstimates_GasEstimate{
				{MsgId: s.TxID, QueueTypeName: e.queue, Value: 21000 + uint64(s.Creator+1), EstimatedByAddress: addrS}}}
			b.msg = m
			has := false
			if exists {
				for _, g := range rec.GetGasEstimates() {
					if isVal(s.Creator) && g.ValAddress.Equals(sdk.ValAddress(e.actors[s.Creator])) {
						has = true
					}
				}
			}
			b.biz = isVal(s.Creator) && exists && rec.GetRequireGasEstimation() && !has
			b.run = func(ctx sdk.Context) error { _, err := e.cons.AddMessageEstimates(ctx, m); return err }
		case "consensus.MsgAddEvidence":
			proof, err := codectypes.NewAnyWithValue(&evmtypes.SmartContractExecutionErrorProof{ErrorMessage: fmt.Sprintf("seen-by-%d", s.Creator)})
			if err != nil {
				return nil, err
			}
			m := &consensustypes.MsgAddEvidence{Metadata: md, MessageID: s.TxID, QueueTypeName: e.queue, Proof: proof}
			b.msg = m
			b.biz = isVal(s.Creator) && exists
			b.run = func(ctx sdk.Context) error { _, err := e.cons.AddEvidence(ctx, m); return err }
		case "consensus.MsgSetPublicAccessData":
			vid := s.Valset
			if vid == 0 {
				vid = 1
			}
			m := &consensustypes.MsgSetPublicAccessData{Metadata: md, MessageID: s.TxID, QueueTypeName: e.queue, Data: []byte(fmt.Sprintf("txhash-by-%d", s.Creator)), ValsetID: vid}
			b.msg = m
			b.biz = isVal(s.Creator) && exists
			b.run = func(ctx sdk.Context) error { _, err := e.cons.SetPublicAccessData(ctx, m); return err }
		case "consensus.MsgSetErrorData":
			m := &consensustypes.MsgSetErrorData{Metadata: md, MessageID: s.TxID, QueueTypeName: e.queue, Data: []byte(fmt.Sprintf("error-by-%d", s.Creator))}
			b.msg = m
			b.biz = isVal(s.Creator) && exists
			b.run = func(ctx sdk.Context) error { _, err := e.cons.SetErrorData(ctx, m); return err }
		}
	case "valset.MsgAddExternalChainInfoForValidator":
		// the creator registers, as its own account on the chain, the address that validator
		// Named["ChainInfos.Address"] has registered (itself: re-registration; -1: a fresh one)
		ca := nm("ChainInfos.Address")
		addrS, pub := fmt.Sprintf("0x99999999999999999999999999999999999999%02x", s.Creator+1), []byte(fmt.Sprintf("fresh-pubkey-%07d", s.Creator+1))
		if isVal(ca) {
			addrS, pub = keeper.EthAddrs[ca].String(), keeper.EthAddrs[ca].Bytes()
			if s.Erc == "lower" {
				addrS = strings.ToLower(addrS)
			}
		}
		m := &vtypes.MsgAddExternalChainInfoForValidator{Metadata: md, ChainInfos: []*vtypes.ExternalChainInfo{
			{ChainType: "evm", ChainReferenceID: chain, Address: addrS, Pubkey: pub}}}
		type acct struct {
			addr string
			pub  []byte
		}
		accts := []acct{{addrS, pub}}
		if len(s.Multi) > 0 {
			// several accounts for the same chain in one message
			m.ChainInfos, accts = nil, nil
			for k, w := range s.Multi {
				a := acct{fmt.Sprintf("0x88888888888888888888888888888888888888%02x", (s.Creator+1)*8-w), []byte(fmt.Sprintf("fresh-pub-%02d-%07d", -w, s.Creator+1))}
				if isVal(w) {
					a = acct{keeper.EthAddrs[w].String(), keeper.EthAddrs[w].Bytes()}
					if s.Erc == "lower" && k == 0 {
						a.addr = strings.ToLower(a.addr)
					}
				}
				accts = append(accts, a)
				m.ChainInfos = append(m.ChainInfos, &vtypes.ExternalChainInfo{ChainType: "evm", ChainReferenceID: chain, Address: a.addr, Pubkey: a.pub})
			}
		}
		b.msg = m
		// other validators' entries are compared by exact address string OR public key; the creator's
		// own entries are skipped (a re-registration, whatever the spelling)
		// (the harness's own reading of the valset store; note that a case variant of another
		// validator's address with a different key is NOT a collision for the code: observation O2)
		collide := false
		var vk interface {
			GetAllChainInfos(ctx context.Context) ([]*vtypes.ValidatorExternalAccounts, error)
		}
		if e.three {
			vk = e.f3.ValsetKeeper
		} else {
			vk = e.in.ValsetKeeper
		}
		if all, err := vk.GetAllChainInfos(e.ctx); err == nil {
			for _, ev := range all {
				if s.Creator >= 0 && ev.Address.Equals(sdk.ValAddress(e.actors[s.Creator])) {
					continue
				}
				for _, ci := range ev.ExternalChainInfo {
					for _, a := range accts {
						if ci.ChainType == "evm" && ci.ChainReferenceID == chain && (ci.Address == a.addr || bytes.Equal(ci.Pubkey, a.pub)) {
							collide = true
						}
					}
				}
			}
		}
		b.biz = isVal(s.Creator) && !collide
		b.run = func(ctx sdk.Context) error { _, err := e.valset.AddExternalChainInfoForValidator(ctx, m); return err }
		// an external account registered to a validator is held in that validator's name: after the
		// delivery no account (exact address or key: the code's own collision rule) may be attributed to
		// two validators
		b.post = func(ctx sdk.Context) string {
			all, err := vk.GetAllChainInfos(ctx)
			if err != nil {
				return ""
			}
			for i, x := range all {
				for _, y := range all[i+1:] {
					for _, cx := range x.ExternalChainInfo {
						for _, cy := range y.ExternalChainInfo {
							if cx.ChainType == cy.ChainType && cx.ChainReferenceID == cy.ChainReferenceID && (cx.Address == cy.Address || bytes.Equal(cx.Pubkey, cy.Pubkey)) {
								return fmt.Sprintf("external account %s on %s is registered to %s AND to %s", cx.Address, cx.ChainReferenceID, x.Address, y.Address)
							}
						}
					}
				}
			}
			return ""
		}
	case "treasury.MsgUpsertRelayerFee":
		v := nm("FeeSetting.ValAddress")
		va := "not-an-address"
		if v >= 0 && v < nActors {
			va = e.val(v)
		}
		m := &treasurytypes.MsgUpsertRelayerFee{Metadata: md, FeeSetting: &treasurytypes.RelayerFeeSetting{ValAddress: va,
			Fees: []treasurytypes.RelayerFeeSetting_FeeSetting{{ChainReferenceId: chain, Multiplicator: sdkmath.LegacyMustNewDecFromStr("7.25")}}}}
		switch s.Fees {
		case 1:
			m.FeeSetting.Fees = nil
		case 2:
			m.FeeSetting.Fees = append(m.FeeSetting.Fees, treasurytypes.RelayerFeeSetting_FeeSetting{ChainReferenceId: chain, Multiplicator: sdkmath.LegacyMustNewDecFromStr("3.5")})
		}
		b.msg, b.biz = m, v >= 0 && v < nActors
		b.fields = []string{"FeeSetting.ValAddress"}
		b.run = func(ctx sdk.Context) error { _, err := e.treasury.UpsertRelayerFee(ctx, m); return err }
	case "valset.MsgKeepAlive":
		m := &vtypes.MsgKeepAlive{Metadata: md, PigeonVersion: "v99.0.0"}
		b.msg, b.biz = m, isVal(s.Creator)
		b.run = func(ctx sdk.Context) error { _, err := e.valset.KeepAlive(ctx, m); return err }
	case "evm.MsgRemoveSmartContractDeploymentRequest":
		if err := e.in.EvmKeeper.SetFeeManagerAddress(e.ctx, chain, "0xb794f5ea0ba39494ce839613fffba74279579268"); err != nil {
			return nil, err
		}
		sc, err := e.in.EvmKeeper.SaveNewSmartContract(e.ctx, `[{"inputs":[],"stateMutability":"nonpayable","type":"constructor"}]`, []byte{0x60, 0x80, 0x60, 0x40})
		if err != nil {
			return nil, fmt.Errorf("SaveNewSmartContract: %w", err)
		}
		// the in-flight deployment record is written before the constructor input is packed; the
		// toy ABI makes packing fail afterwards, which is irrelevant here
		scErr := e.in.EvmKeeper.SetAsCompassContract(e.ctx, sc)
		ds, _ := e.in.EvmKeeper.AllSmartContractsDeployments(e.ctx)
		if len(ds) == 0 {
			return nil, fmt.Errorf("no deployment was created (%v)", scErr)
		}
		m := &evmtypes.MsgRemoveSmartContractDeploymentRequest{SmartContractID: sc.Id, ChainReferenceID: chain, Metadata: md}
		b.msg, b.biz = m, true
		b.run = func(ctx sdk.Context) error { _, err := e.evm.RemoveSmartContractDeployment(ctx, m); return err }
	case "evm.MsgProposeNewReferenceBlockAttestation":
		a := nm("Authority")
		m := &evmtypes.MsgProposeNewReferenceBlockAttestation{Authority: addr(a), Metadata: md, ChainReferenceId: chain, BlockHeight: 999, BlockHash: "0xabcd"}
		b.msg, b.biz = m, true
		b.fields = []string{"Authority"}
		b.run = func(ctx sdk.Context) error { _, err := e.evm.ProposeNewReferenceBlockAttestation(ctx, m); return err }
	case "evm.MsgUploadUserSmartContractRequest":
		m := &evmtypes.MsgUploadUserSmartContractRequest{Metadata: md, Title: "t", AbiJson: `[{"inputs":[],"stateMutability":"nonpayable","type":"constructor"}]`, Bytecode: "0x6080", ConstructorInput: "0x"}
		b.msg, b.biz = m, s.Creator >= 0
		b.run = func(ctx sdk.Context) error { _, err := e.evm.UploadUserSmartContract(ctx, m); return err }
	case "scheduler.MsgCreateJob":
		o := nm("Job.Owner")
		var owner sdk.AccAddress
		if o >= 0 && o < nActors {
			owner = e.actors[o]
		}
		m := &schedulertypes.MsgCreateJob{Metadata: md, Job: &schedulertypes.Job{ID: s.ID, Owner: owner,
			Routing:    schedulertypes.Routing{ChainType: "evm", ChainReferenceID: chain},
			Definition: []byte(fmt.Sprintf(`{"abi":"[]","address":"0x%040x"}`, s.Creator+1)),
			Payload:    []byte(fmt.Sprintf(`{"hexPayload":"0x%02x"}`, s.Creator+1))}}
		// valid apart from identity: a well-formed id (lower case, allowed characters) that no job has yet
		b.biz = wellFormedJobID(s.ID) && !e.jobIDs[s.ID] && s.Creator >= 0
		b.msg = m
		b.fields = []string{"Job.Owner"}
		b.run = func(ctx sdk.Context) error {
			_, err := e.sched.CreateJob(ctx, m)
			if err == nil {
				e.jobIDs[s.ID] = true
			}
			return err
		}
	case "tokenfactory.MsgCreateDenom":
		m := &tokenfactorytypes.MsgCreateDenom{Subdenom: s.ID, Metadata: md}
		b.msg = m
		b.biz = s.Creator >= 0 && wellFormedSubdenom(s.ID) && !e.denoms[fmt.Sprintf("%d/%s", s.Creator, s.ID)]
		b.run = func(ctx sdk.Context) error {
			_, err := e.tf.CreateDenom(ctx, m)
			if err == nil {
				e.denoms[fmt.Sprintf("%d/%s", s.Creator, s.ID)] = true
			}
			return err
		}
	case "tokenfactory.MsgMint", "tokenfactory.MsgBurn":
		denom := fmt.Sprintf("factory/%s/%s", addr(s.Of), s.ID)
		exists := e.denoms[fmt.Sprintf("%d/%s", s.Of, s.ID)]
		coin := sdk.Coin{Denom: denom, Amount: sdkmath.NewInt(7)}
		b.biz = exists && s.Creator == s.Of
		if s.Kind == "tokenfactory.MsgMint" {
			m := &tokenfactorytypes.MsgMint{Amount: coin, Metadata: md}
			b.msg = m
			b.run = func(ctx sdk.Context) error { _, err := e.tf.Mint(ctx, m); return err }
		} else {
			m := &tokenfactorytypes.MsgBurn{Amount: coin, Metadata: md}
			b.msg = m
			b.biz = b.biz && e.minted[denom]
			b.run = func(ctx sdk.Context) error { _, err := e.tf.Burn(ctx, m); return err }
		}
		if s.Kind == "tokenfactory.MsgMint" {
			run0 := b.run
			b.run = func(ctx sdk.Context) error {
				err := run0(ctx)
				if err == nil {
					e.minted[denom] = true
				}
				return err
			}
		}
	case "tokenfactory.MsgChangeAdmin":
		na := nm("NewAdmin")
		denom := fmt.Sprintf("factory/%s/%s", addr(s.Of), s.ID)
		newAdmin := addr(na)
		if na == -3 {
			newAdmin = "" // the admin role is renounced
		}
		m := &tokenfactorytypes.MsgChangeAdmin{Denom: denom, NewAdmin: newAdmin, Metadata: md}
		b.msg = m
		b.fields = []string{"NewAdmin"}
		b.biz = e.denoms[fmt.Sprintf("%d/%s", s.Of, s.ID)] && s.Creator == s.Of && (na == -3 || (na >= 0 && na < nActors))
		b.run = func(ctx sdk.Context) error { _, err := e.tf.ChangeAdmin(ctx, m); return err }
	case "paloma.MsgAddLightNodeClientLicense":
		c := nm("ClientAddress")
		m := &palomatypes.MsgAddLightNodeClientLicense{Metadata: md, ClientAddress: addr(c), Amount: sdk.NewInt64Coin("ugrain", 1000), VestingMonths: 12}
		b.msg = m
		b.fields = []string{"ClientAddress"}
		// the creator needs funds; the client must be an address that has neither an account nor a licence yet
		hasAccount := c <= idxUser0 || c == idxGov // funded at genesis / module account
		for _, g := range s.Grants {
			if g[1] == c {
				hasAccount = true // the feegrant keeper creates the grantee's account
			}
		}
		b.biz = s.Creator >= 0 && s.Creator <= idxUser0 && c >= 0 && c < nActors && !hasAccount && !e.licensed[c]
		b.run = func(ctx sdk.Context) error {
			_, err := e.paloma.AddLightNodeClientLicense(ctx, m)
			if err == nil {
				e.licensed[c] = true
			}
			return err
		}
	default:
		return nil, fmt.Errorf("kind %s not driven", s.Kind)
	}
	switch s.Kind {
	case "tokenfactory.MsgMint", "tokenfactory.MsgBurn", "tokenfactory.MsgChangeAdmin", "skyway.MsgSetERC20ToTokenDenom":
		if s.Of >= 0 && s.Of < nActors && s.Of != s.Creator && s.Creator >= 0 {
			if adm, err := e.tfK.GetAuthorityMetadata(e.ctx, fmt.Sprintf("factory/%s/%s", addr(s.Of), s.ID)); err == nil && adm.Admin == md.Creator {
				b.nameOnly = []int{s.Of}
			}
		}
	}
	return b, nil
}

func wellFormedJobID(id string) bool {
	if len(id) == 0 || len(id) > 32 || strings.Contains(id, "paloma") || strings.Contains(id, "pigeon") {
		return false
	}
	for _, c := range id {
		if !strings.ContainsRune("abcdefghijklmnopqrstuvwxyz0123456789-_.", c) {
			return false
		}
	}
	return true
}

func wellFormedSubdenom(id string) bool {
	if len(id) == 0 || len(id) > 44 {
		return false
	}
	for _, c := range id {
		if !(c >= 'a' && c <= 'z' || c >= 'A' && c <= 'Z' || c >= '0' && c <= '9' || strings.ContainsRune("/:._-", c)) {
			return false
		}
	}
	return true
}

func isEnv2Kind(k string) bool {
	return strings.HasPrefix(k, "tokenfactory.") || strings.HasPrefix(k, "paloma.")
}

func isEnv3Kind(k string) bool { return strings.HasPrefix(k, "consensus.") }

type obs struct {
	Ante, Ok bool
	Touched  []int
	Err      string
	Post     string `json:",omitempty"` // a state invariant of the message kind that no longer holds after the delivery
}

// beneficiary fields, read from the reviewed table (the oracle's own reading of it)
var beneficiary = map[string]bool{}

func loadTable(t *testing.T) {
	bz, err := os.ReadFile("/verif/tables/c03_fields.json")
	if err != nil {
		t.Fatal(err)
	}
	var tb struct {
		Messages map[string]struct {
			Fields map[string]struct {
				Class string `json:"class"`
			} `json:"fields"`
		} `json:"messages"`
		Wasm map[string]struct {
			Fields map[string]struct {
				Class string `json:"class"`
			} `json:"fields"`
		} `json:"wasm_bindings"`
	}
	if err := json.Unmarshal(bz, &tb); err != nil {
		t.Fatal(err)
	}
	for m, r := range tb.Wasm {
		for f, c := range r.Fields {
			if c.Class == "beneficiary" {
				beneficiary[m+":"+f] = true
			}
		}
	}
	for m, r := range tb.Messages {
		for f, c := range r.Fields {
			if c.Class == "beneficiary" {
				beneficiary[m+":"+f] = true
			}
		}
	}
}

func (e *env) ante(msg sdk.Msg) (ok bool, errs string) {
	defer func() {
		if r := recover(); r != nil {
			ok, errs = false, fmt.Sprintf("panic: %v", r)
		}
	}()
	reached := false
	_, err := e.dec.AnteHandle(e.fgCtx, fakeTx{[]sdk.Msg{msg}}, false, func(ctx sdk.Context, tx sdk.Tx, sim bool) (sdk.Context, error) {
		reached = true
		return ctx, nil
	})
	if err != nil {
		return false, err.Error()
	}
	return reached, ""
}

func (e *env) deliver(b *built, s scen) obs {
	for _, g := range s.Grants {
		if err := e.grant(g[0], g[1]); err != nil {
			panic(err)
		}
	}
	var o obs
	var vbErr error
	if vb, ok := b.msg.(sdk.HasValidateBasic); ok && b.msg != nil {
		func() {
			defer func() {
				if r := recover(); r != nil {
					vbErr = fmt.Errorf("panic: %v", r)
				}
			}()
			vbErr = vb.ValidateBasic()
		}()
	}
	var aerr string
	if b.msg == nil {
		o.Ante = true // a wasm dispatch: no ante chain; wasmd authenticated the contract address
	} else {
		o.Ante, aerr = e.ante(b.msg)
	}
	if vbErr != nil {
		o.Err = "validate-basic: " + vbErr.Error()
		return o
	}
	if !o.Ante {
		o.Err = "ante: " + aerr
		return o
	}
	cctx, write := e.ctx.CacheContext()
	before := e.scan(cctx)
	var dbgBefore []map[string]bool
	if os.Getenv("VERIF_DEBUG") != "" {
		dbgBefore = e.scanSets(cctx)
	}
	var err error
	func() {
		defer func() {
			if r := recover(); r != nil {
				err = fmt.Errorf("panic: %v", r)
			}
		}()
		err = b.run(cctx)
	}()
	if err != nil {
		o.Err = "handler: " + err.Error()
		if dbgBefore != nil {
			fmt.Printf("DEBUGERR %s\n", o.Err)
		}
		return o
	}
	write()
	o.Ok = true
	after := e.scan(e.ctx)
	if dbgBefore != nil {
		dbgAfter := e.scanSets(e.ctx)
		for i := range dbgAfter {
			for k := range dbgAfter[i] {
				if !dbgBefore[i][k] {
					fmt.Printf("DEBUGDIFF actor %d gained %s\n", i, k)
				}
			}
			for k := range dbgBefore[i] {
				if !dbgAfter[i][k] {
					fmt.Printf("DEBUGDIFF actor %d lost %s\n", i, k)
				}
			}
		}
	}
	if b.post != nil {
		o.Post = b.post(e.ctx)
	}
	exempt := map[int]bool{}
	if e.three {
		// relay duty of a NEWLY queued message is assigned by the chain's relayer selection (a function
		// of existing state, nothing in the message names the validator): not the sender's doing
		known := map[uint64]bool{}
		for _, q := range e.queued {
			known[q.ID] = true
		}
		for _, qm := range e.queuedMessages(e.ctx) {
			if !known[qm.GetId()] {
				if a := e.assigneeOf(e.ctx, qm.GetId()); a >= 0 {
					exempt[a] = true
				}
				e.queued = append(e.queued, queuedMsg{ID: qm.GetId(), Assignee: e.assigneeOf(e.ctx, qm.GetId())})
			}
		}
	}
	for i := 0; i < nActors; i++ {
		if before[i] != after[i] && !(exempt[i] && i != s.Creator) {
			o.Touched = append(o.Touched, i)
		}
	}
	return o
}

// the property's direct oracle on the real run
func oracle(run *emit.Run, s scen, b *built, o obs) { oracleR(run, s, b, o, s) }

// oracleR: the same with the replay object given separately (a step of a history is replayed by
// replaying the history).
func oracleR(run *emit.Run, s scen, b *built, o obs, replay any) {
	granted := func(granter, grantee int) bool {
		for _, g := range s.Grants {
			if g[0] == granter && g[1] == grantee {
				return true
			}
		}
		return false
	}
	authorisedCreator := false
	for _, sg := range s.Signers {
		if s.Creator >= 0 && (sg == s.Creator || granted(s.Creator, sg)) {
			authorisedCreator = true
		}
	}
	if o.Ante && !authorisedCreator {
		run.Violate("C03:ante-accepts-unauthorised-signer", fmt.Sprintf("decorator accepted %s: no signer is the creator or holds its fee grant", s.Kind), replay)
	}
	if !o.Ok {
		return
	}
	if o.Post != "" {
		run.Violate("C03:"+s.Kind+":held-by-two", fmt.Sprintf("%s signed by %v (creator %d) was accepted and now %s", s.Kind, s.Signers, s.Creator, o.Post), replay)
	}
	sk := 0
	if b.msg != nil {
		sk = signerKind(b.msg)
	}
	for _, p := range o.Touched {
		if p == s.Creator && authorisedCreator {
			continue
		}
		if s.Creator == idxGov && authorisedCreator && sk == 0 {
			continue // the governance authority itself authorised the message: it may change anybody's state
		}
		just := false
		for _, sg := range s.Signers {
			if sg == p {
				just = true // p signed this transaction itself
			}
		}
		field := "?"
		for f, v := range s.Named {
			if v == p {
				field = f
				if beneficiary[s.Kind+":"+f] {
					just = true
				}
			}
		}
		for _, x := range b.ext {
			if x == p {
				just = true
			}
		}
		for _, x := range b.nameOnly {
			if x == p {
				just = true // p only appears in the NAME of a denom that the creator administers
			}
		}
		if p == idxGov && sk == 1 && s.Named["Authority"] == idxGov {
			just = true // the authority itself signed (SDK resolves the signer from `authority`)
		}
		if p == idxGov && field == "?" {
			field = "<gov>"
		}
		if !just {
			run.Violate("C03:"+s.Kind+":"+field,
				fmt.Sprintf("%s signed by %v (creator %d) changed state attributed to actor %d named by %s, who neither signed, granted nor externally signed", s.Kind, s.Signers, s.Creator, p, field), replay)
		}
	}
}

// 0: the codec resolves tx signers from metadata.signers, 1: from authority
func signerKind(m sdk.Msg) int {
	v := reflect.ValueOf(m).Elem()
	a := v.FieldByName("Authority")
	if !a.IsValid() {
		return 0
	}
	switch m.(type) {
	case *skywaytypes.MsgUpdateParams, *palomatypes.MsgUpdateParams, *tokenfactorytypes.MsgUpdateParams:
		return shapeSigner(m)
	}
	return shapeSigner(m)
}

var shapeCache = map[string]int{}

// shapeSigner asks the real codec (proto signer annotations) who must sign m.
func shapeSigner(m sdk.Msg) int {
	name := sdk.MsgTypeURL(m)
	if k, ok := shapeCache[name]; ok {
		return k
	}
	x := reflect.New(reflect.TypeOf(m).Elem()).Interface().(sdk.Msg)
	v := reflect.ValueOf(x).Elem()
	keeper.MakeTestMarshaler() // makes sure the paloma bech32 prefixes are configured
	sa := sdk.AccAddress(append(make([]byte, 19), 1)).String()
	sb := sdk.AccAddress(append(make([]byte, 19), 2)).String()
	if f := v.FieldByName("Metadata"); f.IsValid() {
		f.Set(reflect.ValueOf(vtypes.MsgMetadata{Creator: sa, Signers: []string{sa}}))
	}
	if f := v.FieldByName("Authority"); f.IsValid() {
		f.SetString(sb)
	}
	signers, _, err := shapeCdc.GetMsgV1Signers(x)
	k := -1
	if err == nil && len(signers) == 1 {
		switch sdk.AccAddress(signers[0]).String() {
		case sa:
			k = 0
		case sb:
			k = 1
		}
	}
	shapeCache[name] = k
	return k
}

var shapeCdc = func() codec.Codec {
	ir, err := codectypes.NewInterfaceRegistryWithOptions(codectypes.InterfaceRegistryOptions{
		ProtoFiles: gogoproto.HybridResolver,
		SigningOptions: signing.Options{
			AddressCodec:          addresscodec.NewBech32Codec("paloma"),
			ValidatorAddressCodec: addresscodec.NewBech32Codec("palomavaloper"),
		},
	})
	if err != nil {
		panic(err)
	}
	return codec.NewProtoCodec(ir)
}()

func allMsgs() map[string]sdk.Msg {
	return map[string]sdk.Msg{
		"consensus.MsgAddMessagesSignatures": &consensustypes.MsgAddMessagesSignatures{}, "consensus.MsgAddMessageGasEstimates": &consensustypes.MsgAddMessageGasEstimates{},
		"consensus.MsgAddEvidence": &consensustypes.MsgAddEvidence{}, "consensus.MsgSetPublicAccessData": &consensustypes.MsgSetPublicAccessData{},
		"consensus.MsgSetErrorData":                   &consensustypes.MsgSetErrorData{},
		"evm.MsgRemoveSmartContractDeploymentRequest": &evmtypes.MsgRemoveSmartContractDeploymentRequest{}, "evm.MsgDeployNewSmartContractProposalV2": &evmtypes.MsgDeployNewSmartContractProposalV2{},
		"evm.MsgProposeNewReferenceBlockAttestation": &evmtypes.MsgProposeNewReferenceBlockAttestation{}, "evm.MsgUploadUserSmartContractRequest": &evmtypes.MsgUploadUserSmartContractRequest{},
		"evm.MsgRemoveUserSmartContractRequest": &evmtypes.MsgRemoveUserSmartContractRequest{}, "evm.MsgDeployUserSmartContractRequest": &evmtypes.MsgDeployUserSmartContractRequest{},
		"paloma.MsgAddStatusUpdate": &palomatypes.MsgAddStatusUpdate{}, "paloma.MsgRegisterLightNodeClient": &palomatypes.MsgRegisterLightNodeClient{},
		"paloma.MsgAddLightNodeClientLicense": &palomatypes.MsgAddLightNodeClientLicense{}, "paloma.MsgAuthLightNodeClient": &palomatypes.MsgAuthLightNodeClient{},
		"paloma.MsgSetLegacyLightNodeClients": &palomatypes.MsgSetLegacyLightNodeClients{}, "paloma.MsgUpdateParams": &palomatypes.MsgUpdateParams{},
		"scheduler.MsgCreateJob": &schedulertypes.MsgCreateJob{}, "scheduler.MsgExecuteJob": &schedulertypes.MsgExecuteJob{},
		"skyway.MsgSendToRemote": &skywaytypes.MsgSendToRemote{}, "skyway.MsgConfirmBatch": &skywaytypes.MsgConfirmBatch{}, "skyway.MsgEstimateBatchGas": &skywaytypes.MsgEstimateBatchGas{},
		"skyway.MsgSendToPalomaClaim": &skywaytypes.MsgSendToPalomaClaim{}, "skyway.MsgBatchSendToRemoteClaim": &skywaytypes.MsgBatchSendToRemoteClaim{},
		"skyway.MsgCancelSendToRemote": &skywaytypes.MsgCancelSendToRemote{}, "skyway.MsgSubmitBadSignatureEvidence": &skywaytypes.MsgSubmitBadSignatureEvidence{},
		"skyway.MsgUpdateParams": &skywaytypes.MsgUpdateParams{}, "skyway.MsgLightNodeSaleClaim": &skywaytypes.MsgLightNodeSaleClaim{},
		"skyway.MsgSetERC20ToTokenDenom": &skywaytypes.MsgSetERC20ToTokenDenom{}, "skyway.MsgReplenishLostGrainsProposal": &skywaytypes.MsgReplenishLostGrainsProposal{},
		"skyway.MsgSetERC20MappingProposal": &skywaytypes.MsgSetERC20MappingProposal{}, "skyway.MsgNonceOverrideProposal": &skywaytypes.MsgNonceOverrideProposal{},
		"tokenfactory.MsgCreateDenom": &tokenfactorytypes.MsgCreateDenom{}, "tokenfactory.MsgSetDenomMetadata": &tokenfactorytypes.MsgSetDenomMetadata{},
		"tokenfactory.MsgMint": &tokenfactorytypes.MsgMint{}, "tokenfactory.MsgBurn": &tokenfactorytypes.MsgBurn{}, "tokenfactory.MsgChangeAdmin": &tokenfactorytypes.MsgChangeAdmin{},
		"tokenfactory.MsgUpdateParams": &tokenfactorytypes.MsgUpdateParams{},
		"treasury.MsgUpsertRelayerFee": &treasurytypes.MsgUpsertRelayerFee{},
		"valset.MsgAddExternalChainInfoForValidator": &vtypes.MsgAddExternalChainInfoForValidator{}, "valset.MsgKeepAlive": &vtypes.MsgKeepAlive{},
	}
}

// ---- Coq printing ----
func zlist(xs []int) string {
	s := make([]string, len(xs))
	for i, x := range xs {
		s[i] = emit.ZI(pid(x))
	}
	return emit.List(s)
}

func caseTerm(s scen, b *built, o obs) string {
	var gs, fs []string
	for _, g := range s.Grants {
		gs = append(gs, emit.Pair(emit.ZI(pid(g[0])), emit.ZI(pid(g[1]))))
	}
	for _, f := range b.fields {
		v, ok := s.Named[f]
		if !ok {
			v = s.Creator
		}
		fs = append(fs, emit.Pair(emit.Str(f), emit.ZI(pid(v))))
	}
	return fmt.Sprintf("C03.CDeliver %s %s %s %s %s %s %s %s %s %s %s", emit.Str(s.Kind), emit.ZI(pid(idxGov)), emit.List(gs), zlist(s.Signers),
		emit.ZI(pid(s.Creator)), emit.List(fs), zlist(b.ext), emit.Bool(b.biz), emit.Bool(o.Ante), emit.Bool(o.Ok), zlist(o.Touched))
}

// ---- generator ----
func pick(r *rand.Rand, xs ...int) int { return xs[r.Intn(len(xs))] }

func anyActor(r *rand.Rand) int {
	switch r.Intn(10) {
	case 0:
		return idxGov
	case 1, 2, 3:
		return idxUser0 + r.Intn(3)
	case 4:
		return idxPig0 + r.Intn(2)
	default:
		return r.Intn(nVals)
	}
}

func genScen(r *rand.Rand, kind string, hostile bool) scen {
	s := scen{Kind: kind, Named: map[string]int{}, SigBy: -1}
	a := anyActor(r)
	for a == idxGov && r.Intn(4) != 0 {
		a = anyActor(r)
	}
	s.Creator = a
	// who signs
	switch x := r.Intn(10); {
	case x < 5:
		s.Signers = []int{a}
	case x < 7: // the creator's relayer key with a fee grant
		p := idxPig0 + r.Intn(2)
		s.Signers, s.Grants = []int{p}, [][2]int{{a, p}}
	case x < 8: // a relayer key whose grant comes from somebody else
		p := idxPig0 + r.Intn(2)
		other := anyActor(r)
		s.Signers, s.Grants = []int{p}, [][2]int{{other, p}}
	case x < 9: // a stranger signs for the creator
		st := anyActor(r)
		s.Signers = []int{st}
	default:
		s.Signers = []int{anyActor(r), a}
	}
	// who is named
	named := func(f string, same int) {
		if r.Intn(100) < same {
			s.Named[f] = a
		} else {
			s.Named[f] = anyActor(r)
		}
	}
	switch kind {
	case "skyway.MsgSendToPalomaClaim":
		named("Orchestrator", 45)
		s.Named["PalomaReceiver"] = anyActor(r)
	case "skyway.MsgBatchSendToRemoteClaim":
		named("Orchestrator", 45)
	case "skyway.MsgLightNodeSaleClaim":
		named("Orchestrator", 45)
		s.Named["ClientAddress"] = anyActor(r)
	case "skyway.MsgConfirmBatch":
		named("Orchestrator", 40)
		switch r.Intn(8) {
		case 0:
			s.SigBy = -1
		case 1:
			s.SigBy = r.Intn(nVals)
		case 2, 3:
			// the sender's OWN registered key and valid signature (a bonded validator signing for
			// itself, possibly through its relayer key) while another validator is named as orchestrator
			if !isVal(s.Creator) {
				s.Creator = r.Intn(nVals)
				if len(s.Grants) == 1 && len(s.Signers) == 1 && s.Signers[0] >= idxPig0 {
					s.Grants[0][0] = s.Creator
				} else {
					s.Signers, s.Grants = []int{s.Creator}, nil
				}
			}
			s.SigBy = s.Creator
			if s.Named["Orchestrator"] == s.Creator || !isVal(s.Named["Orchestrator"]) {
				s.Named["Orchestrator"] = (s.Creator + 1 + r.Intn(nVals-1)) % nVals
			}
		default:
			s.SigBy = s.Named["Orchestrator"]
		}
	case "skyway.MsgSetERC20MappingProposal", "evm.MsgProposeNewReferenceBlockAttestation":
		if r.Intn(2) == 0 {
			s.Named["Authority"] = idxGov
		} else {
			named("Authority", 50)
		}
		if r.Intn(3) == 0 {
			s.Creator = idxGov
			if r.Intn(2) == 0 {
				s.Signers = []int{idxGov}
			}
		}
	case "skyway.MsgNonceOverrideProposal":
		if r.Intn(3) == 0 {
			s.Creator = idxGov
			if r.Intn(2) == 0 {
				s.Signers = []int{idxGov}
			}
		}
	case "treasury.MsgUpsertRelayerFee":
		named("FeeSetting.ValAddress", 45)
		s.Fees = r.Intn(3) // one fee / an empty list / the same chain twice
		if s.Fees == 1 && r.Intn(2) == 0 {
			// an empty list naming an account that has NO stored setting yet (validators have one here)
			s.Named["FeeSetting.ValAddress"] = idxUser0 + r.Intn(3)
		}
	case "consensus.MsgAddMessagesSignatures", "consensus.MsgAddMessageGasEstimates", "consensus.MsgAddEvidence",
		"consensus.MsgSetPublicAccessData", "consensus.MsgSetErrorData":
		// mostly validators; the message: the first or second waiting one (ids resolved against the
		// real queue by fixEnv3: 1 / 2 = the waiting messages, 3 = none), sometimes after an honest
		// delivery of the same kind by the validator the message is assigned to / by another one
		if !isVal(s.Creator) && r.Intn(4) != 0 {
			s.Creator = r.Intn(nVals)
			if len(s.Grants) == 1 && len(s.Signers) == 1 && s.Signers[0] >= idxPig0 && r.Intn(2) == 0 {
				s.Grants[0][0] = s.Creator
			} else {
				s.Signers, s.Grants = []int{s.Creator}, nil
			}
		}
		s.TxID = uint64(pick(r, 1, 1, 2, 2, 3))
		switch kind {
		case "consensus.MsgAddMessagesSignatures":
			named("SignedByAddress", 70)
			s.SigBy = pick(r, s.Creator, s.Creator, s.Named["SignedByAddress"], r.Intn(nVals))
		case "consensus.MsgAddMessageGasEstimates":
			named("EstimatedByAddress", 70)
		}
		if kind == "consensus.MsgSetPublicAccessData" {
			s.Valset = uint64(1 + r.Intn(3))
		}
		if r.Intn(2) == 0 || (kind == "consensus.MsgSetPublicAccessData" && r.Intn(3) != 0) {
			other := r.Intn(nVals)
			pre := scen{Kind: kind, Creator: other, Signers: []int{other}, TxID: s.TxID, SigBy: other, Named: map[string]int{}, Valset: uint64(1 + r.Intn(3))}
			if r.Intn(3) == 0 {
				pre.Creator = -2 // resolved by fixEnv3: the validator the message is assigned to
			}
			s.Pre = []scen{pre}
		}
	case "wasm.scheduler.execute_job", "wasm.scheduler.legacy_execute_job", "wasm.scheduler.create_job",
		"wasm.tokenfactory.mint_tokens", "wasm.tokenfactory.change_admin", "wasm.tokenfactory.burn_tokens", "wasm.tokenfactory.create_denom",
		"wasm.skyway.send_tx", "wasm.skyway.cancel_tx", "wasm.skyway.set_erc20_to_denom":
		// the principal is the dispatching contract: no signer set, no grants; the body names others
		s.Creator = pick(r, 0, 1, 2, idxUser0)
		s.Signers, s.Grants, s.Named = []int{s.Creator}, nil, map[string]int{}
		other := pick(r, 0, 1, 2, idxUser0)
		switch kind {
		case "wasm.scheduler.execute_job", "wasm.scheduler.legacy_execute_job":
			s.Of, s.ID = other, pick2(r, "vault-rebalance", "vault-rebalance", "vault-rebalance", nearMiss(r, "vault-rebalance"))
			if kind == "wasm.scheduler.execute_job" && r.Intn(3) != 0 {
				s.Named["Sender"] = pick(r, s.Creator, anyActor(r), anyActor(r))
			}
		case "wasm.scheduler.create_job":
			s.Of, s.ID = other, nearMiss(r, "vault-rebalance")
		case "wasm.tokenfactory.create_denom":
			s.Of, s.ID = other, nearMiss(r, "gold")
		case "wasm.tokenfactory.mint_tokens":
			s.Of, s.ID = pick(r, s.Creator, s.Creator, other), "gold"
			s.Named["MintToAddress"] = pick(r, 0, 1, 2, idxUser0, s.Creator)
		case "wasm.tokenfactory.change_admin":
			s.Of, s.ID = pick(r, s.Creator, s.Creator, other), "gold"
			s.Named["NewAdminAddress"] = pick(r, 0, 1, 2, idxUser0)
		case "wasm.tokenfactory.burn_tokens":
			s.Of, s.ID = pick(r, s.Creator, s.Creator, other), "gold"
			if r.Intn(2) == 0 {
				s.Named["BurnFromAddress"] = pick(r, s.Creator, other, anyActor(r))
			}
		case "wasm.skyway.cancel_tx":
			s.TxID = uint64(pick(r, 1, 1, 2))
		case "wasm.skyway.set_erc20_to_denom":
			s.Of, s.ID = s.Creator, "junk"
			s.Erc = ercVariant(r, r.Intn(len(ercs)))
		}
		hostile = false
	case "valset.MsgAddExternalChainInfoForValidator":
		if !isVal(s.Creator) && r.Intn(4) != 0 {
			s.Creator = r.Intn(nVals)
			s.Signers, s.Grants = []int{s.Creator}, nil
		}
		s.Named["ChainInfos.Address"] = pick(r, s.Creator, r.Intn(nVals), r.Intn(nVals), -1)
		if r.Intn(5) == 0 {
			s.Erc = "lower"
		}
		if r.Intn(2) == 0 {
			// 2-3 accounts for the same chain: another validator's account first / in the middle / last
			other := (s.Creator + 1 + r.Intn(nVals-1)) % nVals
			s.Multi = []int{-1, -4, -5}[:2+r.Intn(2)]
			s.Multi[r.Intn(len(s.Multi))] = pick(r, other, other, other, s.Creator)
			if r.Intn(4) == 0 {
				s.Multi[r.Intn(len(s.Multi))] = pick(r, other, s.Creator)
			}
		}
	case "scheduler.MsgCreateJob":
		// somebody else owns a job; the message's id is that id, a near-miss spelling of it, or a fresh one
		base := []string{"vault-rebalance", "a.b_c-1"}[r.Intn(2)]
		owner := anyActor(r)
		for owner == idxGov {
			owner = anyActor(r)
		}
		s.Pre = []scen{{Kind: kind, Creator: owner, Signers: []int{owner}, ID: base, SigBy: -1}}
		s.ID = nearMiss(r, base)
		named("Job.Owner", 30)
	case "tokenfactory.MsgCreateDenom":
		owner := r.Intn(idxUser0 + 1)
		s.Pre = []scen{{Kind: kind, Creator: owner, Signers: []int{owner}, ID: "gold", SigBy: -1}}
		s.ID = nearMiss(r, "gold")
		if s.Creator > idxUser0 && r.Intn(3) != 0 {
			s.Creator = r.Intn(idxUser0 + 1)
			s.Signers = []int{s.Creator}
		}
	case "tokenfactory.MsgMint", "tokenfactory.MsgBurn", "tokenfactory.MsgChangeAdmin":
		owner := r.Intn(idxUser0 + 1)
		s.Pre = []scen{{Kind: "tokenfactory.MsgCreateDenom", Creator: owner, Signers: []int{owner}, ID: "gold", SigBy: -1},
			{Kind: "tokenfactory.MsgMint", Creator: owner, Signers: []int{owner}, ID: "gold", Of: owner, SigBy: -1}}
		s.Of, s.ID = owner, "gold"
		if r.Intn(3) == 0 { // the owner itself (possibly through its relayer key)
			s.Creator = owner
			if len(s.Signers) == 1 && s.Signers[0] != owner && len(s.Grants) == 1 {
				s.Grants[0][0] = owner
			} else {
				s.Signers, s.Grants = []int{owner}, nil
			}
		}
		if kind == "tokenfactory.MsgChangeAdmin" {
			s.Named["NewAdmin"] = anyActor(r)
		}
	case "paloma.MsgAddLightNodeClientLicense":
		if r.Intn(2) == 0 {
			owner := r.Intn(idxUser0 + 1)
			s.Pre = []scen{{Kind: kind, Creator: owner, Signers: []int{owner}, Named: map[string]int{"ClientAddress": idxUser0 + 1}, SigBy: -1}}
		}
		s.Named["ClientAddress"] = pick(r, idxUser0+1, idxUser0+1, idxUser0+2, anyActor(r))
	}
	if hostile {
		switch r.Intn(4) {
		case 0:
			s.Signers = nil
		case 1:
			s.Creator = -1
		case 2:
			for f := range s.Named {
				s.Named[f] = -1
				break
			}
		case 3:
			s.Grants = append(s.Grants, [2]int{anyActor(r), anyActor(r)})
		}
		// keep grants well-formed for the feegrant keeper
		var gs [][2]int
		seen := map[[2]int]bool{}
		for _, g := range s.Grants {
			if g[0] != g[1] && g[0] >= 0 && g[1] >= 0 && !seen[g] {
				seen[g] = true
				gs = append(gs, g)
			}
		}
		s.Grants = gs
	} else {
		var gs [][2]int
		for _, g := range s.Grants {
			if g[0] != g[1] {
				gs = append(gs, g)
			}
		}
		s.Grants = gs
	}
	return s
}

// nearMiss: the identifier itself, case / whitespace variants of it, or a fresh well-formed one
func nearMiss(r *rand.Rand, base string) string {
	switch r.Intn(8) {
	case 0:
		return base
	case 1:
		return strings.ToUpper(base[:1]) + base[1:]
	case 2:
		return strings.ToUpper(base)
	case 3:
		return " " + base
	case 4:
		return base + " "
	case 5:
		return "\t" + base + "\n"
	case 6:
		return strings.Title(strings.ReplaceAll(base, "-", " -"))
	default:
		return base + fmt.Sprint(r.Intn(9))
	}
}

func runOne(t *testing.T, run *emit.Run, s scen, fromCorpus bool) {
	var e *env
	switch {
	case isWasmKind(s.Kind):
		switch wasmEnv(s.Kind) {
		case 3:
			e = setup3(t)
		case 2:
			e = setup2(t)
		default:
			e = setup(t)
		}
		e.wasmPre(t, s)
	case isEnv3Kind(s.Kind):
		e = setup3(t)
	case isEnv2Kind(s.Kind):
		e = setup2(t)
	default:
		e = setup(t)
	}
	// honest deliveries by other principals that set the scene (they own jobs, denoms, licences)
	for _, p := range s.Pre {
		if e.three {
			p = fixEnv3(e, p)
		}
		pb, err := e.build(t, p)
		if err != nil {
			t.Fatalf("pre-step %+v cannot be built: %v", p, err)
		}
		if err := pb.run(e.ctx); err != nil {
			if e.three { // e.g. a gas estimate for a message that needs none: the scene simply lacks it
				run.Count("pre-step", "refused")
				continue
			}
			t.Fatalf("pre-step %+v failed: %v", p, err)
		}
	}
	b, err := e.build(t, s)
	if err != nil {
		t.Fatalf("scenario %+v cannot be built: %v", s, err)
	}
	o := e.deliver(b, s)
	oracle(run, s, b, o)
	cross := false
	for _, v := range s.Named {
		if v != s.Creator {
			cross = true
		}
	}
	run.Case(caseTerm(s, b, o), o.Ok || cross, map[string]any{"scenario": s, "observed": o})
	run.Count("kind", s.Kind)
	switch {
	case o.Ok:
		run.Count("outcome", "accepted")
	case !o.Ante:
		run.Count("outcome", "rejected-ante")
	default:
		run.Count("outcome", "rejected-handler")
	}
	if cross {
		run.Count("shape", "names-other-principal")
	} else {
		run.Count("shape", "names-self")
	}
	if len(s.Grants) > 0 {
		run.Count("shape", "with-grant")
	}
	if fromCorpus {
		run.Count("source", "corpus")
	}
}

func (e *env) authzKeeper() authzkeeper.Keeper {
	ir := shapeCdc.InterfaceRegistry()
	authz.RegisterInterfaces(ir)
	skywaytypes.RegisterInterfaces(ir)
	treasurytypes.RegisterInterfaces(ir)
	vtypes.RegisterInterfaces(ir)
	evmtypes.RegisterInterfaces(ir)
	router := baseapp.NewMsgServiceRouter()
	router.SetInterfaceRegistry(ir)
	skywaytypes.RegisterMsgServer(router, e.skyway)
	treasurytypes.RegisterMsgServer(router, e.treasury)
	vtypes.RegisterMsgServer(router, e.valset)
	evmtypes.RegisterMsgServer(router, e.evm)
	ak := authzkeeper.NewKeeper(runtime.NewKVStoreService(storetypes.NewKVStoreKey("authz")), shapeCdc, router, e.in.AccountKeeper)
	authz.RegisterMsgServer(router, ak) // a MsgExec nested in a MsgExec is routed back to x/authz (no depth limit there)
	return ak
}

// runNest: ONE message wrapped in s.Depth levels of authz.MsgExec whose grantee is the message's
// signer at every level (x/authz then needs no grant at any level), as the single top-level message
// of a transaction: ValidateBasic of every level, the real decorator, the real authz keeper.
func runNest(t *testing.T, run *emit.Run, s scen, fromCorpus bool) {
	e := setup(t)
	in := s.Tx[0]
	for _, g := range s.Grants {
		if err := e.grant(g[0], g[1]); err != nil {
			t.Fatal(err)
		}
	}
	in.Grants = s.Grants
	b, err := e.build(t, in)
	if err != nil {
		t.Fatalf("scenario %+v cannot be built: %v", s, err)
	}
	if len(in.Signers) != 1 {
		t.Fatalf("nested message needs exactly one signer")
	}
	ak := e.authzKeeper()
	top := b.msg
	var vbErr error
	if vb, ok := top.(sdk.HasValidateBasic); ok {
		vbErr = vb.ValidateBasic()
	}
	var exec *authz.MsgExec
	for d := 0; d < s.Depth; d++ {
		x := authz.NewMsgExec(e.actors[in.Signers[0]], []sdk.Msg{top})
		exec, top = &x, &x
		if vb, ok := top.(sdk.HasValidateBasic); ok && vbErr == nil {
			vbErr = vb.ValidateBasic()
		}
	}
	var o obs
	o.Ante, o.Err = e.ante(top)
	if vbErr != nil {
		o.Ante, o.Err = false, "validate-basic: "+vbErr.Error() // the model has no ValidateBasic: count as refused
	}
	if o.Ante {
		cctx, write := e.ctx.CacheContext()
		before := e.scan(cctx)
		var err error
		func() {
			defer func() {
				if r := recover(); r != nil {
					err = fmt.Errorf("panic: %v", r)
				}
			}()
			if exec != nil {
				_, err = ak.Exec(cctx, exec)
			} else {
				err = b.run(cctx)
			}
		}()
		if err == nil {
			write()
			o.Ok = true
			after := e.scan(e.ctx)
			for i := 0; i < nActors; i++ {
				if before[i] != after[i] {
					o.Touched = append(o.Touched, i)
				}
			}
		} else {
			o.Err = "handler: " + err.Error()
		}
	}
	// oracle: the same as for a top-level delivery, replayed as the nest
	oracleR(run, in, b, o, s)
	run.Case(strings.Replace(caseTerm(in, b, o), "C03.CDeliver ", fmt.Sprintf("C03.CNest %d ", s.Depth), 1), true, map[string]any{"scenario": s, "observed": o})
	run.Count("nest-depth", fmt.Sprintf("%02d ante=%v ok=%v", s.Depth, o.Ante, o.Ok))
	if fromCorpus {
		run.Count("source", "corpus")
	}
}

// genNest: depths 0..10 around the decorator's limit; the innermost message is forged (creator B,
// signer A, no grant), legitimate (creator = signer) or granted.
func genNest(r *rand.Rand) scen {
	a := pick(r, idxPig0, idxUser0, r.Intn(nVals), r.Intn(nVals))
	bb := r.Intn(nVals)
	in := scen{Kind: txKinds[r.Intn(3)], Named: map[string]int{}, SigBy: -1, Signers: []int{a}}
	s := scen{Kind: "nest", SigBy: -1, Depth: pick(r, 0, 1, 2, 5, 6, 6, 7, 7, 7, 8, 9, 10)}
	switch r.Intn(5) {
	case 0:
		in.Creator = a
	case 1:
		in.Creator = bb
		if bb != a {
			s.Grants = [][2]int{{bb, a}}
		}
	default:
		in.Creator = bb
	}
	if in.Kind == "treasury.MsgUpsertRelayerFee" {
		in.Named["FeeSetting.ValAddress"] = in.Creator
	}
	s.Tx = []scen{in}
	return s
}

// runTx: one multi-message transaction through ValidateBasic of every message, ONE pass of the
// real decorator over the whole transaction, then the real handlers in order inside one cache
// context (all-or-nothing, as baseapp.runMsgs). Messages marked nested travel inside an
// authz.MsgExec whose grantee is their signer and are executed by the real authz keeper.
func runTx(t *testing.T, run *emit.Run, s scen, fromCorpus bool) {
	e := setup(t)
	for _, g := range s.Grants {
		if err := e.grant(g[0], g[1]); err != nil {
			t.Fatal(err)
		}
	}
	ak := e.authzKeeper()
	type part struct {
		sc   scen
		b    *built
		top  sdk.Msg
		exec *authz.MsgExec
	}
	var parts []part
	var top []sdk.Msg
	for _, m := range s.Tx {
		b, err := e.build(t, m)
		if err != nil {
			t.Fatalf("scenario %+v cannot be built: %v", m, err)
		}
		p := part{sc: m, b: b, top: b.msg}
		if m.Nested {
			if len(m.Signers) != 1 {
				t.Fatalf("nested message needs exactly one signer")
			}
			x := authz.NewMsgExec(e.actors[m.Signers[0]], []sdk.Msg{b.msg})
			p.exec, p.top = &x, &x
		}
		parts = append(parts, p)
		top = append(top, p.top)
	}
	var o obs
	var vbErr error
	for _, m := range top {
		if vb, ok := m.(sdk.HasValidateBasic); ok && vbErr == nil {
			func() {
				defer func() {
					if r := recover(); r != nil {
						vbErr = fmt.Errorf("panic: %v", r)
					}
				}()
				vbErr = vb.ValidateBasic()
			}()
		}
		if vbErr == nil {
			// inner messages are validated by the authz handler; do it here as well so that the
			// verdicts are comparable
			if x, ok := m.(*authz.MsgExec); ok {
				inner, _ := x.GetMessages()
				for _, im := range inner {
					if vb, ok := im.(sdk.HasValidateBasic); ok && vbErr == nil {
						vbErr = vb.ValidateBasic()
					}
				}
			}
		}
	}
	func() {
		defer func() {
			if r := recover(); r != nil {
				o.Ante, o.Err = false, fmt.Sprintf("panic: %v", r)
			}
		}()
		reached := false
		_, err := e.dec.AnteHandle(e.fgCtx, fakeTx{top}, false, func(ctx sdk.Context, tx sdk.Tx, sim bool) (sdk.Context, error) {
			reached = true
			return ctx, nil
		})
		o.Ante = err == nil && reached
		if err != nil {
			o.Err = err.Error()
		}
	}()
	if vbErr == nil && o.Ante {
		cctx, write := e.ctx.CacheContext()
		before := e.scan(cctx)
		var err error
		for _, p := range parts {
			func() {
				defer func() {
					if r := recover(); r != nil {
						err = fmt.Errorf("panic: %v", r)
					}
				}()
				if p.exec != nil {
					_, err = ak.Exec(cctx, p.exec)
				} else {
					err = p.b.run(cctx)
				}
			}()
			if err != nil {
				break
			}
		}
		if err == nil {
			write()
			o.Ok = true
			after := e.scan(e.ctx)
			for i := 0; i < nActors; i++ {
				if before[i] != after[i] {
					o.Touched = append(o.Touched, i)
				}
			}
		} else {
			o.Err = "handler: " + err.Error()
		}
	} else if vbErr != nil {
		o.Err = "validate-basic: " + vbErr.Error()
	}

	// oracle
	granted := func(granter, grantee int) bool {
		for _, g := range s.Grants {
			if g[0] == granter && g[1] == grantee {
				return true
			}
		}
		return false
	}
	auth := make([]bool, len(parts))
	for i, p := range parts {
		for _, sg := range p.sc.Signers {
			if p.sc.Creator >= 0 && (sg == p.sc.Creator || granted(p.sc.Creator, sg)) {
				auth[i] = true
			}
		}
		if o.Ante && !auth[i] {
			run.Violate("C03:ante-accepts-unauthorised-signer",
				fmt.Sprintf("decorator accepted a %d-message transaction whose message %d (%s, creator %d, signers %v) has no signer that is its creator or holds its creator's fee grant", len(parts), i, p.sc.Kind, p.sc.Creator, p.sc.Signers), s)
		}
	}
	if o.Ok {
		for _, q := range o.Touched {
			just := false
			for i, p := range parts {
				if q == p.sc.Creator && auth[i] {
					just = true
				}
				for _, sg := range p.sc.Signers {
					if sg == q {
						just = true
					}
				}
				for f, v := range p.sc.Named {
					if v == q && beneficiary[p.sc.Kind+":"+f] {
						just = true
					}
				}
				for _, x := range p.b.ext {
					if x == q {
						just = true
					}
				}
			}
			if !just {
				run.Violate("C03:tx-cross-principal",
					fmt.Sprintf("a %d-message transaction changed state attributed to actor %d, who authorised none of its messages", len(parts), q), s)
			}
		}
	}

	// case
	var gs, ms []string
	for _, g := range s.Grants {
		gs = append(gs, emit.Pair(emit.ZI(pid(g[0])), emit.ZI(pid(g[1]))))
	}
	cross := false
	for _, p := range parts {
		var fs []string
		for _, f := range p.b.fields {
			v, ok := p.sc.Named[f]
			if !ok {
				v = p.sc.Creator
			}
			fs = append(fs, emit.Pair(emit.Str(f), emit.ZI(pid(v))))
		}
		ms = append(ms, emit.Pair(emit.Str(p.sc.Kind), zlist(p.sc.Signers), emit.ZI(pid(p.sc.Creator)), emit.List(fs), zlist(p.b.ext), emit.Bool(p.b.biz)))
		if len(p.sc.Signers) != 1 || p.sc.Signers[0] != p.sc.Creator {
			cross = true
		}
		if p.sc.Nested {
			run.Count("tx-shape", "nested-msgexec")
		}
	}
	run.Case(fmt.Sprintf("C03.CTx %s %s %s %s %s %s", emit.ZI(pid(idxGov)), emit.List(gs), emit.List(ms), emit.Bool(o.Ante), emit.Bool(o.Ok), zlist(o.Touched)),
		o.Ok || cross, map[string]any{"scenario": s, "observed": o})
	run.Count("tx-size", fmt.Sprint(len(parts)))
	switch {
	case o.Ok:
		run.Count("tx-outcome", "accepted")
	case !o.Ante:
		run.Count("tx-outcome", "rejected-ante")
	default:
		run.Count("tx-outcome", "rejected-handler")
	}
	if fromCorpus {
		run.Count("source", "corpus")
	}
}

var txKinds = []string{"treasury.MsgUpsertRelayerFee", "valset.MsgKeepAlive", "evm.MsgUploadUserSmartContractRequest", "skyway.MsgSendToRemote"}

// genTx: 2-4 independent messages; one relayer/attacker key signs most of them; creators are the
// signer itself, accounts that granted it a fee allowance, and accounts that did not; every order.
func genTx(r *rand.Rand) scen {
	s := scen{Kind: "tx", SigBy: -1}
	a := pick(r, idxPig0, idxPig0+1, idxUser0, idxUser0+1, r.Intn(nVals))
	n := 2 + r.Intn(3)
	granters := map[int]bool{}
	for i := 0; i < n; i++ {
		m := scen{Kind: txKinds[r.Intn(len(txKinds))], Named: map[string]int{}, SigBy: -1, Signers: []int{a}}
		c := r.Intn(nVals)
		if r.Intn(4) == 0 {
			c = anyActor(r)
		}
		switch r.Intn(5) {
		case 0: // signs for itself
			m.Creator = a
		case 1, 2: // a creator that granted the signer a fee allowance
			m.Creator = c
			if c != a {
				granters[c] = true
			}
		case 3: // a creator that did not
			m.Creator = c
		default: // the creator signs itself
			m.Creator, m.Signers = c, []int{c}
		}
		if m.Kind == "treasury.MsgUpsertRelayerFee" {
			m.Named["FeeSetting.ValAddress"] = m.Creator
			if r.Intn(6) == 0 {
				m.Named["FeeSetting.ValAddress"] = r.Intn(nVals)
			}
		}
		m.Nested = r.Intn(4) == 0
		s.Tx = append(s.Tx, m)
	}
	// grants only for some of the creators: a creator picked in case 3 may coincide with a granter
	for g := range granters {
		if g != a {
			s.Grants = append(s.Grants, [2]int{g, a})
		}
	}
	sort.Slice(s.Grants, func(i, j int) bool { return s.Grants[i][0] < s.Grants[j][0] })
	r.Shuffle(len(s.Tx), func(i, j int) { s.Tx[i], s.Tx[j] = s.Tx[j], s.Tx[i] })
	return s
}

// runAuthzExec: the inner message is wrapped in an x/authz MsgExec whose grantee is the tx signer.
// The top-level message carries no metadata, so the decorator as written skips it; authz accepts
// an inner message whose signer is the grantee without any grant and hands it to the msg-service
// router. Oracle only (nested dispatch is outside the Coq model).
func runAuthzExec(t *testing.T, run *emit.Run, s scen) {
	e := setup(t)
	inner := s
	inner.Kind = strings.TrimPrefix(s.Kind, "authz.MsgExec>")
	b, err := e.build(t, inner)
	if err != nil {
		t.Fatalf("scenario %+v cannot be built: %v", s, err)
	}
	if len(s.Signers) != 1 {
		t.Fatalf("authz scenario needs exactly one signer")
	}
	ak := e.authzKeeper()
	exec := authz.NewMsgExec(e.actors[s.Signers[0]], []sdk.Msg{b.msg})
	for _, g := range s.Grants {
		if err := e.grant(g[0], g[1]); err != nil {
			t.Fatal(err)
		}
	}
	anteOK, aerr := e.ante(&exec)
	o := obs{Ante: anteOK, Err: aerr}
	if anteOK {
		cctx, write := e.ctx.CacheContext()
		before := e.scan(cctx)
		func() {
			defer func() {
				if r := recover(); r != nil {
					err = fmt.Errorf("panic: %v", r)
				}
			}()
			_, err = ak.Exec(cctx, &exec)
		}()
		if err == nil {
			write()
			o.Ok = true
			after := e.scan(e.ctx)
			for i := 0; i < nActors; i++ {
				if before[i] != after[i] {
					o.Touched = append(o.Touched, i)
				}
			}
		} else {
			o.Err = "exec: " + err.Error()
		}
	}
	run.Count("authz-exec", fmt.Sprintf("%s ante=%v ok=%v", inner.Kind, o.Ante, o.Ok))
	if !o.Ok {
		return
	}
	granted := false
	for _, g := range s.Grants {
		if g[0] == s.Creator && g[1] == s.Signers[0] {
			granted = true
		}
	}
	for _, p := range o.Touched {
		if p == s.Signers[0] || (p == s.Creator && granted) {
			continue
		}
		if p == s.Creator {
			run.Violate("C03:authz-exec-bypasses-creator-check",
				fmt.Sprintf("authz MsgExec(grantee %d){%s creator %d signers %v} signed by %d alone was executed and changed state attributed to %d", s.Signers[0], inner.Kind, s.Creator, s.Signers, s.Signers[0], p), s)
		}
	}
}

func TestCorr(t *testing.T) {
	run := emit.Start("C03", 300)
	run.Rule("one real delivery (ValidateBasic ;; VerifyAuthorisedSignatureDecorator with the real feegrant keeper ;; real msg server in a cache context) per case on a fresh five-validator environment; signer / creator / every named principal / grants / external signer drawn independently (≈55% name another principal, ≈15% hostile: no signer, non-address creator or field, foreign grants); plus the decorator alone on all 41 message types and the signer shape of all 41 from the real codec. Non-trivial = accepted, or names a principal other than the creator.")
	loadTable(t)

	if rp := os.Getenv("VERIF_REPLAY"); rp != "" {
		var f struct {
			Input scen `json:"input"`
		}
		if bz, err := os.ReadFile(rp); err == nil && json.Unmarshal(bz, &f) == nil && f.Input.Kind != "" {
			switch f.Input.Kind {
			case "hist":
				runHist(t, run, f.Input, true)
			case "tx":
				runTx(t, run, f.Input, true)
			default:
				runOne(t, run, f.Input, true)
			}
		}
	}
	// corpus first
	files, _ := filepath.Glob("/verif/harness/corpus/C03/*.json")
	sort.Strings(files)
	for _, f := range files {
		bz, err := os.ReadFile(f)
		if err != nil {
			t.Fatal(err)
		}
		var ss []scen
		if err := json.Unmarshal(bz, &ss); err != nil {
			t.Fatalf("%s: %v", f, err)
		}
		for _, s := range ss {
			if strings.HasPrefix(s.Kind, "authz.MsgExec>") {
				runAuthzExec(t, run, s)
				continue
			}
			if s.Kind == "tx" {
				runTx(t, run, s, true)
				continue
			}
			if s.Kind == "hist" {
				runHist(t, run, s, true)
				continue
			}
			if s.Kind == "nest" {
				runNest(t, run, s, true)
				continue
			}
			if s.Kind == "block" {
				runBlock(t, run, s, true)
				continue
			}
			runOne(t, run, s, true)
		}
	}

	// shapes and decorator-only cases for every message type
	e := setup(t)
	msgs := allMsgs()
	names := make([]string, 0, len(msgs))
	for n := range msgs {
		names = append(names, n)
	}
	sort.Strings(names)
	grantSets := [][][2]int{nil, {{0, 8}}, {{5, 8}, {0, 9}}}
	for gi, gs := range grantSets {
		if gi > 0 {
			e = setup(t)
		}
		for _, g := range gs {
			if err := e.grant(g[0], g[1]); err != nil {
				t.Fatal(err)
			}
		}
		var gterm []string
		for _, g := range gs {
			gterm = append(gterm, emit.Pair(emit.ZI(pid(g[0])), emit.ZI(pid(g[1]))))
		}
		for _, n := range names {
			m := msgs[n]
			_, hasMeta := m.(libmeta.MsgWithMetadata[vtypes.MsgMetadata])
			if gi == 0 {
				run.Case(fmt.Sprintf("C03.CShape %s %d %s", emit.Str(n), shapeSigner(m), emit.Bool(hasMeta)), false, nil)
				run.Count("shape-signer", fmt.Sprint(shapeSigner(m)))
			}
			for k := 0; k < 3; k++ {
				creator := pick(run.Rng, 0, 5, 0, 5, 1, idxGov)
				var signers []int
				switch run.Rng.Intn(5) {
				case 0:
					signers = []int{creator}
				case 1:
					signers = []int{8}
				case 2:
					signers = []int{9, anyActor(run.Rng)}
				case 3:
					signers = []int{anyActor(run.Rng)}
				}
				x := reflect.New(reflect.TypeOf(m).Elem()).Interface().(sdk.Msg)
				md := e.meta(scen{Creator: creator, Signers: signers})
				if f := reflect.ValueOf(x).Elem().FieldByName("Metadata"); f.IsValid() {
					f.Set(reflect.ValueOf(md))
				}
				ok, _ := e.ante(x)
				run.Case(fmt.Sprintf("C03.CAnte %s %s %s %s %s", emit.Str(n), emit.List(gterm), zlist(signers), emit.ZI(pid(creator)), emit.Bool(ok)), ok, nil)
				run.Count("ante-only", fmt.Sprint(ok))
			}
		}
	}

	// full deliveries
	search := os.Getenv("VERIF_SEARCH") != ""
	for i := 0; i < run.N; i++ {
		if i%3 == 2 {
			runTx(t, run, genTx(run.Rng), false)
			continue
		}
		if i%4 == 1 {
			switch (i / 4) % 6 {
			case 5:
				runBlock(t, run, genBlock(run.Rng), false)
			case 3:
				runNest(t, run, genNest(run.Rng), false)
			case 4:
				runHist(t, run, genHandover(run.Rng), false)
			default:
				runHist(t, run, genHist(run.Rng, 1+(i/4)%2), false)
			}
			continue
		}
		kind := drivenKinds[run.Rng.Intn(len(drivenKinds))]
		hostile := run.Rng.Intn(100) < 15 || (search && run.Rng.Intn(3) == 0)
		s := genScen(run.Rng, kind, hostile)
		runOne(t, run, s, false)
	}
	if err := run.Finish("Auth.Discipline Auth.Ante Auth.Objects Corr.C03", "C03.case", "C03.check"); err != nil {
		t.Fatal(err)
	}
	_ = strings.TrimSpace
	_ = codectypes.NewAnyWithValue
}

// msgID resolves the symbolic message id of a consensus scenario (1, 2: the two waiting relay
// messages; anything else: no such message) against the real queue of the environment.
func (e *env) msgID(sym uint64) uint64 {
	if sym >= 1 && int(sym) <= len(e.queued) {
		return e.queued[sym-1].ID
	}
	return 999
}

// fixEnv3 resolves the symbolic creator -2 of a pre-step: the validator the message is assigned to.
func fixEnv3(e *env, x scen) scen {
	if x.Creator == -2 {
		x.Creator = 0
		if x.TxID >= 1 && int(x.TxID) <= len(e.queued) && e.queued[x.TxID-1].Assignee >= 0 {
			x.Creator = e.queued[x.TxID-1].Assignee
		}
		x.Signers, x.SigBy = []int{x.Creator}, x.Creator
		if x.Named == nil {
			x.Named = map[string]int{}
		}
	}
	return x
}
