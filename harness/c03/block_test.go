//go:build verif

package c03

// Block-level histories of the signature-authorisation decorator (seventh round): ONE decorator
// instance, DELIVER mode, transactions of the same block one after the other, with the fee grants
// changing in between through the REAL x/feegrant keeper / msg server: a grant is made, revoked, used
// up (a spend limit exhausted by UseGrantedFees removes the allowance), a new block starts.
// Oracle: a transaction accepted with creator != signer needs a grant creator -> signer that exists
// IN THE STORE at that moment. Each decorator step is also a CAnte case: the model is evaluated with
// the grants alive at that moment (the harness's own bookkeeping of the operations).

import (
	"fmt"
	"math/rand"
	"testing"

	"cosmossdk.io/x/feegrant"
	feegrantkeeper "cosmossdk.io/x/feegrant/keeper"
	sdk "github.com/cosmos/cosmos-sdk/types"
	"github.com/palomachain/paloma/v2/verifharness/emit"
	vtypes "github.com/palomachain/paloma/v2/x/valset/types"
)

// a block step is a scen: Kind "grant" | "revoke" | "use" | "next-block" | "tx"; Creator = granter /
// the message's creator; Signers[0] = grantee / the transaction's signer.
func runBlock(t *testing.T, run *emit.Run, s scen, fromCorpus bool) {
	e := setup(t)
	fgms := feegrantkeeper.NewMsgServerImpl(e.fg)
	height := int64(100)
	ctx := e.fgCtx.WithBlockHeight(height).WithIsCheckTx(false).WithIsReCheckTx(false)
	alive := map[[2]int]bool{}
	gterm := func() string {
		var gs []string
		for g := 0; g < nActors; g++ {
			for h := 0; h < nActors; h++ {
				if alive[[2]int{g, h}] {
					gs = append(gs, emit.Pair(emit.ZI(pid(g)), emit.ZI(pid(h))))
				}
			}
		}
		return emit.List(gs)
	}
	for i, st := range s.Tx {
		v, a := st.Creator, st.Signers[0]
		switch st.Kind {
		case "grant":
			lim := sdk.NewCoins(sdk.NewInt64Coin("ugrain", 10))
			if alive[[2]int{v, a}] {
				continue // the keeper refuses a second allowance for the same pair
			}
			if err := e.fg.GrantAllowance(ctx, e.actors[v], e.actors[a], &feegrant.BasicAllowance{SpendLimit: lim}); err != nil {
				t.Fatalf("grant: %v", err)
			}
			alive[[2]int{v, a}] = true
		case "revoke":
			if _, err := fgms.RevokeAllowance(ctx, &feegrant.MsgRevokeAllowance{Granter: e.acc(v), Grantee: e.acc(a)}); err == nil {
				delete(alive, [2]int{v, a})
			}
		case "use":
			// the whole spend limit: the allowance is used up and removed by the keeper
			if err := e.fg.UseGrantedFees(ctx, e.actors[v], e.actors[a], sdk.NewCoins(sdk.NewInt64Coin("ugrain", 10)), nil); err == nil {
				delete(alive, [2]int{v, a})
			}
		case "next-block":
			height++
			ctx = ctx.WithBlockHeight(height)
		case "tx":
			msg := &vtypes.MsgKeepAlive{PigeonVersion: "v9.9.9", Metadata: vtypes.MsgMetadata{Creator: e.acc(v), Signers: []string{e.acc(a)}}}
			reached := false
			_, err := e.dec.AnteHandle(ctx, fakeTx{[]sdk.Msg{msg}}, false, func(c sdk.Context, tx sdk.Tx, sim bool) (sdk.Context, error) {
				reached = true
				return c, nil
			})
			ok := err == nil && reached
			_, gerr := e.fg.GetAllowance(ctx, e.actors[v], e.actors[a])
			if ok && v != a && gerr != nil {
				run.Violate("C03:ante-accepts-without-grant-in-store",
					fmt.Sprintf("step %d of a block: the decorator (deliver mode, height %d) accepted a transaction signed by %d with creator %d although no fee grant %d -> %d exists in the store at that moment", i, height, a, v, v, a), s)
			}
			run.Case(fmt.Sprintf("C03.CAnte %s %s %s %s %s", emit.Str("valset.MsgKeepAlive"), gterm(), zlist([]int{a}), emit.ZI(pid(v)), emit.Bool(ok)), true, map[string]any{"scenario": s, "step": i, "accepted": ok})
			run.Count("block-tx", fmt.Sprintf("creator-is-signer=%v accepted=%v", v == a, ok))
		default:
			t.Fatalf("unknown block step %q", st.Kind)
		}
	}
	if fromCorpus {
		run.Count("source", "corpus")
	}
}

func genBlock(r *rand.Rand) scen {
	s := scen{Kind: "block", SigBy: -1}
	v, a := r.Intn(nVals), idxPig0+r.Intn(2)
	v2 := (v + 1 + r.Intn(nVals-1)) % nVals
	st := func(kind string, creator, signer int) scen {
		return scen{Kind: kind, Creator: creator, Signers: []int{signer}, SigBy: -1}
	}
	s.Tx = append(s.Tx, st("grant", v, a))
	if r.Intn(3) == 0 {
		s.Tx = append(s.Tx, st("grant", v2, a))
	}
	n := 3 + r.Intn(6)
	for i := 0; i < n; i++ {
		switch x := r.Intn(10); {
		case x < 5:
			s.Tx = append(s.Tx, st("tx", pick(r, v, v, v, v2, a), a))
		case x < 7:
			s.Tx = append(s.Tx, st(pick2(r, "revoke", "use"), pick(r, v, v, v2), a))
		case x < 8:
			s.Tx = append(s.Tx, st("grant", pick(r, v, v2), a))
		default:
			s.Tx = append(s.Tx, st("next-block", 0, 0))
		}
	}
	// the shape that matters: accepted for the grantee, the grant goes away, the grantee tries again
	s.Tx = append(s.Tx, st("grant", v, a), st("tx", v, a), st(pick2(r, "revoke", "use"), v, a), st("tx", v, a))
	return s
}
