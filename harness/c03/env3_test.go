//go:build verif

package c03

// Third environment (second round): the integration fixture of tests/integration/helper — REAL
// consensus, evm, valset, treasury, metrix, staking and slashing keepers on one multistore, with
// the real evm turnstone queues — for the five consensus handlers. Validators 0..4 are the same
// actors as in the first environment (operator address = the actor's 20 bytes, external-chain key =
// keeper.EthPrivKeys[i]); two relay messages are put into the queue through the evm keeper's own
// API and are assigned to validators by the real relayer selection.

import (
	"bytes"
	"crypto/sha256"
	"encoding/hex"
	"fmt"
	"math/big"
	"testing"
	"time"

	"cosmossdk.io/core/header"
	"cosmossdk.io/log"
	sdkmath "cosmossdk.io/math"
	storetypes "cosmossdk.io/store/types"
	"cosmossdk.io/x/feegrant"
	feegrantkeeper "cosmossdk.io/x/feegrant/keeper"
	cmtproto "github.com/cometbft/cometbft/proto/tendermint/types"
	"github.com/cometbft/cometbft/crypto/ed25519"
	"github.com/cosmos/cosmos-sdk/codec"
	codectypes "github.com/cosmos/cosmos-sdk/codec/types"
	cryptocodec "github.com/cosmos/cosmos-sdk/crypto/codec"
	"github.com/cosmos/cosmos-sdk/runtime"
	"github.com/cosmos/cosmos-sdk/testutil/integration"
	sdk "github.com/cosmos/cosmos-sdk/types"
	authcodec "github.com/cosmos/cosmos-sdk/x/auth/codec"
	authtypes "github.com/cosmos/cosmos-sdk/x/auth/types"
	govtypes "github.com/cosmos/cosmos-sdk/x/gov/types"
	slashingtypes "github.com/cosmos/cosmos-sdk/x/slashing/types"
	stakingtypes "github.com/cosmos/cosmos-sdk/x/staking/types"
	"github.com/ethereum/go-ethereum/crypto"
	"github.com/onsi/ginkgo/v2"
	"github.com/palomachain/paloma/v2/tests/integration/helper"
	consensuskeeper "github.com/palomachain/paloma/v2/x/consensus/keeper"
	consensustypes "github.com/palomachain/paloma/v2/x/consensus/types"
	evmkeeper "github.com/palomachain/paloma/v2/x/evm/keeper"
	evmtypes "github.com/palomachain/paloma/v2/x/evm/types"
	palomamodule "github.com/palomachain/paloma/v2/x/paloma"
	"github.com/palomachain/paloma/v2/x/skyway/keeper"
	schedulerkeeper "github.com/palomachain/paloma/v2/x/scheduler/keeper"
	treasurytypes "github.com/palomachain/paloma/v2/x/treasury/types"
	valsetkeeper "github.com/palomachain/paloma/v2/x/valset/keeper"
	valsettypes "github.com/palomachain/paloma/v2/x/valset/types"
)

type queuedMsg struct {
	ID       uint64
	Assignee int // actor index of the validator the message is assigned to
}

func setup3(t *testing.T) *env {
	f := helper.InitFixture(ginkgo.GinkgoT())
	tm := time.Unix(1_700_000_040, 0).UTC()
	ctx := f.Ctx.WithHeaderInfo(header.Info{Height: 10, Time: tm}).WithBlockHeight(10).WithBlockTime(tm).
		WithIsCheckTx(false).WithEventManager(sdk.NewEventManager()).WithLogger(log.NewNopLogger())
	e := &env{three: true, f3: f, ctx: ctx, jobIDs: map[string]bool{}, denoms: map[string]bool{}, minted: map[string]bool{}, licensed: map[int]bool{}}
	ks, ok := ctx.MultiStore().(interface {
		StoreKeysByName() map[string]storetypes.StoreKey
	})
	if !ok {
		t.Fatalf("fixture multistore does not list its keys")
	}
	e.keys = ks.StoreKeysByName()
	for i := 0; i < nVals; i++ {
		e.actors = append(e.actors, keeper.AccAddrs[i])
	}
	for i := nVals; i < idxGov; i++ {
		b := make([]byte, 20)
		b[0], b[1], b[2], b[19] = 0xC0, 0x03, 0x5A, byte(i+1)
		e.actors = append(e.actors, sdk.AccAddress(b))
	}
	e.actors = append(e.actors, authtypes.NewModuleAddress(govtypes.ModuleName))
	must := func(err error) {
		if err != nil {
			t.Fatalf("env3 genesis: %v", err)
		}
	}
	must(f.EvmKeeper.AddSupportForNewChain(ctx, chain, 1, 123, "0x1234", big.NewInt(55)))
	must(f.EvmKeeper.SetFeeManagerAddress(ctx, chain, "0xb794f5ea0ba39494ce839613fffba74279579268"))
	must(f.EvmKeeper.ActivateChainReferenceID(ctx, chain, &evmtypes.SmartContract{Id: 123}, "addr", []byte("abc")))
	for i := 0; i < nVals; i++ {
		priv := ed25519.GenPrivKeyFromSecret([]byte(fmt.Sprintf("c03-cons-%d", i)))
		protoPK, err := cryptocodec.FromCmtPubKeyInterface(priv.PubKey())
		must(err)
		pk, err := codectypes.NewAnyWithValue(protoPK)
		must(err)
		op := sdk.ValAddress(e.actors[i])
		tokens := sdk.TokensFromConsensusPower(int64(10+i), sdk.DefaultPowerReduction)
		val := stakingtypes.Validator{OperatorAddress: op.String(), Tokens: tokens, DelegatorShares: sdkmath.LegacyNewDecFromInt(tokens),
			Status: stakingtypes.Bonded, ConsensusPubkey: pk}
		must(f.StakingKeeper.SetValidator(ctx, val))
		must(f.StakingKeeper.SetValidatorByConsAddr(ctx, val))
		consAddr, err := val.GetConsAddr()
		must(err)
		must(f.SlashingKeeper.SetValidatorSigningInfo(ctx, consAddr, slashingtypes.NewValidatorSigningInfo(consAddr, 0, 0, time.Time{}, false, 0)))
		must(f.ValsetKeeper.AddExternalChainInfo(ctx, op, []*valsettypes.ExternalChainInfo{{ChainType: "evm", ChainReferenceID: chain,
			Address: keeper.EthAddrs[i].String(), Pubkey: keeper.EthAddrs[i].Bytes()}}))
		must(f.TreasuryKeeper.SetRelayerFee(ctx, op, &treasurytypes.RelayerFeeSetting{ValAddress: op.String(),
			Fees: []treasurytypes.RelayerFeeSetting_FeeSetting{{Multiplicator: sdkmath.LegacyMustNewDecFromStr("1.1"), ChainReferenceId: chain}}}))
		must(f.ValsetKeeper.KeepValidatorAlive(ctx, op, "v9.9.9"))
	}
	_, err := f.ValsetKeeper.TriggerSnapshotBuild(ctx)
	must(err)
	f.MetrixKeeper.UpdateUptime(ctx)
	must(f.EvmKeeper.SetRelayWeights(ctx, chain, &evmtypes.RelayWeights{Fee: "1.0", Uptime: "1.0", SuccessRate: "1.0", ExecutionTime: "1.0", FeatureSet: "1.0"}))
	e.queue = consensustypes.Queue(evmtypes.ConsensusTurnstoneMessage, consensustypes.ChainTypeEVM, chain)
	for k := 0; k < 2; k++ {
		id, err := f.EvmKeeper.AddSmartContractExecutionToConsensus(ctx, chain, "abc", &evmtypes.SubmitLogicCall{
			HexContractAddress: "0x51eca2efb15afacc612278c71f5edb35986f172f", Abi: []byte(`[]`), Payload: []byte(fmt.Sprintf("payload-%d", k)), Deadline: 1_900_000_000})
		must(err)
		e.queued = append(e.queued, queuedMsg{ID: id, Assignee: e.assigneeOf(ctx, id)})
	}
	e.cons = consensuskeeper.NewMsgServerImpl(f.ConsensusKeeper)
	e.sched = schedulerkeeper.NewMsgServerImpl(&f.SchedulerKeeper)
	e.valset = valsetkeeper.NewMsgServerImpl(f.ValsetKeeper)

	// the decorator with the real feegrant keeper on its own store (as in the first environment)
	fkey := storetypes.NewKVStoreKey(feegrant.StoreKey)
	cms := integration.CreateMultiStore(map[string]*storetypes.KVStoreKey{feegrant.StoreKey: fkey}, log.NewNopLogger())
	e.fgCtx = sdk.NewContext(cms, cmtproto.Header{Height: 1, Time: tm}, false, log.NewNopLogger())
	accs := &memAccounts{accs: map[string]sdk.AccountI{}, cdc: authcodec.NewBech32Codec("paloma")}
	e.fg = feegrantkeeper.NewKeeper(codec.NewProtoCodec(fgEnc.InterfaceRegistry), runtime.NewKVStoreService(fkey), accs).SetBankKeeper(noBank{})
	e.dec = palomamodule.NewVerifyAuthorisedSignatureDecorator(e.fg)
	return e
}

func (e *env) queuedMessages(ctx sdk.Context) []consensustypes.QueuedSignedMessageI {
	msgs, err := e.f3.ConsensusKeeper.GetMessagesFromQueue(ctx, e.queue, 0)
	if err != nil {
		return nil
	}
	return msgs
}

func (e *env) assigneeOf(ctx sdk.Context, id uint64) int {
	for _, m := range e.queuedMessages(ctx) {
		if m.GetId() != id {
			continue
		}
		cm, err := m.ConsensusMsg(e.f3.Codec)
		if err != nil {
			return -1
		}
		if em, ok := cm.(*evmtypes.Message); ok {
			for i := 0; i < nVals; i++ {
				if sdk.ValAddress(e.actors[i]).String() == em.Assignee {
					return i
				}
			}
		}
	}
	return -1
}

// signFor: validator v's external-chain signature over the queued message id (nil if unknown).
func (e *env) signFor(id uint64, v int) []byte {
	for _, m := range e.queuedMessages(e.ctx) {
		if m.GetId() != id {
			continue
		}
		bz, err := m.GetBytesToSign(e.f3.Codec)
		if err != nil {
			return nil
		}
		sig, err := crypto.Sign(crypto.Keccak256(append([]byte(evmkeeper.SignaturePrefix), bz...)), keeper.EthPrivKeys[v])
		if err != nil {
			return nil
		}
		return sig
	}
	return nil
}

// queueVirtualPairs: a consensus-queue record is a SHARED record: the relay message with its
// assignee, and one sub-entry per validator (signature, evidence, gas estimate) plus the public
// access / error data with the validator that supplied them. For attribution the record is split
// into these parts, each of which mentions exactly the principals it is held for.
func (e *env) queueVirtualPairs(key, val []byte) ([][2][]byte, bool) {
	if !e.three {
		return nil, false
	}
	var qi consensustypes.QueuedSignedMessageI
	if err := e.f3.Codec.UnmarshalInterface(val, &qi); err != nil {
		return nil, false
	}
	mp, ok := qi.(*consensustypes.QueuedSignedMessage)
	if !ok || mp.Msg == nil {
		return nil, false
	}
	m := *mp
	var out [][2][]byte
	sub := func(tag string, who []byte, body []byte) {
		h := sha256.Sum256(body)
		out = append(out, [2][]byte{append(append(append([]byte{}, key...), []byte("|"+tag+"|")...), who...), []byte(hex.EncodeToString(h[:8]))})
	}
	for _, s := range m.SignData {
		sub("sig", s.ValAddress, append(append([]byte{}, s.Signature...), s.ExternalAccountAddress...))
	}
	for _, ev := range m.Evidence {
		var b []byte
		if ev.Proof != nil {
			b = append([]byte(ev.Proof.TypeUrl), ev.Proof.Value...)
		}
		sub("evidence", ev.ValAddress, b)
	}
	for _, g := range m.GasEstimates {
		sub("gas", g.ValAddress, []byte(fmt.Sprint(g.Value)))
	}
	if m.PublicAccessData != nil {
		sub("pubdata", m.PublicAccessData.ValAddress, append([]byte(fmt.Sprint(m.PublicAccessData.ValsetID)), m.PublicAccessData.Data...))
	}
	if m.ErrorData != nil {
		sub("errdata", m.ErrorData.ValAddress, m.ErrorData.Data)
	}
	// the core: the relay message with its assignee. The public-access / error data SLOT of the record
	// (first writer wins, any validator of the snapshot may be the first; the record keeps who it was)
	// and the handled-at height that goes with it are attributed to the validator that supplied them
	// (sub-entries above), not to the assignee: see design/C03.md, observation O1.
	core := append([]byte{}, m.Msg.Value...)
	out = append(out, [2][]byte{append(append([]byte{}, key...), []byte("|core")...), core})
	out = append(out, [2][]byte{append(append([]byte{}, key...), []byte("|slot")...),
		[]byte(fmt.Sprintf("handled=%v|gas=%d", m.HandledAtBlockHeight, m.GasEstimate))})
	return out, true
}

var _ = bytes.Contains
