//go:build verif

package c18

// Fixture for C18: the REAL x/auth account keeper, x/bank keeper, x/feegrant keeper and vesting
// account types under the REAL x/paloma keeper / msg server and the REAL x/skyway attestation
// handler (with its cache context, reached through the verif hook VerifC18ProcessAttestation).
// tests/integration/helper.InitFixture cannot be used for this property: its module-account table
// has no "paloma" entry (SendCoinsFromAccountToModule would panic), it does not expose the
// account/bank/feegrant keepers and it builds the skyway keeper with a nil paloma keeper.  The
// keepers below are wired the same way InitFixture / app.go wire them.

import (
	"context"
	"errors"
	"time"

	coreaddress "cosmossdk.io/core/address"
	"cosmossdk.io/x/tx/signing"
	"github.com/cosmos/cosmos-sdk/baseapp"
	codectypes "github.com/cosmos/cosmos-sdk/codec/types"
	"github.com/cosmos/cosmos-sdk/x/authz"
	authzkeeper "github.com/cosmos/cosmos-sdk/x/authz/keeper"
	"github.com/cosmos/gogoproto/proto"
	sdkmath "cosmossdk.io/math"

	"cosmossdk.io/log"
	storetypes "cosmossdk.io/store/types"
	"cosmossdk.io/x/feegrant"
	feegrantkeeper "cosmossdk.io/x/feegrant/keeper"
	feegrantmodule "cosmossdk.io/x/feegrant/module"
	cmtproto "github.com/cometbft/cometbft/proto/tendermint/types"
	"github.com/cosmos/cosmos-sdk/codec"
	"github.com/cosmos/cosmos-sdk/codec/address"
	"github.com/cosmos/cosmos-sdk/runtime"
	"github.com/cosmos/cosmos-sdk/testutil/integration"
	sdk "github.com/cosmos/cosmos-sdk/types"
	moduletestutil "github.com/cosmos/cosmos-sdk/types/module/testutil"
	"github.com/cosmos/cosmos-sdk/x/auth"
	authcodec "github.com/cosmos/cosmos-sdk/x/auth/codec"
	authkeeper "github.com/cosmos/cosmos-sdk/x/auth/keeper"
	authtypes "github.com/cosmos/cosmos-sdk/x/auth/types"
	"github.com/cosmos/cosmos-sdk/x/auth/vesting"
	"github.com/cosmos/cosmos-sdk/x/bank"
	bankkeeper "github.com/cosmos/cosmos-sdk/x/bank/keeper"
	banktypes "github.com/cosmos/cosmos-sdk/x/bank/types"
	distrkeeper "github.com/cosmos/cosmos-sdk/x/distribution/keeper"
	govtypes "github.com/cosmos/cosmos-sdk/x/gov/types"
	minttypes "github.com/cosmos/cosmos-sdk/x/mint/types"
	paramskeeper "github.com/cosmos/cosmos-sdk/x/params/keeper"
	paramstypes "github.com/cosmos/cosmos-sdk/x/params/types"
	ibctransferkeeper "github.com/cosmos/ibc-go/v8/modules/apps/transfer/keeper"
	params2 "github.com/palomachain/paloma/v2/app/params"
	"github.com/palomachain/paloma/v2/testutil/common"
	palomamodule "github.com/palomachain/paloma/v2/x/paloma"
	palomakeeper "github.com/palomachain/paloma/v2/x/paloma/keeper"
	protov2 "google.golang.org/protobuf/proto"
	palomatypes "github.com/palomachain/paloma/v2/x/paloma/types"
	skywaykeeper "github.com/palomachain/paloma/v2/x/skyway/keeper"
	evmtypes "github.com/palomachain/paloma/v2/x/evm/types"
	skywaytypes "github.com/palomachain/paloma/v2/x/skyway/types"
)

const bondDenom = "ugrain"

type env struct {
	ctx      sdk.Context
	cdc      codec.Codec
	acc      authkeeper.AccountKeeper
	bank     bankkeeper.BaseKeeper
	feegrant feegrantkeeper.Keeper
	paloma   *palomakeeper.Keeper
	msg      palomatypes.MsgServer
	skyway   skywaykeeper.Keeper
	escrow   sdk.AccAddress
	flt      *faulter
	pkey     *storetypes.KVStoreKey // the x/paloma store (wiped by the genesis round trip)
	dec      palomamodule.VerifyAuthorisedSignatureDecorator
	authz    authzkeeper.Keeper // real x/authz keeper over a real message router with the paloma msg server
}

type fakeTx struct{ msgs []sdk.Msg }

func (f fakeTx) GetMsgs() []sdk.Msg                    { return f.msgs }
func (f fakeTx) GetMsgsV2() ([]protov2.Message, error) { return nil, nil }

// ---- fault-injecting proxies around the three collaborators of the x/paloma keeper ----

var errInjected = errors.New("verif: injected collaborator fault")

// faulter counts every call the x/paloma keeper makes through its AccountKeeper, BankKeeper and
// FeegrantKeeper interfaces; when armed, the at-th call fails BEFORE it is forwarded: with
// errInjected where the method returns an error and the kind is "error", with a panic otherwise.
type faulter struct {
	calls int
	at    int  // 0 = not armed
	panic bool // kind
	log   []string
}

func (f *faulter) reset(at int, pan bool) { f.calls, f.at, f.panic, f.log = 0, at, pan, nil }

// tick returns true when this call has to fail with an error; it panics itself when the call has
// to fail by panic.
func (f *faulter) tick(name string, canErr bool) bool {
	f.calls++
	f.log = append(f.log, name)
	if f.at != 0 && f.calls == f.at {
		if canErr && !f.panic {
			return true
		}
		panic(errInjected)
	}
	return false
}

type accProxy struct {
	in authkeeper.AccountKeeper
	f  *faulter
}

func (p accProxy) AddressCodec() coreaddress.Codec {
	p.f.tick("AddressCodec", false)
	return p.in.AddressCodec()
}

func (p accProxy) HasAccount(ctx context.Context, a sdk.AccAddress) bool {
	p.f.tick("HasAccount", false)
	return p.in.HasAccount(ctx, a)
}

func (p accProxy) GetAccount(ctx context.Context, a sdk.AccAddress) sdk.AccountI {
	p.f.tick("GetAccount", false)
	return p.in.GetAccount(ctx, a)
}

func (p accProxy) NewAccount(ctx context.Context, a sdk.AccountI) sdk.AccountI {
	p.f.tick("NewAccount", false)
	return p.in.NewAccount(ctx, a)
}

func (p accProxy) SetAccount(ctx context.Context, a sdk.AccountI) {
	p.f.tick("SetAccount", false)
	p.in.SetAccount(ctx, a)
}

type bankProxy struct {
	in bankkeeper.BaseKeeper
	f  *faulter
}

func (p bankProxy) SendCoinsFromModuleToAccount(ctx context.Context, m string, to sdk.AccAddress, amt sdk.Coins) error {
	if p.f.tick("SendCoinsFromModuleToAccount", true) {
		return errInjected
	}
	return p.in.SendCoinsFromModuleToAccount(ctx, m, to, amt)
}

func (p bankProxy) SendCoinsFromAccountToModule(ctx context.Context, from sdk.AccAddress, m string, amt sdk.Coins) error {
	if p.f.tick("SendCoinsFromAccountToModule", true) {
		return errInjected
	}
	return p.in.SendCoinsFromAccountToModule(ctx, from, m, amt)
}

func (p bankProxy) HasBalance(ctx context.Context, a sdk.AccAddress, amt sdk.Coin) bool {
	p.f.tick("HasBalance", false)
	return p.in.HasBalance(ctx, a, amt)
}

type feegrantProxy struct {
	in feegrantkeeper.Keeper
	f  *faulter
}

func (p feegrantProxy) AllowancesByGranter(ctx context.Context, req *feegrant.QueryAllowancesByGranterRequest) (*feegrant.QueryAllowancesByGranterResponse, error) {
	if p.f.tick("AllowancesByGranter", true) {
		return nil, errInjected
	}
	return p.in.AllowancesByGranter(ctx, req)
}

func (p feegrantProxy) GrantAllowance(ctx context.Context, granter, grantee sdk.AccAddress, a feegrant.FeeAllowanceI) error {
	if p.f.tick("GrantAllowance", true) {
		return errInjected
	}
	return p.in.GrantAllowance(ctx, granter, grantee, a)
}

// ---- the two collaborators TryAttestation needs besides the stores ----

type fakeStaking struct{ skywaytypes.StakingKeeper }

func (fakeStaking) GetLastTotalPower(context.Context) (sdkmath.Int, error) { return sdkmath.NewInt(10), nil }
func (fakeStaking) GetLastValidatorPower(context.Context, sdk.ValAddress) (int64, error) {
	return 10, nil
}

type fakeEVM struct{ skywaytypes.EVMKeeper }

func (fakeEVM) GetChainInfo(_ context.Context, c string) (*evmtypes.ChainInfo, error) {
	return &evmtypes.ChainInfo{ChainReferenceID: c, ChainID: 1, SmartContractAddr: "0x01"}, nil
}

func newEnv(start time.Time) *env {
	common.SetupPalomaPrefixes()
	keys := storetypes.NewKVStoreKeys(
		authtypes.StoreKey, banktypes.StoreKey, feegrant.StoreKey, paramstypes.StoreKey, authzkeeper.StoreKey,
		palomatypes.StoreKey, skywaytypes.StoreKey,
	)
	tkeys := storetypes.NewTransientStoreKeys(paramstypes.TStoreKey)
	encCfg := moduletestutil.MakeTestEncodingConfig(
		auth.AppModuleBasic{}, bank.AppModuleBasic{}, vesting.AppModuleBasic{}, feegrantmodule.AppModuleBasic{},
	)
	palomatypes.RegisterInterfaces(encCfg.InterfaceRegistry)
	skywaytypes.RegisterInterfaces(encCfg.InterfaceRegistry)
	logger := log.NewNopLogger()
	cms := integration.CreateMultiStore(keys, logger)
	for _, key := range tkeys {
		cms.MountStoreWithDB(key, storetypes.StoreTypeTransient, nil)
	}
	if err := cms.LoadLatestVersion(); err != nil {
		panic(err)
	}
	cdc := encCfg.Codec
	ctx := sdk.NewContext(cms, cmtproto.Header{Time: start, Height: 1}, false, logger)

	maccPerms := map[string][]string{
		minttypes.ModuleName:   {authtypes.Minter},
		palomatypes.ModuleName: nil, // as in app.go
		skywaytypes.ModuleName: {authtypes.Minter, authtypes.Burner},
	}
	authority := authtypes.NewModuleAddress(govtypes.ModuleName).String()
	acc := authkeeper.NewAccountKeeper(cdc, runtime.NewKVStoreService(keys[authtypes.StoreKey]),
		authtypes.ProtoBaseAccount, maccPerms,
		address.Bech32Codec{Bech32Prefix: params2.AccountAddressPrefix}, params2.AccountAddressPrefix, authority)
	blocked := map[string]bool{}
	for name := range maccPerms {
		blocked[authtypes.NewModuleAddress(name).String()] = true
	}
	bk := bankkeeper.NewBaseKeeper(cdc, runtime.NewKVStoreService(keys[banktypes.StoreKey]), acc, blocked, authority, logger)
	fg := feegrantkeeper.NewKeeper(cdc, runtime.NewKVStoreService(keys[feegrant.StoreKey]), acc)
	fg = fg.SetBankKeeper(bk)
	pk := paramskeeper.NewKeeper(cdc, encCfg.Amino, keys[paramstypes.StoreKey], tkeys[paramstypes.TStoreKey])
	pk.Subspace(palomatypes.ModuleName)
	sub, _ := pk.GetSubspace(palomatypes.ModuleName)

	flt := &faulter{}
	pal := palomakeeper.NewKeeper(cdc, runtime.NewKVStoreService(keys[palomatypes.StoreKey]), sub,
		"v1.0.0", bondDenom, accProxy{acc, flt}, bankProxy{bk, flt}, feegrantProxy{fg, flt}, nil, nil,
		authcodec.NewBech32Codec(params2.ValidatorAddressPrefix), authority)

	sky := skywaykeeper.NewKeeper(cdc, acc, fakeStaking{}, bk, nil, distrkeeper.Keeper{}, ibctransferkeeper.Keeper{},
		fakeEVM{}, nil, pal, nil, skywaykeeper.NewSkywayStoreGetter(keys[skywaytypes.StoreKey]), authority,
		authcodec.NewBech32Codec(params2.ValidatorAddressPrefix))

	e := &env{ctx: ctx, cdc: cdc, acc: acc, bank: bk, feegrant: fg, paloma: pal,
		msg: palomakeeper.NewMsgServerImpl(*pal), skyway: sky, flt: flt, pkey: keys[palomatypes.StoreKey],
		dec: palomamodule.NewVerifyAuthorisedSignatureDecorator(fg)}
	// x/authz as app.go wires it: a codec that knows who signs a paloma message (metadata.signers),
	// a message service router with the real paloma msg server and x/authz itself (nested MsgExec)
	ir, err := codectypes.NewInterfaceRegistryWithOptions(codectypes.InterfaceRegistryOptions{
		ProtoFiles: proto.HybridResolver,
		SigningOptions: signing.Options{
			AddressCodec:          address.NewBech32Codec(params2.AccountAddressPrefix),
			ValidatorAddressCodec: address.NewBech32Codec(params2.ValidatorAddressPrefix),
		},
	})
	if err != nil {
		panic(err)
	}
	authz.RegisterInterfaces(ir)
	palomatypes.RegisterInterfaces(ir)
	router := baseapp.NewMsgServiceRouter()
	router.SetInterfaceRegistry(ir)
	palomatypes.RegisterMsgServer(router, e.msg)
	e.authz = authzkeeper.NewKeeper(runtime.NewKVStoreService(keys[authzkeeper.StoreKey]), codec.NewProtoCodec(ir), router, acc)
	authz.RegisterMsgServer(router, e.authz)
	// the module account exists from genesis on a real chain
	e.escrow = acc.GetModuleAccount(ctx, palomatypes.ModuleName).GetAddress()
	return e
}

func (e *env) mint(to sdk.AccAddress, coins sdk.Coins) {
	if err := e.bank.MintCoins(e.ctx, minttypes.ModuleName, coins); err != nil {
		panic(err)
	}
	if err := e.bank.SendCoinsFromModuleToAccount(e.ctx, minttypes.ModuleName, to, coins); err != nil {
		panic(err)
	}
}

// govern runs a governance proposal handler the way x/gov does: on a branch written back on success.
func (e *env) govern(f func(ctx sdk.Context) error) error {
	cctx, commit := e.ctx.CacheContext()
	err := f(cctx)
	if err == nil {
		commit()
	}
	return err
}

// deliver runs f the way baseapp runs a message: on a branch of the state that is written back
// only if f returns nil; a panic aborts the transaction (nothing written).
func (e *env) deliver(f func(ctx context.Context) error) (err error, panicked bool) {
	cctx, commit := e.ctx.CacheContext()
	defer func() {
		if r := recover(); r != nil {
			panicked = true
		}
	}()
	err = f(cctx)
	if err == nil {
		commit()
	}
	return err, false
}
