//go:build verif

package c18

import (
	"context"
	"errors"
	"fmt"
	"math/big"
	"math/rand"
	"os"
	"sort"
	"strings"
	"testing"
	"time"

	sdkmath "cosmossdk.io/math"
	codectypes "github.com/cosmos/cosmos-sdk/codec/types"
	"github.com/cosmos/cosmos-sdk/x/authz"
	sdk "github.com/cosmos/cosmos-sdk/types"
	authcodec "github.com/cosmos/cosmos-sdk/x/auth/codec"
	params2 "github.com/palomachain/paloma/v2/app/params"
	palomamod "github.com/palomachain/paloma/v2/x/paloma"
	sdkerrors "github.com/cosmos/cosmos-sdk/types/errors"
	authtypes "github.com/cosmos/cosmos-sdk/x/auth/types"
	vestingtypes "github.com/cosmos/cosmos-sdk/x/auth/vesting/types"
	"cosmossdk.io/x/feegrant"
	keeperutil "github.com/palomachain/paloma/v2/util/keeper"
	"github.com/palomachain/paloma/v2/verifharness/emit"
	palomatypes "github.com/palomachain/paloma/v2/x/paloma/types"
	skywaykeeper "github.com/palomachain/paloma/v2/x/skyway/keeper"
	skywaytypes "github.com/palomachain/paloma/v2/x/skyway/types"
	valsettypes "github.com/palomachain/paloma/v2/x/valset/types"
)

// ---- universe ----

const nAddr = 7 // ids 1..nAddr are ordinary addresses, 0 is the x/paloma module account
const nChain = 3 // remote chains 1..nChain (sale contracts)

var denoms = []string{bondDenom, "uother"}

func denomStr(d int) string {
	if d < 0 || d >= len(denoms) {
		return "!bad denom!"
	}
	return denoms[d]
}

func denomID(s string) int64 {
	for i, d := range denoms {
		if d == s {
			return int64(i)
		}
	}
	return 99
}

type key struct {
	id int
	up bool
}

type world struct {
	e     *env
	addrs map[int]sdk.AccAddress
	ids   map[string]int // bytes -> id
	gifts []*big.Int
	// harness-side knowledge of the configuration, for the sale oracle
	contracts  map[int]int
	feegranter int
	funders    []int
	hasFunders bool
	activated  map[int]int
	lastLocked map[int]*big.Int
	ethHeight  uint64
	wiped      int
	lastTry    *tryInfo
	grantBefore map[[2]int]bool // fee allowances (granter, grantee) on the state before the current step
}

type tryInfo struct {
	nonce      uint64
	cursor     uint64
	observed   bool
	tryErr     error
	panicked   bool
	repeatErr  error
	repeatSame bool
}

// armed runs f with the fault of o armed on the keeper's collaborators.
func (w *world) armed(o op, f func()) {
	w.e.flt.reset(o.fault, o.fpanic)
	defer w.e.flt.reset(0, false)
	f()
}

func (w *world) saleClaim(o op, nonce uint64) *skywaytypes.MsgLightNodeSaleClaim {
	return &skywaytypes.MsgLightNodeSaleClaim{
		ChainReferenceId: chainStr(o.chain), SkywayNonce: nonce, EventNonce: nonce, EthBlockHeight: 5 + w.ethHeight,
		ClientAddress: w.str(o.b), Amount: sdkmath.NewIntFromBigInt(o.amt),
		SmartContractAddress: contractStr(o.contract), CompassId: "compass",
	}
}

// probe: what the RAW keeper function (no message branch, no attestation cache context) does on a
// throw-away branch of the current state, with the fault of o armed: outcome class, number of
// collaborator calls made, and the projection of the branch before it is dropped.
type probe struct {
	class int64
	calls int
	obs   obs
	log   []string
}

func (w *world) rawProbe(o op) *probe {
	e := w.e
	cctx, _ := e.ctx.CacheContext()
	var err error
	panicked := false
	e.flt.reset(o.fault, o.fpanic)
	func() {
		defer func() {
			if r := recover(); r != nil {
				panicked = true
			}
		}()
		switch o.kind {
		case "AddLicence":
			err = e.paloma.CreateLightNodeClientLicense(cctx, w.str(o.a), w.str(o.b),
				sdk.Coin{Denom: denomStr(o.d), Amount: sdkmath.NewIntFromBigInt(o.amt)}, o.months)
		case "Register":
			err = e.paloma.CreateLightNodeClientAccount(cctx, w.str(o.a))
		case "Sale":
			err = e.skyway.AttestationHandler.Handle(cctx, skywaytypes.Attestation{}, w.saleClaim(o, 1))
		case "SetLegacy":
			_, err = e.msg.SetLegacyLightNodeClients(cctx, &palomatypes.MsgSetLegacyLightNodeClients{Metadata: md(w.str(o.a))})
		}
	}()
	calls, log := e.flt.calls, e.flt.log
	e.flt.reset(0, false)
	saved := e.ctx
	e.ctx = cctx
	ob := w.observe()
	e.ctx = saved
	return &probe{class: classify(err, panicked, o.kind == "Sale"), calls: calls, obs: ob, log: log}
}

func addrOf(i int) sdk.AccAddress {
	b := make([]byte, 20)
	for j := range b {
		b[j] = byte(0xC0 + j)
	}
	b[19] = byte(i)
	b[0] = 0x18
	return sdk.AccAddress(b)
}

func (w *world) str(k key) string {
	if k.id < 0 {
		if k.up {
			return "PALOMA1NOTANADDRESS"
		}
		return "paloma1notanaddress"
	}
	s := w.addrs[k.id].String()
	if k.up {
		return strings.ToUpper(s)
	}
	return s
}

func (w *world) idOf(a sdk.AccAddress) int64 {
	if i, ok := w.ids[string(a)]; ok {
		return int64(i)
	}
	return 99
}

func md(x string) valsettypes.MsgMetadata {
	return valsettypes.MsgMetadata{Creator: x, Signers: []string{x}}
}

// ---- Coq printers ----

func zi(x int64) string { return emit.ZI(x) }
func keyT(k key) string { return emit.Pair(zi(int64(k.id)), emit.Bool(k.up)) }
func zl(xs []int) string {
	s := make([]string, len(xs))
	for i, x := range xs {
		s[i] = zi(int64(x))
	}
	return emit.List(s)
}

// ---- observation (must mirror Corr.C18.observe) ----

type obs [][]*big.Int

func bi(x int64) *big.Int { return big.NewInt(x) }

func (w *world) observe() obs {
	e := w.e
	ctx := e.ctx
	var o obs
	for a := 0; a <= nAddr; a++ {
		ad := w.addrs[a]
		row := []*big.Int{bi(int64(a))}
		acc := e.acc.GetAccount(ctx, ad)
		switch v := acc.(type) {
		case nil:
			row = append(row, bi(0), bi(0), bi(0), bi(0), bi(0))
		case *authtypes.BaseAccount:
			row = append(row, bi(1), bi(0), bi(0), bi(0), bi(0))
		case *vestingtypes.ContinuousVestingAccount:
			if len(v.OriginalVesting) == 1 {
				row = append(row, bi(2), bi(v.StartTime), bi(v.EndTime), v.OriginalVesting[0].Amount.BigInt(), bi(denomID(v.OriginalVesting[0].Denom)))
			} else {
				row = append(row, bi(8), bi(0), bi(0), bi(0), bi(0))
			}
		case *authtypes.ModuleAccount:
			row = append(row, bi(3), bi(0), bi(0), bi(0), bi(0))
		default:
			row = append(row, bi(9), bi(0), bi(0), bi(0), bi(0))
		}
		for _, d := range denoms {
			row = append(row, e.bank.GetBalance(ctx, ad, d).Amount.BigInt())
		}
		locked := e.bank.LockedCoins(ctx, ad)
		for _, d := range denoms {
			row = append(row, locked.AmountOf(d).BigInt())
		}
		o = append(o, row)
	}
	for a := 0; a <= nAddr; a++ {
		for _, up := range []bool{false, true} {
			l, err := e.paloma.GetLightNodeClientLicense(ctx, w.str(key{a, up}))
			if err == nil {
				o = append(o, []*big.Int{bi(100), bi(int64(a)), bi(b2i(up)), bi(denomID(l.Amount.Denom)), l.Amount.Amount.BigInt(), bi(int64(l.VestingMonths))})
			}
		}
	}
	for a := 0; a <= nAddr; a++ {
		for _, up := range []bool{false, true} {
			c, err := e.paloma.GetLightNodeClient(ctx, w.str(key{a, up}))
			if err == nil {
				o = append(o, []*big.Int{bi(101), bi(int64(a)), bi(b2i(up)), bi(c.ActivatedAt.Unix()), bi(c.LastAuthAt.Unix())})
			}
		}
	}
	for g := 0; g <= nAddr; g++ {
		for r := 0; r <= nAddr; r++ {
			al, _ := e.feegrant.GetAllowance(ctx, w.addrs[g], w.addrs[r])
			if al != nil {
				o = append(o, []*big.Int{bi(102), bi(int64(g)), bi(int64(r))})
			}
		}
	}
	fg, err := e.paloma.LightNodeClientFeegranter(ctx)
	if err == nil {
		o = append(o, []*big.Int{bi(103), bi(w.idOf(fg.Account))})
	} else {
		o = append(o, []*big.Int{bi(103), bi(-1)})
	}
	fs, err := e.paloma.LightNodeClientFunders(ctx)
	if err == nil {
		row := []*big.Int{bi(104), bi(int64(len(fs.Accounts)))}
		for _, f := range fs.Accounts {
			row = append(row, bi(w.idOf(f)))
		}
		o = append(o, row)
	} else {
		o = append(o, []*big.Int{bi(104), bi(-1)})
	}
	o = append(o, []*big.Int{bi(105), bi(ctx.BlockTime().Unix())})
	row := []*big.Int{bi(106)}
	for i := range denoms {
		row = append(row, new(big.Int).Set(w.gifts[i]))
	}
	o = append(o, row)
	all, _ := e.paloma.AllLightNodeClientLicenses(ctx)
	o = append(o, []*big.Int{bi(107), bi(int64(len(all)))})
	// the authorised sale contract of every chain of the universe (x/skyway store)
	for c := 1; c <= nChain; c++ {
		if sc, err := e.skyway.LightNodeSaleContract(ctx, chainStr(c)); err == nil && sc != nil {
			o = append(o, []*big.Int{bi(108), bi(int64(c)), bi(int64(contractID(sc.ContractAddress)))})
		}
	}
	return o
}

func b2i(b bool) int64 {
	if b {
		return 1
	}
	return 0
}

func (o obs) coq() string {
	rows := make([]string, len(o))
	for i, r := range o {
		rows[i] = emit.ZList(r)
	}
	return emit.List(rows)
}

func (o obs) eq(p obs) bool { return o.coq() == p.coq() }

// minus: the rows of o that are not rows of p, in o's order (mirrors Corr.C18.rows_minus)
func (o obs) minus(p obs) obs {
	have := map[string]bool{}
	for _, r := range p {
		have[emit.ZList(r)] = true
	}
	var out obs
	for _, r := range o {
		if !have[emit.ZList(r)] {
			out = append(out, r)
		}
	}
	return out
}

// ---- outcome classes (must mirror Corr.C18.err_code) ----

func classify(err error, panicked bool, sale bool) int64 {
	if panicked {
		return -1
	}
	if err == nil {
		return 0
	}
	msg := err.Error()
	switch {
	case errors.Is(err, errInjected) || strings.Contains(msg, errInjected.Error()):
		return 18
	case strings.Contains(msg, "no signature from granted address found") || strings.Contains(msg, "messages nested more than"):
		return 10
	case errors.Is(err, palomatypes.ErrInvalidParameters):
		return 2
	case errors.Is(err, palomatypes.ErrLicenseExists):
		return 3
	case errors.Is(err, palomatypes.ErrAccountExists):
		return 4
	case errors.Is(err, sdkerrors.ErrInvalidCoins):
		return 5
	case errors.Is(err, sdkerrors.ErrInsufficientFunds):
		return 6
	case errors.Is(err, palomatypes.ErrNoLicense):
		return 7
	case errors.Is(err, palomatypes.ErrNoAccount):
		return 8
	case strings.Contains(msg, "end time cannot be negative") || strings.HasPrefix(msg, "invalid coins"):
		return 9
	case errors.Is(err, sdkerrors.ErrUnauthorized):
		return 10
	case errors.Is(err, palomatypes.ErrNoFeegranter):
		return 11
	case errors.Is(err, palomatypes.ErrNoFunder):
		return 12
	case errors.Is(err, palomatypes.ErrInsufficientBalance):
		return 13
	case sale && errors.Is(err, keeperutil.ErrNotFound):
		return 14
	case strings.Contains(msg, "unauthorized msg smart contract address"):
		return 15
	case strings.Contains(msg, "fee allowance already exists"):
		return 16
	case errors.Is(err, keeperutil.ErrNotFound):
		return 17
	case strings.Contains(msg, "bech32") || strings.Contains(msg, "empty address string") || strings.Contains(msg, "invalid separator") || strings.Contains(msg, "invalid checksum"):
		return 1
	}
	return 99
}

// ---- operations ----

type op struct {
	kind     string
	a, b     key
	d        int
	amt      *big.Int
	months   uint32
	chain    int
	contract int
	list     []int
	pairs    [][2]int
	dt       int64
	fault    int    // the fault-th collaborator call of the operation fails (0: none)
	fpanic   bool   // ... by panic (otherwise by error where the method can return one)
	route    string // Sale: "" = processAttestation hook, "try" = TryAttestation under recover (as the end blocker)
	msgs     []txmsg // Tx: a whole transaction through the real decorator
}

func (o op) atomicKind() bool { return o.kind == "AddLicence" || o.kind == "Register" || o.kind == "Sale" }

func (o op) kd() string {
	if o.fpanic {
		return "FPanic"
	}
	return "FErr"
}

// a message of a transaction
type txmsg struct {
	kind    string // AddLicence | Register | Auth | Status
	a, b    key    // a: metadata.creator as written
	d       int
	amt     *big.Int
	months  uint32
	signers []int // metadata.signers: the signatures the transaction carries for this message
	nest    int   // wrapped in that many authz.MsgExec whose grantee is the (single) signer
}

func (m txmsg) coq() string {
	body := ""
	o := op{kind: m.kind, a: m.a, b: m.b, d: m.d, amt: m.amt, months: m.months}
	if m.kind == "Status" {
		body = fmt.Sprintf("(TStatus %s)", keyT(m.a))
	} else {
		body = fmt.Sprintf("(TOp %s)", o.plain())
	}
	return fmt.Sprintf("{| tm_signers := %s; tm_nest := %d; tm_body := %s |}", zl(m.signers), m.nest, body)
}

// coq: the history operation (LightNodeExt.hop)
func (o op) coq() string {
	if o.kind == "Tx" {
		ms := make([]string, len(o.msgs))
		for i, m := range o.msgs {
			ms[i] = m.coq()
		}
		return fmt.Sprintf("(HTx %s)", emit.List(ms))
	}
	return fmt.Sprintf("(HX %s)", o.xcoq())
}

// xcoq: the extended operation (LightNodeExt.xop)
func (o op) xcoq() string {
	switch o.kind {
	case "SetLegacy":
		return fmt.Sprintf("(XSetLegacy %d %s)", o.fault, o.kd())
	case "Genesis":
		return "XGenesis"
	}
	if o.fault != 0 && o.atomicKind() {
		return fmt.Sprintf("(XFault %d %s %s)", o.fault, o.kd(), o.plain())
	}
	return fmt.Sprintf("(XOp %s)", o.plain())
}

func (o op) plain() string {
	switch o.kind {
	case "AddLicence":
		return fmt.Sprintf("(AddLicence %s %s %s %s %d)", keyT(o.a), keyT(o.b), zi(int64(o.d)), emit.Z(o.amt), o.months)
	case "Register":
		return fmt.Sprintf("(Register %s)", keyT(o.a))
	case "Auth":
		return fmt.Sprintf("(Auth %s)", keyT(o.a))
	case "Sale":
		return fmt.Sprintf("(Sale %d %s %s %s)", o.chain, zi(int64(o.contract)), keyT(o.b), emit.Z(o.amt))
	case "Send":
		return fmt.Sprintf("(Send %d %d %s %s)", o.a.id, o.b.id, zi(int64(o.d)), emit.Z(o.amt))
	case "Grant":
		return fmt.Sprintf("(Grant %d %d)", o.a.id, o.b.id)
	case "SetFeegranter":
		return fmt.Sprintf("(SetFeegranter %d)", o.a.id)
	case "SetFunders":
		return fmt.Sprintf("(SetFunders %s)", zl(o.list))
	case "SetContracts":
		ps := make([]string, len(o.pairs))
		for i, p := range o.pairs {
			ps[i] = emit.Pair(zi(int64(p[0])), zi(int64(p[1])))
		}
		return fmt.Sprintf("(SetContracts %s)", emit.List(ps))
	case "Tick":
		return fmt.Sprintf("(Tick %d)", o.dt)
	}
	panic("op kind " + o.kind)
}

func chainStr(c int) string    { return fmt.Sprintf("chain-%d", c) }
// contractStr: the spelling of a sale contract id. Ordinary ids are 20-byte hex addresses; the
// special ids are near misses of them and degenerate entries. The code compares STRINGS, the
// model compares ids, so the table has to be injective (contractID is its inverse).
//   0: the zero address   -1: ""   -2: "0x0"   -3: not hex
//   1000+c: over-long hex ending in the address of c   2000+c: the address of c without 0x
//   3000+c: the address of c with upper-case hex digits and 0X
func contractStr(c int) string {
	switch {
	case c == -1:
		return ""
	case c == -2:
		return "0x0"
	case c == -3:
		return "sales parked"
	case c >= 3000:
		return "0X" + strings.ToUpper(fmt.Sprintf("%040x", c-3000))
	case c >= 2000:
		return fmt.Sprintf("%040x", c-2000)
	case c >= 1000:
		return fmt.Sprintf("0xdeadbeef%040x", c-1000)
	}
	return fmt.Sprintf("0x%040x", c)
}

var contractIDs = func() map[string]int {
	m := map[string]int{}
	for _, c := range []int{-3, -2, -1, 0, 11, 12, 1000, 1011, 1012, 2000, 2011, 2012, 3011, 3012} {
		m[contractStr(c)] = c
	}
	return m
}()

func contractID(s string) int {
	if c, ok := contractIDs[s]; ok {
		return c
	}
	return -99
}

// a contract string that is NOT the one of id c but collapses to the same 20 bytes under a lenient
// hex decoder (go-ethereum's HexToAddress): near misses
func nearMiss(r *rand.Rand, c int) int {
	switch c {
	case 11, 12:
		return []int{1000 + c, 2000 + c, 3000 + c}[r.Intn(3)]
	case 0:
		return []int{-1, -2, -3, 1000, 2000}[r.Intn(5)]
	case -1, -2, -3:
		return []int{0, -1, -2, -3, 1000}[r.Intn(5)]
	}
	return c
}

// apply runs one operation against the real keepers and returns its outcome class.
func (w *world) apply(o op) int64 {
	e := w.e
	switch o.kind {
	case "AddLicence":
		var err error
		var p bool
		w.armed(o, func() {
			err, p = e.deliver(func(ctx context.Context) error {
				_, err := e.msg.AddLightNodeClientLicense(ctx, &palomatypes.MsgAddLightNodeClientLicense{
					Metadata: md(w.str(o.a)), ClientAddress: w.str(o.b),
					Amount: sdk.Coin{Denom: denomStr(o.d), Amount: sdkmath.NewIntFromBigInt(o.amt)}, VestingMonths: o.months})
				return err
			})
		})
		return classify(err, p, false)
	case "Register":
		var err error
		var p bool
		w.armed(o, func() {
			err, p = e.deliver(func(ctx context.Context) error {
				_, err := e.msg.RegisterLightNodeClient(ctx, &palomatypes.MsgRegisterLightNodeClient{Metadata: md(w.str(o.a))})
				return err
			})
		})
		return classify(err, p, false)
	case "Tx":
		// a whole transaction: the REAL signature-authorisation decorator on the state before it, then the
		// messages through the real msg server on one branch, written back only if all of them succeed
		sdkMsgs := make([]sdk.Msg, len(o.msgs))
		for i, m := range o.msgs {
			sg := make([]string, len(m.signers))
			for j, x := range m.signers {
				sg[j] = w.addrs[x].String()
			}
			meta := valsettypes.MsgMetadata{Creator: w.str(m.a), Signers: sg}
			switch m.kind {
			case "AddLicence":
				sdkMsgs[i] = &palomatypes.MsgAddLightNodeClientLicense{Metadata: meta, ClientAddress: w.str(m.b),
					Amount: sdk.Coin{Denom: denomStr(m.d), Amount: sdkmath.NewIntFromBigInt(m.amt)}, VestingMonths: m.months}
			case "Register":
				sdkMsgs[i] = &palomatypes.MsgRegisterLightNodeClient{Metadata: meta}
			case "Auth":
				sdkMsgs[i] = &palomatypes.MsgAuthLightNodeClient{Metadata: meta}
			case "Status":
				sdkMsgs[i] = &palomatypes.MsgAddStatusUpdate{Metadata: meta, Status: "ok", Level: palomatypes.MsgAddStatusUpdate_LEVEL_INFO}
			default:
				panic("tx message kind " + m.kind)
			}
			for d := 0; d < m.nest; d++ {
				x := authz.NewMsgExec(w.addrs[m.signers[0]], []sdk.Msg{sdkMsgs[i]})
				sdkMsgs[i] = &x
			}
		}
		err, p := e.deliver(func(ctx context.Context) error {
			sctx := sdk.UnwrapSDKContext(ctx)
			if _, err := e.dec.AnteHandle(sctx, fakeTx{sdkMsgs}, false, func(c sdk.Context, _ sdk.Tx, _ bool) (sdk.Context, error) { return c, nil }); err != nil {
				return err
			}
			for _, m := range sdkMsgs {
				var err error
				switch x := m.(type) {
				case *palomatypes.MsgAddLightNodeClientLicense:
					_, err = e.msg.AddLightNodeClientLicense(ctx, x)
				case *palomatypes.MsgRegisterLightNodeClient:
					_, err = e.msg.RegisterLightNodeClient(ctx, x)
				case *palomatypes.MsgAuthLightNodeClient:
					_, err = e.msg.AuthLightNodeClient(ctx, x)
				case *palomatypes.MsgAddStatusUpdate:
					_, err = e.msg.AddStatusUpdate(ctx, x)
				case *authz.MsgExec:
					_, err = e.authz.Exec(ctx, x) // the real x/authz keeper and message router
				}
				if err != nil {
					return err
				}
			}
			return nil
		})
		return classify(err, p, false)
	case "SetLegacy":
		var err error
		var p bool
		w.armed(o, func() {
			err, p = e.deliver(func(ctx context.Context) error {
				_, err := e.msg.SetLegacyLightNodeClients(ctx, &palomatypes.MsgSetLegacyLightNodeClients{Metadata: md(w.str(o.a))})
				return err
			})
		})
		return classify(err, p, false)
	case "Genesis":
		// ExportGenesis -> JSON -> wipe the x/paloma store -> InitGenesis
		gs := palomamod.ExportGenesis(e.ctx, *e.paloma)
		bz := e.cdc.MustMarshalJSON(gs)
		var gs2 palomatypes.GenesisState
		e.cdc.MustUnmarshalJSON(bz, &gs2)
		st := e.ctx.KVStore(e.pkey)
		var ks [][]byte
		it := st.Iterator(nil, nil)
		for ; it.Valid(); it.Next() {
			ks = append(ks, append([]byte{}, it.Key()...))
		}
		it.Close()
		for _, k := range ks {
			st.Delete(k)
		}
		w.wiped = len(ks)
		if all, _ := e.paloma.AllLightNodeClientLicenses(e.ctx); len(all) != 0 {
			panic("x/paloma store not wiped")
		}
		palomamod.InitGenesis(e.ctx, *e.paloma, gs2)
		return 0
	case "Auth":
		err, p := e.deliver(func(ctx context.Context) error {
			_, err := e.msg.AuthLightNodeClient(ctx, &palomatypes.MsgAuthLightNodeClient{Metadata: md(w.str(o.a))})
			return err
		})
		return classify(err, p, false)
	case "Sale":
		// the handler's own verdict, on a branch that is thrown away ...
		class := w.rawProbe(o).class
		if o.route != "try" {
			// ... then the real thing: processAttestation with its own cache context
			claim := w.saleClaim(o, 1)
			w.armed(o, func() {
				defer func() { _ = recover() }()
				if err := e.skyway.VerifC18ProcessAttestation(e.ctx, &skywaytypes.Attestation{}, claim); err != nil {
					class = 98
				}
			})
			return class
		}
		// ... or the whole machinery: TryAttestation (votes suffice) under a recover, as skyway's
		// EndBlocker runs it
		last, _ := e.skyway.GetLastObservedSkywayNonce(e.ctx, chainStr(o.chain))
		w.ethHeight++
		claim := w.saleClaim(o, last+1)
		mkAtt := func() *skywaytypes.Attestation {
			any, err := codectypes.NewAnyWithValue(claim)
			if err != nil {
				panic(err)
			}
			val, _ := authcodec.NewBech32Codec(params2.ValidatorAddressPrefix).BytesToString(addrOf(1))
			return &skywaytypes.Attestation{Observed: false, Votes: []string{val}, Height: uint64(e.ctx.BlockHeight()), Claim: any}
		}
		info := &tryInfo{nonce: last + 1}
		w.armed(o, func() {
			defer func() {
				if r := recover(); r != nil {
					info.panicked = true
				}
			}()
			info.tryErr = e.skyway.TryAttestation(e.ctx, mkAtt())
		})
		if info.tryErr != nil {
			class = 98
		}
		info.cursor, _ = e.skyway.GetLastObservedSkywayNonce(e.ctx, chainStr(o.chain))
		hash, _ := claim.ClaimHash()
		if a := e.skyway.GetAttestation(e.ctx, chainStr(o.chain), last+1, hash); a != nil {
			info.observed = a.Observed
		}
		// the tally never gets to this event again; a second attempt is refused and changes nothing
		before := w.observe()
		func() {
			defer func() {
				if r := recover(); r != nil {
					info.repeatErr = nil
				}
			}()
			info.repeatErr = e.skyway.TryAttestation(e.ctx, mkAtt())
		}()
		info.repeatSame = before.eq(w.observe())
		w.lastTry = info
		return class
	case "Send":
		err := e.bank.SendCoins(e.ctx, w.addrs[o.a.id], w.addrs[o.b.id], sdk.Coins{sdk.Coin{Denom: denomStr(o.d), Amount: sdkmath.NewIntFromBigInt(o.amt)}})
		if err == nil && o.b.id == 0 {
			w.gifts[o.d].Add(w.gifts[o.d], o.amt)
		}
		return classify(err, false, false)
	case "Grant":
		err, p := e.deliver(func(ctx context.Context) error {
			return e.feegrant.GrantAllowance(ctx, w.addrs[o.a.id], w.addrs[o.b.id], &feegrant.BasicAllowance{})
		})
		return classify(err, p, false)
	case "SetFeegranter":
		// the real x/paloma proposal handler, on a branch written back on success (as x/gov does)
		w.feegranter = o.a.id
		return classify(e.govern(func(ctx sdk.Context) error {
			return palomamod.NewPalomaProposalHandler(*e.paloma)(ctx, &palomatypes.SetLightNodeClientFeegranterProposal{
				Title: "t", Description: "d", FeegranterAccount: w.addrs[o.a.id].String()})
		}), false, false)
	case "SetFunders":
		as := make([]sdk.AccAddress, len(o.list))
		for i, f := range o.list {
			as[i] = w.addrs[f]
		}
		w.funders, w.hasFunders = o.list, true
		strs := make([]string, len(as))
		for i, a := range as {
			strs[i] = a.String()
		}
		return classify(e.govern(func(ctx sdk.Context) error {
			return palomamod.NewPalomaProposalHandler(*e.paloma)(ctx, &palomatypes.SetLightNodeClientFundersProposal{
				Title: "t", Description: "d", FunderAccounts: strs})
		}), false, false)
	case "SetContracts":
		cs := make([]*skywaytypes.LightNodeSaleContract, len(o.pairs))
		w.contracts = map[int]int{}
		for i, p := range o.pairs {
			cs[i] = &skywaytypes.LightNodeSaleContract{ChainReferenceId: chainStr(p[0]), ContractAddress: contractStr(p[1])}
			w.contracts[p[0]] = p[1]
		}
		// the real x/skyway proposal handler
		return classify(e.govern(func(ctx sdk.Context) error {
			return skywaykeeper.NewSkywayProposalHandler(e.skyway)(ctx, &skywaytypes.SetLightNodeSaleContractsProposal{
				Title: "t", Description: "d", LightNodeSaleContracts: cs})
		}), false, false)
	case "Tick":
		e.ctx = e.ctx.WithBlockTime(e.ctx.BlockTime().Add(time.Duration(o.dt) * time.Second)).WithBlockHeight(e.ctx.BlockHeight() + 1)
		return 0
	}
	panic("op kind " + o.kind)
}

// ---- generators ----

var monthsPool = []uint32{0, 1, 1, 3, 6, 12, 12, 24, 24, 25, 1200, 1<<32 - 1}

// start times: ordinary instants and month ends (AddDate normalises Jan 31 + 1 month to March)
func genStart(r *rand.Rand) time.Time {
	switch r.Intn(4) {
	case 0:
		days := []int{28, 29, 30, 31}
		return time.Date(2023+r.Intn(6), time.Month(1+r.Intn(12)), days[r.Intn(4)], r.Intn(24), r.Intn(60), r.Intn(60), 0, time.UTC)
	case 1:
		return time.Date(2024, time.February, 29, 23, 59, 59, 0, time.UTC)
	default:
		return time.Unix(1_600_000_000+r.Int63n(400_000_000), 0).UTC()
	}
}

func genAmount(r *rand.Rand, hostile bool) *big.Int {
	if hostile {
		switch r.Intn(6) {
		case 0:
			return big.NewInt(0)
		case 1:
			return big.NewInt(-int64(1 + r.Intn(1000)))
		case 2:
			return new(big.Int).Lsh(big.NewInt(1), uint(200+r.Intn(56)))
		}
	}
	switch r.Intn(5) {
	case 0:
		return big.NewInt(int64(1 + r.Intn(10)))
	case 1:
		return big.NewInt(int64(1_000_000 * (1 + r.Intn(5000))))
	case 2:
		return big.NewInt(int64(999_000_000 + r.Intn(2_000_000)))
	default:
		return big.NewInt(int64(1 + r.Intn(3_000_000_000)))
	}
}

type gen struct {
	r       *rand.Rand
	w       *world
	hostile bool
	lic     map[key]bool // keys the generator believes carry a licence
	funded  []int
	// the last contract each chain was ever authorised with (also after governance dropped the chain)
	everContract map[int]int
}

// genTx: a transaction of 1-3 metadata-carrying messages signed by one account X (sometimes two):
// X's own status update, activations / authentications of licensed (or other) addresses, licence
// purchases; the signers written into a message are mostly [X], sometimes the creator itself
func (g *gen) genTx() op {
	r := g.r
	x := g.fundedID()
	n := 1 + r.Intn(3)
	o := op{kind: "Tx"}
	for i := 0; i < n; i++ {
		m := txmsg{signers: []int{x}}
		switch k := r.Intn(10); {
		case k < 3 || (i == 0 && k < 6):
			m.kind, m.a = "Status", key{x, false}
			if r.Intn(6) == 0 {
				m.a = key{g.anyID(), r.Intn(8) == 0}
			}
		case k < 7:
			m.kind, m.a = "Register", g.licKey()
		case k < 8:
			m.kind, m.a = "Auth", g.licKey()
		default:
			m.kind, m.a, m.b, m.d, m.amt, m.months = "AddLicence", key{x, false}, g.clientKey(), 0, genAmount(r, g.hostile), monthsPool[r.Intn(len(monthsPool))]
			if r.Intn(5) == 0 {
				m.a = key{g.fundedID(), false}
			}
		}
		switch r.Intn(8) {
		case 0:
			if m.a.id > 0 {
				m.signers = []int{m.a.id} // the creator signs this message itself
			}
		case 1:
			m.signers = append(m.signers, g.anyID())
		}
		if g.hostile && r.Intn(12) == 0 {
			m.a.id = -1
		}
		if len(m.signers) == 1 && r.Intn(3) == 0 {
			// inside 1..9 authz.MsgExec with the signer as grantee: around the decorator's limit
			m.nest = []int{1, 2, 5, 6, 6, 7, 7, 7, 8, 9}[r.Intn(10)]
		}
		o.msgs = append(o.msgs, m)
	}
	return o
}

// genContracts: a new set of authorised sale contracts: any subset of the chains, sometimes the
// same chain twice (last entry wins), mostly the usual contract
func (g *gen) genContracts() op {
	r := g.r
	var ps [][2]int
	for c := 1; c <= nChain; c++ {
		if r.Intn(5) < 3 {
			ct := 11 + r.Intn(8)/7
			if r.Intn(7) == 0 {
				ct = []int{0, -1, -3}[r.Intn(3)] // sales of the chain "parked" on a degenerate entry
			}
			ps = append(ps, [2]int{c, ct})
		}
	}
	if r.Intn(6) == 0 {
		ps = append(ps, [2]int{1 + r.Intn(nChain), 11 + r.Intn(2)})
	}
	r.Shuffle(len(ps), func(i, j int) { ps[i], ps[j] = ps[j], ps[i] })
	for _, p := range ps {
		g.everContract[p[0]] = p[1]
	}
	return op{kind: "SetContracts", pairs: ps}
}

func (g *gen) anyID() int { return 1 + g.r.Intn(nAddr) }
func (g *gen) fundedID() int {
	if len(g.funded) == 0 || g.r.Intn(8) == 0 {
		return g.anyID()
	}
	return g.funded[g.r.Intn(len(g.funded))]
}
func (g *gen) clientKey() key {
	k := key{g.anyID(), g.r.Intn(6) == 0}
	if g.r.Intn(4) != 0 { // mostly an address that has no account yet
		var free []int
		for i := 1; i <= nAddr; i++ {
			if !g.w.e.acc.HasAccount(g.w.e.ctx, g.w.addrs[i]) {
				free = append(free, i)
			}
		}
		if len(free) > 0 {
			k.id = free[g.r.Intn(len(free))]
		}
	}
	if g.hostile && g.r.Intn(12) == 0 {
		k.id = -1
	}
	if g.r.Intn(40) == 0 {
		k.id = 0
	}
	return k
}
func (g *gen) licKey() key {
	// mostly a key that really carries a licence (or did: re-activation), sometimes another one
	g.lic = map[key]bool{}
	for a := 1; a <= nAddr; a++ {
		for _, up := range []bool{false, true} {
			k := key{a, up}
			if _, err := g.w.e.paloma.GetLightNodeClientLicense(g.w.e.ctx, g.w.str(k)); err == nil {
				g.lic[k] = true
			} else if _, err := g.w.e.paloma.GetLightNodeClient(g.w.e.ctx, g.w.str(k)); err == nil && g.r.Intn(2) == 0 {
				g.lic[k] = true
			}
		}
	}
	if len(g.lic) > 0 && g.r.Intn(6) != 0 {
		ks := make([]key, 0, len(g.lic))
		for k := range g.lic {
			ks = append(ks, k)
		}
		sort.Slice(ks, func(i, j int) bool { return ks[i].id < ks[j].id || (ks[i].id == ks[j].id && !ks[i].up && ks[j].up) })
		k := ks[g.r.Intn(len(ks))]
		if g.r.Intn(8) == 0 {
			k.up = !k.up // same address, other spelling
		}
		return k
	}
	return g.clientKey()
}

func (g *gen) next() op {
	r := g.r
	x := r.Intn(100)
	switch {
	case x < 24:
		o := op{kind: "AddLicence", a: key{g.fundedID(), r.Intn(10) == 0}, b: g.clientKey(), d: 0, amt: genAmount(r, g.hostile), months: monthsPool[r.Intn(len(monthsPool))]}
		if r.Intn(6) == 0 {
			o.d = 1
		}
		if g.hostile && r.Intn(10) == 0 {
			o.d = -1
		}
		if g.hostile && r.Intn(15) == 0 {
			o.a.id = -1
		}
		g.lic[o.b] = true
		return o
	case x < 44:
		return op{kind: "Register", a: g.licKey()}
	case x < 49:
		return op{kind: "Auth", a: g.licKey()}
	case x < 69:
		o := op{kind: "Sale", chain: 1, contract: 11, b: g.clientKey()}
		if r.Intn(5) < 2 {
			o.chain = 2 + r.Intn(nChain-1)
		}
		if r.Intn(8) == 0 {
			o.contract = 12
		}
		if c, ok := g.everContract[o.chain]; ok && r.Intn(4) != 0 {
			o.contract = c // the contract this chain is, or once was, authorised with
			if r.Intn(4) == 0 {
				o.contract = nearMiss(r, c) // another string a lenient decoder maps to the same bytes
			}
		}
		switch {
		case g.hostile && r.Intn(4) == 0:
			o.amt = genAmount(r, true)
		default:
			o.amt = big.NewInt(int64(1 + r.Intn(3000)))
		}
		if r.Intn(2) == 0 {
			o.route = "try"
		}
		g.lic[o.b] = true
		return o
	case x < 79:
		o := op{kind: "Send", a: key{g.fundedID(), false}, b: key{g.anyID(), false}, d: 0, amt: genAmount(r, g.hostile)}
		if r.Intn(3) == 0 {
			o.b.id = 0 // gift to the module account
		}
		if r.Intn(5) == 0 {
			o.d = 1
		}
		return o
	case x < 81:
		o := op{kind: "Grant", a: key{g.anyID(), false}, b: key{g.anyID(), false}}
		if g.w.feegranter >= 0 && r.Intn(2) == 0 {
			o.a.id = g.w.feegranter // a grant by the light-node fee granter: a "legacy" client
		}
		return o
	case x < 84 && r.Intn(2) == 0:
		return g.genTx()
	case x < 84:
		if r.Intn(3) == 0 {
			return op{kind: "Genesis"}
		}
		return op{kind: "SetLegacy", a: key{g.anyID(), false}}
	case x < 87:
		return op{kind: "SetFeegranter", a: key{g.anyID(), false}}
	case x < 90:
		n := r.Intn(4)
		l := make([]int, n)
		for i := range l {
			l[i] = g.fundedID()
		}
		return op{kind: "SetFunders", list: l}
	case x < 93:
		return g.genContracts()
	case x < 97:
		return g.genTx()
	default:
		dts := []int64{1, 59, 3600, 86400 * 30, 86400 * 31, 86400 * 200, 86400 * 365, 86400 * 731}
		return op{kind: "Tick", dt: dts[r.Intn(len(dts))] + int64(r.Intn(3))}
	}
}

// ---- one history ----

type stepRec struct {
	Op    string `json:"op"`
	Class int64  `json:"class"`
}

func runHistory(run *emit.Run, idx int, hostile bool, script *scripted) {
	r := run.Rng
	start := genStart(r)
	if script != nil {
		start = time.Unix(script.Start, 0).UTC()
	}
	e := newEnv(start)
	w := &world{e: e, addrs: map[int]sdk.AccAddress{0: e.escrow}, ids: map[string]int{string(e.escrow): 0},
		gifts: []*big.Int{big.NewInt(0), big.NewInt(0)}, contracts: map[int]int{}, feegranter: -1,
		activated: map[int]int{}, lastLocked: map[int]*big.Int{}}
	for i := 1; i <= nAddr; i++ {
		w.addrs[i] = addrOf(i)
		w.ids[string(addrOf(i))] = i
	}
	g := &gen{r: r, w: w, hostile: hostile, lic: map[key]bool{}, everContract: map[int]int{}}
	// funding
	var fund []string
	if script != nil {
		for _, f := range script.Fund {
			amt, _ := new(big.Int).SetString(f.Amt, 10)
			e.mint(w.addrs[f.ID], sdk.Coins{sdk.NewCoin(denomStr(f.Denom), sdkmath.NewIntFromBigInt(amt))})
			fund = append(fund, emit.Pair(zi(int64(f.ID)), zi(int64(f.Denom)), emit.Z(amt)))
			g.funded = append(g.funded, f.ID)
		}
	}
	for i := 1; i <= nAddr && script == nil; i++ {
		if r.Intn(5) < 3 {
			continue
		}
		amt := big.NewInt(int64(1 + r.Intn(6_000_000_000)))
		if r.Intn(6) == 0 {
			amt = new(big.Int).Lsh(big.NewInt(1), uint(60+r.Intn(60)))
		}
		e.mint(w.addrs[i], sdk.Coins{sdk.NewCoin(bondDenom, sdkmath.NewIntFromBigInt(amt))})
		fund = append(fund, emit.Pair(zi(int64(i)), "0", emit.Z(amt)))
		if r.Intn(3) == 0 {
			a2 := big.NewInt(int64(1 + r.Intn(1_000_000)))
			e.mint(w.addrs[i], sdk.Coins{sdk.NewCoin("uother", sdkmath.NewIntFromBigInt(a2))})
			fund = append(fund, emit.Pair(zi(int64(i)), "1", emit.Z(a2)))
		}
		g.funded = append(g.funded, i)
	}
	var ops []op
	if script != nil {
		ops = script.ops()
	} else {
		// configuration first, each piece sometimes left out
		if r.Intn(6) != 0 {
			o := g.genContracts()
			if r.Intn(3) != 0 {
				o.pairs = append(o.pairs, [2]int{1, 11})
				g.everContract[1] = 11
			}
			ops = append(ops, o)
		}
		if r.Intn(6) != 0 {
			ops = append(ops, op{kind: "SetFeegranter", a: key{g.anyID(), false}})
		}
		if r.Intn(6) != 0 {
			n := 1 + r.Intn(3)
			l := make([]int, n)
			for i := range l {
				l[i] = g.fundedID()
			}
			ops = append(ops, op{kind: "SetFunders", list: l})
		}
		if r.Intn(5) == 0 {
			// a restart from an export right after (possibly partial) configuration
			ops = append(ops, op{kind: "Genesis"})
		}
		n := 6 + r.Intn(12)
		for i := 0; i < n; i++ {
			ops = append(ops, op{})
		}
	}
	U := make([]int, nAddr+1)
	for i := range U {
		U[i] = i
	}
	obs0 := w.observe()
	prev := obs0
	var steps []string
	var recs []stepRec
	okCreate, okAct, rejected := 0, 0, 0
	for i := range ops {
		o := ops[i]
		if o.kind == "" {
			o = g.next()
			// a collaborator fault: measure the calls of the fault-free run on a throw-away branch, then
			// let one of them (or the one after the last: never reached) fail
			if (o.atomicKind() || o.kind == "SetLegacy") && r.Intn(100) < faultPct {
				m := w.rawProbe(o).calls
				o.fault = 1 + r.Intn(m+1)
				o.fpanic = r.Intn(3) == 0
				run.Count("fault", fmt.Sprintf("%s call %d of %d", o.kind, o.fault, m))
			}
			ops[i] = o
		}
		// what the raw keeper function leaves behind (same fault), on a branch that is dropped
		var probes []string
		var pr *probe
		if o.atomicKind() || o.kind == "SetLegacy" {
			pr = w.rawProbe(o)
			probes = append(probes, emit.Pair(zi(pr.class), zi(int64(pr.calls)), prev.minus(pr.obs).coq(), pr.obs.minus(prev).coq()))
			if pr.class != 0 && !pr.obs.eq(prev) {
				run.Count("raw leftover", fmt.Sprintf("%s:%d", o.kind, pr.class))
			}
		}
		// pre-state facts for the oracles
		var preLic *palomatypes.LightNodeClientLicense
		if o.kind == "Register" {
			preLic, _ = e.paloma.GetLightNodeClientLicense(e.ctx, w.str(o.a))
		}
		now := e.ctx.BlockTime()
		if o.kind == "Tx" {
			w.grantBefore = map[[2]int]bool{}
			for g0 := 0; g0 <= nAddr; g0++ {
				for r0 := 0; r0 <= nAddr; r0++ {
					if al, _ := e.feegrant.GetAllowance(e.ctx, w.addrs[g0], w.addrs[r0]); al != nil {
						w.grantBefore[[2]int{g0, r0}] = true
					}
				}
			}
		}
		class := w.apply(o)
		cur := w.observe()
		run.Count("op", o.kind)
		run.Count("outcome", fmt.Sprintf("%s:%d", o.kind, class))
		recs = append(recs, stepRec{o.coq(), class})
		replay := map[string]any{"seed": run.Seed, "history": idx, "start": start.Unix(), "fund": fund, "steps": recs}
		if class != 0 {
			rejected++
			if !cur.eq(prev) {
				id := "C18:failed-op-changed-state"
				if o.kind == "Sale" {
					id = "C18:failed-sale-changed-state"
				}
				run.Violate(id, fmt.Sprintf("%s was refused (class %d) but the state changed", o.kind, class), replay)
			}
		}
		if script != nil && script.PremiseViolated {
			// demonstration only: does the real module account hold less than the licences promise?
			all, _ := e.paloma.AllLightNodeClientLicenses(e.ctx)
			sum := new(big.Int)
			for _, l := range all {
				if l.Amount.Denom == bondDenom {
					sum.Add(sum, l.Amount.Amount.BigInt())
				}
			}
			if e.bank.GetBalance(e.ctx, e.escrow, bondDenom).Amount.BigInt().Cmp(sum) < 0 {
				run.Count("premise shown necessary", "funder = module account: real escrow < licences")
			}
			if o.kind == "Register" && class == 6 {
				run.Count("premise shown necessary", "funder = module account: a licensee cannot activate (insufficient funds)")
			}
		} else {
			w.oracle(run, o, class, preLic, now, prev, cur, replay)
			w.oracleExt(run, o, class, pr, prev, cur, replay)
		}
		if class == 0 {
			switch o.kind {
			case "AddLicence", "Sale":
				okCreate++
			case "Register":
				okAct++
			}
		}
		steps = append(steps, emit.Pair(o.coq(), zi(class), prev.minus(cur).coq(), cur.minus(prev).coq(), emit.List(probes)))
		prev = cur
	}
	term := fmt.Sprintf("C18.CHist %d %s [0; 1] %s %s %s", start.Unix(), zl(U), emit.List(fund), obs0.coq(), emit.List(steps))
	var sample any
	if idx < 3 {
		sample = recs
	}
	run.Case(term, okCreate+okAct > 0 && rejected > 0, sample)
	run.Count("history", fmt.Sprintf("created=%d activated=%d", min(okCreate, 3), min(okAct, 3)))
}

func min(a, b int) int {
	if a < b {
		return a
	}
	return b
}

// oracle: the property's clauses checked directly on the real state after the step.
func (w *world) oracle(run *emit.Run, o op, class int64, preLic *palomatypes.LightNodeClientLicense, now time.Time, prev, cur obs, replay any) {
	e := w.e
	ctx := e.ctx
	all, _ := e.paloma.AllLightNodeClientLicenses(ctx)
	// escrow = Σ licences + gifts, per denom
	for di, d := range denoms {
		sum := new(big.Int).Set(w.gifts[di])
		for _, l := range all {
			if l.Amount.Denom == d {
				sum.Add(sum, l.Amount.Amount.BigInt())
			}
		}
		have := e.bank.GetBalance(ctx, e.escrow, d).Amount.BigInt()
		if have.Cmp(sum) != 0 {
			run.Violate("C18:escrow-ne-licences", fmt.Sprintf("module account holds %s%s, licences+gifts are %s", have, d, sum), replay)
		}
	}
	// every licence sits on a base account; one licence per address
	seen := map[string]bool{}
	for _, l := range all {
		a, err := sdk.AccAddressFromBech32(l.ClientAddress)
		if err != nil {
			run.Violate("C18:licence-for-undecodable-address", l.ClientAddress, replay)
			continue
		}
		if seen[string(a)] {
			run.Violate("C18:two-licences-one-address", l.ClientAddress, replay)
		}
		seen[string(a)] = true
		if _, ok := e.acc.GetAccount(ctx, a).(*authtypes.BaseAccount); !ok {
			run.Violate("C18:licence-without-base-account", l.ClientAddress, replay)
		}
		if !l.Amount.Amount.IsPositive() {
			run.Violate("C18:licence-not-positive", l.String(), replay)
		}
	}
	// vesting accounts: locked within [0, orig], never increases, linear within rounding
	for a := 1; a <= nAddr; a++ {
		v, ok := e.acc.GetAccount(ctx, w.addrs[a]).(*vestingtypes.ContinuousVestingAccount)
		if !ok || len(v.OriginalVesting) != 1 {
			continue
		}
		orig := v.OriginalVesting[0].Amount.BigInt()
		locked := e.bank.LockedCoins(ctx, w.addrs[a]).AmountOf(v.OriginalVesting[0].Denom).BigInt()
		t := ctx.BlockTime().Unix()
		bad := locked.Sign() < 0 || locked.Cmp(orig) > 0 ||
			(t <= v.StartTime && locked.Cmp(orig) != 0) || (t >= v.EndTime && t > v.StartTime && locked.Sign() != 0)
		if !bad && t > v.StartTime && t < v.EndTime {
			// |vested*(end-start) - orig*(t-start)| <= (end-start) * (1 + orig/10^18)
			y := big.NewInt(v.EndTime - v.StartTime)
			lhs := new(big.Int).Mul(new(big.Int).Sub(orig, locked), y)
			lhs.Sub(lhs, new(big.Int).Mul(orig, big.NewInt(t-v.StartTime)))
			lhs.Abs(lhs)
			tol := new(big.Int).Quo(orig, big.NewInt(1_000_000_000_000_000_000))
			tol.Add(tol, big.NewInt(1)).Mul(tol, y)
			bad = lhs.Cmp(tol) > 0
		}
		if last, ok := w.lastLocked[a]; ok && locked.Cmp(last) > 0 {
			bad = true
		}
		w.lastLocked[a] = locked
		if bad {
			run.Violate("C18:vesting-not-linear", fmt.Sprintf("address %d: locked %s of %s at %d in [%d,%d]", a, locked, orig, t, v.StartTime, v.EndTime), replay)
		}
		if v.EndTime < v.StartTime {
			run.Violate("C18:vesting-ends-before-start", fmt.Sprintf("address %d: [%d,%d]", a, v.StartTime, v.EndTime), replay)
		}
	}
	if class != 0 {
		return
	}
	switch o.kind {
	case "Register":
		if preLic == nil {
			run.Violate("C18:activation-without-licence", o.coq(), replay)
			return
		}
		id := o.a.id
		w.activated[id]++
		if w.activated[id] > 1 {
			run.Violate("C18:activated-twice", fmt.Sprintf("address %d", id), replay)
		}
		v, ok := e.acc.GetAccount(ctx, w.addrs[id]).(*vestingtypes.ContinuousVestingAccount)
		end := now.AddDate(0, int(preLic.VestingMonths), 0).Unix()
		if !ok || v.StartTime != now.Unix() || v.EndTime != end || len(v.OriginalVesting) != 1 || !v.OriginalVesting[0].Equal(preLic.Amount) {
			run.Violate("C18:activation-wrong-schedule", fmt.Sprintf("address %d: account %v, licence %v, now %d", id, v, preLic, now.Unix()), replay)
		}
		// balances: exactly the licensed amount moves from the module account to the licensee, nothing else moves
		di := int(denomID(preLic.Amount.Denom))
		for a := 0; a <= nAddr; a++ {
			for dj := range denoms {
				delta := new(big.Int).Sub(cur[a][6+dj], prev[a][6+dj])
				want := big.NewInt(0)
				if dj == di && a == id {
					want = preLic.Amount.Amount.BigInt()
				}
				if dj == di && a == 0 {
					want = new(big.Int).Neg(preLic.Amount.Amount.BigInt())
				}
				if delta.Cmp(want) != 0 {
					run.Violate("C18:activation-wrong-amount", fmt.Sprintf("address %d denom %d moved by %s, expected %s", a, dj, delta, want), replay)
				}
			}
			if a != id && a != 0 && cur[a][1].Cmp(prev[a][1]) != 0 {
				run.Violate("C18:activation-touched-other-account", fmt.Sprintf("address %d", a), replay)
			}
		}
		if _, err := e.paloma.GetLightNodeClientLicense(ctx, w.str(o.a)); err == nil {
			run.Violate("C18:licence-survives-activation", o.coq(), replay)
		}
	case "AddLicence", "Sale":
		// the address had neither an account nor a licence
		id := o.b.id
		if id >= 0 && id <= nAddr && prev[id][1].Sign() != 0 {
			run.Violate("C18:licence-for-existing-account", o.coq(), replay)
		}
		l, err := e.paloma.GetLightNodeClientLicense(ctx, w.str(o.b))
		if err != nil {
			run.Violate("C18:created-licence-missing", o.coq(), replay)
			return
		}
		if o.kind == "Sale" {
			want := new(big.Int).Mul(o.amt, big.NewInt(1_000_000))
			c, okc := w.contracts[o.chain]
			if !okc || c != o.contract || w.feegranter < 0 || !w.hasFunders || len(w.funders) == 0 {
				run.Violate("C18:sale-without-preconditions", o.coq(), replay)
			}
			if l.Amount.Denom != bondDenom || l.Amount.Amount.BigInt().Cmp(want) != 0 || l.VestingMonths != 24 {
				run.Violate("C18:sale-wrong-licence", l.String(), replay)
			}
			if w.feegranter >= 0 {
				al, _ := e.feegrant.GetAllowance(ctx, w.addrs[w.feegranter], w.addrs[id])
				if al == nil {
					run.Violate("C18:sale-without-feegrant", o.coq(), replay)
				}
			}
		}
	}
}

// oracleExt: second-round clauses checked directly on the real state.
func (w *world) oracleExt(run *emit.Run, o op, class int64, pr *probe, prev, cur obs, replay any) {
	// the raw keeper functions, when they fail, leave nothing or exactly one half-made account
	if pr != nil && pr.class != 0 {
		diff := append(prev.minus(pr.obs), pr.obs.minus(prev)...)
		switch o.kind {
		case "AddLicence", "Register":
			who := o.b.id
			if o.kind == "Register" {
				who = o.a.id
			}
			for _, row := range diff {
				if len(row) != 10 || row[0].Cmp(bi(int64(who))) != 0 {
					run.Violate("C18:raw-leftover-unexpected", fmt.Sprintf("failed raw %s (class %d) left row %v", o.kind, pr.class, row), replay)
					break
				}
			}
			if len(diff) == 2 {
				// same balances, only the account kind / schedule moved
				a, b := diff[0], diff[1]
				for j := 6; j < 8; j++ {
					if a[j].Cmp(b[j]) != 0 {
						run.Violate("C18:raw-leftover-unexpected", fmt.Sprintf("failed raw %s moved coins of address %d", o.kind, who), replay)
					}
				}
			}
		case "Sale":
			for _, row := range diff {
				if len(row) == 3 && row[0].Cmp(bi(102)) == 0 {
					run.Violate("C18:raw-leftover-unexpected", "failed raw sale left a fee grant", replay)
				}
			}
		}
	}
	// the authorised sale contracts are exactly those of the last governance decision
	for c := 1; c <= nChain; c++ {
		want, okw := w.contracts[c]
		got, present := 0, false
		if sc, err := w.e.skyway.LightNodeSaleContract(w.e.ctx, chainStr(c)); err == nil && sc != nil {
			got, present = contractID(sc.ContractAddress), true
		}
		if (okw && (!present || got != want)) || (!okw && present) {
			run.Violate("C18:stale-sale-contract", fmt.Sprintf("chain %d: authorised contract is %d, governance last set %v (present %v)", c, got, want, okw), replay)
		}
	}
	// fee granter and funders are configured exactly when governance configured them (an empty
	// object coming back from a genesis file is not a configuration)
	if fg, err := w.e.paloma.LightNodeClientFeegranter(w.e.ctx); (err == nil) != (w.feegranter >= 0) ||
		(err == nil && w.idOf(fg.Account) != int64(w.feegranter)) {
		run.Violate("C18:fee-granter-not-as-configured", fmt.Sprintf("governance set fee granter %d, the keeper reports %v (err %v) after %s", w.feegranter, fg, err, o.kind), replay)
	}
	if fs, err := w.e.paloma.LightNodeClientFunders(w.e.ctx); (err == nil) != (w.hasFunders && len(w.funders) > 0) {
		run.Violate("C18:funders-not-as-configured", fmt.Sprintf("governance set funders %v, the keeper reports %v (err %v) after %s", w.funders, fs, err, o.kind), replay)
	}
	if o.kind == "Tx" && class == 0 {
		for _, m := range o.msgs {
			if m.kind != "Register" {
				continue
			}
			id := m.a.id
			w.activated[id]++
			if w.activated[id] > 1 {
				run.Violate("C18:activated-twice", fmt.Sprintf("address %d", id), replay)
			}
			ok := false
			for _, x := range m.signers {
				if x == id || w.grantBefore[[2]int{id, x}] {
					ok = true
				}
			}
			if !ok {
				run.Violate("C18:activated-by-stranger", fmt.Sprintf("the licence of address %d was activated by a transaction signed by %v: not the licensee, no fee allowance from it", id, m.signers), replay)
			}
		}
	}
	if o.kind == "Genesis" && !cur.eq(prev) {
		run.Violate("C18:genesis-round-trip-changed-state", "ExportGenesis + InitGenesis on a wiped x/paloma store changed the projection", replay)
	}
	if o.kind == "SetLegacy" {
		// client records only, existing ones untouched
		for _, row := range append(prev.minus(cur), cur.minus(prev)...) {
			if row[0].Cmp(bi(101)) != 0 {
				run.Violate("C18:legacy-import-touched-funds", fmt.Sprintf("row %v", row), replay)
			}
		}
		for _, row := range prev.minus(cur) {
			run.Violate("C18:legacy-import-altered-client", fmt.Sprintf("row %v", row), replay)
		}
	}
	if o.kind == "Sale" && o.route == "try" && w.lastTry != nil {
		t := w.lastTry
		w.lastTry = nil
		if t.cursor != t.nonce || !t.observed {
			run.Violate("C18:attested-sale-not-consumed", fmt.Sprintf("nonce %d: cursor %d observed %v (handler class %d, panicked %v)", t.nonce, t.cursor, t.observed, class, t.panicked), replay)
		}
		if t.repeatErr == nil || !t.repeatSame {
			run.Violate("C18:attested-sale-repeated", fmt.Sprintf("nonce %d: second TryAttestation err=%v, state unchanged=%v", t.nonce, t.repeatErr, t.repeatSame), replay)
		}
		if (class == -1) != t.panicked {
			run.Violate("C18:attested-sale-panic-mismatch", fmt.Sprintf("handler class %d, TryAttestation panicked %v", class, t.panicked), replay)
		}
	}
}

// ---- a sale campaign: more than a hundred licences pending at once ----

// bulkHistory: 106-135 licences (message and sale path, both spellings) created for as many fresh
// addresses, a few activated, then the list of pending licences is looked at through every reader
// (keeper list, gRPC query, legacy import, genesis export), the chain goes through a genesis round
// trip, and ALL pending licences are activated. Oracle: every licence created and not yet activated
// is listed, exported, and activatable afterwards; escrow = sum of the pending licences throughout.
func bulkHistory(run *emit.Run, idx int) {
	r := run.Rng
	start := genStart(r)
	e := newEnv(start)
	w := &world{e: e, addrs: map[int]sdk.AccAddress{0: e.escrow}, ids: map[string]int{string(e.escrow): 0},
		gifts: []*big.Int{big.NewInt(0), big.NewInt(0)}, contracts: map[int]int{}, feegranter: -1,
		activated: map[int]int{}, lastLocked: map[int]*big.Int{}}
	n := 106 + r.Intn(30)
	if run.Tier != "quick" {
		n = 106 + r.Intn(140)
	}
	for _, i := range []int{1, 2} {
		w.addrs[i] = addrOf(i)
		w.ids[string(addrOf(i))] = i
	}
	for i := 0; i < n; i++ {
		w.addrs[10+i] = addrOf(10 + i)
		w.ids[string(addrOf(10+i))] = 10 + i
	}
	fund := new(big.Int).Lsh(big.NewInt(1), 70)
	e.mint(w.addrs[1], sdk.Coins{sdk.NewCoin(bondDenom, sdkmath.NewIntFromBigInt(fund))})

	pending := map[key]*big.Int{}
	var keys []key // every key that ever carried a licence, plus its lower-case spelling
	replaySteps := []stepRec{}
	type seg struct {
		ops  []string
		outs []string
		sum  string
	}
	var segs []seg
	cur := seg{}
	do := func(o op) int64 {
		c := w.apply(o)
		cur.ops = append(cur.ops, o.xcoq())
		cur.outs = append(cur.outs, zi(c))
		replaySteps = append(replaySteps, stepRec{o.coq(), c})
		run.Count("op", "bulk "+o.kind)
		return c
	}
	replay := func() any {
		return map[string]any{"seed": run.Seed, "bulk": idx, "start": start.Unix(), "licences": n, "steps": replaySteps}
	}
	check := func(where string) {
		all, err := e.paloma.AllLightNodeClientLicenses(e.ctx)
		q, qerr := e.paloma.GetLightNodeClientLicenses(e.ctx, nil)
		listed, queried := map[string]bool{}, map[string]bool{}
		for _, l := range all {
			listed[l.ClientAddress] = true
		}
		if qerr == nil {
			for _, l := range q.LightNodeClientLicenses {
				queried[l.ClientAddress] = true
			}
		}
		sum := new(big.Int)
		missing, unreadable := 0, 0
		for k, amt := range pending {
			sum.Add(sum, amt)
			if !listed[w.str(k)] || !queried[w.str(k)] {
				missing++
			}
			if _, err := e.paloma.GetLightNodeClientLicense(e.ctx, w.str(k)); err != nil {
				unreadable++
			}
		}
		if err != nil || qerr != nil || missing > 0 || len(all) != len(pending) {
			run.Violate("C18:pending-licence-not-listed", fmt.Sprintf("%s: %d licences pending, the keeper lists %d (query %d), %d of the pending ones missing (err %v / %v)",
				where, len(pending), len(all), len(queried), missing, err, qerr), replay())
		}
		if unreadable > 0 {
			run.Violate("C18:pending-licence-lost", fmt.Sprintf("%s: %d of %d pending licences are gone from the store", where, unreadable, len(pending)), replay())
		}
		if have := e.bank.GetBalance(e.ctx, e.escrow, bondDenom).Amount.BigInt(); have.Cmp(sum) != 0 {
			run.Violate("C18:escrow-ne-licences", fmt.Sprintf("%s: module account holds %s, the %d pending licences sum up to %s", where, have, len(pending), sum), replay())
		}
		// the segment's summary (mirrors Corr.C18.bulk_summary)
		nclients := 0
		for _, k := range keys {
			if _, err := e.paloma.GetLightNodeClient(e.ctx, w.str(k)); err == nil {
				nclients++
			}
		}
		lsum := new(big.Int)
		for _, l := range all {
			if l.Amount.Denom == bondDenom {
				lsum.Add(lsum, l.Amount.Amount.BigInt())
			}
		}
		cur.sum = emit.List([]string{zi(int64(len(all))), emit.Z(lsum), emit.Z(e.bank.GetBalance(e.ctx, e.escrow, bondDenom).Amount.BigInt()), zi(int64(nclients))})
		segs = append(segs, cur)
		cur = seg{}
	}
	activate := func(k key, where string) {
		amt := pending[k]
		before := e.bank.GetBalance(e.ctx, w.addrs[k.id], bondDenom).Amount.BigInt()
		if c := do(op{kind: "Register", a: k}); c != 0 {
			run.Violate("C18:pending-licence-not-activatable", fmt.Sprintf("%s: the licensee %d (licence of %s) is refused with class %d", where, k.id, amt, c), replay())
			return
		}
		delete(pending, k)
		after := e.bank.GetBalance(e.ctx, w.addrs[k.id], bondDenom).Amount.BigInt()
		if new(big.Int).Sub(after, before).Cmp(amt) != 0 {
			run.Violate("C18:activation-wrong-amount", fmt.Sprintf("%s: licensee %d received %s, licensed %s", where, k.id, new(big.Int).Sub(after, before), amt), replay())
		}
	}

	do(op{kind: "SetContracts", pairs: [][2]int{{1, 11}}})
	do(op{kind: "SetFeegranter", a: key{2, false}})
	do(op{kind: "SetFunders", list: []int{1}})
	for i := 0; i < n; i++ {
		k := key{10 + i, r.Intn(4) == 0}
		var o op
		if r.Intn(10) < 3 {
			o = op{kind: "Sale", chain: 1, contract: 11, b: k, amt: big.NewInt(int64(1 + r.Intn(5)))}
			if r.Intn(2) == 0 {
				o.route = "try"
			}
		} else {
			o = op{kind: "AddLicence", a: key{1, false}, b: k, d: 0, amt: big.NewInt(int64(1 + r.Intn(5_000_000))), months: monthsPool[r.Intn(len(monthsPool))]}
		}
		if c := do(o); c != 0 {
			run.Violate("C18:bulk-creation-refused", fmt.Sprintf("%s refused with class %d", o.coq(), c), replay())
			continue
		}
		amt := new(big.Int).Set(o.amt)
		if o.kind == "Sale" {
			amt.Mul(amt, big.NewInt(1_000_000))
		}
		pending[k] = amt
		keys = append(keys, k)
		if k.up {
			keys = append(keys, key{k.id, false})
		}
	}
	sorted := func() []key {
		ks := make([]key, 0, len(pending))
		for k := range pending {
			ks = append(ks, k)
		}
		sort.Slice(ks, func(i, j int) bool { return ks[i].id < ks[j].id })
		return ks
	}
	for _, k := range sorted()[:5] {
		activate(k, "before the restart")
	}
	check("campaign")
	do(op{kind: "SetLegacy", a: key{1, false}})
	check("legacy import")
	do(op{kind: "Genesis"})
	check("after export + import")
	ks := sorted()
	r.Shuffle(len(ks), func(i, j int) { ks[i], ks[j] = ks[j], ks[i] })
	for _, k := range ks {
		activate(k, "after export + import")
	}
	check("all activated")
	ss := make([]string, len(segs))
	for i, sg := range segs {
		ss[i] = emit.Pair(emit.List(sg.ops), emit.List(sg.outs), sg.sum)
	}
	kk := make([]string, len(keys))
	for i, k := range keys {
		kk[i] = keyT(k)
	}
	run.Case(fmt.Sprintf("C18.CBulk %d %s %s %s", start.Unix(), emit.Z(fund), emit.List(kk), emit.List(ss)), true, nil)
	run.Count("history", fmt.Sprintf("bulk: %d licences pending at once", n-5))
}

// ---- function-level cases ----

// boundary dates of the calendar: ends of long months, leap days of ordinary / century / 400-year
// leap years, year ends, the epoch, before it, year 1, year 9999 and the far future
func addMonthsBoundary(run *emit.Run) {
	u := time.UTC
	dates := []time.Time{
		time.Date(2024, 1, 31, 0, 0, 0, 0, u), time.Date(2023, 1, 31, 12, 0, 0, 0, u), time.Date(1900, 1, 31, 0, 0, 0, 0, u),
		time.Date(2000, 1, 31, 0, 0, 0, 0, u), time.Date(2100, 1, 31, 23, 59, 59, 0, u), time.Date(2024, 2, 29, 0, 0, 0, 0, u),
		time.Date(2000, 2, 29, 6, 7, 8, 0, u), time.Date(2023, 2, 28, 0, 0, 0, 0, u), time.Date(2024, 3, 31, 0, 0, 0, 0, u),
		time.Date(2025, 5, 31, 0, 0, 0, 0, u), time.Date(2025, 8, 31, 0, 0, 0, 0, u), time.Date(2025, 10, 31, 0, 0, 0, 0, u),
		time.Date(2023, 12, 31, 23, 59, 59, 0, u), time.Date(2024, 12, 1, 0, 0, 0, 0, u), time.Date(1999, 12, 31, 23, 59, 59, 0, u),
		time.Date(1970, 1, 1, 0, 0, 0, 0, u), time.Date(1969, 12, 31, 23, 59, 59, 0, u), time.Date(1, 1, 1, 0, 0, 0, 0, u),
		time.Date(9999, 12, 31, 23, 59, 59, 0, u), time.Unix(1<<40, 0).UTC(), time.Date(2399, 11, 30, 0, 0, 0, 0, u),
	}
	ks := []int{0, 1, 2, 11, 12, 13, 24, 1200, 1<<32 - 1}
	for _, t := range dates {
		for _, k := range ks {
			got := t.AddDate(0, k, 0).Unix()
			run.Case(fmt.Sprintf("C18.CAddMonths %s %d %s", zi(t.Unix()), k, zi(got)), t.Day() > 28, nil)
			run.Count("op", "AddDate boundary")
			if got < t.Unix() {
				run.Violate("C18:adddate-backwards", fmt.Sprintf("%d + %d months = %d", t.Unix(), k, got), map[string]any{"t": t.Unix(), "k": k})
			}
		}
	}
}

func addMonthsCases(run *emit.Run, n int) {
	r := run.Rng
	for i := 0; i < n; i++ {
		t := genStart(r)
		if r.Intn(4) == 0 {
			t = time.Unix(r.Int63n(8_000_000_000)-2_000_000_000, 0).UTC()
		}
		k := int(monthsPool[r.Intn(len(monthsPool))])
		if r.Intn(2) == 0 {
			k = r.Intn(5000)
		}
		got := t.AddDate(0, k, 0).Unix()
		run.Case(fmt.Sprintf("C18.CAddMonths %s %d %s", zi(t.Unix()), k, zi(got)), t.Day() > 28, nil)
		run.Count("op", "AddDate")
	}
}

func vestedCases(run *emit.Run, n int) {
	r := run.Rng
	for i := 0; i < n; i++ {
		st := 1_600_000_000 + r.Int63n(400_000_000)
		en := st + []int64{0, 1, 2, 3, 7, 86400 * 30, 86400 * 365 * 2, 1 + r.Int63n(100_000_000)}[r.Intn(8)]
		orig := emit.BigUpTo(r, 200)
		if r.Intn(2) == 0 {
			orig = big.NewInt(1 + r.Int63n(5_000_000_000_000))
		}
		if orig.Sign() == 0 {
			orig = big.NewInt(1)
		}
		t := st - 5 + r.Int63n(en-st+10)
		base := authtypes.NewBaseAccountWithAddress(addrOf(1))
		bva, err := vestingtypes.NewBaseVestingAccount(base, sdk.Coins{sdk.NewCoin(bondDenom, sdkmath.NewIntFromBigInt(orig))}, en)
		if err != nil {
			panic(err)
		}
		cva := vestingtypes.NewContinuousVestingAccountRaw(bva, st)
		got := cva.GetVestedCoins(time.Unix(t, 0).UTC()).AmountOf(bondDenom).BigInt()
		run.Case(fmt.Sprintf("C18.CVested %d %d %s %d %s", st, en, emit.Z(orig), t, emit.Z(got)), t > st && t < en, nil)
		run.Count("op", "GetVestedCoins")
	}
}

var faultPct = 30

func TestCorr(t *testing.T) {
	run := emit.Start("C18", 400)
	run.Rule("histories of 6-20 operations (licence creation by message and by attested sale, activation, re-activation, " +
		"activation by third parties and under the other spelling of the address, authentication, bank transfers incl. gifts to the " +
		"module account, fee grants, governance configuration with each piece sometimes missing, time steps) against the real " +
		"x/paloma msg server + x/skyway attestation handler over real auth/bank/feegrant/vesting; 15% of histories draw hostile " +
		"values (zero, negative, 2^200+, undecodable addresses, invalid denom). Non-trivial = at least one licence created or " +
		"activated and at least one operation refused. Plus AddDate and GetVestedCoins compared at function level "+
		"(AddDate also on a fixed table of boundary dates x month counts). Second round: the x/paloma keeper's AccountKeeper / "+
		"BankKeeper / FeegrantKeeper are counting proxies; 30% of the licence creations, activations, sales and legacy imports "+
		"get a fault at one of the calls measured on a fault-free run (or at the one after the last), by error or by panic; "+
		"every such operation is also run RAW (no message branch / no attestation cache) on a throw-away branch and the "+
		"leftovers are compared with the model's raw function; sales go half through processAttestation, half through "+
		"TryAttestation under recover; MsgSetLegacyLightNodeClients and ExportGenesis/wipe/InitGenesis are history operations. "+
		"Rounds 3-5: one campaign with more than a hundred licences pending at once through every reader and a restart; contract "+
		"ids are spellings (near misses, parked entries); 5% of the operations are whole transactions of 1-3 metadata-carrying "+
		"messages (status update, activation, authentication, purchase; creators and signers drawn independently) through the REAL "+
		"signature-authorisation decorator and msg server on one branch.")
	nFn := run.N / 8
	nHist := run.N - 2*nFn
	replayCorpus(run)
	nBulk := 1
	if run.Tier != "quick" {
		nBulk = 8
	}
	for i := 0; i < nBulk; i++ {
		bulkHistory(run, i)
	}
	for i := 0; i < nHist; i++ {
		hostile := run.Rng.Intn(100) < 15
		if os.Getenv("VERIF_SEARCH") == "1" {
			hostile = run.Rng.Intn(100) < 40
		}
		runHistory(run, i, hostile, nil)
	}
	addMonthsBoundary(run)
	addMonthsCases(run, nFn)
	vestedCases(run, nFn)
	if err := run.Finish("Paloma.LightNode Paloma.LightNodeExt Corr.C18", "C18.case", "C18.check"); err != nil {
		t.Fatal(err)
	}
}
