//go:build verif

package c18

import (
	"encoding/json"
	"math/big"
	"os"
	"path/filepath"
	"sort"

	"github.com/palomachain/paloma/v2/verifharness/emit"
)

// Corpus: scripted histories (harness/corpus/C18/*.json), replayed before the generated ones.
type jfund struct {
	ID    int    `json:"id"`
	Denom int    `json:"denom"`
	Amt   string `json:"amt"`
}
type jop struct {
	Kind     string   `json:"kind"`
	A        int      `json:"a"`
	AUp      bool     `json:"a_up"`
	B        int      `json:"b"`
	BUp      bool     `json:"b_up"`
	Denom    int      `json:"denom"`
	Amt      string   `json:"amt"`
	Months   uint32   `json:"months"`
	Chain    int      `json:"chain"`
	Contract int      `json:"contract"`
	List     []int    `json:"list"`
	Pairs    [][2]int `json:"pairs"`
	Dt       int64    `json:"dt"`
	Fault    int      `json:"fault"`
	FPanic   bool     `json:"fpanic"`
	Route    string   `json:"route"`
	Msgs     []jmsg   `json:"msgs"`
}
type jmsg struct {
	Kind    string `json:"kind"`
	A       int    `json:"a"`
	AUp     bool   `json:"a_up"`
	B       int    `json:"b"`
	BUp     bool   `json:"b_up"`
	Denom   int    `json:"denom"`
	Amt     string `json:"amt"`
	Months  uint32 `json:"months"`
	Signers []int  `json:"signers"`
	Nest    int    `json:"nest"`
}
type scripted struct {
	Note  string  `json:"note"`
	// PremiseViolated: the history breaks a premise of the theorems on purpose (governance names the
	// module account as funder); the direct oracle is off, the correspondence with the model is on.
	PremiseViolated bool `json:"premise_violated"`
	Start int64   `json:"start"`
	Fund  []jfund `json:"fund"`
	Ops   []jop   `json:"ops"`
}

func (s *scripted) ops() []op {
	out := make([]op, len(s.Ops))
	for i, j := range s.Ops {
		amt := big.NewInt(0)
		if j.Amt != "" {
			amt, _ = new(big.Int).SetString(j.Amt, 10)
		}
		out[i] = op{kind: j.Kind, a: key{j.A, j.AUp}, b: key{j.B, j.BUp}, d: j.Denom, amt: amt, months: j.Months,
			chain: j.Chain, contract: j.Contract, list: j.List, pairs: j.Pairs, dt: j.Dt,
			fault: j.Fault, fpanic: j.FPanic, route: j.Route}
		for _, m := range j.Msgs {
			ma := big.NewInt(0)
			if m.Amt != "" {
				ma, _ = new(big.Int).SetString(m.Amt, 10)
			}
			out[i].msgs = append(out[i].msgs, txmsg{kind: m.Kind, a: key{m.A, m.AUp}, b: key{m.B, m.BUp}, d: m.Denom, amt: ma, months: m.Months, signers: m.Signers, nest: m.Nest})
		}
	}
	return out
}

func replayCorpus(run *emit.Run) {
	files, _ := filepath.Glob("/verif/harness/corpus/C18/*.json")
	sort.Strings(files)
	for i, f := range files {
		b, err := os.ReadFile(f)
		if err != nil {
			continue
		}
		var s scripted
		if err := json.Unmarshal(b, &s); err != nil {
			panic(f + ": " + err.Error())
		}
		runHistory(run, 100000+i, false, &s)
		run.Count("corpus", filepath.Base(f))
	}
}
