package c11

// Second-round generators for C11: inputs that a LOSSY but plausible rendering of a claim path would identify.
//   * amountAlias   — amounts congruent modulo 2^32 / 2^64 / 2^128 / 2^192 / 2^255, sign flips, nil vs 0 (a renderer that
//                     goes through Uint64 / Int64 / a fixed-width word, or drops the sign, maps them to one text);
//   * mirror        — a claim of ANOTHER type whose fields mirror the victim's path elements one by one, after elements
//                     holding an empty text have been left out on either side (a renderer that omits an empty element —
//                     e.g. "no compass id on record" — makes the two paths equal; the claim types are only kept apart by
//                     the number of path elements);
//   * mirrorVictim  — victims for which such a mirror exists and passes ValidateBasic (decimal-only 40 digit token
//                     contracts / amounts, decimal client addresses, empty compass ids).
// None of these collide on a faithful renderer; the oracle (same key ⇒ same effect, vote ⇒ stored body equals the
// submitted one) decides.

import (
	"fmt"
	"math/big"
	"math/rand"
	"strconv"
	"strings"
)

const tLegacy = 3 // MsgBatchSendToEthClaim: no msg-server route, pairs / hash cases only

var aliasKinds = []string{"+2^64", "+k*2^64", "+2^128", "+2^192", "+2^255", "low64", "neg", "nil-vs-0", "+2^32", "+2^63", "hi-random"}

func pow2(n uint) *big.Int { return new(big.Int).Lsh(big.NewInt(1), n) }

var maxInt = new(big.Int).Sub(pow2(256), big.NewInt(1)) // math.Int holds |x| < 2^256

func fits(x *big.Int) bool { return x != nil && new(big.Int).Abs(x).Cmp(maxInt) <= 0 }

// amountAlias returns an amount different from a that a lossy renderer of the given kind would print like a.
// ok=false if that kind has no alias for a inside math.Int's range.
func amountAlias(r *rand.Rand, a *big.Int, kind string) (*big.Int, bool) {
	if kind == "nil-vs-0" {
		if a == nil {
			return big.NewInt(0), true
		}
		if a.Sign() == 0 {
			return nil, true
		}
		return nil, false
	}
	if a == nil {
		return nil, false
	}
	add := func(d *big.Int) (*big.Int, bool) {
		x := new(big.Int).Add(a, d)
		if a.Sign() < 0 {
			x = new(big.Int).Sub(a, d)
		}
		return x, fits(x) && x.Cmp(a) != 0
	}
	switch kind {
	case "+2^64":
		return add(pow2(64))
	case "+k*2^64":
		return add(new(big.Int).Mul(pow2(64), big.NewInt(int64(2+r.Intn(1000)))))
	case "+2^128":
		return add(pow2(128))
	case "+2^192":
		return add(pow2(192))
	case "+2^255":
		return add(pow2(255))
	case "+2^32":
		return add(pow2(32))
	case "+2^63":
		return add(pow2(63))
	case "low64":
		x := new(big.Int).And(new(big.Int).Abs(a), new(big.Int).Sub(pow2(64), big.NewInt(1)))
		if a.Sign() < 0 {
			x.Neg(x)
		}
		return x, x.Cmp(a) != 0
	case "neg":
		x := new(big.Int).Neg(a)
		return x, x.Cmp(a) != 0
	case "hi-random":
		hi := new(big.Int).Lsh(new(big.Int).Rand(r, pow2(190)), 64)
		return add(hi)
	}
	return nil, false
}

// aliasBase: amounts worth aliasing — ordinary, just below / at / above 2^64, large.
func aliasBase(r *rand.Rand) *big.Int {
	switch r.Intn(6) {
	case 0:
		return big.NewInt(int64(1 + r.Intn(1_000_000)))
	case 1:
		return new(big.Int).Sub(pow2(64), big.NewInt(int64(1+r.Intn(3))))
	case 2:
		return new(big.Int).Add(pow2(64), big.NewInt(int64(r.Intn(1_000_000))))
	case 3:
		return new(big.Int).Rand(r, pow2(128))
	case 4:
		return big.NewInt(0)
	}
	return new(big.Int).Rand(r, pow2(200))
}

// ---- cross-type mirrors ----

type slot struct {
	kind string // "num" | "amt" | "str"
	set  func(s *spec, v string)
}

func slotsOf(t int) []slot {
	setAmt := func(s *spec, v string) {
		if v == "<nil>" {
			s.Amount = nil
			return
		}
		s.Amount, _ = new(big.Int).SetString(v, 10)
	}
	switch t {
	case tDeposit:
		return []slot{{"str", func(s *spec, v string) { s.Token = v }}, {"amt", setAmt}, {"str", func(s *spec, v string) { s.Sender = v }},
			{"str", func(s *spec, v string) { s.Receiver = v }}, {"str", func(s *spec, v string) { s.Compass = v }}}
	case tBatch:
		return []slot{{"num", func(s *spec, v string) { s.BatchNonce, _ = strconv.ParseUint(v, 10, 64) }},
			{"str", func(s *spec, v string) { s.Token = v }}, {"str", func(s *spec, v string) { s.Compass = v }}}
	case tLegacy:
		return []slot{{"num", func(s *spec, v string) { s.BatchNonce, _ = strconv.ParseUint(v, 10, 64) }},
			{"str", func(s *spec, v string) { s.Token = v }}}
	}
	return []slot{{"str", func(s *spec, v string) { s.Client = v }}, {"amt", setAmt}, {"str", func(s *spec, v string) { s.Contract = v }},
		{"str", func(s *spec, v string) { s.Compass = v }}}
}

// itemsOf: the values of the path elements after nonce and height, each as the text a faithful renderer prints
// BEFORE escaping, with its kind.
func itemsOf(s spec) (vals []string, kinds []string) {
	a := "<nil>"
	if s.Amount != nil {
		a = s.Amount.String()
	}
	switch s.T {
	case tDeposit:
		return []string{s.Token, a, s.Sender, s.Receiver, s.Compass}, []string{"str", "amt", "str", "str", "str"}
	case tBatch:
		return []string{fmt.Sprint(s.BatchNonce), s.Token, s.Compass}, []string{"num", "str", "str"}
	case tLegacy:
		return []string{fmt.Sprint(s.BatchNonce), s.Token}, []string{"num", "str"}
	}
	return []string{s.Client, a, s.Contract, s.Compass}, []string{"str", "amt", "str", "str"}
}

func fitsSlot(kind, v string) bool {
	switch kind {
	case "num":
		x, err := strconv.ParseUint(v, 10, 64)
		return err == nil && strconv.FormatUint(x, 10) == v
	case "amt":
		if v == "<nil>" {
			return true
		}
		x, ok := new(big.Int).SetString(v, 10)
		return ok && x.String() == v && fits(x)
	}
	return true
}

// dropEmpty: the path elements a renderer that omits empty text elements would print.
func dropEmpty(s spec) []string {
	vals, kinds := itemsOf(s)
	var out []string
	for i, v := range vals {
		if kinds[i] == "str" && v == "" {
			continue
		}
		out = append(out, v)
	}
	return out
}

// mirror builds a claim of type `to` for the same chain / nonce / height whose non-empty path elements equal the
// victim's non-empty path elements, position by position.  ok=false if there is none.
func mirror(r *rand.Rand, v spec, to int) (spec, bool) {
	if to == v.T {
		return v, false
	}
	want := dropEmpty(v)
	sl := slotsOf(to)
	d := len(sl) - len(want)
	if d < 0 {
		return v, false
	}
	// choose d text slots of the target that stay empty (and are dropped); try a few random choices
	var strIdx []int
	for i, s := range sl {
		if s.kind == "str" {
			strIdx = append(strIdx, i)
		}
	}
	if d > len(strIdx) {
		return v, false
	}
	for try := 0; try < 8; try++ {
		empty := map[int]bool{}
		for _, j := range r.Perm(len(strIdx))[:d] {
			empty[strIdx[j]] = true
		}
		x := spec{T: to, EventNonce: v.EventNonce, Height: v.Height, SkywayNonce: v.SkywayNonce, Chain: v.Chain, Orch: 4, BatchNonce: 1}
		k, ok := 0, true
		for i, s := range sl {
			if empty[i] {
				s.set(&x, "")
				continue
			}
			if !fitsSlot(s.kind, want[k]) || (s.kind == "str" && want[k] == "") {
				ok = false
				break
			}
			s.set(&x, want[k])
			k++
		}
		if ok && strings.Join(dropEmpty(x), "\x00") == strings.Join(want, "\x00") {
			return x, true
		}
	}
	return v, false
}

func decDigits(r *rand.Rand, n int) string {
	b := make([]byte, n)
	for i := range b {
		b[i] = byte('0' + r.Intn(10))
	}
	if b[0] == '0' {
		b[0] = '7'
	}
	return string(b)
}

// mirrorVictim: an honest-looking claim of type t (passes ValidateBasic) for which mirrors into other types exist:
// empty compass id (a deployment without one on record), and decimal-only spellings where the other type has a
// number in that position (a 40-digit decimal string is a well-formed hex address without the optional 0x).
func mirrorVictim(r *rand.Rand, t int, nonce uint64) spec {
	s := honestSpec(r, t, nonce)
	s.Compass = ""
	switch t {
	case tBatch:
		if r.Intn(2) == 0 {
			s.Token = decDigits(r, 40)
		}
		if r.Intn(3) == 0 {
			s.Compass = fmt.Sprint(50 + r.Intn(10))
		}
	case tSale:
		switch r.Intn(3) {
		case 0: // mirrors into a batch claim: client = batch nonce, amount = token contract
			s.Client = fmt.Sprint(1 + r.Intn(9))
			s.Amount, _ = new(big.Int).SetString(decDigits(r, 40), 10)
		case 1: // mirrors into a deposit claim without compass id: client = token, contract = sender, compass = receiver
			s.Client = erc20A
			s.Contract = hexAddr(r)
			s.Compass = honestSpec(r, tDeposit, nonce).Receiver
		}
	}
	return s
}

// numAliasSteps: differences a narrowing conversion of a uint64 counter (uint32, int32, uint16, int64 sign) would lose.
var numAliasSteps = []uint64{1 << 32, 1 << 31, 1 << 16, 1 << 63, 3 << 32}

func numStep(r *rand.Rand) uint64 {
	if r.Intn(3) == 0 {
		return numAliasSteps[r.Intn(len(numAliasSteps))]
	}
	return 1 + uint64(r.Intn(3))
}

// ---- round 6: cross-type pairs by splitting / merging adjacent path elements ----

// mergeMirror builds a claim of type `to` whose path elements are the victim's path elements regrouped: every text
// element of the victim is cut at its '/' characters, and consecutive pieces are glued together again with '/' into as
// many groups as the target type has elements (a separator INSIDE a field of one claim plays the separator BETWEEN two
// fields of the other).  Any text field may receive a glued group — also "address" fields that ValidateBasic of the
// target type leaves unchecked.  Returns every feasible regrouping.
func mergeMirrors(v spec, to int) []spec {
	vals, kinds := itemsOf(v)
	var toks, tk []string
	for i, x := range vals {
		if kinds[i] == "str" {
			for _, p := range strings.Split(x, "/") {
				toks, tk = append(toks, p), append(tk, "str")
			}
		} else {
			toks, tk = append(toks, x), append(tk, kinds[i])
		}
	}
	sl := slotsOf(to)
	m := len(sl)
	if m > len(toks) || (to == v.T) {
		return nil
	}
	var out []spec
	var rec func(slot, start int, x spec)
	rec = func(slot, start int, x spec) {
		if slot == m {
			if start == len(toks) {
				out = append(out, x)
			}
			return
		}
		maxEnd := len(toks) - (m - slot - 1)
		for end := start + 1; end <= maxEnd; end++ {
			g := strings.Join(toks[start:end], "/")
			if sl[slot].kind != "str" && end-start != 1 {
				break
			}
			if !fitsSlot(sl[slot].kind, g) {
				continue
			}
			y := x.clone()
			sl[slot].set(&y, g)
			rec(slot+1, end, y)
		}
	}
	rec(0, 0, spec{T: to, EventNonce: v.EventNonce, Height: v.Height, SkywayNonce: v.SkywayNonce, Chain: v.Chain, Orch: 4, BatchNonce: 1})
	return out
}

// hostileEverywhere: two bodies of one type, one with a separator / percent sign inside a text field chosen among ALL text
// fields of the type (token contract, sender, sale contract, client, receiver, compass id), the other with the escaped or
// shifted spelling.
func hostileEverywhere(r *rand.Rand, t int, nonce uint64) (spec, spec, string) {
	a := honestSpec(r, t, nonce)
	b := a.clone()
	fields := map[int][]string{tDeposit: {"Token", "Sender", "Receiver", "Compass"}, tBatch: {"Token", "Compass"}, tSale: {"Client", "Contract", "Compass"}}[t]
	i := r.Intn(len(fields))
	ref := func(s *spec, f string) *string {
		switch f {
		case "Token":
			return &s.Token
		case "Sender":
			return &s.Sender
		case "Receiver":
			return &s.Receiver
		case "Client":
			return &s.Client
		case "Contract":
			return &s.Contract
		}
		return &s.Compass
	}
	f := fields[i]
	x, y := fmt.Sprint("u", r.Intn(9)), fmt.Sprint("w", r.Intn(9))
	switch r.Intn(3) {
	case 0: // escaped spelling of the same text
		*ref(&a, f), *ref(&b, f) = x+"/"+y, x+"%2F"+y
	case 1:
		*ref(&a, f), *ref(&b, f) = x+"%"+y, x+"%25"+y
	default: // boundary shift into the next text field
		if i+1 < len(fields) {
			g := fields[i+1]
			*ref(&a, f), *ref(&a, g) = x+"/"+y, "z"
			*ref(&b, f), *ref(&b, g) = x, y+"/z"
		} else {
			*ref(&a, f), *ref(&b, f) = x+"/"+y, x+"//"+y
		}
	}
	return a, b, f
}
