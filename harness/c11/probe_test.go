package c11

import (
	"encoding/hex"
	"math/big"
	"testing"

	"github.com/palomachain/paloma/v2/x/skyway/keeper"
)

func TestProbe(t *testing.T) {
	e := newEnv(t, false)
	recv := keeper.AccAddrs[0].String()
	base := spec{T: tSale, EventNonce: 1, Height: 100, SkywayNonce: 1, Client: recv, Contract: saleAddrA, Compass: "55", Chain: chainA, Amount: big.NewInt(1000)}
	// F8a
	a := base.clone()
	a.Contract = "0x00000000000000000000000000000000000000Bb"
	a.Orch = 4
	r1, d1 := e.submit(build(a))
	t.Log("attacker", r1, d1)
	for i := 0; i < 4; i++ {
		h := base.clone()
		h.Orch = i
		r, d := e.submit(build(h))
		t.Log("honest", i, r, d)
	}
	for _, at := range e.attestations([]string{chainA}) {
		t.Logf("att key=%s votes=%v body=%v diffWithHonest=%v", hex.EncodeToString(at.Key), at.Votes, at.Body, effectDiff(at.Body, build(base)))
	}
	t.Log("digest honest  :", e.applyDigest(build(base)))
	t.Log("digest attacker:", e.applyDigest(build(a)))
	t.Log("tally", e.tally(chainA))
	for _, at := range e.attestations([]string{chainA}) {
		t.Logf("after tally: votes=%v obs=%v", at.Votes, at.Obs)
	}
	t.Log("licence calls", *e.calls)

	// F8b + cross-type at nonce 2
	dep := spec{T: tDeposit, EventNonce: 2, Height: 101, SkywayNonce: 2, Token: erc20A, Sender: "0x00000000000000000000000000000000000000Aa", Receiver: recv, Compass: "55", Chain: chainA, Amount: big.NewInt(777)}
	x := spec{T: tSale, EventNonce: 2, Height: 101, SkywayNonce: 2, Client: erc20A, Amount: big.NewInt(777), Compass: dep.Sender + "/" + recv + "/55", Contract: saleAddrA, Chain: chainA, Orch: 4}
	r1, d1 = e.submit(build(x))
	t.Log("attacker cross-type", r1, d1)
	for i := 0; i < 4; i++ {
		h := dep.clone()
		h.Orch = i
		r, d := e.submit(build(h))
		t.Log("honest deposit", i, r, d)
	}
	for _, at := range e.attestations([]string{chainA}) {
		t.Logf("att key=%s votes=%v type=%s diffWithHonestDeposit=%v", hex.EncodeToString(at.Key[len(at.Key)-40:]), at.Votes, typeName(at.Body), effectDiff(at.Body, build(dep)))
	}
	t.Log("digest honest deposit :", e.applyDigest(build(dep)))
	t.Log("digest attacker sale  :", e.applyDigest(build(x)))
	t.Log("tally", e.tally(chainA))
	for _, at := range e.attestations([]string{chainA}) {
		t.Logf("after tally: type=%s votes=%v obs=%v", typeName(at.Body), at.Votes, at.Obs)
	}
	t.Log("licence calls", *e.calls)
	last, _ := e.k.GetLastObservedSkywayNonce(e.ctx, chainA)
	t.Log("last observed", last)
}
