package c11

// Real-keeper plumbing for C11: claim specs, construction of the three live claim types, the
// skyway keeper test environment, application of a claim body through the real attestation
// handler with a projected outcome digest, and reading the attestations Attest really wrote
// (full raw-store keys).

import (
	"bytes"
	"context"
	"fmt"
	"math/big"
	"reflect"
	"sort"
	"strings"
	"testing"

	sdkmath "cosmossdk.io/math"
	"github.com/cometbft/cometbft/crypto/tmhash"
	codectypes "github.com/cosmos/cosmos-sdk/codec/types"
	sdk "github.com/cosmos/cosmos-sdk/types"
	distrtypes "github.com/cosmos/cosmos-sdk/x/distribution/types"
	"github.com/cosmos/gogoproto/proto"
	"github.com/palomachain/paloma/v2/x/skyway"
	"github.com/palomachain/paloma/v2/x/skyway/keeper"
	"github.com/palomachain/paloma/v2/x/skyway/types"
	valsettypes "github.com/palomachain/paloma/v2/x/valset/types"
)

const (
	tDeposit = iota
	tBatch
	tSale
)

var typeNames = []string{"MsgSendToPalomaClaim", "MsgBatchSendToRemoteClaim", "MsgLightNodeSaleClaim"}

const (
	chainA     = "test-chain"
	chainUpper = "TEST-CHAIN"
	erc20A     = "0x0bc529c00C6401aEF6D220BE8C6Ea1667F6Ad93e"
	saleAddrA  = "0x5A1e000000000000000000000000000000005a1E"
)

// spec is a type-independent description of a claim body; unused fields are ignored by build.
type spec struct {
	T           int
	EventNonce  uint64
	Height      uint64
	SkywayNonce uint64
	BatchNonce  uint64
	Token       string
	Sender      string
	Receiver    string
	Compass     string
	Client      string
	Contract    string
	Chain       string
	Amount      *big.Int // nil = zero-value math.Int (renders "<nil>")
	Orch        int      // validator index 0..4
}

func (s spec) clone() spec {
	c := s
	if s.Amount != nil {
		c.Amount = new(big.Int).Set(s.Amount)
	}
	return c
}

func amt(a *big.Int) sdkmath.Int {
	if a == nil {
		return sdkmath.Int{}
	}
	return sdkmath.NewIntFromBigInt(a)
}

func build(s spec) types.EthereumClaim {
	orch := keeper.AccAddrs[s.Orch].String()
	md := valsettypes.MsgMetadata{Creator: orch, Signers: []string{orch}}
	switch s.T {
	case tDeposit:
		return &types.MsgSendToPalomaClaim{EventNonce: s.EventNonce, EthBlockHeight: s.Height, TokenContract: s.Token,
			Amount: amt(s.Amount), EthereumSender: s.Sender, PalomaReceiver: s.Receiver, Orchestrator: orch,
			ChainReferenceId: s.Chain, Metadata: md, SkywayNonce: s.SkywayNonce, CompassId: s.Compass}
	case tBatch:
		return &types.MsgBatchSendToRemoteClaim{EventNonce: s.EventNonce, EthBlockHeight: s.Height, BatchNonce: s.BatchNonce,
			TokenContract: s.Token, ChainReferenceId: s.Chain, Orchestrator: orch, Metadata: md, SkywayNonce: s.SkywayNonce,
			CompassId: s.Compass}
	case tLegacy:
		return &types.MsgBatchSendToEthClaim{EventNonce: s.EventNonce, EthBlockHeight: s.Height, BatchNonce: s.BatchNonce, TokenContract: s.Token,
			ChainReferenceId: s.Chain, Orchestrator: orch, Metadata: md, SkywayNonce: s.SkywayNonce}
	default:
		return &types.MsgLightNodeSaleClaim{Metadata: md, EventNonce: s.EventNonce, EthBlockHeight: s.Height, Orchestrator: orch,
			ChainReferenceId: s.Chain, SkywayNonce: s.SkywayNonce, ClientAddress: s.Client, Amount: amt(s.Amount),
			SmartContractAddress: s.Contract, CompassId: s.Compass}
	}
}

// fieldsOf lists (name, kind, value) of every struct field of a real claim by reflection — this is the
// harness's own, model-independent view of a claim body. kind: "num" | "str" | "amt" | "meta".
type fld struct {
	Name string
	Kind string
	Num  uint64
	Str  string
	Amt  *big.Int
}

func fieldsOf(c types.EthereumClaim) []fld {
	v := reflect.ValueOf(c).Elem()
	tp := v.Type()
	var out []fld
	for i := 0; i < tp.NumField(); i++ {
		f := tp.Field(i)
		fv := v.Field(i)
		switch x := fv.Interface().(type) {
		case uint64:
			out = append(out, fld{Name: f.Name, Kind: "num", Num: x})
		case string:
			out = append(out, fld{Name: f.Name, Kind: "str", Str: x})
		case sdkmath.Int:
			var b *big.Int
			if !x.IsNil() {
				b = x.BigInt()
			}
			out = append(out, fld{Name: f.Name, Kind: "amt", Amt: b})
		default:
			out = append(out, fld{Name: f.Name, Kind: "meta"})
		}
	}
	return out
}

// wireCopy returns the claim as it reads back after one protobuf marshal/unmarshal round trip.
func wireCopy(c types.EthereumClaim) types.EthereumClaim {
	bz, err := proto.Marshal(c.(proto.Message))
	if err != nil {
		panic(err)
	}
	n := reflect.New(reflect.TypeOf(c).Elem()).Interface().(proto.Message)
	if err := proto.Unmarshal(bz, n); err != nil {
		panic(err)
	}
	return n.(types.EthereumClaim)
}

func typeName(c types.EthereumClaim) string { return reflect.TypeOf(c).Elem().Name() }

// notEffect: the fields the property exempts (voter identity, transaction metadata, and the event
// nonce, which no keeper code reads).
var notEffect = map[string]bool{"Orchestrator": true, "Metadata": true, "EventNonce": true}

// effectDiff returns the names of effect-bearing fields on which two real claim bodies differ
// ("<type>" when they are of different claim types).
func effectDiff(a, b types.EthereumClaim) []string {
	if typeName(a) != typeName(b) {
		return []string{"<type>"}
	}
	fa, fb := fieldsOf(a), fieldsOf(b)
	var out []string
	for i := range fa {
		if notEffect[fa[i].Name] || fa[i].Kind == "meta" {
			continue
		}
		same := fa[i].Num == fb[i].Num && fa[i].Str == fb[i].Str
		if fa[i].Kind == "amt" {
			same = (fa[i].Amt == nil) == (fb[i].Amt == nil) && (fa[i].Amt == nil || fa[i].Amt.Cmp(fb[i].Amt) == 0)
		}
		if !same {
			out = append(out, fa[i].Name)
		}
	}
	return out
}

// diffValues prints the values a has in the effect-bearing fields on which a and b differ.
func diffValues(a, b types.EthereumClaim) string {
	if typeName(a) != typeName(b) {
		return typeName(a)
	}
	var out []string
	d := map[string]bool{}
	for _, n := range effectDiff(a, b) {
		d[n] = true
	}
	for _, f := range fieldsOf(a) {
		if d[f.Name] {
			switch f.Kind {
			case "num":
				out = append(out, fmt.Sprintf("%s=%d", f.Name, f.Num))
			case "str":
				out = append(out, fmt.Sprintf("%s=%q", f.Name, f.Str))
			default:
				out = append(out, fmt.Sprintf("%s=%v", f.Name, f.Amt))
			}
		}
	}
	return strings.Join(out, ",")
}

// cleanClaim: no '/' (and, for the repaired encoding, no '%') in any string field that is hashed —
// what every claim produced by the reference relayer satisfies.
func cleanClaim(c types.EthereumClaim) bool {
	for _, f := range fieldsOf(c) {
		if f.Kind == "str" && !notEffect[f.Name] && f.Name != "ChainReferenceId" && strings.ContainsAny(f.Str, "/") {
			return false
		}
	}
	return true
}

// ---- environment ----

type fakePaloma struct{ calls *[]string }

func (f fakePaloma) CreateSaleLightNodeClientLicense(_ context.Context, client string, amount sdkmath.Int) error {
	a := "<nil>"
	if !amount.IsNil() {
		a = amount.String()
	}
	*f.calls = append(*f.calls, client+"|"+a)
	if client == "" {
		return fmt.Errorf("empty client")
	}
	return nil
}

type env struct {
	in    keeper.TestInput
	ctx   sdk.Context
	k     keeper.Keeper
	ms    types.MsgServer
	calls *[]string
}

// fork gives a copy of the environment on a cache context that is never written back, so every history starts
// from the same fresh state without rebuilding the keepers.
func (e *env) fork() *env {
	c, _ := e.ctx.CacheContext()
	f := *e
	f.ctx = c
	return &f
}

func newEnv(t *testing.T, withBatch bool) *env {
	in, c := keeper.SetupFiveValChain(t)
	ctx := sdk.UnwrapSDKContext(c)
	calls := &[]string{}
	in.SkywayKeeper.VerifC11SetPalomaKeeper(fakePaloma{calls})
	if err := in.SkywayKeeper.SetAllLighNodeSaleContracts(ctx, []*types.LightNodeSaleContract{{ChainReferenceId: chainA, ContractAddress: saleAddrA}}); err != nil {
		t.Fatal(err)
	}
	// a second registered chain whose reference id differs from the first one's only in letter case
	if err := in.EvmKeeper.AddSupportForNewChain(ctx, chainUpper, 77, 123, "0x1234", big.NewInt(55)); err != nil {
		t.Logf("cannot register %s: %v", chainUpper, err)
	}
	if withBatch {
		// one outgoing batch (nonce 1, token erc20A) so that applying a batch claim has an observable effect
		tok, err := types.NewInternalERC20Token(sdkmath.NewInt(5000), erc20A, chainA)
		if err != nil {
			t.Fatal(err)
		}
		keeper.MintVouchersFromAir(t, ctx, in.SkywayKeeper, keeper.AccAddrs[0], *tok)
		recv, _ := types.NewEthAddress("0x00000000000000000000000000000000000000Cc")
		if _, err := in.SkywayKeeper.AddToOutgoingPool(ctx, keeper.AccAddrs[0], *recv, sdk.NewCoin("ugrain", sdkmath.NewInt(3000)), chainA); err != nil {
			t.Fatal(err)
		}
		ctr, _ := types.NewEthAddress(erc20A)
		b, err := in.SkywayKeeper.BuildOutgoingTXBatch(ctx, chainA, *ctr, 10)
		if err != nil || b == nil {
			t.Fatalf("cannot build batch: %v", err)
		}
		batchNonce, batchTimeout = b.BatchNonce, b.BatchTimeout
	}
	return &env{in: in, ctx: ctx, k: in.SkywayKeeper, ms: keeper.NewMsgServerImpl(in.SkywayKeeper), calls: calls}
}

var batchNonce, batchTimeout uint64

// submit sends the claim through the real msg server (checkOrchestratorValidatorInSet, additionalPatchChecks,
// claimHandlerCommon -> Attest). Returns "ok", "err" or "panic".
func (e *env) submit(c types.EthereumClaim) (res string, detail string) {
	defer func() {
		if r := recover(); r != nil {
			res, detail = "panic", fmt.Sprint(r)
		}
	}()
	var err error
	switch m := c.(type) {
	case *types.MsgSendToPalomaClaim:
		_, err = e.ms.SendToPalomaClaim(e.ctx, m)
	case *types.MsgBatchSendToRemoteClaim:
		_, err = e.ms.BatchSendToRemoteClaim(e.ctx, m)
	case *types.MsgLightNodeSaleClaim:
		_, err = e.ms.LightNodeSaleClaim(e.ctx, m)
	default:
		return "err", "no msg-server route for " + typeName(c)
	}
	if err != nil {
		return "err", err.Error()
	}
	return "ok", ""
}

type attRec struct {
	Key   []byte // full raw-store key
	Chain string
	Votes []int
	Body  types.EthereumClaim
	Obs   bool
}

func valIndex(bech string) int {
	for i, v := range keeper.ValAddrs {
		if v.String() == bech {
			return i
		}
	}
	return -1
}

// attestations reads back, from the raw module store, every attestation under any of the given chains.
func (e *env) attestations(chains []string) []attRec {
	st := e.k.VerifC11RawStore(e.ctx)
	it := st.Iterator(nil, nil)
	defer it.Close()
	var out []attRec
	for ; it.Valid(); it.Next() {
		k := it.Key()
		for _, ch := range chains {
			pre := append([]byte(ch), types.OracleAttestationKey...)
			if bytes.HasPrefix(k, pre) && len(k) >= len(pre)+8 {
				var att types.Attestation
				if err := e.in.Marshaler.Unmarshal(it.Value(), &att); err != nil {
					continue
				}
				body, err := e.k.UnpackAttestationClaim(&att)
				if err != nil {
					continue
				}
				r := attRec{Key: append([]byte{}, k...), Chain: ch, Body: body, Obs: att.Observed}
				for _, v := range att.Votes {
					r.Votes = append(r.Votes, valIndex(v))
				}
				out = append(out, r)
				break
			}
		}
	}
	sort.Slice(out, func(i, j int) bool { return bytes.Compare(out[i].Key, out[j].Key) < 0 })
	return out
}

// realKey is the raw-store key the keeper uses for a claim.
func realKey(c types.EthereumClaim) []byte {
	h, panicked := safeHash(c)
	if panicked {
		hashPanics++
		return []byte(fmt.Sprintf("ClaimHash panicked #%d", hashPanics)) // equal to no other key
	}
	return append([]byte(c.GetChainReferenceId()), types.GetAttestationKey(c.GetSkywayNonce(), h)...)
}

var hashPanics int

// safeHash: ClaimHash with a panic turned into a flag (a claim whose hash cannot be computed must be reported, not
// crash the harness).
func safeHash(c types.EthereumClaim) (h []byte, panicked bool) {
	defer func() {
		if r := recover(); r != nil {
			h, panicked = nil, true
		}
	}()
	h, err := c.ClaimHash()
	if err != nil {
		return nil, true
	}
	return h, false
}

// applyDigest applies a claim body through the real attestation handler in a cache context that is
// discarded, and returns a projected digest of what happened (error class, balance deltas of the
// receiver / community pool / module, supply delta, licence calls).
func (e *env) applyDigest(c types.EthereumClaim) (dig string) {
	ctx, _ := e.ctx.CacheContext()
	*e.calls = (*e.calls)[:0]
	defer func() {
		if r := recover(); r != nil {
			dig = "panic"
		}
	}()
	bal := func(cx sdk.Context) string {
		var parts []string
		parts = append(parts, "supply="+e.in.BankKeeper.GetSupply(cx, "ugrain").Amount.String())
		if bs, err := e.k.GetOutgoingTxBatches(cx); err == nil {
			parts = append(parts, fmt.Sprintf("batches=%d", len(bs)))
		}
		parts = append(parts, "pool="+e.in.BankKeeper.GetBalance(cx, e.in.AccountKeeper.GetModuleAddress(distrtypes.ModuleName), "ugrain").Amount.String())
		if d, ok := c.(*types.MsgSendToPalomaClaim); ok {
			if addr, err := types.IBCAddressFromBech32(d.PalomaReceiver); err == nil {
				parts = append(parts, "recv="+e.in.BankKeeper.GetBalance(cx, addr, "ugrain").Amount.String())
			}
		}
		return strings.Join(parts, ",")
	}
	before := bal(ctx)
	any, err := codectypes.NewAnyWithValue(c.(proto.Message))
	if err != nil {
		return "pack-error"
	}
	herr := e.k.AttestationHandler.Handle(ctx, types.Attestation{Claim: any}, c)
	cls := "ok"
	if herr != nil {
		cls = "err"
	}
	after := bal(ctx)
	return fmt.Sprintf("%s|%s->%s|lic=%v", cls, before, after, *e.calls) + "|tally:" + e.tallyDigest(c)
}

// storeImage: every key of the module's raw store outside the attestation entries, with a hash of its value.
func (e *env) storeImage(ctx sdk.Context) map[string]string {
	st := e.k.VerifC11RawStore(ctx)
	it := st.Iterator(nil, nil)
	defer it.Close()
	out := map[string]string{}
	for ; it.Valid(); it.Next() {
		k := it.Key()
		if bytes.Contains(k, types.OracleAttestationKey) {
			continue // attestation entries hold the body itself (with the voter's identity)
		}
		out[string(k)] = fmt.Sprintf("%x", tmhash.Sum(it.Value()))[:12]
	}
	return out
}

// tallyDigest applies the body the way the end blocker does once it has the votes — the real TryAttestation on an
// attestation holding the body with the votes of all five validators, in a discarded cache context — and projects
// EVERY chain-level effect: the oracle cursor (last observed skyway nonce, last observed remote height), bank supply /
// receiver / community pool, licence calls, and every other key of the module store that was written or deleted.
func (e *env) tallyDigest(c types.EthereumClaim) (dig string) {
	ctx, _ := e.ctx.CacheContext()
	*e.calls = (*e.calls)[:0]
	defer func() {
		if r := recover(); r != nil {
			dig = "panic"
		}
	}()
	chain := c.GetChainReferenceId()
	any, err := codectypes.NewAnyWithValue(c.(proto.Message))
	if err != nil {
		return "pack-error"
	}
	att := &types.Attestation{Claim: any, Height: uint64(ctx.BlockHeight())}
	for _, v := range keeper.ValAddrs {
		att.Votes = append(att.Votes, v.String())
	}
	img0 := e.storeImage(ctx)
	supply0 := e.in.BankKeeper.GetSupply(ctx, "ugrain").Amount
	pool0 := e.in.BankKeeper.GetBalance(ctx, e.in.AccountKeeper.GetModuleAddress(distrtypes.ModuleName), "ugrain").Amount
	terr := e.k.TryAttestation(ctx, att)
	cls := "ok"
	if terr != nil {
		cls = "err"
	}
	last, _ := e.k.GetLastObservedSkywayNonce(ctx, chain)
	h := e.k.GetLastObservedEthereumBlockHeight(ctx, chain)
	img1 := e.storeImage(ctx)
	var changed []string
	for k, v := range img1 {
		if img0[k] != v {
			changed = append(changed, fmt.Sprintf("%x=%s", k, v))
		}
	}
	for k := range img0 {
		if _, ok := img1[k]; !ok {
			changed = append(changed, fmt.Sprintf("%x=deleted", k))
		}
	}
	sort.Strings(changed)
	sd := e.in.BankKeeper.GetSupply(ctx, "ugrain").Amount.Sub(supply0)
	pd := e.in.BankKeeper.GetBalance(ctx, e.in.AccountKeeper.GetModuleAddress(distrtypes.ModuleName), "ugrain").Amount.Sub(pool0)
	return fmt.Sprintf("%s,cursor=%d,remote-height=%d,supply%+d,pool%+d,lic=%v,store[%d]=%x", cls, last, h.EthereumBlockHeight, sd.Int64(), pd.Int64(), *e.calls,
		len(changed), tmhash.Sum([]byte(strings.Join(changed, ";")))[:6])
}

// tally runs the end blocker's attestationTally for one chain.
func (e *env) tally(chain string) (err error) {
	defer func() {
		if r := recover(); r != nil {
			err = fmt.Errorf("panic: %v", r)
		}
	}()
	// the end blocker's own attestationTally (hook VerifC02AttestationTally: no behaviour of its own)
	return skyway.VerifC02AttestationTally(e.ctx, e.k, chain)
}

// powerOf: the staking power of the distinct voters of one stored attestation, and the power an attestation must exceed.
func (e *env) powerOf(votes []int) (own, required sdkmath.Int) {
	total, err := e.in.StakingKeeper.GetLastTotalPower(e.ctx)
	if err != nil {
		panic(err)
	}
	required = types.AttestationVotesPowerThreshold.Mul(total).Quo(sdkmath.NewInt(100))
	own = sdkmath.ZeroInt()
	seen := map[int]bool{}
	for _, v := range votes {
		if v < 0 || seen[v] {
			continue
		}
		seen[v] = true
		p, err := e.in.StakingKeeper.GetLastValidatorPower(e.ctx, keeper.ValAddrs[v])
		if err != nil {
			panic(err)
		}
		own = own.Add(sdkmath.NewInt(p))
	}
	return own, required
}

// storeKeyOf: the raw-store key the KEEPER uses for the claim's attestation (written in a discarded cache context and
// found by diffing the raw store) — as opposed to realKey, which is what the key must be.
func (e *env) storeKeyOf(c types.EthereumClaim) []byte {
	h, panicked := safeHash(c)
	if panicked {
		return realKey(c)
	}
	ctx, _ := e.ctx.CacheContext()
	st := e.k.VerifC11RawStore(ctx)
	before := map[string]bool{}
	it := st.Iterator(nil, nil)
	for ; it.Valid(); it.Next() {
		before[string(it.Key())+"\x00"+string(it.Value())] = true
	}
	it.Close()
	e.k.SetAttestation(ctx, c.GetChainReferenceId(), c.GetSkywayNonce(), h, &types.Attestation{Height: 424242424242})
	var out []byte
	it = st.Iterator(nil, nil)
	for ; it.Valid(); it.Next() {
		if !before[string(it.Key())+"\x00"+string(it.Value())] {
			out = append([]byte{}, it.Key()...)
		}
	}
	it.Close()
	return out
}
