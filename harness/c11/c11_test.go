package c11

// C11 correspondence harness + direct oracle.
//
// X: (a) ClaimHash of random claim bodies of all four claim types (clean and hostile text) vs sha256 of the
//        model's rendered path, evaluated inside Coq;
//    (b) raw attestation store keys;
//    (c) pairs of bodies differing in one field / several fields: the real effect of applying each body through the
//        real attestation handler (projected digest) must be equal whenever the model says the effect-bearing fields agree;
//    (d) histories of claim submissions by five validators through the real msg server: per-step result and the
//        attestations read back from the raw store (key bytes, votes, which submission's body is stored) vs the model.
// Oracle (real code only): whenever a vote was counted for an attestation, the stored body must agree with the voter's
// own claim on the claim type and every field other than Orchestrator / Metadata / EventNonce; and two bodies with the
// same real store key must agree likewise.

import (
	"bytes"
	"encoding/hex"
	"encoding/json"
	"fmt"
	"math/big"
	"math/rand"
	"os"
	"path/filepath"
	"reflect"
	"sort"
	"strings"
	"testing"

	sdkmath "cosmossdk.io/math"
	sdk "github.com/cosmos/cosmos-sdk/types"
	"github.com/ethereum/go-ethereum/common"
	"github.com/palomachain/paloma/v2/verifharness/emit"
	"github.com/palomachain/paloma/v2/x/skyway/keeper"
	"github.com/palomachain/paloma/v2/x/skyway/types"
	valsettypes "github.com/palomachain/paloma/v2/x/valset/types"
)

// ---- Coq printing ----

func coqStr(s string) string { return "\"" + strings.ReplaceAll(s, "\"", "\"\"") + "\"%string" }

func coqClaim(c types.EthereumClaim) string {
	var nums, strs, amts []string
	for _, f := range fieldsOf(c) {
		switch f.Kind {
		case "num":
			nums = append(nums, emit.Pair(coqStr(f.Name), emit.ZU(f.Num)))
		case "str":
			strs = append(strs, emit.Pair(coqStr(f.Name), emit.Bytes([]byte(f.Str))))
		case "amt":
			if f.Amt == nil {
				amts = append(amts, emit.Pair(coqStr(f.Name), "None"))
			} else {
				amts = append(amts, emit.Pair(coqStr(f.Name), "(Some "+emit.Z(f.Amt)+")"))
			}
		}
	}
	return fmt.Sprintf("(C11.Cl %s %s %s %s)", coqStr(typeName(c)), emit.List(nums), emit.List(strs), emit.List(amts))
}

// ---- generators ----

var hostileParts = []string{"/", "%", "%2F", "%25", "a/b", "/x", "x/", "//", "%2f", "0x/", "55/66", "", " ", "\x00", "é/ü", "%%", "/%2F/"}

func hexAddr(r *rand.Rand) string {
	b := make([]byte, 20)
	r.Read(b)
	s := hex.EncodeToString(b)
	switch r.Intn(4) {
	case 0:
		return "0x" + strings.ToUpper(s)
	case 1:
		return s // ValidateEthAddress accepts a missing 0x prefix
	}
	return "0x" + s
}

func randText(r *rand.Rand, honest string) string {
	switch r.Intn(6) {
	case 0:
		return honest
	case 1:
		return honest + hostileParts[r.Intn(len(hostileParts))]
	case 2:
		return hostileParts[r.Intn(len(hostileParts))] + honest
	case 3:
		n := r.Intn(4)
		var sb strings.Builder
		for i := 0; i < n; i++ {
			sb.WriteString(hostileParts[r.Intn(len(hostileParts))])
			sb.WriteString(fmt.Sprint(r.Intn(100)))
		}
		return sb.String()
	case 4:
		b := make([]byte, r.Intn(12))
		r.Read(b)
		return string(b)
	}
	return honest
}

func randAmount(r *rand.Rand) *big.Int {
	switch r.Intn(8) {
	case 0:
		return nil
	case 1:
		return big.NewInt(0)
	case 2:
		return new(big.Int).Neg(emit.BigUpTo(r, 70))
	}
	return emit.BigUpTo(r, 255)
}

func honestSpec(r *rand.Rand, t int, nonce uint64) spec {
	s := spec{T: t, EventNonce: 1 + uint64(r.Intn(50)), Height: 1 + uint64(r.Intn(1_000_000)), SkywayNonce: nonce, BatchNonce: 1 + uint64(r.Intn(5)),
		Token: erc20A, Sender: hexAddr(r), Receiver: sdk.AccAddress(keeper.AccAddrs[r.Intn(5)]).String(), Compass: fmt.Sprint(50 + r.Intn(10)),
		Client: sdk.AccAddress(keeper.AccAddrs[r.Intn(5)]).String(), Contract: saleAddrA, Chain: chainA, Amount: big.NewInt(int64(1 + r.Intn(100000)))}
	if r.Intn(4) == 0 {
		s.Token = hexAddr(r)
	}
	if r.Intn(6) == 0 {
		s.Amount = emit.BigUpTo(r, 255)
	}
	if r.Intn(5) == 0 {
		s.Compass = "" // a deployment without a compass id on record (none is recorded in the harness environment)
	}
	return s
}

// randomSpec: any field may be hostile (token / sender stay syntactically valid so that ValidateBasic passes when
// valid is true).
func randomSpec(r *rand.Rand, t int, nonce uint64, valid bool) spec {
	s := honestSpec(r, t, nonce)
	s.Receiver = randText(r, s.Receiver)
	s.Compass = randText(r, s.Compass)
	s.Client = randText(r, s.Client)
	s.Contract = randText(r, s.Contract)
	s.Amount = randAmount(r)
	if r.Intn(3) == 0 {
		s.Height = emit.U64(r)
	}
	if r.Intn(5) == 0 {
		s.BatchNonce = 1 + emit.U64(r)%(1<<63)
	}
	if !valid {
		s.Token = randText(r, s.Token)
		s.Sender = randText(r, s.Sender)
		if r.Intn(3) == 0 {
			s.SkywayNonce = emit.U64(r)
		}
		if r.Intn(3) == 0 {
			s.Chain = randText(r, s.Chain)
		}
	}
	return s
}

// mutateField changes exactly one field of the spec (by name of the real struct field); returns false if the type has no such field.
func mutateField(r *rand.Rand, s *spec, name string) bool {
	alt := func(old string, honest string) string {
		for i := 0; i < 10; i++ {
			n := randText(r, honest)
			if n != old {
				return n
			}
		}
		return old + "x"
	}
	has := map[int]map[string]bool{
		tDeposit: {"EventNonce": true, "EthBlockHeight": true, "TokenContract": true, "Amount": true, "EthereumSender": true, "PalomaReceiver": true, "Orchestrator": true, "ChainReferenceId": true, "SkywayNonce": true, "CompassId": true},
		tBatch:   {"EventNonce": true, "EthBlockHeight": true, "BatchNonce": true, "TokenContract": true, "Orchestrator": true, "ChainReferenceId": true, "SkywayNonce": true, "CompassId": true},
		tSale:    {"EventNonce": true, "EthBlockHeight": true, "Orchestrator": true, "ChainReferenceId": true, "SkywayNonce": true, "ClientAddress": true, "Amount": true, "SmartContractAddress": true, "CompassId": true},
	}
	if !has[s.T][name] {
		return false
	}
	switch name {
	case "EventNonce":
		s.EventNonce += 1 + uint64(r.Intn(3))
	case "EthBlockHeight":
		s.Height += numStep(r)
	case "BatchNonce":
		s.BatchNonce += numStep(r)
	case "SkywayNonce":
		s.SkywayNonce += 1 + uint64(r.Intn(3))
	case "TokenContract":
		s.Token = hexAddr(r)
	case "EthereumSender":
		s.Sender = hexAddr(r)
	case "PalomaReceiver":
		s.Receiver = alt(s.Receiver, sdk.AccAddress(keeper.AccAddrs[r.Intn(5)]).String())
	case "CompassId":
		s.Compass = alt(s.Compass, fmt.Sprint(60+r.Intn(10)))
	case "ClientAddress":
		s.Client = alt(s.Client, sdk.AccAddress(keeper.AccAddrs[r.Intn(5)]).String())
	case "SmartContractAddress":
		s.Contract = alt(s.Contract, hexAddr(r))
	case "ChainReferenceId":
		if r.Intn(3) == 0 {
			s.Chain = s.Chain + "-b"
		} else {
			old := s.Chain
			for i := 0; s.Chain == old && i < 10; i++ {
				s.Chain = chainSpelling(r, old)
			}
		}
	case "Orchestrator":
		s.Orch = (s.Orch + 1 + r.Intn(4)) % 5
	case "Amount":
		if s.Amount == nil {
			s.Amount = big.NewInt(int64(r.Intn(10)))
		} else if r.Intn(5) == 0 {
			s.Amount = nil
		} else if x, ok := amountAlias(r, s.Amount, aliasKinds[r.Intn(len(aliasKinds))]); ok && r.Intn(2) == 0 {
			s.Amount = x
		} else {
			s.Amount = new(big.Int).Add(s.Amount, big.NewInt(int64(1+r.Intn(3))))
		}
	}
	return true
}

var fieldNames = []string{"EventNonce", "EthBlockHeight", "BatchNonce", "TokenContract", "Amount", "EthereumSender", "PalomaReceiver",
	"Orchestrator", "ChainReferenceId", "SkywayNonce", "CompassId", "ClientAddress", "SmartContractAddress"}

// renderedItems re-renders the path items of a body the way the ORIGINAL (unescaped) encoding did; only used to build
// attacker bodies that try to shift field boundaries (the oracle never uses it).
func rawItems(s spec) []string {
	a := "<nil>"
	if s.Amount != nil {
		a = s.Amount.String()
	}
	switch s.T {
	case tDeposit:
		return []string{s.Token, a, s.Sender, s.Receiver, s.Compass}
	case tBatch:
		return []string{fmt.Sprint(s.BatchNonce), s.Token, s.Compass}
	}
	return []string{s.Client, a, s.Contract, s.Compass}
}

// confuse builds an attacker body that tries to make its path equal to the victim's by moving '/' into text fields:
// within the same type (shift between adjacent text fields) or across types (fewer items, the tail absorbed by the
// last text field).  ok=false if no such body exists for this victim.
func confuse(r *rand.Rand, v spec) (spec, string, bool) {
	if v.T != tDeposit {
		return v, "", false
	}
	it := rawItems(v)
	if r.Intn(2) == 0 { // sale path with 5 items (encoding before the contract address was hashed)
		x := spec{T: tSale, EventNonce: v.EventNonce, Height: v.Height, SkywayNonce: v.SkywayNonce, Chain: v.Chain, Orch: 4,
			Client: it[0], Amount: v.Amount, Contract: saleAddrA, Compass: strings.Join(it[2:], "/")}
		return x, "deposit->sale5", true
	}
	x := spec{T: tSale, EventNonce: v.EventNonce, Height: v.Height, SkywayNonce: v.SkywayNonce, Chain: v.Chain, Orch: 4,
		Client: it[0], Amount: v.Amount, Contract: it[2], Compass: strings.Join(it[3:], "/")}
	return x, "deposit->sale6", true
}

// slashPair: two NON-clean bodies of the same type whose unescaped paths coincide (F8b shape).
func slashPair(r *rand.Rand, t int, nonce uint64) (spec, spec) {
	a := honestSpec(r, t, nonce)
	b := a.clone()
	x, y, z := fmt.Sprint("a", r.Intn(9)), fmt.Sprint("b", r.Intn(9)), fmt.Sprint("c", r.Intn(9))
	switch t {
	case tDeposit:
		a.Receiver, a.Compass = x+"/"+y, z
		b.Receiver, b.Compass = x, y+"/"+z
	case tBatch: // a batch claim has a single free-text field: no boundary to shift
		b.EventNonce++
	default:
		a.Contract, a.Compass = x+"/"+y, z
		b.Contract, b.Compass = x, y+"/"+z
	}
	return a, b
}

// aliasPair: one body has a '/' in a text field, the other has the escaped spelling of it in the same place (or a
// partially escaped one) — equal paths if the escaping were not itself injective.
func aliasPair(r *rand.Rand, t int, nonce uint64) (spec, spec) {
	a := honestSpec(r, t, nonce)
	b := a.clone()
	x := fmt.Sprint("p", r.Intn(9), "/", r.Intn(9), "%q")
	var y string
	switch r.Intn(3) {
	case 0:
		y = strings.ReplaceAll(x, "/", "%2F")
	case 1:
		y = strings.ReplaceAll(x, "%", "%25")
	default:
		y = strings.ReplaceAll(strings.ReplaceAll(x, "%", "%25"), "/", "%2F")
	}
	a.Compass, b.Compass = x, y
	if t != tBatch && r.Intn(2) == 0 {
		a.Compass, b.Compass = "55", "55"
		a.Receiver, b.Receiver = x, y
		a.Client, b.Client = x, y
	}
	return a, b
}

// nearMiss returns a spelling of s that a lenient parser might take for s: surrounding white space, case changes
// (bech32 / hex), missing or upper-case 0x, EIP-55 checksum spelling, unicode look-alikes, invisible characters.
func nearMiss(r *rand.Rand, s string) string {
	isHex := strings.HasPrefix(strings.ToLower(s), "0x") && len(s) == 42
	for try := 0; try < 20; try++ {
		var o string
		switch r.Intn(14) {
		case 0:
			o = " " + s
		case 1:
			o = s + " "
		case 2:
			o = "\t" + s
		case 3:
			o = s + "\n"
		case 4:
			o = " " + s + "  "
		case 5:
			o = "\u00a0" + s // no-break space (unicode white space)
		case 6:
			o = strings.ToUpper(s)
		case 7:
			o = strings.ToLower(s)
		case 8:
			if isHex {
				o = common.HexToAddress(s).Hex() // EIP-55
			} else {
				o = " " + strings.ToUpper(s)
			}
		case 9:
			if isHex {
				o = s[2:]
			} else {
				o = strings.ToUpper(s) + " "
			}
		case 10:
			if isHex {
				o = "0x" + strings.ToUpper(s[2:])
			} else {
				o = s + "\u200b" // zero width space
			}
		case 11:
			o = strings.Replace(s, "a", "\u0430", 1) // cyrillic a
		case 12:
			o = strings.Replace(s, "e", "\u0435", 1) // cyrillic e
		default:
			if isHex {
				o = "0x" + strings.ToLower(s[2:])
			} else {
				o = strings.Replace(s, "1", "\uff11", 1) // fullwidth 1
			}
		}
		if o != s {
			return o
		}
	}
	return s + " "
}

// nearMissSpec changes one text field of the victim into a near-miss spelling.
func nearMissSpec(r *rand.Rand, v spec) (spec, string) {
	a := v.clone()
	a.Orch = 4
	var names []string
	switch v.T {
	case tDeposit:
		names = []string{"PalomaReceiver", "PalomaReceiver", "PalomaReceiver", "TokenContract", "EthereumSender", "CompassId"}
	case tBatch:
		names = []string{"TokenContract", "TokenContract", "CompassId"}
	default:
		names = []string{"ClientAddress", "ClientAddress", "SmartContractAddress", "SmartContractAddress", "CompassId"}
	}
	fn := names[r.Intn(len(names))]
	switch fn {
	case "PalomaReceiver":
		a.Receiver = nearMiss(r, v.Receiver)
	case "TokenContract":
		a.Token = nearMiss(r, v.Token)
	case "EthereumSender":
		a.Sender = nearMiss(r, v.Sender)
	case "CompassId":
		a.Compass = nearMiss(r, v.Compass)
	case "ClientAddress":
		a.Client = nearMiss(r, v.Client)
	case "SmartContractAddress":
		a.Contract = nearMiss(r, v.Contract)
	}
	return a, fn
}

type corpusEntry struct {
	Name     string `json:"name"`
	Victim   jspec  `json:"victim"`
	Attacker jspec  `json:"attacker"`
}
type jspec struct {
	T                                                         int
	EventNonce, Height, SkywayNonce, BatchNonce               uint64
	Token, Sender, Receiver, Compass, Client, Contract, Chain string
	Amount                                                    *string
	Orch                                                      int
}

func (j jspec) spec() spec {
	s := spec{T: j.T, EventNonce: j.EventNonce, Height: j.Height, SkywayNonce: j.SkywayNonce, BatchNonce: j.BatchNonce, Token: j.Token, Sender: j.Sender,
		Receiver: j.Receiver, Compass: j.Compass, Client: j.Client, Contract: j.Contract, Chain: j.Chain, Orch: j.Orch}
	if j.Amount != nil {
		s.Amount, _ = new(big.Int).SetString(*j.Amount, 10)
	}
	return s
}
func toJ(s spec) jspec {
	j := jspec{T: s.T, EventNonce: s.EventNonce, Height: s.Height, SkywayNonce: s.SkywayNonce, BatchNonce: s.BatchNonce, Token: s.Token, Sender: s.Sender,
		Receiver: s.Receiver, Compass: s.Compass, Client: s.Client, Contract: s.Contract, Chain: s.Chain, Orch: s.Orch}
	if s.Amount != nil {
		a := s.Amount.String()
		j.Amount = &a
	}
	return j
}

// exemptNonces: event nonces for bodies that differ only in the exempted field
var exemptNonces = []uint64{2, 1_000_000, 1 << 32, 1 << 63, ^uint64(0)}

// allDiff: every struct field (exempted ones included) on which two bodies of one type differ.
func allDiff(a, b types.EthereumClaim) []string {
	if typeName(a) != typeName(b) {
		return []string{"<type>"}
	}
	fa, fb := fieldsOf(a), fieldsOf(b)
	var out []string
	for i := range fa {
		switch fa[i].Kind {
		case "meta":
			if fmt.Sprint(reflect.ValueOf(a).Elem().Field(i).Interface()) != fmt.Sprint(reflect.ValueOf(b).Elem().Field(i).Interface()) {
				out = append(out, fa[i].Name)
			}
		case "amt":
			if (fa[i].Amt == nil) != (fb[i].Amt == nil) || (fa[i].Amt != nil && fa[i].Amt.Cmp(fb[i].Amt) != 0) {
				out = append(out, fa[i].Name)
			}
		default:
			if fa[i].Num != fb[i].Num || fa[i].Str != fb[i].Str {
				out = append(out, fa[i].Name)
			}
		}
	}
	return out
}

// ---- oracle ----

func violationID(stored, voted types.EthereumClaim) (string, string) {
	d := effectDiff(stored, voted)
	if len(d) == 0 {
		return "", ""
	}
	clean := cleanClaim(voted)
	tag := "honest-vote"
	if !clean {
		tag = "non-clean-vote"
	}
	if d[0] == "<type>" {
		return "C11:pooled-cross-type:" + typeName(voted) + "->" + typeName(stored) + ":" + tag, tag
	}
	return "C11:pooled-differs:" + typeName(voted) + "." + strings.Join(d, "+") + ":" + tag, tag
}

// voteOracle: the direct oracle on the real store after an ACCEPTED submission of claim c (pristine wire copy) by
// validator orch: exactly one attestation gained a vote; its stored body, read back from the raw store, agrees with
// the submitted claim on type and every effect-bearing field and through the handler digest; its key is the key of
// the stored body and of the submitted claim.
func voteOracle(run *emit.Run, e *env, name string, orch int, c types.EthereumClaim, before, after map[string]attRec, replay any) {
	s := struct{ Orch int }{orch}
	// Which attestation (read back from the raw store) received this vote?
	var hit []attRec
	for k, a := range after {
		if len(a.Votes) > len(before[k].Votes) {
			hit = append(hit, a)
		}
	}
	if len(hit) != 1 {
		run.Violate("C11:vote-not-stored", fmt.Sprintf("%s: accepted claim of validator %d changed the votes of %d attestations (expected exactly 1)", name, s.Orch, len(hit)), replay)
		return
	}
	a := hit[0]
	// (1) the STORED body, byte for byte, against the claim the voter SUBMITTED
	if id, _ := violationID(a.Body, c); id != "" {
		run.Violate(id, fmt.Sprintf("%s: vote of validator %d for %s was counted for a stored %s body that differs in %v (submitted %q / stored %q); applying the voter's body: %q, applying the stored body: %q",
			name, s.Orch, typeName(c), typeName(a.Body), effectDiff(a.Body, c), diffValues(c, a.Body), diffValues(a.Body, c), e.applyDigest(c), e.applyDigest(a.Body)), replay)
	} else if d1, d2 := e.applyDigest(c), e.applyDigest(a.Body); d1 != d2 {
		run.Violate("C11:pooled-digest-differs:"+typeName(c), fmt.Sprintf("%s: applying the voter's body gives %q, applying the stored body gives %q", name, d1, d2), replay)
	}
	// (2) the store key is the key of the stored body and of the submitted claim
	if !bytes.Equal(a.Key, realKey(a.Body)) {
		run.Violate("C11:key-not-of-stored-body:"+typeName(a.Body), fmt.Sprintf("%s: attestation stored under key %x but the body read back from the store has key %x (stored body %v)",
			name, a.Key, realKey(a.Body), a.Body), replay)
	}
	if !bytes.Equal(a.Key, realKey(c)) {
		run.Violate("C11:key-not-of-submitted-claim:"+typeName(c), fmt.Sprintf("%s: vote of validator %d went to key %x but the submitted claim has key %x", name, s.Orch, a.Key, realKey(c)), replay)
	}
}

func TestCorr(t *testing.T) {
	run := emit.Start("C11", 600)
	r := run.Rng
	search := os.Getenv("VERIF_SEARCH") != ""
	run.Rule("seeded; kinds: hash (ClaimHash of random bodies of the 4 claim types incl. legacy, text fields clean or hostile: '/', '%', '%2F', " +
		"empty, binary; amounts nil/negative/up to 2^255; uint64 boundary values), key (raw attestation store key for random chain ids), " +
		"effect (pairs differing in exactly one named field — every field of every live type each run — or in several; both bodies applied through the " +
		"real attestation handler in a discarded cache context, digests compared), hist (5 validators submit through the real msg server: an attacker body " +
		"first / in the middle — identical, one-field variant, boundary-shifting '/' variant, cross-type confusion — honest bodies, a second nonce, " +
		"out-of-order and duplicate submissions; attestations read back from the raw store after every step). " +
		"non-trivial = hostile text in a hashed field, or a pair that differs in an effect-bearing field, or a history with both an accepted and a rejected submission")

	envH := newEnv(t, false)
	K := append([]byte{}, types.OracleAttestationKey...)

	// every implementation registered for the claim interface (what an Any in a stored attestation can be unpacked to)
	// must be a claim type this harness can build
	for _, url := range envH.in.Marshaler.InterfaceRegistry().ListImplementations("palomachain.paloma.skyway.EthereumClaim") {
		m, err := envH.in.Marshaler.InterfaceRegistry().Resolve(url)
		if err != nil {
			t.Fatalf("cannot resolve registered claim implementation %s: %v", url, err)
		}
		c, ok := m.(types.EthereumClaim)
		if !ok {
			t.Fatalf("registered claim implementation %s is not an EthereumClaim", url)
		}
		known := typeName(c) == "MsgBatchSendToEthClaim"
		for _, n := range typeNames {
			known = known || n == typeName(c)
		}
		if !known {
			t.Fatalf("claim type %s (%s) is registered for the EthereumClaim interface but unknown to the C11 harness: add it to build(), the generators and Claims.known_claim_types", typeName(c), url)
		}
		run.Count("registered-claim-type", typeName(c))
	}

	// ---------- pair oracle + effect case ----------
	envE := newEnv(t, true)
	doPair := func(c1, c2 types.EthereumClaim, kind string, replay any) {
		k1, k2 := envE.storeKeyOf(c1), envE.storeKeyOf(c2)
		for _, cc := range []types.EthereumClaim{c1, c2} {
			if sk, want := envE.storeKeyOf(cc), realKey(cc); !bytes.Equal(sk, want) && hashPanics == 0 {
				run.Violate("C11:store-key-not-exact-chain:"+typeName(cc), fmt.Sprintf("the keeper stores the attestation of a %s claim about chain %q under key %x; the partition by EXACT chain reference id requires %x",
					typeName(cc), cc.GetChainReferenceId(), sk, want), replay)
			}
		}
		d := effectDiff(c1, c2)
		if bytes.Equal(k1, k2) && len(d) > 0 {
			tag := "clean"
			if !cleanClaim(c1) && !cleanClaim(c2) {
				tag = "both-non-clean"
			}
			id := "C11:same-key-different-effect:" + typeName(c1) + "." + strings.Join(d, "+") + ":" + tag
			if d[0] == "<type>" {
				id = "C11:same-key-cross-type:" + typeName(c1) + "/" + typeName(c2) + ":" + tag
			}
			run.Violate(id, fmt.Sprintf("two claims with the same attestation key differ in %v (%s vs %s, %s): real digests %q vs %q",
				d, typeName(c1), typeName(c2), tag, envE.applyDigest(c1), envE.applyDigest(c2)), replay)
		}
		d1, d2 := envE.applyDigest(c1), envE.applyDigest(c2)
		if bytes.Equal(k1, k2) && d1 != d2 {
			// whatever the field tables say: applying the two bodies (handler and end-blocker tally with a full set of
			// votes) must leave the chain in the same state when they share an attestation key
			dd := allDiff(c1, c2)
			run.Violate("C11:same-key-different-real-effect:"+typeName(c1)+"."+strings.Join(dd, "+"), fmt.Sprintf("two %s claims with the same attestation key that differ only in %v have different effects when applied: %q vs %q",
				typeName(c1), dd, d1, d2), replay)
		}
		run.Count("effect", fmt.Sprintf("%s:real-%v", kind, d1 == d2))
		run.Case(fmt.Sprintf("C11.CEffect %s %s %s", coqClaim(c1), coqClaim(c2), emit.Bool(d1 == d2)), len(d) > 0, nil)
	}

	// ---------- history ----------
	doHist := func(name string, ops []spec, replay any) {
		e := envH.fork()
		var terms []string
		var results []string
		src := map[string]int{}
		okN, errN := 0, 0
		chains := map[string]bool{}
		votesOf := func(chs []string) map[string]attRec {
			m := map[string]attRec{}
			for _, a := range e.attestations(chs) {
				m[string(a.Key)] = a
			}
			return m
		}
		for _, s := range ops {
			// pristine copy of the claim AS SUBMITTED, in its wire-canonical form (one protobuf round trip: the only thing
			// it changes is that a zero-value math.Int amount, which marshals as "0", reads back as 0 — the msg server's
			// NewAnyWithValue does the same to the message before Attest sees it); never handed to the keeper
			c := wireCopy(build(s))
			if err := c.ValidateBasic(); err != nil {
				// baseapp rejects it before delivery (and GetClaimer would panic): not part of the history
				run.Count("hist-step", "invalid-basic")
				continue
			}
			chains[s.Chain] = true
			var chs []string
			for ch := range chains {
				chs = append(chs, ch)
			}
			before := votesOf(chs)
			res, detail := e.submit(build(s))
			run.Count("hist-step", res)
			if res == "panic" {
				run.Violate("C11:submit-panic", "claim submission panicked: "+detail, replay)
			}
			ok := res == "ok"
			if ok {
				okN++
			} else {
				errN++
			}
			idx := len(terms)
			results = append(results, emit.Bool(ok))
			terms = append(terms, emit.Pair(emit.ZI(int64(s.Orch)), coqClaim(c)))
			after := votesOf(chs)
			for k := range after {
				if _, seen := src[k]; !seen {
					src[k] = idx
				}
			}
			if !ok {
				continue
			}
			voteOracle(run, e, name, s.Orch, c, before, after, replay)
		}
		var chs []string
		for ch := range chains {
			chs = append(chs, ch)
		}
		var stored []string
		for _, a := range e.attestations(chs) {
			vs := make([]string, len(a.Votes))
			for i, v := range a.Votes {
				vs[i] = emit.ZI(int64(v))
			}
			stored = append(stored, emit.Pair(emit.Bytes(a.Key), emit.List(vs), emit.ZI(int64(src[string(a.Key)]))))
		}
		run.Count("hist", name)
		run.Case(fmt.Sprintf("C11.CHist %s %s %s %s", emit.Bytes(K), emit.List(terms), emit.List(results), emit.List(stored)), okN > 0 && errN > 0, nil)
	}
	attackHistory := func(victim, attacker spec, pos int) []spec {
		var ops []spec
		for i := 0; i < 4; i++ {
			if i == pos {
				ops = append(ops, attacker)
			}
			h := victim.clone()
			h.Orch = i
			ops = append(ops, h)
		}
		if pos >= 4 {
			ops = append(ops, attacker)
		}
		return ops
	}

	// ---------- corpus first ----------
	files, _ := filepath.Glob(filepath.Join("..", "corpus", "C11", "*.json"))
	sort.Strings(files)
	for _, f := range files {
		bz, err := os.ReadFile(f)
		if err != nil {
			continue
		}
		var ce corpusEntry
		if json.Unmarshal(bz, &ce) != nil {
			continue
		}
		v, a := ce.Victim.spec(), ce.Attacker.spec()
		rp := map[string]any{"corpus": filepath.Base(f), "victim": ce.Victim, "attacker": ce.Attacker}
		doPair(build(v), build(a), "corpus", rp)
		doHist("corpus:"+ce.Name, attackHistory(v, a, 0), rp)
		run.Count("corpus", ce.Name)
	}

	// ---------- hash + key cases ----------
	nHash := run.N * 35 / 100
	for i := 0; i < nHash; i++ {
		tt := r.Intn(4)
		var c types.EthereumClaim
		hostile := r.Intn(3) != 0
		if tt == 3 {
			s := randomSpec(r, tBatch, 1+uint64(r.Intn(9)), !hostile)
			orch := keeper.AccAddrs[0].String()
			c = &types.MsgBatchSendToEthClaim{EventNonce: s.EventNonce, EthBlockHeight: s.Height, BatchNonce: s.BatchNonce, TokenContract: s.Token,
				ChainReferenceId: s.Chain, Orchestrator: orch, Metadata: valsettypes.MsgMetadata{Creator: orch, Signers: []string{orch}}, SkywayNonce: s.SkywayNonce}
		} else {
			var s spec
			if hostile {
				s = randomSpec(r, tt, 1+uint64(r.Intn(9)), r.Intn(2) == 0)
			} else {
				s = honestSpec(r, tt, 1+uint64(r.Intn(9)))
			}
			c = build(s)
		}
		h, panicked := safeHash(c)
		if panicked {
			run.Violate("C11:claimhash-panic:"+typeName(c), fmt.Sprintf("ClaimHash of a %s body panicked or failed (body %v)", typeName(c), c), map[string]any{"kind": "hash", "claim": fmt.Sprint(c)})
			run.Count("hash", typeName(c)+":panic")
			continue
		}
		run.Count("hash", typeName(c)+fmt.Sprintf(":clean-%v", cleanClaim(c)))
		if i%5 == 0 {
			run.Case(fmt.Sprintf("C11.CKey %s %s %s", emit.Bytes(K), coqClaim(c), emit.Bytes(envE.storeKeyOf(c))), !cleanClaim(c), nil)
		} else {
			var smp any
			if i < 3 {
				smp = map[string]any{"claim": fmt.Sprint(c), "hash": hex.EncodeToString(h)}
			}
			run.Case(fmt.Sprintf("C11.CHash %s %s", coqClaim(c), emit.Bytes(h)), !cleanClaim(c), smp)
		}
	}

	// ---------- effect pairs: every field of every live type, then random ----------
	for tt := 0; tt < 3; tt++ {
		for _, fn := range fieldNames {
			reps := 1
			if search {
				reps = 4
			}
			for k := 0; k < reps; k++ {
				a := honestSpec(r, tt, 1)
				a.BatchNonce = 1
				b := a.clone()
				if !mutateField(r, &b, fn) {
					continue
				}
				doPair(build(a), build(b), "one-field:"+typeNames[tt]+"."+fn, map[string]any{"kind": "pair", "a": toJ(a), "b": toJ(b)})
			}
		}
	}
	// cross-type pairs by regrouping path elements (a '/' inside a field of one claim = the separator between two fields of
	// the other), every feasible regrouping of an honest victim of every type into every other type, each run
	for vt := 0; vt <= tLegacy; vt++ {
		for to := 0; to <= tLegacy; to++ {
			var a spec
			if vt == tLegacy {
				a = honestSpec(r, tBatch, 1)
				a.T = tLegacy
			} else {
				a = honestSpec(r, vt, 1)
			}
			if a.Compass == "" {
				a.Compass = "57"
			}
			for _, x := range mergeMirrors(a, to) {
				doPair(build(a), build(x), fmt.Sprintf("regroup:%d->%d", vt, to), map[string]any{"kind": "pair", "a": toJ(a), "b": toJ(x)})
			}
		}
	}
	for tt := 0; tt < 3; tt++ {
		for k := 0; k < 6; k++ {
			a, b, f := hostileEverywhere(r, tt, 1)
			doPair(build(a), build(b), "hostile-in:"+f, map[string]any{"kind": "pair", "a": toJ(a), "b": toJ(b)})
		}
	}
	// the same body about a chain whose reference id is spelled differently, each run
	for tt := 0; tt < 3; tt++ {
		for _, ch := range []string{chainUpper, "Test-chain", " test-chain", "test-chain ", "test_chain"} {
			a := honestSpec(r, tt, 1)
			a.BatchNonce = 1
			b := a.clone()
			b.Chain = ch
			doPair(build(a), build(b), "chain-spelling", map[string]any{"kind": "pair", "a": toJ(a), "b": toJ(b)})
		}
	}
	// bodies differing ONLY in a field the hash exempts (event nonce incl. huge values, orchestrator), each run
	for tt := 0; tt < 3; tt++ {
		for _, en := range exemptNonces {
			a := honestSpec(r, tt, 1)
			a.BatchNonce = 1
			b := a.clone()
			b.EventNonce = en
			if b.EventNonce == a.EventNonce {
				b.EventNonce++
			}
			b.Orch = 4
			doPair(build(a), build(b), fmt.Sprintf("exempt-only:EventNonce=%d", en), map[string]any{"kind": "pair", "a": toJ(a), "b": toJ(b)})
		}
	}
	// amount aliases: every alias kind for both amount-carrying types, each run
	for _, tt := range []int{tDeposit, tSale} {
		for _, kind := range aliasKinds {
			reps := 1
			if search {
				reps = 3
			}
			for k := 0; k < reps; k++ {
				a := honestSpec(r, tt, 1)
				a.Amount = aliasBase(r)
				if kind == "nil-vs-0" {
					a.Amount = nil
				}
				b := a.clone()
				x, ok := amountAlias(r, a.Amount, kind)
				if !ok {
					continue
				}
				b.Amount = x
				doPair(build(a), build(b), "amount-alias:"+kind, map[string]any{"kind": "pair", "a": toJ(a), "b": toJ(b)})
			}
		}
	}
	// counters a narrowing renderer would identify (low 32 / 31 / 16 bits, sign bit), each run
	for tt := 0; tt < 3; tt++ {
		for _, fn := range []string{"EthBlockHeight", "BatchNonce"} {
			for _, d := range numAliasSteps {
				a := honestSpec(r, tt, 1)
				b := a.clone()
				if fn == "BatchNonce" && tt != tBatch {
					continue
				}
				if fn == "EthBlockHeight" {
					b.Height += d
				} else {
					b.BatchNonce += d
				}
				doPair(build(a), build(b), fmt.Sprintf("num-alias:%s+%d", fn, d), map[string]any{"kind": "pair", "a": toJ(a), "b": toJ(b)})
			}
		}
	}
	// cross-type mirrors: every (victim type, target type) for which a mirror exists, each run
	for vt := 0; vt <= tLegacy; vt++ {
		for to := 0; to <= tLegacy; to++ {
			for k := 0; k < 6; k++ {
				var a spec
				if vt == tLegacy {
					a = honestSpec(r, tBatch, 1)
					a.T = tLegacy
				} else {
					a = mirrorVictim(r, vt, 1)
				}
				x, ok := mirror(r, a, to)
				if !ok {
					continue
				}
				doPair(build(a), build(x), fmt.Sprintf("mirror:%d->%d", vt, to), map[string]any{"kind": "pair", "a": toJ(a), "b": toJ(x)})
				if !search {
					break
				}
			}
		}
	}
	nEff := run.N * 25 / 100
	for i := 0; i < nEff; i++ {
		tt := r.Intn(3)
		var a, b spec
		switch r.Intn(11) {
		case 8, 9: // amounts a lossy renderer would identify
			if tt == tBatch {
				tt = tDeposit
			}
			a = honestSpec(r, tt, 1)
			if r.Intn(2) == 0 {
				a.Amount = aliasBase(r)
			}
			kind := aliasKinds[r.Intn(len(aliasKinds))]
			x, ok := amountAlias(r, a.Amount, kind)
			if !ok {
				continue
			}
			b = a.clone()
			b.Amount = x
			doPair(build(a), build(b), "amount-alias:"+kind, map[string]any{"kind": "pair", "a": toJ(a), "b": toJ(b)})
		case 10: // a claim of another type mirroring the path elements
			a = mirrorVictim(r, tt, 1)
			x, ok := mirror(r, a, r.Intn(tLegacy+1))
			if !ok {
				continue
			}
			doPair(build(a), build(x), "mirror", map[string]any{"kind": "pair", "a": toJ(a), "b": toJ(x)})
		case 6, 7:
			a = honestSpec(r, tt, 1)
			var fn string
			b, fn = nearMissSpec(r, a)
			doPair(build(a), build(b), "near-miss:"+fn, map[string]any{"kind": "pair", "a": toJ(a), "b": toJ(b)})
		case 5:
			a, b = aliasPair(r, tt, 1)
			doPair(build(a), build(b), "alias-pair", map[string]any{"kind": "pair", "a": toJ(a), "b": toJ(b)})
		case 0: // F8b shape
			a, b = slashPair(r, tt, 1)
			doPair(build(a), build(b), "slash-pair", map[string]any{"kind": "pair", "a": toJ(a), "b": toJ(b)})
		case 1: // cross-type confusion
			a = honestSpec(r, tt, 1)
			x, nm, ok := confuse(r, a)
			if !ok {
				continue
			}
			doPair(build(a), build(x), "confuse:"+nm, map[string]any{"kind": "pair", "a": toJ(a), "b": toJ(x)})
		case 2: // several fields
			a = randomSpec(r, tt, 1, true)
			b = a.clone()
			for k := 0; k < 1+r.Intn(3); k++ {
				mutateField(r, &b, fieldNames[r.Intn(len(fieldNames))])
			}
			doPair(build(a), build(b), "multi-field", map[string]any{"kind": "pair", "a": toJ(a), "b": toJ(b)})
		default:
			a = randomSpec(r, tt, 1, true)
			a.BatchNonce = 1
			b = a.clone()
			fn := fieldNames[r.Intn(len(fieldNames))]
			if !mutateField(r, &b, fn) {
				continue
			}
			doPair(build(a), build(b), "one-field-hostile", map[string]any{"kind": "pair", "a": toJ(a), "b": toJ(b)})
		}
	}

	// ---------- histories ----------
	nHist := run.N * 12 / 100
	if nHist < 30 {
		nHist = 30
	}
	// every run: the first submitter's body differs from the honest one only in a way a lossy path renderer would not see
	histOf := func(name string, victim, attacker spec) {
		ops := attackHistory(victim, attacker, 0)
		js := make([]jspec, len(ops))
		for i := range ops {
			js[i] = toJ(ops[i])
		}
		doHist(name, ops, map[string]any{"kind": "history", "ops": js})
	}
	for _, tt := range []int{tDeposit, tSale} {
		for _, kind := range []string{"+2^64", "+2^128", "low64", "neg"} {
			victim := honestSpec(r, tt, 1)
			if kind == "low64" || r.Intn(2) == 0 {
				victim.Amount = new(big.Int).Add(aliasBase(r), new(big.Int).Lsh(big.NewInt(1), 64))
			}
			x, ok := amountAlias(r, victim.Amount, kind)
			if !ok {
				continue
			}
			attacker := victim.clone()
			attacker.Orch, attacker.Amount = 4, x
			histOf("amount-alias:"+kind, victim, attacker)
		}
	}
	for vt := 0; vt < 3; vt++ { // the first submitter reports a claim of another type that regroups the honest path elements
		for to := 0; to < 3; to++ {
			victim := honestSpec(r, vt, 1)
			if victim.Compass == "" {
				victim.Compass = "57"
			}
			for _, x := range mergeMirrors(victim, to) {
				if build(x).ValidateBasic() != nil {
					continue
				}
				histOf(fmt.Sprintf("regroup:%d->%d", vt, to), victim, x)
			}
		}
	}
	for tt := 0; tt < 3; tt++ { // the first submitter's body differs ONLY in the event nonce
		victim := honestSpec(r, tt, 1)
		attacker := victim.clone()
		attacker.Orch, attacker.EventNonce = 4, exemptNonces[r.Intn(len(exemptNonces))]
		if attacker.EventNonce == victim.EventNonce {
			attacker.EventNonce++
		}
		histOf("exempt-only:EventNonce", victim, attacker)
	}
	for vt := 0; vt < 3; vt++ {
		for to := 0; to < 3; to++ {
			for k := 0; k < 6; k++ {
				victim := mirrorVictim(r, vt, 1)
				x, ok := mirror(r, victim, to)
				if !ok || build(x).ValidateBasic() != nil || build(victim).ValidateBasic() != nil {
					continue
				}
				histOf(fmt.Sprintf("mirror:%d->%d", vt, to), victim, x)
				break
			}
		}
	}
	for i := 0; i < nHist; i++ {
		tt := r.Intn(3)
		victim := honestSpec(r, tt, 1)
		if r.Intn(5) == 0 {
			victim = randomSpec(r, tt, 1, true)
		}
		attacker := victim.clone()
		attacker.Orch = 4
		name := "agree"
		pos := r.Intn(6)
		switch r.Intn(15) {
		case 11, 12: // the first submitter reports an amount a lossy renderer would identify with the honest one
			if tt == tBatch {
				tt = tDeposit
			}
			victim = honestSpec(r, tt, 1)
			if r.Intn(2) == 0 {
				victim.Amount = aliasBase(r)
			}
			kind := aliasKinds[r.Intn(len(aliasKinds)-0)]
			if x, ok := amountAlias(r, victim.Amount, kind); ok {
				attacker = victim.clone()
				attacker.Orch = 4
				attacker.Amount = x
				name = "amount-alias:" + kind
				pos = 0
			}
		case 13, 14: // the first submitter reports a claim of another type that mirrors the honest claim's path elements
			victim = mirrorVictim(r, tt, 1)
			attacker = victim.clone()
			attacker.Orch = 4
			for _, to := range r.Perm(3) {
				if x, ok := mirror(r, victim, to); ok {
					attacker, name = x, fmt.Sprintf("mirror:%d->%d", victim.T, to)
					pos = 0
					break
				}
			}
		case 7, 8, 9: // near-miss spelling of one text field, submitted first
			var fn string
			attacker, fn = nearMissSpec(r, victim)
			name = "near-miss:" + fn
			pos = 0
		case 10: // the honest validators use the unusual spelling, the first submitter the plain one
			plain := victim.clone()
			var fn string
			victim, fn = nearMissSpec(r, plain)
			victim.Orch = 0
			attacker = plain
			attacker.Orch = 4
			name = "near-miss-honest:" + fn
			pos = 0
		case 6:
			a, b := aliasPair(r, tt, 1)
			victim, attacker, name = a, b, "alias-pair"
			attacker.Orch = 4
		case 0:
		case 1, 2:
			fn := fieldNames[r.Intn(len(fieldNames))]
			for !mutateField(r, &attacker, fn) || fn == "Orchestrator" {
				fn = fieldNames[r.Intn(len(fieldNames))]
			}
			name = "one-field:" + fn
		case 3:
			if x, nm, ok := confuse(r, victim); ok {
				attacker, name = x, "confuse:"+nm
			}
		case 4:
			a, b := slashPair(r, tt, 1)
			victim, attacker, name = a, b, "slash-pair"
			attacker.Orch = 4
		default:
			attacker = randomSpec(r, r.Intn(3), 1, true)
			attacker.Orch = 4
			name = "unrelated"
		}
		ops := attackHistory(victim, attacker, pos)
		// a second nonce, an out-of-order submission and a duplicate
		if r.Intn(2) == 0 {
			v2 := honestSpec(r, r.Intn(3), 2)
			for _, i := range r.Perm(5)[:1+r.Intn(4)] {
				h := v2.clone()
				h.Orch = i
				ops = append(ops, h)
			}
		}
		if r.Intn(2) == 0 {
			late := honestSpec(r, r.Intn(3), uint64(3+r.Intn(3)))
			late.Orch = r.Intn(5)
			ops = append(ops, late)
		}
		if r.Intn(2) == 0 {
			dup := ops[r.Intn(len(ops))].clone()
			ops = append(ops, dup)
		}
		js := make([]jspec, len(ops))
		for i := range ops {
			js[i] = toJ(ops[i])
		}
		doHist(name, ops, map[string]any{"kind": "history", "ops": js})
	}

	// ---------- second round: message router + real outgoing batch + stale keys + genesis round trips ----------
	nGen := run.N * 8 / 100
	if nGen < 24 {
		nGen = 24
	}
	for i := 0; i < nGen; i++ {
		switch i % 4 {
		case 0:
			doGen(run, envE, K, "batch-gate", batchHistory(r, batchNonce, batchTimeout))
		case 1:
			doGen(run, envE, K, "invalid-basic-mix", invalidMix(r))
		default:
			steps, name := genesisHistory(r)
			doGen(run, envE, K, name, steps)
		}
	}
	// a chain WITH a compass id on record: the first voter's claim carries an empty / another compass id
	envC := envE.fork()
	envC.k.VerifC11SetLatestCompassID(envC.ctx, chainA, latestCompass)
	for i := 0; i < 9; i++ {
		steps, name := compassRecordHistory(r, i)
		doGen(run, envC, K, name, steps)
	}
	for i := 0; i < 6; i++ {
		steps, name := chainCaseHistory(r)
		doGen(run, envE, K, name, steps)
	}
	for i := 0; i < 8; i++ {
		doSplit(run, envE, r, i%4 != 3)
	}
	for i := 0; i < 24; i++ {
		a := erc20A
		if i%3 == 0 {
			a = hexAddr(r)
		}
		if i%2 == 0 {
			a = ethSpelling(r, a)
		}
		if i%7 == 0 {
			a = randText(r, a)
		}
		ethCase(run, a)
	}

	if err := run.Finish("Skyway.Claims Corr.C11", "C11.case", "C11.check"); err != nil {
		t.Fatal(err)
	}
}

var _ = sdkmath.NewInt
