package c11

// Second-round histories for C11 (Corr case CGen):
//   * every submission is DELIVERED THROUGH A REAL baseapp.MsgServiceRouter (what authz MsgExec, gov, the wasm stargate
//     path and DeliverTx all use): the router's ValidateBasic, then the real msg server (creator check, validator in
//     set, additionalPatchChecks against the REAL outgoing batches in state), then Keeper.Attest;
//   * claims that fail ValidateBasic, batch claims at / after / before the timeout of a real batch, for unknown batches,
//     with the token contract in other spellings;
//   * attestations written raw under a foreign key (the key their body had under an earlier hash encoding), the body
//     re-submitted afterwards;
//   * ExportGenesis -> wipe the module store -> InitGenesis in the middle of a history.
// Oracle on the real code: the vote oracle of the first round after every accepted submission; after a genesis
// round trip every attestation is stored under the key of its stored body, and every attestation that was stored
// under the key of its body before is still there with the same votes and body.

import (
	"bytes"
	"encoding/hex"
	"fmt"
	"math/big"
	"math/rand"
	"strings"

	"github.com/cometbft/cometbft/crypto/tmhash"
	"github.com/cosmos/cosmos-sdk/baseapp"
	codectypes "github.com/cosmos/cosmos-sdk/codec/types"
	sdk "github.com/cosmos/cosmos-sdk/types"
	"github.com/cosmos/gogoproto/proto"
	"github.com/palomachain/paloma/v2/verifharness/emit"
	"github.com/palomachain/paloma/v2/x/skyway/keeper"
	"github.com/palomachain/paloma/v2/x/skyway/types"
)

type gstep struct {
	Kind  string // "sub" | "stale" | "reimport"
	S     spec
	Votes []int  // stale: validators recorded as voters
	Enc   string // stale: which earlier encoding keyed it
}

type jgstep struct {
	Kind  string
	S     jspec
	Votes []int  `json:",omitempty"`
	Enc   string `json:",omitempty"`
}

func (e *env) router() *baseapp.MsgServiceRouter {
	r := baseapp.NewMsgServiceRouter()
	r.SetInterfaceRegistry(e.in.Marshaler.InterfaceRegistry())
	types.RegisterMsgServer(r, e.ms)
	return r
}

// deliver sends the claim through the message router (ValidateBasic + msg server). "ok" | "err" | "panic".
func (e *env) deliver(rt *baseapp.MsgServiceRouter, c types.EthereumClaim) (res string, detail string) {
	defer func() {
		if r := recover(); r != nil {
			res, detail = "panic", fmt.Sprint(r)
		}
	}()
	msg := c.(sdk.Msg)
	h := rt.Handler(msg)
	if h == nil {
		return "err", "no route for " + typeName(c)
	}
	// the router executes on the context it is given; a failing message must leave no trace (baseapp runs every
	// message on a cache that is dropped on error)
	cc, write := e.ctx.CacheContext()
	if _, err := h(cc, msg); err != nil {
		return "err", err.Error()
	}
	write()
	return "ok", ""
}

// oldKey: the raw store key the body had under an earlier hash encoding.
//
//	"unescaped": text fields verbatim (before the separator was escaped);  "sale5": sale path without the contract
//	address (before it was hashed);  "foreign": an arbitrary 32-byte value.
func oldKey(r *rand.Rand, s spec, enc string) []byte {
	a := "<nil>"
	if s.Amount != nil {
		a = s.Amount.String()
	}
	var path string
	switch {
	case enc == "foreign":
		b := make([]byte, 32)
		r.Read(b)
		return append([]byte(s.Chain), types.GetAttestationKey(s.SkywayNonce, b)...)
	case enc == "sale5" && s.T == tSale:
		path = fmt.Sprintf("%d/%d/%s/%s/%s", s.SkywayNonce, s.Height, s.Client, a, s.Compass)
	case s.T == tDeposit:
		path = fmt.Sprintf("%d/%d/%s/%s/%s/%s/%s", s.SkywayNonce, s.Height, s.Token, a, s.Sender, s.Receiver, s.Compass)
	case s.T == tBatch:
		path = fmt.Sprintf("%d/%d/%d/%s/%s", s.SkywayNonce, s.Height, s.BatchNonce, s.Token, s.Compass)
	default:
		path = fmt.Sprintf("%d/%d/%s/%s/%s/%s", s.SkywayNonce, s.Height, s.Client, a, s.Contract, s.Compass)
	}
	return append([]byte(s.Chain), types.GetAttestationKey(s.SkywayNonce, tmhash.Sum([]byte(path)))...)
}

// writeStale stores an attestation for the body under the given raw key, with the given voters, the way an earlier
// version of Attest would have left it (votes recorded, the voters' last nonce advanced).
func (e *env) writeStale(key []byte, c types.EthereumClaim, votes []int) error {
	any, err := codectypes.NewAnyWithValue(c.(proto.Message))
	if err != nil {
		return err
	}
	att := types.Attestation{Observed: false, Height: uint64(e.ctx.BlockHeight()), Claim: any}
	for _, v := range votes {
		att.Votes = append(att.Votes, keeper.ValAddrs[v].String())
	}
	bz, err := e.in.Marshaler.Marshal(&att)
	if err != nil {
		return err
	}
	e.k.VerifC11RawStore(e.ctx).Set(key, bz)
	for _, v := range votes {
		if err := e.k.SetLastSkywayNonceByValidator(e.ctx, keeper.ValAddrs[v], c.GetChainReferenceId(), c.GetSkywayNonce()); err != nil {
			return err
		}
	}
	return nil
}

func (e *env) genesisRoundTrip() (err error) {
	defer func() {
		if r := recover(); r != nil {
			err = fmt.Errorf("panic: %v", r)
		}
	}()
	gs := keeper.ExportGenesis(e.ctx, e.k)
	st := e.k.VerifC11RawStore(e.ctx)
	var keys [][]byte
	it := st.Iterator(nil, nil)
	for ; it.Valid(); it.Next() {
		keys = append(keys, append([]byte{}, it.Key()...))
	}
	it.Close()
	for _, k := range keys {
		st.Delete(k)
	}
	keeper.InitGenesis(e.ctx, e.k, gs)
	return nil
}

// realBatches: the outgoing batches in state as the model sees them (token contract bytes, nonce, timeout).
func (e *env) realBatches() string {
	bs, err := e.k.GetOutgoingTxBatches(e.ctx)
	if err != nil {
		panic(err)
	}
	var out []string
	for _, b := range bs {
		out = append(out, emit.Pair(emit.Bytes(b.TokenContract.GetAddress().Bytes()), emit.ZU(b.BatchNonce), emit.ZU(b.BatchTimeout)))
	}
	return emit.List(out)
}

func doGen(run *emit.Run, base *env, K []byte, name string, steps []gstep) {
	e := base.fork()
	rt := e.router()
	js := make([]jgstep, len(steps))
	for i, st := range steps {
		js[i] = jgstep{Kind: st.Kind, S: toJ(st.S), Votes: st.Votes, Enc: st.Enc}
	}
	replay := map[string]any{"kind": "gen-history", "name": name, "steps": js}
	batches := e.realBatches()
	chains := map[string]bool{chainA: true}
	chs := func() []string {
		var out []string
		for ch := range chains {
			out = append(out, ch)
		}
		return out
	}
	votesOf := func() map[string]attRec {
		m := map[string]attRec{}
		for _, a := range e.attestations(chs()) {
			m[string(a.Key)] = a
		}
		return m
	}
	var terms []string
	okN, errN := 0, 0
	rnd := rand.New(rand.NewSource(int64(len(steps))*7919 + int64(len(name))))
	for _, st := range steps {
		switch st.Kind {
		case "sub":
			c := wireCopy(build(st.S))
			chains[st.S.Chain] = true
			before := votesOf()
			res, detail := e.deliver(rt, build(st.S))
			run.Count("gen-step", res)
			if res == "panic" {
				run.Violate("C11:router-submit-panic", name+": claim delivered through the message router panicked: "+detail, replay)
			}
			if res == "ok" {
				okN++
				voteOracle(run, e, name, st.S.Orch, c, before, votesOf(), replay)
			} else {
				errN++
				if c.ValidateBasic() != nil {
					run.Count("gen-step", "invalid-basic-refused")
				}
			}
			terms = append(terms, fmt.Sprintf("(C11.GSub %s %s %s)", emit.ZI(int64(st.S.Orch)), coqClaim(c), emit.Bool(res == "ok")))
		case "stale":
			c := wireCopy(build(st.S))
			key := oldKey(rnd, st.S, st.Enc)
			if bytes.Equal(key, realKey(c)) {
				run.Count("gen-step", "stale-key-equals-present-key")
			}
			if err := e.writeStale(key, build(st.S), st.Votes); err != nil {
				panic(err)
			}
			vs := make([]string, len(st.Votes))
			for i, v := range st.Votes {
				vs[i] = emit.ZI(int64(v))
			}
			run.Count("gen-step", "stale:"+st.Enc)
			terms = append(terms, fmt.Sprintf("(C11.GStale %s %s %s)", emit.Bytes(key), coqClaim(c), emit.List(vs)))
		case "reimport":
			before := e.attestations(chs())
			if err := e.genesisRoundTrip(); err != nil {
				run.Violate("C11:genesis-roundtrip-failed", name+": ExportGenesis / InitGenesis: "+err.Error(), replay)
				return
			}
			after := map[string]attRec{}
			for _, a := range e.attestations(chs()) {
				after[string(a.Key)] = a
				if !bytes.Equal(a.Key, realKey(a.Body)) {
					run.Violate("C11:genesis-key-not-of-body:"+typeName(a.Body), fmt.Sprintf("%s: after InitGenesis an attestation is stored under key %x but its stored body has key %x", name, a.Key, realKey(a.Body)), replay)
				}
			}
			// every attestation stored before is stored afterwards under the key of its body, with the votes and the body of
			// exactly one of the attestations that had that body key before (never dropped, never merged)
			groups := map[string][]attRec{}
			for _, b := range before {
				k := string(realKey(b.Body))
				groups[k] = append(groups[k], b)
			}
			for k, g := range groups {
				a, ok := after[k]
				if !ok {
					run.Violate("C11:genesis-attestation-lost:"+typeName(g[0].Body), fmt.Sprintf("%s: attestation %x (votes %v, body key %x) is gone after export / import", name, g[0].Key, g[0].Votes, k), replay)
					continue
				}
				match := false
				for _, b := range g {
					if fmt.Sprint(a.Votes) == fmt.Sprint(b.Votes) && len(effectDiff(a.Body, b.Body)) == 0 {
						match = true
					}
				}
				if !match {
					run.Violate("C11:genesis-votes-changed:"+typeName(a.Body), fmt.Sprintf("%s: after export / import attestation %x has votes %v, which are the votes of none of the %d attestation(s) stored for that body before (first: %v)", name, a.Key, a.Votes, len(g), g[0].Votes), replay)
				}
			}
			if len(after) != len(groups) {
				run.Violate("C11:genesis-attestation-appeared", fmt.Sprintf("%s: %d attestations after export / import for %d distinct bodies before", name, len(after), len(groups)), replay)
			}
			run.Count("gen-step", "reimport")
			terms = append(terms, "C11.GReimport")
		}
	}
	var stored []string
	for _, a := range e.attestations(chs()) {
		vs := make([]string, len(a.Votes))
		for i, v := range a.Votes {
			vs[i] = emit.ZI(int64(v))
		}
		stored = append(stored, emit.Pair(emit.Bytes(a.Key), emit.List(vs), coqClaim(a.Body)))
	}
	if strings.HasPrefix(name, "stale") {
		e.staleTallyProbe(run, name, replay)
	}
	run.Count("gen", name)
	run.Case(fmt.Sprintf("C11.CGen %s %s %s %s", emit.Bytes(K), batches, emit.List(terms), emit.List(stored)), okN > 0 && errN > 0, nil)
}

// staleTallyProbe characterises, on a discarded fork of the real state, what the end-blocker tally does with the
// attestations of nonce 1 when some of them sit under a key that is not the key of their body: which entry is
// executed, where the observed copy is written, and that a second tally executes nothing again.
func (e *env) staleTallyProbe(run *emit.Run, name string, replay any) {
	f := e.fork()
	supply := func() string { return f.in.BankKeeper.GetSupply(f.ctx, "ugrain").Amount.String() }
	s0 := supply()
	*f.calls = (*f.calls)[:0]
	if err := f.tally(chainA); err != nil {
		run.Count("stale-tally", "tally-error")
		return
	}
	last, _ := f.k.GetLastObservedSkywayNonce(f.ctx, chainA)
	s1, calls1 := supply(), len(*f.calls)
	if err := f.tally(chainA); err != nil {
		run.Count("stale-tally", "second-tally-error")
		return
	}
	if supply() != s1 || len(*f.calls) != calls1 {
		run.Violate("C11:stale-entry-executed-twice", name+": a second end-blocker tally executed an attestation of an already observed nonce again", replay)
	}
	var stale, observed, staleObserved int
	for _, a := range f.attestations([]string{chainA}) {
		wk := bytes.Equal(a.Key, realKey(a.Body))
		if !wk {
			stale++
		}
		if a.Obs {
			observed++
			if !wk {
				staleObserved++
			}
		}
	}
	switch {
	case last == 0:
		run.Count("stale-tally", fmt.Sprintf("no-quorum-under-any-single-key:stalled(stale-entries=%d)", stale))
	default:
		run.Count("stale-tally", fmt.Sprintf("executed(last=%d,effect=%v):observed-entries=%d,of-them-under-stale-key=%d,stale-entries-left=%d", last, s0 != s1 || calls1 > 0, observed, staleObserved, stale))
	}
}

// ---- generators ----

// ethSpelling: other spellings of the same address, and near misses that are not addresses.
func ethSpelling(r *rand.Rand, a string) string {
	h := strings.TrimPrefix(strings.TrimPrefix(a, "0x"), "0X")
	switch r.Intn(12) {
	case 0:
		return "0x" + strings.ToLower(h)
	case 1:
		return "0X" + strings.ToUpper(h)
	case 2:
		return strings.ToLower(h)
	case 3:
		return "0x" + strings.ToUpper(h)
	case 4:
		return "0x" + h[:39] // too short
	case 5:
		return "0x" + h + "0" // too long
	case 6:
		return "0x0x" + h[:38]
	case 7:
		return "0x" + h[:20] + "g" + h[21:]
	case 8:
		return ""
	case 9:
		return "0x"
	case 10:
		return " " + a
	}
	return a
}

func subs(ops []spec) []gstep {
	out := make([]gstep, len(ops))
	for i, o := range ops {
		out[i] = gstep{Kind: "sub", S: o}
	}
	return out
}

// batchHistory: five validators report the execution of a real outgoing batch (nonce bn, timeout T, token erc20A) —
// or of a batch that is not in state — at heights around the timeout, the token contract in various spellings.
func batchHistory(r *rand.Rand, bn, timeout uint64) []gstep {
	base := honestSpec(r, tBatch, 1)
	base.Token = erc20A
	base.BatchNonce = bn
	if r.Intn(4) == 0 {
		base.BatchNonce = bn + 1 + uint64(r.Intn(3)) // no such batch in state: always admitted
	}
	heights := []uint64{timeout - 1, timeout, timeout + 1, 1, timeout - uint64(1+r.Intn(500)), emit.U64(r)}
	honestH := heights[r.Intn(len(heights))]
	var ops []spec
	for i := 0; i < 5; i++ {
		s := base.clone()
		s.Orch = i
		s.Height = honestH
		switch r.Intn(6) {
		case 0:
			s.Height = heights[r.Intn(len(heights))]
		case 1:
			s.Token = ethSpelling(r, s.Token)
		case 2:
			s.BatchNonce = uint64(r.Intn(3)) + bn - 1 // bn-1 (maybe 0), bn, bn+1
		}
		ops = append(ops, s)
	}
	r.Shuffle(len(ops), func(i, j int) { ops[i], ops[j] = ops[j], ops[i] })
	return subs(ops)
}

// invalidMix: an honest history of any type in which some submissions fail ValidateBasic.
func invalidMix(r *rand.Rand) []gstep {
	tt := r.Intn(3)
	v := honestSpec(r, tt, 1)
	if tt == tBatch {
		v.BatchNonce = 1 + uint64(r.Intn(3))
		v.Height = 1 + uint64(r.Intn(500))
	}
	var ops []spec
	for i := 0; i < 5; i++ {
		s := v.clone()
		s.Orch = i
		switch r.Intn(9) {
		case 0:
			s.EventNonce = 0
		case 1:
			s.SkywayNonce = 0
		case 2:
			s.BatchNonce = 0
		case 3:
			s.Token = ethSpelling(r, s.Token)
		case 4:
			s.Sender = ethSpelling(r, s.Sender)
		case 5:
			s.Token = randText(r, s.Token)
		}
		ops = append(ops, s)
		if r.Intn(3) == 0 { // the same validator tries again with the honest body
			h := v.clone()
			h.Orch = i
			ops = append(ops, h)
		}
	}
	return subs(ops)
}

// genesisHistory: votes before and after an export / import; optionally an attestation left under the key of an
// earlier encoding, re-submissions of its body, and a second round trip.
func genesisHistory(r *rand.Rand) ([]gstep, string) {
	tt := r.Intn(3)
	v := honestSpec(r, tt, 1)
	if tt == tBatch {
		v.Height = 1 + uint64(r.Intn(500))
	}
	name := "genesis"
	var steps []gstep
	voters := r.Perm(5)
	k := 1 + r.Intn(4)
	switch r.Intn(3) {
	case 0: // plain: k votes, round trip, the rest
		for _, i := range voters[:k] {
			s := v.clone()
			s.Orch = i
			steps = append(steps, gstep{Kind: "sub", S: s})
		}
		steps = append(steps, gstep{Kind: "reimport"})
	default: // stale: k votes sit under the key of an earlier encoding
		enc := "unescaped"
		switch {
		case tt == tSale && r.Intn(2) == 0:
			enc = "sale5"
		case r.Intn(4) == 0:
			enc = "foreign"
		}
		if enc == "unescaped" { // the escaping only changed hashes of bodies with '/' or '%' in a text field
			switch tt {
			case tDeposit:
				v.Receiver = v.Receiver + "/memo%1"
			default:
				v.Compass = "7/8"
			}
		}
		name = "stale:" + enc
		steps = append(steps, gstep{Kind: "stale", S: v, Votes: append([]int{}, voters[:k]...), Enc: enc})
		if r.Intn(2) == 0 {
			steps = append(steps, gstep{Kind: "reimport"})
			name += "+reimport-first"
		}
	}
	rest := voters[k:]
	cut := r.Intn(len(rest) + 1)
	for _, i := range rest[:cut] {
		s := v.clone()
		s.Orch = i
		steps = append(steps, gstep{Kind: "sub", S: s})
	}
	if r.Intn(2) == 0 { // an already recorded voter tries again (refused: its nonce has moved on)
		s := v.clone()
		s.Orch = voters[0]
		steps = append(steps, gstep{Kind: "sub", S: s})
	}
	if r.Intn(2) == 0 {
		steps = append(steps, gstep{Kind: "reimport"})
	}
	for _, i := range rest[cut:] {
		s := v.clone()
		s.Orch = i
		steps = append(steps, gstep{Kind: "sub", S: s})
	}
	if r.Intn(2) == 0 { // next nonce by those who are through with nonce 1
		v2 := honestSpec(r, r.Intn(3), 2)
		if v2.T == tBatch {
			v2.Height = 1 + uint64(r.Intn(500))
		}
		for _, i := range r.Perm(5)[:2] {
			s := v2.clone()
			s.Orch = i
			steps = append(steps, gstep{Kind: "sub", S: s})
		}
	}
	return steps, name
}

// ethCase: ValidateEthAddress / HexToAddress on one text vs the model's eth_parse.
func ethCase(run *emit.Run, s string) {
	got := "None"
	if a, err := types.NewEthAddress(s); err == nil {
		got = "(Some " + emit.Bytes(a.GetAddress().Bytes()) + ")"
		run.Count("eth", "address")
	} else {
		run.Count("eth", "refused")
	}
	run.Case(fmt.Sprintf("C11.CEth %s %s", emit.Bytes([]byte(s)), got), got == "None", nil)
}

var _ = hex.EncodeToString
var _ = big.NewInt

// ---- round 4: the end-blocker tally over competing attestations; chain ids in other spellings ----

// tallyChecked runs the REAL end-blocker tally for the chain and checks, on the store read back afterwards:
// an attestation that became observed holds, BY ITS OWN distinct voters alone, more than the required power; and at
// most one attestation of a nonce is observed.
func (e *env) tallyChecked(run *emit.Run, name, chain string, replay any) (newlyObserved int) {
	before := map[string]bool{}
	for _, a := range e.attestations([]string{chain}) {
		before[string(a.Key)] = a.Obs
	}
	if err := e.tally(chain); err != nil {
		run.Count("tally", "error")
	}
	perNonce := map[uint64]int{}
	for _, a := range e.attestations([]string{chain}) {
		if !a.Obs {
			continue
		}
		perNonce[a.Body.GetSkywayNonce()]++
		if before[string(a.Key)] {
			continue
		}
		newlyObserved++
		own, req := e.powerOf(a.Votes)
		if !own.GT(req) {
			run.Violate("C11:observed-without-own-quorum:"+typeName(a.Body), fmt.Sprintf("%s: the end-blocker tally observed (and applied) the %s attestation %x whose own voters %v hold power %s, required is more than %s — votes cast for OTHER claims were counted for it",
				name, typeName(a.Body), a.Key, a.Votes, own, req), replay)
		}
	}
	for n, k := range perNonce {
		if k > 1 {
			run.Violate("C11:two-attestations-observed-at-one-nonce", fmt.Sprintf("%s: %d attestations of nonce %d on %s are observed", name, k, n, chain), replay)
		}
	}
	return newlyObserved
}

// grindAfter changes a free field of y (the amount, or the compass id for batch claims) until its store key sorts
// after (or, if !after, before) the key of x.
func grindAfter(r *rand.Rand, x, y spec, after bool) spec {
	for i := 0; i < 200; i++ {
		c := bytes.Compare(realKey(build(y)), realKey(build(x)))
		if (after && c > 0) || (!after && c < 0) {
			return y
		}
		if y.T == tBatch {
			y.Compass = fmt.Sprint("g", r.Intn(1_000_000))
		} else {
			y.Amount = big.NewInt(int64(2 + r.Intn(1_000_000_000)))
		}
	}
	return y
}

// doSplit: two competing claims X (honest, h voters) and Y (deviating, d voters) for the next nonce, neither with a
// quorum of its own but h+d above it, tallied by the real end blocker in one block; then the remaining honest votes
// and a second tally.
func doSplit(run *emit.Run, base *env, r *rand.Rand, yAfter bool) {
	e := base.fork()
	rt := e.router()
	tt := r.Intn(3)
	x := honestSpec(r, tt, 1)
	if tt == tBatch {
		x.Height = 1 + uint64(r.Intn(500))
	}
	y := x.clone()
	switch tt {
	case tDeposit:
		y.Receiver = sdk.AccAddress(keeper.AccAddrs[4]).String()
		y.Amount = big.NewInt(999_999)
	case tSale:
		y.Client = sdk.AccAddress(keeper.AccAddrs[4]).String()
		y.Amount = big.NewInt(999_999)
	default:
		y.Compass = "g0"
	}
	y = grindAfter(r, x, y, yAfter)
	perm := r.Perm(5)
	h, d := 3, 1+r.Intn(2) // 5 equal validators: 3 = 60 % (no quorum), 3+1 = 80 %
	if r.Intn(3) == 0 {
		h, d = 2, 2
	}
	name := fmt.Sprintf("split:%dv%d:deviating-key-%s", h, d, map[bool]string{true: "after", false: "before"}[yAfter])
	var js []jspec
	submit := func(s spec) {
		js = append(js, toJ(s))
		c := wireCopy(build(s))
		before := map[string]attRec{}
		for _, a := range e.attestations([]string{s.Chain}) {
			before[string(a.Key)] = a
		}
		if res, _ := e.deliver(rt, build(s)); res == "ok" {
			after := map[string]attRec{}
			for _, a := range e.attestations([]string{s.Chain}) {
				after[string(a.Key)] = a
			}
			voteOracle(run, e, name, s.Orch, c, before, after, map[string]any{"kind": "split-history", "name": name, "ops": js})
		}
	}
	var order []spec
	for i := 0; i < h; i++ {
		s := x.clone()
		s.Orch = perm[i]
		order = append(order, s)
	}
	for i := 0; i < d; i++ {
		s := y.clone()
		s.Orch = perm[h+i]
		order = append(order, s)
	}
	r.Shuffle(len(order), func(i, j int) { order[i], order[j] = order[j], order[i] })
	for _, s := range order {
		submit(s)
	}
	replay := map[string]any{"kind": "split-history", "name": name, "ops": js, "then": "end-blocker tally; remaining validators vote for the first body; end-blocker tally"}
	n1 := e.tallyChecked(run, name, x.Chain, replay)
	if n1 > 0 {
		run.Count("split", name+":observed-in-first-block")
	} else {
		run.Count("split", name+":nothing-observed-in-first-block")
	}
	for i := h + d; i < 5; i++ {
		s := x.clone()
		s.Orch = perm[i]
		submit(s)
	}
	e.tallyChecked(run, name, x.Chain, replay)
	run.Count("gen", name)
}

// chainSpelling: other spellings of a chain reference id.
func chainSpelling(r *rand.Rand, ch string) string {
	switch r.Intn(8) {
	case 0:
		return strings.ToUpper(ch)
	case 1:
		return strings.ToLower(ch)
	case 2:
		return strings.ToUpper(ch[:1]) + ch[1:]
	case 3:
		return " " + ch
	case 4:
		return ch + " "
	case 5:
		return ch + "\t"
	case 6:
		return strings.ReplaceAll(ch, "-", "_")
	}
	return strings.ToUpper(ch[:4]) + ch[4:]
}

// chainCaseHistory: the first submitter names the chain in another spelling (or the other of two registered chains
// whose ids differ only in case); the honest validators name the real one.
func chainCaseHistory(r *rand.Rand) ([]gstep, string) {
	tt := r.Intn(3)
	v := honestSpec(r, tt, 1)
	if tt == tBatch {
		v.Height = 1 + uint64(r.Intn(500))
	}
	if r.Intn(3) == 0 {
		v.Chain = chainUpper // the honest claims are about the registered upper-case chain
	}
	a := v.clone()
	a.Orch = 4
	a.Chain = chainSpelling(r, v.Chain)
	for i := 0; a.Chain == v.Chain && i < 10; i++ {
		a.Chain = chainSpelling(r, v.Chain)
	}
	var ops []spec
	ops = append(ops, a)
	for i := 0; i < 4; i++ {
		h := v.clone()
		h.Orch = i
		ops = append(ops, h)
	}
	return subs(ops), "chain-spelling"
}

// ---- round 6: a chain with a compass id on record ----

const latestCompass = "compass-7"

// compassRecordHistory: the honest validators report the event with the compass id on record; the first voter's claim
// carries no compass id (an outdated relayer), another one, or a spelling variant — or everybody reports without one.
func compassRecordHistory(r *rand.Rand, i int) ([]gstep, string) {
	tt := i % 3
	v := honestSpec(r, tt, 1)
	v.Compass = latestCompass
	if tt == tBatch {
		v.Height = 1 + uint64(r.Intn(500))
	}
	a := v.clone()
	a.Orch = 4
	name := "compass-on-record:first-voter-empty"
	switch (i / 3) % 3 {
	case 0:
		a.Compass = ""
	case 1:
		a.Compass = nearMiss(r, latestCompass)
		name = "compass-on-record:first-voter-variant"
	default:
		a.Compass = ""
		v.Compass = "" // nobody reports a compass id
		name = "compass-on-record:all-empty"
	}
	ops := []spec{a}
	for j := 0; j < 4; j++ {
		h := v.clone()
		h.Orch = j
		ops = append(ops, h)
	}
	return subs(ops), name
}
