package c14

import (
	"fmt"
	"math/big"
	"testing"

	sdkmath "cosmossdk.io/math"
	"github.com/palomachain/paloma/v2/verifharness/emit"
	"github.com/palomachain/paloma/v2/x/consensus/keeper/consensus"
	consensustypes "github.com/palomachain/paloma/v2/x/consensus/types"
	evmtypes "github.com/palomachain/paloma/v2/x/evm/types"
	metrixtypes "github.com/palomachain/paloma/v2/x/metrix/types"
	treasurytypes "github.com/palomachain/paloma/v2/x/treasury/types"
	valsettypes "github.com/palomachain/paloma/v2/x/valset/types"
)

// doReassign drives the exported but (on the pinned tree) uncalled ReassignOrphanedMessages: the
// message gets a new, eligible assignee, but keeps the fees computed from the previous assignee's
// multiplier.  Recorded as a known (latent) finding; the life-cycle model has no such step.
func doReassign(t *testing.T, run *emit.Run, p *pool) {
	for ts := int64(1700000000); ts < 1700000003; ts++ {
		e := newEnv(t, 5, ts)
		chain := chains[0]
		qn := turnstoneQueue(chain)
		snap := &valsettypes.Snapshot{Id: 1, TotalShares: sdkmath.NewInt(3)}
		mults := []*big.Int{new(big.Int).Div(new(big.Int).Mul(e18, bi(11)), bi(10)), new(big.Int).Mul(e18, bi(2)), new(big.Int).Mul(e18, bi(3))}
		for i := 0; i < 3; i++ {
			snap.Validators = append(snap.Validators, valsettypes.Validator{Address: p.addrs[i], ShareCount: sdkmath.NewInt(1), State: valsettypes.ValidatorState_ACTIVE,
				ExternalChainInfos: []*valsettypes.ExternalChainInfo{{ChainType: "evm", ChainReferenceID: chain, Address: remotes[i]}}})
			if err := e.met.VerifSetValidatorMetrics(e.ctx, p.addrs[i], &metrixtypes.ValidatorMetrics{ValAddress: p.strs[i], Uptime: dec(e18), SuccessRate: dec(e18), ExecutionTime: sdkmath.NewInt(100), FeatureSet: dec(e18)}); err != nil {
				t.Fatal(err)
			}
			if err := e.tre.SetRelayerFee(e.ctx, p.addrs[i], &treasurytypes.RelayerFeeSetting{ValAddress: p.strs[i],
				Fees: []treasurytypes.RelayerFeeSetting_FeeSetting{{ChainReferenceId: chain, Multiplicator: dec(mults[i])}}}); err != nil {
				t.Fatal(err)
			}
		}
		e.vs.snap = snap
		cf, sf := new(big.Int).Div(e18, bi(100)), new(big.Int).Div(e18, bi(50))
		_ = e.tre.SetCommunityFundFee(e.ctx, dec(cf).String())
		_ = e.tre.SetSecurityFee(e.ctx, dec(sf).String())
		id, err := e.cons.PutMessageInQueue(e.ctx, qn, &evmtypes.Message{ChainReferenceID: chain, TurnstoneID: "t", Assignee: p.strs[0], AssigneeRemoteAddress: remotes[0],
			Action: &evmtypes.Message_SubmitLogicCall{SubmitLogicCall: &evmtypes.SubmitLogicCall{HexContractAddress: "0x01", Payload: []byte{1}, SenderAddress: []byte("alice")}}},
			&consensus.PutOptions{RequireSignatures: true, RequireGasEstimation: true})
		if err != nil {
			t.Fatal(err)
		}
		for v := 0; v < 3; v++ {
			if err := e.cons.AddMessageGasEstimates(e.ctx, p.addrs[v], []*consensustypes.MsgAddMessageGasEstimates_GasEstimate{{MsgId: id, QueueTypeName: qn, Value: 21000}}); err != nil {
				t.Fatal(err)
			}
		}
		if err := e.cons.CheckAndProcessEstimatedMessages(e.ctx); err != nil {
			t.Fatal(err)
		}
		later := e.ctx.WithBlockHeight(1000)
		if err := e.cons.ReassignOrphanedMessages(later, 10); err != nil {
			t.Fatal(err)
		}
		msgs, err := e.cons.GetMessagesFromQueue(later, qn, 0)
		if err != nil || len(msgs) != 1 {
			t.Fatalf("queue after reassign: %v %d", err, len(msgs))
		}
		cm, _ := msgs[0].ConsensusMsg(theCdc())
		em := cm.(*evmtypes.Message)
		fees := em.GetSubmitLogicCall().Fees
		now := p.id[em.Assignee]
		run.Count("reassign", fmt.Sprintf("to#%d", now))
		if fees == nil || msgs[0].GetGasEstimate() == 0 {
			t.Fatalf("expected elected estimate and fees before reassignment")
		}
		want := ceilDiv(new(big.Int).Mul(mults[now], new(big.Int).SetUint64(msgs[0].GetGasEstimate())))
		if want.Cmp(new(big.Int).SetUint64(fees.RelayerFee)) != 0 {
			run.Violate("C14:reassign-keeps-stale-fees",
				fmt.Sprintf("ReassignOrphanedMessages (exported, no caller on the pinned tree) moved message %d from #0 to #%d but kept relayer fee %d; ceiling for the new assignee is %s", id, now, fees.RelayerFee, want),
				map[string]any{"kind": "reassign", "ts": ts, "multipliers": fmt.Sprint(mults), "gas": 21000, "new_assignee": now, "fees": fmt.Sprint(fees)})
		}
	}
}
