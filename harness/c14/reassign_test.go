package c14

import (
	"fmt"
	"go/ast"
	"go/parser"
	"go/token"
	"io/fs"
	"math/big"
	"os"
	"path/filepath"
	"sort"
	"strings"
	"testing"

	sdkmath "cosmossdk.io/math"
	"github.com/palomachain/paloma/v2/verifharness/emit"
	"github.com/palomachain/paloma/v2/x/consensus/keeper/consensus"
	consensustypes "github.com/palomachain/paloma/v2/x/consensus/types"
	evmtypes "github.com/palomachain/paloma/v2/x/evm/types"
	metrixtypes "github.com/palomachain/paloma/v2/x/metrix/types"
	treasurytypes "github.com/palomachain/paloma/v2/x/treasury/types"
	valsettypes "github.com/palomachain/paloma/v2/x/valset/types"
)

// scanReassignCallers: non-test, non-verif call sites of ReassignOrphanedMessages (and of
// reassignMessageValidator outside it) in the tree under test — the same query the translator
// emits as Gen.C14.reassign_production_callers.  Empty on the merged tree.
func scanReassignCallers(repo string) []string {
	set := map[string]bool{}
	skip := map[string]bool{"mocks": true, "testutil": true, "tests": true, ".git": true, "node_modules": true, "vue": true, "docs": true, "proto": true}
	fset := token.NewFileSet()
	_ = filepath.WalkDir(repo, func(p string, d fs.DirEntry, err error) error {
		if err != nil {
			return nil
		}
		if d.IsDir() {
			if skip[d.Name()] {
				return filepath.SkipDir
			}
			return nil
		}
		n := d.Name()
		if !strings.HasSuffix(n, ".go") || strings.HasSuffix(n, "_test.go") || strings.HasPrefix(n, "verif_hooks") {
			return nil
		}
		src, err := os.ReadFile(p)
		if err != nil || !(strings.Contains(string(src), "ReassignOrphanedMessages") || strings.Contains(string(src), "reassignMessageValidator")) {
			return nil
		}
		if strings.HasPrefix(strings.TrimSpace(string(src)), "//go:build verif") {
			return nil
		}
		f, err := parser.ParseFile(fset, p, src, 0)
		if err != nil {
			return nil
		}
		rel, _ := filepath.Rel(repo, p)
		for _, dcl := range f.Decls {
			fd, ok := dcl.(*ast.FuncDecl)
			if !ok || fd.Body == nil {
				continue
			}
			ast.Inspect(fd.Body, func(x ast.Node) bool {
				ce, ok := x.(*ast.CallExpr)
				if !ok {
					return true
				}
				name := ""
				switch fn := ce.Fun.(type) {
				case *ast.SelectorExpr:
					name = fn.Sel.Name
				case *ast.Ident:
					name = fn.Name
				}
				if name == "ReassignOrphanedMessages" || (name == "reassignMessageValidator" && fd.Name.Name != "ReassignOrphanedMessages") {
					set[rel+":"+fd.Name.Name+" -> "+name] = true
				}
				return true
			})
		}
		return nil
	})
	var out []string
	for k := range set {
		out = append(out, k)
	}
	sort.Strings(out)
	return out
}

// doReassign drives the exported but (on the merged tree) uncalled ReassignOrphanedMessages: the
// message gets a new, eligible assignee, but keeps the fees computed from the previous assignee's
// multiplier.  Latent: no history of the system's API reaches it, so the witness is replayed on the
// real keeper every run but is a violation ONLY when the function has a production caller (the
// translator pins the caller inventory empty; a new caller also breaks that proof step).
func doReassign(t *testing.T, run *emit.Run, p *pool) {
	repo := os.Getenv("VERIF_REPO")
	if repo == "" {
		repo = "/repo"
	}
	callers := scanReassignCallers(repo)
	run.Extra("reassign_production_callers", callers)
	for ts := int64(1700000000); ts < 1700000003; ts++ {
		e := newEnv(t, 5, ts)
		chain := chains[0]
		qn := turnstoneQueue(chain)
		snap := &valsettypes.Snapshot{Id: 1, TotalShares: sdkmath.NewInt(3)}
		mults := []*big.Int{new(big.Int).Div(new(big.Int).Mul(e18, bi(11)), bi(10)), new(big.Int).Mul(e18, bi(2)), new(big.Int).Mul(e18, bi(3))}
		for i := 0; i < 3; i++ {
			snap.Validators = append(snap.Validators, valsettypes.Validator{Address: p.addrs[i], ShareCount: sdkmath.NewInt(1), State: valsettypes.ValidatorState_ACTIVE,
				ExternalChainInfos: []*valsettypes.ExternalChainInfo{{ChainType: "evm", ChainReferenceID: chain, Address: remotes[i]}}})
			if err := e.met.VerifSetValidatorMetrics(e.ctx, p.addrs[i], &metrixtypes.ValidatorMetrics{ValAddress: p.strs[i], Uptime: dec(e18), SuccessRate: dec(e18), ExecutionTime: sdkmath.NewInt(100), FeatureSet: dec(e18)}); err != nil {
				t.Fatal(err)
			}
			if err := e.tre.SetRelayerFee(e.ctx, p.addrs[i], &treasurytypes.RelayerFeeSetting{ValAddress: p.strs[i],
				Fees: []treasurytypes.RelayerFeeSetting_FeeSetting{{ChainReferenceId: chain, Multiplicator: dec(mults[i])}}}); err != nil {
				t.Fatal(err)
			}
		}
		e.vs.snap = snap
		cf, sf := new(big.Int).Div(e18, bi(100)), new(big.Int).Div(e18, bi(50))
		_ = e.tre.SetCommunityFundFee(e.ctx, dec(cf).String())
		_ = e.tre.SetSecurityFee(e.ctx, dec(sf).String())
		id, err := e.cons.PutMessageInQueue(e.ctx, qn, &evmtypes.Message{ChainReferenceID: chain, TurnstoneID: "t", Assignee: p.strs[0], AssigneeRemoteAddress: remotes[0],
			Action: &evmtypes.Message_SubmitLogicCall{SubmitLogicCall: &evmtypes.SubmitLogicCall{HexContractAddress: "0x01", Payload: []byte{1}, SenderAddress: []byte("alice")}}},
			&consensus.PutOptions{RequireSignatures: true, RequireGasEstimation: true})
		if err != nil {
			t.Fatal(err)
		}
		for v := 0; v < 3; v++ {
			if err := e.cons.AddMessageGasEstimates(e.ctx, p.addrs[v], []*consensustypes.MsgAddMessageGasEstimates_GasEstimate{{MsgId: id, QueueTypeName: qn, Value: 21000}}); err != nil {
				t.Fatal(err)
			}
		}
		if err := e.cons.CheckAndProcessEstimatedMessages(e.ctx); err != nil {
			t.Fatal(err)
		}
		later := e.ctx.WithBlockHeight(1000)
		if err := e.cons.ReassignOrphanedMessages(later, 10); err != nil {
			t.Fatal(err)
		}
		msgs, err := e.cons.GetMessagesFromQueue(later, qn, 0)
		if err != nil || len(msgs) != 1 {
			t.Fatalf("queue after reassign: %v %d", err, len(msgs))
		}
		cm, _ := msgs[0].ConsensusMsg(theCdc())
		em := cm.(*evmtypes.Message)
		fees := em.GetSubmitLogicCall().Fees
		now := p.id[em.Assignee]
		run.Count("reassign", fmt.Sprintf("to#%d", now))
		if fees == nil || msgs[0].GetGasEstimate() == 0 {
			t.Fatalf("expected elected estimate and fees before reassignment")
		}
		want := ceilDiv(new(big.Int).Mul(mults[now], new(big.Int).SetUint64(msgs[0].GetGasEstimate())))
		if want.Cmp(new(big.Int).SetUint64(fees.RelayerFee)) != 0 {
			run.Count("reassign", "stale-fees-witnessed")
			if len(callers) > 0 {
				run.Violate("C14:reassign-keeps-stale-fees",
					fmt.Sprintf("ReassignOrphanedMessages (now reachable: %s) moved message %d from #0 to #%d but kept relayer fee %d; ceiling for the new assignee is %s", strings.Join(callers, ", "), id, now, fees.RelayerFee, want),
					map[string]any{"kind": "reassign", "ts": ts, "multipliers": fmt.Sprint(mults), "gas": 21000, "new_assignee": now, "fees": fmt.Sprint(fees), "callers": callers})
			}
		}
	}
}
