package c14

import (
	"math/big"
	"os"
	"testing"

	"github.com/palomachain/paloma/v2/verifharness/emit"
)

func getenv(k string) string { return os.Getenv(k) }

// replayCorpus runs hand-minimised scenarios first (see harness/corpus/C14/README): shapes that
// once disagreed between model and code, or that sit on a boundary of the property.
func replayCorpus(t *testing.T, run *emit.Run, p *pool) {
	one := new(big.Int).Set(e18)
	m := func() [4]*big.Int { return [4]*big.Int{one, one, big.NewInt(100), one} }
	all := func(n int) (map[int][4]*big.Int, map[int]*big.Int) {
		ms, fs := map[int][4]*big.Int{}, map[int]*big.Int{}
		for i := 0; i < n; i++ {
			ms[i], fs[i] = m(), one
		}
		return ms, fs
	}
	// 1. seven fully tied validators: the pool is the five smallest addresses, index = ts mod 5
	for ts := int64(0); ts < 7; ts++ {
		sc := &scenario{feesB: map[int]bool{}, chain: chains[0], ts: ts, req: 1}
		sc.metrics, sc.fees = all(8)
		for i := 0; i < 7; i++ {
			sc.snap = append(sc.snap, sval{id: 7 - i, infos: []cinfo{{chain: chains[0], remote: remotes[i%6]}}})
		}
		doPick(t, run, p, sc, "corpus-tied")
	}
	// 2. MEV demanded, only the worst-ranked validator carries the trait
	{
		sc := &scenario{feesB: map[int]bool{}, chain: chains[0], ts: 1700000001, req: 2}
		sc.metrics, sc.fees = all(4)
		sc.fees[3] = new(big.Int).Mul(one, big.NewInt(9))
		for i := 0; i < 4; i++ {
			ci := cinfo{chain: chains[0], remote: remotes[i]}
			if i == 3 {
				ci.traits = []int{2, 1}
			}
			sc.snap = append(sc.snap, sval{id: i, infos: []cinfo{ci}})
		}
		doPick(t, run, p, sc, "corpus-mev-last")
	}
	// 3. nobody eligible for three different reasons; the enqueue must leave the queue alone
	{
		sc := &scenario{feesB: map[int]bool{1: true}, chain: chains[0], ts: 1700000002, req: 2}
		sc.metrics, sc.fees = all(3)
		delete(sc.metrics, 0)
		delete(sc.fees, 1)
		sc.snap = []sval{{id: 0, infos: []cinfo{{chain: chains[0], remote: remotes[0], traits: []int{1}}}},
			{id: 1, infos: []cinfo{{chain: chains[0], remote: remotes[1], traits: []int{1}}}},
			{id: 2, infos: []cinfo{{chain: chains[1], remote: remotes[2], traits: []int{1}}}}}
		doPick(t, run, p, sc, "corpus-none-eligible")
	}
	// 4. two chain accounts for the same chain: the first one decides trait and remote address
	{
		sc := &scenario{feesB: map[int]bool{}, chain: chains[0], ts: 1700000003, req: 2}
		sc.metrics, sc.fees = all(2)
		sc.snap = []sval{{id: 0, infos: []cinfo{{chain: chains[0], remote: remotes[0]}, {chain: chains[0], remote: remotes[1], traits: []int{1}}}},
			{id: 1, infos: []cinfo{{chain: chains[1], remote: remotes[5], traits: []int{1}}, {chain: chains[0], remote: remotes[2], traits: []int{3, 1}}}}}
		doPick(t, run, p, sc, "corpus-two-accounts")
	}
}
